/-
  Lemmas about the scope chain (`RattrModel.Context`) and the state-passing combinators of the
  function analyser (`RattrModel.FnAnalyser`) shared by C08 / C09 / C17.
-/
import RattrModel.FnAnalyser

namespace Rattr

/-! ### insertion-ordered dictionaries -/

namespace Dict
variable {κ ν : Type} [DecidableEq κ]

theorem get?_set_self (d : Dict κ ν) (x : κ) (y : ν) : get? (set d x y) x = some y := by
  induction d with
  | nil => simp [set, get?]
  | cons p r ih =>
    obtain ⟨k, v⟩ := p
    by_cases h : k = x
    · simp [set, get?, h]
    · simp [set, get?, h, ih]

theorem get?_set_other (d : Dict κ ν) (x z : κ) (y : ν) (h : x ≠ z) :
    get? (set d x y) z = get? d z := by
  induction d with
  | nil => simp [set, get?, h]
  | cons p r ih =>
    obtain ⟨k, v⟩ := p
    by_cases hk : k = x
    · subst hk; simp [set, get?, h]
    · by_cases hz : k = z
      · subst hz; simp [set, get?, hk]
      · simp [set, get?, hk, hz, ih]

theorem contains_set_self (d : Dict κ ν) (x : κ) (y : ν) : contains (set d x y) x = true := by
  simp [contains, get?_set_self]

theorem contains_set_other (d : Dict κ ν) (x z : κ) (y : ν) (h : x ≠ z) :
    contains (set d x y) z = contains d z := by
  simp [contains, get?_set_other d x z y h]

end Dict

namespace Context

/-! ### `eraseKey` -/

theorem get?_eraseKey_other (sc : Scope) (x z : Str) (h : x ≠ z) :
    Dict.get? (eraseKey sc x) z = Dict.get? sc z := by
  induction sc with
  | nil => simp [eraseKey]
  | cons p r ih =>
    obtain ⟨k, v⟩ := p
    by_cases hk : k = x
    · subst hk; simp [eraseKey, Dict.get?, h]
    · by_cases hz : k = z
      · subst hz; simp [eraseKey, Dict.get?, hk]
      · simp [eraseKey, Dict.get?, hk, hz, ih]

theorem eraseKey_of_get?_none (sc : Scope) (x : Str) (h : Dict.get? sc x = none) :
    eraseKey sc x = sc := by
  induction sc with
  | nil => simp [eraseKey]
  | cons p r ih =>
    obtain ⟨k, v⟩ := p
    by_cases hk : k = x
    · simp [Dict.get?, hk] at h
    · simp [Dict.get?, hk] at h
      simp [eraseKey, hk, ih h]

/-- with unique keys (which `Dict.set` maintains) erasing a key makes it absent. -/
theorem get?_eraseKey_self (sc : Scope) (x : Str) (hnd : (Dict.keys sc).Nodup) :
    Dict.get? (eraseKey sc x) x = none := by
  induction sc with
  | nil => simp [eraseKey, Dict.get?]
  | cons p r ih =>
    obtain ⟨k, v⟩ := p
    simp only [Dict.keys, List.map_cons, List.nodup_cons] at hnd
    by_cases hk : k = x
    · subst hk
      simp only [eraseKey, if_true]
      have : ∀ (r : Scope), k ∉ r.map Prod.fst → Dict.get? r k = none := by
        intro r
        induction r with
        | nil => intro _; rfl
        | cons q r' ih' =>
          obtain ⟨k', v'⟩ := q
          intro hm
          simp only [List.map_cons, List.mem_cons, not_or] at hm
          have hne : ¬ k' = k := fun e => hm.1 e.symm
          simp [Dict.get?, hne, ih' hm.2]
      exact this r hnd.1
    · simp [eraseKey, Dict.get?, hk, ih hnd.2]

/-! ### `get?`, `contains` -/

theorem get?_cons (sc : Scope) (r : Context) (x : Str) :
    get? (sc :: r) x = match Dict.get? sc x with | some s => some s | none => get? r x := rfl

theorem get?_cons_some {sc : Scope} {r : Context} {x : Str} {s : Sym} (h : Dict.get? sc x = some s) :
    get? (sc :: r) x = some s := by simp [get?, h]

theorem get?_cons_none {sc : Scope} {r : Context} {x : Str} (h : Dict.get? sc x = none) :
    get? (sc :: r) x = get? r x := by simp [get?, h]

/-- the innermost scope wins. -/
theorem get?_innermost (sc : Scope) (r : Context) (x : Str) (s : Sym) (h : Dict.get? sc x = some s) :
    get? (sc :: r) x = some s := get?_cons_some h

/-! ### `add` -/

theorem add_arg_cons (sc : Scope) (r : Context) (s : Sym) :
    add (sc :: r) s true = Dict.set sc s.name s :: r := by simp [add]

theorem get?_add_arg (c : Context) (s : Sym) : get? (add c s true) s.name = some s := by
  cases c with
  | nil => simp [add, get?, Dict.get?]
  | cons sc r => simp [add, get?, Dict.get?_set_self]

/-- `is_argument=True` always (re)binds: the new symbol is what the name resolves to. -/
theorem contains_add_arg (c : Context) (s : Sym) : contains (add c s true) s.name = true := by
  simp [contains, get?_add_arg]

/-- plain `add` of a visible name is a no-op. -/
theorem add_of_contains (c : Context) (s : Sym) (h : contains c s.name = true) : add c s = c := by
  simp [add, h]

theorem add_of_not_contains (c : Context) (s : Sym) (h : contains c s.name = false) :
    add c s = add c s true := by
  simp [add, h]

/-- plain `add` does NOT rebind a name visible in this scope or an ancestor. -/
theorem get?_add_visible (c : Context) (s : Sym) (h : contains c s.name = true) :
    get? (add c s) s.name = get? c s.name := by rw [add_of_contains c s h]

theorem get?_add_fresh (c : Context) (s : Sym) (h : contains c s.name = false) :
    get? (add c s) s.name = some s := by
  rw [add_of_not_contains c s h, get?_add_arg]

/-- after a plain `add` the name is visible (either it already was, or it is bound now). -/
theorem contains_add (c : Context) (s : Sym) : contains (add c s) s.name = true := by
  cases h : contains c s.name with
  | true => rw [add_of_contains c s h]; exact h
  | false => rw [add_of_not_contains c s h]; exact contains_add_arg c s

/-- `add` (either flavour) never changes what OTHER names resolve to. -/
theorem get?_add_other (c : Context) (s : Sym) (b : Bool) (x : Str) (h : s.name ≠ x) :
    get? (add c s b) x = get? c x := by
  unfold add
  split
  · cases c with
    | nil => simp [get?, Dict.get?, h]
    | cons sc r => simp [get?, Dict.get?_set_other sc s.name x s h]
  · rfl

theorem contains_add_other (c : Context) (s : Sym) (b : Bool) (x : Str) (h : s.name ≠ x) :
    contains (add c s b) x = contains c x := by
  simp [contains, get?_add_other c s b x h]

/-- visibility is monotone under plain `add`. -/
theorem contains_add_mono (c : Context) (s : Sym) (x : Str) (h : contains c x = true) :
    contains (add c s) x = true := by
  by_cases hx : s.name = x
  · subst hx; exact contains_add c s
  · rw [contains_add_other c s false x hx]; exact h

theorem length_add (c : Context) (s : Sym) (b : Bool) (h : c ≠ []) : (add c s b).length = c.length := by
  unfold add
  split
  · cases c with
    | nil => exact absurd rfl h
    | cons sc r => simp
  · rfl

theorem add_ne_nil (c : Context) (s : Sym) (b : Bool) (h : c ≠ []) : add c s b ≠ [] := by
  intro e
  have := length_add c s b h
  rw [e] at this
  cases c with
  | nil => exact h rfl
  | cons _ _ => simp at this

/-- `add` only touches the innermost scope. -/
theorem tail_add (c : Context) (s : Sym) (b : Bool) (h : c ≠ []) : (add c s b).drop 1 = c.drop 1 := by
  unfold add
  split
  · cases c with
    | nil => exact absurd rfl h
    | cons sc r => simp
  · rfl

/-! ### `remove` -/

theorem remove_cons (sc : Scope) (r : Context) (x : Str) : remove (sc :: r) x = eraseKey sc x :: r := rfl

/-- `remove` only affects the innermost scope. -/
theorem tail_remove (c : Context) (x : Str) : (remove c x).drop 1 = c.drop 1 := by
  cases c <;> simp [remove]

theorem length_remove (c : Context) (x : Str) : (remove c x).length = c.length := by
  cases c <;> simp [remove]

theorem get?_remove_other (c : Context) (x z : Str) (h : x ≠ z) : get? (remove c x) z = get? c z := by
  cases c with
  | nil => rfl
  | cons sc r => simp [remove, get?, get?_eraseKey_other sc x z h]

/-- a name bound only in an ancestor scope survives `remove`. -/
theorem get?_remove_ancestor (sc : Scope) (r : Context) (x : Str) (h : Dict.get? sc x = none) :
    get? (remove (sc :: r) x) x = get? r x := by
  simp [remove, eraseKey_of_get?_none sc x h, get?, h]

/-- removing a name bound (once) in the innermost scope exposes the ancestors' binding. -/
theorem get?_remove_self (sc : Scope) (r : Context) (x : Str) (hnd : (Dict.keys sc).Nodup) :
    get? (remove (sc :: r) x) x = get? r x := by
  simp [remove, get?, get?_eraseKey_self sc x hnd]

/-! ### `push` / `pop` -/

@[simp] theorem pop_push (c : Context) : pop (push c) = c := rfl

@[simp] theorem get?_push (c : Context) (x : Str) : get? (push c) x = get? c x := by
  simp [push, get?, Dict.get?]

@[simp] theorem contains_push (c : Context) (x : Str) : contains (push c) x = contains c x := by
  simp [contains]

@[simp] theorem length_push (c : Context) : (push c).length = c.length + 1 := by simp [push]

theorem length_pop (c : Context) : (pop c).length = c.length - 1 := by simp [pop]

theorem push_ne_nil (c : Context) : push c ≠ [] := by simp [push]

/-- a binding made in a pushed scope is gone after the pop, whatever was added/removed there. -/
theorem pop_add_push (c : Context) (s : Sym) (b : Bool) : pop (add (push c) s b) = c := by
  have := tail_add (push c) s b (push_ne_nil c)
  simpa [pop, push] using this

/-! ### folds of `add` / `remove` over a list of names -/

def addNames (c : Context) (names : List Str) : Context :=
  names.foldl (fun c n => add c (nameSym n)) c

def removeNames (c : Context) (names : List Str) : Context :=
  names.foldl (fun c n => remove c n) c

theorem addNames_nil (c : Context) : addNames c [] = c := rfl
theorem addNames_cons (c : Context) (n : Str) (r : List Str) :
    addNames c (n :: r) = addNames (add c (nameSym n)) r := rfl

theorem contains_addNames_mono (c : Context) (names : List Str) (x : Str) (h : contains c x = true) :
    contains (addNames c names) x = true := by
  induction names generalizing c with
  | nil => exact h
  | cons n r ih => exact ih _ (contains_add_mono c (nameSym n) x h)

theorem contains_addNames (c : Context) (names : List Str) (x : Str) (hx : x ∈ names) :
    contains (addNames c names) x = true := by
  induction names generalizing c with
  | nil => cases hx
  | cons n r ih =>
    rw [addNames_cons]
    rcases List.mem_cons.mp hx with h | h
    · subst h
      exact contains_addNames_mono _ r x (contains_add c (nameSym x))
    · exact ih _ h

theorem get?_addNames_other (c : Context) (names : List Str) (x : Str) (hx : x ∉ names) :
    get? (addNames c names) x = get? c x := by
  induction names generalizing c with
  | nil => rfl
  | cons n r ih =>
    simp only [List.mem_cons, not_or] at hx
    rw [addNames_cons, ih _ hx.2]
    exact get?_add_other c (nameSym n) false x (fun e => hx.1 e.symm)

/-- a name already visible keeps its symbol under plain adds (no shadowing by `addNames`). -/
theorem get?_addNames_visible (c : Context) (names : List Str) (x : Str) (h : contains c x = true) :
    get? (addNames c names) x = get? c x := by
  induction names generalizing c with
  | nil => rfl
  | cons n r ih =>
    rw [addNames_cons, ih _ (contains_add_mono c (nameSym n) x h)]
    by_cases hn : n = x
    · subst hn
      exact get?_add_visible c (nameSym n) h
    · exact get?_add_other c (nameSym n) false x hn

theorem length_addNames (c : Context) (names : List Str) (h : c ≠ []) :
    (addNames c names).length = c.length := by
  induction names generalizing c with
  | nil => rfl
  | cons n r ih =>
    rw [addNames_cons, ih _ (add_ne_nil c _ _ h), length_add c _ _ h]

theorem length_removeNames (c : Context) (names : List Str) :
    (removeNames c names).length = c.length := by
  induction names generalizing c with
  | nil => rfl
  | cons n r ih =>
    show (removeNames (remove c n) r).length = _
    rw [ih, length_remove]

theorem tail_addNames (c : Context) (names : List Str) (h : c ≠ []) :
    (addNames c names).drop 1 = c.drop 1 := by
  induction names generalizing c with
  | nil => rfl
  | cons n r ih => rw [addNames_cons, ih _ (add_ne_nil c _ _ h), tail_add c _ _ h]

theorem tail_removeNames (c : Context) (names : List Str) :
    (removeNames c names).drop 1 = c.drop 1 := by
  induction names generalizing c with
  | nil => rfl
  | cons n r ih =>
    show (removeNames (remove c n) r).drop 1 = _
    rw [ih, tail_remove]

/-! ### the fold `add_arguments_to_context` performs (`is_argument=True` for every name) -/

def addArgNames (c : Context) (names : List Str) : Context :=
  names.foldl (fun c n => add c (nameSym n) true) c

theorem addArgNames_nil (c : Context) : addArgNames c [] = c := rfl
theorem addArgNames_cons (c : Context) (n : Str) (r : List Str) :
    addArgNames c (n :: r) = addArgNames (add c (nameSym n) true) r := rfl

theorem get?_addArgNames_other (c : Context) (names : List Str) (x : Str) (hx : x ∉ names) :
    get? (addArgNames c names) x = get? c x := by
  induction names generalizing c with
  | nil => rfl
  | cons n r ih =>
    simp only [List.mem_cons, not_or] at hx
    rw [addArgNames_cons, ih _ hx.2]
    exact get?_add_other c (nameSym n) true x (fun e => hx.1 e.symm)

/-- every listed name resolves to ITS OWN `Name` symbol afterwards, whatever `c` held. -/
theorem get?_addArgNames_mem (c : Context) (names : List Str) (x : Str) (hx : x ∈ names) :
    get? (addArgNames c names) x = some (nameSym x) := by
  induction names generalizing c with
  | nil => cases hx
  | cons n r ih =>
    rw [addArgNames_cons]
    by_cases hr : x ∈ r
    · exact ih _ hr
    · have hn : x = n := by
        rcases List.mem_cons.mp hx with h | h
        · exact h
        · exact absurd h hr
      subst hn
      rw [get?_addArgNames_other _ r x hr]
      exact get?_add_arg c (nameSym x)

theorem contains_addArgNames (c : Context) (names : List Str) (x : Str) (hx : x ∈ names) :
    contains (addArgNames c names) x = true := by
  simp [contains, get?_addArgNames_mem c names x hx]

theorem contains_addArgNames_mono (c : Context) (names : List Str) (x : Str)
    (h : contains c x = true) : contains (addArgNames c names) x = true := by
  by_cases hx : x ∈ names
  · exact contains_addArgNames c names x hx
  · unfold contains; rw [get?_addArgNames_other c names x hx]; exact h

theorem addArgNames_ne_nil (c : Context) (names : List Str) (h : c ≠ []) : addArgNames c names ≠ [] := by
  induction names generalizing c with
  | nil => exact h
  | cons n r ih => rw [addArgNames_cons]; exact ih _ (add_ne_nil c _ _ h)

theorem length_addArgNames (c : Context) (names : List Str) (h : c ≠ []) :
    (addArgNames c names).length = c.length := by
  induction names generalizing c with
  | nil => rfl
  | cons n r ih =>
    rw [addArgNames_cons, ih _ (add_ne_nil c _ _ h), length_add c _ _ h]

theorem tail_addArgNames (c : Context) (names : List Str) (h : c ≠ []) :
    (addArgNames c names).drop 1 = c.drop 1 := by
  induction names generalizing c with
  | nil => rfl
  | cons n r ih => rw [addArgNames_cons, ih _ (add_ne_nil c _ _ h), tail_add c _ _ h]

end Context

/-! ### `addArguments` -/

namespace FnA

theorem addArguments_ctx (s : St) (ps : Params) :
    (addArguments s ps).ctx = Context.addArgNames s.ctx ps.all := rfl

/-- `add_arguments_to_context` makes every parameter name visible. -/
theorem addArguments_contains (s : St) (ps : Params) (x : Str) (hx : x ∈ ps.all) :
    Context.contains (addArguments s ps).ctx x = true := by
  rw [addArguments_ctx]; exact Context.contains_addArgNames _ _ x hx

/-- … and (since fix 87aba71: `is_argument=True`) every parameter resolves to its own `Name`
symbol, shadowing whatever the outer context holds under that name. -/
theorem addArguments_shadows (s : St) (ps : Params) (x : Str) (hx : x ∈ ps.all) :
    Context.get? (addArguments s ps).ctx x = some (Context.nameSym x) := by
  rw [addArguments_ctx]; exact Context.get?_addArgNames_mem _ _ x hx

/-- names that are not parameters resolve as before. -/
theorem addArguments_other (s : St) (ps : Params) (x : Str) (hx : x ∉ ps.all) :
    Context.get? (addArguments s ps).ctx x = Context.get? s.ctx x := by
  rw [addArguments_ctx]; exact Context.get?_addArgNames_other _ _ x hx

theorem addArguments_contains_mono (s : St) (ps : Params) (x : Str)
    (h : Context.contains s.ctx x = true) : Context.contains (addArguments s ps).ctx x = true := by
  rw [addArguments_ctx]; exact Context.contains_addArgNames_mono _ _ x h

theorem addArguments_length (s : St) (ps : Params) (h : s.ctx ≠ []) :
    (addArguments s ps).ctx.length = s.ctx.length := by
  rw [addArguments_ctx]; exact Context.length_addArgNames _ _ h

/-- the parameters live in the innermost scope only: the enclosing scopes are untouched. -/
theorem addArguments_tail (s : St) (ps : Params) (h : s.ctx ≠ []) :
    (addArguments s ps).ctx.drop 1 = s.ctx.drop 1 := by
  rw [addArguments_ctx]; exact Context.tail_addArgNames _ _ h

theorem mem_params_all (ps : Params) (x : Str) :
    x ∈ ps.all ↔ x ∈ ps.posonly ∨ x ∈ ps.args ∨ ps.vararg = some x ∨ x ∈ ps.kwonly ∨ ps.kwarg = some x := by
  simp only [Params.all, Params.iface, Iface.all, List.mem_append, Option.mem_toList]
  simp only [or_assoc]

end FnA
end Rattr

/-! ### state helpers, `getAndVerify`, call records -/

namespace Rattr.FnA
open Rattr.Strs

@[simp] theorem St.diag_ctx (s : St) (d : Diag) : (St.diag s d).ctx = s.ctx := rfl
@[simp] theorem St.diagL_ctx (s : St) (ds : List Diag) : (St.diagL s ds).ctx = s.ctx := rfl
@[simp] theorem St.diag_calls (s : St) (d : Diag) : (St.diag s d).calls = s.calls := rfl
@[simp] theorem St.diagL_calls (s : St) (ds : List Diag) : (St.diagL s ds).calls = s.calls := rfl
@[simp] theorem St.diag_sets (s : St) (d : Diag) : (St.diag s d).sets = s.sets := rfl
@[simp] theorem St.diagL_sets (s : St) (ds : List Diag) : (St.diagL s ds).sets = s.sets := rfl
@[simp] theorem St.diag_diags (s : St) (d : Diag) : (St.diag s d).diags = s.diags ++ [d] := rfl
@[simp] theorem St.diagL_diags (s : St) (ds : List Diag) : (St.diagL s ds).diags = s.diags ++ ds := rfl

theorem St.diagL_nil (s : St) : St.diagL s [] = s := by
  cases s; simp [St.diagL]

theorem St.diagL_diag (s : St) (d : Diag) (ds : List Diag) :
    St.diagL (St.diag s d) ds = St.diagL s (d :: ds) := by
  cases s; simp [St.diagL, St.diag]

theorem St.diagL_diagL (s : St) (a b : List Diag) :
    St.diagL (St.diagL s a) b = St.diagL s (a ++ b) := by
  cases s; simp [St.diagL]

theorem St.diag_eq_diagL (s : St) (d : Diag) : St.diag s d = St.diagL s [d] := rfl

/-- the state `get_and_verify_name` hands to its continuation. -/
def verifySt (s : St) (base : Str) (c : ECtx) : St :=
  if (!Context.contains s.ctx base && c != .store && !startsWith base ['@']) = true
  then St.diag s (mkDiag .warning "undefined" base) else s

theorem getAndVerify_ok (s : St) (n : Node) (c : ECtx) (k : St → Str → Str → Res) (base full : Str)
    (h : namesOf true n = .ok base full) :
    getAndVerify s n c k = k (verifySt s base c) base full := by
  simp [getAndVerify, liftName, h, verifySt]

@[simp] theorem verifySt_ctx (s : St) (b : Str) (c : ECtx) : (verifySt s b c).ctx = s.ctx := by
  unfold verifySt; split <;> rfl
@[simp] theorem verifySt_calls (s : St) (b : Str) (c : ECtx) : (verifySt s b c).calls = s.calls := by
  unfold verifySt; split <;> rfl
@[simp] theorem verifySt_sets (s : St) (b : Str) (c : ECtx) : (verifySt s b c).sets = s.sets := by
  unfold verifySt; split <;> rfl
@[simp] theorem verifySt_gets (s : St) (b : Str) (c : ECtx) : (verifySt s b c).gets = s.gets := by
  unfold verifySt; split <;> rfl
@[simp] theorem verifySt_dels (s : St) (b : Str) (c : ECtx) : (verifySt s b c).dels = s.dels := by
  unfold verifySt; split <;> rfl

theorem verifySt_bound (s : St) (b : Str) (c : ECtx) (h : Context.contains s.ctx b = true) :
    verifySt s b c = s := by simp [verifySt, h]

theorem verifySt_store (s : St) (b : Str) : verifySt s b .store = s := by simp [verifySt]

theorem verifySt_unbound (s : St) (b : Str) (c : ECtx) (h : Context.contains s.ctx b = false)
    (hc : c ≠ .store) (hat : startsWith b ['@'] = false) :
    verifySt s b c = St.diag s (mkDiag .warning "undefined" b) := by
  cases c <;> simp_all [verifySt]

end Rattr.FnA

/-! ### scope-depth bookkeeping (`Bal`) for the combinators of the visitor -/

namespace Rattr.FnA
open Rattr.Strs

/-- `Bal n r`: if `r` is a normal outcome, its scope chain has depth `n`. -/
def Bal (n : Nat) (r : Res) : Prop := ∀ s', r = .ok s' → s'.ctx.length = n

theorem Bal.ok {n : Nat} {s : St} (h : s.ctx.length = n) : Bal n (.ok s) := by
  intro s' e; injection e with e; subst e; exact h
theorem Bal.fatal {n : Nat} {s : St} {d : Diag} : Bal n (.fatal s d) := by intro s' e; cases e
theorem Bal.crash {n : Nat} {s : St} {x : Str} : Bal n (.crash s x) := by intro s' e; cases e

theorem Bal.bind' {n m : Nat} {r : Res} {f : St → Res} (hr : Bal m r)
    (hf : ∀ s, s.ctx.length = m → Bal n (f s)) : Bal n (r >>>= f) := by
  cases r with
  | ok s => exact hf s (hr s rfl)
  | fatal s d => exact Bal.fatal
  | crash s e => exact Bal.crash

theorem Bal.bind {n : Nat} {r : Res} {f : St → Res} (hr : Bal n r)
    (hf : ∀ s, s.ctx.length = n → Bal n (f s)) : Bal n (r >>>= f) := Bal.bind' hr hf

theorem Bal.bind_any {n : Nat} {r : Res} {f : St → Res} (hf : ∀ s, Bal n (f s)) : Bal n (r >>>= f) := by
  cases r with
  | ok s => exact hf s
  | fatal s d => exact Bal.fatal
  | crash s e => exact Bal.crash

theorem Bal.liftName {n : Nat} {s : St} {r : NameRes} {k : Str → Str → Res}
    (hk : ∀ b f, Bal n (k b f)) : Bal n (liftName s r k) := by
  cases r with
  | ok b f => exact hk b f
  | fatal d => exact Bal.fatal
  | crash e => exact Bal.crash

theorem Bal.getAndVerify {n : Nat} {s : St} {nd : Node} {c : ECtx} {k : St → Str → Str → Res}
    (hs : s.ctx.length = n) (hk : ∀ s1 b f, s1.ctx.length = n → Bal n (k s1 b f)) :
    Bal n (getAndVerify s nd c k) := by
  unfold FnA.getAndVerify
  apply Bal.liftName
  intro b f
  apply hk
  split <;> simpa using hs

theorem Bal.protect {n : Nat} {outer : St} {r : Res} (h : Bal n r) : Bal n (protect outer r) := by
  cases r with
  | ok s => exact h
  | fatal s d => exact Bal.fatal
  | crash s e => exact Bal.crash

theorem Bal.argNames {n : Nat} (args : List Node) (s : St) (k : St → List Str → Res)
    (hs : s.ctx.length = n) (hk : ∀ s1 l, s1.ctx.length = n → Bal n (k s1 l)) :
    Bal n (argNames s args k) := by
  induction args generalizing s k with
  | nil => exact hk s [] hs
  | cons a r ih =>
    simp only [FnA.argNames]
    split
    · apply ih
      · split <;> simpa using hs
      · intro s1 l h1; exact hk s1 _ h1
    · exact Bal.fatal
    · exact Bal.crash

theorem Bal.kwargNames {n : Nat} (kwn : List (Option Str)) (kwv : List Node) (s : St)
    (k : St → List (Str × Str) → Res)
    (hs : s.ctx.length = n) (hk : ∀ s1 l, s1.ctx.length = n → Bal n (k s1 l)) :
    Bal n (kwargNames s kwn kwv k) := by
  induction kwn generalizing kwv k with
  | nil => simp only [FnA.kwargNames]; exact hk s [] hs
  | cons a rn ih =>
    cases kwv with
    | nil => cases a <;> (simp only [FnA.kwargNames]; exact hk s [] hs)
    | cons v rv =>
      cases a with
      | none => simp only [FnA.kwargNames]; exact ih rv k hk
      | some kk =>
        simp only [FnA.kwargNames]
        split
        · exact ih rv _ (fun s1 l h1 => hk s1 _ h1)
        · exact Bal.fatal
        · exact Bal.crash

theorem Bal.mkCall {n : Nat} (s : St) (name : Str) (args : List Node) (kwn : List (Option Str))
    (kwv : List Node) (target : Option Sym) (self : Option Str) (k : St → CallSym → Res)
    (hs : s.ctx.length = n) (hk : ∀ s1 c, s1.ctx.length = n → Bal n (k s1 c)) :
    Bal n (mkCall s name args kwn kwv target self k) := by
  unfold FnA.mkCall
  apply Bal.argNames args s _ hs
  intro s1 l h1
  apply Bal.kwargNames kwn kwv s1 _ h1
  intro s2 l2 h2
  exact hk s2 _ h2

theorem Bal.dynamicName {n : Nat} (s : St) (fn : Str) (args : List Node) (k : St → NameS → Res)
    (hs : s.ctx.length = n) (hk : ∀ s1 nm, s1.ctx.length = n → Bal n (k s1 nm)) :
    Bal n (dynamicName s fn args k) := by
  unfold FnA.dynamicName
  simp only []
  repeat' split
  all_goals first | exact Bal.fatal | exact Bal.crash | (apply hk; simpa using hs)

theorem ne_nil_of_length {c : Context} {n : Nat} (hn : 0 < n) (h : c.length = n) : c ≠ [] := by
  intro e; subst e; simp at h; omega

theorem Bal.addIdentifiers {n : Nat} (s : St) (t : Node) (hn : 0 < n) (hs : s.ctx.length = n) :
    Bal n (addIdentifiers s t) := by
  unfold FnA.addIdentifiers
  split
  · apply Bal.ok
    show (Context.addNames s.ctx _).length = n
    rw [Context.length_addNames _ _ (ne_nil_of_length hn hs)]; exact hs
  · exact Bal.fatal
  · exact Bal.crash

theorem Bal.removeIdentifiers {n : Nat} (s : St) (t : Node) (hs : s.ctx.length = n) :
    Bal n (removeIdentifiers s t) := by
  unfold FnA.removeIdentifiers
  split
  · apply Bal.ok
    show (Context.removeNames s.ctx _).length = n
    rw [Context.length_removeNames]; exact hs
  · exact Bal.fatal
  · exact Bal.crash

theorem Bal.addIdentifiersL {n : Nat} (ts : List Node) (s : St) (hn : 0 < n) (hs : s.ctx.length = n) :
    Bal n (addIdentifiersL s ts) := by
  induction ts generalizing s with
  | nil => exact Bal.ok hs
  | cons t r ih =>
    simp only [FnA.addIdentifiersL]
    exact Bal.bind (Bal.addIdentifiers s t hn hs) (fun s1 h1 => ih s1 h1)

theorem Bal.removeIdentifiersL {n : Nat} (ts : List Node) (s : St) (hs : s.ctx.length = n) :
    Bal n (removeIdentifiersL s ts) := by
  induction ts generalizing s with
  | nil => exact Bal.ok hs
  | cons t r ih =>
    simp only [FnA.removeIdentifiersL]
    exact Bal.bind (Bal.removeIdentifiers s t hs) (fun s1 h1 => ih s1 h1)

theorem Bal.withRegister {n : Nat} (items : List Node) (s : St) (hn : 0 < n) (hs : s.ctx.length = n) :
    Bal n (withRegister items s) := by
  induction items generalizing s with
  | nil => exact Bal.ok hs
  | cons it r ih =>
    cases it with
    | withitem ce vars =>
      simp only [FnA.withRegister]
      exact Bal.bind (Bal.addIdentifiersL vars s hn hs) (fun s1 h1 => ih s1 h1)
    | _ => simp only [FnA.withRegister]; exact ih s hs

theorem Bal.defaultdictNamed {n : Nat} (env : Env) (factory : Node) (s : St) (hs : s.ctx.length = n) :
    Bal n (defaultdictNamed env factory s) := by
  unfold FnA.defaultdictNamed
  apply Bal.liftName
  intro _ name
  exact Bal.ok hs

@[simp] theorem updateResults_ctx (s : St) (nm : NameS) (c : ECtx) : (updateResults s nm c).ctx = s.ctx := by
  cases c <;> rfl

@[simp] theorem mergeIr_ctx (s t : St) : (mergeIr s t).ctx = t.ctx := rfl
@[simp] theorem freshIr_ctx (s : St) : (freshIr s).ctx = s.ctx := rfl

theorem addArguments_length' {n : Nat} (s : St) (ps : Params) (hn : 0 < n) (hs : s.ctx.length = n) :
    (addArguments s ps).ctx.length = n := by
  rw [addArguments_length s ps (ne_nil_of_length hn hs)]; exact hs

end Rattr.FnA

/-! ### push / pop balance of the whole visitor (mutual, by well-founded recursion on the node) -/

namespace Rattr.FnA
open Rattr.Strs

theorem compound_bal {n : Nat} (env : Env) (mn : Str) (v : Node) (nm : NameS) (c : ECtx) (s1 : St)
    (h1 : s1.ctx.length = n) (ih : ∀ s, s.ctx.length = n → Bal n (visit env mn v s)) :
    Bal n ((if (!v.isNameable) = true then visit env mn v s1 else Res.ok s1) >>>= fun s =>
      Res.ok (updateResults s nm c)) := by
  apply Bal.bind
  · split
    · exact ih s1 h1
    · exact Bal.ok h1
  · intro s2 h2; exact Bal.ok (by simpa using h2)

/-- scope-depth invariant for the outcome of the assignment diversions. -/
def ABal (n : Nat) : AssignOut → Prop
  | .done r => Bal n r
  | .generic s => s.ctx.length = n

theorem ABal.done {n : Nat} {r : Res} (h : Bal n r) : ABal n (.done r) := h
theorem ABal.generic {n : Nat} {s : St} (h : s.ctx.length = n) : ABal n (.generic s) := h

mutual
theorem visit_bal (env : Env) (mn : Str) : (nd : Node) → (n : Nat) → (s : St) → 0 < n →
    s.ctx.length = n → Bal n (visit env mn nd s)
  | .name id c, n, s, hn, hs => by
    rw [visit.eq_def]; simp only []
    apply Bal.getAndVerify hs; intro s1 b f h1
    exact Bal.ok (by simpa using h1)
  | .attr v a c, n, s, hn, hs => by
    rw [visit.eq_def]; simp only []
    apply Bal.getAndVerify hs; intro s1 b f h1
    exact compound_bal env mn v _ c s1 h1 (fun s h => visit_bal env mn v n s hn h)
  | .sub v sl c, n, s, hn, hs => by
    rw [visit.eq_def]; simp only []
    apply Bal.getAndVerify hs; intro s1 b f h1
    exact compound_bal env mn v _ c s1 h1 (fun s h => visit_bal env mn v n s hn h)
  | .starred v c, n, s, hn, hs => by
    rw [visit.eq_def]; simp only []
    apply Bal.getAndVerify hs; intro s1 b f h1
    exact compound_bal env mn v _ c s1 h1 (fun s h => visit_bal env mn v n s hn h)
  | .call f args kwn kwv, n, s, hn, hs => by
    rw [visit.eq_def]; simp only []
    apply Bal.liftName; intro _ tn
    split
    · -- custom analyser
      rename_i q _
      split
      · exact Bal.dynamicName s tn args _ hs (fun s1 nm h1 => Bal.ok h1)
      split
      · exact Bal.dynamicName s tn args _ hs (fun s1 nm h1 => Bal.ok h1)
      split
      · exact Bal.dynamicName s tn args _ hs (fun s1 nm h1 => Bal.ok h1)
      split
      · -- sorted
        cases args with
        | nil => exact Bal.ok hs
        | cons a0 tl =>
          simp only []
          apply Bal.bind (n := n)
          · apply Bal.protect
            apply Bal.bind (visit_bal env mn a0 n _ hn (by simpa using hs))
            intro t ht
            exact sortedKey_bal env mn (namesOf true a0) kwn kwv n t hn ht
          · intro t ht; exact Bal.ok (by simpa using ht)
      split
      · -- defaultdict
        cases args with
        | nil => exact Bal.ok hs
        | cons factory tl =>
          simp only []
          split
          · rename_i ps body _
            apply Bal.bind' (m := n + 1)
            · apply Bal.protect
              apply visit_bal env mn body (n + 1) _ (by omega)
              apply addArguments_length' _ _ (by omega)
              simp [hs]
            · intro t ht; apply Bal.ok; simp [Context.length_pop, ht]
          · exact Bal.defaultdictNamed env _ s hs
          · exact Bal.defaultdictNamed env _ s hs
          · apply Bal.bind' (m := n + 1)
            · apply Bal.protect
              apply visit_bal env mn factory (n + 1) _ (by omega)
              simp [hs]
            · intro t ht; apply Bal.ok; simp [Context.length_pop, ht]
      · exact Bal.ok hs
    · -- ordinary call
      apply Bal.getAndVerify hs; intro s1 _ fullname h1
      apply Bal.mkCall
      · simp only []
        split
        · split <;> simpa using h1
        · simpa using h1
      · intro s2 c h2
        exact Bal.bind (visitList_bal env mn args n _ hn h2) (fun s3 h3 => visitList_bal env mn kwv n s3 hn h3)
  | .lam ps body, n, s, hn, hs => by
    rw [visit.eq_def]; simp only []
    apply Bal.bind' (m := n + 1)
    · apply visit_bal env mn body (n + 1) _ (by omega)
      apply addArguments_length' _ _ (by omega)
      simp [hs]
    · intro t ht; apply Bal.ok; simp [Context.length_pop, ht]
  | .comp k elts gens, n, s, hn, hs => by
    rw [visit.eq_def]; simp only []
    apply Bal.bind' (m := n + 1) (visitList_bal env mn gens (n + 1) _ (by omega) (by simp [hs]))
    intro s1 h1
    apply Bal.bind' (m := n + 1) (visitList_bal env mn elts (n + 1) s1 (by omega) h1)
    intro s2 h2; apply Bal.ok; simp [Context.length_pop, h2]
  | .gen target iter ifs, n, s, hn, hs => by
    rw [visit.eq_def]; simp only []
    exact Bal.bind (Bal.addIdentifiers s target hn hs) fun s1 h1 =>
      Bal.bind (visit_bal env mn target n s1 hn h1) fun s2 h2 =>
      Bal.bind (visit_bal env mn iter n s2 hn h2) fun s3 h3 => visitList_bal env mn ifs n s3 hn h3
  | .walrus t v, n, s, hn, hs => by
    rw [visit.eq_def]; simp only []
    apply Bal.liftName; intro base full
    apply Bal.bind (n := n)
    · split
      · exact visit_bal env mn v n _ hn hs
      · exact Bal.ok hs
    · intro s1 h1
      have ih := assignDiv_bal env mn [t] v n s1 hn h1
      split
      · rename_i r heq; rw [heq] at ih; exact ih
      · rename_i s2 heq; rw [heq] at ih
        exact Bal.bind (visit_bal env mn t n s2 hn ih) fun s3 h3 => visit_bal env mn v n s3 hn h3
  | .strConst _, n, s, hn, hs => by rw [visit.eq_def]; exact Bal.ok hs
  | .const, n, s, hn, hs => by rw [visit.eq_def]; exact Bal.ok hs
  | .seq _ elts _, n, s, hn, hs => by rw [visit.eq_def]; exact visitList_bal env mn elts n s hn hs
  | .dict keys vals, n, s, hn, hs => by
    rw [visit.eq_def]
    exact Bal.bind (visitList_bal env mn keys n s hn hs) fun s1 h1 => visitList_bal env mn vals n s1 hn h1
  | .assign targets v, n, s, hn, hs => by
    rw [visit.eq_def]; simp only []
    have ih := assignDiv_bal env mn targets v n s hn hs
    split
    · rename_i r heq; rw [heq] at ih; exact ih
    · rename_i s2 heq; rw [heq] at ih
      exact Bal.bind (visitList_bal env mn targets n s2 hn ih) fun s3 h3 => visit_bal env mn v n s3 hn h3
  | .annAssign t ann [], n, s, hn, hs => by
    rw [visit.eq_def]; simp only []
    exact Bal.bind (Bal.addIdentifiers s t hn hs) fun s1 h1 =>
      Bal.bind (visit_bal env mn t n s1 hn h1) fun s2 h2 => visit_bal env mn ann n s2 hn h2
  | .annAssign t ann (v0 :: _), n, s, hn, hs => by
    rw [visit.eq_def]; simp only []
    have ih := assignDiv_bal env mn [t] v0 n s hn hs
    split
    · rename_i r heq; rw [heq] at ih; exact ih
    · rename_i s2 heq; rw [heq] at ih
      exact Bal.bind (visit_bal env mn t n s2 hn ih) fun s3 h3 =>
        Bal.bind (visit_bal env mn ann n s3 hn h3) fun s4 h4 => visit_bal env mn v0 n s4 hn h4
  | .augAssign t v, n, s, hn, hs => by
    rw [visit.eq_def]; simp only []
    have ih := assignDiv_bal env mn [t] v n s hn hs
    split
    · rename_i r heq; rw [heq] at ih; exact ih
    · rename_i s2 heq; rw [heq] at ih
      exact Bal.bind (visit_bal env mn t n s2 hn ih) fun s3 h3 => visit_bal env mn v n s3 hn h3
  | .delete targets, n, s, hn, hs => by
    rw [visit.eq_def]; simp only []
    exact Bal.bind (visitList_bal env mn targets n s hn hs) fun s1 h1 => Bal.removeIdentifiersL targets s1 h1
  | .forLoop t iter body orelse, n, s, hn, hs => by
    rw [visit.eq_def]; simp only []
    exact Bal.bind (Bal.addIdentifiers s t hn hs) fun s1 h1 =>
      Bal.bind (visit_bal env mn t n s1 hn h1) fun s2 h2 =>
      Bal.bind (visit_bal env mn iter n s2 hn h2) fun s3 h3 =>
      Bal.bind (visitList_bal env mn body n s3 hn h3) fun s4 h4 => visitList_bal env mn orelse n s4 hn h4
  | .withStmt items body, n, s, hn, hs => by
    rw [visit.eq_def]; simp only []
    exact Bal.bind (Bal.withRegister items s hn hs) fun s1 h1 =>
      Bal.bind (visitList_bal env mn items n s1 hn h1) fun s2 h2 => visitList_bal env mn body n s2 hn h2
  | .withitem ce vars, n, s, hn, hs => by
    rw [visit.eq_def]; simp only []
    exact Bal.bind (visit_bal env mn ce n s hn hs) fun s1 h1 => visitList_bal env mn vars n s1 hn h1
  | .funcDef name ps body, n, s, hn, hs => by
    rw [visit.eq_def]; simp only []
    apply Bal.bind' (m := n + 1)
    · apply visitList_bal env mn body (n + 1) _ (by omega)
      apply addArguments_length' _ _ (by omega)
      simp [hs, Context.length_add _ _ _ (ne_nil_of_length hn hs)]
    · intro t ht; apply Bal.ok; simp [Context.length_pop, ht]
  | .classDef _, n, s, hn, hs => by rw [visit.eq_def]; exact Bal.ok hs
  | .ret [], n, s, hn, hs => by rw [visit.eq_def]; exact Bal.ok hs
  | .ret (v0 :: _), n, s, hn, hs => by
    rw [visit.eq_def]; simp only []
    apply retVal_bal env mn v0 n s _ hn hs
    intro s1 b h1
    split
    · exact Bal.ok h1
    · exact visit_bal env mn v0 n s1 hn h1
  | .forbidden _, n, s, hn, hs => by rw [visit.eq_def]; exact Bal.fatal
  | .other _ kids, n, s, hn, hs => by rw [visit.eq_def]; exact visitList_bal env mn kids n s hn hs
termination_by nd => (sizeOf nd, 1)

theorem visitList_bal (env : Env) (mn : Str) : (l : List Node) → (n : Nat) → (s : St) → 0 < n →
    s.ctx.length = n → Bal n (visitList env mn l s)
  | [], n, s, hn, hs => by simp only [visitList]; exact Bal.ok hs
  | x :: r, n, s, hn, hs => by
    simp only [visitList]
    exact Bal.bind (visit_bal env mn x n s hn hs) fun s1 h1 => visitList_bal env mn r n s1 hn h1
termination_by l => (sizeOf l, 0)

theorem sortedKey_bal (env : Env) (mn : Str) (r : NameRes) : (kwn : List (Option Str)) →
    (kwv : List Node) → (n : Nat) → (t : St) → 0 < n → t.ctx.length = n →
    Bal n (visitSortedKey env mn r kwn kwv t)
  | some k :: rn, v :: rv, n, t, hn, ht => by
    rw [visitSortedKey.eq_def]; simp only []
    split
    · split
      · split
        · exact Bal.crash
        · apply Bal.liftName; intro _ iterable
          apply Bal.bind_any
          intro l
          split
          · exact Bal.crash
          · exact Bal.ok (by simpa using ht)
      · exact visit_bal env mn v n t hn ht
    · exact sortedKey_bal env mn r rn rv n t hn ht
  | none :: rn, _ :: rv, n, t, hn, ht => by
    rw [visitSortedKey.eq_def]; simp only []
    exact sortedKey_bal env mn r rn rv n t hn ht
  | [], _, n, t, hn, ht => by rw [visitSortedKey.eq_def]; exact Bal.ok ht
  | some _ :: _, [], n, t, hn, ht => by rw [visitSortedKey.eq_def]; exact Bal.ok ht
  | none :: _, [], n, t, hn, ht => by rw [visitSortedKey.eq_def]; exact Bal.ok ht
termination_by _kwn kwv => (sizeOf kwv, 0)

theorem assignDiv_bal (env : Env) (mn : Str) (targets : List Node) : (v : Node) → (n : Nat) →
    (s : St) → 0 < n → s.ctx.length = n → ABal n (assignDiv env mn targets v s)
  | v, n, s, hn, hs => by
    have hne := ne_nil_of_length hn hs
    rw [assignDiv.eq_def]; simp only []
    split
    · -- lambda on the right
      split
      · exact ABal.done Bal.fatal
      · split
        · apply ABal.done; apply Bal.liftName; intro _ name
          exact Bal.ok (by simp [Context.length_add _ _ _ hne, hs])
        · exact ABal.done Bal.fatal
    · split
      · -- namedtuple
        split
        · exact ABal.done Bal.fatal
        · split
          · apply ABal.done; apply Bal.liftName; intro _ name
            split
            · exact Bal.ok (by simpa using hs)
            · exact Bal.ok (by simp [Context.length_add _ _ _ hne, hs])
          · exact ABal.done Bal.crash
      · split
        · exact ABal.done Bal.fatal
        · exact ABal.done Bal.crash
        · have hb := Bal.addIdentifiersL targets s hn hs
          split
          · rename_i s1 heq; exact ABal.generic (hb s1 heq)
          · exact ABal.done hb
        · split
          · exact ABal.done Bal.fatal
          · split
            · rename_i t tl f args kwn kwv _ _ _ _
              apply ABal.done; apply Bal.liftName; intro lb ln
              apply Bal.liftName; intro _ cn
              apply Bal.mkCall _ _ _ _ _ _ _ _ (by simpa using hs)
              intro s2 c h2
              apply Bal.bind (Bal.addIdentifiersL _ _ hn (by simpa using h2))
              intro s3 h3
              exact Bal.bind (visitList_bal env mn args n s3 hn h3) fun s4 h4 =>
                visitList_bal env mn kwv n s4 hn h4
            · exact ABal.done Bal.crash
termination_by v => (sizeOf v, 0)

theorem retVal_bal (env : Env) (mn : Str) : (nd : Node) → (n : Nat) → (s : St) →
    (k : St → Bool → Res) → 0 < n → s.ctx.length = n →
    (∀ s1 b, s1.ctx.length = n → Bal n (k s1 b)) → Bal n (visitReturnValue env mn nd s k)
  | nd, n, s, k, hn, hs, hk => by
    rw [visitReturnValue.eq_def]; simp only []
    split
    · rename_i kind elts c
      exact Bal.bind (retElts_bal env mn elts n s hn hs) fun s1 h1 => hk s1 true h1
    · rename_i keys vals
      exact Bal.bind (retElts_bal env mn keys n s hn hs) fun s1 h1 =>
        Bal.bind (retElts_bal env mn vals n s1 hn h1) fun s2 h2 => hk s2 true h2
    · rename_i f args kwn kwv
      split
      · exact hk s false hs
      · apply Bal.liftName; intro _ full
        split
        · exact hk s false hs
        · apply Bal.liftName; intro _ cn
          apply Bal.mkCall _ _ _ _ _ _ _ _ (by simpa using hs)
          intro s2 c h2
          exact Bal.bind (visitList_bal env mn args n _ hn (by simpa using h2)) fun s3 h3 =>
            Bal.bind (visitList_bal env mn kwv n s3 hn h3) fun s4 h4 => hk s4 true h4
    · exact hk s false hs
termination_by nd => (sizeOf nd, 0)

theorem retElts_bal (env : Env) (mn : Str) : (l : List Node) → (n : Nat) → (s : St) → 0 < n →
    s.ctx.length = n → Bal n (visitReturnElts env mn l s)
  | [], n, s, hn, hs => by simp only [visitReturnElts]; exact Bal.ok hs
  | e :: r, n, s, hn, hs => by
    simp only [visitReturnElts]
    apply Bal.bind (n := n)
    · apply retVal_bal env mn e n s _ hn hs
      intro s1 b h1
      split
      · exact Bal.ok h1
      · exact visit_bal env mn e n s1 hn h1
    · intro s1 h1; exact retElts_bal env mn r n s1 hn h1
termination_by l => (sizeOf l, 0)
end

end Rattr.FnA

/-! ### an invariant of the recorded calls, for the whole visitor (same recursion as the balance proof) -/

set_option linter.unusedVariables false

namespace Rattr.FnA
open Rattr.Strs

/-! ### an invariant of the `calls` set of the whole visitor -/

def AllQ (Q : CallSym → Prop) (l : List CallSym) : Prop := ∀ c ∈ l, Q c

/-- `CI Q r`: if `r` is a normal outcome, every call record in it satisfies `Q`. -/
def CI (Q : CallSym → Prop) (r : Res) : Prop := ∀ s', r = .ok s' → AllQ Q s'.calls

section
variable {Q : CallSym → Prop}

theorem AllQ.nil : AllQ Q [] := by intro c h; cases h

theorem AllQ.addCall {l : List CallSym} {c : CallSym} (hl : AllQ Q l) (hc : Q c) : AllQ Q (addCall l c) := by
  unfold FnA.addCall
  split
  · exact hl
  · intro x hx
    rcases List.mem_append.mp hx with h | h
    · exact hl x h
    · simp only [List.mem_singleton] at h; subst h; exact hc

theorem AllQ.unionC {a b : List CallSym} (ha : AllQ Q a) (hb : AllQ Q b) : AllQ Q (unionC a b) := by
  unfold FnA.unionC
  induction b generalizing a with
  | nil => exact ha
  | cons x r ih =>
    simp only [List.foldl_cons]
    exact ih (AllQ.addCall ha (hb x List.mem_cons_self)) (fun c hc => hb c (List.mem_cons_of_mem _ hc))

theorem CI.ok {s : St} (h : AllQ Q s.calls) : CI Q (.ok s) := by
  intro s' e; injection e with e; subst e; exact h
theorem CI.fatal {s : St} {d : Diag} : CI Q (.fatal s d) := by intro s' e; cases e
theorem CI.crash {s : St} {x : Str} : CI Q (.crash s x) := by intro s' e; cases e

theorem CI.bind {r : Res} {f : St → Res} (hr : CI Q r)
    (hf : ∀ s, AllQ Q s.calls → CI Q (f s)) : CI Q (r >>>= f) := by
  cases r with
  | ok s => exact hf s (hr s rfl)
  | fatal s d => exact CI.fatal
  | crash s e => exact CI.crash

theorem CI.liftName {s : St} {r : NameRes} {k : Str → Str → Res}
    (hk : ∀ b f, CI Q (k b f)) : CI Q (liftName s r k) := by
  cases r with
  | ok b f => exact hk b f
  | fatal d => exact CI.fatal
  | crash e => exact CI.crash

theorem CI.getAndVerify {s : St} {nd : Node} {c : ECtx} {k : St → Str → Str → Res}
    (hs : AllQ Q s.calls) (hk : ∀ s1 b f, AllQ Q s1.calls → CI Q (k s1 b f)) :
    CI Q (getAndVerify s nd c k) := by
  unfold FnA.getAndVerify
  apply CI.liftName
  intro b f
  apply hk
  split <;> simpa using hs

theorem CI.protect {outer : St} {r : Res} (h : CI Q r) : CI Q (protect outer r) := by
  cases r with
  | ok s => exact h
  | fatal s d => exact CI.fatal
  | crash s e => exact CI.crash

theorem CI.dynamicName (s : St) (fn : Str) (args : List Node) (k : St → NameS → Res)
    (hs : AllQ Q s.calls) (hk : ∀ s1 nm, AllQ Q s1.calls → CI Q (k s1 nm)) :
    CI Q (dynamicName s fn args k) := by
  unfold FnA.dynamicName
  simp only []
  repeat' split
  all_goals first | exact CI.fatal | exact CI.crash | (apply hk; simpa using hs)

theorem CI.addIdentifiers (s : St) (t : Node) (hs : AllQ Q s.calls) : CI Q (addIdentifiers s t) := by
  unfold FnA.addIdentifiers
  split
  · exact CI.ok hs
  · exact CI.fatal
  · exact CI.crash

theorem CI.removeIdentifiers (s : St) (t : Node) (hs : AllQ Q s.calls) : CI Q (removeIdentifiers s t) := by
  unfold FnA.removeIdentifiers
  split
  · exact CI.ok hs
  · exact CI.fatal
  · exact CI.crash

theorem CI.addIdentifiersL (ts : List Node) (s : St) (hs : AllQ Q s.calls) : CI Q (addIdentifiersL s ts) := by
  induction ts generalizing s with
  | nil => exact CI.ok hs
  | cons t r ih =>
    simp only [FnA.addIdentifiersL]
    exact CI.bind (CI.addIdentifiers s t hs) (fun s1 h1 => ih s1 h1)

theorem CI.removeIdentifiersL (ts : List Node) (s : St) (hs : AllQ Q s.calls) :
    CI Q (removeIdentifiersL s ts) := by
  induction ts generalizing s with
  | nil => exact CI.ok hs
  | cons t r ih =>
    simp only [FnA.removeIdentifiersL]
    exact CI.bind (CI.removeIdentifiers s t hs) (fun s1 h1 => ih s1 h1)

theorem CI.withRegister (items : List Node) (s : St) (hs : AllQ Q s.calls) : CI Q (withRegister items s) := by
  induction items generalizing s with
  | nil => exact CI.ok hs
  | cons it r ih =>
    cases it with
    | withitem ce vars =>
      simp only [FnA.withRegister]
      exact CI.bind (CI.addIdentifiersL vars s hs) (fun s1 h1 => ih s1 h1)
    | _ => simp only [FnA.withRegister]; exact ih s hs

@[simp] theorem updateResults_calls (s : St) (nm : NameS) (c : ECtx) :
    (updateResults s nm c).calls = s.calls := by cases c <;> rfl
@[simp] theorem mergeIr_calls (s t : St) : (mergeIr s t).calls = FnA.unionC s.calls t.calls := rfl
@[simp] theorem freshIr_calls (s : St) : (freshIr s).calls = [] := rfl
@[simp] theorem addArguments_calls (s : St) (ps : Params) : (addArguments s ps).calls = s.calls := rfl

theorem unbindSt_calls {l l' : St} {a b : Str} (h : unbindSt l a b = some l') : l'.calls = l.calls := by
  unfold unbindSt at h
  simp only [] at h
  split at h
  · injection h with h; subst h; rfl
  · cases h


/-- what the invariant needs to know about `Call.from_call`. -/
def MkSpec (Q : CallSym → Prop) : Prop :=
  ∀ (s : St) (name : Str) (args : List Node) (kwn : List (Option Str)) (kwv : List Node)
    (target : Option Sym) (self : Option Str) (k : St → CallSym → Res),
    AllQ Q s.calls → (∀ s1 c, AllQ Q s1.calls → Q c → CI Q (k s1 c)) →
    CI Q (mkCall s name args kwn kwv target self k)

/-- the record of a named `defaultdict` factory. -/
def DdSpec (Q : CallSym → Prop) : Prop :=
  ∀ (name : Str) (target : Option Sym),
    Q { name := withoutCallBrackets name, args := [], kwargs := [], target := target }

theorem CI.defaultdictNamed (hdd : DdSpec Q) (env : Env) (factory : Node) (s : St) (hs : AllQ Q s.calls) :
    CI Q (defaultdictNamed env factory s) := by
  unfold FnA.defaultdictNamed
  apply CI.liftName
  intro _ name
  exact CI.ok (AllQ.addCall (by simpa using hs) (hdd name _))

theorem compound_ci (env : Env) (mn : Str) (v : Node) (nm : NameS) (c : ECtx) (s1 : St)
    (h1 : AllQ Q s1.calls) (ih : ∀ s, AllQ Q s.calls → CI Q (visit env mn v s)) :
    CI Q ((if (!v.isNameable) = true then visit env mn v s1 else Res.ok s1) >>>= fun s =>
      Res.ok (updateResults s nm c)) := by
  apply CI.bind
  · split
    · exact ih s1 h1
    · exact CI.ok h1
  · intro s2 h2; exact CI.ok (by simpa using h2)

/-- `CI` for the outcome of the assignment diversions. -/
def ACI (Q : CallSym → Prop) : AssignOut → Prop
  | .done r => CI Q r
  | .generic s => AllQ Q s.calls

theorem ACI.done {r : Res} (h : CI Q r) : ACI Q (.done r) := h
theorem ACI.generic {s : St} (h : AllQ Q s.calls) : ACI Q (.generic s) := h

mutual
theorem visit_ci (hmk : MkSpec Q) (hdd : DdSpec Q) (env : Env) (mn : Str) : (nd : Node) → (s : St) →
    AllQ Q s.calls → CI Q (visit env mn nd s)
  | .name id c, s, hs => by
    rw [visit.eq_def]; simp only []
    apply CI.getAndVerify hs; intro s1 b f h1
    exact CI.ok (by simpa using h1)
  | .attr v a c, s, hs => by
    rw [visit.eq_def]; simp only []
    apply CI.getAndVerify hs; intro s1 b f h1
    exact compound_ci env mn v _ c s1 h1 (fun s h => visit_ci hmk hdd env mn v s h)
  | .sub v sl c, s, hs => by
    rw [visit.eq_def]; simp only []
    apply CI.getAndVerify hs; intro s1 b f h1
    exact compound_ci env mn v _ c s1 h1 (fun s h => visit_ci hmk hdd env mn v s h)
  | .starred v c, s, hs => by
    rw [visit.eq_def]; simp only []
    apply CI.getAndVerify hs; intro s1 b f h1
    exact compound_ci env mn v _ c s1 h1 (fun s h => visit_ci hmk hdd env mn v s h)
  | .call f args kwn kwv, s, hs => by
    rw [visit.eq_def]; simp only []
    apply CI.liftName; intro _ tn
    split
    · rename_i q _
      split
      · exact CI.dynamicName s tn args _ hs (fun s1 nm h1 => CI.ok h1)
      split
      · exact CI.dynamicName s tn args _ hs (fun s1 nm h1 => CI.ok h1)
      split
      · exact CI.dynamicName s tn args _ hs (fun s1 nm h1 => CI.ok h1)
      split
      · cases args with
        | nil => exact CI.ok hs
        | cons a0 tl =>
          simp only []
          apply CI.bind
          · apply CI.protect
            apply CI.bind (visit_ci hmk hdd env mn a0 _ (by simpa using AllQ.nil))
            intro t ht
            exact sortedKey_ci hmk hdd env mn (namesOf true a0) kwn kwv t ht
          · intro t ht; exact CI.ok (by simpa using AllQ.unionC hs ht)
      split
      · cases args with
        | nil => exact CI.ok hs
        | cons factory tl =>
          simp only []
          split
          · rename_i ps body _
            apply CI.bind
            · apply CI.protect
              exact visit_ci hmk hdd env mn body _ (by simpa using AllQ.nil)
            · intro t ht; exact CI.ok (by simpa using AllQ.unionC hs ht)
          · exact CI.defaultdictNamed hdd env _ s hs
          · exact CI.defaultdictNamed hdd env _ s hs
          · apply CI.bind
            · apply CI.protect
              exact visit_ci hmk hdd env mn factory _ (by simpa using AllQ.nil)
            · intro t ht; exact CI.ok (by simpa using AllQ.unionC hs ht)
      · exact CI.ok hs
    · apply CI.getAndVerify hs; intro s1 _ fullname h1
      apply hmk
      · simp only []
        split
        · split <;> simpa using h1
        · simpa using h1
      · intro s2 c h2 hc
        exact CI.bind (visitList_ci hmk hdd env mn args _ (AllQ.addCall h2 hc))
          (fun s3 h3 => visitList_ci hmk hdd env mn kwv s3 h3)
  | .lam ps body, s, hs => by
    rw [visit.eq_def]; simp only []
    apply CI.bind
    · exact visit_ci hmk hdd env mn body _ (by simpa using hs)
    · intro t ht; exact CI.ok ht
  | .comp k elts gens, s, hs => by
    rw [visit.eq_def]; simp only []
    apply CI.bind (visitList_ci hmk hdd env mn gens _ (by simpa using hs))
    intro s1 h1
    apply CI.bind (visitList_ci hmk hdd env mn elts s1 h1)
    intro s2 h2; exact CI.ok h2
  | .gen target iter ifs, s, hs => by
    rw [visit.eq_def]; simp only []
    exact CI.bind (CI.addIdentifiers s target hs) fun s1 h1 =>
      CI.bind (visit_ci hmk hdd env mn target s1 h1) fun s2 h2 =>
      CI.bind (visit_ci hmk hdd env mn iter s2 h2) fun s3 h3 => visitList_ci hmk hdd env mn ifs s3 h3
  | .walrus t v, s, hs => by
    rw [visit.eq_def]; simp only []
    apply CI.liftName; intro base full
    apply CI.bind
    · split
      · exact visit_ci hmk hdd env mn v _ hs
      · exact CI.ok hs
    · intro s1 h1
      have ih := assignDiv_ci hmk hdd env mn [t] v s1 h1
      split
      · rename_i r heq; rw [heq] at ih; exact ih
      · rename_i s2 heq; rw [heq] at ih
        exact CI.bind (visit_ci hmk hdd env mn t s2 ih) fun s3 h3 => visit_ci hmk hdd env mn v s3 h3
  | .strConst _, s, hs => by rw [visit.eq_def]; exact CI.ok hs
  | .const, s, hs => by rw [visit.eq_def]; exact CI.ok hs
  | .seq _ elts _, s, hs => by rw [visit.eq_def]; exact visitList_ci hmk hdd env mn elts s hs
  | .dict keys vals, s, hs => by
    rw [visit.eq_def]
    exact CI.bind (visitList_ci hmk hdd env mn keys s hs) fun s1 h1 => visitList_ci hmk hdd env mn vals s1 h1
  | .assign targets v, s, hs => by
    rw [visit.eq_def]; simp only []
    have ih := assignDiv_ci hmk hdd env mn targets v s hs
    split
    · rename_i r heq; rw [heq] at ih; exact ih
    · rename_i s2 heq; rw [heq] at ih
      exact CI.bind (visitList_ci hmk hdd env mn targets s2 ih) fun s3 h3 => visit_ci hmk hdd env mn v s3 h3
  | .annAssign t ann [], s, hs => by
    rw [visit.eq_def]; simp only []
    exact CI.bind (CI.addIdentifiers s t hs) fun s1 h1 =>
      CI.bind (visit_ci hmk hdd env mn t s1 h1) fun s2 h2 => visit_ci hmk hdd env mn ann s2 h2
  | .annAssign t ann (v0 :: _), s, hs => by
    rw [visit.eq_def]; simp only []
    have ih := assignDiv_ci hmk hdd env mn [t] v0 s hs
    split
    · rename_i r heq; rw [heq] at ih; exact ih
    · rename_i s2 heq; rw [heq] at ih
      exact CI.bind (visit_ci hmk hdd env mn t s2 ih) fun s3 h3 =>
        CI.bind (visit_ci hmk hdd env mn ann s3 h3) fun s4 h4 => visit_ci hmk hdd env mn v0 s4 h4
  | .augAssign t v, s, hs => by
    rw [visit.eq_def]; simp only []
    have ih := assignDiv_ci hmk hdd env mn [t] v s hs
    split
    · rename_i r heq; rw [heq] at ih; exact ih
    · rename_i s2 heq; rw [heq] at ih
      exact CI.bind (visit_ci hmk hdd env mn t s2 ih) fun s3 h3 => visit_ci hmk hdd env mn v s3 h3
  | .delete targets, s, hs => by
    rw [visit.eq_def]; simp only []
    exact CI.bind (visitList_ci hmk hdd env mn targets s hs) fun s1 h1 => CI.removeIdentifiersL targets s1 h1
  | .forLoop t iter body orelse, s, hs => by
    rw [visit.eq_def]; simp only []
    exact CI.bind (CI.addIdentifiers s t hs) fun s1 h1 =>
      CI.bind (visit_ci hmk hdd env mn t s1 h1) fun s2 h2 =>
      CI.bind (visit_ci hmk hdd env mn iter s2 h2) fun s3 h3 =>
      CI.bind (visitList_ci hmk hdd env mn body s3 h3) fun s4 h4 => visitList_ci hmk hdd env mn orelse s4 h4
  | .withStmt items body, s, hs => by
    rw [visit.eq_def]; simp only []
    exact CI.bind (CI.withRegister items s hs) fun s1 h1 =>
      CI.bind (visitList_ci hmk hdd env mn items s1 h1) fun s2 h2 => visitList_ci hmk hdd env mn body s2 h2
  | .withitem ce vars, s, hs => by
    rw [visit.eq_def]; simp only []
    exact CI.bind (visit_ci hmk hdd env mn ce s hs) fun s1 h1 => visitList_ci hmk hdd env mn vars s1 h1
  | .funcDef name ps body, s, hs => by
    rw [visit.eq_def]; simp only []
    apply CI.bind
    · exact visitList_ci hmk hdd env mn body _ (by simpa using hs)
    · intro t ht; exact CI.ok ht
  | .classDef _, s, hs => by rw [visit.eq_def]; exact CI.ok hs
  | .ret [], s, hs => by rw [visit.eq_def]; exact CI.ok hs
  | .ret (v0 :: _), s, hs => by
    rw [visit.eq_def]; simp only []
    apply retVal_ci hmk hdd env mn v0 s _ hs
    intro s1 b h1
    split
    · exact CI.ok h1
    · exact visit_ci hmk hdd env mn v0 s1 h1
  | .forbidden _, s, hs => by rw [visit.eq_def]; exact CI.fatal
  | .other _ kids, s, hs => by rw [visit.eq_def]; exact visitList_ci hmk hdd env mn kids s hs
termination_by nd => (sizeOf nd, 1)

theorem visitList_ci (hmk : MkSpec Q) (hdd : DdSpec Q) (env : Env) (mn : Str) : (l : List Node) → (s : St) →
    AllQ Q s.calls → CI Q (visitList env mn l s)
  | [], s, hs => by simp only [visitList]; exact CI.ok hs
  | x :: r, s, hs => by
    simp only [visitList]
    exact CI.bind (visit_ci hmk hdd env mn x s hs) fun s1 h1 => visitList_ci hmk hdd env mn r s1 h1
termination_by l => (sizeOf l, 0)

theorem sortedKey_ci (hmk : MkSpec Q) (hdd : DdSpec Q) (env : Env) (mn : Str) (r : NameRes) :
    (kwn : List (Option Str)) → (kwv : List Node) → (t : St) → AllQ Q t.calls →
    CI Q (visitSortedKey env mn r kwn kwv t)
  | some k :: rn, v :: rv, t, ht => by
    rw [visitSortedKey.eq_def]; simp only []
    split
    · split
      · rename_i ps body
        split
        · exact CI.crash
        · apply CI.liftName; intro _ iterable
          apply CI.bind
          · apply CI.protect
            exact visit_ci hmk hdd env mn body _ (by simpa using AllQ.nil)
          · intro l hl
            split
            · exact CI.crash
            · rename_i l' hu
              apply CI.ok
              have := unbindSt_calls hu
              simpa [this] using AllQ.unionC ht hl
      · exact visit_ci hmk hdd env mn v t ht
    · exact sortedKey_ci hmk hdd env mn r rn rv t ht
  | none :: rn, _ :: rv, t, ht => by
    rw [visitSortedKey.eq_def]; simp only []
    exact sortedKey_ci hmk hdd env mn r rn rv t ht
  | [], _, t, ht => by rw [visitSortedKey.eq_def]; exact CI.ok ht
  | some _ :: _, [], t, ht => by rw [visitSortedKey.eq_def]; exact CI.ok ht
  | none :: _, [], t, ht => by rw [visitSortedKey.eq_def]; exact CI.ok ht
termination_by _kwn kwv => (sizeOf kwv, 0)

theorem assignDiv_ci (hmk : MkSpec Q) (hdd : DdSpec Q) (env : Env) (mn : Str) (targets : List Node) :
    (v : Node) → (s : St) → AllQ Q s.calls → ACI Q (assignDiv env mn targets v s)
  | v, s, hs => by
    rw [assignDiv.eq_def]; simp only []
    split
    · split
      · exact ACI.done CI.fatal
      · split
        · apply ACI.done; apply CI.liftName; intro _ name
          exact CI.ok (by simpa using hs)
        · exact ACI.done CI.fatal
    · split
      · split
        · exact ACI.done CI.fatal
        · split
          · apply ACI.done; apply CI.liftName; intro _ name
            split
            · exact CI.ok (by simpa using hs)
            · exact CI.ok (by simpa using hs)
          · exact ACI.done CI.crash
      · split
        · exact ACI.done CI.fatal
        · exact ACI.done CI.crash
        · have hb : CI Q (addIdentifiersL s targets) := CI.addIdentifiersL targets s hs
          split
          · rename_i s1 heq; exact ACI.generic (hb s1 heq)
          · exact ACI.done hb
        · split
          · exact ACI.done CI.fatal
          · split
            · rename_i t tl f args kwn kwv _ _ _ _
              apply ACI.done; apply CI.liftName; intro lb ln
              apply CI.liftName; intro _ cn
              apply hmk _ _ _ _ _ _ _ _ (by simpa using hs)
              intro s2 c h2 hc
              refine CI.bind (CI.addIdentifiersL (t :: tl) _ ?_) ?_
              · simpa using AllQ.addCall h2 hc
              intro s3 h3
              exact CI.bind (visitList_ci hmk hdd env mn args s3 h3) fun s4 h4 =>
                visitList_ci hmk hdd env mn kwv s4 h4
            · exact ACI.done CI.crash
termination_by v => (sizeOf v, 0)

theorem retVal_ci (hmk : MkSpec Q) (hdd : DdSpec Q) (env : Env) (mn : Str) : (nd : Node) → (s : St) →
    (k : St → Bool → Res) → AllQ Q s.calls →
    (∀ s1 b, AllQ Q s1.calls → CI Q (k s1 b)) → CI Q (visitReturnValue env mn nd s k)
  | nd, s, k, hs, hk => by
    rw [visitReturnValue.eq_def]; simp only []
    split
    · rename_i kind elts c
      exact CI.bind (retElts_ci hmk hdd env mn elts s hs) fun s1 h1 => hk s1 true h1
    · rename_i keys vals
      exact CI.bind (retElts_ci hmk hdd env mn keys s hs) fun s1 h1 =>
        CI.bind (retElts_ci hmk hdd env mn vals s1 h1) fun s2 h2 => hk s2 true h2
    · rename_i f args kwn kwv
      split
      · exact hk s false hs
      · apply CI.liftName; intro _ full
        split
        · exact hk s false hs
        · apply CI.liftName; intro _ cn
          apply hmk _ _ _ _ _ _ _ _ (by simpa using hs)
          intro s2 c h2 hc
          exact CI.bind (visitList_ci hmk hdd env mn args _ (by simpa using AllQ.addCall h2 hc)) fun s3 h3 =>
            CI.bind (visitList_ci hmk hdd env mn kwv s3 h3) fun s4 h4 => hk s4 true h4
    · exact hk s false hs
termination_by nd => (sizeOf nd, 0)

theorem retElts_ci (hmk : MkSpec Q) (hdd : DdSpec Q) (env : Env) (mn : Str) : (l : List Node) → (s : St) →
    AllQ Q s.calls → CI Q (visitReturnElts env mn l s)
  | [], s, hs => by simp only [visitReturnElts]; exact CI.ok hs
  | e :: r, s, hs => by
    simp only [visitReturnElts]
    apply CI.bind
    · apply retVal_ci hmk hdd env mn e s _ hs
      intro s1 b h1
      split
      · exact CI.ok h1
      · exact visit_ci hmk hdd env mn e s1 h1
    · intro s1 h1; exact retElts_ci hmk hdd env mn r s1 h1
termination_by l => (sizeOf l, 0)
end

end
end Rattr.FnA

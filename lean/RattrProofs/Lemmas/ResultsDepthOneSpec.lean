/-
  Depth-one fragment, part 2: the relation between the model's `unbindName` and the spec's
  `Spec.subst`, and between `rootResult` and `Spec.derive` (C03).
-/
import RattrProofs.Lemmas.ResultsDepthOne
import RattrModel.Spec.Closure

namespace Rattr.Results
open Rattr.Spec

/-! ### strings -/

def isSep (c : Char) : Bool := c != '.' && c != '[' && c != '('

/-- the spelled name without a leading `*`. -/
def bodyOf (s : Str) : Str := match s with | '*' :: r => r | _ => s

theorem rootVar_eq (s : Str) : rootVar s = (bodyOf s).takeWhile isSep := rfl

theorem bodyOf_star (r : Str) : bodyOf ('*' :: r) = r := rfl

theorem bodyOf_nostar {s : Str} (h : s.head? ≠ some '*') : bodyOf s = s := by
  unfold bodyOf
  split
  · simp at h
  · rfl

theorem takeWhile_isPrefixOf (p : Char → Bool) (l : Str) : (l.takeWhile p).isPrefixOf l = true := by
  induction l with
  | nil => simp
  | cons a r ih =>
    simp only [List.takeWhile_cons]
    split
    · simp [List.isPrefixOf, ih]
    · simp

theorem takeWhile_append_drop (p : Char → Bool) (l : Str) :
    l.takeWhile p ++ l.drop (l.takeWhile p).length = l := by
  induction l with
  | nil => simp
  | cons a r ih =>
    simp only [List.takeWhile_cons]
    split
    · simp [ih]
    · simp

/-- a name whose basename is the root variable of its spelling. -/
def RootBased (n : NameS) : Prop := n.base = rootVar n.full

theorem RootBased.wellBased {n : NameS} (h : RootBased n) : WellBased n := by
  unfold WellBased
  unfold RootBased at h
  rw [h, rootVar_eq]
  cases hf : n.full with
  | nil => simp [bodyOf]
  | cons a r =>
    by_cases ha : a = '*'
    · subst ha
      simp only [List.head?_cons, if_true, bodyOf_star]
      simp [List.isPrefixOf, takeWhile_isPrefixOf]
    · have hh : (a :: r).head? ≠ some '*' := by simpa using ha
      have : ¬ ((a :: r).head? = some '*') := hh
      rw [if_neg this, bodyOf_nostar hh]
      exact takeWhile_isPrefixOf _ _

theorem subst_eq (b : Dict Str Str) (n : Str) :
    subst b n = match Dict.get? b (rootVar n) with
      | none => n
      | some rep =>
        (if n.head? = some '*' then ['*'] else []) ++ bodyOf rep ++
          (if n.head? = some '*' then n.drop 1 else n).drop (rootVar n).length := rfl

/-- In the fragment `unbind_name` IS the spec's substitution (on the spelled name): for a
root-based name, a swaps map that agrees with the binding, and a replacement without a leading
`*`. -/
theorem unbindName_eq_subst {n : NameS} (hn : RootBased n) (sw b : Dict Str Str)
    (hsw : ∀ k, Dict.get? sw k = Dict.get? b k)
    (hstar : ∀ v, Dict.get? b (rootVar n.full) = some v → v.head? ≠ some '*') :
    ∃ n', unbindName n ((Dict.get? sw n.base).getD n.base) = some n' ∧
      n'.full = subst b n.full := by
  obtain ⟨full, base⟩ := n
  unfold RootBased at hn
  simp only at hn hstar ⊢
  subst hn
  rw [hsw, subst_eq]
  cases hb : Dict.get? b (rootVar full) with
  | none =>
    refine ⟨⟨full, rootVar full⟩, ?_, rfl⟩
    simp [unbindName]
  | some rep =>
    have hrep := hstar rep hb
    simp only [Option.getD_some, bodyOf_nostar hrep]
    by_cases heq : rootVar full = rep
    · refine ⟨⟨full, rootVar full⟩, by simp [unbindName, heq], ?_⟩
      simp only
      rw [← heq]
      cases full with
      | nil => simp [rootVar]
      | cons a r =>
        by_cases ha : a = '*'
        · subst ha
          simp only [List.head?_cons, if_true, rootVar_eq, bodyOf_star, List.drop_succ_cons,
            List.drop_zero]
          rw [List.append_assoc, takeWhile_append_drop]
          rfl
        · have hh : (a :: r).head? ≠ some '*' := by simpa using ha
          have hh' : ¬ ((a :: r).head? = some '*') := hh
          simp only [if_neg hh', rootVar_eq, bodyOf_nostar hh, List.nil_append]
          exact (takeWhile_append_drop _ _).symm
    · unfold unbindName
      simp only [heq, if_false]
      cases full with
      | nil =>
        refine ⟨⟨rep, rep⟩, ?_, ?_⟩
        · simp [rootVar]
        · simp [rootVar]
      | cons a r =>
        by_cases ha : a = '*'
        · subst ha
          simp only [List.head?_cons, if_true, rootVar_eq, bodyOf_star, List.drop_succ_cons,
            List.drop_zero]
          have hp : ('*' :: List.takeWhile isSep r).isPrefixOf ('*' :: r) = true := by
            simp [List.isPrefixOf, takeWhile_isPrefixOf]
          rw [if_pos hp]
          exact ⟨_, rfl, by simp⟩
        · have hh : (a :: r).head? ≠ some '*' := by simpa using ha
          have hh' : ¬ ((a :: r).head? = some '*') := hh
          simp only [if_neg hh', rootVar_eq, bodyOf_nostar hh, List.nil_append]
          rw [if_pos (takeWhile_isPrefixOf _ _)]
          exact ⟨_, rfl, rfl⟩

/-! ### membership in `unbindList` / `unbindIr` -/

theorem mem_unbindList {sw : Dict Str Str} {l l' : List NameS} (h : unbindList sw l = some l')
    (x : NameS) :
    x ∈ l' ↔ ∃ n ∈ l, unbindName n ((Dict.get? sw n.base).getD n.base) = some x := by
  induction l generalizing l' with
  | nil =>
    simp only [unbindList, Option.some.injEq] at h
    subst h
    simp
  | cons n r ih =>
    simp only [unbindList] at h
    cases hn : unbindName n ((Dict.get? sw n.base).getD n.base) with
    | none => simp [hn] at h
    | some n' =>
      cases hr : unbindList sw r with
      | none => simp [hn, hr] at h
      | some r' =>
        simp only [hn, hr, Option.some.injEq] at h
        subst h
        simp only [List.mem_cons, ih hr]
        constructor
        · rintro (hx | ⟨m, hm, hx⟩)
          · exact ⟨n, Or.inl rfl, by rw [hn, hx]⟩
          · exact ⟨m, Or.inr hm, hx⟩
        · rintro ⟨m, hm | hm, hx⟩
          · subst hm
            rw [hn] at hx
            injection hx with hx
            exact Or.inl hx.symm
          · exact Or.inr ⟨m, hm, hx⟩

theorem mem_unbindIr {sw : Dict Str Str} {ir u : IrSets} (h : unbindIr sw ir = some u)
    (k : Kind) (x : NameS) :
    x ∈ u.of k ↔ ∃ n ∈ ir.of k, unbindName n ((Dict.get? sw n.base).getD n.base) = some x := by
  unfold unbindIr at h
  cases hg : unbindList sw ir.gets with
  | none => simp [hg] at h
  | some g =>
    cases hs : unbindList sw ir.sets with
    | none => simp [hg, hs] at h
    | some s' =>
      cases hd : unbindList sw ir.dels with
      | none => simp [hg, hs, hd] at h
      | some d =>
        simp only [hg, hs, hd, Option.some.injEq] at h
        subst h
        cases k
        · exact mem_unbindList hg x
        · exact mem_unbindList hs x
        · exact mem_unbindList hd x

theorem mergeKids_some_unbind (P : Prog) (σ : Store) (ks : List Node) (acc r : IrSets)
    (h : mergeKids P σ ks acc = some r) {ch : Node} (hch : ch ∈ ks) {c : CallRec}
    (he : ch.edgeIn = some c) : ∃ u, unbindIr (swapsOf P ch.key c) (σ ch.key) = some u := by
  induction ks generalizing acc with
  | nil => cases hch
  | cons ch0 rest ih =>
    simp only [mergeKids] at h
    rcases List.mem_cons.mp hch with h1 | h1
    · subst h1
      simp only [he] at h
      cases hu : unbindIr (swapsOf P ch.key c) (σ ch.key) with
      | none => simp [hu] at h
      | some u => exact ⟨u, rfl⟩
    · cases he0 : ch0.edgeIn with
      | none =>
        simp only [he0] at h
        exact ih acc h h1
      | some c0 =>
        simp only [he0] at h
        cases hu : unbindIr (swapsOf P ch0.key c0) (σ ch0.key) with
        | none => simp [hu] at h
        | some u =>
          simp only [hu] at h
          exact ih _ h h1

/-! ### `Spec.derive` -/

def _root_.Rattr.Spec.Acc.of (a : Acc) : Kind → List Str
  | .get => a.gets
  | .set => a.sets
  | .del => a.dels

theorem mem_unionS_iff {a b : List Str} {x : Str} : x ∈ unionS a b ↔ x ∈ a ∨ x ∈ b := by
  unfold unionS
  constructor
  · intro h
    rcases List.mem_append.mp h with h | h
    · exact Or.inl h
    · exact Or.inr (List.mem_filter.mp h).1
  · rintro (h | h)
    · exact List.mem_append_left _ h
    · by_cases ha : x ∈ a
      · exact List.mem_append_left _ ha
      · exact List.mem_append_right _ (List.mem_filter.mpr ⟨h, by simp [ha]⟩)

theorem mem_accUnion {a b : Acc} {k : Kind} {x : Str} :
    x ∈ (a.union b).of k ↔ x ∈ a.of k ∨ x ∈ b.of k := by
  cases k <;> simp only [Acc.union, Acc.of, mem_unionS_iff]

theorem mem_accMap {a : Acc} {φ : Str → Str} {k : Kind} {x : Str} :
    x ∈ (a.map φ).of k ↔ ∃ m ∈ a.of k, x = φ m := by
  cases k <;> simp only [Acc.map, Acc.of, List.mem_map] <;>
    exact ⟨fun ⟨m, h1, h2⟩ => ⟨m, h1, h2.symm⟩, fun ⟨m, h1, h2⟩ => ⟨m, h1, h2.symm⟩⟩

theorem mem_ownAcc {S : SProg} {f : Key} {k : Kind} {x : Str} :
    x ∈ (ownAcc S f).of k ↔ ∃ n ∈ (S.own f).of k, n.full = x := by
  cases k <;> simp only [ownAcc, Acc.of, IrSets.of, List.mem_map]

/-- one step of the fold in `derive`, with the callee's accesses given by `D`. -/
def dstep (S : SProg) (D : Key → Acc) (acc : Acc) (c : CallRec) : Acc :=
  match S.prog.resolve c.cid with
  | none => acc
  | some g =>
    match binding S g c with
    | none => acc
    | some b => acc.union ((D g).map (subst b))

theorem derive_succ (S : SProg) (d : Nat) (f : Key) :
    derive S (d + 1) f = (fnAt S.prog f).calls.foldl (dstep S (derive S d)) (ownAcc S f) := rfl

theorem mem_foldl_dstep (S : SProg) (D : Key → Acc) (cs : List CallRec) (acc : Acc) (k : Kind)
    (x : Str) :
    x ∈ (cs.foldl (dstep S D) acc).of k ↔ x ∈ acc.of k ∨
      ∃ c ∈ cs, ∃ g b, S.prog.resolve c.cid = some g ∧ binding S g c = some b ∧
        ∃ m ∈ (D g).of k, x = subst b m := by
  induction cs generalizing acc with
  | nil => simp
  | cons c r ih =>
    simp only [List.foldl_cons]
    rw [ih]
    constructor
    · rintro (hx | ⟨c', hc', hrest⟩)
      · unfold dstep at hx
        cases hr : S.prog.resolve c.cid with
        | none => simp only [hr] at hx; exact Or.inl hx
        | some g =>
          simp only [hr] at hx
          cases hb : binding S g c with
          | none => simp only [hb] at hx; exact Or.inl hx
          | some b =>
            simp only [hb] at hx
            rcases mem_accUnion.mp hx with hx | hx
            · exact Or.inl hx
            · exact Or.inr ⟨c, List.mem_cons_self, g, b, hr, hb, mem_accMap.mp hx⟩
      · exact Or.inr ⟨c', List.mem_cons_of_mem _ hc', hrest⟩
    · rintro (hx | ⟨c', hc', g, b, hr, hb, hm⟩)
      · left
        unfold dstep
        cases S.prog.resolve c.cid with
        | none => exact hx
        | some g =>
          simp only
          cases binding S g c with
          | none => exact hx
          | some b => exact mem_accUnion.mpr (Or.inl hx)
      · rcases List.mem_cons.mp hc' with h1 | h1
        · subst h1
          left
          unfold dstep
          simp only [hr, hb]
          exact mem_accUnion.mpr (Or.inr (mem_accMap.mpr hm))
        · exact Or.inr ⟨c', h1, g, b, hr, hb, hm⟩

theorem foldl_dstep_congr (S : SProg) (D₁ D₂ : Key → Acc) (cs : List CallRec) (acc : Acc)
    (h : ∀ c ∈ cs, ∀ g, S.prog.resolve c.cid = some g → D₁ g = D₂ g) :
    cs.foldl (dstep S D₁) acc = cs.foldl (dstep S D₂) acc := by
  induction cs generalizing acc with
  | nil => rfl
  | cons c r ih =>
    simp only [List.foldl_cons]
    have : dstep S D₁ acc c = dstep S D₂ acc c := by
      unfold dstep
      cases hr : S.prog.resolve c.cid with
      | none => rfl
      | some g => simp only; rw [h c List.mem_cons_self g hr]
    rw [this]
    exact ih _ (fun c hc => h c (List.mem_cons_of_mem _ hc))

theorem foldl_dstep_leaf (S : SProg) (D : Key → Acc) (cs : List CallRec) (acc : Acc)
    (h : ∀ c ∈ cs, S.prog.resolve c.cid = none) : cs.foldl (dstep S D) acc = acc := by
  induction cs generalizing acc with
  | nil => rfl
  | cons c r ih =>
    simp only [List.foldl_cons]
    have : dstep S D acc c = acc := by
      unfold dstep
      rw [h c List.mem_cons_self]
    rw [this]
    exact ih _ (fun c hc => h c (List.mem_cons_of_mem _ hc))

/-- a leaf has nothing but its own accesses, at every depth. -/
theorem derive_leaf (S : SProg) {g : Key} (h : IsLeaf S.prog g) (d : Nat) :
    derive S d g = ownAcc S g := by
  cases d with
  | zero => rfl
  | succ d => rw [derive_succ]; exact foldl_dstep_leaf S _ _ _ h

/-- in a depth-one program the unfolding is complete after one level. -/
theorem derive_depthOne (S : SProg) (hP : DepthOne S.prog) (d : Nat) (f : Key) :
    derive S (d + 1) f = derive S 1 f := by
  rw [derive_succ, derive_succ]
  apply foldl_dstep_congr
  intro c hc g hr
  have hl : IsLeaf S.prog g := hP f c g hc hr
  rw [derive_leaf S hl, derive_leaf S hl]

/-! ### the values of Python's binding are argument spellings -/

theorem get?_mem {κ ν : Type} [DecidableEq κ] {d : Dict κ ν} {k : κ} {v : ν}
    (h : Dict.get? d k = some v) : (k, v) ∈ d := by
  induction d with
  | nil => simp [Dict.get?] at h
  | cons p r ih =>
    obtain ⟨k0, v0⟩ := p
    simp only [Dict.get?] at h
    by_cases hk : k0 = k
    · simp only [hk, if_true, Option.some.injEq] at h
      subst hk; subst h
      exact List.mem_cons_self
    · simp only [hk, if_false] at h
      exact List.mem_cons_of_mem _ (ih h)

theorem zipPos_vals {α : Type} (ps : List (Param α)) (as : List α) :
    ∀ kv ∈ (zipPos ps as).1, kv.2 ∈ as := by
  induction ps generalizing as with
  | nil => intro kv h; simp [zipPos] at h
  | cons p r ih =>
    cases as with
    | nil => intro kv h; simp [zipPos] at h
    | cons a as' =>
      intro kv h
      simp only [zipPos] at h
      rcases List.mem_cons.mp h with h | h
      · subst h; exact List.mem_cons_self
      · exact List.mem_cons_of_mem _ (ih as' kv h)

theorem bindKws_vals {α : Type} [DecidableEq α] (Q : α → Prop) (fp : List α) (hk : Bool)
    (kws : List (α × α)) (st st' : KwSt α) (h : bindKws fp hk st kws = .ok st')
    (hst : ∀ kv ∈ st.explicit, Q kv.2) (hkws : ∀ kv ∈ kws, Q kv.2) :
    ∀ kv ∈ st'.explicit, Q kv.2 := by
  induction kws generalizing st with
  | nil =>
    simp only [bindKws, Except.ok.injEq] at h
    subst h
    exact hst
  | cons kv r ih =>
    simp only [bindKws] at h
    cases hb : bindKw fp hk st kv with
    | error e => simp [hb] at h
    | ok st1 =>
      simp only [hb] at h
      apply ih st1 h
      · unfold bindKw at hb
        split at hb
        · injection hb with hb
          subst hb
          intro x hx
          rcases List.mem_append.mp hx with hx | hx
          · exact hst x hx
          · simp only [List.mem_singleton] at hx
            subst hx
            exact hkws _ List.mem_cons_self
        · split at hb
          · cases hb
          · split at hb
            · injection hb with hb
              subst hb
              exact hst
            · cases hb
      · exact fun x hx => hkws x (List.mem_cons_of_mem _ hx)

theorem pyBind_vals {α : Type} [DecidableEq α] (Q : α → Prop) (sg : Sig α) (c : CallArgs α)
    (b : Binding α) (h : pyBind sg c = .ok b) (hargs : ∀ a ∈ c.args, Q a)
    (hkws : ∀ kv ∈ c.kwargs, Q kv.2) : ∀ kv ∈ b.explicit, Q kv.2 := by
  unfold pyBind at h
  have hz := zipPos_vals (sg.posonly ++ sg.args) c.args
  rcases hzp : zipPos (sg.posonly ++ sg.args) c.args with ⟨bpos, unfilled, surplus⟩
  rw [hzp] at hz
  simp only [hzp] at h
  split at h
  · cases h
  · split at h
    · cases h
    · rename_i st hst
      have key : ∀ kv ∈ st.explicit, Q kv.2 :=
        bindKws_vals Q _ _ _ _ st hst (fun kv hkv => hargs _ (hz kv hkv)) hkws
      clear hst
      repeat' split at h
      all_goals first
        | (cases h; done)
        | (injection h with h; subst h; exact key)

/-! ### hypotheses of the C03 fragment theorem -/

/-- within one function, equal Call symbols (same cid) have the same arguments — true of every
real input, where `cid` is the equality class of a `Call` symbol, whose equality includes its
arguments. -/
def CidArgs (P : Prog) : Prop :=
  ∀ f c c', c ∈ (fnAt P f).calls → c' ∈ (fnAt P f).calls → c.cid = c'.cid → c.args = c'.args

/-- own names of callees have `basename = root variable of the spelling`. -/
def CalleeRootBased (S : SProg) : Prop :=
  ∀ g, IsCallee S.prog g → ∀ k, ∀ n ∈ (S.own g).of k, RootBased n

/-- no argument of a resolvable call is spelled with a leading `*` (no `*xs` / `**kw` argument);
the stand-ins do not start with `*` either. -/
def NoStarArgs (P : Prog) : Prop :=
  (P.tuple.head? ≠ some '*' ∧ P.dict.head? ≠ some '*') ∧
  ∀ f c g, c ∈ (fnAt P f).calls → P.resolve c.cid = some g →
    (∀ a ∈ c.args.args, a.head? ≠ some '*') ∧ (∀ kv ∈ c.args.kwargs, kv.2.head? ≠ some '*')

/-- the interface rattr holds for a callee is the one of its real signature. -/
def IfaceOfSig (S : SProg) : Prop :=
  ∀ g, IsCallee S.prog g → (fnAt S.prog g).iface = (sigAt S g).iface

/-- Python accepts every resolvable call, and `**kwargs` of the callee (if any) receives
something (outside the C04 finding "kwarg-empty"). -/
def AcceptedCalls (S : SProg) : Prop :=
  ∀ f c g, c ∈ (fnAt S.prog f).calls → S.prog.resolve c.cid = some g →
    ∃ b, pyBind (sigAt S g) c.args = .ok b ∧ ((sigAt S g).kwarg.isSome → b.kwargGot ≠ [])

/-- THE C04 FACT, assumed: on every resolvable (accepted) call `construct_call_swaps` yields
Python's binding plus stand-ins (`C04.SameMap … expectedSwapsLenient`). -/
def SwapsAreBinding (S : SProg) : Prop :=
  ∀ f c g b, c ∈ (fnAt S.prog f).calls → S.prog.resolve c.cid = some g →
    pyBind (sigAt S g) c.args = .ok b →
    ∀ k, Dict.get? (Swaps.construct (si S.prog) (sigAt S g).iface c.args).1 k
       = Dict.get? (expectedSwapsLenient (si S.prog) (sigAt S g) b) k

theorem lenient_eq {α : Type} (sis : StandIns α) (sg : Sig α) (b : Binding α)
    (h : sg.kwarg.isSome → b.kwargGot ≠ []) :
    expectedSwapsLenient sis sg b = expectedSwaps sis sg b := by
  unfold expectedSwapsLenient expectedSwaps
  cases hk : sg.kwarg with
  | none => simp
  | some k =>
    have := h (by simp [hk])
    simp [this]

/-- what the hypotheses give for one resolvable call. -/
theorem edge_facts (S : SProg) (hI : IfaceOfSig S) (hA : AcceptedCalls S) (hSw : SwapsAreBinding S)
    (hN : NoStarArgs S.prog) {f : Key} {c : CallRec} {g : Key}
    (hc : c ∈ (fnAt S.prog f).calls) (hr : S.prog.resolve c.cid = some g) :
    ∃ bm, binding S g c = some bm ∧
      (∀ k, Dict.get? (swapsOf S.prog g c) k = Dict.get? bm k) ∧
      (∀ k v, Dict.get? bm k = some v → v.head? ≠ some '*') := by
  obtain ⟨b, hb, hkw⟩ := hA f c g hc hr
  refine ⟨expectedSwaps (si S.prog) (sigAt S g) b, ?_, ?_, ?_⟩
  · unfold binding
    rw [hb]
  · intro k
    unfold swapsOf
    rw [hI g ⟨f, c, hc, hr⟩, hSw f c g b hc hr hb k, lenient_eq _ _ _ hkw]
  · intro k v hv
    have hmem := get?_mem hv
    unfold expectedSwaps at hmem
    obtain ⟨⟨ht, hd⟩, hargs⟩ := hN
    obtain ⟨ha, hk⟩ := hargs f c g hc hr
    rcases List.mem_append.mp hmem with hmem | hmem
    · rcases List.mem_append.mp hmem with hmem | hmem
      · exact pyBind_vals (fun a => a.head? ≠ some '*') _ _ b hb ha hk (k, v) hmem
      · obtain ⟨x, _, hx⟩ := List.mem_map.mp hmem
        injection hx with _ hx
        rw [← hx]
        exact ht
    · obtain ⟨x, _, hx⟩ := List.mem_map.mp hmem
      injection hx with _ hx
      rw [← hx]
      exact hd

/-- C03 in the depth-one fragment, at the level of one root: the spellings reported for `f` are
exactly the spec's one-level unfolding. -/
theorem rootResult_iff_derive (S : SProg) (hP : DepthOne S.prog) (hC : CidArgs S.prog)
    (hR : CalleeRootBased S) (hN : NoStarArgs S.prog) (hI : IfaceOfSig S) (hA : AcceptedCalls S)
    (hSw : SwapsAreBinding S) (f : Key) (res : IrSets)
    (h : rootResult S.prog S.own f = some res) (k : Kind) (s : Str) :
    (∃ x ∈ res.of k, x.full = s) ↔ s ∈ (derive S 1 f).of k := by
  rw [derive_succ, mem_foldl_dstep]
  unfold rootResult at h
  constructor
  · rintro ⟨x, hx, hxs⟩
    rcases (mem_mergeKids _ _ _ _ _ h k x).mp hx with hx | ⟨ch, hch, c, u, he, hu, hxu⟩
    · exact Or.inl (mem_ownAcc.mpr ⟨x, hx, hxs⟩)
    · right
      obtain ⟨c', hc', he', hr, _⟩ := kidsOf_spec hch
      rw [he] at he'
      injection he' with he'
      subst he'
      obtain ⟨bm, hb, hsame, hstar⟩ := edge_facts S hI hA hSw hN hc' hr
      obtain ⟨n, hn, hnx⟩ := (mem_unbindIr hu k x).mp hxu
      have hrb := hR ch.key ⟨f, c, hc', hr⟩ k n hn
      obtain ⟨n', hn', hfull⟩ := unbindName_eq_subst hrb _ bm hsame (fun v hv => hstar _ v hv)
      rw [hnx] at hn'
      injection hn' with hn'
      subst hn'
      refine ⟨c, hc', ch.key, bm, hr, hb, n.full, ?_, ?_⟩
      · rw [derive_leaf S (hP f c ch.key hc' hr)]
        exact mem_ownAcc.mpr ⟨n, hn, rfl⟩
      · rw [← hxs, hfull]
  · rintro (hs | ⟨c, hc, g, bm', hr, hb', m, hm, hsm⟩)
    · obtain ⟨x, hx, hxs⟩ := mem_ownAcc.mp hs
      exact ⟨x, (mem_mergeKids _ _ _ _ _ h k x).mpr (Or.inl hx), hxs⟩
    · rw [derive_leaf S (hP f c g hc hr)] at hm
      obtain ⟨n, hn, hnm⟩ := mem_ownAcc.mp hm
      obtain ⟨c', hc', hcid, hkid⟩ := kids_complete S.prog 0 _ (mem_sortCalls.mpr hc) hr
      have hc'' : c' ∈ (fnAt S.prog f).calls := mem_sortCalls.mp hc'
      have hargs : c'.args = c.args := hC f c' c hc'' hc hcid
      obtain ⟨u, hu⟩ := mergeKids_some_unbind _ _ _ _ _ h hkid (c := c') rfl
      simp only at hu
      have hsw_eq : swapsOf S.prog g c' = swapsOf S.prog g c := by
        unfold swapsOf; rw [hargs]
      obtain ⟨bm, hb, hsame, hstar⟩ := edge_facts S hI hA hSw hN hc hr
      rw [hb] at hb'
      injection hb' with hb'
      subst hb'
      have hrb := hR g ⟨f, c, hc, hr⟩ k n hn
      obtain ⟨n', hn', hfull⟩ := unbindName_eq_subst hrb (swapsOf S.prog g c') bm
        (by rw [hsw_eq]; exact hsame) (fun v hv => hstar _ v hv)
      refine ⟨n', ?_, ?_⟩
      · apply (mem_mergeKids _ _ _ _ _ h k n').mpr
        right
        exact ⟨_, hkid, c', u, rfl, hu, (mem_unbindIr hu k n').mpr ⟨n, hn, hn'⟩⟩
      · rw [hfull, hsm, hnm]

/-- with `DepthOne`, "derivable at some depth" is "in the one-level unfolding". -/
theorem derivable_iff_depthOne (S : SProg) (hP : DepthOne S.prog) (f : Key) (k : Kind) (s : Str) :
    (∃ d, s ∈ (derive S d f).of k) ↔ s ∈ (derive S 1 f).of k := by
  constructor
  · rintro ⟨d, hd⟩
    cases d with
    | zero =>
      rw [derive_succ, mem_foldl_dstep]
      exact Or.inl hd
    | succ d => rwa [derive_depthOne S hP] at hd
  · exact fun h => ⟨1, h⟩

theorem leafB_iff (P : Prog) (g : Key) : leafB P g = true ↔ IsLeaf P g := by
  unfold leafB IsLeaf
  rw [List.all_eq_true]
  constructor
  · intro h c hc; simpa using h c hc
  · intro h c hc; simp [h c hc]

/-- a depth-one program has an acyclic resolvable call graph. -/
theorem depthOne_acyclic {P : Prog} (hP : DepthOne P) : Acyclic P := by
  refine ⟨fun k => if leafB P k then 0 else 1, ?_⟩
  intro f c g hc hr
  have hg : leafB P g = true := (leafB_iff P g).mpr (hP f c g hc hr)
  have hf : leafB P f = false := by
    cases h : leafB P f with
    | false => rfl
    | true =>
      have := (leafB_iff P f).mp h c hc
      rw [hr] at this
      cases this
  simp [hg, hf]

end Rattr.Results

namespace Rattr.Cex
open Rattr Rattr.Results Rattr.Spec

theorem P1_edges {f : Key} {c : CallRec} {g : Key} (hc : c ∈ (fnAt P1 f).calls)
    (hr : P1.resolve c.cid = some g) :
    ((f = 0 ∧ c = call 0 "leaf" ["a"]) ∨ (f = 1 ∧ c = call 1 "leaf" ["b.y"])) ∧ g = 2 := by
  match f with
  | 0 =>
    have : c = call 0 "leaf" ["a"] := by simpa [P1, fnAt] using hc
    subst this
    simp [P1, call] at hr
    exact ⟨Or.inl ⟨rfl, rfl⟩, hr.symm⟩
  | 1 =>
    have : c = call 1 "leaf" ["b.y"] := by simpa [P1, fnAt] using hc
    subst this
    simp [P1, call] at hr
    exact ⟨Or.inr ⟨rfl, rfl⟩, hr.symm⟩
  | 2 => simp [P1, fnAt] at hc
  | n + 3 => simp [P1, fnAt] at hc

instance (n : NameS) : Decidable (RootBased n) := by unfold RootBased; infer_instance

/-- the example program meets every hypothesis of the C03 fragment theorem (including the assumed
C04 fact, which on these two calls is a computation). -/
theorem S1_hyps : DepthOne S1.prog ∧ CidArgs S1.prog ∧ CalleeRootBased S1 ∧ NoStarArgs S1.prog ∧
    IfaceOfSig S1 ∧ AcceptedCalls S1 ∧ SwapsAreBinding S1 := by
  refine ⟨P1_depthOne, ?_, ?_, ?_, ?_, ?_, ?_⟩
  · intro f c c' hc hc' hcid
    match f with
    | 0 =>
      have h1 : c = call 0 "leaf" ["a"] := by simpa [S1, P1, fnAt] using hc
      have h2 : c' = call 0 "leaf" ["a"] := by simpa [S1, P1, fnAt] using hc'
      rw [h1, h2]
    | 1 =>
      have h1 : c = call 1 "leaf" ["b.y"] := by simpa [S1, P1, fnAt] using hc
      have h2 : c' = call 1 "leaf" ["b.y"] := by simpa [S1, P1, fnAt] using hc'
      rw [h1, h2]
    | 2 => simp [S1, P1, fnAt] at hc
    | n + 3 => simp [S1, P1, fnAt] at hc
  · rintro g ⟨f, c, hc, hr⟩ k n hn
    obtain ⟨_, hg⟩ := P1_edges hc hr
    subst hg
    cases k <;> simp [S1, σ1, IrSets.of] at hn <;> subst hn <;> decide
  · refine ⟨by decide, ?_⟩
    intro f c g hc hr
    obtain ⟨h | h, hg⟩ := P1_edges hc hr <;> obtain ⟨_, h⟩ := h <;> subst h <;> decide
  · rintro g ⟨f, c, hc, hr⟩
    obtain ⟨_, hg⟩ := P1_edges hc hr
    subst hg
    decide
  · intro f c g hc hr
    obtain ⟨h | h, hg⟩ := P1_edges hc hr <;> obtain ⟨_, h⟩ := h <;> subst h <;> subst hg
    · exact ⟨⟨[(s "l", s "a")], [], []⟩, by decide, by decide⟩
    · exact ⟨⟨[(s "l", s "b.y")], [], []⟩, by decide, by decide⟩
  · intro f c g b hc hr hb k
    obtain ⟨h | h, hg⟩ := P1_edges hc hr <;> obtain ⟨_, h⟩ := h <;> subst h <;> subst hg
    · have : pyBind (sigAt S1 2) (call 0 "leaf" ["a"]).args = .ok ⟨[(s "l", s "a")], [], []⟩ := by
        decide
      rw [this] at hb
      injection hb with hb
      subst hb
      exact congrArg (fun d => Dict.get? d k) (by decide)
    · have : pyBind (sigAt S1 2) (call 1 "leaf" ["b.y"]).args = .ok ⟨[(s "l", s "b.y")], [], []⟩ := by
        decide
      rw [this] at hb
      injection hb with hb
      subst hb
      exact congrArg (fun d => Dict.get? d k) (by decide)

end Rattr.Cex

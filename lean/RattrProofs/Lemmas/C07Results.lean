/-
  C07, result generation (stage S6): under `Crash.ResultsSafe` — every name of the FileIr starts with its
  basename (`nameWF`), no parameter name starts with `*`, every import a call resolves to is found —
  `Pipeline.results` ends with a document: `unbind_name` never reaches its `raise ValueError("never")` and
  `resolve_import` never raises, whatever the call graph (recursion, shared callees, the store that
  earlier roots mutated).

  The invariant carried through `foldTree` / `genLoop` is on the STORE: every name of every entry is
  `nameWF`; `unbind_name` keeps it (`unbindName_some`: the keys of `construct_call_swaps` are parameter
  names, `construct_keys`), set union keeps it.
-/
import RattrModel.CrashFile
import RattrProofs.Lemmas.Pipeline

namespace Rattr.C07
open Rattr Rattr.Crash Rattr.Results

/-! ### the keys of `construct_call_swaps` are parameter names -/

section swaps
variable {α : Type} [DecidableEq α]

def KeysIn (K : α → Prop) (d : Dict α α) : Prop := ∀ k ∈ Dict.keys d, K k

theorem keysIn_nil (K : α → Prop) : KeysIn K ([] : Dict α α) := by intro k h; simp [Dict.keys] at h

theorem keysIn_set {K : α → Prop} {d : Dict α α} (h : KeysIn K d) {k : α} (v : α) (hk : K k) :
    KeysIn K (Dict.set d k v) := by
  intro x hx
  rcases (Pipeline.mem_keys_set d k x v).mp hx with h1 | h1
  · exact h x h1
  · exact h1 ▸ hk

theorem get?_mem_keys {d : Dict α α} {k v : α} (h : Dict.get? d k = some v) : k ∈ Dict.keys d := by
  induction d with
  | nil => simp [Dict.get?] at h
  | cons p r ih =>
    obtain ⟨k', v'⟩ := p
    simp only [Dict.get?] at h
    simp only [Dict.keys, List.map_cons, List.mem_cons]
    split at h
    · rename_i e; exact Or.inl e.symm
    · exact Or.inr (ih h)

theorem bindPosonly_keys {K : α → Prop} : ∀ (ps cargs : List α) (sw sw' : Dict α α) (r : List α),
    (∀ p ∈ ps, K p) → KeysIn K sw → Swaps.bindPosonly ps cargs sw = some (sw', r) → KeysIn K sw'
  | [], cargs, sw, sw', r, _, hsw, h => by
    simp only [Swaps.bindPosonly] at h; injection h with h; injection h with h1 _; subst h1; exact hsw
  | p :: ps, [], sw, sw', r, _, _, h => by simp [Swaps.bindPosonly] at h
  | p :: ps, a :: as, sw, sw', r, hp, hsw, h => by
    simp only [Swaps.bindPosonly] at h
    exact bindPosonly_keys ps as _ sw' r (fun q hq => hp q (List.mem_cons_of_mem _ hq))
      (keysIn_set hsw a (hp p List.mem_cons_self)) h

theorem bindArgs_keys {K : α → Prop} : ∀ (ps cargs : List α) (sw : Dict α α),
    (∀ p ∈ ps, K p) → KeysIn K sw →
    KeysIn K (Swaps.bindArgs ps cargs sw).1 ∧ ∀ p ∈ (Swaps.bindArgs ps cargs sw).2.1, K p
  | [], cargs, sw, _, hsw => by simp [Swaps.bindArgs, hsw]
  | p :: ps, [], sw, hp, hsw => by simp only [Swaps.bindArgs]; exact ⟨hsw, hp⟩
  | p :: ps, a :: as, sw, hp, hsw => by
    simp only [Swaps.bindArgs]
    exact bindArgs_keys ps as _ (fun q hq => hp q (List.mem_cons_of_mem _ hq))
      (keysIn_set hsw a (hp p List.mem_cons_self))

theorem mem_removeFirst' {l : List α} {x y : α} (h : y ∈ removeFirst l x) : y ∈ l := by
  induction l with
  | nil => simp [removeFirst] at h
  | cons a r ih =>
    simp only [removeFirst] at h
    split at h
    · exact List.mem_cons_of_mem _ h
    · rcases List.mem_cons.mp h with h1 | h1
      · exact h1 ▸ List.mem_cons_self
      · exact List.mem_cons_of_mem _ (ih h1)

structure KwInv (K : α → Prop) (s : Swaps.KwState α) : Prop where
  swaps : KeysIn K s.swaps
  args : ∀ p ∈ s.args, K p
  kwonly : ∀ p ∈ s.kwonly, K p

theorem kwStep_keys {K : α → Prop} (si : StandIns α) (kwarg : Option α) (all : List α)
    (hkw : ∀ k, kwarg = some k → K k) (s : Swaps.KwState α) (kv : α × α) (h : KwInv K s) :
    KwInv K (Swaps.kwStep si kwarg all s kv) := by
  unfold Swaps.kwStep
  simp only []
  have h0 : KwInv K (if Dict.contains s.swaps kv.1 = true then { s with byPosName := s.byPosName ++ [kv.1] } else s) := by
    split
    · exact ⟨h.swaps, h.args, h.kwonly⟩
    · exact h
  generalize (if Dict.contains s.swaps kv.1 = true then { s with byPosName := s.byPosName ++ [kv.1] } else s) = s0 at h0
  split
  · rename_i hm
    exact ⟨keysIn_set h0.swaps _ (h0.args _ hm), fun p hp => h0.args p (mem_removeFirst' hp), h0.kwonly⟩
  · split
    · rename_i hm
      exact ⟨keysIn_set h0.swaps _ (h0.kwonly _ hm), h0.args, fun p hp => h0.kwonly p (mem_removeFirst' hp)⟩
    · split
      · rename_i k
        exact ⟨keysIn_set h0.swaps _ (hkw k rfl), h0.args, h0.kwonly⟩
      · split
        · exact ⟨h0.swaps, h0.args, h0.kwonly⟩
        · exact h0

theorem foldl_kwStep_keys {K : α → Prop} (si : StandIns α) (kwarg : Option α) (all : List α)
    (hkw : ∀ k, kwarg = some k → K k) : ∀ (l : List (α × α)) (s : Swaps.KwState α), KwInv K s →
    KwInv K (l.foldl (Swaps.kwStep si kwarg all) s)
  | [], s, h => h
  | kv :: r, s, h => foldl_kwStep_keys si kwarg all hkw r _ (kwStep_keys si kwarg all hkw s kv h)

theorem construct_keys {K : α → Prop} (si : StandIns α) (f : Iface α) (c : CallArgs α)
    (hK : ∀ p ∈ f.all, K p) : KeysIn K (Swaps.construct si f c).1 := by
  have hpos : ∀ p ∈ f.posonly, K p := fun p hp => hK p (by simp [Iface.all, hp])
  have hargs : ∀ p ∈ f.args, K p := fun p hp => hK p (by simp [Iface.all, hp])
  have hkwo : ∀ p ∈ f.kwonly, K p := fun p hp => hK p (by simp [Iface.all, hp])
  have hva : ∀ v, f.vararg = some v → K v := fun v hv => hK v (by simp [Iface.all, hv])
  have hkw : ∀ k, f.kwarg = some k → K k := fun k hk => hK k (by simp [Iface.all, hk])
  unfold Swaps.construct
  cases hb : Swaps.bindPosonly f.posonly c.args [] with
  | none => simp only []; exact keysIn_nil K
  | some q =>
    obtain ⟨sw, cargs⟩ := q
    simp only []
    have h1 := bindPosonly_keys f.posonly c.args [] sw cargs hpos (keysIn_nil K) hb
    have h2 := bindArgs_keys f.args cargs sw hargs h1
    refine (foldl_kwStep_keys si f.kwarg f.all hkw c.kwargs _ ⟨?_, h2.2, hkwo⟩).swaps
    cases hv : f.vararg with
    | none => simp only []; exact h2.1
    | some v => simp only []; exact keysIn_set h2.1 _ (hva v hv)
end swaps

/-! ### `unbind_name` on well-formed names -/

def cleanKey (k : Str) : Prop := k.head? ≠ some '*'

theorem nameWF_refl_of (n : NameS) (h : n.base.head? = some '*') : nameWF n = true := by
  simp [nameWF, h]

theorem unbindName_some {sw : Dict Str Str} (hk : KeysIn cleanKey sw) {n : NameS} (hw : nameWF n = true) :
    ∃ n', unbindName n ((Dict.get? sw n.base).getD n.base) = some n' ∧ nameWF n' = true := by
  unfold unbindName
  by_cases hb : n.base = (Dict.get? sw n.base).getD n.base
  · rw [if_pos hb]; exact ⟨n, rfl, hw⟩
  · rw [if_neg hb]
    -- the basename is a key of the swaps, hence clean
    have hkey : n.base.head? ≠ some '*' := by
      cases hg : Dict.get? sw n.base with
      | none => rw [hg] at hb; exact absurd rfl hb
      | some v => exact hk _ (get?_mem_keys hg)
    generalize (Dict.get? sw n.base).getD n.base = nb at hb ⊢
    simp only [nameWF, Bool.or_eq_true, beq_iff_eq] at hw
    have hw' := hw.resolve_left hkey
    simp only []
    by_cases hst : n.full.head? = some '*'
    · simp only [hst, if_true] at hw' ⊢
      rw [if_pos hw']
      refine ⟨_, rfl, ?_⟩
      simp only [nameWF, Bool.or_eq_true, beq_iff_eq]
      right
      simp
    · simp only [hst, if_false] at hw' ⊢
      rw [if_pos hw']
      refine ⟨_, rfl, ?_⟩
      simp only [nameWF, Bool.or_eq_true, beq_iff_eq]
      by_cases hnb : nb.head? = some '*'
      · exact Or.inl hnb
      · right
        cases nb with
        | nil =>
          simp only [List.nil_append]
          split
          · rename_i hh
            cases hd : List.drop n.base.length n.full with
            | nil => rw [hd] at hh; simp at hh
            | cons c r =>
              rw [hd] at hh
              simp only [List.head?_cons, Option.some.injEq] at hh
              subst hh
              simp
          · simp
        | cons c r =>
          have hc : c ≠ '*' := by simpa using hnb
          simp only [List.cons_append, List.head?_cons, Option.some.injEq, hc, if_false]
          simp

theorem unbindList_some {sw : Dict Str Str} (hk : KeysIn cleanKey sw) : ∀ (l : List NameS), l.all nameWF = true →
    ∃ l', unbindList sw l = some l' ∧ l'.all nameWF = true
  | [], _ => ⟨[], rfl, rfl⟩
  | n :: r, h => by
    simp only [List.all_cons, Bool.and_eq_true] at h
    obtain ⟨n', hn, hw⟩ := unbindName_some hk h.1
    obtain ⟨r', hr, hwr⟩ := unbindList_some hk r h.2
    exact ⟨n' :: r', by simp only [unbindList, hn, hr], by simp [hw, hwr]⟩

def setsWF (e : IrSets) : Prop := e.gets.all nameWF = true ∧ e.sets.all nameWF = true ∧ e.dels.all nameWF = true

theorem unbindIr_some {sw : Dict Str Str} (hk : KeysIn cleanKey sw) {e : IrSets} (h : setsWF e) :
    ∃ u, unbindIr sw e = some u ∧ setsWF u := by
  obtain ⟨g, hg, hwg⟩ := unbindList_some hk e.gets h.1
  obtain ⟨s, hs, hws⟩ := unbindList_some hk e.sets h.2.1
  obtain ⟨d, hd, hwd⟩ := unbindList_some hk e.dels h.2.2
  exact ⟨⟨g, s, d⟩, by simp only [unbindIr, hg, hs, hd], hwg, hws, hwd⟩

theorem union_all {a b : List NameS} (ha : a.all nameWF = true) (hb : b.all nameWF = true) :
    (union a b).all nameWF = true := by
  unfold union
  rw [List.all_append, ha, Bool.true_and, List.all_eq_true]
  intro x hx
  exact List.all_eq_true.mp hb x (List.mem_filter.mp hx).1

/-! ### the store stays well-formed through the fold -/

def StoreWF (σ : Store) : Prop := ∀ k, setsWF (σ k)

/-- every function's parameters are clean. -/
def ProgClean (P : Prog) : Prop := ∀ k, ∀ p ∈ (fnAt P k).iface.all, cleanKey p

theorem foldChild_some {P : Prog} (hP : ProgClean P) (pk : Key) {σ : Store} (hσ : StoreWF σ) (ch : Results.Node) :
    ∃ σ', foldChild P pk σ ch = some σ' ∧ StoreWF σ' := by
  unfold foldChild
  cases hc : ch.edgeIn with
  | none => exact ⟨σ, rfl, hσ⟩
  | some c =>
    simp only []
    obtain ⟨u, hu, hwu⟩ := unbindIr_some
      (construct_keys (si P) (fnAt P ch.key).iface c.args (hP ch.key)) (hσ ch.key)
    rw [hu]
    refine ⟨_, rfl, ?_⟩
    intro k
    unfold Store.update
    split
    · exact ⟨union_all (hσ pk).1 hwu.1, union_all (hσ pk).2.1 hwu.2.1, union_all (hσ pk).2.2 hwu.2.2⟩
    · exact hσ k

theorem foldChildren_some {P : Prog} (hP : ProgClean P) (pk : Key) : ∀ (chs : List Results.Node) {σ : Store}, StoreWF σ →
    ∃ σ', foldChildren P pk chs σ = some σ' ∧ StoreWF σ'
  | [], σ, hσ => ⟨σ, rfl, hσ⟩
  | ch :: r, σ, hσ => by
    obtain ⟨σ1, h1, hw1⟩ := foldChild_some hP pk hσ ch
    obtain ⟨σ2, h2, hw2⟩ := foldChildren_some hP pk r hw1
    exact ⟨σ2, by simp only [foldChildren, h1, h2], hw2⟩

theorem foldTree_some {P : Prog} (hP : ProgClean P) (nodes : List Results.Node) : ∀ (is : List Nat) {σ : Store}, StoreWF σ →
    ∃ σ', foldTree P nodes is σ = some σ' ∧ StoreWF σ'
  | [], σ, hσ => ⟨σ, rfl, hσ⟩
  | i :: r, σ, hσ => by
    simp only [foldTree]
    cases hn : nodes[i]? with
    | none => exact foldTree_some hP nodes r hσ
    | some n =>
      simp only []
      obtain ⟨σ1, h1, hw1⟩ := foldChildren_some hP n.key (childrenOf nodes i) hσ
      rw [h1]
      exact foldTree_some hP nodes r hw1

theorem runRoot_ok {P : Prog} (hP : ProgClean P) {σ : Store} (hσ : StoreWF σ) (root : Key) :
    ∃ res σ', runRoot P σ root = .ok (res, σ') ∧ StoreWF σ' := by
  unfold runRoot
  obtain ⟨nodes, hct⟩ := callTree_terminates P root
  rw [hct]
  simp only []
  obtain ⟨σ1, h1, hw1⟩ := foldTree_some hP nodes (List.range nodes.length).reverse hσ
  rw [h1]
  exact ⟨_, _, rfl, hw1⟩

open Rattr.Pipeline in
theorem genLoop_ok {P : Prog} (hP : ProgClean P) (D : DiagCtx) (hD : ∀ c, D.crashes c = none) :
    ∀ (order : List Key) {σ : Store}, StoreWF σ → ∃ q, genLoop P D order σ = .ok q
  | [], σ, _ => ⟨_, rfl⟩
  | root :: r, σ, hσ => by
    simp only [genLoop]
    obtain ⟨nodes, hct⟩ := callTree_terminates P root
    rw [hct]
    simp only []
    have htc : treeCrash P D nodes = none := by
      cases h : treeCrash P D nodes with
      | none => rfl
      | some e =>
        obtain ⟨c, hc⟩ := treeCrash_some h
        rw [hD c] at hc; cases hc
    rw [htc]
    simp only []
    obtain ⟨res, σ1, h1, hw1⟩ := runRoot_ok hP hσ root
    rw [h1]
    simp only []
    obtain ⟨q, hq⟩ := genLoop_ok hP D hD r hw1
    rw [hq]
    obtain ⟨rs, σ2, ds⟩ := q
    exact ⟨_, rfl⟩


/-! ### `ResultsSafe` gives the three hypotheses -/

open Rattr.Pipeline

theorem safe_entry {imp : ImpFacts} {fir : FileIr} (h : ResultsSafe imp fir = true) {p : Sym × IR} (hp : p ∈ fir) :
    irNamesWF p.2 = true ∧ ifaceClean (p.1.iface.getD emptyIface) = true ∧ p.2.calls.all (callImportOk imp) = true := by
  have := List.all_eq_true.mp h p hp
  simp only [Bool.and_eq_true] at this
  exact ⟨this.1.1, this.1.2, this.2⟩

theorem progClean_of_safe (ord : List CallSym → List CallSym) (f : Facts) {imp : ImpFacts} {fir : FileIr}
    (h : ResultsSafe imp fir = true) : ProgClean (toProg ord f imp fir) := by
  intro k p hp
  unfold fnAt toProg at hp
  simp only [List.getElem?_map] at hp
  cases hk : fir[k]? with
  | none => rw [hk] at hp; simp [Iface.all] at hp
  | some q =>
    rw [hk] at hp
    simp only [Option.map_some, Option.getD_some, fnInfo] at hp
    have hq := (safe_entry h (List.mem_of_getElem? hk)).2.1
    unfold ifaceClean at hq
    have := List.all_eq_true.mp hq p hp
    simpa [cleanKey] using this

theorem storeWF_of_safe {imp : ImpFacts} {fir : FileIr} (h : ResultsSafe imp fir = true) : StoreWF (toStore fir) := by
  intro k
  unfold toStore
  cases hk : fir[k]? with
  | none => simp [setsWF, IrSets.empty]
  | some q =>
    simp only []
    have hq := (safe_entry h (List.mem_of_getElem? hk)).1
    simp only [irNamesWF, Bool.and_eq_true] at hq
    exact ⟨hq.1.1, hq.1.2, hq.2⟩

theorem resolveCall_ok {f : Facts} {imp : ImpFacts} {fir : FileIr} {c : CallSym} (h : callImportOk imp c = true) :
    ∀ e, resolveCall f imp fir c ≠ .crash e := by
  intro e he
  unfold resolveCall at he
  unfold callImportOk at h
  cases ht : c.target with
  | none => simp [ht] at he
  | some t =>
    simp only [ht] at he h
    cases hk : t.kind with
    | builtin => simp [hk] at he
    | name => simp [hk] at he
    | func =>
      simp only [hk] at he
      split at he
      · cases he
      · split at he <;> cases he
    | cls =>
      simp only [hk] at he
      split at he <;> cases he
    | import_ =>
      simp only [hk, bne_self_eq_false, Bool.false_or] at he h
      cases hg : Dict.get? imp t.qual with
      | none => rw [hg] at h; cases h
      | some fact =>
        rw [hg] at h he
        simp only [] at h he
        rw [h] at he
        simp at he

theorem crashes_none_of_safe (ord : List CallSym → List CallSym) (f : Facts) {imp : ImpFacts} {fir : FileIr}
    (h : ResultsSafe imp fir = true) (c : CallRec) :
    (diagCtx f imp fir (toProg ord f imp fir)).crashes c = none := by
  simp only [diagCtx]
  cases hc : (allCalls fir)[c.cid]? with
  | none => rfl
  | some cs =>
    simp only []
    have hmem : cs ∈ allCalls fir := List.mem_of_getElem? hc
    unfold allCalls at hmem
    rw [mem_foldl_addCall] at hmem
    rcases hmem with hm | hm
    · cases hm
    · obtain ⟨p, hp, hcs⟩ := List.mem_flatMap.mp hm
      have hok := List.all_eq_true.mp (safe_entry h hp).2.2 cs hcs
      cases hr : resolveCall f imp fir cs with
      | target k => rfl
      | nothing => rfl
      | crash e => exact absurd hr (resolveCall_ok hok e)

/-- **result generation under `ResultsSafe`** ends with a document, for every order of ties. -/
theorem results_ok (ord : List CallSym → List CallSym) (f : Facts) (imp : ImpFacts) (fir : FileIr)
    (h : ResultsSafe imp fir = true) : ∃ doc ds, results ord f imp fir = .ok (doc, ds) := by
  obtain ⟨q, hq⟩ := genLoop_ok (progClean_of_safe ord f h) (diagCtx f imp fir (toProg ord f imp fir))
    (crashes_none_of_safe ord f h) (List.range fir.length) (storeWF_of_safe h)
  obtain ⟨rs, σ, ds⟩ := q
  refine ⟨mkDoc fir rs, ds, ?_⟩
  unfold results resultsStore
  simp only [hq]


end Rattr.C07

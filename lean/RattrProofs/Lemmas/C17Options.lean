/-
  C17 under the options that touch definitions — lemmas about `RootCtx.register`:

    * `register_facts_irrelevant` (+ `registerL`, `registerHandlers`, `compile`): the builder depends on
      the per-case facts only through `Facts.mods` and `Facts.isInit`; the exclusion verdicts
      (`Facts.excluded`: `-x` (`--exclude`)) never reach it (mutual induction over the statement tree);
    * `registerL_binds_defs`: on a module without `del` / starred imports / module-level `match`,
      EVERY name that Python binds through a `def` / `async def` / `class` statement executed at
      module level (`Spec.ModuleBound.defNamesL`: top level, or nested in `if` / `for` / `while` /
      `with` / `try` blocks and handlers, at any depth) is visible in the compiled root context.
-/
import RattrModel.Spec.ModuleBound
import RattrProofs.Lemmas.RootContext

set_option linter.unusedSimpArgs false

namespace Rattr

namespace RootCtx
open Rattr.Strs Rattr.FnA Rattr.Context Rattr.Spec.ModuleBound

/-! ### the facts the builder reads -/

theorem fact_congr (f f' : Facts) (hm : f.mods = f'.mods) (n : Str) : fact f n = fact f' n := by
  simp [fact, hm]

theorem addImport_congr (f f' : Facts) (hm : f.mods = f'.mods) (s : St) (name qual m : Str) :
    addImport f s name qual m = addImport f' s name qual m := by
  simp [addImport, importSym, fact, hm]

theorem addPlainImports_congr (f f' : Facts) (hm : f.mods = f'.mods) (aliases : List Alias) (s : St) :
    addPlainImports f aliases s = addPlainImports f' aliases s := by
  induction aliases generalizing s with
  | nil => simp [addPlainImports]
  | cons a r ih =>
    simp only [addPlainImports, addImport_congr f f' hm]
    cases addImport f' s (aliasLocal a) a.name a.name with
    | ok s1 => simp [FnA.bind, ih]
    | fatal s1 d => simp [FnA.bind]
    | crash s1 e => simp [FnA.bind]

theorem addFromImports_congr (f f' : Facts) (hm : f.mods = f'.mods) (m : Str) (aliases : List Alias) (s : St) :
    addFromImports f m aliases s = addFromImports f' m aliases s := by
  induction aliases generalizing s with
  | nil => simp [addFromImports]
  | cons a r ih =>
    simp only [addFromImports, addImport_congr f f' hm]
    cases addImport f' s (aliasLocal a) (m ++ '.' :: a.name) m with
    | ok s1 => simp [FnA.bind, ih]
    | fatal s1 d => simp [FnA.bind]
    | crash s1 e => simp [FnA.bind]

theorem visitImportFrom_congr (f f' : Facts) (hm : f.mods = f'.mods) (hi : f.isInit = f'.isInit)
    (m : Option Str) (lvl : Nat) (aliases : List Alias) (abs : Str) (sf co : Bool) (s : St) :
    visitImportFrom f m lvl aliases abs sf co s = visitImportFrom f' m lvl aliases abs sf co s := by
  simp only [visitImportFrom, hi, addImport_congr f f' hm, addFromImports_congr f f' hm]

mutual
/-- `register` reads `Facts.mods` and `Facts.isInit` only. -/
theorem register_facts_irrelevant (f f' : Facts) (hm : f.mods = f'.mods) (hi : f.isInit = f'.isInit) :
    (t : Top) → (s : St) → register f t s = register f' t s
  | .importStmt aliases, s => by
    rw [register.eq_def, register.eq_def]; simp only [addPlainImports_congr f f' hm]
  | .importFrom m lvl aliases abs sf co, s => by
    rw [register.eq_def, register.eq_def]; simp only [visitImportFrom_congr f f' hm hi]
  | .funcDef name ps b d a, s => by rw [register.eq_def, register.eq_def]
  | .classDef name bases body d, s => by rw [register.eq_def, register.eq_def]
  | .assign targets extra value, s => by rw [register.eq_def, register.eq_def]
  | .delete targets, s => by rw [register.eq_def, register.eq_def]
  | .exprStmt v, s => by rw [register.eq_def, register.eq_def]
  | .expr n, s => by rw [register.eq_def, register.eq_def]
  | .tryStmt b h o fb, s => by
    rw [register.eq_def, register.eq_def]; simp only []
    rw [registerL_facts_irrelevant f f' hm hi b s]
    cases registerL f' b s with
    | ok s1 =>
      simp only [FnA.bind]
      rw [registerL_facts_irrelevant f f' hm hi o s1]
      cases registerL f' o s1 with
      | ok s2 =>
        simp only [FnA.bind]
        rw [registerL_facts_irrelevant f f' hm hi fb s2]
        cases registerL f' fb s2 with
        | ok s3 => simp only [FnA.bind]; exact registerHandlers_facts_irrelevant f f' hm hi h s3
        | fatal s3 d => simp [FnA.bind]
        | crash s3 e => simp [FnA.bind]
      | fatal s2 d => simp [FnA.bind]
      | crash s2 e => simp [FnA.bind]
    | fatal s1 d => simp [FnA.bind]
    | crash s1 e => simp [FnA.bind]
  | .compound kind kids, s => by
    rw [register.eq_def, register.eq_def]; simp only []
    split
    · exact registerL_facts_irrelevant f f' hm hi kids s
    · rfl

theorem registerL_facts_irrelevant (f f' : Facts) (hm : f.mods = f'.mods) (hi : f.isInit = f'.isInit) :
    (ts : List Top) → (s : St) → registerL f ts s = registerL f' ts s
  | [], s => by rw [registerL.eq_def, registerL.eq_def]
  | t :: r, s => by
    rw [registerL.eq_def, registerL.eq_def]; simp only []
    rw [register_facts_irrelevant f f' hm hi t s]
    cases register f' t s with
    | ok s1 => simp only [FnA.bind]; exact registerL_facts_irrelevant f f' hm hi r s1
    | fatal s1 d => simp [FnA.bind]
    | crash s1 e => simp [FnA.bind]

theorem registerHandlers_facts_irrelevant (f f' : Facts) (hm : f.mods = f'.mods) (hi : f.isInit = f'.isInit) :
    (ts : List Top) → (s : St) → registerHandlers f ts s = registerHandlers f' ts s
  | [], s => by rw [registerHandlers.eq_def, registerHandlers.eq_def]
  | .compound k kids :: r, s => by
    rw [registerHandlers.eq_def, registerHandlers.eq_def]; simp only []
    rw [registerL_facts_irrelevant f f' hm hi kids s]
    cases registerL f' kids s with
    | ok s1 => simp only [FnA.bind]; exact registerHandlers_facts_irrelevant f f' hm hi r s1
    | fatal s1 d => simp [FnA.bind]
    | crash s1 e => simp [FnA.bind]
  | .importStmt _ :: r, s => by
    rw [registerHandlers.eq_def, registerHandlers.eq_def]; exact registerHandlers_facts_irrelevant f f' hm hi r s
  | .importFrom .. :: r, s => by
    rw [registerHandlers.eq_def, registerHandlers.eq_def]; exact registerHandlers_facts_irrelevant f f' hm hi r s
  | .funcDef .. :: r, s => by
    rw [registerHandlers.eq_def, registerHandlers.eq_def]; exact registerHandlers_facts_irrelevant f f' hm hi r s
  | .classDef .. :: r, s => by
    rw [registerHandlers.eq_def, registerHandlers.eq_def]; exact registerHandlers_facts_irrelevant f f' hm hi r s
  | .assign .. :: r, s => by
    rw [registerHandlers.eq_def, registerHandlers.eq_def]; exact registerHandlers_facts_irrelevant f f' hm hi r s
  | .delete _ :: r, s => by
    rw [registerHandlers.eq_def, registerHandlers.eq_def]; exact registerHandlers_facts_irrelevant f f' hm hi r s
  | .exprStmt _ :: r, s => by
    rw [registerHandlers.eq_def, registerHandlers.eq_def]; exact registerHandlers_facts_irrelevant f f' hm hi r s
  | .expr _ :: r, s => by
    rw [registerHandlers.eq_def, registerHandlers.eq_def]; exact registerHandlers_facts_irrelevant f f' hm hi r s
  | .tryStmt .. :: r, s => by
    rw [registerHandlers.eq_def, registerHandlers.eq_def]; exact registerHandlers_facts_irrelevant f f' hm hi r s
end

theorem compile_facts_irrelevant (f f' : Facts) (hm : f.mods = f'.mods) (hi : f.isInit = f'.isInit)
    (bs : List Str) (body : List Top) : compile f bs body = compile f' bs body :=
  registerL_facts_irrelevant f f' hm hi body _

/-! ### every executed `def` / `class` is bound -/

/-- the property carried through the tree: the names are visible. -/
def Binds (names : List Str) (s : St) : Prop :=
  ∀ x ∈ names, Context.contains s.ctx (withoutCallBrackets x) = true

theorem Binds.mono {names : List Str} {s s' : St} (h : Binds names s) (e : Ext s.ctx s'.ctx) : Binds names s' :=
  fun x hx => e.contains (h x hx)

theorem Binds.append {a b : List Str} {s : St} (ha : Binds a s) (hb : Binds b s) : Binds (a ++ b) s := by
  intro x hx
  rcases List.mem_append.mp hx with h | h
  · exact ha x h
  · exact hb x h

theorem Binds.nil (s : St) : Binds [] s := by intro x hx; cases hx

theorem block_of_python_block (kind : Str) (hk : matchKinds.contains kind = false)
    (hp : pythonBlockKinds.contains kind = true) : blockKinds.contains kind = true := by
  simp only [matchKinds, pythonBlockKinds, blockKinds, blockKindNames, clauseKindNames, List.cons_append,
    List.nil_append, List.map_cons, List.map_nil,
    List.contains_eq_mem, List.mem_cons, List.not_mem_nil, or_false, decide_eq_true_eq, decide_eq_false_iff_not,
    not_or] at *
  rcases hp with h | h | h | h | h | h | h | h | h
  · exact Or.inl h
  · exact Or.inr (Or.inl h)
  · exact Or.inr (Or.inr (Or.inl h))
  · exact Or.inr (Or.inr (Or.inr (Or.inl h)))
  · exact Or.inr (Or.inr (Or.inr (Or.inr (Or.inl h))))
  · exact Or.inr (Or.inr (Or.inr (Or.inr (Or.inr (Or.inl h)))))
  · exact absurd h hk
  · exact Or.inr (Or.inr (Or.inr (Or.inr (Or.inr (Or.inr (Or.inl h))))))
  · exact Or.inr (Or.inr (Or.inr (Or.inr (Or.inr (Or.inr (Or.inr h))))))

mutual
theorem register_binds_defs (f : Facts) : (t : Top) → (s s' : St) → plain t = true → regular t = true →
    s.ctx ≠ [] → register f t s = .ok s' → Binds (defNames t) s'
  | .importStmt _, s, s', _, _, _, _ => by rw [defNames.eq_def]; exact Binds.nil s'
  | .importFrom .., s, s', _, _, _, _ => by rw [defNames.eq_def]; exact Binds.nil s'
  | .funcDef name ps b d a, s, s', _, _, _, h => by
    rw [register.eq_def] at h; injection h with h; subst h
    rw [defNames.eq_def]
    intro x hx
    simp only [List.mem_singleton] at hx
    subst hx
    exact Context.contains_add s.ctx (funcSym x ps.iface)
  | .classDef name bases body d, s, s', _, _, _, h => by
    rw [register.eq_def] at h; injection h with h; subst h
    rw [defNames.eq_def]
    intro x hx
    simp only [List.mem_singleton] at hx
    subst hx
    exact Context.contains_add s.ctx (classSym x body)
  | .assign .., s, s', _, _, _, _ => by rw [defNames.eq_def]; exact Binds.nil s'
  | .delete _, s, s', _, _, _, _ => by rw [defNames.eq_def]; exact Binds.nil s'
  | .exprStmt _, s, s', _, _, _, _ => by rw [defNames.eq_def]; exact Binds.nil s'
  | .expr _, s, s', _, _, _, _ => by rw [defNames.eq_def]; exact Binds.nil s'
  | .tryStmt b hd o fb, s, s', hp, hr, hs, h => by
    rw [register.eq_def] at h; simp only [] at h
    simp only [plain, Bool.and_eq_true] at hp
    simp only [regular, Bool.and_eq_true] at hr
    rw [defNames.eq_def]; simp only []
    cases h1 : registerL f b s with
    | ok s1 =>
      simp only [h1, FnA.bind] at h
      have e1 := registerL_ext f b s s1 hp.1.1.1 hs h1
      cases h2 : registerL f o s1 with
      | ok s2 =>
        simp only [h2, FnA.bind] at h
        have e2 := registerL_ext f o s1 s2 hp.1.2 e1.ne h2
        cases h3 : registerL f fb s2 with
        | ok s3 =>
          simp only [h3, FnA.bind] at h
          have e3 := registerL_ext f fb s2 s3 hp.2 e2.ne h3
          have e4 : Ext s3.ctx s'.ctx := post_registerHandlers f hd s3 hp.1.1.2 (Ext.refl e3.ne) s' h
          have bb := (registerL_binds_defs f b s s1 hp.1.1.1 hr.1.1.1 hs h1).mono (Ext.trans e2 (Ext.trans e3 e4))
          have bo := (registerL_binds_defs f o s1 s2 hp.1.2 hr.1.2 e1.ne h2).mono (Ext.trans e3 e4)
          have bf := (registerL_binds_defs f fb s2 s3 hp.2 hr.2 e2.ne h3).mono e4
          have bh := registerHandlers_binds_defs f hd s3 s' hp.1.1.2 hr.1.1.2 e3.ne h
          exact Binds.append (Binds.append (Binds.append bb bh) bo) bf
        | fatal s3 d => simp [h3, FnA.bind] at h
        | crash s3 e => simp [h3, FnA.bind] at h
      | fatal s2 d => simp [h2, FnA.bind] at h
      | crash s2 e => simp [h2, FnA.bind] at h
    | fatal s1 d => simp [h1, FnA.bind] at h
    | crash s1 e => simp [h1, FnA.bind] at h
  | .compound kind kids, s, s', hp, hr, hs, h => by
    rw [register.eq_def] at h; simp only [] at h
    simp only [regular, Bool.and_eq_true, Bool.not_eq_true'] at hr
    rw [defNames.eq_def]; simp only []
    split
    · rename_i hpy
      rw [if_pos (block_of_python_block kind hr.1 hpy)] at h
      exact registerL_binds_defs f kids s s' (by simpa [plain] using hp) hr.2 hs h
    · exact Binds.nil s'

theorem registerL_binds_defs (f : Facts) : (ts : List Top) → (s s' : St) → plainL ts = true → regularL ts = true →
    s.ctx ≠ [] → registerL f ts s = .ok s' → Binds (defNamesL ts) s'
  | [], s, s', _, _, _, _ => by rw [defNamesL.eq_def]; exact Binds.nil s'
  | t :: r, s, s', hp, hr, hs, h => by
    rw [registerL.eq_def] at h; simp only [] at h
    simp only [plainL, Bool.and_eq_true] at hp
    simp only [regularL, Bool.and_eq_true] at hr
    rw [defNamesL.eq_def]; simp only []
    cases h1 : register f t s with
    | ok s1 =>
      simp only [h1, FnA.bind] at h
      have e1 := register_ne f t s s1 hp.1 hs h1
      have e2 := registerL_ext f r s1 s' hp.2 e1.ne h
      exact Binds.append ((register_binds_defs f t s s1 hp.1 hr.1 hs h1).mono e2)
        (registerL_binds_defs f r s1 s' hp.2 hr.2 e1.ne h)
    | fatal s1 d => simp [h1, FnA.bind] at h
    | crash s1 e => simp [h1, FnA.bind] at h

theorem registerHandlers_binds_defs (f : Facts) : (ts : List Top) → (s s' : St) → plainL ts = true →
    regularH ts = true → s.ctx ≠ [] → registerHandlers f ts s = .ok s' → Binds (defNamesL ts) s'
  | [], s, s', _, _, _, _ => by rw [defNamesL.eq_def]; exact Binds.nil s'
  | .compound k kids :: r, s, s', hp, hr, hs, h => by
    rw [registerHandlers.eq_def] at h; simp only [] at h
    simp only [plainL, plain, Bool.and_eq_true] at hp
    simp only [regularH, Bool.and_eq_true] at hr
    rw [defNamesL.eq_def]; simp only []
    cases h1 : registerL f kids s with
    | ok s1 =>
      simp only [h1, FnA.bind] at h
      have e1 := registerL_ext f kids s s1 hp.1 hs h1
      have e2 : Ext s1.ctx s'.ctx := post_registerHandlers f r s1 hp.2 (Ext.refl e1.ne) s' h
      have bk := (registerL_binds_defs f kids s s1 hp.1 hr.1 hs h1).mono e2
      refine Binds.append ?_ (registerHandlers_binds_defs f r s1 s' hp.2 hr.2 e1.ne h)
      rw [defNames.eq_def]; simp only []
      split
      · exact bk
      · exact Binds.nil s'
    | fatal s1 d => simp [h1, FnA.bind] at h
    | crash s1 e => simp [h1, FnA.bind] at h
  | .importStmt _ :: r, s, s', _, hr, _, _ => by simp [regularH] at hr
  | .importFrom .. :: r, s, s', _, hr, _, _ => by simp [regularH] at hr
  | .funcDef .. :: r, s, s', _, hr, _, _ => by simp [regularH] at hr
  | .classDef .. :: r, s, s', _, hr, _, _ => by simp [regularH] at hr
  | .assign .. :: r, s, s', _, hr, _, _ => by simp [regularH] at hr
  | .delete _ :: r, s, s', _, hr, _, _ => by simp [regularH] at hr
  | .exprStmt _ :: r, s, s', _, hr, _, _ => by simp [regularH] at hr
  | .expr _ :: r, s, s', _, hr, _, _ => by simp [regularH] at hr
  | .tryStmt .. :: r, s, s', _, hr, _, _ => by simp [regularH] at hr
end

end RootCtx
end Rattr

/-
  Helper lemmas for Props/C12: facts about `lookup`, `classify` (the ladder, rung by rung) and the
  potential function used for termination.
-/
import RattrModel.Imports
import RattrModel.Spec.Allowed

namespace Rattr.C12
open Rattr Rattr.Imports Rattr.Spec

variable {ν ω : Type} [DecidableEq ν] [DecidableEq ω]

theorem lookup_mem {g : Graph ν ω} {n : ν} {m : Module ν ω} (h : lookup g n = some m) :
    m ∈ g ∧ m.name = n := by
  unfold lookup at h
  refine ⟨List.mem_of_find?_eq_some h, ?_⟩
  have := List.find?_some h
  simpa using this

/-- Everything the ladder has established when it lets an import through. -/
structure Passed (g : Graph ν ω) (fl : Flags) (seen : List ω) (i : Imp ν)
    (n : ν) (o : ω) (m : Module ν ω) : Prop where
  target : i.target = some n
  look : lookup g n = some m
  origin : m.origin = some o
  unseen : o ∉ seen
  notBlack : m.blacklisted = false
  pipOk : m.inPip = true → fl.pip = true
  stdlibOk : m.inStdlib = true → fl.stdlib = true
  readable : m.readable = true
  compiles : compileOk g m.imports = true

theorem classify_analyse {g : Graph ν ω} {fl : Flags} {seen : List ω} {i : Imp ν}
    {n : ν} {o : ω} {m : Module ν ω}
    (h : classify g fl seen i = .analyse n o m) : Passed g fl seen i n o m := by
  unfold classify at h
  split at h
  · cases h
  · rename_i n' hn'
    split at h
    · cases h
    · rename_i m' hm'
      split at h
      · cases h
      · rename_i o' ho'
        split at h
        · cases h
        · rename_i hseen
          split at h
          · cases h
          · rename_i hbl
            split at h
            · cases h
            · rename_i hpip
              split at h
              · cases h
              · rename_i hstd
                split at h
                · cases h
                · rename_i hread
                  split at h
                  · cases h
                  · rename_i hcomp
                    injection h with h1 h2 h3
                    subst h1 h2 h3
                    refine ⟨hn', hm', ho', hseen, ?_, ?_, ?_, ?_, ?_⟩
                    · simpa using hbl
                    · intro hp
                      cases hf : fl.pip <;> simp_all
                    · intro hp
                      cases hf : fl.stdlib <;> simp_all
                    · simpa using hread
                    · simpa using hcomp

/-- The only rung that can stop an import which the *model-level* conditions allow is `seen`. -/
theorem classify_of_allowed {g : Graph ν ω} {fl : Flags} {seen : List ω} {i : Imp ν}
    {n : ν} {o : ω} {m : Module ν ω}
    (ht : i.target = some n) (hl : lookup g n = some m) (ho : m.origin = some o)
    (hb : m.blacklisted = false) (hp : m.inPip = true → fl.pip = true)
    (hs : m.inStdlib = true → fl.stdlib = true) :
    (o ∈ seen ∧ classify g fl seen i = .skip .seen) ∨
    (o ∉ seen ∧ (classify g fl seen i = .crashRead ∨ classify g fl seen i = .fatalCompile ∨
                 classify g fl seen i = .analyse n o m)) := by
  unfold classify
  simp only [ht, hl, ho]
  by_cases hseen : o ∈ seen
  · left; simp [hseen]
  · right
    refine ⟨hseen, ?_⟩
    have hp' : (!fl.pip && m.inPip) = false := by
      cases h1 : m.inPip <;> cases h2 : fl.pip <;> simp_all
    have hs' : (!fl.stdlib && m.inStdlib) = false := by
      cases h1 : m.inStdlib <;> cases h2 : fl.stdlib <;> simp_all
    simp only [hseen, hb, hp', hs', if_false, Bool.false_eq_true]
    cases hr : m.readable
    · left; simp
    · cases hc : compileOk g m.imports
      · right; left; simp
      · right; right; simp

/-! ### Potential function: pending import symbols of modules whose origin is not yet seen -/

/-- Module whose analysis is still possible: it has an origin that is not in `seen`. -/
def pending (seen : List ω) (m : Module ν ω) : Bool :=
  match m.origin with
  | none => false
  | some o => !decide (o ∈ seen)

def weight (g : Graph ν ω) (seen : List ω) : Nat :=
  ((g.filter (pending seen)).map (fun m => m.imports.length)).sum

theorem weight_nil_le (g : Graph ν ω) (seen : List ω) :
    weight g seen ≤ (g.map (fun m => m.imports.length)).sum := by
  unfold weight
  induction g with
  | nil => simp
  | cons a r ih =>
    simp only [List.filter_cons, List.map_cons, List.sum_cons]
    split
    · simp only [List.map_cons, List.sum_cons]; omega
    · omega

/-- Marking the origin of a pending module of the graph as seen lowers the weight by at least the
number of its import symbols. -/
theorem weight_mark {g : Graph ν ω} {seen : List ω} {m : Module ν ω} {o : ω}
    (hm : m ∈ g) (ho : m.origin = some o) (hu : o ∉ seen) :
    weight g (seen ++ [o]) + m.imports.length ≤ weight g seen := by
  unfold weight
  induction g with
  | nil => cases hm
  | cons a r ih =>
    have mono : ∀ (l : Graph ν ω),
        ((l.filter (pending (seen ++ [o]))).map (fun m => m.imports.length)).sum
          ≤ ((l.filter (pending seen)).map (fun m => m.imports.length)).sum := by
      intro l
      induction l with
      | nil => simp
      | cons b t iht =>
        simp only [List.filter_cons]
        have himp : pending (seen ++ [o]) b = true → pending seen b = true := by
          unfold pending
          cases b.origin with
          | none => simp
          | some ob => simp; intro h1 _; exact h1
        cases h1 : pending (seen ++ [o]) b
        · cases h2 : pending seen b
          · simpa using iht
          · simp only [List.map_cons, List.sum_cons, Bool.false_eq_true, if_false, if_true]; omega
        · have h2 := himp h1
          simp only [h2, if_true, List.map_cons, List.sum_cons]; omega
    rcases List.mem_cons.mp hm with h | h
    · subst h
      have h1 : pending (seen ++ [o]) m = false := by unfold pending; simp [ho]
      have h2 : pending seen m = true := by unfold pending; simp [ho, hu]
      simp only [List.filter_cons, h1, h2, if_true, Bool.false_eq_true, if_false, List.map_cons,
        List.sum_cons]
      have := mono r
      omega
    · have := ih h
      simp only [List.filter_cons]
      have himp : pending (seen ++ [o]) a = true → pending seen a = true := by
        unfold pending
        cases a.origin with
        | none => simp
        | some ob => simp; intro h1 _; exact h1
      cases h1 : pending (seen ++ [o]) a
      · cases h2 : pending seen a
        · simpa using this
        · simp only [List.map_cons, List.sum_cons, Bool.false_eq_true, if_false, if_true]; omega
      · have h2 := himp h1
        simp only [h2, if_true, List.map_cons, List.sum_cons]; omega

end Rattr.C12

/-
  The FRAME of the function analyser: visiting a node only ever touches the INNERMOST scope of the
  chain it is given; every enclosing scope — in particular the file's root context, which all
  functions of a file share — comes back exactly as it went in.  (`Context.add` binds in the
  current scope, `Context.remove` pops from the current scope's table only, a nested scope is pushed
  and popped again.)  Same recursion as the balance proof `visit_bal` (VisitCtx.lean), with the
  invariant `depth = n ∧ everything below the innermost scope = t` instead of `depth = n`.
  Used by C05: the IR of a function does not depend on which other functions were analysed before it.
-/
import RattrProofs.Lemmas.VisitCtx

namespace Rattr.FnA
open Rattr.Strs

/-- the scope chain has depth `n` and everything below its innermost scope is `t`. -/
def Inv (n : Nat) (t : Context) (c : Context) : Prop := c.length = n ∧ c.drop 1 = t

/-- `Fr n t r`: if `r` is a normal outcome, its scope chain satisfies `Inv n t`. -/
def Fr (n : Nat) (t : Context) (r : Res) : Prop := ∀ s', r = .ok s' → Inv n t s'.ctx

theorem Inv.ne_nil {n : Nat} {t c : Context} (hn : 0 < n) (h : Inv n t c) : c ≠ [] :=
  ne_nil_of_length hn h.1

theorem Inv.add {n : Nat} {t c : Context} (hn : 0 < n) (h : Inv n t c) (s : Sym) (b : Bool) :
    Inv n t (Context.add c s b) :=
  ⟨by rw [Context.length_add _ _ _ (h.ne_nil hn)]; exact h.1,
   by rw [Context.tail_add _ _ _ (h.ne_nil hn)]; exact h.2⟩

theorem Inv.addNames {n : Nat} {t c : Context} (hn : 0 < n) (h : Inv n t c) (names : List Str) :
    Inv n t (Context.addNames c names) :=
  ⟨by rw [Context.length_addNames _ _ (h.ne_nil hn)]; exact h.1,
   by rw [Context.tail_addNames _ _ (h.ne_nil hn)]; exact h.2⟩

theorem Inv.removeNames {n : Nat} {t c : Context} (h : Inv n t c) (names : List Str) :
    Inv n t (Context.removeNames c names) :=
  ⟨by rw [Context.length_removeNames]; exact h.1, by rw [Context.tail_removeNames]; exact h.2⟩

theorem Inv.addArguments {n : Nat} {t : Context} (s : St) (ps : Params) (hn : 0 < n) (h : Inv n t s.ctx) :
    Inv n t (addArguments s ps).ctx :=
  ⟨by rw [addArguments_length s ps (h.ne_nil hn)]; exact h.1,
   by rw [addArguments_tail s ps (h.ne_nil hn)]; exact h.2⟩

/-- a pushed scope sits on top of the chain it was pushed on. -/
theorem Inv.push {n : Nat} {c : Context} (h : c.length = n) : Inv (n + 1) c (Context.push c) :=
  ⟨by simp [h], rfl⟩

/-- popping the scope gives that chain back. -/
theorem Inv.pop {n m : Nat} {t c0 c : Context} (h : Inv m c0 c) (h0 : Inv n t c0) : Inv n t (Context.pop c) := by
  have : Context.pop c = c0 := h.2
  rw [this]; exact h0

theorem Fr.ok {n : Nat} {t : Context} {s : St} (h : Inv n t s.ctx) : Fr n t (.ok s) := by
  intro s' e; injection e with e; subst e; exact h
theorem Fr.fatal {n : Nat} {t : Context} {s : St} {d : Diag} : Fr n t (.fatal s d) := by intro s' e; cases e
theorem Fr.crash {n : Nat} {t : Context} {s : St} {x : Str} : Fr n t (.crash s x) := by intro s' e; cases e

theorem Fr.bind' {n m : Nat} {t u : Context} {r : Res} {f : St → Res} (hr : Fr m u r)
    (hf : ∀ s, Inv m u s.ctx → Fr n t (f s)) : Fr n t (r >>>= f) := by
  cases r with
  | ok s => exact hf s (hr s rfl)
  | fatal s d => exact Fr.fatal
  | crash s e => exact Fr.crash

theorem Fr.bind {n : Nat} {t : Context} {r : Res} {f : St → Res} (hr : Fr n t r)
    (hf : ∀ s, Inv n t s.ctx → Fr n t (f s)) : Fr n t (r >>>= f) := Fr.bind' hr hf

theorem Fr.bind_any {n : Nat} {t : Context} {r : Res} {f : St → Res} (hf : ∀ s, Fr n t (f s)) :
    Fr n t (r >>>= f) := by
  cases r with
  | ok s => exact hf s
  | fatal s d => exact Fr.fatal
  | crash s e => exact Fr.crash

theorem Fr.liftName {n : Nat} {t : Context} {s : St} {r : NameRes} {k : Str → Str → Res}
    (hk : ∀ b f, Fr n t (k b f)) : Fr n t (liftName s r k) := by
  cases r with
  | ok b f => exact hk b f
  | fatal d => exact Fr.fatal
  | crash e => exact Fr.crash

theorem Fr.getAndVerify {n : Nat} {t : Context} {s : St} {nd : Node} {c : ECtx} {k : St → Str → Str → Res}
    (hs : Inv n t s.ctx) (hk : ∀ s1 b f, Inv n t s1.ctx → Fr n t (k s1 b f)) :
    Fr n t (getAndVerify s nd c k) := by
  unfold FnA.getAndVerify
  apply Fr.liftName
  intro b f
  apply hk
  split <;> simpa using hs

theorem Fr.protect {n : Nat} {t : Context} {outer : St} {r : Res} (h : Fr n t r) : Fr n t (protect outer r) := by
  cases r with
  | ok s => exact h
  | fatal s d => exact Fr.fatal
  | crash s e => exact Fr.crash

theorem Fr.argNames {n : Nat} {t : Context} (args : List Node) (s : St) (k : St → List Str → Res)
    (hs : Inv n t s.ctx) (hk : ∀ s1 l, Inv n t s1.ctx → Fr n t (k s1 l)) :
    Fr n t (argNames s args k) := by
  induction args generalizing s k with
  | nil => exact hk s [] hs
  | cons a r ih =>
    simp only [FnA.argNames]
    split
    · apply ih
      · split <;> simpa using hs
      · intro s1 l h1; exact hk s1 _ h1
    · exact Fr.fatal
    · exact Fr.crash

theorem Fr.kwargNames {n : Nat} {t : Context} (kwn : List (Option Str)) (kwv : List Node) (s : St)
    (k : St → List (Str × Str) → Res)
    (hs : Inv n t s.ctx) (hk : ∀ s1 l, Inv n t s1.ctx → Fr n t (k s1 l)) :
    Fr n t (kwargNames s kwn kwv k) := by
  induction kwn generalizing kwv k with
  | nil => simp only [FnA.kwargNames]; exact hk s [] hs
  | cons a rn ih =>
    cases kwv with
    | nil => cases a <;> (simp only [FnA.kwargNames]; exact hk s [] hs)
    | cons v rv =>
      cases a with
      | none => simp only [FnA.kwargNames]; exact ih rv k hk
      | some kk =>
        simp only [FnA.kwargNames]
        split
        · exact ih rv _ (fun s1 l h1 => hk s1 _ h1)
        · exact Fr.fatal
        · exact Fr.crash

theorem Fr.mkCall {n : Nat} {t : Context} (s : St) (name : Str) (args : List Node) (kwn : List (Option Str))
    (kwv : List Node) (target : Option Sym) (self : Option Str) (k : St → CallSym → Res)
    (hs : Inv n t s.ctx) (hk : ∀ s1 c, Inv n t s1.ctx → Fr n t (k s1 c)) :
    Fr n t (mkCall s name args kwn kwv target self k) := by
  unfold FnA.mkCall
  apply Fr.argNames args s _ hs
  intro s1 l h1
  apply Fr.kwargNames kwn kwv s1 _ h1
  intro s2 l2 h2
  exact hk s2 _ h2

theorem Fr.dynamicName {n : Nat} {t : Context} (s : St) (fn : Str) (args : List Node) (k : St → NameS → Res)
    (hs : Inv n t s.ctx) (hk : ∀ s1 nm, Inv n t s1.ctx → Fr n t (k s1 nm)) :
    Fr n t (dynamicName s fn args k) := by
  unfold FnA.dynamicName
  simp only []
  repeat' split
  all_goals first | exact Fr.fatal | exact Fr.crash | (apply hk; simpa using hs)

theorem Fr.addIdentifiers {n : Nat} {t : Context} (s : St) (tg : Node) (hn : 0 < n) (hs : Inv n t s.ctx) :
    Fr n t (addIdentifiers s tg) := by
  unfold FnA.addIdentifiers
  split
  · apply Fr.ok
    show Inv n t (Context.addNames s.ctx _)
    exact hs.addNames hn _
  · exact Fr.fatal
  · exact Fr.crash

theorem Fr.removeIdentifiers {n : Nat} {t : Context} (s : St) (tg : Node) (hs : Inv n t s.ctx) :
    Fr n t (removeIdentifiers s tg) := by
  unfold FnA.removeIdentifiers
  split
  · apply Fr.ok
    show Inv n t (Context.removeNames s.ctx _)
    exact hs.removeNames _
  · exact Fr.fatal
  · exact Fr.crash

theorem Fr.addIdentifiersL {n : Nat} {t : Context} (ts : List Node) (s : St) (hn : 0 < n) (hs : Inv n t s.ctx) :
    Fr n t (addIdentifiersL s ts) := by
  induction ts generalizing s with
  | nil => exact Fr.ok hs
  | cons tg r ih =>
    simp only [FnA.addIdentifiersL]
    exact Fr.bind (Fr.addIdentifiers s tg hn hs) (fun s1 h1 => ih s1 h1)

theorem Fr.removeIdentifiersL {n : Nat} {t : Context} (ts : List Node) (s : St) (hs : Inv n t s.ctx) :
    Fr n t (removeIdentifiersL s ts) := by
  induction ts generalizing s with
  | nil => exact Fr.ok hs
  | cons tg r ih =>
    simp only [FnA.removeIdentifiersL]
    exact Fr.bind (Fr.removeIdentifiers s tg hs) (fun s1 h1 => ih s1 h1)

theorem Fr.withRegister {n : Nat} {t : Context} (items : List Node) (s : St) (hn : 0 < n) (hs : Inv n t s.ctx) :
    Fr n t (withRegister items s) := by
  induction items generalizing s with
  | nil => exact Fr.ok hs
  | cons it r ih =>
    cases it with
    | withitem ce vars =>
      simp only [FnA.withRegister]
      exact Fr.bind (Fr.addIdentifiersL vars s hn hs) (fun s1 h1 => ih s1 h1)
    | _ => simp only [FnA.withRegister]; exact ih s hs

theorem Fr.defaultdictNamed {n : Nat} {t : Context} (env : Env) (factory : Node) (s : St) (hs : Inv n t s.ctx) :
    Fr n t (defaultdictNamed env factory s) := by
  unfold FnA.defaultdictNamed
  apply Fr.liftName
  intro _ name
  exact Fr.ok hs

theorem compound_fr {n : Nat} {t : Context} (env : Env) (mn : Str) (v : Node) (nm : NameS) (c : ECtx) (s1 : St)
    (h1 : Inv n t s1.ctx) (ih : ∀ s, Inv n t s.ctx → Fr n t (visit env mn v s)) :
    Fr n t ((if (!v.isNameable) = true then visit env mn v s1 else Res.ok s1) >>>= fun s =>
      Res.ok (updateResults s nm c)) := by
  apply Fr.bind
  · split
    · exact ih s1 h1
    · exact Fr.ok h1
  · intro s2 h2; exact Fr.ok (by simpa using h2)

/-- frame invariant for the outcome of the assignment diversions. -/
def AFr (n : Nat) (t : Context) : AssignOut → Prop
  | .done r => Fr n t r
  | .generic s => Inv n t s.ctx

theorem AFr.done {n : Nat} {t : Context} {r : Res} (h : Fr n t r) : AFr n t (.done r) := h
theorem AFr.generic {n : Nat} {t : Context} {s : St} (h : Inv n t s.ctx) : AFr n t (.generic s) := h

mutual
theorem visit_fr (env : Env) (mn : Str) : (nd : Node) → (n : Nat) → (t : Context) → (s : St) → 0 < n →
    Inv n t s.ctx → Fr n t (visit env mn nd s)
  | .name id c, n, t, s, hn, hs => by
    rw [visit.eq_def]; simp only []
    apply Fr.getAndVerify hs; intro s1 b f h1
    exact Fr.ok (by simpa using h1)
  | .attr v a c, n, t, s, hn, hs => by
    rw [visit.eq_def]; simp only []
    apply Fr.getAndVerify hs; intro s1 b f h1
    exact compound_fr env mn v _ c s1 h1 (fun s h => visit_fr env mn v n t s hn h)
  | .sub v sl c, n, t, s, hn, hs => by
    rw [visit.eq_def]; simp only []
    apply Fr.getAndVerify hs; intro s1 b f h1
    exact compound_fr env mn v _ c s1 h1 (fun s h => visit_fr env mn v n t s hn h)
  | .starred v c, n, t, s, hn, hs => by
    rw [visit.eq_def]; simp only []
    apply Fr.getAndVerify hs; intro s1 b f h1
    exact compound_fr env mn v _ c s1 h1 (fun s h => visit_fr env mn v n t s hn h)
  | .call f args kwn kwv, n, t, s, hn, hs => by
    rw [visit.eq_def]; simp only []
    apply Fr.liftName; intro _ tn
    split
    · -- custom analyser
      rename_i q _
      split
      · exact Fr.dynamicName s tn args _ hs (fun s1 nm h1 => Fr.ok h1)
      split
      · exact Fr.dynamicName s tn args _ hs (fun s1 nm h1 => Fr.ok h1)
      split
      · exact Fr.dynamicName s tn args _ hs (fun s1 nm h1 => Fr.ok h1)
      split
      · -- sorted
        cases args with
        | nil => exact Fr.ok hs
        | cons a0 tl =>
          simp only []
          apply Fr.bind (n := n) (t := t)
          · apply Fr.protect
            apply Fr.bind (visit_fr env mn a0 n t _ hn (by simpa using hs))
            intro u hu
            exact sortedKey_fr env mn (namesOf true a0) kwn kwv n t u hn hu
          · intro u hu; exact Fr.ok (by simpa using hu)
      split
      · -- defaultdict
        cases args with
        | nil => exact Fr.ok hs
        | cons factory tl =>
          simp only []
          split
          · rename_i ps body _
            apply Fr.bind' (m := n + 1) (u := s.ctx)
            · apply Fr.protect
              apply visit_fr env mn body (n + 1) s.ctx _ (by omega)
              apply Inv.addArguments _ _ (by omega)
              exact Inv.push hs.1
            · intro u hu; apply Fr.ok; exact Inv.pop hu hs
          · exact Fr.defaultdictNamed env _ s hs
          · exact Fr.defaultdictNamed env _ s hs
          · apply Fr.bind' (m := n + 1) (u := s.ctx)
            · apply Fr.protect
              apply visit_fr env mn factory (n + 1) s.ctx _ (by omega)
              exact Inv.push hs.1
            · intro u hu; apply Fr.ok; exact Inv.pop hu hs
      · exact Fr.ok hs
    · -- ordinary call
      apply Fr.getAndVerify hs; intro s1 _ fullname h1
      apply Fr.mkCall
      · simp only []
        split
        · split <;> simpa using h1
        · simpa using h1
      · intro s2 c h2
        exact Fr.bind (visitList_fr env mn args n t _ hn h2) (fun s3 h3 => visitList_fr env mn kwv n t s3 hn h3)
  | .lam ps body, n, t, s, hn, hs => by
    rw [visit.eq_def]; simp only []
    apply Fr.bind' (m := n + 1) (u := s.ctx)
    · apply visit_fr env mn body (n + 1) s.ctx _ (by omega)
      apply Inv.addArguments _ _ (by omega)
      exact Inv.push hs.1
    · intro u hu; apply Fr.ok; exact Inv.pop hu hs
  | .comp k elts gens, n, t, s, hn, hs => by
    rw [visit.eq_def]; simp only []
    apply Fr.bind' (m := n + 1) (u := s.ctx) (visitList_fr env mn gens (n + 1) s.ctx _ (by omega) (Inv.push hs.1))
    intro s1 h1
    apply Fr.bind' (m := n + 1) (u := s.ctx) (visitList_fr env mn elts (n + 1) s.ctx s1 (by omega) h1)
    intro s2 h2; apply Fr.ok; exact Inv.pop h2 hs
  | .gen target iter ifs, n, t, s, hn, hs => by
    rw [visit.eq_def]; simp only []
    exact Fr.bind (Fr.addIdentifiers s target hn hs) fun s1 h1 =>
      Fr.bind (visit_fr env mn target n t s1 hn h1) fun s2 h2 =>
      Fr.bind (visit_fr env mn iter n t s2 hn h2) fun s3 h3 => visitList_fr env mn ifs n t s3 hn h3
  | .walrus tg v, n, t, s, hn, hs => by
    rw [visit.eq_def]; simp only []
    apply Fr.liftName; intro base full
    apply Fr.bind (n := n) (t := t)
    · split
      · exact visit_fr env mn v n t _ hn hs
      · exact Fr.ok hs
    · intro s1 h1
      have ih := assignDiv_fr env mn [tg] v n t s1 hn h1
      split
      · rename_i r heq; rw [heq] at ih; exact ih
      · rename_i s2 heq; rw [heq] at ih
        exact Fr.bind (visit_fr env mn tg n t s2 hn ih) fun s3 h3 => visit_fr env mn v n t s3 hn h3
  | .strConst _, n, t, s, hn, hs => by rw [visit.eq_def]; exact Fr.ok hs
  | .const, n, t, s, hn, hs => by rw [visit.eq_def]; exact Fr.ok hs
  | .seq _ elts _, n, t, s, hn, hs => by rw [visit.eq_def]; exact visitList_fr env mn elts n t s hn hs
  | .dict keys vals, n, t, s, hn, hs => by
    rw [visit.eq_def]
    exact Fr.bind (visitList_fr env mn keys n t s hn hs) fun s1 h1 => visitList_fr env mn vals n t s1 hn h1
  | .assign targets v, n, t, s, hn, hs => by
    rw [visit.eq_def]; simp only []
    have ih := assignDiv_fr env mn targets v n t s hn hs
    split
    · rename_i r heq; rw [heq] at ih; exact ih
    · rename_i s2 heq; rw [heq] at ih
      exact Fr.bind (visitList_fr env mn targets n t s2 hn ih) fun s3 h3 => visit_fr env mn v n t s3 hn h3
  | .annAssign tg ann [], n, t, s, hn, hs => by
    rw [visit.eq_def]; simp only []
    exact Fr.bind (Fr.addIdentifiers s tg hn hs) fun s1 h1 =>
      Fr.bind (visit_fr env mn tg n t s1 hn h1) fun s2 h2 => visit_fr env mn ann n t s2 hn h2
  | .annAssign tg ann (v0 :: _), n, t, s, hn, hs => by
    rw [visit.eq_def]; simp only []
    have ih := assignDiv_fr env mn [tg] v0 n t s hn hs
    split
    · rename_i r heq; rw [heq] at ih; exact ih
    · rename_i s2 heq; rw [heq] at ih
      exact Fr.bind (visit_fr env mn tg n t s2 hn ih) fun s3 h3 =>
        Fr.bind (visit_fr env mn ann n t s3 hn h3) fun s4 h4 => visit_fr env mn v0 n t s4 hn h4
  | .augAssign tg v, n, t, s, hn, hs => by
    rw [visit.eq_def]; simp only []
    have ih := assignDiv_fr env mn [tg] v n t s hn hs
    split
    · rename_i r heq; rw [heq] at ih; exact ih
    · rename_i s2 heq; rw [heq] at ih
      exact Fr.bind (visit_fr env mn tg n t s2 hn ih) fun s3 h3 => visit_fr env mn v n t s3 hn h3
  | .delete targets, n, t, s, hn, hs => by
    rw [visit.eq_def]; simp only []
    exact Fr.bind (visitList_fr env mn targets n t s hn hs) fun s1 h1 => Fr.removeIdentifiersL targets s1 h1
  | .forLoop tg iter body orelse, n, t, s, hn, hs => by
    rw [visit.eq_def]; simp only []
    exact Fr.bind (Fr.addIdentifiers s tg hn hs) fun s1 h1 =>
      Fr.bind (visit_fr env mn tg n t s1 hn h1) fun s2 h2 =>
      Fr.bind (visit_fr env mn iter n t s2 hn h2) fun s3 h3 =>
      Fr.bind (visitList_fr env mn body n t s3 hn h3) fun s4 h4 => visitList_fr env mn orelse n t s4 hn h4
  | .withStmt items body, n, t, s, hn, hs => by
    rw [visit.eq_def]; simp only []
    exact Fr.bind (Fr.withRegister items s hn hs) fun s1 h1 =>
      Fr.bind (visitList_fr env mn items n t s1 hn h1) fun s2 h2 => visitList_fr env mn body n t s2 hn h2
  | .withitem ce vars, n, t, s, hn, hs => by
    rw [visit.eq_def]; simp only []
    exact Fr.bind (visit_fr env mn ce n t s hn hs) fun s1 h1 => visitList_fr env mn vars n t s1 hn h1
  | .funcDef name ps body, n, t, s, hn, hs => by
    rw [visit.eq_def]; simp only []
    have h0 : Inv n t (Context.add (St.diag s (mkDiag .error "nested-function")).ctx (funcSym name ps.iface)) :=
      Inv.add hn (by simpa using hs) _ _
    apply Fr.bind' (m := n + 1) (u := Context.add (St.diag s (mkDiag .error "nested-function")).ctx (funcSym name ps.iface))
    · apply visitList_fr env mn body (n + 1) _ _ (by omega)
      apply Inv.addArguments _ _ (by omega)
      exact Inv.push h0.1
    · intro u hu; apply Fr.ok; exact Inv.pop hu h0
  | .classDef _, n, t, s, hn, hs => by rw [visit.eq_def]; exact Fr.ok (by simpa using hs)
  | .ret [], n, t, s, hn, hs => by rw [visit.eq_def]; exact Fr.ok hs
  | .ret (v0 :: _), n, t, s, hn, hs => by
    rw [visit.eq_def]; simp only []
    apply retVal_fr env mn v0 n t s _ hn hs
    intro s1 b h1
    split
    · exact Fr.ok h1
    · exact visit_fr env mn v0 n t s1 hn h1
  | .forbidden _, n, t, s, hn, hs => by rw [visit.eq_def]; exact Fr.fatal
  | .other _ kids, n, t, s, hn, hs => by rw [visit.eq_def]; exact visitList_fr env mn kids n t s hn hs
termination_by nd => (sizeOf nd, 1)

theorem visitList_fr (env : Env) (mn : Str) : (l : List Node) → (n : Nat) → (t : Context) → (s : St) → 0 < n →
    Inv n t s.ctx → Fr n t (visitList env mn l s)
  | [], n, t, s, hn, hs => by simp only [visitList]; exact Fr.ok hs
  | x :: r, n, t, s, hn, hs => by
    simp only [visitList]
    exact Fr.bind (visit_fr env mn x n t s hn hs) fun s1 h1 => visitList_fr env mn r n t s1 hn h1
termination_by l => (sizeOf l, 0)

theorem sortedKey_fr (env : Env) (mn : Str) (r : NameRes) : (kwn : List (Option Str)) →
    (kwv : List Node) → (n : Nat) → (t : Context) → (u : St) → 0 < n → Inv n t u.ctx →
    Fr n t (visitSortedKey env mn r kwn kwv u)
  | some k :: rn, v :: rv, n, t, u, hn, hu => by
    rw [visitSortedKey.eq_def]; simp only []
    split
    · split
      · split
        · exact Fr.crash
        · apply Fr.liftName; intro _ iterable
          apply Fr.bind_any
          intro l
          split
          · exact Fr.crash
          · exact Fr.ok (by simpa using hu)
      · exact visit_fr env mn v n t u hn hu
    · exact sortedKey_fr env mn r rn rv n t u hn hu
  | none :: rn, _ :: rv, n, t, u, hn, hu => by
    rw [visitSortedKey.eq_def]; simp only []
    exact sortedKey_fr env mn r rn rv n t u hn hu
  | [], _, n, t, u, hn, hu => by rw [visitSortedKey.eq_def]; exact Fr.ok hu
  | some _ :: _, [], n, t, u, hn, hu => by rw [visitSortedKey.eq_def]; exact Fr.ok hu
  | none :: _, [], n, t, u, hn, hu => by rw [visitSortedKey.eq_def]; exact Fr.ok hu
termination_by _kwn kwv => (sizeOf kwv, 0)

theorem assignDiv_fr (env : Env) (mn : Str) (targets : List Node) : (v : Node) → (n : Nat) → (t : Context) →
    (s : St) → 0 < n → Inv n t s.ctx → AFr n t (assignDiv env mn targets v s)
  | v, n, t, s, hn, hs => by
    rw [assignDiv.eq_def]; simp only []
    split
    · -- lambda on the right
      split
      · exact AFr.done Fr.fatal
      · split
        · apply AFr.done; apply Fr.liftName; intro _ name
          exact Fr.ok (Inv.add hn (by simpa using hs) _ _)
        · exact AFr.done Fr.fatal
    · split
      · -- namedtuple
        split
        · exact AFr.done Fr.fatal
        · split
          · apply AFr.done; apply Fr.liftName; intro _ name
            split
            · exact Fr.ok (by simpa using hs)
            · exact Fr.ok (Inv.add hn (by simpa using hs) _ _)
          · exact AFr.done Fr.crash
      · split
        · exact AFr.done Fr.fatal
        · exact AFr.done Fr.crash
        · have hb := Fr.addIdentifiersL targets s hn hs
          split
          · rename_i s1 heq; exact AFr.generic (hb s1 heq)
          · exact AFr.done hb
        · split
          · exact AFr.done Fr.fatal
          · split
            · rename_i tg tl f args kwn kwv _ _ _ _
              apply AFr.done; apply Fr.liftName; intro lb ln
              apply Fr.liftName; intro _ cn
              apply Fr.mkCall _ _ _ _ _ _ _ _ (by simpa using hs)
              intro s2 c h2
              apply Fr.bind (Fr.addIdentifiersL _ _ hn (by simpa using h2))
              intro s3 h3
              exact Fr.bind (visitList_fr env mn args n t s3 hn h3) fun s4 h4 =>
                visitList_fr env mn kwv n t s4 hn h4
            · exact AFr.done Fr.crash
termination_by v => (sizeOf v, 0)

theorem retVal_fr (env : Env) (mn : Str) : (nd : Node) → (n : Nat) → (t : Context) → (s : St) →
    (k : St → Bool → Res) → 0 < n → Inv n t s.ctx →
    (∀ s1 b, Inv n t s1.ctx → Fr n t (k s1 b)) → Fr n t (visitReturnValue env mn nd s k)
  | nd, n, t, s, k, hn, hs, hk => by
    rw [visitReturnValue.eq_def]; simp only []
    split
    · rename_i kind elts c
      exact Fr.bind (retElts_fr env mn elts n t s hn hs) fun s1 h1 => hk s1 true h1
    · rename_i keys vals
      exact Fr.bind (retElts_fr env mn keys n t s hn hs) fun s1 h1 =>
        Fr.bind (retElts_fr env mn vals n t s1 hn h1) fun s2 h2 => hk s2 true h2
    · rename_i f args kwn kwv
      split
      · exact hk s false hs
      · apply Fr.liftName; intro _ full
        split
        · exact hk s false hs
        · apply Fr.liftName; intro _ cn
          apply Fr.mkCall _ _ _ _ _ _ _ _ (by simpa using hs)
          intro s2 c h2
          exact Fr.bind (visitList_fr env mn args n t _ hn (by simpa using h2)) fun s3 h3 =>
            Fr.bind (visitList_fr env mn kwv n t s3 hn h3) fun s4 h4 => hk s4 true h4
    · exact hk s false hs
termination_by nd => (sizeOf nd, 0)

theorem retElts_fr (env : Env) (mn : Str) : (l : List Node) → (n : Nat) → (t : Context) → (s : St) → 0 < n →
    Inv n t s.ctx → Fr n t (visitReturnElts env mn l s)
  | [], n, t, s, hn, hs => by simp only [visitReturnElts]; exact Fr.ok hs
  | e :: r, n, t, s, hn, hs => by
    simp only [visitReturnElts]
    apply Fr.bind (n := n) (t := t)
    · apply retVal_fr env mn e n t s _ hn hs
      intro s1 b h1
      split
      · exact Fr.ok h1
      · exact visit_fr env mn e n t s1 hn h1
    · intro s1 h1; exact retElts_fr env mn r n t s1 hn h1
termination_by l => (sizeOf l, 0)
end

/-- `FunctionAnalyser(fn, root).analyse()` hands the context it was given back UNCHANGED: whatever the
body binds or unbinds (assignments, `del`, loops, `with`, nested scopes, parameters) lives and dies in
the scope pushed for the function. -/
theorem analyse_ctx (env : Env) (mn : Str) (root : Context) (ps : Params) (body : List Node) (s' : St)
    (h : analyse env mn root ps body = .ok s') : s'.ctx = root := by
  unfold analyse at h
  simp only [] at h
  have hfr : Fr (root.length + 1) root
      (visitList env mn body (addArguments { ctx := Context.push root } ps)) := by
    apply visitList_fr env mn body (root.length + 1) root _ (by omega)
    apply Inv.addArguments _ _ (by omega)
    exact Inv.push rfl
  cases hv : visitList env mn body (addArguments { ctx := Context.push root } ps) with
  | ok u =>
    rw [hv] at h
    simp only [bind] at h
    injection h with h
    subst h
    exact (hfr u hv).2
  | fatal u d => rw [hv] at h; simp only [bind] at h; cases h
  | crash u e => rw [hv] at h; simp only [bind] at h; cases h

end Rattr.FnA

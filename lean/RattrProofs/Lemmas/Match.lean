/-
  Lemmas about `match` statements (RattrModel/Match.lean): the visitor, the access spec, the
  fragments `simple` / `frag` all see a pattern as the list of expressions it evaluates.
-/
import RattrModel.Match
import RattrProofs.Lemmas.Visit
import RattrProofs.Lemmas.VisitSpec
import RattrProofs.Lemmas.VisitCover

namespace Rattr.Match
open Rattr Rattr.FnA Rattr.Strs Rattr.AccessSpec

/-! ### append lemmas of the spec / the fragments -/

theorem accessesL_append : ∀ a b : List Node, accessesL (a ++ b) = accessesL a ++ accessesL b
  | [], b => by simp [accessesL]
  | n :: r, b => by simp [accessesL, accessesL_append r b]

theorem simpleL_append : ∀ a b : List Node, simpleL (a ++ b) = (simpleL a && simpleL b)
  | [], b => by simp [simpleL]
  | n :: r, b => by simp [simpleL, simpleL_append r b, Bool.and_assoc]

theorem fragL_append (D : List Str) (F : Feat) : ∀ a b : List Node, fragL D F (a ++ b) = (fragL D F a && fragL D F b)
  | [], b => by simp [fragL]
  | n :: r, b => by simp [fragL, fragL_append D F r b, Bool.and_assoc]

/-! ### a pattern is visited as the list of its loads -/

mutual
theorem visit_node (env : Env) (mn : Str) : ∀ (p : Pat) (s : St),
    visit env mn (node p) s = visitList env mn (loads p) s
  | .value e, s => by rw [node, visit, loads]
  | .singleton, s => by rw [node, visit, loads]
  | .sequence ps, s => by rw [node, visit, loads]; exact visitList_nodes env mn ps s
  | .mapping keys ps _, s => by
    rw [node, visit, loads, visitList_append, visitList_append]
    congr 1; funext s₁; exact visitList_nodes env mn ps s₁
  | .cls c ps _ kwPs, s => by
    rw [node, visit, loads, visitList, visitList]
    congr 1; funext s₁
    rw [visitList_append, visitList_append, visitList_nodes env mn ps s₁]
    congr 1; funext s₂; exact visitList_nodes env mn kwPs s₂
  | .star _, s => by rw [node, visit, loads]
  | .as_ p _, s => by rw [node, visit, loads]; exact visitList_nodes env mn p s
  | .or_ ps, s => by rw [node, visit, loads]; exact visitList_nodes env mn ps s

theorem visitList_nodes (env : Env) (mn : Str) : ∀ (ps : List Pat) (s : St),
    visitList env mn (nodes ps) s = visitList env mn (loadsL ps) s
  | [], s => by rw [nodes, loadsL]
  | p :: r, s => by
    rw [nodes, loadsL, visitList, visitList_append, visit_node env mn p s]
    congr 1; funext s₁; exact visitList_nodes env mn r s₁
end

theorem visit_caseNode (env : Env) (mn : Str) (c : MatchCase) (s : St) :
    visit env mn (caseNode c) s = visitList env mn (caseParts c) s := by
  rw [caseNode, visit, visitList, caseParts, visitList_append, visit_node]

theorem visitList_caseNodes (env : Env) (mn : Str) : ∀ (cs : List MatchCase) (s : St),
    visitList env mn (caseNodes cs) s = visitList env mn (casesParts cs) s
  | [], s => by rw [caseNodes, casesParts]
  | c :: r, s => by
    rw [caseNodes, casesParts, visitList, visitList_append, visit_caseNode]
    congr 1; funext s₁; exact visitList_caseNodes env mn r s₁

theorem visit_stmt (env : Env) (mn : Str) (subject : Node) (cs : List MatchCase) (s : St) :
    visit env mn (stmt subject cs) s =
      (visit env mn subject s >>>= fun s₁ => visitList env mn (casesParts cs) s₁) := by
  rw [stmt, visit, visitList]
  congr 1; funext s₁; exact visitList_caseNodes env mn cs s₁

/-! ### … and specified as the list of its loads -/

mutual
theorem accesses_node : ∀ p : Pat, accesses false (node p) = accessesL (loads p)
  | .value e => by simp [node, loads, accesses]
  | .singleton => by simp [node, loads, accesses]
  | .sequence ps => by simp [node, loads, accesses, accessesL_nodes ps]
  | .mapping keys ps _ => by simp [node, loads, accesses, accessesL_append, accessesL_nodes ps]
  | .cls c ps _ kwPs => by
    simp [node, loads, accesses, accessesL, accessesL_append, accessesL_nodes ps, accessesL_nodes kwPs]
  | .star _ => by simp [node, loads, accesses]
  | .as_ p _ => by simp [node, loads, accesses, accessesL_nodes p]
  | .or_ ps => by simp [node, loads, accesses, accessesL_nodes ps]
theorem accessesL_nodes : ∀ ps : List Pat, accessesL (nodes ps) = accessesL (loadsL ps)
  | [] => by simp [nodes, loadsL]
  | p :: r => by simp [nodes, loadsL, accessesL, accessesL_append, accesses_node p, accessesL_nodes r]
end

theorem accesses_caseNode (c : MatchCase) : accesses false (caseNode c) = accessesL (caseParts c) := by
  simp [caseNode, caseParts, accesses, accessesL, accessesL_append, accesses_node]

theorem accessesL_caseNodes : ∀ cs : List MatchCase, accessesL (caseNodes cs) = accessesL (casesParts cs)
  | [] => by simp [caseNodes, casesParts]
  | c :: r => by simp [caseNodes, casesParts, accessesL, accessesL_append, accesses_caseNode, accessesL_caseNodes r]

theorem accesses_stmt (subject : Node) (cs : List MatchCase) :
    accesses false (stmt subject cs) = accesses false subject ++ accessesL (casesParts cs) := by
  simp [stmt, accesses, accessesL, accessesL_caseNodes]

/-! ### membership in the fragments -/

mutual
theorem simple_node : ∀ p : Pat, simple (node p) = simpleL (loads p)
  | .value e => by simp [node, loads, simple]
  | .singleton => by simp [node, loads, simple]
  | .sequence ps => by simp [node, loads, simple, simpleL_nodes ps]
  | .mapping keys ps _ => by simp [node, loads, simple, simpleL_append, simpleL_nodes ps]
  | .cls c ps _ kwPs => by simp [node, loads, simple, simpleL, simpleL_append, simpleL_nodes ps, simpleL_nodes kwPs]
  | .star _ => by simp [node, loads, simple]
  | .as_ p _ => by simp [node, loads, simple, simpleL_nodes p]
  | .or_ ps => by simp [node, loads, simple, simpleL_nodes ps]
theorem simpleL_nodes : ∀ ps : List Pat, simpleL (nodes ps) = simpleL (loadsL ps)
  | [] => by simp [nodes, loadsL]
  | p :: r => by simp [nodes, loadsL, simpleL, simpleL_append, simple_node p, simpleL_nodes r]
end

mutual
theorem frag_node (D : List Str) (F : Feat) : ∀ p : Pat, frag D F (node p) = fragL D F (loads p)
  | .value e => by simp [node, loads, frag]
  | .singleton => by simp [node, loads, frag]
  | .sequence ps => by simp [node, loads, frag, fragL_nodes D F ps]
  | .mapping keys ps _ => by simp [node, loads, frag, fragL_append, fragL_nodes D F ps]
  | .cls c ps _ kwPs => by simp [node, loads, frag, fragL, fragL_append, fragL_nodes D F ps, fragL_nodes D F kwPs]
  | .star _ => by simp [node, loads, frag]
  | .as_ p _ => by simp [node, loads, frag, fragL_nodes D F p]
  | .or_ ps => by simp [node, loads, frag, fragL_nodes D F ps]
theorem fragL_nodes (D : List Str) (F : Feat) : ∀ ps : List Pat, fragL D F (nodes ps) = fragL D F (loadsL ps)
  | [] => by simp [nodes, loadsL]
  | p :: r => by simp [nodes, loadsL, fragL, fragL_append, frag_node D F p, fragL_nodes D F r]
end

theorem frag_caseNode (D : List Str) (F : Feat) (c : MatchCase) :
    frag D F (caseNode c) = fragL D F (caseParts c) := by
  simp [caseNode, caseParts, frag, fragL, fragL_append, frag_node]

theorem fragL_caseNodes (D : List Str) (F : Feat) : ∀ cs : List MatchCase,
    fragL D F (caseNodes cs) = fragL D F (casesParts cs)
  | [] => by simp [caseNodes, casesParts]
  | c :: r => by simp [caseNodes, casesParts, fragL, fragL_append, frag_caseNode, fragL_caseNodes D F r]

theorem frag_stmt (D : List Str) (F : Feat) (subject : Node) (cs : List MatchCase) :
    frag D F (stmt subject cs) = (frag D F subject && fragL D F (casesParts cs)) := by
  simp [stmt, frag, fragL, fragL_caseNodes]

/-- the loads of a sub-pattern are loads of the pattern wrapped in `as` (any number of times). -/
theorem loads_as (p : Pat) (name : Option Str) : loads (.as_ [p] name) = loads p := by
  simp [loads, loadsL]

theorem mem_casesParts {c : MatchCase} {cs : List MatchCase} (hc : c ∈ cs) {n : Node} (hn : n ∈ caseParts c) :
    n ∈ casesParts cs := by
  induction cs with
  | nil => cases hc
  | cons d r ih =>
    rw [casesParts]
    rcases List.mem_cons.mp hc with e | hr
    · subst e; exact List.mem_append_left _ hn
    · exact List.mem_append_right _ (ih hr)

end Rattr.Match

/-
  The "tree fragment" of result generation (C03 / C05 / C14), call graphs of ARBITRARY depth:
  from every root the resolvable call graph unfolds to a tree (`TreeLike`: acyclic, and no call
  symbol class `cid` is reached along two different paths from one root).

  Part 1 (this file, §paths–§bfs): the BFS call tree of `callTree` is then the FULL unfolding
  (`FullTree`): every resolvable call of every node has a child — the tree-global `seen` never
  cuts anything.
  Part 2 (§closure–§generate): the reversed-BFS fold over ONE shared store computes, at the level of
  membership, the least fixed point `Clo` of "own accesses ∪ unbound closure of every resolvable
  callee" — for the first root, and for every later root over the store the earlier roots left
  (`StoreInv`: own ⊆ σ g ⊆ Clo g is preserved, and each processed node becomes complete).
-/
import RattrProofs.Lemmas.ResultsDepthOneSpec

namespace Rattr.Results
open Rattr.Spec

/-! ### list helpers -/

theorem getElem?_snoc_eq_some {α : Type} (l : List α) (a b : α) (j : Nat) :
    (l ++ [a])[j]? = some b ↔ l[j]? = some b ∨ (j = l.length ∧ a = b) := by
  by_cases hj : j < l.length
  · rw [List.getElem?_append_left hj]
    constructor
    · exact Or.inl
    · rintro (h | ⟨h, _⟩)
      · exact h
      · omega
  · have hge : l.length ≤ j := Nat.le_of_not_lt hj
    rw [List.getElem?_append_right hge]
    have hnone : l[j]? = none := List.getElem?_eq_none hge
    rw [hnone]
    constructor
    · intro h
      right
      by_cases h0 : j - l.length = 0
      · rw [h0] at h
        simp only [List.getElem?_cons_zero, Option.some.injEq] at h
        exact ⟨by omega, h⟩
      · obtain ⟨m, hm⟩ := Nat.exists_eq_succ_of_ne_zero h0
        rw [hm] at h
        simp at h
    · rintro (h | ⟨h, hab⟩)
      · cases h
      · subst h; subst hab
        simp

theorem getElem?_append_of_some {α : Type} {l : List α} {j : Nat} {a : α} (h : l[j]? = some a)
    (ext : List α) : (l ++ ext)[j]? = some a := by
  have hj : j < l.length := by
    apply Classical.byContradiction
    intro hn
    rw [List.getElem?_eq_none (Nat.le_of_not_lt hn)] at h
    cases h
  rw [List.getElem?_append_left hj]
  exact h

theorem lt_length_of_getElem? {α : Type} {l : List α} {j : Nat} {a : α} (h : l[j]? = some a) :
    j < l.length := by
  apply Classical.byContradiction
  intro hn
  rw [List.getElem?_eq_none (Nat.le_of_not_lt hn)] at h
  cases h

theorem getElem?_map_fst {α β : Type} (l : List (α × β)) (j : Nat) (a : α) :
    (l.map Prod.fst)[j]? = some a ↔ ∃ b, l[j]? = some (a, b) := by
  rw [List.getElem?_map]
  cases h : l[j]? with
  | none => simp
  | some ab =>
    obtain ⟨a', b'⟩ := ab
    simp only [Option.map_some, Option.some.injEq, Prod.mk.injEq]
    constructor
    · intro e; exact ⟨b', e, rfl⟩
    · rintro ⟨b, e1, _⟩; exact e1

/-! ### paths in the resolvable call graph; the tree fragment -/

/-- `Reach P f p h`: `p` is the list of call-symbol classes (`cid`) along a chain of resolvable
calls leading from `f` to `h`. -/
inductive Reach (P : Prog) : Key → List Nat → Key → Prop
  | nil (f : Key) : Reach P f [] f
  | cons {f g h : Key} {c : CallRec} {p : List Nat} :
      c ∈ (fnAt P f).calls → P.resolve c.cid = some g → Reach P g p h → Reach P f (c.cid :: p) h

theorem Reach.snoc {P : Prog} {f g h : Key} {p : List Nat} {c : CallRec} (hr : Reach P f p g)
    (hc : c ∈ (fnAt P g).calls) (hres : P.resolve c.cid = some h) :
    Reach P f (p ++ [c.cid]) h := by
  induction hr with
  | nil f => exact Reach.cons hc hres (Reach.nil h)
  | cons hc' hres' _ ih => exact Reach.cons hc' hres' (ih hc)

/-- no call-symbol class is reached along two different paths from one root. -/
def UniquePaths (P : Prog) : Prop :=
  ∀ root p q x g h, Reach P root (p ++ [x]) g → Reach P root (q ++ [x]) h → p = q

/-- THE TREE FRAGMENT: the resolvable call graph is acyclic and, unfolded from any root, is a
tree — no `cid` is met twice in the unfolding. (A function may still be called from several
functions, and from several roots; a LEAF may even occur several times under one root.) -/
def TreeLike (P : Prog) : Prop := Acyclic P ∧ UniquePaths P

/-! ### the BFS invariant: every node carries its path from the root -/

/-- nodes annotated with the cid-path from the root. -/
abbrev Ann := List (Node × List Nat)

structure TInv (P : Prog) (root : Key) (st : BfsState) (ann : Ann) : Prop where
  nodes_eq : st.nodes = ann.map Prod.fst
  root0 : ann[0]? = some (rootNode root, [])
  reach : ∀ (j : Nat) (n : Node) (p : List Nat), ann[j]? = some (n, p) → Reach P root p n.key
  edge : ∀ (j : Nat) (n : Node) (p : List Nat), ann[j]? = some (n, p) → j ≠ 0 →
    ∃ (i : Nat) (c : CallRec) (pn : Node) (pp : List Nat), n.parent = some i ∧ i < j ∧ n.edgeIn = some c ∧ ann[i]? = some (pn, pp) ∧
      c ∈ (fnAt P pn.key).calls ∧ P.resolve c.cid = some n.key ∧ p = pp ++ [c.cid]
  seen_iff : ∀ x, x ∈ st.seen ↔ ∃ (j : Nat) (n : Node) (p : List Nat), ann[j]? = some (n, p ++ [x])
  pinj : ∀ (j j' : Nat) (n n' : Node) (p : List Nat),
    ann[j]? = some (n, p) → ann[j']? = some (n', p) → j = j'

theorem TInv.init (P : Prog) (root : Key) :
    TInv P root { nodes := [rootNode root], seen := [] } [(rootNode root, [])] where
  nodes_eq := rfl
  root0 := rfl
  reach := by
    intro j n p h
    cases j with
    | zero =>
      simp only [List.getElem?_cons_zero, Option.some.injEq, Prod.mk.injEq] at h
      obtain ⟨h1, h2⟩ := h
      subst h1; subst h2
      exact Reach.nil root
    | succ j => simp at h
  edge := by
    intro j n p h hj
    cases j with
    | zero => exact absurd rfl hj
    | succ j => simp at h
  seen_iff := by
    intro x
    constructor
    · intro h; cases h
    · rintro ⟨j, n, p, h⟩
      cases j with
      | zero => simp at h
      | succ j => simp at h
  pinj := by
    intro j j' n n' p h h'
    have := lt_length_of_getElem? h
    have := lt_length_of_getElem? h'
    simp at *
    omega

/-- node `i` has a child with key `h` whose in-edge has call-symbol class `x`. -/
def Kid (ann : Ann) (i : Nat) (h : Key) (x : Nat) : Prop :=
  ∃ (j : Nat) (ch : Node) (p : List Nat) (c' : CallRec), ann[j]? = some (ch, p) ∧
    ch.parent = some i ∧ ch.key = h ∧ ch.edgeIn = some c' ∧ c'.cid = x

theorem Kid.mono {ann : Ann} {i : Nat} {h : Key} {x : Nat} (hk : Kid ann i h x) (ext : Ann) :
    Kid (ann ++ ext) i h x := by
  obtain ⟨j, ch, p, c', h1, h2⟩ := hk
  exact ⟨j, ch, p, c', getElem?_append_of_some h1 ext, h2⟩

/-- adding a child for an unseen resolvable call of node `i` keeps the invariant. -/
theorem TInv.push {P : Prog} {root : Key} {st : BfsState} {ann : Ann} (hI : TInv P root st ann)
    {i : Nat} {n : Node} {pi : List Nat} (hi : ann[i]? = some (n, pi)) {c : CallRec} {g : Key}
    (hc : c ∈ (fnAt P n.key).calls) (hres : P.resolve c.cid = some g) (hns : c.cid ∉ st.seen) :
    TInv P root
      { nodes := st.nodes ++ [{ key := g, edgeIn := some c, parent := some i }],
        seen := c.cid :: st.seen }
      (ann ++ [({ key := g, edgeIn := some c, parent := some i }, pi ++ [c.cid])]) where
  nodes_eq := by simp [hI.nodes_eq]
  root0 := getElem?_append_of_some hI.root0 _
  reach := by
    intro j n' p h
    rcases (getElem?_snoc_eq_some _ _ _ _).mp h with h | ⟨_, h⟩
    · exact hI.reach j n' p h
    · injection h with h1 h2
      subst h1; subst h2
      exact (hI.reach i n pi hi).snoc hc hres
  edge := by
    intro j n' p h hj
    rcases (getElem?_snoc_eq_some _ _ _ _).mp h with h | ⟨hjl, h⟩
    · obtain ⟨i', c', pn, pp, h1, h2, h3, h4, h5⟩ := hI.edge j n' p h hj
      exact ⟨i', c', pn, pp, h1, h2, h3, getElem?_append_of_some h4 _, h5⟩
    · injection h with h1 h2
      subst h1; subst h2
      refine ⟨i, c, n, pi, rfl, ?_, rfl, getElem?_append_of_some hi _, hc, hres, rfl⟩
      rw [hjl]
      exact lt_length_of_getElem? hi
  seen_iff := by
    intro x
    constructor
    · intro hx
      rcases List.mem_cons.mp hx with hx | hx
      · subst hx
        exact ⟨ann.length, _, pi, (getElem?_snoc_eq_some _ _ _ _).mpr (Or.inr ⟨rfl, rfl⟩)⟩
      · obtain ⟨j, n', p, h⟩ := (hI.seen_iff x).mp hx
        exact ⟨j, n', p, getElem?_append_of_some h _⟩
    · rintro ⟨j, n', p, h⟩
      rcases (getElem?_snoc_eq_some _ _ _ _).mp h with h | ⟨_, h⟩
      · exact List.mem_cons_of_mem _ ((hI.seen_iff x).mpr ⟨j, n', p, h⟩)
      · injection h with _ h2
        have := List.append_inj_right' h2 rfl
        injection this with this
        rw [← this]
        exact List.mem_cons_self
  pinj := by
    intro j j' n1 n2 p h h'
    rcases (getElem?_snoc_eq_some _ _ _ _).mp h with h | ⟨hj, h⟩
    · rcases (getElem?_snoc_eq_some _ _ _ _).mp h' with h' | ⟨_, h'⟩
      · exact hI.pinj j j' n1 n2 p h h'
      · injection h' with _ h2
        subst h2
        exact absurd ((hI.seen_iff c.cid).mpr ⟨j, n1, pi, h⟩) hns
    · rcases (getElem?_snoc_eq_some _ _ _ _).mp h' with h' | ⟨hj', _⟩
      · injection h with _ h2
        subst h2
        exact absurd ((hI.seen_iff c.cid).mpr ⟨j', n2, pi, h'⟩) hns
      · rw [hj, hj']

/-- `expand` on node `i` (annotated `(n, pi)`): the invariant is kept, and afterwards EVERY
resolvable call of the processed list has a child of `i` — here `UniquePaths` is used: a cid that
is already in `seen` can only belong to an earlier child of the same node. -/
theorem expand_tinv {P : Prog} {root : Key} (hU : UniquePaths P) (i : Nat) (n : Node)
    (pi : List Nat) (cs : List CallRec) (st : BfsState) (ann : Ann) (hI : TInv P root st ann)
    (hi : ann[i]? = some (n, pi)) (hcs : ∀ c ∈ cs, c ∈ (fnAt P n.key).calls) :
    ∃ ext, TInv P root (expand P i cs st) (ann ++ ext) ∧
      ∀ c ∈ cs, ∀ h, P.resolve c.cid = some h → Kid (ann ++ ext) i h c.cid := by
  induction cs generalizing st ann with
  | nil => exact ⟨[], by simpa [expand] using hI, fun c hc => by cases hc⟩
  | cons c r ih =>
    have hr : ∀ c ∈ r, c ∈ (fnAt P n.key).calls := fun c hc => hcs c (List.mem_cons_of_mem _ hc)
    have hc : c ∈ (fnAt P n.key).calls := hcs c List.mem_cons_self
    simp only [expand]
    by_cases hs : st.seen.contains c.cid = true
    · simp only [hs, if_true]
      obtain ⟨ext, hI', hk⟩ := ih st ann hI hi hr
      refine ⟨ext, hI', ?_⟩
      intro c' hc' h hres
      rcases List.mem_cons.mp hc' with e | hc'
      · subst e
        -- seen hit: the node carrying this cid is a child of `i`
        have hmem : c'.cid ∈ st.seen := by simpa using hs
        obtain ⟨j, nj, pj, hj⟩ := (hI.seen_iff c'.cid).mp hmem
        have hj0 : j ≠ 0 := by
          intro e
          subst e
          rw [hI.root0] at hj
          injection hj with hj
          injection hj with _ hj
          cases pj <;> simp at hj
        obtain ⟨i', c2, pn, pp, e1, e2, e3, e4, e5, e6, e7⟩ := hI.edge j nj _ hj hj0
        have hlast := List.append_inj_right' e7 rfl
        injection hlast with hlast
        have hpp : pj = pp := List.append_inj_left' e7 rfl
        subst hpp
        have r1 : Reach P root (pi ++ [c'.cid]) h := (hI.reach i n pi hi).snoc hc hres
        have r2 : Reach P root (pj ++ [c'.cid]) nj.key := hI.reach j nj _ hj
        have hpe : pi = pj := hU root pi pj c'.cid h nj.key r1 r2
        subst hpe
        have hii : i = i' := hI.pinj i i' n pn pi hi e4
        subst hii
        have hkey : nj.key = h := by
          rw [hlast, e6] at hres
          injection hres
        exact Kid.mono ⟨j, nj, _, c2, hj, e1, hkey, e3, hlast.symm⟩ ext
      · exact hk c' hc' h hres
    · simp only [hs]
      cases hres : P.resolve c.cid with
      | none =>
        simp only
        obtain ⟨ext, hI', hk⟩ := ih st ann hI hi hr
        refine ⟨ext, hI', ?_⟩
        intro c' hc' h hres'
        rcases List.mem_cons.mp hc' with e | hc'
        · subst e; rw [hres] at hres'; cases hres'
        · exact hk c' hc' h hres'
      | some g =>
        simp only
        have hns : c.cid ∉ st.seen := by
          intro hm
          apply hs
          simpa using hm
        have hI1 := hI.push hi hc hres hns
        obtain ⟨ext, hI', hk⟩ := ih _ _ hI1 (getElem?_append_of_some hi _) hr
        refine ⟨_ :: ext, by simpa [List.append_assoc] using hI', ?_⟩
        intro c' hc' h hres'
        rcases List.mem_cons.mp hc' with e | hc'
        · subst e
          rw [hres] at hres'
          injection hres' with hres'
          subst hres'
          have : Kid (ann ++ [({ key := g, edgeIn := some c', parent := some i }, pi ++ [c'.cid])])
              i g c'.cid :=
            ⟨ann.length, _, _, c', (getElem?_snoc_eq_some _ _ _ _).mpr (Or.inr ⟨rfl, rfl⟩),
              rfl, rfl, rfl, rfl⟩
          simpa [List.append_assoc] using this.mono ext
        · simpa [List.append_assoc] using hk c' hc' h hres'

/-- all nodes with index `< i` have a child for each of their resolvable calls. -/
def DoneUpTo (P : Prog) (ann : Ann) (i : Nat) : Prop :=
  ∀ (i' : Nat) (n : Node) (p : List Nat), i' < i → ann[i']? = some (n, p) →
    ∀ c ∈ (fnAt P n.key).calls, ∀ h,
    P.resolve c.cid = some h → Kid ann i' h c.cid

theorem doneUpTo_all {P : Prog} {root : Key} {st : BfsState} {ann : Ann} {i : Nat}
    (hI : TInv P root st ann) (hD : DoneUpTo P ann i) (hlt : ¬ i < st.nodes.length) :
    ∀ m, DoneUpTo P ann m := by
  intro m i' n p _ hi'
  have h1 := lt_length_of_getElem? hi'
  have h2 : st.nodes.length = ann.length := by rw [hI.nodes_eq]; simp
  exact hD i' n p (by omega) hi'

theorem bfs_tinv {P : Prog} {root : Key} (hU : UniquePaths P) (fuel i : Nat) (st : BfsState)
    (ann : Ann) (st' : BfsState) (hI : TInv P root st ann) (hD : DoneUpTo P ann i)
    (h : bfs P fuel i st = some st') : ∃ ann', TInv P root st' ann' ∧ ∀ m, DoneUpTo P ann' m := by
  induction fuel generalizing i st ann with
  | zero =>
    simp only [bfs] at h
    split at h
    · cases h
    · rename_i hlt
      injection h with h
      subst h
      exact ⟨ann, hI, doneUpTo_all hI hD hlt⟩
  | succ k ih =>
    simp only [bfs] at h
    cases hn : st.nodes[i]? with
    | none =>
      simp only [hn] at h
      injection h with h
      subst h
      refine ⟨ann, hI, doneUpTo_all hI hD ?_⟩
      intro hlt
      rw [List.getElem?_eq_getElem hlt] at hn
      cases hn
    | some n =>
      simp only [hn] at h
      have hn' := hn
      rw [hI.nodes_eq] at hn'
      obtain ⟨pi, hi⟩ := (getElem?_map_fst _ _ _).mp hn'
      obtain ⟨ext, hI', hk⟩ := expand_tinv hU i n pi (sortCalls (fnAt P n.key).calls) st ann hI hi
        (fun c hc => mem_sortCalls.mp hc)
      apply ih (i + 1) _ (ann ++ ext) hI' _ h
      intro i' n' p' hlt hi' c hc g hres
      by_cases he : i' = i
      · subst he
        rw [getElem?_append_of_some hi ext] at hi'
        injection hi' with hi'
        injection hi' with e1 _
        subst e1
        exact hk c (mem_sortCalls.mpr hc) g hres
      · have hlt' : i' < i := by omega
        have hil := lt_length_of_getElem? hi
        rw [List.getElem?_append_left (by omega)] at hi'
        exact (hD i' n' p' hlt' hi' c hc g hres).mono ext

/-! ### for EVERY program: each non-root node hangs under an earlier node by a resolvable call -/

def EdgeOK (P : Prog) (nodes : List Node) : Prop :=
  ∀ (j : Nat) (n : Node) (i : Nat), nodes[j]? = some n → n.parent = some i →
    i < j ∧ ∃ (pn : Node) (c : CallRec), nodes[i]? = some pn ∧ n.edgeIn = some c ∧
      c ∈ (fnAt P pn.key).calls ∧ P.resolve c.cid = some n.key

theorem EdgeOK.append {P : Prog} {nodes : List Node} (h : EdgeOK P nodes) {i : Nat} {n : Node}
    (hi : nodes[i]? = some n) (extra : List Node)
    (hx : ∀ k ∈ extra, ∃ c, c ∈ (fnAt P n.key).calls ∧ k.edgeIn = some c ∧
      P.resolve c.cid = some k.key ∧ k.parent = some i) : EdgeOK P (nodes ++ extra) := by
  intro j nd i' hj hp
  by_cases hlt : j < nodes.length
  · rw [List.getElem?_append_left hlt] at hj
    obtain ⟨h1, pn, c, h2, h3⟩ := h j nd i' hj hp
    exact ⟨h1, pn, c, getElem?_append_of_some h2 _, h3⟩
  · have hge : nodes.length ≤ j := Nat.le_of_not_lt hlt
    rw [List.getElem?_append_right hge] at hj
    obtain ⟨c, hc, he, hr, hpar⟩ := hx nd (List.mem_of_getElem? hj)
    rw [hp] at hpar
    injection hpar with hpar
    subst hpar
    have := lt_length_of_getElem? hi
    exact ⟨by omega, n, c, getElem?_append_of_some hi _, he, hc, hr⟩

theorem bfs_edgeOK {P : Prog} (fuel i : Nat) (st st' : BfsState) (h : EdgeOK P st.nodes)
    (hb : bfs P fuel i st = some st') : EdgeOK P st'.nodes := by
  induction fuel generalizing i st with
  | zero =>
    simp only [bfs] at hb
    split at hb
    · cases hb
    · injection hb with hb; subst hb; exact h
  | succ k ih =>
    simp only [bfs] at hb
    cases hn : st.nodes[i]? with
    | none => simp only [hn] at hb; injection hb with hb; subst hb; exact h
    | some n =>
      simp only [hn] at hb
      apply ih (i + 1) _ _ hb
      rw [expand_eq]
      apply h.append hn
      intro k hk
      obtain ⟨c, hc, h1, h2, h3⟩ := kids_spec hk
      exact ⟨c, mem_sortCalls.mp hc, h1, h2, h3⟩

theorem callTree_edgeOK {P : Prog} (root : Key) (nodes : List Node)
    (h : callTree P root = some nodes) : EdgeOK P nodes := by
  unfold callTree at h
  cases hb : bfs P (totalCalls P + 1) 0
      { nodes := [{ key := root, edgeIn := none, parent := none }], seen := [] } with
  | none => simp [hb] at h
  | some st' =>
    simp only [hb, Option.map_some, Option.some.injEq] at h
    subst h
    apply bfs_edgeOK _ _ _ _ _ hb
    intro j n i hj hp
    cases j with
    | zero =>
      simp only [List.getElem?_cons_zero, Option.some.injEq] at hj
      subst hj
      cases hp
    | succ j => simp at hj

/-- what the fold needs to know about the node list of a call tree. -/
structure FullTree (P : Prog) (root : Key) (nodes : List Node) : Prop where
  root0 : nodes[0]? = some (rootNode root)
  edge : EdgeOK P nodes
  complete : ∀ (i : Nat) (n : Node) (c : CallRec) (h : Key), nodes[i]? = some n →
    c ∈ (fnAt P n.key).calls → P.resolve c.cid = some h →
    ∃ (j : Nat) (ch : Node) (c' : CallRec), nodes[j]? = some ch ∧ ch.parent = some i ∧ ch.key = h ∧ ch.edgeIn = some c' ∧
      c'.cid = c.cid

/-- In the tree fragment the BFS call tree is the full unfolding: the tree-global `seen` never
cuts a resolvable call. -/
theorem callTree_fullTree {P : Prog} (hU : UniquePaths P) (root : Key) (nodes : List Node)
    (h : callTree P root = some nodes) : FullTree P root nodes := by
  unfold callTree at h
  cases hb : bfs P (totalCalls P + 1) 0
      { nodes := [{ key := root, edgeIn := none, parent := none }], seen := [] } with
  | none => simp [hb] at h
  | some st' =>
    simp only [hb, Option.map_some, Option.some.injEq] at h
    obtain ⟨ann, hI, hD⟩ := bfs_tinv hU _ 0 _ _ st' (TInv.init P root)
      (fun i' _ _ hlt => absurd hlt (Nat.not_lt_zero _)) hb
    subst h
    refine ⟨?_, ?_, ?_⟩
    · rw [hI.nodes_eq]
      exact (getElem?_map_fst _ _ _).mpr ⟨[], hI.root0⟩
    · intro j n i hj hp
      rw [hI.nodes_eq] at hj
      obtain ⟨p, hj⟩ := (getElem?_map_fst _ _ _).mp hj
      have hj0 : j ≠ 0 := by
        intro e
        subst e
        rw [hI.root0] at hj
        injection hj with hj
        injection hj with hj _
        subst hj
        cases hp
      obtain ⟨i', c, pn, pp, e1, e2, e3, e4, e5, e6, _⟩ := hI.edge j n p hj hj0
      rw [hp] at e1
      injection e1 with e1
      subst e1
      refine ⟨e2, pn, c, ?_, e3, e5, e6⟩
      rw [hI.nodes_eq]
      exact (getElem?_map_fst _ _ _).mpr ⟨pp, e4⟩
    · intro i n c g hi hc hres
      rw [hI.nodes_eq] at hi
      obtain ⟨p, hi⟩ := (getElem?_map_fst _ _ _).mp hi
      obtain ⟨j, ch, pj, c', k1, k2, k3, k4, k5⟩ := hD (i + 1) i n p (Nat.lt_succ_self _) hi c hc g hres
      refine ⟨j, ch, c', ?_, k2, k3, k4, k5⟩
      rw [hI.nodes_eq]
      exact (getElem?_map_fst _ _ _).mpr ⟨pj, k1⟩

/-! ### the closure the fold computes (membership level, names WITH their basename) -/

/-- least fixed point of: own accesses, plus — for every resolvable call `c` of `g` to `h` — the
closure of `h` unbound with the swaps of `c` (the model's own `unbindName`, basename quirk
included). Defined for every program; no acyclicity needed. -/
inductive Clo (P : Prog) (own : Store) (k : Kind) : Key → NameS → Prop
  | own {g : Key} {x : NameS} : x ∈ (own g).of k → Clo P own k g x
  | call {g h : Key} {c : CallRec} {n x : NameS} : c ∈ (fnAt P g).calls →
      P.resolve c.cid = some h → Clo P own k h n →
      unbindName n ((Dict.get? (swapsOf P h c) n.base).getD n.base) = some x → Clo P own k g x

/-- every store entry is inside the closure. -/
def Sound (P : Prog) (own σ : Store) : Prop := ∀ g k x, x ∈ (σ g).of k → Clo P own k g x

/-- every own access is in the store. -/
def OwnLe (own σ : Store) : Prop := ∀ g k x, x ∈ (own g).of k → x ∈ (σ g).of k

/-- the entry of `g` already contains the whole closure of `g`. -/
def CompleteAt (P : Prog) (own σ : Store) (g : Key) : Prop :=
  ∀ k x, Clo P own k g x → x ∈ (σ g).of k

/-- `StoreInv` of DESIGN §5 C03: own ⊆ σ g ⊆ closure g, for every function. -/
def StoreInv (P : Prog) (own σ : Store) : Prop := OwnLe own σ ∧ Sound P own σ

theorem StoreInv.refl (P : Prog) (own : Store) : StoreInv P own own :=
  ⟨fun _ _ _ h => h, fun _ _ _ h => Clo.own h⟩

theorem StoreLe.of {σ σ' : Store} (h : StoreLe σ σ') (g : Key) (k : Kind) (x : NameS)
    (hx : x ∈ (σ g).of k) : x ∈ (σ' g).of k := by
  cases k
  · exact (h g x).1 hx
  · exact (h g x).2.1 hx
  · exact (h g x).2.2 hx

theorem OwnLe.trans {own σ σ' : Store} (h : OwnLe own σ) (h' : StoreLe σ σ') : OwnLe own σ' :=
  fun g k x hx => h'.of g k x (h g k x hx)

theorem CompleteAt.mono {P : Prog} {own σ σ' : Store} {g : Key} (h : CompleteAt P own σ g)
    (h' : StoreLe σ σ') : CompleteAt P own σ' g :=
  fun k x hx => h'.of g k x (h k x hx)

/-! ### one child -/

theorem foldChild_some {P : Prog} {g : Key} {σ σ' : Store} {ch : Node} {c : CallRec}
    (he : ch.edgeIn = some c) (h : foldChild P g σ ch = some σ') :
    ∃ u, unbindIr (swapsOf P ch.key c) (σ ch.key) = some u ∧
      σ' = σ.update g (unionIr (σ g) u) := by
  unfold foldChild at h
  simp only [he] at h
  cases hu : unbindIr (Swaps.construct (si P) (fnAt P ch.key).iface c.args).1 (σ ch.key) with
  | none => simp [hu] at h
  | some u =>
    simp only [hu, Option.some.injEq] at h
    exact ⟨u, hu, h.symm⟩

theorem foldChild_sound {P : Prog} {own : Store} {g : Key} {σ σ' : Store} {ch : Node}
    {c : CallRec} (he : ch.edgeIn = some c) (hc : c ∈ (fnAt P g).calls)
    (hres : P.resolve c.cid = some ch.key) (hS : Sound P own σ)
    (h : foldChild P g σ ch = some σ') : Sound P own σ' := by
  obtain ⟨u, hu, rfl⟩ := foldChild_some he h
  intro g' k x hx
  by_cases hg : g' = g
  · subst hg
    rw [update_same] at hx
    rcases mem_unionIr.mp hx with hx | hx
    · exact hS _ k x hx
    · obtain ⟨n, hn, hnx⟩ := (mem_unbindIr hu k x).mp hx
      exact Clo.call hc hres (hS _ k n hn) hnx
  · rw [update_other _ _ hg] at hx
    exact hS _ k x hx

theorem foldChild_contrib {P : Prog} {own : Store} {g : Key} {σ σ' : Store} {ch : Node}
    {c : CallRec} (he : ch.edgeIn = some c) (hC : CompleteAt P own σ ch.key)
    (h : foldChild P g σ ch = some σ') (k : Kind) (n x : NameS) (hn : Clo P own k ch.key n)
    (hx : unbindName n ((Dict.get? (swapsOf P ch.key c) n.base).getD n.base) = some x) :
    x ∈ (σ' g).of k := by
  obtain ⟨u, hu, rfl⟩ := foldChild_some he h
  rw [update_same]
  exact mem_unionIr.mpr (Or.inr ((mem_unbindIr hu k x).mpr ⟨n, hC k n hn, hx⟩))

/-! ### the children of one node -/

/-- every node of `chs` is reached from `g` by a resolvable call of `g`. -/
def EdgesFrom (P : Prog) (g : Key) (chs : List Node) : Prop :=
  ∀ ch ∈ chs, ∃ c, ch.edgeIn = some c ∧ c ∈ (fnAt P g).calls ∧ P.resolve c.cid = some ch.key

theorem foldChildren_sound {P : Prog} {own : Store} {g : Key} (chs : List Node) (σ σ' : Store)
    (hE : EdgesFrom P g chs) (hS : Sound P own σ) (h : foldChildren P g chs σ = some σ') :
    Sound P own σ' := by
  induction chs generalizing σ with
  | nil => simp only [foldChildren, Option.some.injEq] at h; subst h; exact hS
  | cons ch r ih =>
    simp only [foldChildren] at h
    cases h1 : foldChild P g σ ch with
    | none => simp [h1] at h
    | some σ1 =>
      simp only [h1] at h
      obtain ⟨c, he, hc, hres⟩ := hE ch List.mem_cons_self
      exact ih σ1 (fun x hx => hE x (List.mem_cons_of_mem _ hx))
        (foldChild_sound he hc hres hS h1) h

theorem foldChildren_contrib {P : Prog} {own : Store} {g : Key} (chs : List Node) (σ σ' : Store)
    (hC : ∀ ch ∈ chs, CompleteAt P own σ ch.key) (h : foldChildren P g chs σ = some σ') :
    ∀ ch ∈ chs, ∀ c, ch.edgeIn = some c → ∀ k n x, Clo P own k ch.key n →
      unbindName n ((Dict.get? (swapsOf P ch.key c) n.base).getD n.base) = some x →
      x ∈ (σ' g).of k := by
  induction chs generalizing σ with
  | nil => intro ch hch; cases hch
  | cons ch0 r ih =>
    simp only [foldChildren] at h
    cases h1 : foldChild P g σ ch0 with
    | none => simp [h1] at h
    | some σ1 =>
      simp only [h1] at h
      have hle1 := foldChild_le P g σ σ1 ch0 h1
      have hle2 := foldChildren_le P g r σ1 σ' h
      intro ch hch c he k n x hn hx
      rcases List.mem_cons.mp hch with e | hch
      · subst e
        exact hle2.of g k x
          (foldChild_contrib he (hC ch List.mem_cons_self) h1 k n x hn hx)
      · exact ih σ1 (fun y hy => (hC y (List.mem_cons_of_mem _ hy)).mono hle1) h ch hch c he
          k n x hn hx

/-! ### the whole tree -/

theorem mem_childrenOf {nodes : List Node} {i : Nat} {ch : Node} :
    ch ∈ childrenOf nodes i ↔ ch ∈ nodes ∧ ch.parent = some i := by
  unfold childrenOf
  simp [List.mem_filter]

theorem EdgeOK.edgesFrom {P : Prog} {nodes : List Node} (hT : EdgeOK P nodes)
    {i : Nat} {n : Node} (hi : nodes[i]? = some n) : EdgesFrom P n.key (childrenOf nodes i) := by
  intro ch hch
  obtain ⟨hmem, hp⟩ := mem_childrenOf.mp hch
  obtain ⟨j, hj⟩ := List.getElem?_of_mem hmem
  obtain ⟨_, pn, c, h1, h2, h3, h4⟩ := hT j ch i hj hp
  rw [hi] at h1
  injection h1 with h1
  subst h1
  exact ⟨c, h2, h3, h4⟩

/-- the fold never leaves the closure, whatever the order of the indices. -/
theorem foldTree_sound {P : Prog} {own : Store} {nodes : List Node}
    (hT : EdgeOK P nodes) (is : List Nat) (σ σ' : Store) (hS : Sound P own σ)
    (h : foldTree P nodes is σ = some σ') : Sound P own σ' := by
  induction is generalizing σ with
  | nil => simp only [foldTree, Option.some.injEq] at h; subst h; exact hS
  | cons i r ih =>
    simp only [foldTree] at h
    cases hn : nodes[i]? with
    | none => simp only [hn] at h; exact ih σ hS h
    | some n =>
      simp only [hn] at h
      cases h1 : foldChildren P n.key (childrenOf nodes i) σ with
      | none => simp [h1] at h
      | some σ1 =>
        simp only [h1] at h
        exact ih σ1 (foldChildren_sound _ σ σ1 (hT.edgesFrom hn) hS h1) h

/-- the reversed-BFS fold: children are processed before their parents, so when node `m` is
folded the entries of all its children already hold their whole closure — and afterwards so
does the entry of node `m`. -/
theorem foldTree_complete {P : Prog} {own : Store} {root : Key} {nodes : List Node}
    (hT : FullTree P root nodes) (hC : CidArgs P) (m : Nat) (σ σ' : Store) (hO : OwnLe own σ)
    (hS : Sound P own σ)
    (hdone : ∀ (j : Nat) (n : Node), m ≤ j → nodes[j]? = some n → CompleteAt P own σ n.key)
    (h : foldTree P nodes (List.range m).reverse σ = some σ') :
    ∀ (j : Nat) (n : Node), nodes[j]? = some n → CompleteAt P own σ' n.key := by
  induction m generalizing σ with
  | zero =>
    simp only [List.range_zero, List.reverse_nil, foldTree, Option.some.injEq] at h
    subst h
    exact fun j n hj => hdone j n (Nat.zero_le _) hj
  | succ m ih =>
    rw [List.range_succ, List.reverse_append, List.reverse_singleton, List.singleton_append] at h
    simp only [foldTree] at h
    cases hn : nodes[m]? with
    | none =>
      simp only [hn] at h
      apply ih σ hO hS _ h
      intro j n hj hjn
      by_cases e : j = m
      · subst e; rw [hn] at hjn; cases hjn
      · exact hdone j n (by omega) hjn
    | some nd =>
      simp only [hn] at h
      cases h1 : foldChildren P nd.key (childrenOf nodes m) σ with
      | none => simp [h1] at h
      | some σ1 =>
        simp only [h1] at h
        have hle := foldChildren_le P nd.key _ σ σ1 h1
        have hE := EdgeOK.edgesFrom hT.edge hn
        have hS1 := foldChildren_sound _ σ σ1 hE hS h1
        have hkids : ∀ ch ∈ childrenOf nodes m, CompleteAt P own σ ch.key := by
          intro ch hch
          obtain ⟨hmem, hp⟩ := mem_childrenOf.mp hch
          obtain ⟨j, hj⟩ := List.getElem?_of_mem hmem
          obtain ⟨hlt, _⟩ := hT.edge j ch m hj hp
          exact hdone j ch (by omega) hj
        have hcon := foldChildren_contrib _ σ σ1 hkids h1
        apply ih σ1 (hO.trans hle) hS1 _ h
        intro j n hj hjn
        by_cases e : j = m
        · subst e
          rw [hn] at hjn
          injection hjn with hjn
          subst hjn
          intro k x hx
          cases hx with
          | own hown => exact hle.of _ k x (hO _ k x hown)
          | call hc hres hcl hub =>
            rename_i g c n0
            obtain ⟨j', ch, c', k1, k2, k3, k4, k5⟩ := hT.complete j nd c g hn hc hres
            have hch : ch ∈ childrenOf nodes j :=
              mem_childrenOf.mpr ⟨List.mem_of_getElem? k1, k2⟩
            obtain ⟨c2, e1, e2, _⟩ := hE ch hch
            rw [k4] at e1
            injection e1 with e1
            subst e1
            have hargs : c'.args = c.args := hC nd.key c' c e2 hc k5
            subst k3
            have hsw : swapsOf P ch.key c' = swapsOf P ch.key c := by
              unfold swapsOf; rw [hargs]
            exact hcon ch hch c' k4 k n0 x hcl (by rw [hsw]; exact hub)
        · exact (hdone j n (by omega) hjn).mono hle

/-! ### one root, any sequence of roots -/

theorem runRoot_some {P : Prog} {σ σ' : Store} {f : Key} {res : IrSets}
    (h : runRoot P σ f = .ok (res, σ')) :
    ∃ nodes, callTree P f = some nodes ∧
      foldTree P nodes (List.range nodes.length).reverse σ = some σ' ∧ res = σ' f := by
  unfold runRoot at h
  cases hc : callTree P f with
  | none => simp [hc] at h
  | some nodes =>
    simp only [hc] at h
    cases hf : foldTree P nodes (List.range nodes.length).reverse σ with
    | none => simp [hf] at h
    | some σ1 =>
      simp only [hf, Out.ok.injEq, Prod.mk.injEq] at h
      obtain ⟨h1, h2⟩ := h
      subst h2
      exact ⟨nodes, rfl, hf, h1.symm⟩

/-- ONE ROOT over a store satisfying `StoreInv` (the own accesses, or whatever earlier roots left):
the result is exactly the closure of the root, and `StoreInv` holds again afterwards. -/
theorem runRoot_tree {P : Prog} {own : Store} (hU : UniquePaths P) (hC : CidArgs P) {σ σ' : Store}
    {f : Key} {res : IrSets} (hInv : StoreInv P own σ) (h : runRoot P σ f = .ok (res, σ')) :
    (∀ k x, x ∈ res.of k ↔ Clo P own k f x) ∧ StoreInv P own σ' ∧ StoreLe σ σ' ∧
      CompleteAt P own σ' f := by
  obtain ⟨nodes, hct, hfold, hres⟩ := runRoot_some h
  have hT := callTree_fullTree hU f nodes hct
  have hle := foldTree_le P nodes _ σ σ' hfold
  have hS' := foldTree_sound hT.edge _ σ σ' hInv.2 hfold
  have hcomp := foldTree_complete hT hC nodes.length σ σ' hInv.1 hInv.2
    (fun j n hj hjn => absurd (lt_length_of_getElem? hjn) (by omega)) hfold
  have hroot : CompleteAt P own σ' f := hcomp 0 (rootNode f) hT.root0
  subst hres
  exact ⟨fun k x => ⟨hS' f k x, hroot k x⟩, ⟨hInv.1.trans hle, hS'⟩, hle, hroot⟩

/-- ANY SEQUENCE OF ROOTS over one shared store: every root's result is exactly its closure —
whatever was generated before — and `StoreInv` is preserved. -/
theorem generate_tree {P : Prog} {own : Store} (hU : UniquePaths P) (hC : CidArgs P)
    (order : List Key) (σ σ' : Store) (rs : List (Key × IrSets)) (hInv : StoreInv P own σ)
    (h : generate P order σ = .ok (rs, σ')) :
    rs.map Prod.fst = order ∧
    (∀ f res, (f, res) ∈ rs → ∀ k x, x ∈ res.of k ↔ Clo P own k f x) ∧ StoreInv P own σ' ∧
    (∀ f ∈ order, CompleteAt P own σ' f) := by
  induction order generalizing σ rs with
  | nil =>
    simp only [generate, Out.ok.injEq, Prod.mk.injEq] at h
    obtain ⟨h1, h2⟩ := h
    subst h1; subst h2
    refine ⟨rfl, ?_, hInv, ?_⟩
    · intro f res hm; cases hm
    · intro f hf; cases hf
  | cons f r ih =>
    simp only [generate] at h
    cases h1 : runRoot P σ f with
    | outOfFuel => simp [h1] at h
    | never => simp [h1] at h
    | ok q =>
      obtain ⟨res1, σ1⟩ := q
      simp only [h1] at h
      cases h2 : generate P r σ1 with
      | outOfFuel => simp [h2] at h
      | never => simp [h2] at h
      | ok q2 =>
        obtain ⟨rs2, σ2⟩ := q2
        simp only [h2, Out.ok.injEq, Prod.mk.injEq] at h
        obtain ⟨e1, e2⟩ := h
        subst e1; subst e2
        obtain ⟨a1, a2, _, a4⟩ := runRoot_tree hU hC hInv h1
        obtain ⟨b0, b1, b2, b3⟩ := ih σ1 rs2 a2 h2
        have hle := generate_le P r σ1 σ2 rs2 h2
        refine ⟨by simp [b0], ?_, b2, ?_⟩
        · intro g res hm
          rcases List.mem_cons.mp hm with hm | hm
          · injection hm with e1 e2
            subst e1; subst e2
            exact a1
          · exact b1 g res hm
        · intro g hg
          rcases List.mem_cons.mp hg with e | hg
          · subst e; exact a4.mono hle
          · exact b3 g hg

/-! ### soundness w.r.t. `Clo` for EVERY program (any call graph: shared callees, recursion) -/

theorem runRoot_sound_all {P : Prog} {own σ σ' : Store} {f : Key} {res : IrSets}
    (hS : Sound P own σ) (h : runRoot P σ f = .ok (res, σ')) :
    Sound P own σ' ∧ res = σ' f := by
  obtain ⟨nodes, hct, hfold, hres⟩ := runRoot_some h
  exact ⟨foldTree_sound (callTree_edgeOK f nodes hct) _ σ σ' hS hfold, hres⟩

theorem generate_sound_all {P : Prog} {own : Store} (order : List Key) (σ σ' : Store)
    (rs : List (Key × IrSets)) (hS : Sound P own σ) (h : generate P order σ = .ok (rs, σ')) :
    (∀ f res, (f, res) ∈ rs → ∀ k x, x ∈ res.of k → Clo P own k f x) ∧ Sound P own σ' := by
  induction order generalizing σ rs with
  | nil =>
    simp only [generate, Out.ok.injEq, Prod.mk.injEq] at h
    obtain ⟨h1, h2⟩ := h
    subst h1; subst h2
    refine ⟨?_, hS⟩
    intro f res hm; cases hm
  | cons f r ih =>
    simp only [generate] at h
    cases h1 : runRoot P σ f with
    | outOfFuel => simp [h1] at h
    | never => simp [h1] at h
    | ok q =>
      obtain ⟨res1, σ1⟩ := q
      simp only [h1] at h
      cases h2 : generate P r σ1 with
      | outOfFuel => simp [h2] at h
      | never => simp [h2] at h
      | ok q2 =>
        obtain ⟨rs2, σ2⟩ := q2
        simp only [h2, Out.ok.injEq, Prod.mk.injEq] at h
        obtain ⟨e1, e2⟩ := h
        subst e1; subst e2
        obtain ⟨a1, a2⟩ := runRoot_sound_all hS h1
        obtain ⟨b1, b2⟩ := ih σ1 rs2 a1 h2
        refine ⟨?_, b2⟩
        intro g res hm
        rcases List.mem_cons.mp hm with hm | hm
        · injection hm with e1 e2
          subst e1; subst e2
          intro k x hx
          rw [a2] at hx
          exact a1 g k x hx
        · exact b1 g res hm

/-! ### no `unbind_name` failure -/

/-- every name in the closure of a callee starts with its basename. -/
def NoFail (P : Prog) (own : Store) : Prop :=
  ∀ g, IsCallee P g → ∀ k x, Clo P own k g x → WellBased x

theorem foldChildren_ok {P : Prog} {own : Store} {g : Key} (hN : NoFail P own) (chs : List Node)
    (σ : Store) (hE : EdgesFrom P g chs) (hS : Sound P own σ) :
    ∃ σ', foldChildren P g chs σ = some σ' := by
  induction chs generalizing σ with
  | nil => exact ⟨σ, rfl⟩
  | cons ch r ih =>
    obtain ⟨c, he, hc, hres⟩ := hE ch List.mem_cons_self
    have hwb : WellBasedIr (σ ch.key) :=
      fun k n hn => hN ch.key ⟨g, c, hc, hres⟩ k n (hS _ k n hn)
    have hsome := unbindIr_isSome (swapsOf P ch.key c) (σ ch.key) hwb
    cases hu : unbindIr (swapsOf P ch.key c) (σ ch.key) with
    | none => simp [hu] at hsome
    | some u =>
      have h1 : foldChild P g σ ch = some (σ.update g (unionIr (σ g) u)) := by
        unfold foldChild
        simp only [he]
        unfold swapsOf at hu
        rw [hu]
        rfl
      simp only [foldChildren, h1]
      exact ih _ (fun x hx => hE x (List.mem_cons_of_mem _ hx))
        (foldChild_sound he hc hres hS h1)

theorem foldTree_ok {P : Prog} {own : Store} {nodes : List Node}
    (hT : EdgeOK P nodes) (hN : NoFail P own) (is : List Nat) (σ : Store)
    (hS : Sound P own σ) : ∃ σ', foldTree P nodes is σ = some σ' := by
  induction is generalizing σ with
  | nil => exact ⟨σ, rfl⟩
  | cons i r ih =>
    simp only [foldTree]
    cases hn : nodes[i]? with
    | none => exact ih σ hS
    | some n =>
      simp only
      obtain ⟨σ1, h1⟩ := foldChildren_ok hN (childrenOf nodes i) σ (hT.edgesFrom hn) hS
      rw [h1]
      exact ih σ1 (foldChildren_sound _ σ σ1 (hT.edgesFrom hn) hS h1)

theorem runRoot_tree_ok {P : Prog} {own : Store} (hU : UniquePaths P) (hN : NoFail P own)
    {σ : Store} (hS : Sound P own σ) (f : Key) : ∃ res σ', runRoot P σ f = .ok (res, σ') := by
  obtain ⟨nodes, hct⟩ := callTree_terminates P f
  have hT := callTree_fullTree hU f nodes hct
  obtain ⟨σ', hf⟩ := foldTree_ok hT.edge hN (List.range nodes.length).reverse σ hS
  refine ⟨σ' f, σ', ?_⟩
  unfold runRoot
  rw [hct]
  simp only [hf]

theorem generate_tree_ok {P : Prog} {own : Store} (hU : UniquePaths P) (hC : CidArgs P)
    (hN : NoFail P own) (order : List Key) (σ : Store) (hInv : StoreInv P own σ) :
    ∃ rs σ', generate P order σ = .ok (rs, σ') := by
  induction order generalizing σ with
  | nil => exact ⟨[], σ, rfl⟩
  | cons f r ih =>
    obtain ⟨res, σ1, h1⟩ := runRoot_tree_ok hU hN hInv.2 f
    obtain ⟨_, a2, _, _⟩ := runRoot_tree hU hC hInv h1
    obtain ⟨rs2, σ2, h2⟩ := ih σ1 a2
    exact ⟨(f, res) :: rs2, σ2, by simp only [generate, h1, h2]⟩

end Rattr.Results

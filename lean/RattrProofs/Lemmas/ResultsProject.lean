/-
  Lemmas about the project-level result-generation model (`RattrModel.ResultsProject`).
-/
import RattrModel.ResultsProject
import RattrProofs.Lemmas.ResultsLeaf

namespace Rattr.ResProject
open Rattr Rattr.Results Rattr.Resolve

/-! ### `writeBack` touches nothing but the three sets -/

theorem setIrs_length (σ : Store) (off : Nat) (l : List PFn) : (setIrs σ off l).length = l.length := by
  induction l generalizing off with
  | nil => rfl
  | cons f r ih => simp [setIrs, ih]

theorem setIrs_skel (σ : Store) (off : Nat) (l : List PFn) :
    (setIrs σ off l).map PFn.skel = l.map PFn.skel := by
  induction l generalizing off with
  | nil => rfl
  | cons f r ih => simp [setIrs, ih, PFn.skel]

theorem writeMods_skel (σ : Store) (off : Nat) (ms : List PModule) :
    (writeMods σ off ms).map PModule.skel = ms.map PModule.skel := by
  induction ms generalizing off with
  | nil => rfl
  | cons m r ih => simp [writeMods, ih, PModule.skel, setIrs_skel]

theorem modules_writeBack (p : Proj) (σ : Store) :
    modules (writeBack p σ) = writeMods σ 0 (modules p) := by
  simp [modules, writeBack, writeMods]

theorem skeleton_writeBack (p : Proj) (σ : Store) : skeleton (writeBack p σ) = skeleton p := by
  unfold skeleton
  rw [modules_writeBack, writeMods_skel]

theorem envOf_writeBack (p : Proj) (σ : Store) : envOf (writeBack p σ) = envOf p := by
  unfold envOf
  rw [skeleton_writeBack]
  rfl

theorem order_writeBack (p : Proj) (σ : Store) : order (writeBack p σ) = order p := by
  simp [order, writeBack, setIrs_length]

/-! ### the store of a written-back project -/

theorem setIrs_append (σ : Store) (off : Nat) (a b : List PFn) :
    setIrs σ off (a ++ b) = setIrs σ off a ++ setIrs σ (off + a.length) b := by
  induction a generalizing off with
  | nil => simp [setIrs]
  | cons f r ih =>
    simp only [List.cons_append, setIrs, ih, List.length_cons]
    congr 3
    omega

theorem fnsOf_writeMods (σ : Store) (off : Nat) (ms : List PModule) :
    fnsOf (writeMods σ off ms) = setIrs σ off (fnsOf ms) := by
  induction ms generalizing off with
  | nil => rfl
  | cons m r ih =>
    simp only [writeMods, fnsOf, List.flatMap_cons] at ih ⊢
    rw [setIrs_append, ih]

theorem allFns_writeBack (p : Proj) (σ : Store) : allFns (writeBack p σ) = setIrs σ 0 (allFns p) := by
  unfold allFns
  rw [modules_writeBack, fnsOf_writeMods]

theorem getElem?_setIrs (σ : Store) (off : Nat) (l : List PFn) (k : Nat) :
    (setIrs σ off l)[k]? = (l[k]?).map (fun f => { f with ir := σ (off + k) }) := by
  induction l generalizing off k with
  | nil => simp [setIrs]
  | cons f r ih =>
    cases k with
    | zero => simp [setIrs]
    | succ j =>
      simp only [setIrs, List.getElem?_cons_succ, ih]
      have e : off + 1 + j = off + (j + 1) := by omega
      rw [e]

theorem store0_writeBack (p : Proj) (σ : Store) (k : Key) :
    store0 (writeBack p σ) k = if k < (allFns p).length then σ k else IrSets.empty := by
  unfold store0 storeOf
  rw [allFns_writeBack, getElem?_setIrs]
  by_cases hk : k < (allFns p).length
  · simp [hk]
  · simp [hk]

theorem store0_of_ge (p : Proj) (k : Key) (hk : (allFns p).length ≤ k) : store0 p k = IrSets.empty := by
  unfold store0 storeOf
  simp [List.getElem?_eq_none hk]

/-! ### what `generateProject` is, in terms of `Results.generate` -/

theorem rootsBeforeRaise_none (P : Prog) (R : List Nat) (l : List Key)
    (h : (rootsBeforeRaise P R l).2 = none) : (rootsBeforeRaise P R l).1 = l := by
  induction l with
  | nil => rfl
  | cons f r ih =>
    simp only [rootsBeforeRaise] at h ⊢
    split
    · rename_i ht; simp [ht] at h
    · rename_i ht
      simp only [ht] at h
      simp [ih h]

theorem generateProject_ok {p p' : Proj} {rs : List (Key × IrSets)}
    (h : generateProject p = .ok rs p') :
    ∃ σ', generate (toProg p) (order p) (store0 p) = .ok (rs, σ') ∧ p' = writeBack p σ' := by
  unfold generateProject at h
  simp only at h
  split at h
  · rename_i rs1 σ1 hg
    split at h
    · rename_i hnone
      injection h with h1 h2
      subst h1 h2
      rw [rootsBeforeRaise_none _ _ _ hnone] at hg
      exact ⟨σ1, hg, rfl⟩
    · cases h
  · cases h
  · cases h

theorem generateProject_raised {p p' : Proj} {rs : List (Key × IrSets)} {f : Key}
    (h : generateProject p = .raised rs p' f) :
    ∃ pre σ', generate (toProg p) pre (store0 p) = .ok (rs, σ') ∧ p' = writeBack p σ' := by
  unfold generateProject at h
  simp only at h
  split at h
  · rename_i rs1 σ1 hg
    split at h
    · cases h
    · injection h with h1 h2 _
      subst h1 h2
      exact ⟨_, σ1, hg, rfl⟩
  · cases h
  · cases h

/-- whatever the store result generation ends with, written back it is pointwise above the
project's own sets. -/
theorem storeLe_writeBack (p : Proj) (σ' : Store) (h : StoreLe (store0 p) σ') :
    StoreLe (store0 p) (store0 (writeBack p σ')) := by
  intro k x
  rw [store0_writeBack]
  by_cases hk : k < (allFns p).length
  · simp only [hk, if_true]; exact h k x
  · simp only [hk, if_false]
    rw [store0_of_ge p k (Nat.le_of_not_lt hk)]
    exact ⟨id, id, id⟩

theorem leaf_writeBack (p : Proj) (σ' : Store) (k : Key) (h : σ' k = store0 p k) :
    store0 (writeBack p σ') k = store0 p k := by
  rw [store0_writeBack]
  by_cases hk : k < (allFns p).length
  · simp [hk, h]
  · simp only [hk, if_false]
    exact (store0_of_ge p k (Nat.le_of_not_lt hk)).symm

/-! ### the flat program's view of one function -/

theorem env_fns (p : Proj) : (envOf p).fns = (allFns p).map PFn.skel := by
  unfold Env.fns envOf skeleton allFns fnsOf
  simp only
  induction modules p with
  | nil => rfl
  | cons m r ih => simp [List.flatMap_cons, ih, PModule.skel]

theorem fnAt_toProg (p : Proj) (k : Key) (f : PFn) (h : (allFns p)[k]? = some f) :
    (fnAt (toProg p) k).calls = f.calls.map (·.call) := by
  unfold fnAt toProg toProgE
  simp only [env_fns, List.getElem?_map, h, Option.map_some, Option.getD_some, List.map_map]
  simp [PFn.skel, Function.comp_def]

end Rattr.ResProject

namespace Rattr.ResProject
open Rattr Rattr.Results Rattr.Resolve

/-! ### a resolved target is always an entry of one of the project's FileIrs -/

theorem findFn_lt {l : List FnSkel} {c : Bool} {n : Str} {j : Nat} (h : findFn l c n = some j) :
    j < l.length := by
  induction l generalizing j with
  | nil => simp [findFn] at h
  | cons f r ih =>
    simp only [findFn] at h
    split at h
    · injection h with h; subst h; simp
    · cases hr : findFn r c n with
      | none => simp [hr] at h
      | some j' =>
        simp only [hr, Option.map_some, Option.some.injEq] at h
        subst h
        have := ih hr
        simp only [List.length_cons]
        omega

theorem offset_add_lt (ms : List ModSkel) (mi : Nat) (m : ModSkel) (j : Nat) (hm : ms[mi]? = some m)
    (hj : j < m.2.2.length) : offset ms mi + j < (ms.flatMap (·.2.2)).length := by
  induction ms generalizing mi with
  | nil => simp at hm
  | cons m0 r ih =>
    cases mi with
    | zero =>
      simp only [List.getElem?_cons_zero, Option.some.injEq] at hm
      subst hm
      simp only [offset, List.take_zero, List.map_nil, List.sum_nil, List.flatMap_cons, List.length_append]
      omega
    | succ i =>
      simp only [List.getElem?_cons_succ] at hm
      have := ih i hm
      simp only [offset, List.take_succ_cons, List.map_cons, List.sum_cons, List.flatMap_cons,
        List.length_append] at this ⊢
      omega

theorem keyIn_lt {e : Env} {mi : Nat} {c : Bool} {n : Str} {k : Key} (h : keyIn e mi c n = some k) :
    k < e.fns.length := by
  unfold keyIn at h
  cases hm : e.mods[mi]? with
  | none => simp [hm] at h
  | some m =>
    simp only [hm] at h
    cases hf : findFn m.2.2 c n with
    | none => simp [hf] at h
    | some j =>
      simp only [hf, Option.map_some, Option.some.injEq] at h
      subst h
      exact offset_add_lt e.mods mi m j hm (findFn_lt hf)

theorem lookupDefined_lt {e : Env} {c : Bool} {n file : Str} {k : Key}
    (h : lookupDefined e c n file = some k) : k < e.fns.length := by
  unfold lookupDefined at h
  split at h
  · exact keyIn_lt h
  · split at h
    · cases h
    · split at h
      · cases h
      · exact keyIn_lt h

theorem keyOfFound_lt {e : Env} {mn : Str} {c : Bool} {n : Str} {k : Key}
    (h : keyOfFound e mn c n = .key k) : k < e.fns.length := by
  unfold keyOfFound at h
  split at h
  · cases h
  · split at h
    · rename_i k' hk
      injection h with h
      subst h
      exact keyIn_lt hk
    · cases h

/-- whatever `find_call_target_and_ir` returns as target is a key of the target's or of an import's
FileIr: result generation has no FunctionIr to write to but those of the project. -/
theorem findCallTargetE_lt {e : Env} {t : CallTarget} {k : Key} (h : findCallTargetE e t = .key k) :
    k < e.fns.length := by
  unfold findCallTargetE at h
  split at h
  · cases h
  · cases h
  · cases h
  · split at h
    · cases h
    · split at h
      · rename_i k' hk; injection h with h; subst h; exact lookupDefined_lt hk
      · cases h
  · simp only at h
    split at h
    · rename_i k' hk; injection h with h; subst h; exact lookupDefined_lt hk
    · cases h
  · split at h
    · exact keyOfFound_lt h
    · exact keyOfFound_lt h
    · cases h
    · cases h
    · cases h
    · cases h

end Rattr.ResProject

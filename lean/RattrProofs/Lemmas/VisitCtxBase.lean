/-
  The FIRST part of `Lemmas/VisitCtx.lean` (insertion-ordered dictionaries, the scope chain
  `RattrModel.Context`, `FnA.addArguments`) as a module of its own, so that a file can use these
  lemmas TOGETHER WITH the `Lemmas/Visit*.lean` family (monotonicity of the visitor, naming of
  chains): `Lemmas/VisitCtx.lean` as a whole can not be imported next to `Lemmas/Visit.lean`
  because both declare `Rattr.FnA.getAndVerify_ok`.

  The declarations below are verbatim copies of `VisitCtx.lean` lines 7–425 (same names, same
  namespaces): NEVER import this file and `VisitCtx.lean` into the same module.  (A later clean-up
  can make `VisitCtx.lean` import this file and drop its own copy.)
-/
import RattrModel.FnAnalyser

namespace Rattr

/-! ### insertion-ordered dictionaries -/

namespace Dict
variable {κ ν : Type} [DecidableEq κ]

theorem get?_set_self (d : Dict κ ν) (x : κ) (y : ν) : get? (set d x y) x = some y := by
  induction d with
  | nil => simp [set, get?]
  | cons p r ih =>
    obtain ⟨k, v⟩ := p
    by_cases h : k = x
    · simp [set, get?, h]
    · simp [set, get?, h, ih]

theorem get?_set_other (d : Dict κ ν) (x z : κ) (y : ν) (h : x ≠ z) :
    get? (set d x y) z = get? d z := by
  induction d with
  | nil => simp [set, get?, h]
  | cons p r ih =>
    obtain ⟨k, v⟩ := p
    by_cases hk : k = x
    · subst hk; simp [set, get?, h]
    · by_cases hz : k = z
      · subst hz; simp [set, get?, hk]
      · simp [set, get?, hk, hz, ih]

theorem contains_set_self (d : Dict κ ν) (x : κ) (y : ν) : contains (set d x y) x = true := by
  simp [contains, get?_set_self]

theorem contains_set_other (d : Dict κ ν) (x z : κ) (y : ν) (h : x ≠ z) :
    contains (set d x y) z = contains d z := by
  simp [contains, get?_set_other d x z y h]

end Dict

namespace Context

/-! ### `eraseKey` -/

theorem get?_eraseKey_other (sc : Scope) (x z : Str) (h : x ≠ z) :
    Dict.get? (eraseKey sc x) z = Dict.get? sc z := by
  induction sc with
  | nil => simp [eraseKey]
  | cons p r ih =>
    obtain ⟨k, v⟩ := p
    by_cases hk : k = x
    · subst hk; simp [eraseKey, Dict.get?, h]
    · by_cases hz : k = z
      · subst hz; simp [eraseKey, Dict.get?, hk]
      · simp [eraseKey, Dict.get?, hk, hz, ih]

theorem eraseKey_of_get?_none (sc : Scope) (x : Str) (h : Dict.get? sc x = none) :
    eraseKey sc x = sc := by
  induction sc with
  | nil => simp [eraseKey]
  | cons p r ih =>
    obtain ⟨k, v⟩ := p
    by_cases hk : k = x
    · simp [Dict.get?, hk] at h
    · simp [Dict.get?, hk] at h
      simp [eraseKey, hk, ih h]

/-- with unique keys (which `Dict.set` maintains) erasing a key makes it absent. -/
theorem get?_eraseKey_self (sc : Scope) (x : Str) (hnd : (Dict.keys sc).Nodup) :
    Dict.get? (eraseKey sc x) x = none := by
  induction sc with
  | nil => simp [eraseKey, Dict.get?]
  | cons p r ih =>
    obtain ⟨k, v⟩ := p
    simp only [Dict.keys, List.map_cons, List.nodup_cons] at hnd
    by_cases hk : k = x
    · subst hk
      simp only [eraseKey, if_true]
      have : ∀ (r : Scope), k ∉ r.map Prod.fst → Dict.get? r k = none := by
        intro r
        induction r with
        | nil => intro _; rfl
        | cons q r' ih' =>
          obtain ⟨k', v'⟩ := q
          intro hm
          simp only [List.map_cons, List.mem_cons, not_or] at hm
          have hne : ¬ k' = k := fun e => hm.1 e.symm
          simp [Dict.get?, hne, ih' hm.2]
      exact this r hnd.1
    · simp [eraseKey, Dict.get?, hk, ih hnd.2]

/-! ### `get?`, `contains` -/

theorem get?_cons (sc : Scope) (r : Context) (x : Str) :
    get? (sc :: r) x = match Dict.get? sc x with | some s => some s | none => get? r x := rfl

theorem get?_cons_some {sc : Scope} {r : Context} {x : Str} {s : Sym} (h : Dict.get? sc x = some s) :
    get? (sc :: r) x = some s := by simp [get?, h]

theorem get?_cons_none {sc : Scope} {r : Context} {x : Str} (h : Dict.get? sc x = none) :
    get? (sc :: r) x = get? r x := by simp [get?, h]

/-- the innermost scope wins. -/
theorem get?_innermost (sc : Scope) (r : Context) (x : Str) (s : Sym) (h : Dict.get? sc x = some s) :
    get? (sc :: r) x = some s := get?_cons_some h

/-! ### `add` -/

theorem add_arg_cons (sc : Scope) (r : Context) (s : Sym) :
    add (sc :: r) s true = Dict.set sc s.name s :: r := by simp [add]

theorem get?_add_arg (c : Context) (s : Sym) : get? (add c s true) s.name = some s := by
  cases c with
  | nil => simp [add, get?, Dict.get?]
  | cons sc r => simp [add, get?, Dict.get?_set_self]

/-- `is_argument=True` always (re)binds: the new symbol is what the name resolves to. -/
theorem contains_add_arg (c : Context) (s : Sym) : contains (add c s true) s.name = true := by
  simp [contains, get?_add_arg]

/-- plain `add` of a visible name is a no-op. -/
theorem add_of_contains (c : Context) (s : Sym) (h : contains c s.name = true) : add c s = c := by
  simp [add, h]

theorem add_of_not_contains (c : Context) (s : Sym) (h : contains c s.name = false) :
    add c s = add c s true := by
  simp [add, h]

/-- plain `add` does NOT rebind a name visible in this scope or an ancestor. -/
theorem get?_add_visible (c : Context) (s : Sym) (h : contains c s.name = true) :
    get? (add c s) s.name = get? c s.name := by rw [add_of_contains c s h]

theorem get?_add_fresh (c : Context) (s : Sym) (h : contains c s.name = false) :
    get? (add c s) s.name = some s := by
  rw [add_of_not_contains c s h, get?_add_arg]

/-- after a plain `add` the name is visible (either it already was, or it is bound now). -/
theorem contains_add (c : Context) (s : Sym) : contains (add c s) s.name = true := by
  cases h : contains c s.name with
  | true => rw [add_of_contains c s h]; exact h
  | false => rw [add_of_not_contains c s h]; exact contains_add_arg c s

/-- `add` (either flavour) never changes what OTHER names resolve to. -/
theorem get?_add_other (c : Context) (s : Sym) (b : Bool) (x : Str) (h : s.name ≠ x) :
    get? (add c s b) x = get? c x := by
  unfold add
  split
  · cases c with
    | nil => simp [get?, Dict.get?, h]
    | cons sc r => simp [get?, Dict.get?_set_other sc s.name x s h]
  · rfl

theorem contains_add_other (c : Context) (s : Sym) (b : Bool) (x : Str) (h : s.name ≠ x) :
    contains (add c s b) x = contains c x := by
  simp [contains, get?_add_other c s b x h]

/-- visibility is monotone under plain `add`. -/
theorem contains_add_mono (c : Context) (s : Sym) (x : Str) (h : contains c x = true) :
    contains (add c s) x = true := by
  by_cases hx : s.name = x
  · subst hx; exact contains_add c s
  · rw [contains_add_other c s false x hx]; exact h

theorem length_add (c : Context) (s : Sym) (b : Bool) (h : c ≠ []) : (add c s b).length = c.length := by
  unfold add
  split
  · cases c with
    | nil => exact absurd rfl h
    | cons sc r => simp
  · rfl

theorem add_ne_nil (c : Context) (s : Sym) (b : Bool) (h : c ≠ []) : add c s b ≠ [] := by
  intro e
  have := length_add c s b h
  rw [e] at this
  cases c with
  | nil => exact h rfl
  | cons _ _ => simp at this

/-- `add` only touches the innermost scope. -/
theorem tail_add (c : Context) (s : Sym) (b : Bool) (h : c ≠ []) : (add c s b).drop 1 = c.drop 1 := by
  unfold add
  split
  · cases c with
    | nil => exact absurd rfl h
    | cons sc r => simp
  · rfl

/-! ### `remove` -/

theorem remove_cons (sc : Scope) (r : Context) (x : Str) : remove (sc :: r) x = eraseKey sc x :: r := rfl

/-- `remove` only affects the innermost scope. -/
theorem tail_remove (c : Context) (x : Str) : (remove c x).drop 1 = c.drop 1 := by
  cases c <;> simp [remove]

theorem length_remove (c : Context) (x : Str) : (remove c x).length = c.length := by
  cases c <;> simp [remove]

theorem get?_remove_other (c : Context) (x z : Str) (h : x ≠ z) : get? (remove c x) z = get? c z := by
  cases c with
  | nil => rfl
  | cons sc r => simp [remove, get?, get?_eraseKey_other sc x z h]

/-- a name bound only in an ancestor scope survives `remove`. -/
theorem get?_remove_ancestor (sc : Scope) (r : Context) (x : Str) (h : Dict.get? sc x = none) :
    get? (remove (sc :: r) x) x = get? r x := by
  simp [remove, eraseKey_of_get?_none sc x h, get?, h]

/-- removing a name bound (once) in the innermost scope exposes the ancestors' binding. -/
theorem get?_remove_self (sc : Scope) (r : Context) (x : Str) (hnd : (Dict.keys sc).Nodup) :
    get? (remove (sc :: r) x) x = get? r x := by
  simp [remove, get?, get?_eraseKey_self sc x hnd]

/-! ### `push` / `pop` -/

@[simp] theorem pop_push (c : Context) : pop (push c) = c := rfl

@[simp] theorem get?_push (c : Context) (x : Str) : get? (push c) x = get? c x := by
  simp [push, get?, Dict.get?]

@[simp] theorem contains_push (c : Context) (x : Str) : contains (push c) x = contains c x := by
  simp [contains]

@[simp] theorem length_push (c : Context) : (push c).length = c.length + 1 := by simp [push]

theorem length_pop (c : Context) : (pop c).length = c.length - 1 := by simp [pop]

theorem push_ne_nil (c : Context) : push c ≠ [] := by simp [push]

/-- a binding made in a pushed scope is gone after the pop, whatever was added/removed there. -/
theorem pop_add_push (c : Context) (s : Sym) (b : Bool) : pop (add (push c) s b) = c := by
  have := tail_add (push c) s b (push_ne_nil c)
  simpa [pop, push] using this

/-! ### folds of `add` / `remove` over a list of names -/

def addNames (c : Context) (names : List Str) : Context :=
  names.foldl (fun c n => add c (nameSym n)) c

def removeNames (c : Context) (names : List Str) : Context :=
  names.foldl (fun c n => remove c n) c

theorem addNames_nil (c : Context) : addNames c [] = c := rfl
theorem addNames_cons (c : Context) (n : Str) (r : List Str) :
    addNames c (n :: r) = addNames (add c (nameSym n)) r := rfl

theorem contains_addNames_mono (c : Context) (names : List Str) (x : Str) (h : contains c x = true) :
    contains (addNames c names) x = true := by
  induction names generalizing c with
  | nil => exact h
  | cons n r ih => exact ih _ (contains_add_mono c (nameSym n) x h)

theorem contains_addNames (c : Context) (names : List Str) (x : Str) (hx : x ∈ names) :
    contains (addNames c names) x = true := by
  induction names generalizing c with
  | nil => cases hx
  | cons n r ih =>
    rw [addNames_cons]
    rcases List.mem_cons.mp hx with h | h
    · subst h
      exact contains_addNames_mono _ r x (contains_add c (nameSym x))
    · exact ih _ h

theorem get?_addNames_other (c : Context) (names : List Str) (x : Str) (hx : x ∉ names) :
    get? (addNames c names) x = get? c x := by
  induction names generalizing c with
  | nil => rfl
  | cons n r ih =>
    simp only [List.mem_cons, not_or] at hx
    rw [addNames_cons, ih _ hx.2]
    exact get?_add_other c (nameSym n) false x (fun e => hx.1 e.symm)

/-- a name already visible keeps its symbol under plain adds (no shadowing by `addNames`). -/
theorem get?_addNames_visible (c : Context) (names : List Str) (x : Str) (h : contains c x = true) :
    get? (addNames c names) x = get? c x := by
  induction names generalizing c with
  | nil => rfl
  | cons n r ih =>
    rw [addNames_cons, ih _ (contains_add_mono c (nameSym n) x h)]
    by_cases hn : n = x
    · subst hn
      exact get?_add_visible c (nameSym n) h
    · exact get?_add_other c (nameSym n) false x hn

theorem length_addNames (c : Context) (names : List Str) (h : c ≠ []) :
    (addNames c names).length = c.length := by
  induction names generalizing c with
  | nil => rfl
  | cons n r ih =>
    rw [addNames_cons, ih _ (add_ne_nil c _ _ h), length_add c _ _ h]

theorem length_removeNames (c : Context) (names : List Str) :
    (removeNames c names).length = c.length := by
  induction names generalizing c with
  | nil => rfl
  | cons n r ih =>
    show (removeNames (remove c n) r).length = _
    rw [ih, length_remove]

theorem tail_addNames (c : Context) (names : List Str) (h : c ≠ []) :
    (addNames c names).drop 1 = c.drop 1 := by
  induction names generalizing c with
  | nil => rfl
  | cons n r ih => rw [addNames_cons, ih _ (add_ne_nil c _ _ h), tail_add c _ _ h]

theorem tail_removeNames (c : Context) (names : List Str) :
    (removeNames c names).drop 1 = c.drop 1 := by
  induction names generalizing c with
  | nil => rfl
  | cons n r ih =>
    show (removeNames (remove c n) r).drop 1 = _
    rw [ih, tail_remove]

/-! ### the fold `add_arguments_to_context` performs (`is_argument=True` for every name) -/

def addArgNames (c : Context) (names : List Str) : Context :=
  names.foldl (fun c n => add c (nameSym n) true) c

theorem addArgNames_nil (c : Context) : addArgNames c [] = c := rfl
theorem addArgNames_cons (c : Context) (n : Str) (r : List Str) :
    addArgNames c (n :: r) = addArgNames (add c (nameSym n) true) r := rfl

theorem get?_addArgNames_other (c : Context) (names : List Str) (x : Str) (hx : x ∉ names) :
    get? (addArgNames c names) x = get? c x := by
  induction names generalizing c with
  | nil => rfl
  | cons n r ih =>
    simp only [List.mem_cons, not_or] at hx
    rw [addArgNames_cons, ih _ hx.2]
    exact get?_add_other c (nameSym n) true x (fun e => hx.1 e.symm)

/-- every listed name resolves to ITS OWN `Name` symbol afterwards, whatever `c` held. -/
theorem get?_addArgNames_mem (c : Context) (names : List Str) (x : Str) (hx : x ∈ names) :
    get? (addArgNames c names) x = some (nameSym x) := by
  induction names generalizing c with
  | nil => cases hx
  | cons n r ih =>
    rw [addArgNames_cons]
    by_cases hr : x ∈ r
    · exact ih _ hr
    · have hn : x = n := by
        rcases List.mem_cons.mp hx with h | h
        · exact h
        · exact absurd h hr
      subst hn
      rw [get?_addArgNames_other _ r x hr]
      exact get?_add_arg c (nameSym x)

theorem contains_addArgNames (c : Context) (names : List Str) (x : Str) (hx : x ∈ names) :
    contains (addArgNames c names) x = true := by
  simp [contains, get?_addArgNames_mem c names x hx]

theorem contains_addArgNames_mono (c : Context) (names : List Str) (x : Str)
    (h : contains c x = true) : contains (addArgNames c names) x = true := by
  by_cases hx : x ∈ names
  · exact contains_addArgNames c names x hx
  · unfold contains; rw [get?_addArgNames_other c names x hx]; exact h

theorem addArgNames_ne_nil (c : Context) (names : List Str) (h : c ≠ []) : addArgNames c names ≠ [] := by
  induction names generalizing c with
  | nil => exact h
  | cons n r ih => rw [addArgNames_cons]; exact ih _ (add_ne_nil c _ _ h)

theorem length_addArgNames (c : Context) (names : List Str) (h : c ≠ []) :
    (addArgNames c names).length = c.length := by
  induction names generalizing c with
  | nil => rfl
  | cons n r ih =>
    rw [addArgNames_cons, ih _ (add_ne_nil c _ _ h), length_add c _ _ h]

theorem tail_addArgNames (c : Context) (names : List Str) (h : c ≠ []) :
    (addArgNames c names).drop 1 = c.drop 1 := by
  induction names generalizing c with
  | nil => rfl
  | cons n r ih => rw [addArgNames_cons, ih _ (add_ne_nil c _ _ h), tail_add c _ _ h]

end Context

/-! ### `addArguments` -/

namespace FnA

theorem addArguments_ctx (s : St) (ps : Params) :
    (addArguments s ps).ctx = Context.addArgNames s.ctx ps.all := rfl

/-- `add_arguments_to_context` makes every parameter name visible. -/
theorem addArguments_contains (s : St) (ps : Params) (x : Str) (hx : x ∈ ps.all) :
    Context.contains (addArguments s ps).ctx x = true := by
  rw [addArguments_ctx]; exact Context.contains_addArgNames _ _ x hx

/-- … and (since fix 87aba71: `is_argument=True`) every parameter resolves to its own `Name`
symbol, shadowing whatever the outer context holds under that name. -/
theorem addArguments_shadows (s : St) (ps : Params) (x : Str) (hx : x ∈ ps.all) :
    Context.get? (addArguments s ps).ctx x = some (Context.nameSym x) := by
  rw [addArguments_ctx]; exact Context.get?_addArgNames_mem _ _ x hx

/-- names that are not parameters resolve as before. -/
theorem addArguments_other (s : St) (ps : Params) (x : Str) (hx : x ∉ ps.all) :
    Context.get? (addArguments s ps).ctx x = Context.get? s.ctx x := by
  rw [addArguments_ctx]; exact Context.get?_addArgNames_other _ _ x hx

theorem addArguments_contains_mono (s : St) (ps : Params) (x : Str)
    (h : Context.contains s.ctx x = true) : Context.contains (addArguments s ps).ctx x = true := by
  rw [addArguments_ctx]; exact Context.contains_addArgNames_mono _ _ x h

theorem addArguments_length (s : St) (ps : Params) (h : s.ctx ≠ []) :
    (addArguments s ps).ctx.length = s.ctx.length := by
  rw [addArguments_ctx]; exact Context.length_addArgNames _ _ h

/-- the parameters live in the innermost scope only: the enclosing scopes are untouched. -/
theorem addArguments_tail (s : St) (ps : Params) (h : s.ctx ≠ []) :
    (addArguments s ps).ctx.drop 1 = s.ctx.drop 1 := by
  rw [addArguments_ctx]; exact Context.tail_addArgNames _ _ h

theorem mem_params_all (ps : Params) (x : Str) :
    x ∈ ps.all ↔ x ∈ ps.posonly ∨ x ∈ ps.args ∨ ps.vararg = some x ∨ x ∈ ps.kwonly ∨ ps.kwarg = some x := by
  simp only [Params.all, Params.iface, Iface.all, List.mem_append, Option.mem_toList]
  simp only [or_assoc]

end FnA
end Rattr

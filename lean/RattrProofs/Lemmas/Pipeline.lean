/-
  Lemmas for the whole-pipeline model (`RattrModel/Pipeline.lean`).

  Part A — result generation, for EVERY program (facts the stage-local development did not need):
    * `generate_fst`            the result list has one entry per root, in order;
    * `runRoot_leaf_frame`, `generate_leaf_frame`
                                the store entry of a function without resolvable calls is never
                                written, whichever roots are generated (the shared store is only
                                mutated at nodes that have children);
    * `LocalD1`, `callTree_local`, `runRoot_local`
                                the depth-one shape of ONE root, from a hypothesis about that root only;
    * `generate_at`             the store a root sees is ≥ the initial one, equal on leaves, sound;
    * `generate_localD1_mem`    exact results of a root whose callees are leaves, in any program.
  Part B — the adapter and the document:
    * `genLoop_generate`, `run_ok`   `Pipeline.run` = `FileA.analyseFile` ; `Results.generate` ; `mkDoc`;
    * `mem_sortStrs`, `mkDoc_keys`, `mkDoc_get?`;
    * `fnAt_toProg`, `toStore_eq`, `cidOf_inj`, `toProg_cidArgs`, `resolve_toProg`.
-/
import RattrModel.Pipeline
import RattrProofs.Lemmas.ResultsTree
import RattrProofs.Lemmas.ResultsTreeSpec
import RattrProofs.Lemmas.ResultsDepthOneSpec
import RattrProofs.Lemmas.Swaps

namespace Rattr.Results

/-! ## Part A -/

theorem generate_fst (P : Prog) (order : List Key) (σ σ' : Store) (rs : List (Key × IrSets))
    (h : generate P order σ = .ok (rs, σ')) : rs.map Prod.fst = order := by
  induction order generalizing σ rs with
  | nil =>
    simp only [generate, Out.ok.injEq, Prod.mk.injEq] at h
    rw [← h.1]; rfl
  | cons f r ih =>
    simp only [generate] at h
    cases h1 : runRoot P σ f with
    | outOfFuel => simp [h1] at h
    | never => simp [h1] at h
    | ok q =>
      obtain ⟨res1, σ1⟩ := q
      simp only [h1] at h
      cases h2 : generate P r σ1 with
      | outOfFuel => simp [h2] at h
      | never => simp [h2] at h
      | ok q2 =>
        obtain ⟨rs2, σ2⟩ := q2
        simp only [h2, Out.ok.injEq, Prod.mk.injEq] at h
        obtain ⟨e1, e2⟩ := h
        subst e1; subst e2
        simp [ih σ1 rs2 h2]

/-! ### the entry of a leaf is never written -/

theorem foldChild_frame {P : Prog} {pk : Key} {σ σ' : Store} {ch : Node}
    (h : foldChild P pk σ ch = some σ') {j : Key} (hj : j ≠ pk) : σ' j = σ j := by
  unfold foldChild at h
  cases he : ch.edgeIn with
  | none => simp only [he, Option.some.injEq] at h; rw [← h]
  | some c =>
    simp only [he] at h
    cases hu : unbindIr (Swaps.construct (si P) (fnAt P ch.key).iface c.args).1 (σ ch.key) with
    | none => simp [hu] at h
    | some u =>
      simp only [hu, Option.some.injEq] at h
      rw [← h]
      exact update_other _ _ hj

theorem foldChildren_frame {P : Prog} {pk : Key} (chs : List Node) {σ σ' : Store}
    (h : foldChildren P pk chs σ = some σ') {j : Key} (hj : j ≠ pk) : σ' j = σ j := by
  induction chs generalizing σ with
  | nil => simp only [foldChildren, Option.some.injEq] at h; rw [← h]
  | cons ch r ih =>
    simp only [foldChildren] at h
    cases h1 : foldChild P pk σ ch with
    | none => simp [h1] at h
    | some σ1 =>
      simp only [h1] at h
      rw [ih h, foldChild_frame h1 hj]

theorem foldChildren_nil_id {P : Prog} {pk : Key} {σ : Store} : foldChildren P pk [] σ = some σ := rfl

theorem foldTree_leaf_frame {P : Prog} {nodes : List Node} (hT : EdgeOK P nodes) (is : List Nat)
    {σ σ' : Store} (h : foldTree P nodes is σ = some σ') {g : Key} (hg : IsLeaf P g) : σ' g = σ g := by
  induction is generalizing σ with
  | nil => simp only [foldTree, Option.some.injEq] at h; rw [← h]
  | cons i r ih =>
    simp only [foldTree] at h
    cases hn : nodes[i]? with
    | none => simp only [hn] at h; exact ih h
    | some n =>
      simp only [hn] at h
      cases h1 : foldChildren P n.key (childrenOf nodes i) σ with
      | none => simp [h1] at h
      | some σ1 =>
        simp only [h1] at h
        rw [ih h]
        cases hch : childrenOf nodes i with
        | nil =>
          rw [hch] at h1
          simp only [foldChildren, Option.some.injEq] at h1
          rw [← h1]
        | cons ch rest =>
          -- the node has a child, hence a resolvable call: it is not the leaf `g`
          have hne : g ≠ n.key := by
            intro e
            have hmem : ch ∈ childrenOf nodes i := by rw [hch]; exact List.mem_cons_self
            obtain ⟨c, _, hc, hr⟩ := hT.edgesFrom hn ch hmem
            rw [← e] at hc
            rw [hg c hc] at hr
            cases hr
          exact foldChildren_frame _ h1 hne

theorem runRoot_leaf_frame {P : Prog} {σ σ' : Store} {f : Key} {res : IrSets}
    (h : runRoot P σ f = .ok (res, σ')) {g : Key} (hg : IsLeaf P g) : σ' g = σ g := by
  obtain ⟨nodes, hct, hfold, _⟩ := runRoot_some h
  exact foldTree_leaf_frame (callTree_edgeOK f nodes hct) _ hfold hg

theorem generate_leaf_frame {P : Prog} (order : List Key) {σ σ' : Store} {rs : List (Key × IrSets)}
    (h : generate P order σ = .ok (rs, σ')) {g : Key} (hg : IsLeaf P g) : σ' g = σ g := by
  induction order generalizing σ rs with
  | nil =>
    simp only [generate, Out.ok.injEq, Prod.mk.injEq] at h
    rw [← h.2]
  | cons f r ih =>
    simp only [generate] at h
    cases h1 : runRoot P σ f with
    | outOfFuel => simp [h1] at h
    | never => simp [h1] at h
    | ok q =>
      obtain ⟨res1, σ1⟩ := q
      simp only [h1] at h
      cases h2 : generate P r σ1 with
      | outOfFuel => simp [h2] at h
      | never => simp [h2] at h
      | ok q2 =>
        obtain ⟨rs2, σ2⟩ := q2
        simp only [h2, Out.ok.injEq, Prod.mk.injEq] at h
        obtain ⟨e1, e2⟩ := h
        subst e1; subst e2
        rw [ih h2, runRoot_leaf_frame h1 hg]

/-! ### one root whose callees are leaves, in ANY program -/

/-- every resolvable callee of `f` is a leaf (a hypothesis about `f` only). -/
def LocalD1 (P : Prog) (f : Key) : Prop :=
  ∀ c ∈ (fnAt P f).calls, ∀ g, P.resolve c.cid = some g → IsLeaf P g

theorem LocalD1.of_leaf {P : Prog} {f : Key} (h : IsLeaf P f) : LocalD1 P f := by
  intro c hc g hr
  rw [h c hc] at hr
  cases hr

theorem LocalD1.of_depthOne {P : Prog} (h : DepthOne P) (f : Key) : LocalD1 P f :=
  fun c hc g hr => h f c g hc hr

theorem LocalD1.kid_leaf {P : Prog} {f : Key} (h : LocalD1 P f) {n : Node} (hn : n ∈ kidsOf P f) :
    IsLeaf P n.key := by
  obtain ⟨c, hc, _, hr, _⟩ := kidsOf_spec hn
  exact h c hc n.key hr

theorem LocalD1.kid_ne {P : Prog} {f : Key} (h : LocalD1 P f) {n : Node} (hn : n ∈ kidsOf P f) :
    n.key ≠ f := by
  obtain ⟨c, hc, _, hr, _⟩ := kidsOf_spec hn
  intro heq
  have := h.kid_leaf hn
  rw [heq] at this
  rw [this c hc] at hr
  cases hr

/-- the call tree of such a root: the root, then its children; nothing else. -/
theorem callTree_local (P : Prog) {f : Key} (hL : LocalD1 P f) :
    callTree P f = some (rootNode f :: kidsOf P f) := by
  unfold callTree
  have hinv0 : BfsInv P { nodes := [rootNode f], seen := [] } :=
    { len := rfl, nodup := List.nodup_nil, sub := by intro c hc; cases hc }
  have hinv1 := expand_inv P 0 (sortCalls (fnAt P f).calls) _
    (fun c hc => cid_mem_allCids P f (mem_sortCalls.mp hc)) hinv0
  have hb := hinv1.bound
  rw [expand_eq] at hinv1 hb
  show Option.map (·.nodes) (bfs P (totalCalls P + 1) 0 { nodes := [rootNode f], seen := [] }) = _
  simp only [bfs, List.getElem?_cons_zero, rootNode]
  rw [expand_eq]
  rw [bfs_stable]
  · simp [kidsOf]
  · intro j n hj hn
    simp only at hn
    have hmem : n ∈ kidsOf P f := by
      cases j with
      | zero => omega
      | succ j' =>
        simp only [List.cons_append, List.nil_append, List.getElem?_cons_succ] at hn
        exact List.mem_of_getElem? hn
    exact hL.kid_leaf hmem
  · simpa [rootNode] using hb

theorem runRoot_local (P : Prog) {f : Key} (hL : LocalD1 P f) (σ : Store) :
    runRoot P σ f = match rootResult P σ f with
      | none => .never
      | some r => .ok (r, σ.update f r) := by
  unfold runRoot rootResult
  rw [callTree_local P hL]
  simp only
  rw [foldTree_depthOne, foldChildren_eq_mergeKids P f _ σ (fun k hk => hL.kid_ne hk)]
  cases mergeKids P σ (kidsOf P f) (σ f) with
  | none => rfl
  | some r => simp [update_same]

/-- a leaf's result is its store entry. -/
theorem runRoot_leaf {P : Prog} {f : Key} (hf : IsLeaf P f) (σ : Store) :
    runRoot P σ f = .ok (σ f, σ) := by
  rw [runRoot_local P (LocalD1.of_leaf hf)]
  unfold rootResult
  rw [kidsOf_nil_of_leaf hf]
  simp [mergeKids, update_self]

/-- what the store looks like when root `f` is reached: it grew (`StoreLe`), leaves are untouched,
soundness w.r.t. any `own` is kept. -/
theorem generate_at {P : Prog} (order : List Key) {σ σ' : Store} {rs : List (Key × IrSets)}
    (h : generate P order σ = .ok (rs, σ')) {f : Key} {res : IrSets} (hf : (f, res) ∈ rs) :
    ∃ σ1 σ2, StoreLe σ σ1 ∧ (∀ g, IsLeaf P g → σ1 g = σ g) ∧
      (∀ own, Sound P own σ → Sound P own σ1) ∧ runRoot P σ1 f = .ok (res, σ2) := by
  induction order generalizing σ rs with
  | nil =>
    simp only [generate, Out.ok.injEq, Prod.mk.injEq] at h
    rw [← h.1] at hf
    cases hf
  | cons r0 r ih =>
    simp only [generate] at h
    cases h1 : runRoot P σ r0 with
    | outOfFuel => simp [h1] at h
    | never => simp [h1] at h
    | ok q =>
      obtain ⟨res1, σ1⟩ := q
      simp only [h1] at h
      cases h2 : generate P r σ1 with
      | outOfFuel => simp [h2] at h
      | never => simp [h2] at h
      | ok q2 =>
        obtain ⟨rs2, σ2⟩ := q2
        simp only [h2, Out.ok.injEq, Prod.mk.injEq] at h
        obtain ⟨e1, e2⟩ := h
        subst e1; subst e2
        rcases List.mem_cons.mp hf with e | hm
        · injection e with e1 e2
          subst e1; subst e2
          exact ⟨σ, σ1, StoreLe.refl σ, fun _ _ => rfl, fun _ hS => hS, h1⟩
        · obtain ⟨σa, σb, hle, hleaf, hsound, hrun⟩ := ih h2 hm
          refine ⟨σa, σb, StoreLe.trans (runRoot_le P σ σ1 r0 res1 h1) hle, ?_, ?_, hrun⟩
          · intro g hg
            rw [hleaf g hg, runRoot_leaf_frame h1 hg]
          · intro own hS
            exact hsound own (runRoot_sound_all hS h1).1

/-- the closure of a leaf is its own accesses. -/
theorem clo_leaf {P : Prog} {own : Store} {k : Kind} {g : Key} {x : NameS} (hg : IsLeaf P g)
    (h : Clo P own k g x) : x ∈ (own g).of k := by
  cases h with
  | own h => exact h
  | call hc hr _ _ => rw [hg _ hc] at hr; cases hr

/-- **A root whose callees are leaves, in ANY program, any generation order** (the other functions
of the program may call each other at any depth, recursively, through shared callees): the names
reported for `f` are exactly its own ones plus, for every resolvable call `c` of `f` to `g`, the own
names of `g` unbound with the swaps of `c`. -/
theorem generate_localD1_mem {P : Prog} (hC : CidArgs P) (order : List Key) (own σ' : Store)
    {rs : List (Key × IrSets)} (h : generate P order own = .ok (rs, σ')) {f : Key} {res : IrSets}
    (hf : (f, res) ∈ rs) (hL : LocalD1 P f) (k : Kind) (x : NameS) :
    x ∈ res.of k ↔ x ∈ (own f).of k ∨
      ∃ c ∈ (fnAt P f).calls, ∃ g, P.resolve c.cid = some g ∧ ∃ n ∈ (own g).of k,
        unbindName n ((Dict.get? (swapsOf P g c) n.base).getD n.base) = some x := by
  obtain ⟨σ1, σ2, hle, hleaf, hsound, hrun⟩ := generate_at order h hf
  have hS1 : Sound P own σ1 := hsound own (StoreInv.refl P own).2
  have hrun' := hrun
  rw [runRoot_local P hL] at hrun'
  cases hr : rootResult P σ1 f with
  | none => simp [hr] at hrun'
  | some r =>
    simp only [hr, Out.ok.injEq, Prod.mk.injEq] at hrun'
    obtain ⟨e1, _⟩ := hrun'
    subst e1
    unfold rootResult at hr
    constructor
    · intro hx
      -- soundness: the result is inside the closure, and the closure of a depth-one root is flat
      have hclo : Clo P own k f x := by
        have := (runRoot_sound_all hS1 hrun)
        rw [this.2] at hx
        exact this.1 f k x hx
      cases hclo with
      | own h => exact Or.inl h
      | call hc hres hn hu =>
        exact Or.inr ⟨_, hc, _, hres, _, clo_leaf (hL _ hc _ hres) hn, hu⟩
    · rintro (hx | ⟨c, hc, g, hres, n, hn, hu⟩)
      · exact (mem_mergeKids _ _ _ _ _ hr k x).mpr (Or.inl (hle.of f k x hx))
      · obtain ⟨c', hc', hcid, hkid⟩ := kids_complete P 0 _ (mem_sortCalls.mpr hc) hres
        have hc'' : c' ∈ (fnAt P f).calls := mem_sortCalls.mp hc'
        have hargs : c'.args = c.args := hC f c' c hc'' hc hcid
        obtain ⟨u, hu'⟩ := mergeKids_some_unbind _ _ _ _ _ hr hkid (c := c') rfl
        simp only at hu'
        have hsw_eq : swapsOf P g c' = swapsOf P g c := by unfold swapsOf; rw [hargs]
        apply (mem_mergeKids _ _ _ _ _ hr k x).mpr
        right
        refine ⟨_, hkid, c', u, rfl, hu', (mem_unbindIr hu' k x).mpr ⟨n, ?_, ?_⟩⟩
        · rw [hleaf g (hL c hc g hres)]
          exact hn
        · rw [hsw_eq]
          exact hu

end Rattr.Results

/-! ### …and against the independent closure spec, with hypotheses about the edges of that root only -/

namespace Rattr.Spec
open Rattr.Results

/-- what `rootResult_iff_derive` needs to know about ONE resolvable call `c` to callee `g`. -/
structure EdgeHyp0 (S : SProg) (c : CallRec) (g : Key) : Prop where
  /-- own names of the callee have basename = root variable of the spelling -/
  rootBased : ∀ k, ∀ n ∈ (S.own g).of k, RootBased n
  /-- no `*`-spelled argument -/
  noStar : (∀ a ∈ c.args.args, a.head? ≠ some '*') ∧ (∀ kv ∈ c.args.kwargs, kv.2.head? ≠ some '*')
  /-- the interface rattr holds for the callee is that of its signature -/
  iface : (fnAt S.prog g).iface = (sigAt S g).iface
  /-- Python accepts the call, and `**kwargs` (if any) receives something -/
  accepted : ∃ b, pyBind (sigAt S g) c.args = .ok b ∧ ((sigAt S g).kwarg.isSome → b.kwargGot ≠ [])
  /-- the C04 fact on this call -/
  swaps : ∀ b, pyBind (sigAt S g) c.args = .ok b →
    ∀ k, Dict.get? (Swaps.construct (si S.prog) (sigAt S g).iface c.args).1 k
       = Dict.get? (expectedSwapsLenient (si S.prog) (sigAt S g) b) k

theorem edge_facts_at (S : SProg)
    (hStand : S.prog.tuple.head? ≠ some '*' ∧ S.prog.dict.head? ≠ some '*')
    {c : CallRec} {g : Key} (h : EdgeHyp0 S c g) :
    ∃ bm, binding S g c = some bm ∧
      (∀ k, Dict.get? (swapsOf S.prog g c) k = Dict.get? bm k) ∧
      (∀ k v, Dict.get? bm k = some v → v.head? ≠ some '*') := by
  obtain ⟨b, hb, hkw⟩ := h.accepted
  refine ⟨expectedSwaps (si S.prog) (sigAt S g) b, ?_, ?_, ?_⟩
  · unfold binding
    rw [hb]
  · intro k
    unfold swapsOf
    rw [h.iface, h.swaps b hb k, lenient_eq _ _ _ hkw]
  · intro k v hv
    have hmem := get?_mem hv
    unfold expectedSwaps at hmem
    obtain ⟨ht, hd⟩ := hStand
    obtain ⟨ha, hk⟩ := h.noStar
    rcases List.mem_append.mp hmem with hmem | hmem
    · rcases List.mem_append.mp hmem with hmem | hmem
      · exact pyBind_vals (fun a => a.head? ≠ some '*') _ _ b hb ha hk (k, v) hmem
      · obtain ⟨x, _, hx⟩ := List.mem_map.mp hmem
        injection hx with _ hx
        rw [← hx]
        exact ht
    · obtain ⟨x, _, hx⟩ := List.mem_map.mp hmem
      injection hx with _ hx
      rw [← hx]
      exact hd

/-- **C03 for one root whose callees are leaves — in ANY program, any generation order.** The
spellings reported for `f` are exactly the spec's one-level unfolding `derive S 1 f`; every
hypothesis is about `f` and its own resolvable calls (`LocalD1`, `EdgeHyp0`), none about the rest
of the program, which may contain deep chains, shared callees and recursion. -/
theorem localD1_iff_derive (S : SProg) (hC : CidArgs S.prog)
    (hStand : S.prog.tuple.head? ≠ some '*' ∧ S.prog.dict.head? ≠ some '*')
    (order : List Key) (rs : List (Key × IrSets)) (σ' : Store)
    (h : generate S.prog order S.own = .ok (rs, σ')) {f : Key} {res : IrSets} (hf : (f, res) ∈ rs)
    (hL : LocalD1 S.prog f)
    (hE : ∀ c ∈ (fnAt S.prog f).calls, ∀ g, S.prog.resolve c.cid = some g → EdgeHyp0 S c g)
    (k : Kind) (s : Str) :
    (∃ x ∈ res.of k, x.full = s) ↔ s ∈ (derive S 1 f).of k := by
  rw [derive_succ, mem_foldl_dstep]
  have key := generate_localD1_mem hC order S.own σ' h hf hL k
  constructor
  · rintro ⟨x, hx, hxs⟩
    rcases (key x).mp hx with hx | ⟨c, hc, g, hr, n, hn, hu⟩
    · exact Or.inl (mem_ownAcc.mpr ⟨x, hx, hxs⟩)
    · right
      have hh := hE c hc g hr
      obtain ⟨bm, hb, hsame, hstar⟩ := edge_facts_at S hStand hh
      obtain ⟨n', hn', hfull⟩ := unbindName_eq_subst (hh.rootBased k n hn) _ bm hsame
        (fun v hv => hstar _ v hv)
      rw [hu] at hn'
      injection hn' with hn'
      subst hn'
      exact ⟨c, hc, g, bm, hr, hb, n.full, mem_ownAcc.mpr ⟨n, hn, rfl⟩, by rw [← hxs, hfull]⟩
  · rintro (hs | ⟨c, hc, g, bm', hr, hb', m, hm, hsm⟩)
    · obtain ⟨x, hx, hxs⟩ := mem_ownAcc.mp hs
      exact ⟨x, (key x).mpr (Or.inl hx), hxs⟩
    · obtain ⟨n, hn, hnm⟩ := mem_ownAcc.mp hm
      have hh := hE c hc g hr
      obtain ⟨bm, hb, hsame, hstar⟩ := edge_facts_at S hStand hh
      rw [hb] at hb'
      injection hb' with hb'
      subst hb'
      obtain ⟨n', hn', hfull⟩ := unbindName_eq_subst (hh.rootBased k n hn) _ bm hsame
        (fun v hv => hstar _ v hv)
      exact ⟨n', (key n').mpr (Or.inr ⟨c, hc, g, hr, n, hn, hn'⟩), by rw [hfull, hsm, hnm]⟩

end Rattr.Spec

/-! ## Part B — the adapter and the document -/

namespace Rattr.Pipeline
open Rattr Rattr.Results Rattr.FnA Rattr.FileA

/-! ### `genLoop` is `Results.generate` with outcomes -/

theorem genLoop_generate (P : Prog) (D : DiagCtx) (order : List Key) (σ : Store)
    {rs : List (Key × IrSets)} {σ' : Store} {ds : List Diag}
    (h : genLoop P D order σ = .ok (rs, σ', ds)) : Results.generate P order σ = .ok (rs, σ') := by
  induction order generalizing σ rs ds with
  | nil =>
    simp only [genLoop, Outcome.ok.injEq, Prod.mk.injEq] at h
    obtain ⟨e1, e2, _⟩ := h
    subst e1; subst e2
    rfl
  | cons f r ih =>
    simp only [genLoop] at h
    cases hct : callTree P f with
    | none => simp [hct] at h
    | some nodes =>
      simp only [hct] at h
      cases htc : treeCrash P D nodes with
      | some e => simp [htc] at h
      | none =>
        simp only [htc] at h
        cases h1 : runRoot P σ f with
        | outOfFuel => simp [h1] at h
        | never => simp [h1] at h
        | ok q =>
          obtain ⟨res1, σ1⟩ := q
          simp only [h1] at h
          cases h2 : genLoop P D r σ1 with
          | fatal a b => simp [h2] at h
          | crash e => simp [h2] at h
          | ok q2 =>
            obtain ⟨rs2, σ2, ds2⟩ := q2
            simp only [h2, Outcome.ok.injEq, Prod.mk.injEq] at h
            obtain ⟨e1, e2, _⟩ := h
            subst e1; subst e2
            simp only [generate, h1, ih σ1 h2]

/-- `Pipeline.run` succeeded: it is `compile` ; `analyseWith` ; `Results.generate` on the adapter's
program and store ; `mkDoc`. -/
theorem run_ok {env : Env} {mn : Str} {f : Facts} {b : List Str} {body : List Top} {imp : ImpFacts}
    {doc : ResultsDoc} {ds : List Diag} (h : run env mn f b body imp = .ok (doc, ds)) :
    ∃ r s rs σ' ds3, RootCtx.compile f b body = .ok r ∧ hasStarred r.ctx = false ∧
      FileA.analyseWith env mn f r.ctx body = .ok s ∧
      Results.generate (toProg id f imp s.ir) (List.range s.ir.length) (toStore s.ir) = .ok (rs, σ') ∧
      doc = mkDoc s.ir rs ∧ ds = r.diags ++ s.diags ++ ds3 := by
  unfold run runWith at h
  cases hc : RootCtx.compile f b body with
  | fatal r d => simp [hc] at h
  | crash r e => simp [hc] at h
  | ok r =>
    simp only [hc] at h
    cases hs : hasStarred r.ctx with
    | true => simp [hs] at h
    | false =>
      simp only [hs, Bool.false_eq_true, if_false] at h
      cases ha : FileA.analyseWith env mn f r.ctx body with
      | fatal s d => simp [ha] at h
      | crash s e => simp [ha] at h
      | ok s =>
        simp only [ha] at h
        unfold results resultsStore at h
        cases hg : genLoop (toProg id f imp s.ir) (diagCtx f imp s.ir (toProg id f imp s.ir))
            (List.range s.ir.length) (toStore s.ir) with
        | fatal a d => simp [hg] at h
        | crash e => simp [hg] at h
        | ok q =>
          obtain ⟨rs, σ', ds3⟩ := q
          simp only [hg, Outcome.ok.injEq, Prod.mk.injEq] at h
          exact ⟨r, s, rs, σ', ds3, rfl, hs, ha, genLoop_generate _ _ _ _ hg, h.1.symm, h.2.symm⟩

theorem analyseFile_of {env : Env} {mn : Str} {f : Facts} {b : List Str} {body : List Top} {r : St}
    {s : FState} (hc : RootCtx.compile f b body = .ok r)
    (ha : FileA.analyseWith env mn f r.ctx body = .ok s) :
    FileA.analyseFile env mn f b body = .ok (s.ir, s.diags) := by
  unfold FileA.analyseFile
  simp [hc, ha]

/-! ### sorted duplicate-free name lists -/

theorem mem_insertStr {s x : Str} {l : List Str} : x ∈ insertStr s l ↔ x = s ∨ x ∈ l := by
  induction l with
  | nil => simp [insertStr]
  | cons t r ih =>
    simp only [insertStr]
    split
    · rename_i e; subst e; simp
    · split
      · simp
      · simp only [List.mem_cons, ih]
        constructor
        · rintro (h | h | h)
          · exact Or.inr (Or.inl h)
          · exact Or.inl h
          · exact Or.inr (Or.inr h)
        · rintro (h | h | h)
          · exact Or.inr (Or.inl h)
          · exact Or.inl h
          · exact Or.inr (Or.inr h)

theorem mem_sortStrs {x : Str} {l : List Str} : x ∈ sortStrs l ↔ x ∈ l := by
  induction l with
  | nil => simp [sortStrs]
  | cons a r ih =>
    have : sortStrs (a :: r) = insertStr a (sortStrs r) := rfl
    rw [this, mem_insertStr, ih]
    simp

/-! ### the document -/

section DictFacts
variable {κ ν : Type} [DecidableEq κ]

theorem mem_keys_set (d : Dict κ ν) (k x : κ) (v : ν) :
    x ∈ Dict.keys (Dict.set d k v) ↔ x ∈ Dict.keys d ∨ x = k := by
  induction d with
  | nil => simp [Dict.set, Dict.keys]
  | cons h t ih =>
    obtain ⟨k', v'⟩ := h
    simp only [Dict.set]
    by_cases hk : k' = k
    · subst hk
      simp only [if_true, Dict.keys, List.map_cons, List.mem_cons]
      constructor
      · exact fun h => Or.inl h
      · rintro (h | h)
        · exact h
        · exact Or.inl h
    · simp only [hk, if_false]
      simp only [Dict.keys, List.map_cons, List.mem_cons] at ih ⊢
      rw [ih]
      constructor
      · rintro (h | h | h)
        · exact Or.inl (Or.inl h)
        · exact Or.inl (Or.inr h)
        · exact Or.inr h
      · rintro ((h | h) | h)
        · exact Or.inl h
        · exact Or.inr (Or.inl h)
        · exact Or.inr (Or.inr h)

end DictFacts

theorem mem_keys_foldl_docStep (fir : FileIr) (rs : List (Key × IrSets)) (d : ResultsDoc) (n : Str) :
    n ∈ Dict.keys (rs.foldl (docStep fir) d) ↔
      n ∈ Dict.keys d ∨ ∃ p ∈ rs, ∃ sym ir, fir[p.1]? = some (sym, ir) ∧ sym.name = n := by
  induction rs generalizing d with
  | nil => simp
  | cons p r ih =>
    simp only [List.foldl_cons, ih]
    unfold docStep
    cases hp : fir[p.1]? with
    | none =>
      simp only [List.mem_cons]
      constructor
      · rintro (h | ⟨q, hq, hx⟩)
        · exact Or.inl h
        · exact Or.inr ⟨q, Or.inr hq, hx⟩
      · rintro (h | ⟨q, hq | hq, sym, ir, hx, hn⟩)
        · exact Or.inl h
        · subst hq; rw [hp] at hx; cases hx
        · exact Or.inr ⟨q, hq, sym, ir, hx, hn⟩
    | some si =>
      obtain ⟨sym, ir⟩ := si
      simp only [mem_keys_set, List.mem_cons]
      constructor
      · rintro ((h | h) | ⟨q, hq, hx⟩)
        · exact Or.inl h
        · exact Or.inr ⟨p, Or.inl rfl, sym, ir, hp, h.symm⟩
        · exact Or.inr ⟨q, Or.inr hq, hx⟩
      · rintro (h | ⟨q, hq | hq, sym', ir', hx, hn⟩)
        · exact Or.inl (Or.inl h)
        · subst hq
          rw [hp] at hx
          injection hx with hx
          injection hx with e1 _
          subst e1
          exact Or.inl (Or.inr hn.symm)
        · exact Or.inr ⟨q, hq, sym', ir', hx, hn⟩

/-- the functions of the document are the names of the FileIr keys the results were generated for. -/
theorem mkDoc_keys (fir : FileIr) (rs : List (Key × IrSets)) (n : Str) :
    n ∈ Dict.keys (mkDoc fir rs) ↔ ∃ p ∈ rs, ∃ sym ir, fir[p.1]? = some (sym, ir) ∧ sym.name = n := by
  unfold mkDoc
  rw [mem_keys_foldl_docStep]
  simp [Dict.keys]

theorem get?_foldl_docStep_other (fir : FileIr) (rs : List (Key × IrSets)) (d : ResultsDoc) (n : Str)
    (h : ∀ p ∈ rs, ∀ sym ir, fir[p.1]? = some (sym, ir) → sym.name ≠ n) :
    Dict.get? (rs.foldl (docStep fir) d) n = Dict.get? d n := by
  induction rs generalizing d with
  | nil => rfl
  | cons p r ih =>
    simp only [List.foldl_cons]
    rw [ih _ (fun q hq => h q (List.mem_cons_of_mem _ hq))]
    unfold docStep
    cases hp : fir[p.1]? with
    | none => rfl
    | some si =>
      obtain ⟨sym, ir⟩ := si
      exact SwapsLemmas.get?_set_ne d _ (h p List.mem_cons_self sym ir hp)

/-- the entry under a name is the one written for the LAST key with that name. -/
theorem mkDoc_get? (fir : FileIr) (pre post : List (Key × IrSets)) (k : Key) (res : IrSets)
    (sym : Sym) (ir : IR) (hk : fir[k]? = some (sym, ir))
    (hpost : ∀ p ∈ post, ∀ sym' ir', fir[p.1]? = some (sym', ir') → sym'.name ≠ sym.name) :
    Dict.get? (mkDoc fir (pre ++ (k, res) :: post)) sym.name = some (entry ir res) := by
  unfold mkDoc
  rw [List.foldl_append, List.foldl_cons, get?_foldl_docStep_other fir post _ _ hpost]
  unfold docStep
  simp only [hk]
  exact SwapsLemmas.get?_set_eq _ _ _

/-- split the result list of `List.range n` roots at key `k`: everything after has a larger key. -/
theorem split_at_key {rs : List (Key × IrSets)} {n : Nat} (hfst : rs.map Prod.fst = List.range n)
    {k : Key} {res : IrSets} (hm : (k, res) ∈ rs) :
    ∃ pre post, rs = pre ++ (k, res) :: post ∧ ∀ p ∈ post, k < p.1 := by
  obtain ⟨pre, post, e⟩ := List.mem_iff_append.mp hm
  refine ⟨pre, post, e, ?_⟩
  have hpw : (rs.map Prod.fst).Pairwise (· < ·) := by rw [hfst]; exact List.pairwise_lt_range
  rw [e, List.map_append, List.map_cons] at hpw
  have := (List.pairwise_append.mp hpw).2.1
  have h2 := (List.pairwise_cons.mp this).1
  intro p hp
  exact h2 p.1 (List.mem_map.mpr ⟨p, hp, rfl⟩)

/-! ### the adapter -/

theorem indexOf?_some {α : Type} [DecidableEq α] {a : α} {l : List α} {i : Nat}
    (h : indexOf? a l = some i) : l[i]? = some a := by
  induction l generalizing i with
  | nil => simp [indexOf?] at h
  | cons b r ih =>
    simp only [indexOf?] at h
    split at h
    · rename_i e; injection h with h; subst h; subst e; rfl
    · cases hr : indexOf? a r with
      | none => simp [hr] at h
      | some j =>
        simp only [hr, Option.map_some, Option.some.injEq] at h
        subst h
        simpa using ih hr

theorem indexOf?_of_mem {α : Type} [DecidableEq α] {a : α} {l : List α} (h : a ∈ l) :
    ∃ i, indexOf? a l = some i := by
  induction l with
  | nil => cases h
  | cons b r ih =>
    simp only [indexOf?]
    by_cases e : b = a
    · exact ⟨0, by simp [e]⟩
    · rcases List.mem_cons.mp h with h | h
      · exact absurd h.symm e
      · obtain ⟨j, hj⟩ := ih h
        exact ⟨j + 1, by simp [e, hj]⟩

theorem getElem?_cidOf {all : List CallSym} {c : CallSym} (h : c ∈ all) : all[cidOf all c]? = some c := by
  obtain ⟨i, hi⟩ := indexOf?_of_mem h
  unfold cidOf
  rw [hi]
  exact indexOf?_some hi

theorem cidOf_inj {all : List CallSym} {c c' : CallSym} (h : c ∈ all) (h' : c' ∈ all)
    (e : cidOf all c = cidOf all c') : c = c' := by
  have h1 := getElem?_cidOf h
  have h2 := getElem?_cidOf h'
  rw [e, h2] at h1
  injection h1 with h1
  exact h1.symm

theorem mem_foldl_addCall (l acc : List CallSym) (x : CallSym) :
    x ∈ l.foldl addCall acc ↔ x ∈ acc ∨ x ∈ l := by
  induction l generalizing acc with
  | nil => simp
  | cons a r ih =>
    simp only [List.foldl_cons, ih, List.mem_cons]
    unfold addCall
    by_cases ha : acc.contains a = true
    · simp only [ha, if_true]
      constructor
      · rintro (h | h)
        · exact Or.inl h
        · exact Or.inr (Or.inr h)
      · rintro (h | h | h)
        · exact Or.inl h
        · subst h; exact Or.inl (by simpa using ha)
        · exact Or.inr h
    · simp only [ha, Bool.false_eq_true, if_false, List.mem_append, List.mem_singleton]
      constructor
      · rintro ((h | h) | h)
        · exact Or.inl h
        · exact Or.inr (Or.inl h)
        · exact Or.inr (Or.inr h)
      · rintro (h | h | h)
        · exact Or.inl (Or.inl h)
        · exact Or.inl (Or.inr h)
        · exact Or.inr h

theorem mem_allCalls {fir : FileIr} {p : Sym × IR} (hp : p ∈ fir) {c : CallSym} (hc : c ∈ p.2.calls) :
    c ∈ allCalls fir := by
  unfold allCalls
  rw [mem_foldl_addCall]
  right
  exact List.mem_flatMap.mpr ⟨p, hp, hc⟩

theorem fnAt_toProg (ord : List CallSym → List CallSym) (f : Facts) (imp : ImpFacts) (fir : FileIr)
    (k : Key) (p : Sym × IR) (hk : fir[k]? = some p) :
    fnAt (toProg ord f imp fir) k = fnInfo ord (allCalls fir) p := by
  unfold fnAt toProg
  simp [List.getElem?_map, hk]

theorem calls_toProg_none (ord : List CallSym → List CallSym) (f : Facts) (imp : ImpFacts) (fir : FileIr)
    (k : Key) (hk : fir[k]? = none) : (fnAt (toProg ord f imp fir) k).calls = [] := by
  unfold fnAt toProg
  simp [List.getElem?_map, hk]

theorem toStore_eq (fir : FileIr) (k : Key) (p : Sym × IR) (hk : fir[k]? = some p) :
    toStore fir k = irSets p.2 := by
  unfold toStore
  simp [hk]

/-- a call record of function `k` of the adapter's program comes from a Call symbol of its IR. -/
theorem mem_calls_toProg {f : Facts} {imp : ImpFacts} {fir : FileIr} {k : Key} {c : CallRec}
    (hc : c ∈ (fnAt (toProg id f imp fir) k).calls) :
    ∃ p cs, fir[k]? = some p ∧ cs ∈ p.2.calls ∧ c = callRec (allCalls fir) cs ∧ cs ∈ allCalls fir := by
  cases hk : fir[k]? with
  | none => rw [calls_toProg_none id f imp fir k hk] at hc; cases hc
  | some p =>
    rw [fnAt_toProg id f imp fir k p hk] at hc
    simp only [fnInfo, id, List.mem_map] at hc
    obtain ⟨cs, hcs, e⟩ := hc
    exact ⟨p, cs, rfl, hcs, e.symm, mem_allCalls (List.mem_of_getElem? hk) hcs⟩

/-- `resolve` of the adapter's program is `find_call_target_and_ir` on the Call symbol. -/
theorem resolve_toProg (ord : List CallSym → List CallSym) (f : Facts) (imp : ImpFacts) (fir : FileIr)
    {cs : CallSym} (h : cs ∈ allCalls fir) :
    (toProg ord f imp fir).resolve (cidOf (allCalls fir) cs) =
      match resolveCall f imp fir cs with
      | .target k => some k
      | _ => none := by
  show resolveCid f imp fir (allCalls fir) _ = _
  unfold resolveCid
  rw [getElem?_cidOf h]
  rfl

/-- equal cids are equal Call symbols: `CidArgs` holds for every program the adapter builds. -/
theorem toProg_cidArgs (f : Facts) (imp : ImpFacts) (fir : FileIr) : CidArgs (toProg id f imp fir) := by
  intro k c c' hc hc' e
  obtain ⟨p, cs, hk, _, e1, hm⟩ := mem_calls_toProg hc
  obtain ⟨p', cs', hk', _, e2, hm'⟩ := mem_calls_toProg hc'
  subst e1; subst e2
  simp only [callRec] at e
  rw [cidOf_inj hm hm' e]

/-- the closure spec's view of a module: the adapter's program and store, with real signatures
`sigs` (the model's `Params` carry no defaults; any assignment of defaults may be supplied). -/
def specOf (f : Facts) (imp : ImpFacts) (fir : FileIr) (sigs : List (Spec.Sig Str)) : Spec.SProg :=
  { prog := toProg id f imp fir, sigs := sigs, own := toStore fir }


/-! ### from a successful run to the entry of every analysed callable -/

theorem mem_rs_of_lt {rs : List (Key × IrSets)} {n : Nat} (hfst : rs.map Prod.fst = List.range n)
    {k : Key} (hk : k < n) : ∃ res, (k, res) ∈ rs := by
  have : k ∈ rs.map Prod.fst := by rw [hfst]; exact List.mem_range.mpr hk
  obtain ⟨p, hp, e⟩ := List.mem_map.mp this
  obtain ⟨k', res⟩ := p
  simp only at e
  subst e
  exact ⟨res, hp⟩

/-- no later key of the FileIr carries the same name (then the document entry under that name is
this key's: `results[symbol.id] = …` is a dict assignment, a later equal name overwrites). -/
def LastOfName (fir : FileIr) (k : Key) (name : Str) : Prop :=
  ∀ j sym' ir', k < j → fir[j]? = some (sym', ir') → sym'.name ≠ name

/-- **Composition.** A successful run of the pipeline IS: the file stage's FileIr `fir`; the proved
`Results.generate` on the adapter's program over the FileIr's own sets, roots in FileIr order; and
the document holds, under the name of every key `k` (last of its name), `entry` of that key's
result. -/
theorem run_entry {env : Env} {mn : Str} {f : Facts} {b : List Str} {body : List Top} {imp : ImpFacts}
    {doc : ResultsDoc} {ds : List Diag} (h : run env mn f b body imp = .ok (doc, ds)) :
    ∃ fir d0 rs σ', FileA.analyseFile env mn f b body = .ok (fir, d0) ∧
      Results.generate (toProg id f imp fir) (List.range fir.length) (toStore fir) = .ok (rs, σ') ∧
      doc = mkDoc fir rs ∧
      ∀ k sym ir, fir[k]? = some (sym, ir) → LastOfName fir k sym.name →
        ∃ res, (k, res) ∈ rs ∧ Dict.get? doc sym.name = some (entry ir res) := by
  obtain ⟨r, s, rs, σ', ds3, hc, _, ha, hg, hdoc, _⟩ := run_ok h
  refine ⟨s.ir, s.diags, rs, σ', analyseFile_of hc ha, hg, hdoc, ?_⟩
  intro k sym ir hk hlast
  have hfst := generate_fst _ _ _ _ _ hg
  obtain ⟨res, hm⟩ := mem_rs_of_lt hfst (lt_length_of_getElem? hk)
  obtain ⟨pre, post, e, hpost⟩ := split_at_key hfst hm
  refine ⟨res, hm, ?_⟩
  rw [hdoc, e]
  exact mkDoc_get? s.ir pre post k res sym ir hk
    (fun p hp sym' ir' hp' => hlast p.1 sym' ir' (hpost p hp) hp')

/-- function `k` makes no call that `find_call_target_and_ir` resolves. -/
def NoResolvable (f : Facts) (imp : ImpFacts) (fir : FileIr) (ir : IR) : Prop :=
  ∀ c ∈ ir.calls, ∀ g, resolveCall f imp fir c ≠ .target g

theorem isLeaf_toProg {f : Facts} {imp : ImpFacts} {fir : FileIr} {k : Key} {sym : Sym} {ir : IR}
    (hk : fir[k]? = some (sym, ir)) (h : NoResolvable f imp fir ir) : IsLeaf (toProg id f imp fir) k := by
  intro c hc
  obtain ⟨p, cs, hk', hcs, e, hm⟩ := mem_calls_toProg hc
  rw [hk] at hk'
  injection hk' with hk'
  subst hk'
  subst e
  simp only [callRec]
  rw [resolve_toProg id f imp fir hm]
  cases hr : resolveCall f imp fir cs with
  | target g => exact absurd hr (h cs hcs g)
  | nothing => rfl
  | crash e => rfl

theorem standIns_toProg (f : Facts) (imp : ImpFacts) (fir : FileIr) :
    (toProg id f imp fir).tuple.head? ≠ some '*' ∧ (toProg id f imp fir).dict.head? ≠ some '*' := by
  constructor <;> simp [toProg]


/-! ### how result generation can end -/

theorem genLoop_not_fatal (P : Prog) (D : DiagCtx) (order : List Key) (σ : Store) (a : List Diag) (d : Diag) :
    genLoop P D order σ ≠ .fatal a d := by
  induction order generalizing σ a d with
  | nil => simp [genLoop]
  | cons f r ih =>
    simp only [genLoop]
    cases callTree P f with
    | none => simp
    | some nodes =>
      simp only
      cases treeCrash P D nodes with
      | some e => simp
      | none =>
        simp only
        cases runRoot P σ f with
        | outOfFuel => simp
        | never => simp
        | ok q =>
          obtain ⟨res1, σ1⟩ := q
          simp only
          cases h2 : genLoop P D r σ1 with
          | fatal a' d' => exact absurd h2 (ih σ1 a' d')
          | crash e => simp
          | ok q2 => simp

theorem treeCrash_some {P : Prog} {D : DiagCtx} {nodes : List Results.Node} {e : Str}
    (h : treeCrash P D nodes = some e) : ∃ c, D.crashes c = some e := by
  unfold treeCrash at h
  obtain ⟨n, _, hn⟩ := List.exists_of_findSome?_eq_some h
  obtain ⟨c, _, hc⟩ := List.exists_of_findSome?_eq_some hn
  exact ⟨c, hc⟩

/-- `genLoop` ends in results, in `ValueError("never")`, or in the exception of a call resolution:
never in a fatal error, never out of fuel. -/
theorem genLoop_crash (P : Prog) (D : DiagCtx) (order : List Key) (σ : Store) (e : Str)
    (h : genLoop P D order σ = .crash e) : e = "ValueError".toList ∨ ∃ c, D.crashes c = some e := by
  induction order generalizing σ with
  | nil => simp [genLoop] at h
  | cons f r ih =>
    simp only [genLoop] at h
    obtain ⟨nodes, hct⟩ := callTree_terminates P f
    simp only [hct] at h
    cases htc : treeCrash P D nodes with
    | some e' =>
      simp only [htc, Outcome.crash.injEq] at h
      subst h
      exact Or.inr (treeCrash_some htc)
    | none =>
      simp only [htc] at h
      cases h1 : runRoot P σ f with
      | outOfFuel =>
        -- impossible: the call tree is built within its fuel
        unfold runRoot at h1
        rw [hct] at h1
        simp only at h1
        split at h1 <;> cases h1
      | never =>
        simp only [h1, Outcome.crash.injEq] at h
        exact Or.inl h.symm
      | ok q =>
        obtain ⟨res1, σ1⟩ := q
        simp only [h1] at h
        cases h2 : genLoop P D r σ1 with
        | fatal a d => exact absurd h2 (genLoop_not_fatal P D r σ1 a d)
        | crash e' =>
          simp only [h2, Outcome.crash.injEq] at h
          subst h
          exact ih σ1 h2
        | ok q2 => simp [h2] at h

theorem resolveCall_crash {f : Facts} {imp : ImpFacts} {fir : FileIr} {c : CallSym} {e : Str}
    (h : resolveCall f imp fir c = .crash e) : e = "ImportError".toList ∨ e = "NoImportFact".toList := by
  unfold resolveCall at h
  cases ht : c.target with
  | none => simp [ht] at h
  | some t =>
    simp only [ht] at h
    cases hk : t.kind with
    | builtin => simp [hk] at h
    | name => simp [hk] at h
    | func =>
      simp only [hk] at h
      split at h
      · cases h
      · split at h <;> cases h
    | cls =>
      simp only [hk] at h
      split at h <;> cases h
    | import_ =>
      simp only [hk] at h
      split at h
      · injection h with h; exact Or.inr h.symm
      · split at h
        · injection h with h; exact Or.inl h.symm
        · cases h

end Rattr.Pipeline

/-
  Lemmas about `RattrModel.ResolveLocal` (used by Props/C06).
-/
import RattrModel.ResolveLocal

namespace Rattr.ResolveLocal

theorem eqv_symm (a b : DSym) : a.eqv b = b.eqv a := by
  unfold DSym.eqv
  rw [BEq.comm (a := a.kind), BEq.comm (a := a.name), BEq.comm (a := a.iface)]

theorem eqv_iff (a b : DSym) : a.eqv b = true ↔ a.kind = b.kind ∧ a.name = b.name ∧ a.iface = b.iface := by
  simp [DSym.eqv, and_assoc]

theorem eqv_trans (a b c : DSym) (h1 : a.eqv b = true) (h2 : b.eqv c = true) : a.eqv c = true := by
  rw [eqv_iff] at *
  exact ⟨h1.1.trans h2.1, h1.2.1.trans h2.2.1, h1.2.2.trans h2.2.2⟩

/-- a dict holds no two keys that are `==` -/
def KeysDistinct (ir : FileKeys) : Prop := ∀ a ∈ ir, ∀ b ∈ ir, a.eqv b = true → a = b

theorem lookup_some (ir : FileKeys) (sy k : DSym) (h : lookup ir sy = some k) : k ∈ ir ∧ sy.eqv k = true := by
  unfold lookup at h
  exact ⟨List.mem_of_find?_eq_some h, by simpa using List.find?_some h⟩

theorem lookup_of_mem (ir : FileKeys) (sy : DSym) (hd : KeysDistinct ir) (o : DSym) (ho : o ∈ ir)
    (he : sy.eqv o = true) : lookup ir sy = some o := by
  cases h : lookup ir sy with
  | none =>
    unfold lookup at h
    have := List.find?_eq_none.mp h o ho
    simp [he] at this
  | some k =>
    obtain ⟨hk, hek⟩ := lookup_some ir sy k h
    have : k.eqv o = true := eqv_trans k sy o (by rw [eqv_symm]; exact hek) he
    rw [hd k hk o ho this]

theorem isDefinedIn_iff (sy : DSym) (ir : FileKeys) :
    isDefinedIn sy ir = true ↔ ∃ o ∈ ir, sy.eqv o = true ∧ sy.file = o.file := by
  simp [isDefinedIn, List.any_eq_true]

theorem realClass_eq (env : Env) (t : DSym) :
    realClass env t =
      match ((allKeys env).filter fun o => o.kind == .cls && o.name == t.name).find? (fun o => o.file == t.file) with
      | some o => o
      | none => t := rfl

theorem realClass_file (env : Env) (t : DSym) : (realClass env t).file = t.file := by
  rw [realClass_eq]
  split
  · next o h => simpa using List.find?_some h
  · rfl

theorem realClass_cases (env : Env) (t : DSym) :
    realClass env t = t ∨
      (realClass env t ∈ allKeys env ∧ (realClass env t).kind = .cls ∧ (realClass env t).name = t.name
        ∧ (realClass env t).file = t.file) := by
  rw [realClass_eq]
  split
  · next o h =>
    right
    have hm := List.mem_of_find?_eq_some h
    have hf := List.find?_some h
    rw [List.mem_filter] at hm
    simp only [Bool.and_eq_true, beq_iff_eq] at hm hf
    exact ⟨hm.1, hm.2.1, hm.2.2, hf⟩
  · left; rfl

theorem dictGet_mem' {ν : Type} (d : Dict Str ν) (k : Str) (v : ν) (h : Dict.get? d k = some v) :
    (k, v) ∈ d := by
  induction d with
  | nil => simp [Dict.get?] at h
  | cons e r ih =>
    obtain ⟨k', v'⟩ := e
    unfold Dict.get? at h
    by_cases hk : k' = k
    · simp only [hk, if_true, Option.some.injEq] at h; subst hk; subst h; simp
    · simp only [hk, if_false] at h; exact List.mem_cons_of_mem _ (ih h)

theorem mem_allKeys_of_import (env : Env) (m : Str) (ir : FileKeys) (k : DSym)
    (hi : Dict.get? env.imports m = some ir) (hk : k ∈ ir) : k ∈ allKeys env := by
  unfold allKeys
  apply List.mem_append_right
  rw [List.mem_flatMap]
  exact ⟨(m, ir), dictGet_mem' _ _ _ hi, hk⟩

end Rattr.ResolveLocal

/-
  C07, wider predicate — part 2: the induction. Under `okN k` / `okB k` (RattrModel/Crash.lean §3),
  from a state with a sane context (and, in key mode, good names) no member of the mutual block
  `visit / visitList / visitSortedKey / assignDiv / visitReturnValue / visitReturnElts` ends in
  `Res.crash`, and a normal outcome has a sane context (and good names) again.
-/
import RattrProofs.Lemmas.C07Wide
import RattrProofs.Lemmas.C07Induction
namespace Rattr.C07
open Rattr Rattr.FnA Rattr.Crash Rattr.Strs

variable {R : Context}

/-! ### nodes that always stop the analysis -/

mutual
theorem stops_spec (env : Env) (mn : Str) : ∀ (n : Node) (s s' : St), stops n = true → visit env mn n s ≠ .ok s'
  | .forbidden k, s, s', _ => by rw [visit]; intro h; cases h
  | .other k kids, s, s', h => by
    rw [visit]; simp only [stops] at h; exact stopsL_spec env mn kids s s' h
  | .forLoop t iter body orelse, s, s', h => by
    rw [visit]; simp only [stops, Bool.or_eq_true] at h
    intro he
    cases h1 : addIdentifiers s t with
    | ok s1 =>
      rw [h1] at he; simp only [FnA.bind] at he
      cases h2 : visit env mn t s1 with
      | ok s2 =>
        rw [h2] at he; simp only [] at he
        cases h3 : visit env mn iter s2 with
        | ok s3 =>
          rw [h3] at he; simp only [] at he
          cases h4 : visitList env mn body s3 with
          | ok s4 =>
            rw [h4] at he; simp only [] at he
            rcases h with h | h
            · exact stopsL_spec env mn body s3 s4 h h4
            · exact stopsL_spec env mn orelse s4 s' h he
          | fatal s4 d => rw [h4] at he; cases he
          | crash s4 e => rw [h4] at he; cases he
        | fatal s3 d => rw [h3] at he; cases he
        | crash s3 e => rw [h3] at he; cases he
      | fatal s2 d => rw [h2] at he; cases he
      | crash s2 e => rw [h2] at he; cases he
    | fatal s1 d => rw [h1] at he; cases he
    | crash s1 e => rw [h1] at he; cases he
  | .withStmt items body, s, s', h => by
    rw [visit]; simp only [stops] at h
    intro he
    cases h1 : withRegister items s with
    | ok s1 =>
      rw [h1] at he; simp only [FnA.bind] at he
      cases h2 : visitList env mn items s1 with
      | ok s2 =>
        rw [h2] at he; simp only [] at he
        exact stopsL_spec env mn body s2 s' h he
      | fatal s2 d => rw [h2] at he; cases he
      | crash s2 e => rw [h2] at he; cases he
    | fatal s1 d => rw [h1] at he; cases he
    | crash s1 e => rw [h1] at he; cases he
  | .funcDef name ps body, s, s', h => by
    rw [visit]; simp only [stops] at h
    intro he
    simp only [] at he
    generalize hs0 : addArguments _ ps = s0 at he
    cases h1 : visitList env mn body s0 with
    | ok s1 => exact stopsL_spec env mn body s0 s1 h h1
    | fatal s1 d => rw [h1] at he; cases he
    | crash s1 e => rw [h1] at he; cases he
  | .name .., _, _, h | .attr .., _, _, h | .sub .., _, _, h | .starred .., _, _, h | .call .., _, _, h
  | .lam .., _, _, h | .comp .., _, _, h | .gen .., _, _, h | .walrus .., _, _, h | .strConst .., _, _, h
  | .const, _, _, h | .seq .., _, _, h | .dict .., _, _, h | .assign .., _, _, h | .annAssign .., _, _, h
  | .augAssign .., _, _, h | .delete .., _, _, h
  | .withitem .., _, _, h | .classDef .., _, _, h | .ret .., _, _, h => by
    simp [stops] at h
theorem stopsL_spec (env : Env) (mn : Str) : ∀ (l : List Node) (s s' : St), stopsL l = true →
    visitList env mn l s ≠ .ok s'
  | [], _, _, h => by simp [stopsL] at h
  | n :: r, s, s', h => by
    rw [visitList]
    simp only [stopsL, Bool.or_eq_true] at h
    intro he
    cases hv : visit env mn n s with
    | ok s1 =>
      rw [hv] at he
      rcases h with h | h
      · exact stops_spec env mn n s s1 h hv
      · exact stopsL_spec env mn r s1 s' h he
    | fatal s1 d => rw [hv] at he; cases he
    | crash s1 e => rw [hv] at he; cases he
end

theorem okL_okB (k : Bool) : ∀ (l : List Node), okL k l = true → okB k l = true
  | [], _ => by simp [okB]
  | n :: r, h => by
    simp only [okL, Bool.and_eq_true] at h
    simp only [okB, Bool.and_eq_true, Bool.or_eq_true]
    exact ⟨h.1, Or.inr (okL_okB k r h.2)⟩

/-- a node the predicate accepts is named without an exception by the safe namer. -/
theorem okN_nameOk (k : Bool) (n : Node) (h : okN k n = true) : nameOk true n = true := by
  cases n with
  | attr v a c => simp only [okN, Bool.and_eq_true] at h; exact h.1.1
  | sub v sl c => simp only [okN, Bool.and_eq_true] at h; exact h.1.1
  | starred v c => simp only [okN, Bool.and_eq_true] at h; exact h.1.1
  | call f args kwn kwv =>
    simp only [okN, callLocalOk', Bool.and_eq_true] at h
    exact h.1.1.1.1.1.1.1.1.2
  | _ => simp [nameOk, namesOf]

theorem targetName_nc' {f : Node} {args kwn kwv} (h : nameOk true f = true) :
    ∀ e, targetNameNoUnravel (.call f args kwn kwv) ≠ .crash e := targetName_nc h

/-- what the call case needs to know about the first positional argument. -/
def HeadFacts' (R : Context) (k : Bool) (env : Env) (mn : Str) (l : List Node) : Prop :=
  ∀ a0 tail, l = a0 :: tail →
    (∀ t, Inv R k t → Good R k (visit env mn a0 t)) ∧ nameOk true a0 = true ∧
    (∀ ps body, a0 = .lam ps body → ∀ t, Inv R k t → Good R k (visit env mn body t))

theorem inv_gets {k : Bool} {s : St} (hs : Inv R k s) {l : List NameS} (hl : AllQ l) :
    Inv R k { s with gets := l.foldl addTo s.gets } :=
  ⟨hs.ctx, fun hk => ⟨AllQ.foldl_addTo (hs.names hk).gets hl, (hs.names hk).sets, (hs.names hk).dels⟩⟩

theorem inv_false {s : St} (h : CtxOk R s.ctx) : Inv R false s := ⟨h, fun hk => by cases hk⟩

theorem xattr_mem {q : Str} (h : q = "getattr".toList ∨ q = "hasattr".toList ∨ q = "setattr".toList ∨ q = "delattr".toList) :
    xattrBuiltins.contains q = true := by
  rcases h with h | h | h | h <;> subst h <;> decide

theorem inv_gets' {k : Bool} (P : St × Option Str) (fullname : Str) (h : Inv R k P.1) :
    Inv R k (St.mk P.1.ctx (List.foldl addTo P.1.gets (receiverPrefixes fullname)) P.1.sets
            P.1.dels P.1.calls P.1.diags) :=
  inv_gets (s := P.1) h (receiverPrefixes_QName fullname)

theorem call_good (k : Bool) (env : Env) (mn : Str) (f : Node) (args : List Node) (kwn : List (Option Str))
    (kwv : List Node) (s : St) (hs : Inv R k s)
    (hl : callLocalOk' k f args kwn kwv = true)
    (hargs : ∀ s, Inv R k s → Good R k (visitList env mn args s))
    (hkws : ∀ s, Inv R k s → Good R k (visitList env mn kwv s))
    (hhead : HeadFacts' R k env mn args)
    (hkey : ∀ r t, (∀ e, r ≠ .crash e) → Inv R k t → Good R k (visitSortedKey env mn r kwn kwv t)) :
    Good R k (visit env mn (.call f args kwn kwv) s) := by
  simp only [callLocalOk', Bool.and_eq_true] at hl
  obtain ⟨⟨⟨⟨⟨⟨hf, hnode⟩, hx⟩, hfac⟩, hao⟩, hko⟩, hst⟩ := hl
  rw [visit.eq_def]
  refine good_liftName (targetName_nc hf) (fun b tn htn => ?_)
  have hcn := calleeName_eq htn
  rw [hcn] at hx
  simp only []
  split
  · -- a custom analyser
    rename_i q hq
    -- the getattr family is reached through its own spelling only
    have hxa : xattrBuiltins.contains q = true → k = false ∧ xattrOldOk tn args = true := by
      intro hqx
      have := xattr_dispatch hs.sane hq hqx
      simp only [this, Bool.not_true, Bool.false_or, Bool.and_eq_true, Bool.not_eq_true'] at hx
      exact hx
    split
    · rename_i hc
      have hc' : q = "getattr".toList ∨ q = "hasattr".toList := by
        rcases (Bool.or_eq_true _ _).mp hc with h | h
        · exact Or.inl (of_decide_eq_true h)
        · exact Or.inr (of_decide_eq_true h)
      obtain ⟨hk, hxo⟩ := hxa (xattr_mem (by rcases hc' with h | h; exact Or.inl h; exact Or.inr (Or.inl h)))
      subst hk
      exact good_dynamicName hs hxo (fun s n hs => good_ok (inv_false hs.ctx))
    · split
      · rename_i _ hc
        have hc' : q = "setattr".toList := hc
        obtain ⟨hk, hxo⟩ := hxa (xattr_mem (Or.inr (Or.inr (Or.inl hc'))))
        subst hk
        exact good_dynamicName hs hxo (fun s n hs => good_ok (inv_false hs.ctx))
      · split
        · rename_i _ _ hc
          have hc' : q = "delattr".toList := hc
          obtain ⟨hk, hxo⟩ := hxa (xattr_mem (Or.inr (Or.inr (Or.inr hc'))))
          subst hk
          exact good_dynamicName hs hxo (fun s n hs => good_ok (inv_false hs.ctx))
        · split
          · split
            · exact good_ok hs
            · have hh := hhead _ _ rfl
              exact good_bind (good_protect (good_bind (hh.1 _ hs.fresh)
                (fun t ht => hkey _ t (nameOk_spec hh.2.1) ht))) (fun t ht => good_ok (hs.merge ht))
          · split
            · split
              · exact good_ok hs
              · have hh := hhead _ _ rfl
                split
                · rename_i ps body
                  have h0 : Inv R k (addArguments { (freshIr s) with ctx := Context.push s.ctx } ps) :=
                    ⟨CtxOk.addArguments (s := { (freshIr s) with ctx := Context.push s.ctx }) hs.ctx.push ps,
                      fun _ => ⟨AllQ.nil, AllQ.nil, AllQ.nil⟩⟩
                  refine good_bind_eq (good_protect (hh.2.2 _ _ rfl _ h0)) (fun t ht heq => ?_)
                  have hlen : t.ctx.length = s.ctx.length + 1 :=
                    visit_bal env mn body (s.ctx.length + 1) _ (by omega)
                      (addArguments_length' _ ps (by omega) (by simp [Context.push])) t (protect_ok heq)
                  exact good_ok (hs.merge (ht.withCtx (ht.ctx.pop (by have := hs.ctx.len; omega))))
                · exact good_defaultdictNamed hs (by simp [nameOk, namesOf])
                · exact good_defaultdictNamed hs (by simpa [factoryOk] using hfac)
                · have h0 : Inv R k { (freshIr s) with ctx := Context.push s.ctx } :=
                    ⟨hs.ctx.push, fun _ => ⟨AllQ.nil, AllQ.nil, AllQ.nil⟩⟩
                  refine good_bind_eq (good_protect (hh.1 _ h0)) (fun t ht heq => ?_)
                  have hlen : t.ctx.length = s.ctx.length + 1 :=
                    visit_bal env mn _ (s.ctx.length + 1) _ (by omega)
                      (show (Context.push s.ctx).length = s.ctx.length + 1 by simp [Context.push]) t (protect_ok heq)
                  exact good_ok (hs.merge (ht.withCtx (ht.ctx.pop (by have := hs.ctx.len; omega))))
            · exact good_ok hs
  · -- the ordinary call
    refine good_getAndVerify hs hnode (fun s b fullname hs hb => ?_)
    refine good_mkCall (inv_gets' _ fullname ?_) hao hko ?_
    · split
      · split
        · exact (hs.diagL _).diag _
        · exact hs.diagL _
      · exact hs.diagL _
    · intro s c hs
      exact good_bind (hargs _ (hs.calls _)) (fun s hs => hkws s hs)

theorem getCallTarget_literal (env : Context.Env) (c : Context) (full : Str) (coc w : Bool)
    (h : literalCallee full = true) : (Context.getCallTarget env c full coc w).1 = none := by
  unfold Context.getCallTarget
  simp only []
  unfold literalCallee at h
  rw [if_pos h]

theorem exprIsClass_literal {env : Env} {c : Context} {e : Node} (h : exprIsClass env c e = .ok true) :
    oldLiteral e = false := by
  unfold exprIsClass at h
  unfold oldLiteral
  split at h
  · rename_i b full hn
    rw [hn]
    simp only []
    cases hl : literalCallee full with
    | false => rfl
    | true =>
      rw [getCallTarget_literal _ _ _ _ _ hl] at h
      simp [symIsClass] at h
  · cases h
  · cases h

/-- outcome of the assignment diversions: not a crash, invariant kept. -/
def ADone' (R : Context) (k : Bool) : AssignOut → Prop
  | .done r => Good R k r
  | .generic s => Inv R k s

def CallFacts' (R : Context) (k : Bool) (env : Env) (mn : Str) (v : Node) : Prop :=
  ∀ f args kwn kwv, v = .call f args kwn kwv →
    (args.all (oldOk true) = true ∧ kwv.all (oldOk true) = true) ∧
    (∀ s, Inv R k s → Good R k (visitList env mn args s)) ∧ (∀ s, Inv R k s → Good R k (visitList env mn kwv s))

theorem inv_classAssign {k : Bool} {s : St} (hs : Inv R k s) (cs : List CallSym) {n : NameS} (hn : k = true → QName n) :
    Inv R k { s with calls := cs, sets := addTo s.sets n } :=
  ⟨hs.ctx, fun hk => ⟨(hs.names hk).gets, AllQ.addTo (hs.names hk).sets (hn hk), (hs.names hk).dels⟩⟩

theorem assignDiv_gen_good (k : Bool) (env : Env) (mn : Str) (targets : List Node) (v : Node) (s : St)
    (hs : Inv R k s) (ha : assignOk' k targets v = true) (hc : CallFacts' R k env mn v) :
    ADone' R k (assignDiv env mn targets v s) := by
  simp only [assignOk', Bool.and_eq_true] at ha
  obtain ⟨⟨⟨hft, hcp⟩, hun⟩, hcn⟩ := ha
  cases targets with
  | nil => simp [firstTargetOk'] at hft
  | cons t tl =>
  simp only [firstTargetOk', Bool.and_eq_true] at hft
  obtain ⟨hft, hstars⟩ := hft
  rw [assignDiv.eq_def]
  simp only []
  by_cases hlam : lambdaInRhs v = true
  · rw [if_pos hlam]
    by_cases h1 : oneToOne (t :: tl) v = true
    · simp only [h1, Bool.not_true, Bool.false_eq_true, if_false]
      obtain ⟨ps, b, rfl⟩ := lam_is_lam hlam h1
      simp only []
      have hnt : nameOk false t = true := by simpa [h1, strictRhs, hlam] using hft
      exact good_liftName (nameOk_spec hnt) (fun _ _ _ =>
        good_ok ((hs.diag _).withCtx (hs.ctx.add false (addable_funcSym _ _))))
    · simp only [Bool.not_eq_true] at h1
      simp only [h1, Bool.not_false, if_true]
      exact good_fatal _ _
  · rw [if_neg hlam]
    by_cases hnt : namedtupleInRhs v = true
    · rw [if_pos hnt]
      by_cases h1 : oneToOne (t :: tl) v = true
      · simp only [h1, Bool.not_true, Bool.false_eq_true, if_false]
        obtain ⟨f, a, kn, kv, rfl⟩ := nt_is_call hnt h1
        simp only []
        have hnm : nameOk false t = true := by simpa [h1, strictRhs, hnt] using hft
        refine good_liftName (nameOk_spec hnm) (fun _ _ _ => ?_)
        split
        · exact good_ok (hs.diag _)
        · exact good_ok (hs.withCtx (hs.ctx.add false (addable_clsSym _ _)))
      · simp only [Bool.not_eq_true] at h1
        simp only [h1, Bool.not_false, if_true]
        exact good_fatal _ _
    · rw [if_neg hnt]
      cases hcl : classInRhs env s.ctx v with
      | fatal d => simp only []; exact good_fatal _ _
      | crash e => exact absurd hcl (classInRhs_nc hcp e)
      | ok b =>
        cases b with
        | false =>
          simp only []
          have := good_addIdentifiersL (t :: tl) s hs hun
          cases hr : addIdentifiersL s (t :: tl) with
          | ok s' => exact this.2 s' hr
          | fatal s' d => exact good_fatal _ _
          | crash s' e => exact absurd hr (this.1 s' e)
        | true =>
          simp only []
          by_cases h1 : oneToOne (t :: tl) v = true
          · simp only [h1, Bool.not_true, Bool.false_eq_true, if_false]
            obtain ⟨f, a, kn, kv, rfl⟩ := cls_is_call hcl h1
            simp only []
            have hcf := hc f a kn kv rfl
            have hlit : oldLiteral (.call f a kn kv) = false := exprIsClass_literal (by simpa [classInRhs] using hcl)
            have hnm : nameOk false t = true := by simpa [h1, strictRhs, hlit, isCall] using hft
            have hcall : nameOk false (.call f a kn kv) = true := by simpa [h1, hlit] using hcn
            refine good_liftName (nameOk_spec hnm) (fun lb ln hln => ?_)
            refine good_liftName (nameOk_spec hcall) (fun _ cn _ => ?_)
            refine good_mkCall (hs.diagL _) hcf.1.1 hcf.1.2 (fun s c hs => ?_)
            have hq : k = true → QName ⟨ln, lb⟩ := by
              intro hk
              refine namesOf_QName hln ?_
              simpa [starsOk, hk] using hstars
            exact good_bind (good_addIdentifiersL _ _ (inv_classAssign hs _ hq) hun) (fun s hs =>
              good_bind (hcf.2.1 s hs) (fun s hs => hcf.2.2 s hs))
          · simp only [Bool.not_eq_true] at h1
            simp only [h1, Bool.not_false, if_true]
            exact good_fatal _ _

theorem ret_call_good (env : Env) (mn : Str) (f : Node) (args : List Node) (kwn : List (Option Str)) (kwv : List Node)
    (s : St) (kont : St → Bool → Res) (hs : Inv R false s)
    (hr : retCallOk (.call f args kwn kwv) = true) (hl : callLocalOk' false f args kwn kwv = true)
    (hargs : ∀ s, Inv R false s → Good R false (visitList env mn args s))
    (hkws : ∀ s, Inv R false s → Good R false (visitList env mn kwv s))
    (hk : ∀ s h, Inv R false s → Good R false (kont s h)) :
    Good R false (visitReturnValue env mn (.call f args kwn kwv) s kont) := by
  simp only [callLocalOk', Bool.and_eq_true] at hl
  obtain ⟨⟨⟨⟨⟨⟨_, hnode⟩, _⟩, _⟩, hao⟩, hko⟩, _⟩ := hl
  rw [visitReturnValue.eq_def]
  simp only []
  split
  · exact hk _ _ hs
  · rename_i hx
    refine good_liftName (nameOk_spec hnode) (fun _ full hfull => ?_)
    split
    · exact hk _ _ hs
    · rename_i hcls
      have hstrict : nameOk false (.call f args kwn kwv) = true := by
        simp only [retCallOk, Bool.or_eq_true] at hr
        rcases hr with (hr | hr) | hr
        · exact absurd hr hx
        · exfalso
          unfold newLiteral at hr
          rw [hfull] at hr
          simp only [] at hr
          rw [getCallTarget_literal _ _ _ _ _ hr] at hcls
          simp [symIsClass] at hcls
        · exact hr
      refine good_liftName (nameOk_spec hstrict) (fun _ cn _ => ?_)
      refine good_mkCall (hs.diagL _) hao hko (fun s c hs => ?_)
      exact good_bind (hargs _ (hs.calls _)) (fun s hs => good_bind (hkws s hs) (fun s hs => hk s true hs))

theorem compound_good {k : Bool} {env : Env} {mn : Str} {v : Node} {nm : NameS} {c : ECtx} {s : St}
    (hs : Inv R k s) (hq : k = true → QName nm)
    (ih : v.isNameable = false → ∀ s, Inv R k s → Good R k (visit env mn v s)) :
    Good R k ((if (!v.isNameable) = true then visit env mn v s else Res.ok s) >>>= fun s =>
      Res.ok (updateResults s nm c)) := by
  refine good_bind (k := k) ?_ (fun s hs => good_ok (hs.updateResults c hq))
  split
  · rename_i hv
    exact ih (by simpa using hv) s hs
  · exact good_ok hs

theorem okKeys_none (rn : List (Option Str)) (v : Node) (rv : List Node) :
    okKeys (none :: rn) (v :: rv) = okKeys rn rv := by simp only [okKeys]

theorem okKeys_notkey {kw : Str} {rn : List (Option Str)} {v : Node} {rv : List Node}
    (hk : ¬ kw = "key".toList) (h : okKeys (some kw :: rn) (v :: rv) = true) : okKeys rn rv = true := by
  cases v <;> simp only [okKeys, if_neg hk] at h <;> exact h

theorem okKeys_key_lam {kw : Str} {rn : List (Option Str)} {ps : Params} {body : Node} {rv : List Node}
    (hk : kw = "key".toList) (h : okKeys (some kw :: rn) (.lam ps body :: rv) = true) :
    ps.args.length = 1 ∧ cleanId ((ps.args.head?).getD []) = true ∧ okN true body = true := by
  simp only [okKeys, if_pos hk, Bool.and_eq_true, beq_iff_eq] at h
  exact ⟨h.1.1, h.1.2, h.2⟩

mutual
theorem visit_good (env : Env) (mn : Str) : ∀ (k : Bool) (n : Node) (s : St), okN k n = true → Inv R k s →
    Good R k (visit env mn n s)
  | k, .name id c, s, _, hs => by
    rw [visit]
    refine good_getAndVerify hs (by simp [nameOk, namesOf]) (fun s b f hs hb => good_ok (hs.updateResults c ?_))
    intro _
    simp only [namesOf] at hb
    injection hb with h1 h2; subst h1; subst h2
    exact QName.refl _
  | k, .attr v a c, s, h, hs => by
    rw [visit]
    simp only [okN, Bool.and_eq_true, Bool.or_eq_true] at h
    refine good_getAndVerify hs h.1.1 (fun s b f hs hb => compound_good hs ?_ ?_)
    · intro hk; exact namesOf_QName hb (by simpa [starsOk, hk] using h.1.2)
    · intro hv s hs
      rcases h.2 with h2 | h2
      · rw [hv] at h2; cases h2
      · exact visit_good env mn k v s h2 hs
  | k, .sub v sl c, s, h, hs => by
    rw [visit]
    simp only [okN, Bool.and_eq_true, Bool.or_eq_true] at h
    refine good_getAndVerify hs h.1.1 (fun s b f hs hb => compound_good hs ?_ ?_)
    · intro hk; exact namesOf_QName hb (by simpa [starsOk, hk] using h.1.2)
    · intro hv s hs
      rcases h.2 with h2 | h2
      · rw [hv] at h2; cases h2
      · exact visit_good env mn k v s h2 hs
  | k, .starred v c, s, h, hs => by
    rw [visit]
    simp only [okN, Bool.and_eq_true, Bool.or_eq_true] at h
    refine good_getAndVerify hs h.1.1 (fun s b f hs hb => compound_good hs ?_ ?_)
    · intro hk; exact namesOf_QName hb (by simpa [starsOk, hk] using h.1.2)
    · intro hv s hs
      rcases h.2 with h2 | h2
      · rw [hv] at h2; cases h2
      · exact visit_good env mn k v s h2 hs
  | k, .lam ps body, s, h, hs => by
    rw [visit]
    simp only [okN] at h
    have h0 : Inv R k (addArguments { (St.diag s (mkDiag .error "anon-lambda")) with
        ctx := Context.push (St.diag s (mkDiag .error "anon-lambda")).ctx } ps) :=
      ⟨CtxOk.addArguments (s := { (St.diag s (mkDiag .error "anon-lambda")) with
          ctx := Context.push (St.diag s (mkDiag .error "anon-lambda")).ctx }) hs.ctx.push ps,
        fun hk => ⟨(hs.names hk).gets, (hs.names hk).sets, (hs.names hk).dels⟩⟩
    refine good_bind_eq (visit_good env mn k body _ h h0) (fun s1 hs1 heq => ?_)
    have hlen : s1.ctx.length = s.ctx.length + 1 :=
      visit_bal env mn body (s.ctx.length + 1) _ (by omega)
        (addArguments_length' _ ps (by omega) (by simp [Context.push, St.diag])) s1 heq
    exact good_ok (hs1.withCtx (hs1.ctx.pop (by have := hs.ctx.len; omega)))
  | k, .comp kd elts gens, s, h, hs => by
    rw [visit]
    simp only [okN, Bool.and_eq_true] at h
    refine good_bind_eq (visitB_good env mn k gens _ (okL_okB k gens h.1) (hs.withCtx hs.ctx.push)) (fun s1 hs1 heq1 => ?_)
    have hl1 : s1.ctx.length = s.ctx.length + 1 :=
      visitList_bal env mn gens (s.ctx.length + 1) _ (by omega) (by simp [Context.push]) s1 heq1
    refine good_bind_eq (visitB_good env mn k elts s1 (okL_okB k elts h.2) hs1) (fun s2 hs2 heq2 => ?_)
    have hl2 : s2.ctx.length = s.ctx.length + 1 :=
      visitList_bal env mn elts (s.ctx.length + 1) s1 (by omega) hl1 s2 heq2
    exact good_ok (hs2.withCtx (hs2.ctx.pop (by have := hs.ctx.len; omega)))
  | k, .gen t iter ifs, s, h, hs => by
    rw [visit]
    simp only [okN, Bool.and_eq_true] at h
    exact good_bind (good_addIdentifiers hs h.1.1.1) (fun s hs => good_bind (visit_good env mn k t s h.1.1.2 hs)
      (fun s hs => good_bind (visit_good env mn k iter s h.1.2 hs)
        (fun s hs => visitB_good env mn k ifs s (okL_okB k ifs h.2) hs)))
  | k, .strConst _, s, _, hs => by rw [visit]; exact good_ok hs
  | k, .const, s, _, hs => by rw [visit]; exact good_ok hs
  | k, .seq _ elts _, s, h, hs => by
    rw [visit]; simp only [okN] at h; exact visitB_good env mn k elts s (okL_okB k elts h) hs
  | k, .dict keys vals, s, h, hs => by
    rw [visit]; simp only [okN, Bool.and_eq_true] at h
    exact good_bind (visitB_good env mn k keys s (okL_okB k keys h.1) hs)
      (fun s hs => visitB_good env mn k vals s (okL_okB k vals h.2) hs)
  | k, .delete targets, s, h, hs => by
    simp only [okN, Bool.and_eq_true, Bool.not_eq_true'] at h
    obtain ⟨⟨hk, hu⟩, ht⟩ := h
    subst hk
    rw [visit]
    exact good_bind (visitB_good env mn false targets s (okL_okB false targets ht) hs)
      (fun s hs => good_removeIdentifiersL targets s hs hu)
  | k, .forLoop t iter body orelse, s, h, hs => by
    simp only [okN, Bool.and_eq_true, Bool.not_eq_true'] at h
    obtain ⟨⟨⟨⟨⟨hk, hu⟩, ht⟩, hi⟩, hb⟩, ho⟩ := h
    subst hk
    rw [visit]
    exact good_bind (good_addIdentifiers hs hu) (fun s hs => good_bind (visit_good env mn false t s ht hs)
      (fun s hs => good_bind (visit_good env mn false iter s hi hs) (fun s hs =>
        good_bind (visitB_good env mn false body s hb hs) (fun s hs => visitB_good env mn false orelse s ho hs))))
  | k, .withStmt items body, s, h, hs => by
    simp only [okN, Bool.and_eq_true, Bool.not_eq_true'] at h
    obtain ⟨⟨⟨hk, hw⟩, hi⟩, hb⟩ := h
    subst hk
    rw [visit]
    exact good_bind (good_withRegister items s hs hw) (fun s hs =>
      good_bind (visitB_good env mn false items s (okL_okB false items hi) hs)
        (fun s hs => visitB_good env mn false body s hb hs))
  | k, .withitem ce vars, s, h, hs => by
    simp only [okN, Bool.and_eq_true, Bool.not_eq_true'] at h
    obtain ⟨⟨hk, hc⟩, hv⟩ := h
    subst hk
    rw [visit]
    exact good_bind (visit_good env mn false ce s hc hs)
      (fun s hs => visitB_good env mn false vars s (okL_okB false vars hv) hs)
  | k, .funcDef name ps body, s, h, hs => by
    simp only [okN, Bool.and_eq_true, Bool.not_eq_true'] at h
    obtain ⟨hk, hb⟩ := h
    subst hk
    rw [visit]
    have hc1 : CtxOk R (Context.add (St.diag s (mkDiag .error "nested-function")).ctx (funcSym name ps.iface)) :=
      hs.ctx.add false (addable_funcSym _ _)
    have hne : s.ctx ≠ [] := hs.ctx.ne
    refine good_bind_eq (visitB_good env mn false body _ hb
      (inv_false (CtxOk.addArguments (s := { (St.diag s (mkDiag .error "nested-function")) with
        ctx := Context.push (Context.add (St.diag s (mkDiag .error "nested-function")).ctx (funcSym name ps.iface)) })
        hc1.push ps))) (fun s1 hs1 heq => ?_)
    have hlen : s1.ctx.length = s.ctx.length + 1 :=
      visitList_bal env mn body (s.ctx.length + 1) _ (by omega)
        (addArguments_length' _ ps (by omega)
          (by simp [Context.push, St.diag, Context.length_add _ _ _ hne])) s1 heq
    exact good_ok (hs1.withCtx (hs1.ctx.pop (by have := hs.ctx.len; omega)))
  | k, .classDef _, s, _, hs => by rw [visit]; exact good_ok (hs.diag _)
  | k, .forbidden kd, s, _, _ => by rw [visit]; exact good_fatal _ _
  | k, .other _ kids, s, h, hs => by
    rw [visit]; simp only [okN] at h; exact visitB_good env mn k kids s h hs
  | k, .ret [], s, _, hs => by rw [visit]; exact good_ok hs
  | k, .ret (v0 :: r), s, h, hs => by
    simp only [okN, Bool.and_eq_true, Bool.not_eq_true'] at h
    obtain ⟨⟨hk, hr⟩, hv⟩ := h
    subst hk
    rw [visit]
    exact visitReturnValue_good env mn v0 s _ hr hv hs
      (fun s hd hs => good_ite (good_ok hs) (visit_good env mn false v0 s hv hs))
  | k, .assign targets v, s, h, hs => by
    simp only [okN, Bool.and_eq_true, Bool.not_eq_true'] at h
    obtain ⟨⟨⟨hk, ha⟩, ht⟩, hv⟩ := h
    subst hk
    rw [visit]
    have := assignDiv_good env mn false targets v s ha hv hs
    split
    · rename_i r hr; rw [hr] at this; exact this
    · rename_i s1 hr; rw [hr] at this
      exact good_bind (visitB_good env mn false targets _ (okL_okB false targets ht) this)
        (fun s hs => visit_good env mn false v s hv hs)
  | k, .augAssign t v, s, h, hs => by
    simp only [okN, Bool.and_eq_true, Bool.not_eq_true'] at h
    obtain ⟨⟨⟨hk, ha⟩, ht⟩, hv⟩ := h
    subst hk
    rw [visit]
    have := assignDiv_good env mn false [t] v s ha hv hs
    split
    · rename_i r hr; rw [hr] at this; exact this
    · rename_i s1 hr; rw [hr] at this
      exact good_bind (visit_good env mn false t _ ht this) (fun s hs => visit_good env mn false v s hv hs)
  | k, .annAssign t ann [], s, h, hs => by
    simp only [okN, Bool.and_eq_true, Bool.not_eq_true'] at h
    obtain ⟨⟨⟨hk, hu⟩, ht⟩, han⟩ := h
    subst hk
    rw [visit]
    exact good_bind (good_addIdentifiers hs hu) (fun s hs => good_bind (visit_good env mn false t s ht hs)
      (fun s hs => visit_good env mn false ann s han hs))
  | k, .annAssign t ann (v0 :: r), s, h, hs => by
    simp only [okN, Bool.and_eq_true, Bool.not_eq_true'] at h
    obtain ⟨⟨⟨⟨hk, ha⟩, ht⟩, han⟩, hv⟩ := h
    subst hk
    rw [visit]
    have := assignDiv_good env mn false [t] v0 s ha hv hs
    split
    · rename_i r hr; rw [hr] at this; exact this
    · rename_i s1 hr; rw [hr] at this
      exact good_bind (visit_good env mn false t _ ht this) (fun s hs =>
        good_bind (visit_good env mn false ann s han hs) (fun s hs => visit_good env mn false v0 s hv hs))
  | k, .walrus t v, s, h, hs => by
    rw [visit]; simp only [okN, Bool.and_eq_true] at h
    obtain ⟨⟨⟨⟨hn, hname⟩, ha⟩, ht⟩, hv⟩ := h
    refine good_liftName (nameOk_spec hn) (fun b f hb => ?_)
    have hs1 : Inv R k { s with sets := addTo s.sets ⟨b, f⟩ } := by
      refine ⟨hs.ctx, fun hk => ⟨(hs.names hk).gets, AllQ.addTo (hs.names hk).sets ?_, (hs.names hk).dels⟩⟩
      -- key mode: the target is a plain name, so the (swapped) pair is (x, x)
      have hnm : isNameNode t = true := by simpa [hk] using hname
      cases t with
      | name id c =>
        simp only [namesOf] at hb
        injection hb with h1 h2; subst h1; subst h2
        exact QName.refl _
      | _ => simp [isNameNode] at hnm
    refine good_bind (k := k) (good_ite (visit_good env mn k v _ hv hs1) (good_ok hs1)) (fun s hs => ?_)
    have := assignDiv_good env mn k [t] v s ha hv hs
    split
    · rename_i r hr; rw [hr] at this; exact this
    · rename_i s1 hr; rw [hr] at this
      exact good_bind (visit_good env mn k t _ ht this) (fun s hs => visit_good env mn k v s hv hs)
  | k, .call f args kwn kwv, s, h, hs => by
    simp only [okN, Bool.and_eq_true] at h
    obtain ⟨⟨⟨hl, ha⟩, hkw⟩, hkeys⟩ := h
    exact call_good k env mn f args kwn kwv s hs hl
      (fun s hs => visitB_good env mn k args s (okL_okB k args ha) hs)
      (fun s hs => visitB_good env mn k kwv s (okL_okB k kwv hkw) hs)
      (headFacts_good env mn k args ha)
      (fun r t hr ht => sortedKey_good env mn r k kwn kwv t hr hkw hkeys ht)
termination_by structural _ n => n

theorem visitB_good (env : Env) (mn : Str) : ∀ (k : Bool) (l : List Node) (s : St), okB k l = true → Inv R k s →
    Good R k (visitList env mn l s)
  | k, [], s, _, hs => by rw [visitList]; exact good_ok hs
  | k, n :: r, s, h, hs => by
    rw [visitList]; simp only [okB, Bool.and_eq_true, Bool.or_eq_true] at h
    rcases h.2 with hst | hr
    · exact good_bind_stop (visit_good env mn k n s h.1 hs) (fun s' => stops_spec env mn n s s' hst)
    · exact good_bind (visit_good env mn k n s h.1 hs) (fun s hs => visitB_good env mn k r s hr hs)
termination_by structural _ l => l

theorem lamBody_good (env : Env) (mn : Str) : ∀ (k : Bool) (n : Node), okN k n = true →
    ∀ ps body, n = .lam ps body → ∀ t, Inv R k t → Good R k (visit env mn body t)
  | k, .lam ps body, h, _, _, rfl, t, ht => by
    simp only [okN] at h; exact visit_good env mn k body t h ht
  | _, .name .., _, _, _, he, _, _ | _, .attr .., _, _, _, he, _, _ | _, .sub .., _, _, _, he, _, _
  | _, .starred .., _, _, _, he, _, _ | _, .call .., _, _, _, he, _, _ | _, .comp .., _, _, _, he, _, _
  | _, .gen .., _, _, _, he, _, _ | _, .walrus .., _, _, _, he, _, _ | _, .strConst .., _, _, _, he, _, _
  | _, .const, _, _, _, he, _, _ | _, .seq .., _, _, _, he, _, _ | _, .dict .., _, _, _, he, _, _
  | _, .assign .., _, _, _, he, _, _ | _, .annAssign .., _, _, _, he, _, _ | _, .augAssign .., _, _, _, he, _, _
  | _, .delete .., _, _, _, he, _, _ | _, .forLoop .., _, _, _, he, _, _ | _, .withStmt .., _, _, _, he, _, _
  | _, .withitem .., _, _, _, he, _, _ | _, .funcDef .., _, _, _, he, _, _ | _, .classDef .., _, _, _, he, _, _
  | _, .ret .., _, _, _, he, _, _ | _, .forbidden .., _, _, _, he, _, _ | _, .other .., _, _, _, he, _, _ => by
    cases he
termination_by structural _ n => n

theorem headFacts_good (env : Env) (mn : Str) : ∀ (k : Bool) (l : List Node), okL k l = true → HeadFacts' R k env mn l
  | _, [], _ => by intro a0 tail he; cases he
  | k, a0 :: tail, h => by
    simp only [okL, Bool.and_eq_true] at h
    intro a0' tail' he
    cases he
    exact ⟨fun t ht => visit_good env mn k a0 t h.1 ht, okN_nameOk k a0 h.1, lamBody_good env mn k a0 h.1⟩
termination_by structural _ l => l

theorem sortedKey_good (env : Env) (mn : Str) (r : NameRes) : ∀ (k : Bool) (kwn : List (Option Str))
    (kwv : List Node) (t : St), (∀ e, r ≠ .crash e) → okL k kwv = true → okKeys kwn kwv = true → Inv R k t →
    Good R k (visitSortedKey env mn r kwn kwv t)
  | k, [], _, t, _, _, _, ht => by unfold visitSortedKey; exact good_ok ht
  | k, some kw :: rn, [], t, _, _, _, ht => by unfold visitSortedKey; exact good_ok ht
  | k, none :: rn, [], t, _, _, _, ht => by unfold visitSortedKey; exact good_ok ht
  | k, none :: rn, v :: rv, t, hr, hl, hk, ht => by
    unfold visitSortedKey
    simp only [okL, Bool.and_eq_true] at hl
    rw [okKeys_none] at hk
    exact sortedKey_good env mn r k rn rv t hr hl.2 hk ht
  | k, some kw :: rn, .lam ps body :: rv, t, hr, hl, hk, ht => by
    unfold visitSortedKey
    simp only [okL, Bool.and_eq_true] at hl
    split
    · rename_i hkey
      obtain ⟨hlen, hclean, hbody⟩ := okKeys_key_lam hkey hk
      simp only []
      split
      · rename_i hne
        simp [hlen] at hne
      · refine good_liftName hr (fun _ iterable _ => ?_)
        have hb := visit_good env mn true body
          { (freshIr t) with ctx := Context.add (Context.push t.ctx) (Context.nameSym ((ps.args.head?).getD [])) true }
          hbody ⟨ht.ctx.push.add true (addable_nameSym _), fun _ => ⟨AllQ.nil, AllQ.nil, AllQ.nil⟩⟩
        refine good_bind (good_protect hb) (fun l hl' => ?_)
        obtain ⟨l', hu, hq', _⟩ := unbindSt_ok (iterable := iterable) hclean (hl'.names rfl)
        rw [hu]
        exact good_ok (ht.merge ⟨ht.ctx, fun _ => ⟨hq'.gets, hq'.sets, hq'.dels⟩⟩)
    · rename_i hkey
      exact sortedKey_good env mn r k rn rv t hr hl.2 (okKeys_notkey hkey hk) ht
  | k, some kw :: rn, .name a b :: rv, t, hr, hl, hk, ht | k, some kw :: rn, .attr a b c :: rv, t, hr, hl, hk, ht
  | k, some kw :: rn, .sub a b c :: rv, t, hr, hl, hk, ht | k, some kw :: rn, .starred a b :: rv, t, hr, hl, hk, ht
  | k, some kw :: rn, .call a b c d :: rv, t, hr, hl, hk, ht | k, some kw :: rn, .comp a b c :: rv, t, hr, hl, hk, ht
  | k, some kw :: rn, .gen a b c :: rv, t, hr, hl, hk, ht | k, some kw :: rn, .walrus a b :: rv, t, hr, hl, hk, ht
  | k, some kw :: rn, .strConst a :: rv, t, hr, hl, hk, ht | k, some kw :: rn, .const :: rv, t, hr, hl, hk, ht
  | k, some kw :: rn, .seq a b c :: rv, t, hr, hl, hk, ht | k, some kw :: rn, .dict a b :: rv, t, hr, hl, hk, ht
  | k, some kw :: rn, .assign a b :: rv, t, hr, hl, hk, ht | k, some kw :: rn, .annAssign a b c :: rv, t, hr, hl, hk, ht
  | k, some kw :: rn, .augAssign a b :: rv, t, hr, hl, hk, ht | k, some kw :: rn, .delete a :: rv, t, hr, hl, hk, ht
  | k, some kw :: rn, .forLoop a b c d :: rv, t, hr, hl, hk, ht | k, some kw :: rn, .withStmt a b :: rv, t, hr, hl, hk, ht
  | k, some kw :: rn, .withitem a b :: rv, t, hr, hl, hk, ht | k, some kw :: rn, .funcDef a b c :: rv, t, hr, hl, hk, ht
  | k, some kw :: rn, .classDef a :: rv, t, hr, hl, hk, ht | k, some kw :: rn, .ret a :: rv, t, hr, hl, hk, ht
  | k, some kw :: rn, .forbidden a :: rv, t, hr, hl, hk, ht | k, some kw :: rn, .other a b :: rv, t, hr, hl, hk, ht => by
    unfold visitSortedKey
    simp only [okL, Bool.and_eq_true] at hl
    split
    · exact visit_good env mn k _ t hl.1 ht
    · rename_i hkey
      exact sortedKey_good env mn r k rn rv t hr hl.2 (okKeys_notkey hkey hk) ht
termination_by structural _ _ kwv => kwv

theorem assignDiv_good (env : Env) (mn : Str) : ∀ (k : Bool) (targets : List Node) (v : Node) (s : St),
    assignOk' k targets v = true → okN k v = true → Inv R k s → ADone' R k (assignDiv env mn targets v s)
  | k, targets, .call f args kwn kwv, s, ha, hv, hs => by
    simp only [okN, Bool.and_eq_true] at hv
    refine assignDiv_gen_good k env mn targets _ s hs ha (fun f' a' kn' kv' he => ?_)
    cases he
    obtain ⟨⟨⟨hl, hargs⟩, hkw⟩, _⟩ := hv
    simp only [callLocalOk', Bool.and_eq_true] at hl
    exact ⟨⟨hl.1.1.2, hl.1.2⟩, fun s hs => visitB_good env mn k args s (okL_okB k args hargs) hs,
      fun s hs => visitB_good env mn k kwv s (okL_okB k kwv hkw) hs⟩
  | k, targets, .name a b, s, ha, _, hs => assignDiv_gen_good k env mn targets _ s hs ha (by intro _ _ _ _ he; cases he)
  | k, targets, .attr .., s, ha, _, hs => assignDiv_gen_good k env mn targets _ s hs ha (by intro _ _ _ _ he; cases he)
  | k, targets, .sub .., s, ha, _, hs => assignDiv_gen_good k env mn targets _ s hs ha (by intro _ _ _ _ he; cases he)
  | k, targets, .starred .., s, ha, _, hs => assignDiv_gen_good k env mn targets _ s hs ha (by intro _ _ _ _ he; cases he)
  | k, targets, .lam .., s, ha, _, hs => assignDiv_gen_good k env mn targets _ s hs ha (by intro _ _ _ _ he; cases he)
  | k, targets, .comp .., s, ha, _, hs => assignDiv_gen_good k env mn targets _ s hs ha (by intro _ _ _ _ he; cases he)
  | k, targets, .gen .., s, ha, _, hs => assignDiv_gen_good k env mn targets _ s hs ha (by intro _ _ _ _ he; cases he)
  | k, targets, .walrus .., s, ha, _, hs => assignDiv_gen_good k env mn targets _ s hs ha (by intro _ _ _ _ he; cases he)
  | k, targets, .strConst .., s, ha, _, hs => assignDiv_gen_good k env mn targets _ s hs ha (by intro _ _ _ _ he; cases he)
  | k, targets, .const, s, ha, _, hs => assignDiv_gen_good k env mn targets _ s hs ha (by intro _ _ _ _ he; cases he)
  | k, targets, .seq .., s, ha, _, hs => assignDiv_gen_good k env mn targets _ s hs ha (by intro _ _ _ _ he; cases he)
  | k, targets, .dict .., s, ha, _, hs => assignDiv_gen_good k env mn targets _ s hs ha (by intro _ _ _ _ he; cases he)
  | k, targets, .assign .., s, ha, _, hs => assignDiv_gen_good k env mn targets _ s hs ha (by intro _ _ _ _ he; cases he)
  | k, targets, .annAssign .., s, ha, _, hs => assignDiv_gen_good k env mn targets _ s hs ha (by intro _ _ _ _ he; cases he)
  | k, targets, .augAssign .., s, ha, _, hs => assignDiv_gen_good k env mn targets _ s hs ha (by intro _ _ _ _ he; cases he)
  | k, targets, .delete .., s, ha, _, hs => assignDiv_gen_good k env mn targets _ s hs ha (by intro _ _ _ _ he; cases he)
  | k, targets, .forLoop .., s, ha, _, hs => assignDiv_gen_good k env mn targets _ s hs ha (by intro _ _ _ _ he; cases he)
  | k, targets, .withStmt .., s, ha, _, hs => assignDiv_gen_good k env mn targets _ s hs ha (by intro _ _ _ _ he; cases he)
  | k, targets, .withitem .., s, ha, _, hs => assignDiv_gen_good k env mn targets _ s hs ha (by intro _ _ _ _ he; cases he)
  | k, targets, .funcDef .., s, ha, _, hs => assignDiv_gen_good k env mn targets _ s hs ha (by intro _ _ _ _ he; cases he)
  | k, targets, .classDef .., s, ha, _, hs => assignDiv_gen_good k env mn targets _ s hs ha (by intro _ _ _ _ he; cases he)
  | k, targets, .ret .., s, ha, _, hs => assignDiv_gen_good k env mn targets _ s hs ha (by intro _ _ _ _ he; cases he)
  | k, targets, .forbidden .., s, ha, _, hs => assignDiv_gen_good k env mn targets _ s hs ha (by intro _ _ _ _ he; cases he)
  | k, targets, .other .., s, ha, _, hs => assignDiv_gen_good k env mn targets _ s hs ha (by intro _ _ _ _ he; cases he)
termination_by structural _ _ v => v

theorem visitReturnValue_good (env : Env) (mn : Str) : ∀ (n : Node) (s : St) (kont : St → Bool → Res),
    okRet' n = true → okN false n = true → Inv R false s → (∀ s h, Inv R false s → Good R false (kont s h)) →
    Good R false (visitReturnValue env mn n s kont)
  | .seq _ elts _, s, kont, hr, _, hs, hk => by
    rw [visitReturnValue]; simp only [okRet'] at hr
    exact good_bind (visitReturnElts_good env mn elts s hr hs) (fun s hs => hk s true hs)
  | .dict keys vals, s, kont, hr, _, hs, hk => by
    rw [visitReturnValue]; simp only [okRet', Bool.and_eq_true] at hr
    exact good_bind (visitReturnElts_good env mn keys s hr.1 hs) (fun s hs =>
      good_bind (visitReturnElts_good env mn vals s hr.2 hs) (fun s hs => hk s true hs))
  | .call f args kwn kwv, s, kont, hr, hn, hs, hk => by
    simp only [okN, Bool.and_eq_true] at hn
    simp only [okRet'] at hr
    exact ret_call_good env mn f args kwn kwv s kont hs hr hn.1.1.1
      (fun s hs => visitB_good env mn false args s (okL_okB false args hn.1.1.2) hs)
      (fun s hs => visitB_good env mn false kwv s (okL_okB false kwv hn.1.2) hs) hk
  | .name .., s, kont, _, _, hs, hk | .attr .., s, kont, _, _, hs, hk | .sub .., s, kont, _, _, hs, hk
  | .starred .., s, kont, _, _, hs, hk | .lam .., s, kont, _, _, hs, hk | .comp .., s, kont, _, _, hs, hk
  | .gen .., s, kont, _, _, hs, hk | .walrus .., s, kont, _, _, hs, hk | .strConst .., s, kont, _, _, hs, hk
  | .const, s, kont, _, _, hs, hk | .assign .., s, kont, _, _, hs, hk | .annAssign .., s, kont, _, _, hs, hk
  | .augAssign .., s, kont, _, _, hs, hk | .delete .., s, kont, _, _, hs, hk | .forLoop .., s, kont, _, _, hs, hk
  | .withStmt .., s, kont, _, _, hs, hk | .withitem .., s, kont, _, _, hs, hk | .funcDef .., s, kont, _, _, hs, hk
  | .classDef .., s, kont, _, _, hs, hk | .ret .., s, kont, _, _, hs, hk | .forbidden .., s, kont, _, _, hs, hk
  | .other .., s, kont, _, _, hs, hk => by
    unfold visitReturnValue; exact hk s false hs
termination_by structural n => n

theorem visitReturnElts_good (env : Env) (mn : Str) : ∀ (l : List Node) (s : St),
    okRetL' l = true → Inv R false s → Good R false (visitReturnElts env mn l s)
  | [], s, _, hs => by rw [visitReturnElts]; exact good_ok hs
  | e :: r, s, h, hs => by
    rw [visitReturnElts]; simp only [okRetL', Bool.and_eq_true] at h
    exact good_bind (visitReturnValue_good env mn e s _ h.1.1 h.1.2 hs
      (fun s hd hs => good_ite (good_ok hs) (visit_good env mn false e s h.1.2 hs)))
      (fun s hs => visitReturnElts_good env mn r s h.2 hs)
termination_by structural l => l

end

/-- the whole analysis of one function in a sane context `root`: no unhandled exception, and a normal end
hands the context back exactly as it was. -/
theorem analyse_spec (env : Env) (mn : Str) (root : Context) (ps : Params) (body : List Node)
    (h : NoCrashShapeFn body = true) (hroot : SaneCtx root = true) :
    NC (FnA.analyse env mn root ps body) ∧
    ∀ s', FnA.analyse env mn root ps body = .ok s' → s'.ctx = root := by
  unfold FnA.analyse
  simp only []
  have h0 : Inv root false (addArguments { ctx := Context.push root } ps) :=
    inv_false (CtxOk.addArguments (s := { ctx := Context.push root }) (CtxOk.enter hroot) ps)
  have hg := visitB_good (R := root) env mn false body _ h h0
  have hb := visitList_bal env mn body (root.length + 1) (addArguments { ctx := Context.push root } ps) (by omega)
    (addArguments_length' _ ps (by omega) (by simp [Context.push]))
  cases hr : visitList env mn body (addArguments { ctx := Context.push root } ps) with
  | ok s1 =>
    refine ⟨nc_ok _, fun s' he => ?_⟩
    simp only [FnA.bind] at he
    injection he with he
    subst he
    exact (hg.2 s1 hr).ctx.exit (hb s1 hr)
  | fatal s1 d => exact ⟨nc_fatal _ _, fun s' he => by simp [FnA.bind] at he⟩
  | crash s1 e => exact absurd hr (hg.1 s1 e)

/-! ### the wider predicate accepts everything the round-1 predicate accepted -/

theorem callLocal_widen {f : Node} {args : List Node} {kwn : List (Option Str)} {kwv : List Node}
    (h : callLocalOk f args kwn kwv = true) : callLocalOk' false f args kwn kwv = true := by
  simp only [callLocalOk, Bool.and_eq_true] at h
  obtain ⟨⟨⟨⟨⟨⟨hf, hn⟩, hx⟩, _⟩, hfac⟩, ha⟩, hk⟩ := h
  simp only [callLocalOk', Bool.and_eq_true, Bool.or_eq_true, Bool.not_eq_true', Bool.not_false, Bool.true_and, starsOk,
    Bool.true_or]
  exact ⟨⟨⟨⟨⟨⟨hf, hn⟩, Or.inr hx⟩, hfac⟩, ha⟩, hk⟩, trivial⟩

theorem assign_widen {targets : List Node} {v : Node} (h : assignOk targets v = true) : assignOk' false targets v = true := by
  simp only [assignOk, Bool.and_eq_true] at h
  obtain ⟨⟨⟨hft, hcp⟩, hun⟩, hcn⟩ := h
  simp only [assignOk', Bool.and_eq_true]
  refine ⟨⟨⟨?_, hcp⟩, hun⟩, ?_⟩
  · cases targets with
    | nil => simp [firstTargetOk] at hft
    | cons t tl =>
      simp only [firstTargetOk, Bool.or_eq_true, Bool.not_eq_true'] at hft
      simp only [firstTargetOk', starsOk, Bool.not_false, Bool.true_or, Bool.and_true, Bool.or_eq_true, Bool.not_eq_true']
      rcases hft with h1 | h1
      · exact Or.inl (Or.inl h1)
      · exact Or.inr h1
  · cases v with
    | call f a kn kv =>
      simp only [Bool.or_eq_true, Bool.not_eq_true'] at hcn ⊢
      rcases hcn with h1 | h1
      · exact Or.inl (Or.inl h1)
      · exact Or.inr h1
    | _ => rfl

theorem keys_widen : ∀ (kwn : List (Option Str)) (kwv : List Node), noKeyLambda kwn kwv = true → okKeys kwn kwv = true
  | [], _, _ => by simp [okKeys]
  | some k :: rn, [], _ => by simp [okKeys]
  | none :: rn, [], _ => by simp [okKeys]
  | none :: rn, v :: rv, h => by
    simp only [noKeyLambda] at h
    rw [okKeys_none]; exact keys_widen rn rv h
  | some k :: rn, v :: rv, h => by
    have h' := noKeyLambda_cons h
    by_cases hk : k = "key".toList
    · have hv := h'.1 hk
      cases v <;> simp only [okKeys, hk, if_true] <;> simp [isLambda] at hv
    · cases v <;> simp only [okKeys, hk, if_false] <;> exact keys_widen rn rv h'.2

mutual
theorem okN_widen : ∀ (n : Node), okNode n = true → okN false n = true
  | .name _ _, _ => by simp [okN]
  | .attr v a c, h => by
    simp only [okNode, Bool.and_eq_true, Bool.or_eq_true] at h
    simp only [okN, starsOk, Bool.not_false, Bool.true_or, Bool.and_true, Bool.and_eq_true, Bool.or_eq_true]
    exact ⟨h.1, h.2.imp id (okN_widen v)⟩
  | .sub v sl c, h => by
    simp only [okNode, Bool.and_eq_true, Bool.or_eq_true] at h
    simp only [okN, starsOk, Bool.not_false, Bool.true_or, Bool.and_true, Bool.and_eq_true, Bool.or_eq_true]
    exact ⟨h.1, h.2.imp id (okN_widen v)⟩
  | .starred v c, h => by
    simp only [okNode, Bool.and_eq_true, Bool.or_eq_true] at h
    simp only [okN, starsOk, Bool.not_false, Bool.true_or, Bool.and_true, Bool.and_eq_true, Bool.or_eq_true]
    exact ⟨h.1, h.2.imp id (okN_widen v)⟩
  | .call f args kwn kwv, h => by
    simp only [okNode, Bool.and_eq_true] at h
    simp only [okN, Bool.and_eq_true]
    have hkl : noKeyLambda kwn kwv = true := by
      have := h.1.1; simp only [callLocalOk, Bool.and_eq_true] at this; exact this.1.1.1.2
    exact ⟨⟨⟨callLocal_widen h.1.1, okL_widen args h.1.2⟩, okL_widen kwv h.2⟩, keys_widen kwn kwv hkl⟩
  | .lam _ body, h => by simp only [okNode] at h; simp only [okN]; exact okN_widen body h
  | .comp _ elts gens, h => by
    simp only [okNode, Bool.and_eq_true] at h; simp only [okN, Bool.and_eq_true]
    exact ⟨okL_widen gens h.1, okL_widen elts h.2⟩
  | .gen t iter ifs, h => by
    simp only [okNode, Bool.and_eq_true] at h; simp only [okN, Bool.and_eq_true]
    exact ⟨⟨⟨h.1.1.1, okN_widen t h.1.1.2⟩, okN_widen iter h.1.2⟩, okL_widen ifs h.2⟩
  | .walrus t v, h => by
    simp only [okNode, Bool.and_eq_true] at h
    simp only [okN, Bool.and_eq_true, Bool.not_false, Bool.true_or, Bool.and_true]
    exact ⟨⟨⟨h.1.1.1, assign_widen h.1.1.2⟩, okN_widen t h.1.2⟩, okN_widen v h.2⟩
  | .strConst _, _ => by simp [okN]
  | .const, _ => by simp [okN]
  | .seq _ elts _, h => by simp only [okNode] at h; simp only [okN]; exact okL_widen elts h
  | .dict keys vals, h => by
    simp only [okNode, Bool.and_eq_true] at h; simp only [okN, Bool.and_eq_true]
    exact ⟨okL_widen keys h.1, okL_widen vals h.2⟩
  | .assign targets v, h => by
    simp only [okNode, Bool.and_eq_true] at h
    simp only [okN, Bool.and_eq_true, Bool.not_false, Bool.true_and]
    exact ⟨⟨assign_widen h.1.1, okL_widen targets h.1.2⟩, okN_widen v h.2⟩
  | .annAssign t ann [], h => by
    simp only [okNode, Bool.and_eq_true] at h
    simp only [okN, Bool.and_eq_true, Bool.not_false, Bool.true_and]
    exact ⟨⟨h.1.1, okN_widen t h.1.2⟩, okN_widen ann h.2⟩
  | .annAssign t ann (v0 :: _), h => by
    simp only [okNode, Bool.and_eq_true] at h
    simp only [okN, Bool.and_eq_true, Bool.not_false, Bool.true_and]
    exact ⟨⟨⟨assign_widen h.1.1.1, okN_widen t h.1.1.2⟩, okN_widen ann h.1.2⟩, okN_widen v0 h.2⟩
  | .augAssign t v, h => by
    simp only [okNode, Bool.and_eq_true] at h
    simp only [okN, Bool.and_eq_true, Bool.not_false, Bool.true_and]
    exact ⟨⟨assign_widen h.1.1, okN_widen t h.1.2⟩, okN_widen v h.2⟩
  | .delete targets, h => by
    simp only [okNode, Bool.and_eq_true] at h
    simp only [okN, Bool.and_eq_true, Bool.not_false, Bool.true_and]
    exact ⟨h.1, okL_widen targets h.2⟩
  | .forLoop t iter body orelse, h => by
    simp only [okNode, Bool.and_eq_true] at h
    simp only [okN, Bool.and_eq_true, Bool.not_false, Bool.true_and]
    exact ⟨⟨⟨⟨h.1.1.1.1, okN_widen t h.1.1.1.2⟩, okN_widen iter h.1.1.2⟩, okL_okB false body (okL_widen body h.1.2)⟩,
      okL_okB false orelse (okL_widen orelse h.2)⟩
  | .withStmt items body, h => by
    simp only [okNode, Bool.and_eq_true] at h
    simp only [okN, Bool.and_eq_true, Bool.not_false, Bool.true_and]
    exact ⟨⟨h.1.1, okL_widen items h.1.2⟩, okL_okB false body (okL_widen body h.2)⟩
  | .withitem ce vars, h => by
    simp only [okNode, Bool.and_eq_true] at h
    simp only [okN, Bool.and_eq_true, Bool.not_false, Bool.true_and]
    exact ⟨okN_widen ce h.1, okL_widen vars h.2⟩
  | .funcDef _ _ body, h => by
    simp only [okNode] at h
    simp only [okN, Bool.not_false, Bool.true_and]
    exact okL_okB false body (okL_widen body h)
  | .classDef _, _ => by simp [okN]
  | .ret [], _ => by simp [okN]
  | .ret (v0 :: _), h => by
    simp only [okNode, Bool.and_eq_true] at h
    simp only [okN, Bool.and_eq_true, Bool.not_false, Bool.true_and]
    exact ⟨okRet_widen v0 h.1, okN_widen v0 h.2⟩
  | .forbidden _, _ => by simp [okN]
  | .other _ kids, h => by
    simp only [okNode] at h; simp only [okN]; exact okL_okB false kids (okL_widen kids h)
theorem okL_widen : ∀ (l : List Node), okList l = true → okL false l = true
  | [], _ => by simp [okL]
  | n :: r, h => by
    simp only [okList, Bool.and_eq_true] at h; simp only [okL, Bool.and_eq_true]
    exact ⟨okN_widen n h.1, okL_widen r h.2⟩
theorem okRet_widen : ∀ (n : Node), okRet n = true → okRet' n = true
  | .seq _ elts _, h => by simp only [okRet] at h; simp only [okRet']; exact okRetL_widen elts h
  | .dict keys vals, h => by
    simp only [okRet, Bool.and_eq_true] at h; simp only [okRet', Bool.and_eq_true]
    exact ⟨okRetL_widen keys h.1, okRetL_widen vals h.2⟩
  | .call f args kwn kwv, h => by
    simp only [okRet] at h; simp only [okRet', retCallOk, Bool.or_eq_true]; exact Or.inr h
  | .name .., _ | .attr .., _ | .sub .., _ | .starred .., _ | .lam .., _ | .comp .., _ | .gen .., _ | .walrus .., _
  | .strConst .., _ | .const, _ | .assign .., _ | .annAssign .., _ | .augAssign .., _ | .delete .., _ | .forLoop .., _
  | .withStmt .., _ | .withitem .., _ | .funcDef .., _ | .classDef .., _ | .ret .., _ | .forbidden .., _ | .other .., _ => by
    simp [okRet']
theorem okRetL_widen : ∀ (l : List Node), okRetList l = true → okRetL' l = true
  | [], _ => by simp [okRetL']
  | e :: r, h => by
    simp only [okRetList, Bool.and_eq_true] at h; simp only [okRetL', Bool.and_eq_true]
    exact ⟨⟨okRet_widen e h.1.1, okN_widen e h.1.2⟩, okRetL_widen r h.2⟩
end

theorem shape_widened (body : List Node) (h : NoCrashShapeFnAnyCtx body = true) : NoCrashShapeFn body = true :=
  okL_okB false body (okL_widen body h)

end Rattr.C07

/-
  Lemmas about the regex fragment of `RattrModel.Blacklist` (used by Props/C06).
-/
import RattrModel.Blacklist

namespace Rattr.Blacklist

theorem lits_cons (c : Char) (p : Str) : lits (c :: p) = ⟨.lit c, .one⟩ :: lits p := rfl

theorem fullMatch_nil (s : Str) : fullMatch [] s = s.isEmpty := by
  unfold fullMatch; rfl

theorem fullMatch_one (cp : CharPat) (r : Pattern) (s : Str) :
    fullMatch (⟨cp, .one⟩ :: r) s =
      (match s with
       | [] => false
       | c :: s' => cp.ok c && fullMatch r s') := by
  cases s <;> simp [fullMatch]

theorem fullMatch_opt (cp : CharPat) (r : Pattern) (s : Str) :
    fullMatch (⟨cp, .opt⟩ :: r) s = (fullMatch r s || fullMatch (⟨cp, .one⟩ :: r) s) := by
  cases s <;> simp [fullMatch]

theorem fullMatch_star (cp : CharPat) (r : Pattern) (s : Str) :
    fullMatch (⟨cp, .star⟩ :: r) s = starLoop cp.ok (fullMatch r) s := by
  simp [fullMatch]

/-- a literal prefix of a pattern consumes exactly that prefix of the subject -/
theorem fullMatch_lits_append (a : Str) (r : Pattern) : ∀ s : Str,
    fullMatch (lits a ++ r) s = (a.isPrefixOf s && fullMatch r (s.drop a.length)) := by
  induction a with
  | nil => intro s; simp [lits]
  | cons c a ih =>
    intro s
    rw [lits_cons, List.cons_append, fullMatch_one]
    cases s with
    | nil => simp [List.isPrefixOf]
    | cons d s' =>
      simp only [CharPat.ok, List.isPrefixOf, List.length_cons, List.drop_succ_cons]
      rw [ih s', Bool.and_assoc]

/-- a literal pattern matches exactly itself -/
theorem fullMatch_lits (p s : Str) : fullMatch (lits p) s = true ↔ s = p := by
  have h := fullMatch_lits_append p [] s
  rw [List.append_nil] at h
  rw [h, fullMatch_nil]
  constructor
  · intro hh
    simp only [Bool.and_eq_true, List.isEmpty_iff] at hh
    obtain ⟨h1, h2⟩ := hh
    have hp := List.isPrefixOf_iff_prefix.mp h1
    obtain ⟨t, rfl⟩ := hp
    simp at h2
    simp [h2]
  · rintro rfl
    simp

/-- `.*` at the end accepts any newline-free rest -/
theorem fullMatch_dotstar (s : Str) : fullMatch [⟨.any, .star⟩] s = s.all (· != '\n') := by
  rw [fullMatch_star]
  induction s with
  | nil => simp [starLoop, fullMatch_nil]
  | cons c s ih =>
    rw [starLoop, ih, fullMatch_nil]
    simp [CharPat.ok]

/-- whatever `x*` consumes, the continuation runs on a suffix of the subject -/
theorem starLoop_sound (ok : Char → Bool) (k : Str → Bool) : ∀ s : Str,
    starLoop ok k s = true → ∃ t, t <:+ s ∧ k t = true := by
  intro s
  induction s with
  | nil => intro h; exact ⟨[], List.suffix_refl _, by simpa [starLoop] using h⟩
  | cons c s ih =>
    intro h
    rw [starLoop] at h
    rcases Bool.or_eq_true _ _ |>.mp h with h | h
    · exact ⟨c :: s, List.suffix_refl _, h⟩
    · obtain ⟨t, ht, hk⟩ := ih (by simp only [Bool.and_eq_true] at h; exact h.2)
      exact ⟨t, ht.trans (List.suffix_cons c s), hk⟩

/-- a mandatory literal character of the pattern occurs in every matched subject -/
theorem fullMatch_required (c : Char) : ∀ (p : Pattern) (s : Str),
    fullMatch p s = true → (⟨.lit c, .one⟩ : Atom) ∈ p → c ∈ s := by
  intro p
  induction p with
  | nil => intro s _ hm; simp at hm
  | cons a r ih =>
    intro s h hm
    obtain ⟨cp, q⟩ := a
    have hr : ∀ t, fullMatch r t = true → (⟨.lit c, .one⟩ : Atom) ∈ r → c ∈ t := ih
    cases q with
    | one =>
      rw [fullMatch_one] at h
      cases s with
      | nil => simp at h
      | cons d s' =>
        simp only [Bool.and_eq_true] at h
        rcases List.mem_cons.mp hm with e | hm'
        · injection e with e1 _
          subst e1
          have : c = d := by simpa [CharPat.ok] using h.1
          simp [this]
        · exact List.mem_cons_of_mem _ (hr s' h.2 hm')
    | opt =>
      have hm' : (⟨.lit c, .one⟩ : Atom) ∈ r := by
        rcases List.mem_cons.mp hm with e | hm'
        · injection e with _ e2; cases e2
        · exact hm'
      rw [fullMatch_opt, fullMatch_one] at h
      rcases Bool.or_eq_true _ _ |>.mp h with h | h
      · exact hr s h hm'
      · cases s with
        | nil => simp at h
        | cons d s' =>
          simp only [Bool.and_eq_true] at h
          exact List.mem_cons_of_mem _ (hr s' h.2 hm')
    | star =>
      have hm' : (⟨.lit c, .one⟩ : Atom) ∈ r := by
        rcases List.mem_cons.mp hm with e | hm'
        · injection e with _ e2; cases e2
        · exact hm'
      rw [fullMatch_star] at h
      obtain ⟨t, ht, hk⟩ := starLoop_sound _ _ s h
      exact ht.subset (hr t hk hm')

theorem matchesAny_append (a b : List Pattern) (s : Str) :
    matchesAny (a ++ b) s = (matchesAny a s || matchesAny b s) := by
  simp [matchesAny, List.any_append]

theorem matchesAny_lits (pats : List Str) (s : Str) : matchesAny (pats.map lits) s = true ↔ s ∈ pats := by
  simp only [matchesAny, List.any_map, List.any_eq_true, Function.comp]
  constructor
  · rintro ⟨p, hp, h⟩
    rw [fullMatch_lits] at h
    exact h ▸ hp
  · intro h
    exact ⟨s, h, (fullMatch_lits s s).mpr rfl⟩

/-- not blacklisted: a non-empty name that no pattern matches in full, none of whose origins is matched -/
theorem isInImportBlacklist_false_of (ps : List Pattern) (name : Str) (f : NameFacts)
    (hne : name ≠ []) (hn : matchesAny ps name = false)
    (ho : ∀ o, some o ∈ f.origins → matchesAny ps o = false) :
    isInImportBlacklist ps name f = false := by
  unfold isInImportBlacklist
  simp only [hne, if_false]
  split
  · rfl
  · rw [List.any_eq_false]
    intro o hmem
    rcases List.mem_append.mp hmem with h | h
    · cases o with
      | none => simp
      | some x => simp [ho x h]
    · simp only [List.mem_singleton] at h
      subst h
      simp [hn]

/-- blacklisted: a non-stdlib name that some pattern matches in full -/
theorem isInImportBlacklist_true_of_name (ps : List Pattern) (name : Str) (f : NameFacts)
    (hs : f.inStdlib = false) (hn : matchesAny ps name = true) :
    isInImportBlacklist ps name f = true := by
  unfold isInImportBlacklist
  split
  · rfl
  · simp only [hs, Bool.false_eq_true, if_false]
    rw [List.any_eq_true]
    exact ⟨some name, by simp, by simpa using hn⟩

theorem mem_ignoredOf (ps : List Pattern) (facts : Str → NameFacts) (existing : List Str) (m : Str) :
    m ∈ ignoredOf ps facts existing ↔ m ∈ existing ∧ isInImportBlacklist ps m (facts m) = true := by
  simp [ignoredOf, List.mem_filter]

end Rattr.Blacklist

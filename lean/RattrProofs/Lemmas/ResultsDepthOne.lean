/-
  The "depth one" fragment of result generation (C03 / C05 / C14): every resolvable callee is a
  leaf (has no resolvable call itself). In this fragment the pinned code is right, for programs of
  any size; this file characterises the call tree, the fold and `generate` exactly.
-/
import RattrProofs.Lemmas.Results
import RattrProofs.Lemmas.ResultsCex

namespace Rattr.Results

/-- every resolvable callee is a leaf. -/
def DepthOne (P : Prog) : Prop :=
  ∀ f c g, c ∈ (fnAt P f).calls → P.resolve c.cid = some g →
    ∀ c' ∈ (fnAt P g).calls, P.resolve c'.cid = none

/-- `g` has no resolvable call. -/
def IsLeaf (P : Prog) (g : Key) : Prop := ∀ c ∈ (fnAt P g).calls, P.resolve c.cid = none

/-- `g` is the target of some resolvable call. -/
def IsCallee (P : Prog) (g : Key) : Prop :=
  ∃ f c, c ∈ (fnAt P f).calls ∧ P.resolve c.cid = some g

theorem DepthOne.callee_leaf {P : Prog} (h : DepthOne P) {g : Key} (hg : IsCallee P g) :
    IsLeaf P g := by
  obtain ⟨f, c, hc, hr⟩ := hg
  exact h f c g hc hr

/-- In a depth-one program a caller (a function with a resolvable call) is never a callee. -/
theorem DepthOne.caller_not_callee {P : Prog} (h : DepthOne P) {f : Key} {c : CallRec} {g : Key}
    (hc : c ∈ (fnAt P f).calls) (hr : P.resolve c.cid = some g) : ¬ IsCallee P f := by
  intro hf
  have := h.callee_leaf hf c hc
  rw [hr] at this
  cases this

/-! ### `expand` as an explicit fold -/

/-- the children `expand` creates for node `i` from the out-edges `cs`, given the cids already
seen: one per resolvable call whose cid is neither seen nor met earlier in `cs`. -/
def kids (P : Prog) (i : Nat) : List CallRec → List Nat → List Node
  | [], _ => []
  | c :: r, seen =>
    if seen.contains c.cid then kids P i r seen
    else match P.resolve c.cid with
      | none => kids P i r seen
      | some g => { key := g, edgeIn := some c, parent := some i } :: kids P i r (c.cid :: seen)

/-- the `seen` list after `expand`. -/
def seenAfter (P : Prog) : List CallRec → List Nat → List Nat
  | [], seen => seen
  | c :: r, seen =>
    if seen.contains c.cid then seenAfter P r seen
    else match P.resolve c.cid with
      | none => seenAfter P r seen
      | some _ => seenAfter P r (c.cid :: seen)

theorem expand_eq (P : Prog) (i : Nat) (cs : List CallRec) (st : BfsState) :
    expand P i cs st =
      { nodes := st.nodes ++ kids P i cs st.seen, seen := seenAfter P cs st.seen } := by
  induction cs generalizing st with
  | nil => simp [expand, kids, seenAfter]
  | cons c r ih =>
    simp only [expand, kids, seenAfter]
    split
    · exact ih st
    · cases hr : P.resolve c.cid with
      | none => simp only; exact ih st
      | some g => simp only; rw [ih]; simp

theorem expand_leaf (P : Prog) (i : Nat) (cs : List CallRec) (st : BfsState)
    (h : ∀ c ∈ cs, P.resolve c.cid = none) : expand P i cs st = st := by
  induction cs generalizing st with
  | nil => rfl
  | cons c r ih =>
    have hr : ∀ c ∈ r, P.resolve c.cid = none := fun c hc => h c (List.mem_cons_of_mem _ hc)
    simp only [expand]
    split
    · exact ih st hr
    · rw [h c List.mem_cons_self]; exact ih st hr

/-- exact description of the children: `n` is a child iff it comes from a resolvable call `c` of
the list whose cid was not seen before and does not occur earlier in the list
(first occurrence wins). -/
theorem mem_kids_iff (P : Prog) (i : Nat) (cs : List CallRec) (seen : List Nat) (n : Node) :
    n ∈ kids P i cs seen ↔
      ∃ pre c post g, cs = pre ++ c :: post ∧ (∀ c' ∈ pre, c'.cid ≠ c.cid) ∧ c.cid ∉ seen ∧
        P.resolve c.cid = some g ∧ n = { key := g, edgeIn := some c, parent := some i } := by
  induction cs generalizing seen with
  | nil => simp [kids]
  | cons c0 r ih =>
    simp only [kids]
    constructor
    · intro hn
      by_cases hs : seen.contains c0.cid = true
      · simp only [hs, if_true] at hn
        obtain ⟨pre, c, post, g, hcs, hpre, hseen, hres, hn⟩ := (ih seen).mp hn
        refine ⟨c0 :: pre, c, post, g, by simp [hcs], ?_, hseen, hres, hn⟩
        intro c' hc'
        rcases List.mem_cons.mp hc' with h | h
        · subst h
          intro heq
          apply hseen
          rw [← heq]
          simpa using hs
        · exact hpre c' h
      · simp only [hs] at hn
        cases hr : P.resolve c0.cid with
        | none =>
          simp only [hr] at hn
          obtain ⟨pre, c, post, g, hcs, hpre, hseen, hres, hn⟩ := (ih seen).mp hn
          refine ⟨c0 :: pre, c, post, g, by simp [hcs], ?_, hseen, hres, hn⟩
          intro c' hc'
          rcases List.mem_cons.mp hc' with h | h
          · subst h
            intro heq
            rw [heq, hres] at hr
            cases hr
          · exact hpre c' h
        | some g0 =>
          simp only [hr] at hn
          rcases List.mem_cons.mp hn with hn | hn
          · refine ⟨[], c0, r, g0, by simp, by simp, ?_, hr, hn⟩
            intro hm
            apply hs
            simpa using hm
          · obtain ⟨pre, c, post, g, hcs, hpre, hseen, hres, hn⟩ := (ih (c0.cid :: seen)).mp hn
            refine ⟨c0 :: pre, c, post, g, by simp [hcs], ?_, ?_, hres, hn⟩
            · intro c' hc'
              rcases List.mem_cons.mp hc' with h | h
              · subst h
                intro heq
                apply hseen
                rw [heq]
                exact List.mem_cons_self
              · exact hpre c' h
            · intro hm
              exact hseen (List.mem_cons_of_mem _ hm)
    · rintro ⟨pre, c, post, g, hcs, hpre, hseen, hres, hn⟩
      cases pre with
      | nil =>
        simp only [List.nil_append, List.cons.injEq] at hcs
        obtain ⟨h1, h2⟩ := hcs
        subst h1
        have hs : ¬ seen.contains c0.cid = true := by simpa using hseen
        simp only [hs, hres]
        rw [hn]
        exact List.mem_cons_self
      | cons p pre' =>
        simp only [List.cons_append, List.cons.injEq] at hcs
        obtain ⟨h1, h2⟩ := hcs
        subst h1
        have hne : c0.cid ≠ c.cid := hpre c0 List.mem_cons_self
        have hpre' : ∀ c' ∈ pre', c'.cid ≠ c.cid := fun c' hc' => hpre c' (List.mem_cons_of_mem _ hc')
        by_cases hs : seen.contains c0.cid = true
        · simp only [hs, if_true]
          exact (ih seen).mpr ⟨pre', c, post, g, h2, hpre', hseen, hres, hn⟩
        · simp only [hs]
          cases hr : P.resolve c0.cid with
          | none =>
            simp only
            exact (ih seen).mpr ⟨pre', c, post, g, h2, hpre', hseen, hres, hn⟩
          | some g0 =>
            simp only
            apply List.mem_cons_of_mem
            refine (ih _).mpr ⟨pre', c, post, g, h2, hpre', ?_, hres, hn⟩
            intro hm
            rcases List.mem_cons.mp hm with h | h
            · exact hne h.symm
            · exact hseen h

/-- what the fold needs about a child. -/
theorem kids_spec {P : Prog} {i : Nat} {cs : List CallRec} {seen : List Nat} {n : Node}
    (h : n ∈ kids P i cs seen) :
    ∃ c, c ∈ cs ∧ n.edgeIn = some c ∧ P.resolve c.cid = some n.key ∧ n.parent = some i := by
  obtain ⟨pre, c, post, g, hcs, _, _, hres, hn⟩ := (mem_kids_iff P i cs seen n).mp h
  subst hn
  exact ⟨c, by rw [hcs]; simp, rfl, hres, rfl⟩

/-- every resolvable call has a child carrying its cid (possibly through an equal call record met
earlier in the list). -/
theorem kids_complete (P : Prog) (i : Nat) (cs : List CallRec) {c : CallRec} {g : Key}
    (hc : c ∈ cs) (hr : P.resolve c.cid = some g) :
    ∃ c', c' ∈ cs ∧ c'.cid = c.cid ∧
      ({ key := g, edgeIn := some c', parent := some i } : Node) ∈ kids P i cs [] := by
  induction cs with
  | nil => cases hc
  | cons c0 r ih =>
    by_cases h0 : c0.cid = c.cid
    · refine ⟨c0, List.mem_cons_self, h0, ?_⟩
      apply (mem_kids_iff P i (c0 :: r) [] _).mpr
      exact ⟨[], c0, r, g, by simp, by simp, by simp, by rw [h0]; exact hr, rfl⟩
    · rcases List.mem_cons.mp hc with h | h
      · subst h; exact absurd rfl h0
      · obtain ⟨c', hc', hcid, hk⟩ := ih h
        obtain ⟨pre, c2, post, g2, hcs, hpre, _, hres, hn⟩ := (mem_kids_iff P i r [] _).mp hk
        injection hn with hkey hedge _
        injection hedge with hedge
        subst hedge
        refine ⟨c', List.mem_cons_of_mem _ hc', hcid, ?_⟩
        apply (mem_kids_iff P i (c0 :: r) [] _).mpr
        refine ⟨c0 :: pre, c', post, g, by simp [hcs], ?_, by simp, by rw [hcid]; exact hr, rfl⟩
        intro x hx
        rcases List.mem_cons.mp hx with hx | hx
        · subst hx; rw [hcid]; exact h0
        · exact hpre x hx

/-! ### the BFS stops after the children -/

theorem bfs_stable (P : Prog) (fuel i : Nat) (st : BfsState)
    (hleaf : ∀ j n, i ≤ j → st.nodes[j]? = some n → IsLeaf P n.key)
    (hf : st.nodes.length ≤ fuel + i) : bfs P fuel i st = some st := by
  induction fuel generalizing i with
  | zero =>
    simp only [bfs]
    have : ¬ i < st.nodes.length := by omega
    simp [this]
  | succ m ih =>
    simp only [bfs]
    cases hn : st.nodes[i]? with
    | none => rfl
    | some n =>
      simp only
      have hl := hleaf i n (Nat.le_refl _) hn
      rw [expand_leaf P i _ st (fun c hc => hl c (mem_sortCalls.mp hc))]
      apply ih
      · intro j n' hj hn'
        exact hleaf j n' (by omega) hn'
      · omega

/-- the children of root `f`. -/
def kidsOf (P : Prog) (f : Key) : List Node := kids P 0 (sortCalls (fnAt P f).calls) []

def rootNode (f : Key) : Node := { key := f, edgeIn := none, parent := none }

theorem kidsOf_spec {P : Prog} {f : Key} {n : Node} (h : n ∈ kidsOf P f) :
    ∃ c, c ∈ (fnAt P f).calls ∧ n.edgeIn = some c ∧ P.resolve c.cid = some n.key ∧
      n.parent = some 0 := by
  obtain ⟨c, hc, h1, h2, h3⟩ := kids_spec h
  exact ⟨c, mem_sortCalls.mp hc, h1, h2, h3⟩

theorem kidsOf_leaf {P : Prog} (hP : DepthOne P) {f : Key} {n : Node} (h : n ∈ kidsOf P f) :
    IsLeaf P n.key := by
  obtain ⟨c, hc, _, hr, _⟩ := kidsOf_spec h
  exact hP f c n.key hc hr

theorem kidsOf_key_ne {P : Prog} (hP : DepthOne P) {f : Key} {n : Node} (h : n ∈ kidsOf P f) :
    n.key ≠ f := by
  obtain ⟨c, hc, _, hr, _⟩ := kidsOf_spec h
  intro heq
  have := kidsOf_leaf hP h
  rw [heq] at this
  have := this c hc
  rw [hr] at this
  cases this

theorem kidsOf_nil_of_leaf {P : Prog} {f : Key} (h : IsLeaf P f) : kidsOf P f = [] := by
  cases hk : kidsOf P f with
  | nil => rfl
  | cons n r =>
    have hn : n ∈ kidsOf P f := by rw [hk]; exact List.mem_cons_self
    obtain ⟨c, hc, _, hr, _⟩ := kidsOf_spec hn
    rw [h c hc] at hr
    cases hr

/-- the call tree of a root in a depth-one program: the root, then its children; nothing else. -/
theorem callTree_eq_of_depthOne (P : Prog) (hP : DepthOne P) (f : Key) :
    callTree P f = some (rootNode f :: kidsOf P f) := by
  unfold callTree
  have hinv0 : BfsInv P { nodes := [rootNode f], seen := [] } :=
    { len := rfl, nodup := List.nodup_nil, sub := by intro c hc; cases hc }
  have hinv1 := expand_inv P 0 (sortCalls (fnAt P f).calls) _
    (fun c hc => cid_mem_allCids P f (mem_sortCalls.mp hc)) hinv0
  have hb := hinv1.bound
  rw [expand_eq] at hinv1 hb
  show Option.map (·.nodes) (bfs P (totalCalls P + 1) 0 { nodes := [rootNode f], seen := [] }) = _
  simp only [bfs, List.getElem?_cons_zero, rootNode]
  rw [expand_eq]
  rw [bfs_stable]
  · simp [kidsOf]
  · intro j n hj hn
    simp only at hn
    have hmem : n ∈ kidsOf P f := by
      cases j with
      | zero => omega
      | succ j' =>
        simp only [List.cons_append, List.nil_append, List.getElem?_cons_succ] at hn
        exact List.mem_of_getElem? hn
    exact kidsOf_leaf hP hmem
  · simpa [rootNode] using hb

/-! ### the fold -/

theorem childrenOf_root (P : Prog) (f : Key) :
    childrenOf (rootNode f :: kidsOf P f) 0 = kidsOf P f := by
  unfold childrenOf
  have hroot : (rootNode f).parent = none := rfl
  rw [List.filter_cons_of_neg (by simp [hroot])]
  apply List.filter_eq_self.mpr
  intro n hn
  obtain ⟨_, _, _, _, hp⟩ := kidsOf_spec hn
  simp [hp]

theorem childrenOf_succ (P : Prog) (f : Key) (j : Nat) :
    childrenOf (rootNode f :: kidsOf P f) (j + 1) = [] := by
  unfold childrenOf
  apply List.filter_eq_nil_iff.mpr
  intro n hn
  rcases List.mem_cons.mp hn with h | h
  · subst h; simp [rootNode]
  · obtain ⟨_, _, _, _, hp⟩ := kidsOf_spec h
    simp [hp]

theorem foldTree_skip (P : Prog) (nodes : List Node) (a b : List Nat) (σ : Store)
    (h : ∀ i ∈ a, childrenOf nodes i = []) :
    foldTree P nodes (a ++ b) σ = foldTree P nodes b σ := by
  induction a with
  | nil => rfl
  | cons i r ih =>
    have hr : ∀ i ∈ r, childrenOf nodes i = [] := fun i hi => h i (List.mem_cons_of_mem _ hi)
    simp only [List.cons_append, foldTree]
    cases nodes[i]? with
    | none => exact ih hr
    | some n =>
      simp only [h i List.mem_cons_self, foldChildren]
      exact ih hr

/-- the fold over a depth-one tree is the fold of the root's children into the root. -/
theorem foldTree_depthOne (P : Prog) (f : Key) (σ : Store) :
    foldTree P (rootNode f :: kidsOf P f)
        (List.range (rootNode f :: kidsOf P f).length).reverse σ
      = foldChildren P f (kidsOf P f) σ := by
  rw [List.length_cons, List.range_succ_eq_map, List.reverse_cons]
  rw [foldTree_skip]
  · simp only [foldTree, List.getElem?_cons_zero, childrenOf_root]
    show (match foldChildren P f (kidsOf P f) σ with
          | none => none
          | some σ' => some σ') = foldChildren P f (kidsOf P f) σ
    cases foldChildren P f (kidsOf P f) σ with
    | none => rfl
    | some σ' => rfl
  · intro i hi
    rw [List.mem_reverse, List.mem_map] at hi
    obtain ⟨j, _, hj⟩ := hi
    subst hj
    exact childrenOf_succ P f j

/-- the swaps of the edge `c` into callee `g`. -/
def swapsOf (P : Prog) (g : Key) (c : CallRec) : Dict Str Str :=
  (Swaps.construct (si P) (fnAt P g).iface c.args).1

def unionIr (a u : IrSets) : IrSets :=
  ⟨union a.gets u.gets, union a.sets u.sets, union a.dels u.dels⟩

/-- merge the unbound entries of the children (read from `σ`) into `acc`, in child order;
`none` = some `unbind_name` raised. -/
def mergeKids (P : Prog) (σ : Store) : List Node → IrSets → Option IrSets
  | [], acc => some acc
  | ch :: r, acc =>
    match ch.edgeIn with
    | none => mergeKids P σ r acc
    | some c =>
      match unbindIr (swapsOf P ch.key c) (σ ch.key) with
      | none => none
      | some u => mergeKids P σ r (unionIr acc u)

theorem mergeKids_congr (P : Prog) (σ₁ σ₂ : Store) (ks : List Node) (acc : IrSets)
    (h : ∀ k ∈ ks, σ₁ k.key = σ₂ k.key) : mergeKids P σ₁ ks acc = mergeKids P σ₂ ks acc := by
  induction ks generalizing acc with
  | nil => rfl
  | cons ch r ih =>
    have hr : ∀ k ∈ r, σ₁ k.key = σ₂ k.key := fun k hk => h k (List.mem_cons_of_mem _ hk)
    simp only [mergeKids, h ch List.mem_cons_self]
    cases ch.edgeIn with
    | none => exact ih acc hr
    | some c =>
      simp only
      cases unbindIr (swapsOf P ch.key c) (σ₂ ch.key) with
      | none => rfl
      | some u => exact ih _ hr

theorem update_update (σ : Store) (k : Key) (a b : IrSets) :
    (σ.update k a).update k b = σ.update k b := by
  funext j
  unfold Store.update
  by_cases h : j = k <;> simp [h]

theorem update_self (σ : Store) (k : Key) : σ.update k (σ k) = σ := by
  funext j
  unfold Store.update
  by_cases h : j = k <;> simp [h]

theorem update_same (σ : Store) (k : Key) (a : IrSets) : (σ.update k a) k = a := by
  simp [Store.update]

theorem update_other (σ : Store) {k j : Key} (a : IrSets) (h : j ≠ k) : (σ.update k a) j = σ j := by
  simp [Store.update, h]

theorem foldChildren_eq_mergeKids (P : Prog) (f : Key) (ks : List Node) (σ : Store)
    (hne : ∀ k ∈ ks, k.key ≠ f) :
    foldChildren P f ks σ = (mergeKids P σ ks (σ f)).map (fun r => σ.update f r) := by
  induction ks generalizing σ with
  | nil => simp [foldChildren, mergeKids, update_self]
  | cons ch r ih =>
    have hr : ∀ k ∈ r, k.key ≠ f := fun k hk => hne k (List.mem_cons_of_mem _ hk)
    simp only [foldChildren, mergeKids, foldChild]
    cases ch.edgeIn with
    | none => simp only; exact ih σ hr
    | some c =>
      simp only
      show (match (match unbindIr (swapsOf P ch.key c) (σ ch.key) with
              | none => none
              | some u => some (σ.update f (unionIr (σ f) u))) with
            | none => none
            | some σ' => foldChildren P f r σ') = _
      cases unbindIr (swapsOf P ch.key c) (σ ch.key) with
      | none => rfl
      | some u =>
        simp only
        rw [ih _ hr, update_same]
        rw [mergeKids_congr P (σ.update f (unionIr (σ f) u)) σ r _
          (fun k hk => update_other σ _ (hr k hk))]
        cases mergeKids P σ r (unionIr (σ f) u) with
        | none => rfl
        | some x => simp [update_update]

/-- the result of root `f` over store `σ`, as a function of `σ f` and the children's entries. -/
def rootResult (P : Prog) (σ : Store) (f : Key) : Option IrSets :=
  mergeKids P σ (kidsOf P f) (σ f)

/-- `runRoot` in a depth-one program: only the root's entry changes; it becomes the merge of the
children's unbound entries into it. -/
theorem runRoot_eq_of_depthOne (P : Prog) (hP : DepthOne P) (σ : Store) (f : Key) :
    runRoot P σ f = match rootResult P σ f with
      | none => .never
      | some r => .ok (r, σ.update f r) := by
  unfold runRoot rootResult
  rw [callTree_eq_of_depthOne P hP f]
  simp only
  rw [foldTree_depthOne, foldChildren_eq_mergeKids P f _ σ (fun k hk => kidsOf_key_ne hP hk)]
  cases mergeKids P σ (kidsOf P f) (σ f) with
  | none => rfl
  | some r => simp [update_same]

/-! ### membership in the merge -/

inductive Kind where
  | get | set | del
  deriving DecidableEq, Repr

/-- the set of kind `k` of an IR. -/
def _root_.Rattr.IrSets.of (ir : IrSets) : Kind → List NameS
  | .get => ir.gets
  | .set => ir.sets
  | .del => ir.dels

theorem _root_.Rattr.IrSets.ext_of {a b : IrSets} (h : ∀ k, a.of k = b.of k) : a = b := by
  cases a; cases b
  have h1 := h .get; have h2 := h .set; have h3 := h .del
  simp only [IrSets.of] at h1 h2 h3
  simp [h1, h2, h3]

theorem mem_unionIr {a u : IrSets} {k : Kind} {x : NameS} :
    x ∈ (unionIr a u).of k ↔ x ∈ a.of k ∨ x ∈ u.of k := by
  cases k <;> simp only [unionIr, IrSets.of, mem_union_iff]

theorem union_absorb {a b : List NameS} (h : ∀ x ∈ b, x ∈ a) : union a b = a := by
  unfold union
  have : b.filter (fun x => !a.contains x) = [] := by
    apply List.filter_eq_nil_iff.mpr
    intro x hx
    simp [h x hx]
  rw [this, List.append_nil]

theorem unionIr_absorb {a u : IrSets} (h : ∀ k x, x ∈ u.of k → x ∈ a.of k) : unionIr a u = a := by
  apply IrSets.ext_of
  intro k
  cases k
  · exact union_absorb (h .get)
  · exact union_absorb (h .set)
  · exact union_absorb (h .del)

/-- what one child contributes: the unbound entry of its callee. -/
def Contrib (P : Prog) (σ : Store) (ch : Node) (k : Kind) (x : NameS) : Prop :=
  ∃ c u, ch.edgeIn = some c ∧ unbindIr (swapsOf P ch.key c) (σ ch.key) = some u ∧ x ∈ u.of k

theorem mem_mergeKids (P : Prog) (σ : Store) (ks : List Node) (acc r : IrSets)
    (h : mergeKids P σ ks acc = some r) (k : Kind) (x : NameS) :
    x ∈ r.of k ↔ x ∈ acc.of k ∨ ∃ ch ∈ ks, Contrib P σ ch k x := by
  induction ks generalizing acc with
  | nil =>
    simp only [mergeKids, Option.some.injEq] at h
    subst h
    simp
  | cons ch rest ih =>
    simp only [mergeKids] at h
    cases he : ch.edgeIn with
    | none =>
      simp only [he] at h
      rw [ih acc h]
      constructor
      · rintro (hx | ⟨ch', hch', hc⟩)
        · exact Or.inl hx
        · exact Or.inr ⟨ch', List.mem_cons_of_mem _ hch', hc⟩
      · rintro (hx | ⟨ch', hch', hc⟩)
        · exact Or.inl hx
        · rcases List.mem_cons.mp hch' with h1 | h1
          · subst h1
            obtain ⟨c, u, hc1, _⟩ := hc
            rw [he] at hc1
            cases hc1
          · exact Or.inr ⟨ch', h1, hc⟩
    | some c =>
      simp only [he] at h
      cases hu : unbindIr (swapsOf P ch.key c) (σ ch.key) with
      | none => simp [hu] at h
      | some u =>
        simp only [hu] at h
        rw [ih _ h, mem_unionIr]
        constructor
        · rintro ((hx | hx) | ⟨ch', hch', hc⟩)
          · exact Or.inl hx
          · exact Or.inr ⟨ch, List.mem_cons_self, c, u, he, hu, hx⟩
          · exact Or.inr ⟨ch', List.mem_cons_of_mem _ hch', hc⟩
        · rintro (hx | ⟨ch', hch', hc⟩)
          · exact Or.inl (Or.inl hx)
          · rcases List.mem_cons.mp hch' with h1 | h1
            · subst h1
              obtain ⟨c', u', hc1, hc2, hc3⟩ := hc
              rw [he] at hc1
              injection hc1 with hc1
              subst hc1
              rw [hu] at hc2
              injection hc2 with hc2
              subst hc2
              exact Or.inl (Or.inr hc3)
            · exact Or.inr ⟨ch', h1, hc⟩

/-- merging again into something that already contains the merge changes nothing
(`a |= b` with `b ⊆ a`). -/
theorem mergeKids_absorb (P : Prog) (σ : Store) (ks : List Node) (acc r' r : IrSets)
    (h : mergeKids P σ ks acc = some r') (hle : ∀ k x, x ∈ r'.of k → x ∈ r.of k) :
    mergeKids P σ ks r = some r := by
  induction ks generalizing acc with
  | nil => rfl
  | cons ch rest ih =>
    simp only [mergeKids] at h ⊢
    cases he : ch.edgeIn with
    | none =>
      simp only [he] at h ⊢
      exact ih acc h
    | some c =>
      simp only [he] at h ⊢
      cases hu : unbindIr (swapsOf P ch.key c) (σ ch.key) with
      | none => simp [hu] at h
      | some u =>
        simp only [hu] at h ⊢
        have : unionIr r u = r := by
          apply unionIr_absorb
          intro k x hx
          apply hle
          apply (mem_mergeKids P σ rest _ r' h k x).mpr
          exact Or.inl (mem_unionIr.mpr (Or.inr hx))
        rw [this]
        exact ih _ h

/-! ### `generate` in a depth-one program -/

/-- `σc` is reachable from `σ` by generating results for some roots: every entry is either
untouched or is the result of that (non-leaf) function over the ORIGINAL store. -/
def Inv (P : Prog) (σ σc : Store) : Prop :=
  ∀ k, σc k = σ k ∨ (¬ IsLeaf P k ∧ rootResult P σ k = some (σc k))

theorem Inv.refl (P : Prog) (σ : Store) : Inv P σ σ := fun _ => Or.inl rfl

theorem Inv.leaf {P : Prog} {σ σc : Store} (h : Inv P σ σc) {k : Key} (hk : IsLeaf P k) :
    σc k = σ k := by
  rcases h k with h | h
  · exact h
  · exact absurd hk h.1

theorem rootResult_leaf {P : Prog} (σ : Store) {f : Key} (h : IsLeaf P f) :
    rootResult P σ f = some (σ f) := by
  unfold rootResult
  rw [kidsOf_nil_of_leaf h]
  rfl

/-- a root's result over any reachable store is its result over the original store. -/
theorem rootResult_inv {P : Prog} (hP : DepthOne P) {σ σc : Store} (h : Inv P σ σc) (f : Key) :
    rootResult P σc f = rootResult P σ f := by
  unfold rootResult
  rw [mergeKids_congr P σc σ (kidsOf P f) (σc f) (fun k hk => h.leaf (kidsOf_leaf hP hk))]
  rcases h f with h1 | ⟨_, h1⟩
  · rw [h1]
  · unfold rootResult at h1
    rw [h1]
    exact mergeKids_absorb P σ _ _ _ _ h1 (fun _ _ hx => hx)

theorem Inv.update {P : Prog} {σ σc : Store} (h : Inv P σ σc) {f : Key} {r : IrSets}
    (hr : rootResult P σ f = some r) : Inv P σ (σc.update f r) := by
  intro k
  by_cases hk : k = f
  · subst hk
    rw [update_same]
    by_cases hl : IsLeaf P k
    · rw [rootResult_leaf σ hl] at hr
      injection hr with hr
      exact Or.inl hr.symm
    · exact Or.inr ⟨hl, hr⟩
  · rw [update_other _ _ hk]
    exact h k

/-- `generate` over a reachable store: every root's result is its result over the ORIGINAL store,
whatever was generated before. -/
theorem generate_depthOne {P : Prog} (hP : DepthOne P) {σ : Store} (o : List Key) (σc σ' : Store)
    (rs : List (Key × IrSets)) (hI : Inv P σ σc) (h : generate P o σc = .ok (rs, σ')) :
    rs.map Prod.fst = o ∧ (∀ p ∈ rs, rootResult P σ p.1 = some p.2) ∧ Inv P σ σ' ∧
      (∀ k ∈ o, rootResult P σ k = some (σ' k)) ∧ (∀ k, k ∉ o → σ' k = σc k) := by
  induction o generalizing σc rs with
  | nil =>
    simp only [generate, Out.ok.injEq, Prod.mk.injEq] at h
    obtain ⟨h1, h2⟩ := h
    subst h1; subst h2
    simp [hI]
  | cons f r ih =>
    simp only [generate] at h
    rw [runRoot_eq_of_depthOne P hP, rootResult_inv hP hI] at h
    cases hr : rootResult P σ f with
    | none => simp [hr] at h
    | some res =>
      simp only [hr] at h
      cases hg : generate P r (σc.update f res) with
      | outOfFuel => simp [hg] at h
      | never => simp [hg] at h
      | ok q =>
        obtain ⟨rs2, σ2⟩ := q
        simp only [hg, Out.ok.injEq, Prod.mk.injEq] at h
        obtain ⟨h1, h2⟩ := h
        subst h1; subst h2
        obtain ⟨i1, i2, i3, i4, i5⟩ := ih (σc.update f res) rs2 (hI.update hr) hg
        refine ⟨by simp [i1], ?_, i3, ?_, ?_⟩
        · intro p hp
          rcases List.mem_cons.mp hp with hp | hp
          · subst hp; exact hr
          · exact i2 p hp
        · intro k hk
          by_cases hkr : k ∈ r
          · exact i4 k hkr
          · rcases List.mem_cons.mp hk with hk | hk
            · subst hk
              rw [i5 k hkr, update_same]
              exact hr
            · exact absurd hk hkr
        · intro k hk
          have hkf : k ≠ f := fun e => hk (e ▸ List.mem_cons_self)
          have hkr : k ∉ r := fun e => hk (List.mem_cons_of_mem _ e)
          rw [i5 k hkr, update_other _ _ hkf]

/-- no `unbind_name` failure for any root ⇒ `generate` succeeds. -/
theorem generate_depthOne_ok {P : Prog} (hP : DepthOne P) {σ : Store} (o : List Key) (σc : Store)
    (hI : Inv P σ σc) (hsome : ∀ f ∈ o, (rootResult P σ f).isSome) :
    ∃ rs σ', generate P o σc = .ok (rs, σ') := by
  induction o generalizing σc with
  | nil => exact ⟨[], σc, rfl⟩
  | cons f r ih =>
    simp only [generate]
    rw [runRoot_eq_of_depthOne P hP, rootResult_inv hP hI]
    have := hsome f List.mem_cons_self
    cases hr : rootResult P σ f with
    | none => simp [hr] at this
    | some res =>
      simp only
      obtain ⟨rs2, σ2, hg⟩ := ih (σc.update f res) (hI.update hr)
        (fun g hg => hsome g (List.mem_cons_of_mem _ hg))
      rw [hg]
      exact ⟨_, _, rfl⟩

/-- two result lists over the same roots with the same per-root results are equal. -/
theorem results_unique {P : Prog} {σ : Store} {rs₁ rs₂ : List (Key × IrSets)}
    (hk : rs₁.map Prod.fst = rs₂.map Prod.fst)
    (h₁ : ∀ p ∈ rs₁, rootResult P σ p.1 = some p.2)
    (h₂ : ∀ p ∈ rs₂, rootResult P σ p.1 = some p.2) : rs₁ = rs₂ := by
  induction rs₁ generalizing rs₂ with
  | nil =>
    cases rs₂ with
    | nil => rfl
    | cons b r => simp at hk
  | cons a r ih =>
    cases rs₂ with
    | nil => simp at hk
    | cons b r2 =>
      simp only [List.map_cons, List.cons.injEq] at hk
      have ha := h₁ a List.mem_cons_self
      have hb := h₂ b List.mem_cons_self
      obtain ⟨a1, a2⟩ := a
      obtain ⟨b1, b2⟩ := b
      simp only at hk ha hb
      obtain ⟨hk1, hk2⟩ := hk
      subst hk1
      rw [ha] at hb
      injection hb with hb
      subst hb
      rw [ih hk2 (fun p hp => h₁ p (List.mem_cons_of_mem _ hp))
        (fun p hp => h₂ p (List.mem_cons_of_mem _ hp))]

theorem lookup_results {P : Prog} {σ : Store} (rs : List (Key × IrSets)) (f : Key)
    (hf : f ∈ rs.map Prod.fst) (h : ∀ p ∈ rs, rootResult P σ p.1 = some p.2) :
    rs.lookup f = rootResult P σ f := by
  induction rs with
  | nil => simp at hf
  | cons p r ih =>
    obtain ⟨k, v⟩ := p
    by_cases hk : f = k
    · subst hk
      have := h (f, v) List.mem_cons_self
      simp only at this
      simp [List.lookup, this]
    · have hb : (f == k) = false := by simpa using hk
      simp only [List.lookup, hb]
      apply ih
      · simp only [List.map_cons, List.mem_cons] at hf
        rcases hf with hf | hf
        · exact absurd hf hk
        · exact hf
      · exact fun p hp => h p (List.mem_cons_of_mem _ hp)

/-! ### `unbind_name` cannot raise on names that start with their base -/

/-- the spelled name starts with its basename (after the `*` of a starred name). -/
def WellBased (n : NameS) : Prop :=
  (if n.full.head? = some '*' then '*' :: n.base else n.base).isPrefixOf n.full = true

instance (n : NameS) : Decidable (WellBased n) := by unfold WellBased; infer_instance

def WellBasedIr (ir : IrSets) : Prop := ∀ k, ∀ n ∈ ir.of k, WellBased n

/-- every callee's entry consists of well-based names. -/
def CalleeWB (P : Prog) (σ : Store) : Prop := ∀ g, IsCallee P g → WellBasedIr (σ g)

theorem unbindName_isSome {n : NameS} (h : WellBased n) (b : Str) : (unbindName n b).isSome := by
  unfold unbindName
  by_cases hb : n.base = b
  · simp [hb]
  · unfold WellBased at h
    simp only [hb, if_false]
    rw [if_pos h]
    rfl

theorem unbindList_isSome (sw : Dict Str Str) (l : List NameS) (h : ∀ n ∈ l, WellBased n) :
    (unbindList sw l).isSome := by
  induction l with
  | nil => rfl
  | cons n r ih =>
    have h1 := unbindName_isSome (h n List.mem_cons_self) ((Dict.get? sw n.base).getD n.base)
    have h2 := ih (fun m hm => h m (List.mem_cons_of_mem _ hm))
    simp only [unbindList]
    cases hn : unbindName n ((Dict.get? sw n.base).getD n.base) with
    | none => simp [hn] at h1
    | some n' =>
      cases hr : unbindList sw r with
      | none => simp [hr] at h2
      | some r' => rfl

theorem unbindIr_isSome (sw : Dict Str Str) (ir : IrSets) (h : WellBasedIr ir) :
    (unbindIr sw ir).isSome := by
  have h1 := unbindList_isSome sw ir.gets (h .get)
  have h2 := unbindList_isSome sw ir.sets (h .set)
  have h3 := unbindList_isSome sw ir.dels (h .del)
  unfold unbindIr
  cases hg : unbindList sw ir.gets with
  | none => simp [hg] at h1
  | some g =>
    cases hs : unbindList sw ir.sets with
    | none => simp [hs] at h2
    | some s =>
      cases hd : unbindList sw ir.dels with
      | none => simp [hd] at h3
      | some d => rfl

theorem mergeKids_isSome (P : Prog) (σ : Store) (ks : List Node) (acc : IrSets)
    (h : ∀ ch ∈ ks, WellBasedIr (σ ch.key)) : (mergeKids P σ ks acc).isSome := by
  induction ks generalizing acc with
  | nil => rfl
  | cons ch r ih =>
    have hr : ∀ ch ∈ r, WellBasedIr (σ ch.key) := fun c hc => h c (List.mem_cons_of_mem _ hc)
    simp only [mergeKids]
    cases he : ch.edgeIn with
    | none => exact ih acc hr
    | some c =>
      simp only
      have := unbindIr_isSome (swapsOf P ch.key c) (σ ch.key) (h ch List.mem_cons_self)
      cases hu : unbindIr (swapsOf P ch.key c) (σ ch.key) with
      | none => simp [hu] at this
      | some u => exact ih _ hr

theorem rootResult_isSome {P : Prog} {σ : Store} (h : CalleeWB P σ) (f : Key) :
    (rootResult P σ f).isSome := by
  unfold rootResult
  apply mergeKids_isSome
  intro ch hch
  obtain ⟨c, hc, _, hr, _⟩ := kidsOf_spec hch
  exact h ch.key ⟨f, c, hc, hr⟩

/-! ### a decidable check for `DepthOne`, and the example program -/

def leafB (P : Prog) (g : Key) : Bool := (fnAt P g).calls.all (fun c => (P.resolve c.cid).isNone)

def depthOneB (P : Prog) : Bool :=
  P.fns.all (fun fi => fi.calls.all (fun c =>
    match P.resolve c.cid with
    | none => true
    | some g => leafB P g))

theorem mem_fns_of_call {P : Prog} {f : Key} {c : CallRec} (h : c ∈ (fnAt P f).calls) :
    ∃ fi ∈ P.fns, c ∈ fi.calls := by
  unfold fnAt at h
  cases hk : P.fns[f]? with
  | none => simp [hk] at h
  | some fi =>
    simp only [hk, Option.getD_some] at h
    exact ⟨fi, List.mem_of_getElem? hk, h⟩

theorem depthOne_of_check {P : Prog} (h : depthOneB P = true) : DepthOne P := by
  intro f c g hc hr c' hc'
  obtain ⟨fi, hfi, hci⟩ := mem_fns_of_call hc
  unfold depthOneB at h
  have h1 := List.all_eq_true.mp h fi hfi
  have h2 := List.all_eq_true.mp h1 c hci
  simp only [hr] at h2
  unfold leafB at h2
  have h3 := List.all_eq_true.mp h2 c' hc'
  simpa using h3

end Rattr.Results

namespace Rattr.Cex
open Rattr Rattr.Results

/-- two callers sharing a leaf:
`c1(a): a.own; leaf(a)` · `c2(b): leaf(b.y)` · `leaf(l): l.attr; l.z = 1; del l.w`. keys 0 c1, 1 c2, 2 leaf. -/
def P1 : Prog := {
  fns := [ ⟨iface ["a"], [call 0 "leaf" ["a"]]⟩, ⟨iface ["b"], [call 1 "leaf" ["b.y"]]⟩,
           ⟨iface ["l"], []⟩ ],
  resolve := fun c => match c with | 0 => some 2 | 1 => some 2 | _ => none }
def σ1 : Store := fun k => match k with
  | 0 => ⟨[nm "a.own" "a"], [], []⟩
  | 1 => ⟨[nm "b.y" "b"], [], []⟩
  | 2 => ⟨[nm "l.attr" "l"], [nm "l.z" "l"], [nm "l.w" "l"]⟩
  | _ => IrSets.empty
def S1 : Spec.SProg := { prog := P1, sigs := [sig ["a"], sig ["b"], sig ["l"]], own := σ1 }

theorem P1_depthOne : DepthOne P1 := depthOne_of_check (by decide)

end Rattr.Cex

/-
  Provenance of the names result generation folds into a function's IR (RattrModel.Provenance): every
  location found in a function's sets after generation was, before generation, the location of a member
  of the same set of a function reachable from it through resolvable calls — for ALL programs.
-/
import RattrProofs.Lemmas.ResultsLeaf
import RattrModel.Provenance

namespace Rattr.Provenance
open Rattr Rattr.Results

variable {L : Type}

/-- a resolvable call of `f` answers `g`. -/
def Edge (P : Prog) (f g : Key) : Prop := ∃ c ∈ (fnAt P f).calls, P.resolve c.cid = some g

theorem Reach.of_edge {P : Prog} {f g h : Key} (e : Edge P f g) (r : Reach P g h) : Reach P f h := by
  obtain ⟨c, hc, hr⟩ := e
  exact Reach.step c hc hr r

theorem Reach.trans {P : Prog} {f g h : Key} (a : Reach P f g) (b : Reach P g h) : Reach P f h := by
  induction a with
  | refl _ => exact b
  | step c hc hr _ ih => exact Reach.step c hc hr (ih b)

theorem Provenanced.refl (P : Prog) (σ : LStore L) : Provenanced P σ σ :=
  fun f _ x hx => ⟨f, Reach.refl f, x, hx, rfl⟩

theorem mem_unionL {a b : List (LName L)} {x : LName L} (h : x ∈ unionL a b) : x ∈ a ∨ x ∈ b := by
  unfold unionL at h
  rcases List.mem_append.mp h with h | h
  · exact .inl h
  · exact .inr (List.mem_filter.mp h).1

theorem unbindNameL_loc {x x' : LName L} {b : Str} (h : unbindNameL x b = some x') : x'.loc = x.loc := by
  unfold unbindNameL at h
  split at h
  · injection h with h; subst h; rfl
  · cases h

theorem unbindListL_loc (sw : Dict Str Str) : ∀ (l l' : List (LName L)), unbindListL sw l = some l' →
    ∀ x ∈ l', ∃ z ∈ l, z.loc = x.loc
  | [], l', h, x, hx => by
    simp only [unbindListL, Option.some.injEq] at h
    subst h
    cases hx
  | y :: r, l', h, x, hx => by
    simp only [unbindListL] at h
    split at h
    · rename_i y' r' hy hr
      injection h with h
      subst h
      rcases List.mem_cons.mp hx with hx | hx
      · subst hx
        exact ⟨y, List.mem_cons_self, (unbindNameL_loc hy).symm⟩
      · obtain ⟨z, hz, e⟩ := unbindListL_loc sw r r' hr x hx
        exact ⟨z, List.mem_cons_of_mem _ hz, e⟩
    · cases h

theorem unbindIrL_loc (sw : Dict Str Str) (ir u : LSets L) (h : unbindIrL sw ir = some u) (k : Kind) :
    ∀ x ∈ u.get k, ∃ z ∈ ir.get k, z.loc = x.loc := by
  unfold unbindIrL at h
  split at h
  · rename_i g s d hg hs hd
    injection h with h
    subst h
    cases k
    · exact unbindListL_loc sw _ _ hg
    · exact unbindListL_loc sw _ _ hs
    · exact unbindListL_loc sw _ _ hd
  · cases h

/-- one `|=` step keeps the invariant when the child hangs on a resolvable call of the parent. -/
theorem foldChildL_prov (P : Prog) (pk : Key) (σ₀ σ σ' : LStore L) (ch : Node)
    (hedge : ch.edgeIn ≠ none → Edge P pk ch.key)
    (hinv : Provenanced P σ₀ σ) (h : foldChildL P pk σ ch = some σ') : Provenanced P σ₀ σ' := by
  unfold foldChildL at h
  cases hc : ch.edgeIn with
  | none => simp only [hc, Option.some.injEq] at h; subst h; exact hinv
  | some c =>
    simp only [hc] at h
    split at h
    · cases h
    · rename_i u hu
      injection h with h
      subst h
      intro f k x hx
      unfold LStore.update at hx
      by_cases hf : f = pk
      · subst hf
        simp only [if_true] at hx
        have hx' : x ∈ (σ f).get k ∨ x ∈ u.get k := by
          cases k <;> simp only [LSets.get] at hx ⊢ <;> exact mem_unionL hx
        rcases hx' with hx' | hx'
        · exact hinv f k x hx'
        · obtain ⟨z, hz, e⟩ := unbindIrL_loc _ _ _ hu k x hx'
          obtain ⟨g, hr, y, hy, e'⟩ := hinv ch.key k z hz
          exact ⟨g, Reach.of_edge (hedge (by simp [hc])) hr, y, hy, e'.trans e⟩
      · simp only [hf, if_false] at hx
        exact hinv f k x hx

theorem foldChildrenL_prov (P : Prog) (pk : Key) (σ₀ : LStore L) (chs : List Node)
    (hedge : ∀ ch ∈ chs, ch.edgeIn ≠ none → Edge P pk ch.key) (σ σ' : LStore L)
    (hinv : Provenanced P σ₀ σ) (h : foldChildrenL P pk chs σ = some σ') : Provenanced P σ₀ σ' := by
  induction chs generalizing σ with
  | nil => simp only [foldChildrenL, Option.some.injEq] at h; subst h; exact hinv
  | cons ch r ih =>
    simp only [foldChildrenL] at h
    split at h
    · cases h
    · rename_i σ1 h1
      exact ih (fun m hm => hedge m (List.mem_cons_of_mem _ hm)) σ1
        (foldChildL_prov P pk σ₀ σ σ1 ch (hedge ch List.mem_cons_self) hinv h1) h

/-- every node that is somebody's child hangs on a resolvable call of its parent's function. -/
def EdgeInv (P : Prog) (nodes : List Node) : Prop :=
  ∀ m ∈ nodes, ∀ i, m.parent = some i → ∃ n, nodes[i]? = some n ∧ Edge P n.key m.key

theorem expand_edgeInv (P : Prog) (i : Nat) (n : Node) (cs : List CallRec) (st : BfsState)
    (hn : st.nodes[i]? = some n) (hcs : ∀ c ∈ cs, c ∈ (fnAt P n.key).calls)
    (h : EdgeInv P st.nodes) :
    EdgeInv P (expand P i cs st).nodes ∧ (expand P i cs st).nodes[i]? = some n := by
  induction cs generalizing st with
  | nil => exact ⟨h, hn⟩
  | cons c r ih =>
    have hr : ∀ c ∈ r, c ∈ (fnAt P n.key).calls := fun c hc => hcs c (List.mem_cons_of_mem _ hc)
    simp only [expand]
    split
    · exact ih st hn hr h
    · split
      · exact ih st hn hr h
      · rename_i g hg
        apply ih
        · exact getElem?_append_of_some_leaf _ hn
        · exact hr
        · intro m hm j hj
          rcases List.mem_append.mp hm with hm | hm
          · obtain ⟨n', hn', hl⟩ := h m hm j hj
            exact ⟨n', getElem?_append_of_some_leaf _ hn', hl⟩
          · simp only [List.mem_singleton] at hm
            subst hm
            simp only [Option.some.injEq] at hj
            subst hj
            exact ⟨n, getElem?_append_of_some_leaf _ hn, c, hcs c List.mem_cons_self, hg⟩

theorem bfs_edgeInv (P : Prog) (fuel i : Nat) (st st' : BfsState) (h : EdgeInv P st.nodes)
    (hb : bfs P fuel i st = some st') : EdgeInv P st'.nodes := by
  induction fuel generalizing i st with
  | zero =>
    simp only [bfs] at hb
    split at hb
    · cases hb
    · injection hb with hb; subst hb; exact h
  | succ f ih =>
    simp only [bfs] at hb
    cases hn : st.nodes[i]? with
    | none => simp only [hn] at hb; injection hb with hb; subst hb; exact h
    | some nd =>
      simp only [hn] at hb
      exact ih (i + 1) _ (expand_edgeInv P i nd _ st hn (fun c hc => mem_sortCalls.mp hc) h).1 hb

theorem callTree_edgeInv (P : Prog) (root : Key) (nodes : List Node)
    (h : callTree P root = some nodes) : EdgeInv P nodes := by
  unfold callTree at h
  cases hb : bfs P (totalCalls P + 1) 0
      { nodes := [{ key := root, edgeIn := none, parent := none }], seen := [] } with
  | none => simp [hb] at h
  | some st' =>
    simp only [hb, Option.map_some, Option.some.injEq] at h
    subst h
    apply bfs_edgeInv P _ 0 _ st' _ hb
    intro m hm j hj
    simp only [List.mem_singleton] at hm
    subst hm
    cases hj

theorem foldTreeL_prov (P : Prog) (nodes : List Node) (hinv : EdgeInv P nodes) (σ₀ : LStore L)
    (is : List Nat) (σ σ' : LStore L) (hp : Provenanced P σ₀ σ)
    (h : foldTreeL P nodes is σ = some σ') : Provenanced P σ₀ σ' := by
  induction is generalizing σ with
  | nil => simp only [foldTreeL, Option.some.injEq] at h; subst h; exact hp
  | cons i r ih =>
    simp only [foldTreeL] at h
    split at h
    · exact ih σ hp h
    · rename_i n hn
      split at h
      · cases h
      · rename_i σ1 h1
        refine ih σ1 ?_ h
        refine foldChildrenL_prov P n.key σ₀ (childrenOf nodes i) ?_ σ σ1 hp h1
        intro m hm _
        unfold childrenOf at hm
        obtain ⟨hmn, hmp⟩ := List.mem_filter.mp hm
        have hmp' : m.parent = some i := by simpa using hmp
        obtain ⟨n', hn', he⟩ := hinv m hmn i hmp'
        rw [hn] at hn'
        injection hn' with hn'
        subst hn'
        exact he

theorem runRootL_prov (P : Prog) (σ₀ σ σ' : LStore L) (root : Key) (res : LSets L)
    (hp : Provenanced P σ₀ σ) (h : runRootL P σ root = .ok (res, σ')) : Provenanced P σ₀ σ' := by
  unfold runRootL at h
  split at h
  · cases h
  · rename_i nodes hnodes
    split at h
    · cases h
    · rename_i σ1 h1
      injection h with h
      injection h with _ h2
      subst h2
      exact foldTreeL_prov P nodes (callTree_edgeInv P root nodes hnodes) σ₀ _ σ σ1 hp h1

theorem runRootL_result (P : Prog) (σ σ' : LStore L) (root : Key) (res : LSets L)
    (h : runRootL P σ root = .ok (res, σ')) : res = σ' root := by
  unfold runRootL at h
  split at h
  · cases h
  · split at h
    · cases h
    · injection h with h
      injection h with h1 h2
      subst h2
      exact h1.symm

theorem generateL_prov (P : Prog) (σ₀ : LStore L) (order : List Key) (σ σ' : LStore L)
    (rs : List (Key × LSets L)) (hp : Provenanced P σ₀ σ)
    (h : generateL P order σ = .ok (rs, σ')) : Provenanced P σ₀ σ' := by
  induction order generalizing σ rs with
  | nil =>
    simp only [generateL] at h
    injection h with h
    injection h with _ h
    subst h
    exact hp
  | cons f r ih =>
    simp only [generateL] at h
    split at h
    · cases h
    · cases h
    · rename_i res σ1 h1
      split at h
      · rename_i rs' σ2 h2
        injection h with h
        injection h with _ h
        subst h
        exact ih σ1 rs' (runRootL_prov P σ₀ σ σ1 f res hp h1) h2
      · cases h
      · cases h

theorem Reach.of_leaf {P : Prog} {f g : Key} (hl : IsLeaf P f) (r : Reach P f g) : g = f := by
  cases r with
  | refl => rfl
  | step c hc hr _ => have := hl c hc; rw [hr] at this; cases this

/-- the RESULTS: what is reported for root `f` is located in functions reachable from `f`. -/
theorem generateL_results_prov (P : Prog) (σ₀ : LStore L) (order : List Key) (σ σ' : LStore L)
    (rs : List (Key × LSets L)) (hp : Provenanced P σ₀ σ)
    (h : generateL P order σ = .ok (rs, σ')) :
    ∀ p ∈ rs, ∀ k x, x ∈ p.2.get k → ∃ g, Reach P p.1 g ∧ ∃ y ∈ (σ₀ g).get k, y.loc = x.loc := by
  induction order generalizing σ rs with
  | nil =>
    simp only [generateL] at h
    injection h with h
    injection h with h _
    subst h
    intro p hp'
    cases hp'
  | cons f r ih =>
    simp only [generateL] at h
    split at h
    · cases h
    · cases h
    · rename_i res σ1 h1
      have hp1 := runRootL_prov P σ₀ σ σ1 f res hp h1
      split at h
      · rename_i rs' σ2 h2
        injection h with h
        injection h with h h'
        subst h
        subst h'
        intro p hp'
        rcases List.mem_cons.mp hp' with e | hp'
        · subst e
          intro k x hx
          rw [runRootL_result P σ σ1 f res h1] at hx
          exact hp1 f k x hx
        · exact ih σ1 rs' hp1 h2 p hp'
      · cases h
      · cases h

end Rattr.Provenance

/-
  A function without a resolvable call is never written to by result generation — for ALL programs
  (no fragment hypothesis): only a node with children is a `|=` target, and a node has children only if
  one of its function's calls resolves.
-/
import RattrProofs.Lemmas.Results
import RattrProofs.Lemmas.ResultsDepthOne

namespace Rattr.Results

theorem foldChild_other (P : Prog) (pk : Key) (σ σ' : Store) (ch : Node)
    (h : foldChild P pk σ ch = some σ') (j : Key) (hj : j ≠ pk) : σ' j = σ j := by
  unfold foldChild at h
  cases hc : ch.edgeIn with
  | none => simp [hc] at h; subst h; rfl
  | some c =>
    simp only [hc] at h
    split at h
    · cases h
    · injection h with h
      subst h
      unfold Store.update
      simp [hj]

theorem foldChildren_other (P : Prog) (pk : Key) (chs : List Node) (σ σ' : Store)
    (h : foldChildren P pk chs σ = some σ') (j : Key) (hj : j ≠ pk) : σ' j = σ j := by
  induction chs generalizing σ with
  | nil => simp [foldChildren] at h; subst h; rfl
  | cons ch r ih =>
    simp only [foldChildren] at h
    split at h
    · cases h
    · rename_i σ1 h1
      rw [ih σ1 h, foldChild_other P pk σ σ1 ch h1 j hj]

/-- every node that is somebody's child has a parent node whose function is not a leaf. -/
def ParentInv (P : Prog) (nodes : List Node) : Prop :=
  ∀ m ∈ nodes, ∀ i, m.parent = some i → ∃ n, nodes[i]? = some n ∧ ¬ IsLeaf P n.key

theorem getElem?_append_of_some_leaf {α : Type} {l : List α} {i : Nat} {a : α} (x : List α)
    (h : l[i]? = some a) : (l ++ x)[i]? = some a := by
  have hlt : i < l.length := by
    rcases Nat.lt_or_ge i l.length with h' | h'
    · exact h'
    · rw [List.getElem?_eq_none h'] at h; cases h
  rw [List.getElem?_append_left hlt]; exact h

theorem expand_parentInv (P : Prog) (i : Nat) (n : Node) (cs : List CallRec) (st : BfsState)
    (hn : st.nodes[i]? = some n) (hcs : ∀ c ∈ cs, c ∈ (fnAt P n.key).calls)
    (h : ParentInv P st.nodes) :
    ParentInv P (expand P i cs st).nodes ∧ (expand P i cs st).nodes[i]? = some n := by
  induction cs generalizing st with
  | nil => exact ⟨h, hn⟩
  | cons c r ih =>
    have hr : ∀ c ∈ r, c ∈ (fnAt P n.key).calls := fun c hc => hcs c (List.mem_cons_of_mem _ hc)
    simp only [expand]
    split
    · exact ih st hn hr h
    · split
      · exact ih st hn hr h
      · rename_i g hg
        apply ih
        · exact getElem?_append_of_some_leaf _ hn
        · exact hr
        · intro m hm j hj
          rcases List.mem_append.mp hm with hm | hm
          · obtain ⟨n', hn', hl⟩ := h m hm j hj
            exact ⟨n', getElem?_append_of_some_leaf _ hn', hl⟩
          · simp only [List.mem_singleton] at hm
            subst hm
            simp only [Option.some.injEq] at hj
            subst hj
            refine ⟨n, getElem?_append_of_some_leaf _ hn, ?_⟩
            intro hleaf
            have := hleaf c (hcs c List.mem_cons_self)
            rw [hg] at this
            cases this

theorem bfs_parentInv (P : Prog) (fuel i : Nat) (st st' : BfsState) (h : ParentInv P st.nodes)
    (hb : bfs P fuel i st = some st') : ParentInv P st'.nodes := by
  induction fuel generalizing i st with
  | zero =>
    simp only [bfs] at hb
    split at hb
    · cases hb
    · injection hb with hb; subst hb; exact h
  | succ f ih =>
    simp only [bfs] at hb
    cases hn : st.nodes[i]? with
    | none => simp only [hn] at hb; injection hb with hb; subst hb; exact h
    | some nd =>
      simp only [hn] at hb
      exact ih (i + 1) _ (expand_parentInv P i nd _ st hn (fun c hc => mem_sortCalls.mp hc) h).1 hb

theorem callTree_parentInv (P : Prog) (root : Key) (nodes : List Node)
    (h : callTree P root = some nodes) : ParentInv P nodes := by
  unfold callTree at h
  cases hb : bfs P (totalCalls P + 1) 0
      { nodes := [{ key := root, edgeIn := none, parent := none }], seen := [] } with
  | none => simp [hb] at h
  | some st' =>
    simp only [hb, Option.map_some, Option.some.injEq] at h
    subst h
    apply bfs_parentInv P _ 0 _ st' _ hb
    intro m hm j hj
    simp only [List.mem_singleton] at hm
    subst hm
    cases hj

theorem foldTree_leaf (P : Prog) (nodes : List Node) (hinv : ParentInv P nodes) (is : List Nat)
    (σ σ' : Store) (h : foldTree P nodes is σ = some σ') (k : Key) (hk : IsLeaf P k) :
    σ' k = σ k := by
  induction is generalizing σ with
  | nil => simp [foldTree] at h; subst h; rfl
  | cons i r ih =>
    simp only [foldTree] at h
    split at h
    · exact ih σ h
    · rename_i n hn
      split at h
      · cases h
      · rename_i σ1 h1
        rw [ih σ1 h]
        cases hch : childrenOf nodes i with
        | nil => rw [hch] at h1; simp [foldChildren] at h1; subst h1; rfl
        | cons m ms =>
          have hm : m ∈ childrenOf nodes i := by rw [hch]; exact List.mem_cons_self
          unfold childrenOf at hm
          obtain ⟨hmn, hmp⟩ := List.mem_filter.mp hm
          have hmp' : m.parent = some i := by simpa using hmp
          obtain ⟨n', hn', hl⟩ := hinv m hmn i hmp'
          rw [hn] at hn'
          injection hn' with hn'
          subst hn'
          have hne : k ≠ n.key := by
            intro e; subst e; exact hl hk
          exact foldChildren_other P n.key _ σ σ1 h1 k hne

theorem runRoot_leaf (P : Prog) (σ σ' : Store) (root : Key) (res : IrSets)
    (h : runRoot P σ root = .ok (res, σ')) (k : Key) (hk : IsLeaf P k) : σ' k = σ k := by
  unfold runRoot at h
  split at h
  · cases h
  · rename_i nodes hnodes
    split at h
    · cases h
    · rename_i σ1 h1
      injection h with h
      injection h with _ h2
      subst h2
      exact foldTree_leaf P nodes (callTree_parentInv P root nodes hnodes) _ σ σ1 h1 k hk

/-- result generation never writes to the IR of a function none of whose calls resolves. -/
theorem generate_leaf (P : Prog) (order : List Key) (σ σ' : Store) (rs : List (Key × IrSets))
    (h : generate P order σ = .ok (rs, σ')) (k : Key) (hk : IsLeaf P k) : σ' k = σ k := by
  induction order generalizing σ rs with
  | nil => simp [generate] at h; obtain ⟨_, h⟩ := h; subst h; rfl
  | cons f r ih =>
    simp only [generate] at h
    split at h
    · cases h
    · cases h
    · rename_i res σ1 h1
      split at h
      · rename_i rs2 σ2 h2
        injection h with h
        injection h with _ hs
        subst hs
        rw [ih σ1 rs2 h2, runRoot_leaf P σ σ1 f res h1 k hk]
      · cases h
      · cases h

end Rattr.Results

/-
  Lemmas about `DiagScope.go` (helper lemmas of C15; the property theorems are in Props/C15.lean).
-/
import RattrModel.DiagScope

namespace Rattr.C15Scope
open Rattr Rattr.Diag Rattr.DiagScope

/-! ### Fates -/

theorem fateOf_of_passes (l : List ScopeKind) (h : l.all ScopeKind.passes = true) : fateOf l = .exits := by
  induction l with
  | nil => rfl
  | cons k r ih =>
    simp only [List.all_cons, Bool.and_eq_true] at h
    cases k <;> simp_all [fateOf, ScopeKind.passes]

theorem reachesReemit_of_passes (l : List ScopeKind) (seen : Bool) (h : l.all ScopeKind.passes = true) :
    reachesReemit l seen = false := by
  induction l generalizing seen with
  | nil => rfl
  | cons k r ih =>
    simp only [List.all_cons, Bool.and_eq_true] at h
    cases k
    case propagate => simp only [reachesReemit]; exact ih seen h.2
    case capture => simp only [reachesReemit]; exact ih true h.2
    all_goals simp [ScopeKind.passes] at h

theorem replacement_of_passes (o : Out) (loc : Where) (scopes : List ScopeKind) (filtered : Bool)
    (h : scopes.all ScopeKind.passes = true) : replacement o loc scopes filtered = [] := by
  simp [replacement, reachesReemit_of_passes scopes.reverse false (by simpa using h)]

theorem getsThrough_of_benign (l : List ScopeKind) (h : l.all ScopeKind.benign = true) : getsThrough l = true := by
  induction l with
  | nil => rfl
  | cons k r ih =>
    simp only [List.all_cons, Bool.and_eq_true] at h
    cases k <;> simp_all [getsThrough, ScopeKind.benign]

theorem fateOf_of_benign (l : List ScopeKind) (h : l.all ScopeKind.benign = true) :
    fateOf l = .exits ∨ fateOf l = .held true := by
  induction l with
  | nil => exact .inl rfl
  | cons k r ih =>
    simp only [List.all_cons, Bool.and_eq_true] at h
    cases k
    case catchReraise => right; simp [fateOf, getsThrough_of_benign r h.2]
    case catchReemit => right; simp [fateOf, getsThrough_of_benign r h.2]
    all_goals simp_all [fateOf, ScopeKind.benign]

/-- (`C15.emit_exited`, restated here so that this file does not depend on Props/C15.) -/
theorem emit_exited' (cfg : Cfg) (s : State) (e : Event) :
    (emit cfg s e).exited = Spec.exits cfg.strict e := by
  cases e with
  | mk lv b l =>
    cases lv <;> simp only [emit, Diag.info, Diag.warning, Diag.error, Diag.fatal, Spec.exits,
      Spec.isFatal, Spec.isWeightedError] <;> (repeat' split) <;> simp_all
    all_goals (intro hs; cases hb : b <;> simp_all)

/-! ### The `enter_file` discipline -/

theorem locate_eq_bySrc (cur : Option FileId) (stack : List (Option FileId)) (steps : List Step)
    (h : inOwnFile cur stack steps = true) : locate cur stack steps = bySrc steps := by
  induction steps generalizing cur stack with
  | nil => rfl
  | cons s rest ih =>
    cases s with
    | enterFile f => simp only [locate, bySrc]; exact ih _ _ (by simpa [inOwnFile] using h)
    | leaveFile =>
      cases stack with
      | nil => simp only [locate, bySrc]; exact ih _ _ (by simpa [inOwnFile] using h)
      | cons old st => simp only [locate, bySrc]; exact ih _ _ (by simpa [inOwnFile] using h)
    | abandonFile =>
      cases stack with
      | nil => simp only [locate, bySrc]; exact ih _ _ (by simpa [inOwnFile] using h)
      | cons old st =>
        simp only [locate, bySrc]
        simp only [inOwnFile] at h
        split
        · rename_i hr; simp only [hr, if_true] at h; exact ih _ _ h
        · rename_i hr; simp only [hr] at h; exact ih _ _ h
    | diag lv b src filtered scopes =>
      simp only [inOwnFile, Bool.and_eq_true, decide_eq_true_eq] at h
      simp only [locate, bySrc, h.1, ih _ _ h.2]

/-! ### `go` under scopes that let every SystemExit pass -/

theorem go_of_passes (cfg : Cfg) (r : Run) (steps : List Step)
    (hp : allPass steps = true) (hx : r.exited = false) :
    (go cfg r steps).state = (runEvents cfg r.state (locate r.cur r.stack steps)).state
    ∧ (go cfg r steps).exited = (runEvents cfg r.state (locate r.cur r.stack steps)).exited
    ∧ (go cfg r steps).logged = r.logged ++ (runEvents cfg r.state (locate r.cur r.stack steps)).printed
    ∧ (go cfg r steps).pending = r.pending := by
  induction steps generalizing r with
  | nil => simp [go, locate, runEvents, hx]
  | cons s rest ih =>
    simp only [allPass, List.all_cons, Bool.and_eq_true] at hp
    have hrest : allPass rest = true := hp.2
    cases s with
    | enterFile f =>
      simp only [go, step, locate, hx, Bool.false_eq_true, if_false]
      exact ih _ hrest (by first | rfl | exact hx)
    | leaveFile =>
      cases hs : r.stack with
      | nil =>
        simp only [go, step, locate, hs, hx, Bool.false_eq_true, if_false]
        have := ih r hrest hx
        simpa [hs] using this
      | cons old st =>
        simp only [go, step, locate, hs, hx, Bool.false_eq_true, if_false]
        exact ih _ hrest (by first | rfl | exact hx)
    | abandonFile =>
      cases hs : r.stack with
      | nil =>
        simp only [go, step, locate, hs, hx, Bool.false_eq_true, if_false]
        have := ih r hrest hx
        simpa [hs] using this
      | cons old st =>
        simp only [go, step, locate, hs]
        cases restoresOnException
        · simp only [Bool.false_eq_true, if_false, hx]
          exact ih _ hrest (by first | rfl | exact hx)
        · simp only [if_true, hx, Bool.false_eq_true, if_false]
          exact ih _ hrest (by first | rfl | exact hx)
    | diag lv b src filtered scopes =>
      have hsc : scopes.all ScopeKind.passes = true := by simpa [Step.scopesAll] using hp.1
      have hf : fateOf scopes.reverse = .exits := fateOf_of_passes _ (by simpa using hsc)
      simp only [go, step, locate, runEvents, hf]
      by_cases he : (emit cfg r.state ⟨lv, b, placeOf r.cur⟩).exited = true
      · simp [he, applyFate, afterEmit, replacement_of_passes _ _ _ _ hsc]
      · simp only [he, Bool.false_eq_true, if_false]
        have hx' : (afterEmit r (emit cfg r.state ⟨lv, b, placeOf r.cur⟩) (placeOf r.cur) scopes filtered).exited = false := hx
        simp only [hx', Bool.false_eq_true, if_false]
        obtain ⟨h1, h2, h3, h4⟩ := ih _ hrest hx'
        exact ⟨h1, h2, by simpa [afterEmit, replacement_of_passes _ _ _ _ hsc, List.append_assoc] using h3, h4⟩

/-! ### `go` under scopes that may hold a SystemExit but never discard it -/

/-- The part of the outcome that decides the exit status. -/
theorem go_of_benign (cfg : Cfg) (r : Run) (steps : List Step)
    (hp : allBenign steps = true) (hx : r.exited = false) :
    ((go cfg r steps).exited || (go cfg r steps).pending)
        = (r.pending || (locate r.cur r.stack steps).any (Spec.exits cfg.strict))
    ∧ ((locate r.cur r.stack steps).any (Spec.exits cfg.strict) = false →
        (go cfg r steps).state = (runEvents cfg r.state (locate r.cur r.stack steps)).state) := by
  induction steps generalizing r with
  | nil => simp [go, locate, runEvents, hx]
  | cons s rest ih =>
    simp only [allBenign, List.all_cons, Bool.and_eq_true] at hp
    have hrest : allBenign rest = true := hp.2
    cases s with
    | enterFile f =>
      simp only [go, step, locate, hx, Bool.false_eq_true, if_false]
      exact ih _ hrest (by first | rfl | exact hx)
    | leaveFile =>
      cases hs : r.stack with
      | nil =>
        simp only [go, step, locate, hs, hx, Bool.false_eq_true, if_false]
        have := ih r hrest hx
        simpa [hs] using this
      | cons old st =>
        simp only [go, step, locate, hs, hx, Bool.false_eq_true, if_false]
        exact ih _ hrest (by first | rfl | exact hx)
    | abandonFile =>
      cases hs : r.stack with
      | nil =>
        simp only [go, step, locate, hs, hx, Bool.false_eq_true, if_false]
        have := ih r hrest hx
        simpa [hs] using this
      | cons old st =>
        simp only [go, step, locate, hs]
        cases restoresOnException
        · simp only [Bool.false_eq_true, if_false, hx]
          exact ih _ hrest (by first | rfl | exact hx)
        · simp only [if_true, hx, Bool.false_eq_true, if_false]
          exact ih _ hrest (by first | rfl | exact hx)
    | diag lv b src filtered scopes =>
      have hsc : scopes.all ScopeKind.benign = true := by simpa [Step.scopesAll] using hp.1
      have hf := fateOf_of_benign scopes.reverse (by simpa using hsc)
      have hex := emit_exited' cfg r.state ⟨lv, b, placeOf r.cur⟩
      simp only [go, step, locate, runEvents, List.any_cons]
      by_cases he : (emit cfg r.state ⟨lv, b, placeOf r.cur⟩).exited = true
      · have he' := he
        rw [hex] at he'
        rcases hf with hf | hf
        · simp [he, hf, he', applyFate]
        · simp only [he, hf, if_true, he', Bool.true_or, Bool.or_true]
          refine ⟨?_, by simp⟩
          -- held: the run goes on with `pending = true`; whatever follows, it ends pending or exited
          have hx' : (applyFate (afterEmit r (emit cfg r.state ⟨lv, b, placeOf r.cur⟩) (placeOf r.cur) scopes filtered) (.held true)).exited = false := hx
          have hp' : (applyFate (afterEmit r (emit cfg r.state ⟨lv, b, placeOf r.cur⟩) (placeOf r.cur) scopes filtered) (.held true)).pending = true := by
            simp [applyFate]
          have := (ih _ hrest hx').1
          simp only [hx', Bool.false_eq_true, if_false]
          rw [this, hp']; simp
      · have he' := he
        rw [hex] at he'
        simp only [Bool.not_eq_true] at he he'
        have hx' : (afterEmit r (emit cfg r.state ⟨lv, b, placeOf r.cur⟩) (placeOf r.cur) scopes filtered).exited = false := hx
        simp only [he, he', Bool.false_eq_true, if_false, hx', Bool.false_or]
        exact ih _ hrest hx'

/-! ### The regenerated scope table -/

theorem lookupScope_mem (table : List (String × String × String)) (id : String) (k : ScopeKind)
    (h : lookupScope table id = some k) : ∃ r ∈ table, kindOfVerdict r.2.1 r.2.2 = some k := by
  unfold lookupScope at h
  split at h
  · rename_i a b c hfind
    exact ⟨_, List.mem_of_find?_eq_some hfind, h⟩
  · cases h

end Rattr.C15Scope

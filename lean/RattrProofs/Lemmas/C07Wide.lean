/-
  C07, wider predicate (RattrModel/Crash.lean §3) — part 1: the invariant carried through the
  visitor and its preservation by every combinator.

    * `SaneCtx`  : how the getattr-family analysers can be reached (`xattr_dispatch`: only through a
                   callee SPELLED like one of them) and that every context operation of the visitor
                   keeps a context sane;
    * `QName`    : "the full name starts with the basename (after at most one `*`)" for the names a
                   `key=` lambda body produces, which is what `unbind_name` needs (`unbindSt_ok`);
    * `Good R k r` : `r` is not an unhandled exception and, if normal, its state satisfies `Inv R k`.
-/
import RattrProofs.Lemmas.C07
import RattrProofs.Lemmas.VisitCtx

namespace Rattr.C07
open Rattr Rattr.FnA Rattr.Crash Rattr.Strs

/-! ### sane contexts -/

theorem all_set {p : Str × Sym → Bool} (d : Scope) (x : Str) (y : Sym) (hd : d.all p = true)
    (hy : p (x, y) = true) : (Dict.set d x y).all p = true := by
  induction d with
  | nil => simp [Dict.set, hy]
  | cons e r ih =>
    obtain ⟨k, v⟩ := e
    simp only [List.all_cons, Bool.and_eq_true] at hd
    simp only [Dict.set]
    split
    · rename_i hk
      simp only [List.all_cons, Bool.and_eq_true]; exact ⟨hk ▸ hy, hd.2⟩
    · simp only [List.all_cons, Bool.and_eq_true]; exact ⟨hd.1, ih hd.2⟩

theorem all_eraseKey {p : Str × Sym → Bool} (d : Scope) (x : Str) (hd : d.all p = true) :
    (Context.eraseKey d x).all p = true := by
  induction d with
  | nil => simp [Context.eraseKey]
  | cons e r ih =>
    obtain ⟨k, v⟩ := e
    simp only [List.all_cons, Bool.and_eq_true] at hd
    simp only [Context.eraseKey]
    split
    · exact hd.2
    · simp only [List.all_cons, Bool.and_eq_true]; exact ⟨hd.1, ih hd.2⟩

/-- a symbol that may be added under its own name: if it is an import, it is not qualified as one of the
getattr-family names (a builtin added under its own name is fine by construction). -/
def Addable (sy : Sym) : Prop := sy.kind = .import_ → xattrBuiltins.contains sy.qual = false

theorem addable_nameSym (n : Str) : Addable (Context.nameSym n) := by intro h; cases h
theorem addable_funcSym (n : Str) (i : Iface Str) : Addable (funcSym n i) := by intro h; cases h
theorem addable_clsSym (n : Str) (i : Iface Str) : Addable (clsSym n i) := by intro h; cases h

theorem saneEntry_self {sy : Sym} (h : Addable sy) : saneEntry (sy.name, sy) = true := by
  unfold saneEntry
  simp only [Bool.and_eq_true, Bool.or_eq_true, beq_self_eq_true, or_true, true_and, bne_iff_ne, ne_eq,
    Bool.not_eq_true']
  by_cases hk : sy.kind = .import_
  · exact Or.inr (h hk)
  · exact Or.inl hk

theorem sane_add {c : Context} {sy : Sym} (b : Bool) (hc : SaneCtx c = true) (hs : Addable sy) :
    SaneCtx (Context.add c sy b) = true := by
  unfold Context.add
  split
  · cases c with
    | nil => simp [SaneCtx, saneEntry_self hs]
    | cons sc r =>
      simp only [SaneCtx, List.all_cons, Bool.and_eq_true] at hc ⊢
      exact ⟨all_set sc _ _ hc.1 (saneEntry_self hs), hc.2⟩
  · exact hc

theorem sane_remove {c : Context} (x : Str) (hc : SaneCtx c = true) : SaneCtx (Context.remove c x) = true := by
  cases c with
  | nil => simp [Context.remove, SaneCtx]
  | cons sc r =>
    simp only [SaneCtx, List.all_cons, Bool.and_eq_true, Context.remove] at hc ⊢
    exact ⟨all_eraseKey sc x hc.1, hc.2⟩

theorem sane_push {c : Context} (hc : SaneCtx c = true) : SaneCtx (Context.push c) = true := by
  simpa [Context.push, SaneCtx] using hc

theorem sane_pop {c : Context} (hc : SaneCtx c = true) : SaneCtx (Context.pop c) = true := by
  cases c with
  | nil => simp [Context.pop, SaneCtx]
  | cons sc r =>
    simp only [SaneCtx, List.all_cons, Bool.and_eq_true] at hc
    simpa [Context.pop, SaneCtx] using hc.2

theorem sane_foldl_add {c : Context} (names : List Str) (mk : Str → Sym) (b : Bool) (hc : SaneCtx c = true)
    (hm : ∀ n, Addable (mk n)) : SaneCtx (names.foldl (fun c n => Context.add c (mk n) b) c) = true := by
  induction names generalizing c with
  | nil => exact hc
  | cons n r ih => exact ih (sane_add b hc (hm n))

theorem sane_foldl_remove {c : Context} (names : List Str) (hc : SaneCtx c = true) :
    SaneCtx (names.foldl (fun c n => Context.remove c n) c) = true := by
  induction names generalizing c with
  | nil => exact hc
  | cons n r ih => exact ih (sane_remove n hc)

theorem sane_addArguments {s : St} (ps : Params) (hc : SaneCtx s.ctx = true) :
    SaneCtx (addArguments s ps).ctx = true := by
  unfold addArguments
  exact sane_foldl_add _ _ true hc addable_nameSym

/-- what a sane context answers for a key: an entry stored under that key. -/
theorem dict_get?_mem {d : Scope} {x : Str} {sy : Sym} (h : Dict.get? d x = some sy) : (x, sy) ∈ d := by
  induction d with
  | nil => simp [Dict.get?] at h
  | cons e r ih =>
    obtain ⟨k, v⟩ := e
    simp only [Dict.get?] at h
    split at h
    · rename_i hk; injection h with h; subst h; subst hk; exact List.mem_cons_self
    · exact List.mem_cons_of_mem _ (ih h)

theorem sane_get? {c : Context} {x : Str} {sy : Sym} (hc : SaneCtx c = true)
    (h : Context.get? c x = some sy) : saneEntry (x, sy) = true := by
  induction c with
  | nil => simp [Context.get?] at h
  | cons sc r ih =>
    simp only [SaneCtx, List.all_cons, Bool.and_eq_true] at hc
    simp only [Context.get?] at h
    split at h
    · rename_i s' hs
      injection h with h; subst h
      exact List.all_eq_true.mp hc.1 _ (dict_get?_mem hs)
    · exact ih hc.2 h

/-! ### the getattr-family analysers are reached through their own spelling only -/

theorem dot_not_xattr (a b : Str) : xattrBuiltins.contains (a ++ '.' :: b) = false := by
  cases h : xattrBuiltins.contains (a ++ '.' :: b) with
  | false => rfl
  | true =>
    exfalso
    have hm : (a ++ '.' :: b) ∈ xattrBuiltins := by simpa using h
    have hdot : '.' ∈ (a ++ '.' :: b) := by simp
    have hno : ∀ x ∈ xattrBuiltins, '.' ∉ x := by decide
    exact hno _ hm hdot

theorem firstSome_get? {c : Context} {l : List Str} {m : Sym}
    (h : Context.firstSome (Context.get? c) l = some m) : ∃ x, Context.get? c x = some m := by
  induction l with
  | nil => simp [Context.firstSome] at h
  | cons a r ih =>
    simp only [Context.firstSome] at h
    split at h
    · rename_i b hb; injection h with h; subst h; exact ⟨a, hb⟩
    · exact ih h

theorem targetInImported_qual {c : Context} {name : Str} {t : Sym}
    (h : Context.targetInImportedModule c name = some t) :
    t.kind = .import_ ∧ ∃ a b, t.qual = a ++ '.' :: b := by
  unfold Context.targetInImportedModule at h
  split at h
  · cases h
  · rename_i m _
    split at h
    · cases h
    · split at h
      · cases h
      · injection h with h; subst h; exact ⟨rfl, _, _, rfl⟩

/-- whatever `get_call_target` answers is the (possibly imported-module) target. -/
theorem getCallTarget_fst (env : Context.Env) (c : Context) (callee : Str) (coc w : Bool) (t : Sym)
    (h : (Context.getCallTarget env c callee coc w).1 = some t) :
      (if (removeChar (withoutCallBrackets callee) '*').contains '.' &&
          (Context.get? c (removeChar (withoutCallBrackets callee) '*')).isNone
       then Context.targetInImportedModule c (removeChar (withoutCallBrackets callee) '*')
       else Context.get? c (removeChar (withoutCallBrackets callee) '*')) = some t := by
  unfold Context.getCallTarget at h
  simp only [] at h
  generalize hn : removeChar (withoutCallBrackets callee) '*' = name at h ⊢
  generalize htg : (if (name.contains '.' && (Context.get? c name).isNone) = true
    then Context.targetInImportedModule c name else Context.get? c name) = tgt at h ⊢
  clear htg
  split at h
  · cases h
  · split at h
    · cases h
    · split at h
      all_goals
        split at h
        · simp at h
        · cases tgt with
          | none => simp only [] at h; split at h <;> simp at h
          | some t' =>
            have : t' = t := by
              simp only [] at h
              split at h
              · simpa using h
              · split at h <;> simpa using h
            rw [this]

/-- the two sources of a call target. -/
theorem getCallTarget_some {env : Context.Env} {c : Context} {callee : Str} {coc w : Bool} {t : Sym}
    (h : (Context.getCallTarget env c callee coc w).1 = some t) :
    Context.get? c (removeChar (withoutCallBrackets callee) '*') = some t ∨
    Context.targetInImportedModule c (removeChar (withoutCallBrackets callee) '*') = some t := by
  have h1 := getCallTarget_fst env c callee coc w t h
  split at h1
  · exact Or.inr h1
  · exact Or.inl h1

theorem xattr_dispatch {env : Env} {mn : Str} {c : Context} {tn : Str} {coc : Bool} {q : Str}
    (hs : SaneCtx c = true)
    (h : analyserFor env mn (Context.getCallTarget env.ctxEnv c tn coc false).1 = some q)
    (hq : xattrBuiltins.contains q = true) : xattrSpelled tn = true := by
  unfold analyserFor at h
  split at h
  · cases h
  · rename_i t ht
    simp only [] at h
    have hsrc := getCallTarget_some ht
    cases hk : t.kind with
    | builtin =>
      simp only [hk] at h
      split at h
      · injection h with h
        subst h
        rcases hsrc with hg | hg
        · have hsane := sane_get? hs hg
          simp only [saneEntry, hk, bne_self_eq_false, Bool.false_or, Bool.and_eq_true, beq_iff_eq] at hsane
          unfold xattrSpelled
          rw [← hsane.1]; exact hq
        · have := (targetInImported_qual hg).1
          rw [hk] at this; cases this
      · cases h
    | import_ =>
      simp only [hk] at h
      split at h
      · injection h with h
        subst h
        rcases hsrc with hg | hg
        · have hsane := sane_get? hs hg
          simp only [saneEntry, hk, bne_self_eq_false, Bool.false_or, Bool.and_eq_true,
            Bool.not_eq_true'] at hsane
          rw [hsane.2] at hq; cases hq
        · obtain ⟨_, a, b, hab⟩ := targetInImported_qual hg
          rw [hab, dot_not_xattr] at hq; cases hq
      · cases h
    | name =>
      simp only [hk] at h
      split at h
      · injection h with h; subst h; rw [dot_not_xattr] at hq; cases hq
      · cases h
    | func =>
      simp only [hk] at h
      split at h
      · injection h with h; subst h; rw [dot_not_xattr] at hq; cases hq
      · cases h
    | cls =>
      simp only [hk] at h
      split at h
      · injection h with h; subst h; rw [dot_not_xattr] at hq; cases hq
      · cases h

/-! ### names a `key=` lambda may hold -/

/-- the full name starts with the basename, after at most one `*` — whenever the basename is an
identifier `unbind_name` may be asked to replace. -/
def QName (n : NameS) : Prop :=
  cleanId n.base = true → (n.base.isPrefixOf n.full = true ∨ ('*' :: n.base).isPrefixOf n.full = true)

def AllQ (l : List NameS) : Prop := ∀ n ∈ l, QName n

structure NamesQ (s : St) : Prop where
  gets : AllQ s.gets
  sets : AllQ s.sets
  dels : AllQ s.dels

theorem AllQ.nil : AllQ [] := by intro n h; cases h

theorem AllQ.addTo {l : List NameS} {n : NameS} (hl : AllQ l) (hn : QName n) : AllQ (addTo l n) := by
  unfold FnA.addTo
  split
  · exact hl
  · intro x hx
    rcases List.mem_append.mp hx with h | h
    · exact hl x h
    · simp only [List.mem_singleton] at h; subst h; exact hn

theorem AllQ.foldl_addTo {a b : List NameS} (ha : AllQ a) (hb : AllQ b) : AllQ (b.foldl FnA.addTo a) := by
  induction b generalizing a with
  | nil => exact ha
  | cons x r ih =>
    exact ih (AllQ.addTo ha (hb x List.mem_cons_self)) (fun n hn => hb n (List.mem_cons_of_mem _ hn))

theorem QName.refl (x : Str) : QName ⟨x, x⟩ := by
  intro _; left; simp

theorem isPrefixOf_append {p l : Str} (x : Str) (h : p.isPrefixOf l = true) : p.isPrefixOf (l ++ x) = true := by
  rw [List.isPrefixOf_iff_prefix] at h ⊢
  exact h.trans (List.prefix_append l x)

theorem cleanId_head {s : Str} (h : cleanId s = true) : ∃ c r, s = c :: r ∧ c ≠ '*' := by
  simp only [cleanId, Bool.and_eq_true] at h
  have h1 := h.1
  unfold isIdentifier at h1
  cases s with
  | nil => simp at h1
  | cons c r =>
    refine ⟨c, r, rfl, ?_⟩
    simp only [Bool.and_eq_true, List.all_cons] at h1
    intro hc; subst hc
    have : (('*' : Char).isAlphanum || decide (('*' : Char) = '_')) = false := by decide
    rw [this] at h1
    simp at h1

/-- `names_of` keeps the basename in front: with no `*` on the chain the full name starts with it,
with one `*` it starts with `*` + basename. -/
theorem namesOf_prefix (safe : Bool) : ∀ (n : Node) (b f : Str), namesOf safe n = .ok b f → cleanId b = true →
    (chainStars n = 0 → b.isPrefixOf f = true) ∧
    (chainStars n ≤ 1 → b.isPrefixOf f = true ∨ ('*' :: b).isPrefixOf f = true)
  | .name id c, b, f, h, _ => by
    simp only [namesOf] at h
    injection h with h1 h2; subst h1; subst h2
    exact ⟨fun _ => by simp, fun _ => Or.inl (by simp)⟩
  | .attr v a c, b, f, h, hc => by
    simp only [namesOf] at h
    split at h
    · rename_i base lhs hv
      injection h with h1 h2; subst h1; subst h2
      have ih := namesOf_prefix safe v base lhs hv hc
      simp only [chainStars]
      exact ⟨fun h0 => isPrefixOf_append _ (ih.1 h0),
        fun h1 => (ih.2 h1).imp (isPrefixOf_append _) (isPrefixOf_append _)⟩
    · rename_i r hr
      cases hv : namesOf safe v with
      | ok base lhs => exact absurd hv (hr base lhs)
      | fatal d => rw [hv] at h; cases h
      | crash e => rw [hv] at h; cases h
  | .sub v sl c, b, f, h, hc => by
    simp only [namesOf] at h
    split at h
    · rename_i base lhs hv
      injection h with h1 h2; subst h1; subst h2
      have ih := namesOf_prefix safe v base lhs hv hc
      simp only [chainStars]
      exact ⟨fun h0 => isPrefixOf_append _ (ih.1 h0),
        fun h1 => (ih.2 h1).imp (isPrefixOf_append _) (isPrefixOf_append _)⟩
    · rename_i r hr
      cases hv : namesOf safe v with
      | ok base lhs => exact absurd hv (hr base lhs)
      | fatal d => rw [hv] at h; cases h
      | crash e => rw [hv] at h; cases h
  | .starred v c, b, f, h, hc => by
    simp only [namesOf] at h
    split at h
    · rename_i base lhs hv
      injection h with h1 h2; subst h1; subst h2
      have ih := namesOf_prefix safe v base lhs hv hc
      simp only [chainStars]
      refine ⟨fun h0 => by omega, fun h1 => Or.inr ?_⟩
      have := ih.1 (by omega)
      simpa using this
    · rename_i r hr
      cases hv : namesOf safe v with
      | ok base lhs => exact absurd hv (hr base lhs)
      | fatal d => rw [hv] at h; cases h
      | crash e => rw [hv] at h; cases h
  | .call fn args kwn kwv, b, f, h, hc => by
    simp only [namesOf] at h
    split at h
    · rename_i base lhs hv
      split at h
      · rename_i hx
        -- a getattr-family basename is no clean identifier
        split at h
        · injection h with h1 h2; subst h1
          simp only [cleanId, Bool.and_eq_true, Bool.not_eq_true'] at hc
          rw [hc.2] at hx; cases hx
        · cases h
        · cases h
      · injection h with h1 h2; subst h1; subst h2
        have ih := namesOf_prefix safe fn base lhs hv hc
        simp only [chainStars]
        exact ⟨fun h0 => isPrefixOf_append _ (ih.1 h0),
          fun h1 => (ih.2 h1).imp (isPrefixOf_append _) (isPrefixOf_append _)⟩
    · rename_i r hr
      cases hv : namesOf safe fn with
      | ok base lhs => exact absurd hv (hr base lhs)
      | fatal d => rw [hv] at h; cases h
      | crash e => rw [hv] at h; cases h
  | .lam .., b, f, h, _ | .comp .., b, f, h, _ | .gen .., b, f, h, _ | .walrus .., b, f, h, _
  | .strConst .., b, f, h, _ | .const, b, f, h, _ | .seq .., b, f, h, _ | .dict .., b, f, h, _
  | .assign .., b, f, h, _ | .annAssign .., b, f, h, _ | .augAssign .., b, f, h, _ | .delete .., b, f, h, _
  | .forLoop .., b, f, h, _ | .withStmt .., b, f, h, _ | .withitem .., b, f, h, _ | .funcDef .., b, f, h, _
  | .classDef .., b, f, h, _ | .ret .., b, f, h, _ | .forbidden .., b, f, h, _ | .other .., b, f, h, _ => by
    simp only [namesOf] at h
    split at h
    · injection h with h1 h2; subst h1; subst h2
      exact ⟨fun _ => by simp, fun _ => Or.inl (by simp)⟩
    · cases h

theorem namesOf_QName {safe : Bool} {n : Node} {b f : Str} (h : namesOf safe n = .ok b f)
    (hs : chainStars n ≤ 1) : QName ⟨f, b⟩ := by
  intro hc
  exact (namesOf_prefix safe n b f h hc).2 hs

/-! ### `unbind_name` on such names -/

theorem unbindName_ok {n : NameS} (hq : QName n) (nb : Str) (hnb : n.base ≠ nb → cleanId n.base = true) :
    ∃ n', Results.unbindName n nb = some n' ∧ (n' = n ∨ (nb.isPrefixOf n'.full = true ∨ ('*' :: nb).isPrefixOf n'.full = true) ∧ n'.base = nb) := by
  unfold Results.unbindName
  by_cases hb : n.base = nb
  · simp only [hb, if_true]; exact ⟨n, rfl, Or.inl rfl⟩
  · simp only [hb, if_false]
    have hc := hnb hb
    obtain ⟨c0, r0, hcr, hstar⟩ := cleanId_head hc
    have hpre := hq hc
    cases hf : n.full with
    | nil =>
      -- the basename is non-empty, so it is no prefix of the empty name
      rw [hf, hcr] at hpre
      simp at hpre
    | cons c r =>
      rw [hf] at hpre
      by_cases hst : c = '*'
      · subst hst
        have hold : ('*' :: n.base).isPrefixOf ('*' :: r) = true := by
          rcases hpre with h | h
          · rw [hcr] at h
            simp only [List.isPrefixOf_cons₂, Bool.and_eq_true, beq_iff_eq] at h
            exact absurd h.1 hstar
          · exact h
        simp only [List.head?_cons, if_true, hold]
        refine ⟨_, rfl, Or.inr ⟨Or.inr ?_, rfl⟩⟩
        simp
      · have hold : n.base.isPrefixOf (c :: r) = true := by
          rcases hpre with h | h
          · exact h
          · simp only [List.isPrefixOf_cons₂, Bool.and_eq_true, beq_iff_eq] at h
            exact absurd h.1.symm hst
        have hne : (some c = some '*') = False := by simp [hst]
        simp only [List.head?_cons, hne, if_false, hold, if_true]
        refine ⟨_, rfl, Or.inr ⟨Or.inl ?_, rfl⟩⟩
        simp

theorem unbindName_QName {n n' : NameS} {nb : Str} (hq : QName n)
    (h : n' = n ∨ (nb.isPrefixOf n'.full = true ∨ ('*' :: nb).isPrefixOf n'.full = true) ∧ n'.base = nb) :
    QName n' := by
  rcases h with h | ⟨h, hb⟩
  · subst h; exact hq
  · intro _; rw [hb]; exact h

theorem unbindList_ok (it iterable : Str) (hit : cleanId it = true) : ∀ (l : List NameS), AllQ l →
    ∃ l', Results.unbindList [(it, iterable)] l = some l' ∧ AllQ l'
  | [], _ => ⟨[], rfl, AllQ.nil⟩
  | n :: r, h => by
    obtain ⟨r', hr, hqr⟩ := unbindList_ok it iterable hit r (fun x hx => h x (List.mem_cons_of_mem _ hx))
    have hqn := h n List.mem_cons_self
    obtain ⟨n', hn, hcase⟩ := unbindName_ok hqn ((Dict.get? [(it, iterable)] n.base).getD n.base) (by
      intro hne
      simp only [Dict.get?] at hne
      by_cases hi : it = n.base
      · rw [← hi]; exact hit
      · simp [hi] at hne)
    refine ⟨n' :: r', ?_, ?_⟩
    · simp only [Results.unbindList, hn, hr]
    · intro x hx
      rcases List.mem_cons.mp hx with hx | hx
      · subst hx; exact unbindName_QName hqn hcase
      · exact hqr x hx

theorem unbindSt_ok {l : St} {it iterable : Str} (hit : cleanId it = true) (hq : NamesQ l) :
    ∃ l', unbindSt l it iterable = some l' ∧ NamesQ l' ∧ l'.ctx = l.ctx := by
  obtain ⟨g, hg, hqg⟩ := unbindList_ok it iterable hit l.gets hq.gets
  obtain ⟨st, hs, hqs⟩ := unbindList_ok it iterable hit l.sets hq.sets
  obtain ⟨d, hd, hqd⟩ := unbindList_ok it iterable hit l.dels hq.dels
  refine ⟨{ l with gets := g, sets := st, dels := d }, ?_, ⟨hqg, hqs, hqd⟩, rfl⟩
  unfold unbindSt
  simp only [hg, hs, hd]

/-! ### the invariant and `Good` -/

/-- the context of a state inside the analysis of a function whose enclosing context is `R`: sane, and `R`
sits untouched below at least one scope of the function's own. -/
structure CtxOk (R c : Context) : Prop where
  sane : SaneCtx c = true
  sfx : R <:+ c
  len : R.length < c.length

theorem CtxOk.ne {R c : Context} (h : CtxOk R c) : c ≠ [] := by
  intro e; have := h.len; rw [e] at this; simp at this

/-- a change confined to the innermost scope. -/
theorem CtxOk.ofTail {R c c' : Context} (h : CtxOk R c) (hs : SaneCtx c' = true)
    (ht : c'.drop 1 = c.drop 1) (hl : c'.length = c.length) : CtxOk R c' := by
  refine ⟨hs, ?_, by rw [hl]; exact h.len⟩
  have hlen := h.len
  obtain ⟨pre, hpre⟩ := h.sfx
  cases pre with
  | nil => simp at hpre; rw [hpre] at hlen; simp at hlen
  | cons x xs =>
    have hc : c.drop 1 = xs ++ R := by rw [← hpre]; simp
    cases c' with
    | nil => rw [← hl] at hlen; simp at hlen
    | cons y ys =>
      simp only [List.drop_succ_cons, List.drop_zero] at ht
      rw [hc] at ht
      exact ⟨y :: xs, by simp [ht]⟩

theorem CtxOk.add {R c : Context} (h : CtxOk R c) {sy : Sym} (b : Bool) (hs : Addable sy) :
    CtxOk R (Context.add c sy b) :=
  h.ofTail (sane_add b h.sane hs) (Context.tail_add c sy b h.ne) (Context.length_add c sy b h.ne)

theorem CtxOk.remove {R c : Context} (h : CtxOk R c) (x : Str) : CtxOk R (Context.remove c x) :=
  h.ofTail (sane_remove x h.sane) (Context.tail_remove c x) (Context.length_remove c x)

theorem CtxOk.foldl_add {R c : Context} (h : CtxOk R c) (names : List Str) (mk : Str → Sym) (b : Bool)
    (hm : ∀ n, Addable (mk n)) : CtxOk R (names.foldl (fun c n => Context.add c (mk n) b) c) := by
  induction names generalizing c with
  | nil => exact h
  | cons n r ih => exact ih (h.add b (hm n))

theorem CtxOk.foldl_remove {R c : Context} (h : CtxOk R c) (names : List Str) :
    CtxOk R (names.foldl (fun c n => Context.remove c n) c) := by
  induction names generalizing c with
  | nil => exact h
  | cons n r ih => exact ih (h.remove n)

theorem CtxOk.addArguments {R : Context} {s : St} (h : CtxOk R s.ctx) (ps : Params) :
    CtxOk R (addArguments s ps).ctx := by
  unfold FnA.addArguments
  exact h.foldl_add _ _ true addable_nameSym

theorem CtxOk.push {R c : Context} (h : CtxOk R c) : CtxOk R (Context.push c) := by
  refine ⟨sane_push h.sane, ?_, ?_⟩
  · obtain ⟨pre, hpre⟩ := h.sfx
    exact ⟨[] :: pre, by simp [Context.push, hpre]⟩
  · simp only [Context.push, List.length_cons]; have := h.len; omega

/-- entering the analysis of a function: the enclosing context under one fresh scope. -/
theorem CtxOk.enter {R : Context} (h : SaneCtx R = true) : CtxOk R (Context.push R) :=
  ⟨sane_push h, ⟨[[]], by simp [Context.push]⟩, by simp [Context.push]⟩

/-- leaving a scope that was pushed inside the function. -/
theorem CtxOk.pop {R c : Context} (h : CtxOk R c) (hl : R.length + 1 < c.length) : CtxOk R (Context.pop c) := by
  refine ⟨sane_pop h.sane, ?_, ?_⟩
  · obtain ⟨pre, hpre⟩ := h.sfx
    cases pre with
    | nil => simp at hpre; rw [hpre] at hl; omega
    | cons x xs => exact ⟨xs, by rw [← hpre]; simp [Context.pop]⟩
  · simp only [Context.pop, List.length_drop]; omega

/-- leaving the function's own scope gives the enclosing context back, unchanged. -/
theorem CtxOk.exit {R c : Context} (h : CtxOk R c) (hl : c.length = R.length + 1) : Context.pop c = R := by
  obtain ⟨pre, hpre⟩ := h.sfx
  have : pre.length = 1 := by
    have := congrArg List.length hpre
    simp only [List.length_append] at this; omega
  match pre, this with
  | [x], _ => rw [← hpre]; simp [Context.pop]

/-- what every state of a visit satisfies: a context as above and — in key mode — good names. -/
structure Inv (R : Context) (k : Bool) (s : St) : Prop where
  ctx : CtxOk R s.ctx
  names : k = true → NamesQ s

theorem Inv.sane {R : Context} {k : Bool} {s : St} (h : Inv R k s) : SaneCtx s.ctx = true := h.ctx.sane

/-- not an unhandled exception, and a normal outcome satisfies the invariant. -/
def Good (R : Context) (k : Bool) (r : Res) : Prop := NC r ∧ ∀ s', r = .ok s' → Inv R k s'

variable {R : Context}

theorem good_ok {k : Bool} {s : St} (h : Inv R k s) : Good R k (.ok s) :=
  ⟨nc_ok s, fun s' e => by injection e with e; subst e; exact h⟩

theorem good_fatal {k : Bool} (s : St) (d : Diag) : Good R k (.fatal s d) :=
  ⟨nc_fatal s d, fun s' e => by cases e⟩

theorem good_bind {k k' : Bool} {r : Res} {f : St → Res} (hr : Good R k r)
    (hf : ∀ s, Inv R k s → Good R k' (f s)) : Good R k' (r >>>= f) := by
  cases r with
  | ok s => exact hf s (hr.2 s rfl)
  | fatal s d => exact good_fatal s d
  | crash s e => exact absurd rfl (hr.1 s e)

/-- the continuation may use which state the first part ended in. -/
theorem good_bind_eq {k k' : Bool} {r : Res} {f : St → Res} (hr : Good R k r)
    (hf : ∀ s, Inv R k s → r = .ok s → Good R k' (f s)) : Good R k' (r >>>= f) := by
  cases r with
  | ok s => exact hf s (hr.2 s rfl) rfl
  | fatal s d => exact good_fatal s d
  | crash s e => exact absurd rfl (hr.1 s e)

/-- a result that is never normal: whatever follows is not run. -/
theorem good_bind_stop {k k' : Bool} {r : Res} {f : St → Res} (hr : Good R k r)
    (hs : ∀ s', r ≠ .ok s') : Good R k' (r >>>= f) := by
  cases r with
  | ok s => exact absurd rfl (hs s)
  | fatal s d => exact good_fatal s d
  | crash s e => exact absurd rfl (hr.1 s e)

theorem good_ite {k : Bool} {c : Prop} [Decidable c] {a b : Res} (ha : Good R k a) (hb : Good R k b) :
    Good R k (if c then a else b) := by
  split <;> assumption

theorem good_liftName {k : Bool} {s : St} {r : NameRes} {f : Str → Str → Res}
    (hr : ∀ e, r ≠ .crash e) (hf : ∀ b fl, r = .ok b fl → Good R k (f b fl)) : Good R k (liftName s r f) := by
  cases r with
  | ok b fl => exact hf b fl rfl
  | fatal d => exact good_fatal _ _
  | crash e => exact absurd rfl (hr e)

theorem Inv.weaken {k : Bool} {s : St} (h : Inv R true s) : Inv R k s := ⟨h.ctx, fun _ => h.names rfl⟩

theorem Inv.diag {k : Bool} {s : St} (h : Inv R k s) (d : Diag) : Inv R k (St.diag s d) :=
  ⟨h.ctx, fun hk => ⟨(h.names hk).gets, (h.names hk).sets, (h.names hk).dels⟩⟩

theorem Inv.diagL {k : Bool} {s : St} (h : Inv R k s) (ds : List Diag) : Inv R k (St.diagL s ds) :=
  ⟨h.ctx, fun hk => ⟨(h.names hk).gets, (h.names hk).sets, (h.names hk).dels⟩⟩

/-- the context may be replaced by another good one; the IR is untouched. -/
theorem Inv.withCtx {k : Bool} {s : St} (h : Inv R k s) {c : Context} (hc : CtxOk R c) :
    Inv R k { s with ctx := c } :=
  ⟨hc, fun hk => ⟨(h.names hk).gets, (h.names hk).sets, (h.names hk).dels⟩⟩

theorem Inv.calls {k : Bool} {s : St} (h : Inv R k s) (cs : List CallSym) : Inv R k { s with calls := cs } :=
  ⟨h.ctx, fun hk => ⟨(h.names hk).gets, (h.names hk).sets, (h.names hk).dels⟩⟩

theorem Inv.updateResults {k : Bool} {s : St} (h : Inv R k s) {n : NameS} (c : ECtx) (hn : k = true → QName n) :
    Inv R k (updateResults s n c) := by
  cases c
  · exact ⟨h.ctx, fun hk => ⟨AllQ.addTo (h.names hk).gets (hn hk), (h.names hk).sets, (h.names hk).dels⟩⟩
  · exact ⟨h.ctx, fun hk => ⟨(h.names hk).gets, AllQ.addTo (h.names hk).sets (hn hk), (h.names hk).dels⟩⟩
  · exact ⟨h.ctx, fun hk => ⟨(h.names hk).gets, (h.names hk).sets, AllQ.addTo (h.names hk).dels (hn hk)⟩⟩

theorem Inv.fresh {k k' : Bool} {s : St} (h : Inv R k s) : Inv R k' (freshIr s) :=
  ⟨h.ctx, fun _ => ⟨AllQ.nil, AllQ.nil, AllQ.nil⟩⟩

/-- `mergeIr s t`: context (and diagnostics) of `t`, union of the IRs. -/
theorem Inv.merge {k : Bool} {s t : St} (hs : Inv R k s) (ht : Inv R k t) : Inv R k (mergeIr s t) :=
  ⟨ht.ctx, fun hk => ⟨AllQ.foldl_addTo (hs.names hk).gets (ht.names hk).gets,
    AllQ.foldl_addTo (hs.names hk).sets (ht.names hk).sets,
    AllQ.foldl_addTo (hs.names hk).dels (ht.names hk).dels⟩⟩

theorem good_getAndVerify {k : Bool} {s : St} {n : Node} {c : ECtx} {f : St → Str → Str → Res}
    (hs : Inv R k s) (hn : nameOk true n = true)
    (hf : ∀ s b fl, Inv R k s → namesOf true n = .ok b fl → Good R k (f s b fl)) : Good R k (getAndVerify s n c f) := by
  unfold getAndVerify
  refine good_liftName (nameOk_spec hn) (fun b fl hb => hf _ b fl ?_ hb)
  split
  · exact hs.diag _
  · exact hs

theorem good_addIdentifiers {k : Bool} {s : St} {t : Node} (hs : Inv R k s) (h : unravelOk t = true) :
    Good R k (addIdentifiers s t) := by
  refine ⟨nc_addIdentifiers h, ?_⟩
  intro s' e
  unfold addIdentifiers at e
  split at e
  · injection e with e; subst e
    exact hs.withCtx (hs.ctx.foldl_add _ _ false addable_nameSym)
  · cases e
  · cases e

theorem good_removeIdentifiers {k : Bool} {s : St} {t : Node} (hs : Inv R k s) (h : unravelFullOk t = true) :
    Good R k (removeIdentifiers s t) := by
  refine ⟨nc_removeIdentifiers h, ?_⟩
  intro s' e
  unfold removeIdentifiers at e
  split at e
  · injection e with e; subst e
    exact hs.withCtx (hs.ctx.foldl_remove _)
  · cases e
  · cases e

theorem good_addIdentifiersL {k : Bool} : ∀ (l : List Node) (s : St), Inv R k s → l.all unravelOk = true →
    Good R k (addIdentifiersL s l)
  | [], s, hs, _ => by unfold addIdentifiersL; exact good_ok hs
  | t :: r, s, hs, h => by
    simp only [List.all_cons, Bool.and_eq_true] at h
    unfold addIdentifiersL
    exact good_bind (good_addIdentifiers hs h.1) (fun s hs => good_addIdentifiersL r s hs h.2)

theorem good_removeIdentifiersL {k : Bool} : ∀ (l : List Node) (s : St), Inv R k s → l.all unravelFullOk = true →
    Good R k (removeIdentifiersL s l)
  | [], s, hs, _ => by unfold removeIdentifiersL; exact good_ok hs
  | t :: r, s, hs, h => by
    simp only [List.all_cons, Bool.and_eq_true] at h
    unfold removeIdentifiersL
    exact good_bind (good_removeIdentifiers hs h.1) (fun s hs => good_removeIdentifiersL r s hs h.2)

theorem good_argNames {k : Bool} : ∀ (l : List Node) (s : St) (f : St → List Str → Res), Inv R k s →
    l.all (oldOk true) = true → (∀ s l, Inv R k s → Good R k (f s l)) → Good R k (argNames s l f)
  | [], s, f, hs, _, hf => by unfold argNames; exact hf s [] hs
  | a :: r, s, f, hs, h, hf => by
    simp only [List.all_cons, Bool.and_eq_true] at h
    unfold argNames
    simp only []
    have hs' : Inv R k (if isStarred a = true then St.diag s (mkDiag .error "starred-arg") else s) := by
      split
      · exact hs.diag _
      · exact hs
    split
    · exact good_argNames r _ _ hs' h.2 (fun s rest hs => hf s _ hs)
    · exact good_fatal _ _
    · rename_i e he; exact absurd he (oldOk_spec h.1 e)

theorem good_kwargNames {k : Bool} : ∀ (kn : List (Option Str)) (kv : List Node) (s : St)
    (f : St → List (Str × Str) → Res), Inv R k s → kv.all (oldOk true) = true →
    (∀ s l, Inv R k s → Good R k (f s l)) → Good R k (kwargNames s kn kv f)
  | [], kv, s, f, hs, _, hf => by unfold kwargNames; exact hf s [] hs
  | some x :: rn, [], s, f, hs, _, hf => by unfold kwargNames; exact hf s [] hs
  | none :: rn, [], s, f, hs, _, hf => by unfold kwargNames; exact hf s [] hs
  | some x :: rn, v :: rv, s, f, hs, h, hf => by
    simp only [List.all_cons, Bool.and_eq_true] at h
    unfold kwargNames
    split
    · exact good_kwargNames rn rv _ _ hs h.2 (fun s rest hs => hf s _ hs)
    · exact good_fatal _ _
    · rename_i e he; exact absurd he (oldOk_spec h.1 e)
  | none :: rn, v :: rv, s, f, hs, h, hf => by
    simp only [List.all_cons, Bool.and_eq_true] at h
    unfold kwargNames
    exact good_kwargNames rn rv _ _ hs h.2 hf

theorem good_mkCall {k : Bool} {s : St} {name : Str} {args : List Node} {kwn : List (Option Str)} {kwv : List Node}
    {target : Option Sym} {self : Option Str} {f : St → CallSym → Res} (hs : Inv R k s)
    (ha : args.all (oldOk true) = true) (hk : kwv.all (oldOk true) = true)
    (hf : ∀ s c, Inv R k s → Good R k (f s c)) : Good R k (mkCall s name args kwn kwv target self f) := by
  unfold mkCall
  exact good_argNames _ _ _ hs ha (fun s as hs => good_kwargNames _ _ _ _ hs hk (fun s kws hs => hf s _ hs))

theorem protect_ok {outer : St} {r : Res} {t : St} (h : protect outer r = .ok t) : r = .ok t := by
  cases r with
  | ok t' => simpa [protect] using h
  | fatal t' d => simp [protect] at h
  | crash t' e => simp [protect] at h

theorem good_protect {k : Bool} {outer : St} {r : Res} (h : Good R k r) : Good R k (protect outer r) := by
  cases r with
  | ok t => exact h
  | fatal t d => exact good_fatal _ _
  | crash t e => exact absurd rfl (h.1 t e)

/-- `get_dynamic_name` (outside key mode: nothing is claimed about the name it builds). -/
theorem good_dynamicName {s : St} {fn : Str} {args : List Node} {f : St → NameS → Res} (hs : Inv R false s)
    (hx : xattrOldOk fn args = true) (hf : ∀ s n, Inv R false s → Good R false (f s n)) :
    Good R false (dynamicName s fn args f) := by
  unfold dynamicName
  unfold xattrOldOk at hx
  split
  · simp only []
    split
    · apply hf
      split
      · exact hs
      · exact hs.diag _
    · exact good_fatal _ _
    · rename_i e he; simp [he] at hx
  · exact good_fatal _ _

theorem good_defaultdictNamed {k : Bool} {env : Env} {factory : Node} {s : St} (hs : Inv R k s)
    (h : nameOk false factory = true) : Good R k (defaultdictNamed env factory s) := by
  unfold defaultdictNamed
  refine good_liftName (nameOk_spec h) (fun b f _ => good_ok ?_)
  exact (hs.diagL _).calls _

theorem good_withRegister {k : Bool} : ∀ (items : List Node) (s : St), Inv R k s → withItemsOk items = true →
    Good R k (withRegister items s)
  | [], s, hs, _ => by unfold withRegister; exact good_ok hs
  | n :: r, s, hs, h => by
    cases n with
    | withitem ce vars =>
      simp only [withItemsOk, Bool.and_eq_true] at h
      unfold withRegister
      exact good_bind (good_addIdentifiersL vars s hs h.1) (fun s hs => good_withRegister r s hs h.2)
    | _ =>
      simp only [withItemsOk] at h
      unfold withRegister
      exact good_withRegister r s hs h

/-! ### the receiver prefixes of a method call start with the receiver's first part -/

theorem joinDot_cons_prefix (a : Str) (r : List Str) : a.isPrefixOf (joinDot (a :: r)) = true := by
  cases r with
  | nil => simp [joinDot]
  | cons b t => simp [joinDot]

theorem receiverPrefixes_QName (fullname : Str) : AllQ (receiverPrefixes fullname) := by
  intro n hn
  unfold receiverPrefixes at hn
  simp only [] at hn
  split at hn
  · cases hn
  · rename_i p0 rest hparts
    rw [List.mem_map] at hn
    obtain ⟨i, _, rfl⟩ := hn
    intro _
    left
    show p0.isPrefixOf (joinDot (List.take (i + 1) (splitDot (withoutCallBrackets fullname)).dropLast)) = true
    rw [hparts, List.take_succ_cons]
    exact joinDot_cons_prefix _ _

end Rattr.C07

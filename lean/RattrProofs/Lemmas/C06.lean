/-
  String lemmas for C06: how rattr's string operations behave on identifiers (non-empty, none of
  the characters `. ( ) * @ [ ]`) and on dotted pairs `n.f` of identifiers.
-/
import RattrModel.Resolve

namespace Rattr.C06
open Rattr Rattr.Strs Rattr.Resolve

def specials : List Char := ['.', '(', ')', '*', '@', '[', ']']

/-- A Python identifier, as far as rattr's name handling is concerned. -/
def Ident (s : Str) : Prop := s ≠ [] ∧ ∀ c ∈ s, c ∉ specials

instance (s : Str) : Decidable (Ident s) := by unfold Ident; infer_instance

theorem Ident.ne (h : Ident s) (c : Char) (hc : c ∈ specials) : c ∉ s :=
  fun hm => h.2 c hm hc

theorem isPrefixOf_mem {p t : Str} (h : p.isPrefixOf t = true) : ∀ x ∈ p, x ∈ t := by
  intro x hx
  have := List.isPrefixOf_iff_prefix.mp h
  exact this.subset hx

/-! ### replace -/

theorem replaceAllAux_noOcc (mn : Str) : ∀ (fuel : Nat) (s : Str), '.' ∉ s →
    replaceAllAux (mn ++ ['.']) [] fuel s = s := by
  intro fuel
  induction fuel with
  | zero => intro s _; rfl
  | succ k ih =>
    intro s hs
    cases s with
    | nil => rfl
    | cons c r =>
      have hnp : (mn ++ ['.']).isPrefixOf (c :: r) = false := by
        cases hp : (mn ++ ['.']).isPrefixOf (c :: r) with
        | false => rfl
        | true => exact absurd (isPrefixOf_mem hp '.' (by simp)) hs
      simp only [replaceAllAux, hnp]
      have : '.' ∉ r := fun h => hs (List.mem_cons_of_mem _ h)
      simp [ih r this]

theorem replaceAll_noOcc (mn s : Str) (hs : '.' ∉ s) : replaceAll s (mn ++ ['.']) [] = s := by
  unfold replaceAll
  have : (mn ++ ['.']) ≠ [] := by simp
  simp only [this, if_false]
  exact replaceAllAux_noOcc mn _ s hs

theorem replaceAll_prefix (n f : Str) (hf : '.' ∉ f) :
    replaceAll (n ++ '.' :: f) (n ++ ['.']) [] = f := by
  unfold replaceAll
  have hne : (n ++ ['.']) ≠ [] := by simp
  simp only [hne, if_false]
  have hs : n ++ '.' :: f = (n ++ ['.']) ++ f := by simp
  rw [hs]
  generalize hold : n ++ ['.'] = old at *
  cases old with
  | nil => exact absurd rfl hne
  | cons o os =>
    have hp : (o :: os).isPrefixOf ((o :: os) ++ f) = true :=
      List.isPrefixOf_iff_prefix.mpr (List.prefix_append _ _)
    have hd : ((o :: os) ++ f).drop (o :: os).length = f := List.drop_left
    show replaceAllAux (o :: os) [] (((o :: os) ++ f).length + 1) (o :: (os ++ f)) = f
    simp only [replaceAllAux]
    have hp' : (o :: os).isPrefixOf (o :: (os ++ f)) = true := hp
    have hd' : (o :: (os ++ f)).drop (o :: os).length = f := hd
    rw [hp', hd']
    simp only [if_true, List.nil_append]
    rw [← hold]
    exact replaceAllAux_noOcc n _ f hf

/-! ### call brackets -/

theorem removeSuffixCall_id (f : Str) (hf : ')' ∉ f) : removeSuffixCall f = f := by
  unfold removeSuffixCall
  have : endsWith f (lit "()") = false := by
    cases h : endsWith f (lit "()") with
    | false => rfl
    | true =>
      unfold endsWith at h
      have := isPrefixOf_mem h ')' (by decide)
      exact absurd (List.mem_reverse.mp this) hf
  simp [this]

theorem localNameOf_plain (f mn : Str) (h1 : '.' ∉ f) (h2 : ')' ∉ f) : localNameOf f mn = f := by
  unfold localNameOf
  rw [replaceAll_noOcc mn f h1, removeSuffixCall_id f h2]

theorem dropCallBracketsRev_id (c : Char) (r : List Char) (hc : c ≠ ')') :
    dropCallBracketsRev (c :: r) = c :: r := by
  unfold dropCallBracketsRev
  split
  · rename_i h; cases h; exact absurd rfl hc
  · rfl

theorem withoutCallBrackets_id (s : Str) (hs : ')' ∉ s) : withoutCallBrackets s = s := by
  unfold withoutCallBrackets
  cases h : s.reverse with
  | nil =>
    have : s = [] := by simpa using h
    subst this; rfl
  | cons c r =>
    have hc : c ≠ ')' := by
      intro e; subst e
      have : ')' ∈ s.reverse := by rw [h]; simp
      exact hs (List.mem_reverse.mp this)
    rw [dropCallBracketsRev_id c r hc, ← h, List.reverse_reverse]

theorem removeChar_id (s : Str) (c : Char) (hs : c ∉ s) : removeChar s c = s := by
  unfold removeChar
  apply List.filter_eq_self.mpr
  intro a ha
  have : a ≠ c := fun e => hs (e ▸ ha)
  simp [this]

theorem containsSub_brackets_false (s : Str) (hs : '[' ∉ s) : containsSub s (lit "[]") = false := by
  induction s with
  | nil => rfl
  | cons c r ih =>
    have hc : c ≠ '[' := fun e => hs (e ▸ List.mem_cons_self)
    have hr : '[' ∉ r := fun h => hs (List.mem_cons_of_mem _ h)
    unfold containsSub
    rw [ih hr]
    have : (lit "[]").isPrefixOf (c :: r) = false := by
      cases hp : (lit "[]").isPrefixOf (c :: r) with
      | false => rfl
      | true => exact absurd (isPrefixOf_mem hp '[' (by decide)) hs
    simp [this]

theorem startsWith_at_false (s : Str) (hne : s ≠ []) (hs : '@' ∉ s) : startsWith s ['@'] = false := by
  cases s with
  | nil => exact absurd rfl hne
  | cons c r =>
    have hc : c ≠ '@' := fun e => hs (e ▸ List.mem_cons_self)
    cases hp : startsWith (c :: r) ['@'] with
    | false => rfl
    | true =>
      unfold startsWith at hp
      exact absurd (isPrefixOf_mem hp '@' (by simp)) hs

/-! ### split -/

theorem splitDotAux_noDot : ∀ (s cur : Str), '.' ∉ s → splitDotAux s cur = [cur.reverse ++ s] := by
  intro s
  induction s with
  | nil => intro cur _; simp [splitDotAux]
  | cons c r ih =>
    intro cur hs
    have hc : c ≠ '.' := fun e => hs (e ▸ List.mem_cons_self)
    have hr : '.' ∉ r := fun h => hs (List.mem_cons_of_mem _ h)
    simp [splitDotAux, hc, ih (c :: cur) hr]

theorem splitDot_noDot (s : Str) (hs : '.' ∉ s) : splitDot s = [s] := by
  unfold splitDot; simpa using splitDotAux_noDot s [] hs

theorem splitDotAux_pair : ∀ (n cur f : Str), '.' ∉ n →
    splitDotAux (n ++ '.' :: f) cur = (cur.reverse ++ n) :: splitDotAux f [] := by
  intro n
  induction n with
  | nil => intro cur f _; simp [splitDotAux]
  | cons c r ih =>
    intro cur f hs
    have hc : c ≠ '.' := fun e => hs (e ▸ List.mem_cons_self)
    have hr : '.' ∉ r := fun h => hs (List.mem_cons_of_mem _ h)
    simp [splitDotAux, hc, ih (c :: cur) f hr]

theorem splitDot_pair (n f : Str) (hn : '.' ∉ n) (hf : '.' ∉ f) : splitDot (n ++ '.' :: f) = [n, f] := by
  unfold splitDot
  rw [splitDotAux_pair n [] f hn, splitDotAux_noDot f [] hf]
  simp

theorem namesRight_pair (n f : Str) (hn : '.' ∉ n) (hf : '.' ∉ f) :
    Context.namesRight (n ++ '.' :: f) = [n ++ '.' :: f, n] := by
  unfold Context.namesRight
  rw [splitDot_pair n f hn hf]
  simp [Context.namesRightAux, joinDot]

/-! ### the call site -/

theorem Ident.notMem (h : Ident s) : '.' ∉ s ∧ '(' ∉ s ∧ ')' ∉ s ∧ '*' ∉ s ∧ '@' ∉ s ∧ '[' ∉ s ∧ ']' ∉ s :=
  ⟨h.ne _ (by decide), h.ne _ (by decide), h.ne _ (by decide), h.ne _ (by decide), h.ne _ (by decide),
   h.ne _ (by decide), h.ne _ (by decide)⟩

/-- A bare callee `f` bound to a callable symbol: `get_call_target` returns that symbol, silently. -/
theorem callTargetFor_bare (root : Context) (f : Str) (t : Sym) (hf : Ident f)
    (hget : Context.get? root f = some t) (hcall : t.callable = true) :
    callTargetFor root f = (some t, []) := by
  obtain ⟨hdot, _, hrp, hstar, hat, hlb, _⟩ := hf.notMem
  unfold callTargetFor Context.getCallTarget
  have h1 : withoutCallBrackets f = f := withoutCallBrackets_id f hrp
  have h2 : removeChar f '*' = f := removeChar_id f '*' hstar
  have h3 : startsWith f ['@'] = false := startsWith_at_false f hf.1 hat
  have h4 : containsSub f (lit "[]") = false := containsSub_brackets_false f hlb
  have h5 : splitDot f = [f] := splitDot_noDot f hdot
  have h6 : f.contains '.' = false := by simpa using hdot
  simp [h1, h2, h3, h4, h5, hget, hcall]

theorem append_dot_ne (n f : Str) : n ++ '.' :: f ≠ n := by
  intro h
  have := congrArg List.length h
  simp at this

/-- A dotted callee `n.f` where `n` is an import symbol whose qualified name is a module and `n.f`
itself is not declared: `_get_target_in_imported_module` synthesises `Import(f, qual.f)`. -/
theorem callTargetFor_member (root : Context) (n f : Str) (m : Sym) (hn : Ident n) (hf : Ident f)
    (hnone : Context.get? root (n ++ '.' :: f) = none)
    (hget : Context.get? root n = some m) (hk : m.kind = .import_) (hname : m.name = n)
    (hex : m.modExists = true) :
    callTargetFor root (n ++ '.' :: f) =
      (some { kind := .import_, name := f, callable := true, iface := none,
              qual := m.qual ++ '.' :: f, modExists := false }, []) := by
  obtain ⟨hdot, _, hrp, hstar, hat, hlb, _⟩ := hn.notMem
  obtain ⟨hdot', _, hrp', hstar', hat', hlb', _⟩ := hf.notMem
  have hmem : ∀ c, c ≠ '.' → c ∉ n → c ∉ f → c ∉ n ++ '.' :: f := by
    intro c hc h1 h2 h
    rcases List.mem_append.mp h with h | h
    · exact h1 h
    · rcases List.mem_cons.mp h with h | h
      · exact hc h
      · exact h2 h
  unfold callTargetFor Context.getCallTarget
  have h1 : withoutCallBrackets (n ++ '.' :: f) = n ++ '.' :: f :=
    withoutCallBrackets_id _ (hmem _ (by decide) hrp hrp')
  have h2 : removeChar (n ++ '.' :: f) '*' = n ++ '.' :: f := removeChar_id _ '*' (hmem _ (by decide) hstar hstar')
  have h3 : startsWith (n ++ '.' :: f) ['@'] = false :=
    startsWith_at_false _ (by simp) (hmem _ (by decide) hat hat')
  have h4 : containsSub (n ++ '.' :: f) (lit "[]") = false :=
    containsSub_brackets_false _ (hmem _ (by decide) hlb hlb')
  have h5 : splitDot (n ++ '.' :: f) = [n, f] := splitDot_pair n f hdot hdot'
  have h6 : (n ++ '.' :: f).contains '.' = true := by simp
  have h7 : Context.targetInImportedModule root (n ++ '.' :: f) =
      some { kind := .import_, name := f, callable := true, iface := none,
             qual := m.qual ++ '.' :: f, modExists := false } := by
    unfold Context.targetInImportedModule
    rw [namesRight_pair n f hdot hdot']
    simp [Context.firstSome, hnone, hget, hk, hex, hname, replaceAll_prefix n f hdot']
  have h8 : (n ++ '.' :: f != n) = true := by simp [append_dot_ne n f]
  simp [h1, h2, h3, h4, h5, h7, h8, hnone, hget, hk]

/-! ### `resolve_import` as one non-recursive step -/

inductive Step where
  | done (o : Outcome)
  | recurse (t : ISym)
  deriving DecidableEq

/-- the body of `resolve_import` up to the recursive call -/
def step (w : World) (t : ISym) : Step :=
  match moduleNameOf w.existing t.qual with
  | none => .done (.importError .noModule)
  | some mn =>
    if w.ignored.contains mn then .done (.none_ .ignored)
    else
      match Dict.get? w.irs mn with
      | none => .done (.importError .notFound)
      | some ctx =>
        let ln := localNameOf t.name mn
        match lookupSym ctx ln with
        | some (.func n ir) => .done (if ir then .found mn (.func n ir) else .none_ .likelyIgnored)
        | some (.cls n ir) => .done (if ir then .found mn (.cls n ir) else .none_ .likelyIgnored)
        | some (.imp n q) => .recurse ⟨n, q⟩
        | some (.other _) => .done (.none_ .likelyUndefined)
        | none => .done (if ln.contains '.' then .none_ .isMethod else .none_ .likelyUndefined)

theorem resolveImport_succ (w : World) (k : Nat) (t : ISym) :
    resolveImport w (k + 1) t = match step w t with
      | .done o => o
      | .recurse t' => resolveImport w k t' := by
  simp only [resolveImport, step]
  repeat' split
  all_goals first | rfl | simp_all

theorem step_done_ne (w : World) (t : ISym) (o : Outcome) (h : step w t = .done o) :
    o ≠ .recursionError := by
  simp only [step] at h
  repeat' split at h
  all_goals first | (cases h; simp; done) | (cases h; split <;> simp; done) | (cases h; done)

theorem step_recurse_inv (w : World) (t t' : ISym) (h : step w t = .recurse t') :
    ∃ mn ctx ln, moduleNameOf w.existing t.qual = some mn ∧ Dict.get? w.irs mn = some ctx
      ∧ lookupSym ctx ln = some (.imp t'.name t'.qual) := by
  simp only [step] at h
  repeat' split at h
  all_goals first | (cases h; done) | skip
  all_goals (cases h; exact ⟨_, _, _, by assumption, by assumption, by assumption⟩)

end Rattr.C06

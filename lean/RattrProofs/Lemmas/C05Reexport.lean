/-
  Lemmas for C05's re-export / search-directory theorems.

  * `Resolve.resolveImport` (the model of `resolve_import`, RattrModel/Resolve.lean): the links it follows
    (`chain`), that its answer is a function of the lookups along that chain only (`resolveImport_congr`),
    fuel monotonicity, and what `lookupSym` does under permutations / insertions.
  * `Locator.locate` (RattrModel/Locator.lean): the first search directory that has the module decides.
-/
import RattrModel.Resolve
import RattrModel.Locator

namespace Rattr.C05R
open Rattr Rattr.Resolve

/-! ### `lookupSym` -/

theorem lookupSym_eq_find (ctx : MCtx) (x : Str) : lookupSym ctx x = ctx.find? (fun s => s.key = x) := by
  induction ctx with
  | nil => rfl
  | cons s r ih =>
    simp only [lookupSym, List.find?]
    by_cases h : s.key = x
    · simp [h]
    · simp [h, ih]

theorem lookupSym_some_mem {ctx : MCtx} {x : Str} {s : MSym} (h : lookupSym ctx x = some s) :
    s ∈ ctx ∧ s.key = x := by
  rw [lookupSym_eq_find] at h
  exact ⟨List.mem_of_find?_eq_some h, by simpa using List.find?_some h⟩

/-- with pairwise distinct keys the lookup returns THE symbol of that key. -/
theorem lookupSym_of_mem {ctx : MCtx} (hnd : (ctx.map MSym.key).Nodup) {s : MSym} (hs : s ∈ ctx) :
    lookupSym ctx s.key = some s := by
  induction ctx with
  | nil => cases hs
  | cons a r ih =>
    simp only [List.map_cons, List.nodup_cons] at hnd
    simp only [lookupSym]
    by_cases h : a.key = s.key
    · simp only [h, if_true]
      rcases List.mem_cons.mp hs with rfl | hr
      · rfl
      · exact absurd (h ▸ List.mem_map_of_mem (f := MSym.key) hr) hnd.1
    · simp only [h, if_false]
      rcases List.mem_cons.mp hs with rfl | hr
      · exact absurd rfl h
      · exact ih hnd.2 hr

theorem lookupSym_none_iff {ctx : MCtx} {x : Str} : lookupSym ctx x = none ↔ ∀ s ∈ ctx, s.key ≠ x := by
  rw [lookupSym_eq_find]
  simp

/-- DEFINITION ORDER inside a followed module: a symbol table with pairwise distinct keys answers every
lookup the same in any order of its symbols. -/
theorem lookupSym_perm {c₁ c₂ : MCtx} (hp : c₁.Perm c₂) (hnd : (c₁.map MSym.key).Nodup) (x : Str) :
    lookupSym c₁ x = lookupSym c₂ x := by
  have hnd₂ : (c₂.map MSym.key).Nodup := (hp.map MSym.key).nodup_iff.mp hnd
  cases h₁ : lookupSym c₁ x with
  | some s =>
    obtain ⟨hm, hk⟩ := lookupSym_some_mem h₁
    have := lookupSym_of_mem hnd₂ (hp.mem_iff.mp hm)
    rw [hk] at this
    exact this.symm
  | none =>
    symm
    rw [lookupSym_none_iff] at h₁ ⊢
    intro s hs
    exact h₁ s (hp.mem_iff.mpr hs)

/-- UNRELATED DEFINITION: a symbol inserted anywhere does not change the lookup of any OTHER key. -/
theorem lookupSym_insert_other (a b : MCtx) (s : MSym) (x : Str) (h : s.key ≠ x) :
    lookupSym (a ++ s :: b) x = lookupSym (a ++ b) x := by
  induction a with
  | nil => simp [lookupSym, h]
  | cons t r ih =>
    simp only [List.cons_append, lookupSym, ih]

/-! ### the chain of links `resolve_import` follows -/

/-- the (module, local name) pairs `resolveImport w fuel t` looks up, in order. -/
def chain (w : World) : Nat → ISym → List (Str × Str)
  | 0, _ => []
  | fuel + 1, t =>
    match moduleNameOf w.existing t.qual with
    | none => []
    | some mn =>
      if w.ignored.contains mn then []
      else
        match Dict.get? w.irs mn with
        | none => []
        | some ctx =>
          let ln := localNameOf t.name mn
          (mn, ln) :: (match lookupSym ctx ln with
            | some (.imp n q) => chain w fuel ⟨n, q⟩
            | _ => [])

/-- Two module tables agree on a lookup `(mn, ln)`: both have the module (or neither), and its symbol
table gives the same symbol under `ln`. -/
def AgreeAt (w w' : World) (mn ln : Str) : Prop :=
  match Dict.get? w.irs mn, Dict.get? w'.irs mn with
  | some c, some c' => lookupSym c ln = lookupSym c' ln
  | none, none => True
  | _, _ => False

/-- two tables have the same modules -/
def SameModules (w w' : World) : Prop :=
  w'.existing = w.existing ∧ w'.ignored = w.ignored ∧
    ∀ mn, (Dict.get? w'.irs mn).isSome = (Dict.get? w.irs mn).isSome

/-- THE ANSWER IS A FUNCTION OF THE LOOKUPS ALONG THE CHAIN: whatever else the module tables hold
(other definitions of the re-exporting modules, other modules, their order). -/
theorem resolveImport_congr (w w' : World) (hs : SameModules w w') :
    ∀ (fuel : Nat) (t : ISym), (∀ p ∈ chain w fuel t, AgreeAt w w' p.1 p.2) →
      resolveImport w' fuel t = resolveImport w fuel t := by
  obtain ⟨he, hi, hm⟩ := hs
  intro fuel
  induction fuel with
  | zero => intro t _; rfl
  | succ fuel ih =>
    intro t hag
    unfold resolveImport
    unfold chain at hag
    rw [he, hi]
    cases hmn : moduleNameOf w.existing t.qual with
    | none => rfl
    | some mn =>
      simp only [hmn] at hag ⊢
      by_cases hig' : mn ∈ w.ignored
      · simp [hig']
      · have hig : ¬ (w.ignored.contains mn = true) := by simpa using hig'
        simp only [hig] at hag ⊢
        have hmm := hm mn
        cases hc : Dict.get? w.irs mn with
        | none =>
          rw [hc] at hmm
          cases hc' : Dict.get? w'.irs mn with
          | none => rfl
          | some c' => rw [hc'] at hmm; cases hmm
        | some c =>
          rw [hc] at hmm
          cases hc' : Dict.get? w'.irs mn with
          | none => rw [hc'] at hmm; cases hmm
          | some c' =>
            simp only [hc] at hag
            have h0 : AgreeAt w w' mn (localNameOf t.name mn) := hag (mn, localNameOf t.name mn) (List.mem_cons_self ..)
            unfold AgreeAt at h0
            rw [hc, hc'] at h0
            simp only at h0
            simp only [Bool.false_eq_true, if_false] at hag ⊢
            rw [← h0]
            cases hl : lookupSym c (localNameOf t.name mn) with
            | none => rfl
            | some s =>
              cases s with
              | imp n q =>
                simp only
                apply ih
                intro p hp
                apply hag
                rw [hl]
                exact List.mem_cons_of_mem _ hp
              | func n ir => rfl
              | cls n ir => rfl
              | other n => rfl

/-- the answer does not depend on how much of the recursion budget is left: a resolution that ended
with `n` units ends the same with more (so a link resolved "deep inside" another resolution and the
same link resolved on its own give the same answer). -/
theorem resolveImport_fuel_mono (w : World) :
    ∀ (n : Nat) (t : ISym), resolveImport w n t ≠ .recursionError →
      ∀ k, resolveImport w (n + k) t = resolveImport w n t := by
  intro n
  induction n with
  | zero => intro t h; exact absurd rfl h
  | succ n ih =>
    intro t h k
    have e : n + 1 + k = (n + k) + 1 := by omega
    rw [e]
    unfold resolveImport at h ⊢
    cases hmn : moduleNameOf w.existing t.qual with
    | none => rfl
    | some mn =>
      simp only [hmn] at h ⊢
      by_cases hig' : mn ∈ w.ignored
      · simp [hig']
      · have hig : ¬ (w.ignored.contains mn = true) := by simpa using hig'
        simp only [hig] at h ⊢
        cases hc : Dict.get? w.irs mn with
        | none => rfl
        | some c =>
          simp only [hc] at h ⊢
          cases hl : lookupSym c (localNameOf t.name mn) with
          | none => rfl
          | some s =>
            cases s with
            | imp n' q =>
              simp only [hl] at h ⊢
              exact ih _ h k
            | func n' ir => rfl
            | cls n' ir => rfl
            | other n' => rfl

/-! ### what a per-process memory would do (NOT the pinned code: Tie A `tieA_resolver_has_no_process_memory`) -/

/-- `resolve_import` with a memory of the qualified names it has followed that outlives the call (a
mutable default argument, a module-level set): a link already in the memory is reported unresolvable.
Returns the answer and the memory the NEXT call starts with. -/
def resolveImportMem (w : World) : Nat → List Str → ISym → Outcome × List Str
  | 0, mem, _ => (.recursionError, mem)
  | fuel + 1, mem, t =>
    match moduleNameOf w.existing t.qual with
    | none => (.importError .noModule, mem)
    | some mn =>
      if w.ignored.contains mn then (.none_ .ignored, mem)
      else
        match Dict.get? w.irs mn with
        | none => (.importError .notFound, mem)
        | some ctx =>
          let ln := localNameOf t.name mn
          match lookupSym ctx ln with
          | some (.func n ir) => (if ir then .found mn (.func n ir) else .none_ .likelyIgnored, mem)
          | some (.cls n ir) => (if ir then .found mn (.cls n ir) else .none_ .likelyIgnored, mem)
          | some (.imp n q) =>
            if mem.contains q then (.none_ .likelyUndefined, mem)
            else resolveImportMem w fuel (q :: mem) ⟨n, q⟩
          | some (.other _) => (.none_ .likelyUndefined, mem)
          | none => (if ln.contains '.' then .none_ .isMethod else .none_ .likelyUndefined, mem)

/-- a process: the queries in order, each starting with the memory the previous one left. -/
def runMem (w : World) (fuel : Nat) : List Str → List ISym → List Outcome
  | _, [] => []
  | mem, t :: r => (resolveImportMem w fuel mem t).1 :: runMem w fuel (resolveImportMem w fuel mem t).2 r

/-! ### the module search -/

open Rattr.Locator

theorem locateFrom_skip (pre : FS) (rest : FS) (name : Dotted) (i : Nat)
    (hpre : ∀ g ∈ pre, findModuleInPath g name = none) :
    locateFrom i (pre ++ rest) name = locateFrom (i + pre.length) rest name := by
  induction pre generalizing i with
  | nil => simp
  | cons g r ih =>
    have hg := hpre g (List.mem_cons_self ..)
    simp only [List.cons_append, locateFrom, hg]
    rw [ih (i + 1) (fun g' hg' => hpre g' (List.mem_cons_of_mem _ hg'))]
    simp only [List.length_cons]
    congr 1
    omega

/-- the FIRST search directory that has the module is the head of `locate_module_in_python_path`. -/
theorem locate_head (pre : FS) (f : Files) (rest : FS) (name : Dotted) (p : Path)
    (hpre : ∀ g ∈ pre, findModuleInPath g name = none) (hf : findModuleInPath f name = some p) :
    (locate (pre ++ f :: rest) name).head? = some (pre.length, p) := by
  unfold locate
  rw [locateFrom_skip pre (f :: rest) name 0 hpre]
  simp [locateFrom, hf]

end Rattr.C05R

/-
  Tree fragment, part 4: executable checks that imply the hypotheses of the tree-fragment theorems
  on a concrete finite program (used by the non-vacuity examples), the example programs, and the
  fact that every CHAIN program is in the tree fragment.
-/
import RattrProofs.Lemmas.ResultsTreeSpec

namespace Rattr.Results
open Rattr.Spec

/-! ### checking a property of every resolvable call -/

def edgesB (P : Prog) (q : Key → CallRec → Key → Bool) : Bool :=
  (List.range P.fns.length).all fun f => (fnAt P f).calls.all fun c =>
    match P.resolve c.cid with
    | none => true
    | some g => q f c g

theorem calls_nil_of_ge {P : Prog} {f : Key} (h : P.fns.length ≤ f) : (fnAt P f).calls = [] := by
  unfold fnAt
  rw [List.getElem?_eq_none h]
  rfl

theorem edges_of_check {P : Prog} {q : Key → CallRec → Key → Bool} (h : edgesB P q = true)
    (f : Key) (c : CallRec) (g : Key) (hc : c ∈ (fnAt P f).calls)
    (hr : P.resolve c.cid = some g) : q f c g = true := by
  by_cases hf : f < P.fns.length
  · unfold edgesB at h
    have h1 := List.all_eq_true.mp h f (List.mem_range.mpr hf)
    have h2 := List.all_eq_true.mp h1 c hc
    simpa [hr] using h2
  · rw [calls_nil_of_ge (Nat.le_of_not_lt hf)] at hc
    cases hc

def callsB (P : Prog) (q : Key → CallRec → Bool) : Bool :=
  (List.range P.fns.length).all fun f => (fnAt P f).calls.all fun c => q f c

theorem calls_of_check {P : Prog} {q : Key → CallRec → Bool} (h : callsB P q = true)
    (f : Key) (c : CallRec) (hc : c ∈ (fnAt P f).calls) : q f c = true := by
  by_cases hf : f < P.fns.length
  · unfold callsB at h
    exact List.all_eq_true.mp (List.all_eq_true.mp h f (List.mem_range.mpr hf)) c hc
  · rw [calls_nil_of_ge (Nat.le_of_not_lt hf)] at hc
    cases hc

/-! ### checking `TreeLike` -/

/-- all cid-paths of length `≤ d` from `f`. -/
def reachL (P : Prog) : Nat → Key → List (List Nat)
  | 0, _ => [[]]
  | d + 1, f => [] :: (fnAt P f).calls.flatMap (fun c =>
      match P.resolve c.cid with
      | none => []
      | some g => (reachL P d g).map (c.cid :: ·))

theorem reach_mem_reachL {P : Prog} {f h : Key} {p : List Nat} (hr : Reach P f p h) (d : Nat)
    (hd : p.length ≤ d) : p ∈ reachL P d f := by
  induction hr generalizing d with
  | nil f => cases d <;> simp [reachL]
  | @cons f g h c p hc hres _ ih =>
    cases d with
    | zero => simp at hd
    | succ d =>
      simp only [reachL]
      apply List.mem_cons_of_mem
      apply List.mem_flatMap.mpr
      refine ⟨c, hc, ?_⟩
      simp only [hres]
      exact List.mem_map.mpr ⟨p, ih d (by simpa using hd), rfl⟩

theorem reach_rank {P : Prog} {rank : Key → Nat}
    (hrank : ∀ f c g, c ∈ (fnAt P f).calls → P.resolve c.cid = some g → rank g < rank f)
    {f h : Key} {p : List Nat} (hr : Reach P f p h) : rank h + p.length ≤ rank f := by
  induction hr with
  | nil f => simp
  | @cons f g h c p hc hres _ ih =>
    have := hrank f c g hc hres
    simp only [List.length_cons]
    omega

theorem reach_of_ge {P : Prog} {f h : Key} {p : List Nat} (hf : P.fns.length ≤ f)
    (hr : Reach P f p h) : p = [] := by
  cases hr with
  | nil => rfl
  | cons hc _ _ => rw [calls_nil_of_ge hf] at hc; cases hc

/-- `rank` decreases along resolvable calls, is bounded by `N`, and among the paths of length
`≤ N` from any root no two different ones end in the same cid. -/
def treeLikeB (P : Prog) (rank : Key → Nat) (N : Nat) : Bool :=
  edgesB P (fun f _ g => decide (rank g < rank f)) &&
  (List.range P.fns.length).all (fun root => decide (rank root ≤ N) &&
    (reachL P N root).all (fun a => (reachL P N root).all (fun b =>
      decide (a.getLast? = none ∨ a.getLast? ≠ b.getLast? ∨ a = b))))

theorem treeLike_of_check {P : Prog} (rank : Key → Nat) (N : Nat)
    (h : treeLikeB P rank N = true) : TreeLike P := by
  unfold treeLikeB at h
  rw [Bool.and_eq_true] at h
  obtain ⟨h1, h2⟩ := h
  have hrank : ∀ f c g, c ∈ (fnAt P f).calls → P.resolve c.cid = some g → rank g < rank f := by
    intro f c g hc hr
    simpa using edges_of_check h1 f c g hc hr
  refine ⟨⟨rank, hrank⟩, ?_⟩
  intro root p q x g h' r1 r2
  by_cases hroot : root < P.fns.length
  · have h3 := List.all_eq_true.mp h2 root (List.mem_range.mpr hroot)
    rw [Bool.and_eq_true] at h3
    obtain ⟨hN, h4⟩ := h3
    have hN' : rank root ≤ N := by simpa using hN
    have l1 := reach_rank hrank r1
    have l2 := reach_rank hrank r2
    have m1 := reach_mem_reachL r1 N (by omega)
    have m2 := reach_mem_reachL r2 N (by omega)
    have h5 := List.all_eq_true.mp (List.all_eq_true.mp h4 _ m1) _ m2
    have h6 : (p ++ [x]).getLast? = none ∨ (p ++ [x]).getLast? ≠ (q ++ [x]).getLast? ∨
        p ++ [x] = q ++ [x] := by simpa using h5
    rcases h6 with h6 | h6 | h6
    · simp at h6
    · simp at h6
    · exact List.append_inj_left' h6 rfl
  · have := reach_of_ge (Nat.le_of_not_lt hroot) r1
    simp at this

/-! ### checking the other hypotheses -/

def cidArgsB (P : Prog) : Bool :=
  callsB P (fun f c => (fnAt P f).calls.all (fun c' => decide (c.cid = c'.cid → c.args = c'.args)))

theorem cidArgs_of_check {P : Prog} (h : cidArgsB P = true) : CidArgs P := by
  intro f c c' hc hc' hcid
  have h1 := calls_of_check h f c hc
  have h2 := List.all_eq_true.mp h1 c' hc'
  exact (of_decide_eq_true h2) hcid

def treeHypsB (S : SProg) : Bool :=
  cidArgsB S.prog &&
  edgesB S.prog (fun _ c g =>
    decide ((∀ n ∈ (S.own g).gets, RootBased n) ∧ (∀ n ∈ (S.own g).sets, RootBased n) ∧
      (∀ n ∈ (S.own g).dels, RootBased n)) &&
    decide ((∀ a ∈ c.args.args, Bare a) ∧ (∀ kv ∈ c.args.kwargs, Bare kv.2)) &&
    decide ((fnAt S.prog g).iface = (sigAt S g).iface) &&
    (match pyBind (sigAt S g) c.args with
      | .ok b => decide ((sigAt S g).kwarg.isSome → b.kwargGot ≠ [])
      | .error _ => false)) &&
  decide (Bare S.prog.tuple ∧ Bare S.prog.dict)

/-- everything in `TreeHyps` except the C04 fact. -/
structure TreeHyps0 (S : SProg) : Prop where
  cid : CidArgs S.prog
  rootBased : CalleeRootBased S
  bare : BareArgs S.prog
  iface : IfaceOfSig S
  accepted : AcceptedCalls S

theorem TreeHyps0.with {S : SProg} (h : TreeHyps0 S) (hSw : SwapsAreBinding S) : TreeHyps S :=
  ⟨h.cid, h.rootBased, h.bare, h.iface, h.accepted, hSw⟩

theorem treeHyps0_of_check {S : SProg} (h : treeHypsB S = true) : TreeHyps0 S := by
  unfold treeHypsB at h
  simp only [Bool.and_eq_true] at h
  obtain ⟨⟨h1, h2⟩, h3⟩ := h
  have key := fun f c g hc hr => edges_of_check h2 f c g hc hr
  simp only [Bool.and_eq_true, decide_eq_true_eq] at key
  refine ⟨cidArgs_of_check h1, ?_, ⟨of_decide_eq_true h3, ?_⟩, ?_, ?_⟩
  · rintro g ⟨f, c, hc, hr⟩ k n hn
    obtain ⟨⟨⟨⟨a, b, d⟩, _⟩, _⟩, _⟩ := key f c g hc hr
    cases k
    · exact a n hn
    · exact b n hn
    · exact d n hn
  · intro f c g hc hr
    exact (key f c g hc hr).1.1.2
  · rintro g ⟨f, c, hc, hr⟩
    exact (key f c g hc hr).1.2
  · intro f c g hc hr
    have := (key f c g hc hr).2
    cases hb : pyBind (sigAt S g) c.args with
    | error e => simp [hb] at this
    | ok b =>
      simp only [hb, decide_eq_true_eq] at this
      exact ⟨b, rfl, this⟩

/-! ### chains are trees -/

/-- CHAIN programs: the resolvable call graph is acyclic and every function has at most one
resolvable call (up to equality of Call symbols). A function may be called from many functions. -/
def Chain (P : Prog) : Prop :=
  Acyclic P ∧ ∀ f c c' g g', c ∈ (fnAt P f).calls → c' ∈ (fnAt P f).calls →
    P.resolve c.cid = some g → P.resolve c'.cid = some g' → c.cid = c'.cid

theorem Reach.cons_inv {P : Prog} {f g : Key} {x : Nat} {p : List Nat}
    (h : Reach P f (x :: p) g) :
    ∃ c m, c ∈ (fnAt P f).calls ∧ c.cid = x ∧ P.resolve x = some m ∧ Reach P m p g := by
  generalize hq : x :: p = q at h
  cases h with
  | nil => cases hq
  | cons hc hres hr =>
    injection hq with h1 h2
    subst h1; subst h2
    exact ⟨_, _, hc, rfl, hres, hr⟩

theorem Reach.split {P : Prog} {f g : Key} {a b : List Nat} (h : Reach P f (a ++ b) g) :
    ∃ m, Reach P f a m ∧ Reach P m b g := by
  induction a generalizing f with
  | nil => exact ⟨f, Reach.nil f, h⟩
  | cons x a ih =>
    obtain ⟨c, m, hc, e, hres, hr⟩ := Reach.cons_inv (by simpa using h)
    obtain ⟨m', h1, h2⟩ := ih hr
    subst e
    exact ⟨m', Reach.cons hc hres h1, h2⟩

/-- on an acyclic graph no cid occurs twice along one path. -/
theorem Reach.no_repeat {P : Prog} (hA : Acyclic P) {f g : Key} {a b : List Nat} {x : Nat}
    (h : Reach P f (a ++ x :: b) g) : x ∉ b := by
  intro hx
  obtain ⟨b1, b2, rfl⟩ := List.append_of_mem hx
  obtain ⟨rank, hrank⟩ := hA
  obtain ⟨m, _, h2⟩ := Reach.split h
  obtain ⟨c, g1, hc, e, hres, hr⟩ := Reach.cons_inv h2
  obtain ⟨m2, h3, h4⟩ := Reach.split hr
  obtain ⟨c', g2, hc', e', hres', _⟩ := Reach.cons_inv h4
  have hcyc : Reach P g1 (b1 ++ [c'.cid]) g1 := by
    apply h3.snoc hc'
    rw [e', hres]
  have := reach_rank hrank hcyc
  simp only [List.length_append, List.length_cons, List.length_nil] at this
  omega

theorem Reach.prefix_of_chain {P : Prog}
    (hCh : ∀ f c c' g g', c ∈ (fnAt P f).calls → c' ∈ (fnAt P f).calls →
      P.resolve c.cid = some g → P.resolve c'.cid = some g' → c.cid = c'.cid)
    {f g g' : Key} {p q : List Nat} (h1 : Reach P f p g) (h2 : Reach P f q g') :
    (∃ r, q = p ++ r) ∨ (∃ r, p = q ++ r) := by
  induction h1 generalizing q with
  | nil f => exact Or.inl ⟨q, rfl⟩
  | @cons f g1 g c p' hc hres _ ih =>
    cases q with
    | nil => exact Or.inr ⟨_, rfl⟩
    | cons y q' =>
      obtain ⟨c', m, hc', e, hres', hr'⟩ := Reach.cons_inv h2
      have hcid : c.cid = c'.cid := hCh f c c' g1 m hc hc' hres (by rw [e]; exact hres')
      have hy : y = c.cid := by rw [hcid, e]
      subst hy
      rw [hres] at hres'
      injection hres' with e2
      subst e2
      rcases ih hr' with ⟨r, e⟩ | ⟨r, e⟩
      · exact Or.inl ⟨r, by rw [e]; rfl⟩
      · exact Or.inr ⟨r, by rw [e]; rfl⟩

theorem unique_of_prefix {P : Prog} (hA : Acyclic P) {root g : Key} {p q r : List Nat} {x : Nat}
    (e : q ++ [x] = (p ++ [x]) ++ r) (hq : Reach P root (q ++ [x]) g) : p = q := by
  rcases List.eq_nil_or_concat r with hr | ⟨r', y, hr⟩
  · subst hr
    rw [List.append_nil] at e
    exact (List.append_inj_left' e rfl).symm
  · rw [List.concat_eq_append] at hr
    subst hr
    rw [← List.append_assoc] at e
    have hy : [x] = [y] := List.append_inj_right' e rfl
    injection hy with hy
    subst hy
    rw [e, List.append_assoc, List.append_assoc] at hq
    have := Reach.no_repeat hA (a := p) (x := x) (b := r' ++ [x]) (by simpa using hq)
    simp at this

/-- every chain program is in the tree fragment. -/
theorem chain_treeLike {P : Prog} (h : Chain P) : TreeLike P := by
  refine ⟨h.1, ?_⟩
  intro root p q x g g' r1 r2
  rcases Reach.prefix_of_chain h.2 r1 r2 with ⟨r, e⟩ | ⟨r, e⟩
  · exact unique_of_prefix h.1 e r2
  · exact (unique_of_prefix h.1 e r1).symm

def chainB (P : Prog) (rank : Key → Nat) : Bool :=
  edgesB P (fun f c g => decide (rank g < rank f) &&
    (fnAt P f).calls.all (fun c' => decide ((P.resolve c'.cid).isSome → c.cid = c'.cid)))

theorem chain_of_check {P : Prog} (rank : Key → Nat) (h : chainB P rank = true) : Chain P := by
  have key := fun f c g hc hr => edges_of_check h f c g hc hr
  simp only [Bool.and_eq_true, decide_eq_true_eq, List.all_eq_true] at key
  refine ⟨⟨rank, fun f c g hc hr => (key f c g hc hr).1⟩, ?_⟩
  intro f c c' g g' hc hc' hr hr'
  exact (key f c g hc hr).2 c' hc' (by simp [hr'])

end Rattr.Results

namespace Rattr.Cex
open Rattr Rattr.Results

/-- a chain of four functions with bare arguments (depth three):
`a(x): x.a0; b(x)` · `b(y): y.b0; c(y)` · `c(z): z.c0 = 1; d(z)` · `d(w): w.d0; del w.d1`. -/
def Pchain : Prog := {
  fns := [ ⟨iface ["x"], [call 0 "b" ["x"]]⟩, ⟨iface ["y"], [call 1 "c" ["y"]]⟩,
           ⟨iface ["z"], [call 2 "d" ["z"]]⟩, ⟨iface ["w"], []⟩ ],
  resolve := fun c => match c with | 0 => some 1 | 1 => some 2 | 2 => some 3 | _ => none }
def σchain : Store := fun k => match k with
  | 0 => ⟨[nm "x.a0" "x"], [], []⟩
  | 1 => ⟨[nm "y.b0" "y"], [], []⟩
  | 2 => ⟨[], [nm "z.c0" "z"], []⟩
  | 3 => ⟨[nm "w.d0" "w"], [], [nm "w.d1" "w"]⟩
  | _ => IrSets.empty
def Schain : Spec.SProg :=
  { prog := Pchain, sigs := [sig ["x"], sig ["y"], sig ["z"], sig ["w"]], own := σchain }

/-- a binary tree of five functions (depth two), the two children of `l` being called with
swapped and repeated arguments:
`top(p, q): l(q, p); r(p)` · `l(u, v): ll(v); lr(u)` · `r(t): t.r0` · `ll(m): m.x = 1` · `lr(k): del k.y`. -/
def Ptree : Prog := {
  fns := [ ⟨iface ["p", "q"], [call 0 "l" ["q", "p"], call 1 "r" ["p"]]⟩,
           ⟨iface ["u", "v"], [call 2 "ll" ["v"], call 3 "lr" ["u"]]⟩,
           ⟨iface ["t"], []⟩, ⟨iface ["m"], []⟩, ⟨iface ["k"], []⟩ ],
  resolve := fun c => match c with
    | 0 => some 1 | 1 => some 2 | 2 => some 3 | 3 => some 4 | _ => none }
def σtree : Store := fun k => match k with
  | 0 => ⟨[nm "p" "p", nm "q" "q"], [], []⟩
  | 1 => ⟨[nm "u" "u", nm "v" "v"], [], []⟩
  | 2 => ⟨[nm "t.r0" "t"], [], []⟩
  | 3 => ⟨[nm "m" "m"], [nm "m.x" "m"], []⟩
  | 4 => ⟨[], [], [nm "k.y" "k"]⟩
  | _ => IrSets.empty
def Stree : Spec.SProg :=
  { prog := Ptree, sigs := [sig ["p", "q"], sig ["u", "v"], sig ["t"], sig ["m"], sig ["k"]],
    own := σtree }

/-- two roots sharing a NON-LEAF callee (the shared store matters: whichever root comes second
reads the entry of `g` the first one already closed):
`r1(a): a.p; g(a)` · `r2(b): g(b)` · `g(x): x.q; h(x)` · `h(y): y.z = 1`. -/
def Pshare : Prog := {
  fns := [ ⟨iface ["a"], [call 0 "g" ["a"]]⟩, ⟨iface ["b"], [call 1 "g" ["b"]]⟩,
           ⟨iface ["x"], [call 2 "h" ["x"]]⟩, ⟨iface ["y"], []⟩ ],
  resolve := fun c => match c with | 0 => some 2 | 1 => some 2 | 2 => some 3 | _ => none }
def σshare : Store := fun k => match k with
  | 0 => ⟨[nm "a.p" "a"], [], []⟩
  | 1 => IrSets.empty
  | 2 => ⟨[nm "x.q" "x"], [], []⟩
  | 3 => ⟨[], [nm "y.z" "y"], []⟩
  | _ => IrSets.empty
def Sshare : Spec.SProg :=
  { prog := Pshare, sigs := [sig ["a"], sig ["b"], sig ["x"], sig ["y"]], own := σshare }

theorem Pshare_treeLike : TreeLike Pshare :=
  treeLike_of_check (fun k => match k with | 0 => 2 | 1 => 2 | 2 => 1 | _ => 0) 2
    (by decide +kernel)

theorem Sshare_hyps0 : TreeHyps0 Sshare := treeHyps0_of_check (by decide +kernel)

theorem Pchain_treeLike : TreeLike Pchain :=
  treeLike_of_check (fun k => 3 - k) 3 (by decide +kernel)

theorem Ptree_treeLike : TreeLike Ptree :=
  treeLike_of_check (fun k => match k with | 0 => 2 | 1 => 1 | _ => 0) 2 (by decide +kernel)

theorem Pchain_chain : Chain Pchain := chain_of_check (fun k => 3 - k) (by decide +kernel)

theorem Schain_hyps0 : TreeHyps0 Schain := treeHyps0_of_check (by decide +kernel)

theorem Stree_hyps0 : TreeHyps0 Stree := treeHyps0_of_check (by decide +kernel)

end Rattr.Cex

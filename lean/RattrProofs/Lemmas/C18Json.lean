/-
  Helper lemmas for C18: the model's JSON printer is injective.

  `JVal.renderSp` (= `json.dumps` with its default separators; `Ser.dumpSorted j = renderSp (canon j)`
  is the model of `json.dumps(j, sort_keys=True)`) is shown injective on ALL `JVal`s, in the
  prefix-free form needed for the induction:
      renderSp a ++ r₁ = renderSp b ++ r₂  →  a = b ∧ r₁ = r₂      (r₁, r₂ not starting with a digit)
  by (1) a one-character decoder `unescape1` with `unescape1 (escapeChar c ++ r) = some (c, r)`
  (string escaping is uniquely decodable: quote, backslash, the five short escapes, `\uXXXX`, and a
  surrogate pair above the BMP — a Lean `Char` is a Unicode scalar value, so a pair can only come
  from one astral character), (2) decimal numerals are digit strings delimited by a non-digit,
  (3) the first character of a value determines its constructor, (4) structural induction.

  Then: `canon (unSymbol a) = canon (unSymbol b)` forces `a` and `b` to agree on everything but the
  ORDER of a `Call`'s keyword arguments (`sort_keys=True` sorts them), which Python's `==` on
  `frozendict` ignores too: two members of a Python set never differ that way (`Symbol.pyEq`).
-/
import RattrModel.Serialise
import RattrProofs.Lemmas.C18

namespace Rattr.C18J
open Rattr Rattr.Ser Rattr.JVal Rattr.C18L

/-! ### Characters -/

theorem char_ofNat_toNat (c : Char) : Char.ofNat c.toNat = c := by
  apply char_eq_of_toNat
  have hv := c.valid
  simp only [Char.toNat] at *
  rw [Char.ofNat, dif_pos (show c.val.toNat.isValidChar from hv)]
  rfl

/-- A `Char` is a Unicode scalar value: never a surrogate code point. -/
theorem char_not_surrogate (c : Char) : c.toNat < 55296 ∨ (57343 < c.toNat ∧ c.toNat < 1114112) := by
  have hv := c.valid
  simp only [UInt32.isValidChar, Nat.isValidChar] at hv
  exact hv

/-- Inverse of `hexDigit`. -/
def unhex (c : Char) : Option Nat :=
  if 48 ≤ c.toNat ∧ c.toNat ≤ 57 then some (c.toNat - 48)
  else if 97 ≤ c.toNat ∧ c.toNat ≤ 102 then some (c.toNat - 87)
  else none

theorem unhex_hexDigit : ∀ k, k < 16 → unhex (hexDigit k) = some k := by decide

/-- Reads one `\uXXXX`. -/
def unhex4 : Str → Option (Nat × Str)
  | b :: u :: a1 :: a2 :: a3 :: a4 :: rest =>
    if b = '\\' ∧ u = 'u' then
      match unhex a1, unhex a2, unhex a3, unhex a4 with
      | some x1, some x2, some x3, some x4 => some (4096 * x1 + 256 * x2 + 16 * x3 + x4, rest)
      | _, _, _, _ => none
    else none
  | _ => none

theorem unhex4_hex4 (n : Nat) (h : n < 65536) (r : Str) : unhex4 (hex4 n ++ r) = some (n, r) := by
  simp only [hex4, List.cons_append, List.nil_append, unhex4, and_self, if_true]
  rw [unhex_hexDigit _ (Nat.mod_lt _ (by decide)), unhex_hexDigit _ (Nat.mod_lt _ (by decide)),
    unhex_hexDigit _ (Nat.mod_lt _ (by decide)), unhex_hexDigit _ (Nat.mod_lt _ (by decide))]
  simp only [Option.some.injEq, Prod.mk.injEq, and_true]
  omega

/-- Decoder of ONE escaped character: the inverse of `escapeChar` on a prefix. `none` on the closing
quote. -/
def unescape1 : Str → Option (Char × Str)
  | [] => none
  | c :: rest =>
    if c = '"' then none
    else if c = '\\' then
      match rest with
      | [] => none
      | e :: rest' =>
        if e = '"' then some ('"', rest')
        else if e = '\\' then some ('\\', rest')
        else if e = 'n' then some ('\n', rest')
        else if e = 't' then some ('\t', rest')
        else if e = 'r' then some ('\r', rest')
        else if e = 'b' then some (Char.ofNat 8, rest')
        else if e = 'f' then some (Char.ofNat 12, rest')
        else match unhex4 (c :: e :: rest') with
          | none => none
          | some (v, rest'') =>
            if 55296 ≤ v ∧ v < 56320 then
              match unhex4 rest'' with
              | none => none
              | some (w, rest3) => some (Char.ofNat (65536 + (v - 55296) * 1024 + (w - 56320)), rest3)
            else some (Char.ofNat v, rest'')
    else some (c, rest)

theorem unescape1_hex (n : Nat) (r : Str) :
    unescape1 (hex4 n ++ r) =
      match unhex4 (hex4 n ++ r) with
      | none => none
      | some (v, rest'') =>
        if 55296 ≤ v ∧ v < 56320 then
          match unhex4 rest'' with
          | none => none
          | some (w, rest3) => some (Char.ofNat (65536 + (v - 55296) * 1024 + (w - 56320)), rest3)
        else some (Char.ofNat v, rest'') := by
  simp only [hex4, List.cons_append, List.nil_append, unescape1]
  rfl

/-- The escaping of one character is uniquely decodable, whatever follows. -/
theorem unescape1_escapeChar (c : Char) (r : Str) : unescape1 (escapeChar c ++ r) = some (c, r) := by
  unfold escapeChar
  split
  · next h => subst h; rfl
  split
  · next h => subst h; rfl
  split
  · next h => subst h; rfl
  split
  · next h => subst h; rfl
  split
  · next h => subst h; rfl
  split
  · next h =>
    have : c = Char.ofNat 8 := char_eq_of_toNat (by rw [h]; rfl)
    subst this; rfl
  split
  · next h =>
    have : c = Char.ofNat 12 := char_eq_of_toNat (by rw [h]; rfl)
    subst this; rfl
  split
  · next hq hb _ _ _ _ _ hr =>
    have hs := char_not_surrogate c
    simp only
    split
    · next hlt =>
      rw [unescape1_hex, unhex4_hex4 _ hlt]
      simp only
      rw [if_neg (by omega), char_ofNat_toNat]
    · next hge =>
      rw [List.append_assoc, unescape1_hex, unhex4_hex4 _ (by omega)]
      simp only
      rw [if_pos (by omega), unhex4_hex4 _ (by omega)]
      simp only
      have : 65536 + (55296 + (c.toNat - 65536) / 1024 - 55296) * 1024
          + (56320 + (c.toNat - 65536) % 1024 - 56320) = c.toNat := by omega
      rw [this, char_ofNat_toNat]
  · next hq hb _ _ _ _ _ hr =>
    simp only [List.cons_append, List.nil_append, unescape1, hq, hb, if_false]

theorem unescape1_quote (r : Str) : unescape1 ('"' :: r) = none := rfl

/-! ### Strings -/

theorem renderStr_inj_aux : ∀ (s t r₁ r₂ : Str),
    s.flatMap escapeChar ++ '"' :: r₁ = t.flatMap escapeChar ++ '"' :: r₂ → s = t ∧ r₁ = r₂
  | [], [], r₁, r₂, h => by
    simp only [List.flatMap_nil, List.nil_append, List.cons.injEq, true_and] at h
    exact ⟨rfl, h⟩
  | [], d :: t, r₁, r₂, h => by
    have := congrArg unescape1 h
    simp only [List.flatMap_nil, List.nil_append, List.flatMap_cons, List.append_assoc,
      unescape1_quote, unescape1_escapeChar] at this
    cases this
  | c :: s, [], r₁, r₂, h => by
    have := congrArg unescape1 h
    simp only [List.flatMap_nil, List.nil_append, List.flatMap_cons, List.append_assoc,
      unescape1_quote, unescape1_escapeChar] at this
    cases this
  | c :: s, d :: t, r₁, r₂, h => by
    have := congrArg unescape1 h
    simp only [List.flatMap_cons, List.append_assoc, unescape1_escapeChar, Option.some.injEq,
      Prod.mk.injEq] at this
    obtain ⟨hcd, hrest⟩ := this
    obtain ⟨hst, hr⟩ := renderStr_inj_aux s t r₁ r₂ hrest
    exact ⟨by rw [hcd, hst], hr⟩

/-- A string literal is self-delimiting. -/
theorem renderStr_inj (s t r₁ r₂ : Str) (h : renderStr s ++ r₁ = renderStr t ++ r₂) :
    s = t ∧ r₁ = r₂ := by
  simp only [renderStr, List.cons_append, List.append_assoc, List.cons.injEq, true_and] at h
  exact renderStr_inj_aux s t r₁ r₂ h

/-! ### Numbers -/

/-- "does not start with a digit": what follows a number in a document (`,` `]` `}` or the end). -/
def NDH (r : Str) : Prop := ∀ c t, r = c :: t → c.isDigit = false

theorem ndh_nil : NDH [] := fun _ _ h => by cases h

theorem ndh_cons {c : Char} (r : Str) (h : c.isDigit = false) : NDH (c :: r) := by
  intro d t e
  cases e
  exact h

theorem digits_split : ∀ (d₁ d₂ r₁ r₂ : Str), (∀ c, c ∈ d₁ → c.isDigit = true) →
    (∀ c, c ∈ d₂ → c.isDigit = true) → NDH r₁ → NDH r₂ → d₁ ++ r₁ = d₂ ++ r₂ → d₁ = d₂ ∧ r₁ = r₂
  | [], [], _, _, _, _, _, _, h => ⟨rfl, h⟩
  | [], c :: d₂, r₁, r₂, _, h2, n1, _, h => by
    have := n1 c (d₂ ++ r₂) h
    rw [h2 c List.mem_cons_self] at this
    cases this
  | c :: d₁, [], r₁, r₂, h1, _, _, n2, h => by
    have := n2 c (d₁ ++ r₁) h.symm
    rw [h1 c List.mem_cons_self] at this
    cases this
  | c :: d₁, e :: d₂, r₁, r₂, h1, h2, n1, n2, h => by
    simp only [List.cons_append, List.cons.injEq] at h
    obtain ⟨hd, hr⟩ := digits_split d₁ d₂ r₁ r₂ (fun x hx => h1 x (List.mem_cons_of_mem _ hx))
      (fun x hx => h2 x (List.mem_cons_of_mem _ hx)) n1 n2 h.2
    exact ⟨by rw [h.1, hd], hr⟩

theorem renderNat_eq (n : Nat) : renderNat n = Nat.toDigits 10 n := Nat.toList_repr

theorem renderNat_digits (n : Nat) : ∀ c, c ∈ renderNat n → c.isDigit = true := by
  intro c hc
  rw [renderNat_eq] at hc
  exact Nat.isDigit_of_mem_toDigits (by decide) (by decide) hc

theorem renderNat_injective {n m : Nat} (h : renderNat n = renderNat m) : n = m := by
  rw [renderNat_eq, renderNat_eq] at h
  have := congrArg (fun l => Nat.ofDigitChars 10 l 0) h
  simpa using this

theorem renderNat_head (n : Nat) : ∃ c t, renderNat n = c :: t ∧ c.isDigit = true := by
  have hne : renderNat n ≠ [] := by rw [renderNat_eq]; exact Nat.toDigits_ne_nil
  match hr : renderNat n with
  | [] => exact absurd hr hne
  | c :: t => exact ⟨c, t, rfl, renderNat_digits n c (by rw [hr]; exact List.mem_cons_self)⟩

/-- A decimal numeral followed by a non-digit is self-delimiting. -/
theorem renderInt_inj (n m : Int) (r₁ r₂ : Str) (n1 : NDH r₁) (n2 : NDH r₂)
    (h : renderInt n ++ r₁ = renderInt m ++ r₂) : n = m ∧ r₁ = r₂ := by
  cases n with
  | ofNat a =>
    cases m with
    | ofNat b =>
      simp only [renderInt] at h
      obtain ⟨hd, hr⟩ := digits_split _ _ _ _ (renderNat_digits a) (renderNat_digits b) n1 n2 h
      exact ⟨by rw [renderNat_injective hd], hr⟩
    | negSucc b =>
      obtain ⟨c, t, hc, hdig⟩ := renderNat_head a
      simp only [renderInt, hc, List.cons_append, List.cons.injEq] at h
      rw [h.1] at hdig
      cases hdig
  | negSucc a =>
    cases m with
    | ofNat b =>
      obtain ⟨c, t, hc, hdig⟩ := renderNat_head b
      simp only [renderInt, hc, List.cons_append, List.cons.injEq] at h
      rw [← h.1] at hdig
      cases hdig
    | negSucc b =>
      simp only [renderInt, List.cons_append, List.cons.injEq, true_and] at h
      obtain ⟨hd, hr⟩ := digits_split _ _ _ _ (renderNat_digits _) (renderNat_digits _) n1 n2 h
      have := renderNat_injective hd
      exact ⟨by rw [show a = b by omega], hr⟩

theorem renderInt_head (n : Int) : ∃ c t, renderInt n = c :: t ∧ (c = '-' ∨ c.isDigit = true) := by
  cases n with
  | ofNat a =>
    obtain ⟨c, t, hc, hd⟩ := renderNat_head a
    exact ⟨c, t, by simp only [renderInt, hc], Or.inr hd⟩
  | negSucc a => exact ⟨'-', _, rfl, Or.inl rfl⟩

/-! ### The first character of a value determines its constructor -/

def startKind (c : Char) : Nat :=
  if c = 'n' then 0 else if c = 't' then 1 else if c = 'f' then 2 else if c = '"' then 4
  else if c = '[' then 5 else if c = '{' then 6 else if c = '-' ∨ c.isDigit = true then 3 else 7

def kind : JVal → Nat
  | .null => 0
  | .bool true => 1
  | .bool false => 2
  | .num _ => 3
  | .str _ => 4
  | .arr _ => 5
  | .obj _ => 6

theorem startKind_num {c : Char} (h : c = '-' ∨ c.isDigit = true) : startKind c = 3 := by
  unfold startKind
  have e : ∀ d : Char, (d = '-' ∨ d.isDigit = true) = false → c ≠ d := by
    intro d hd hcd
    rw [hcd] at h
    simp [h] at hd
  rw [if_neg (e 'n' (by decide)), if_neg (e 't' (by decide)), if_neg (e 'f' (by decide)),
    if_neg (e '"' (by decide)), if_neg (e '[' (by decide)), if_neg (e '{' (by decide)), if_pos h]

theorem head_renderSp (a : JVal) : ∃ c t, renderSp a = c :: t ∧ startKind c = kind a := by
  cases a with
  | null => exact ⟨'n', ['u', 'l', 'l'], by simp only [renderSp], (by decide : startKind 'n' = 0)⟩
  | bool b =>
    cases b
    · exact ⟨'f', ['a', 'l', 's', 'e'], by simp only [renderSp], (by decide : startKind 'f' = 2)⟩
    · exact ⟨'t', ['r', 'u', 'e'], by simp only [renderSp], (by decide : startKind 't' = 1)⟩
  | num n =>
    obtain ⟨c, t, hc, hk⟩ := renderInt_head n
    exact ⟨c, t, by simp only [renderSp, hc], by rw [startKind_num hk]; rfl⟩
  | str s =>
    exact ⟨'"', s.flatMap escapeChar ++ ['"'], by simp only [renderSp, renderStr],
      (by decide : startKind '"' = 4)⟩
  | arr xs =>
    exact ⟨'[', renderSpList xs ++ [']'], by simp only [renderSp], (by decide : startKind '[' = 5)⟩
  | obj kvs =>
    exact ⟨'{', renderSpKvs kvs ++ ['}'], by simp only [renderSp], (by decide : startKind '{' = 6)⟩

theorem kind_eq_of_render {a b : JVal} {r₁ r₂ : Str} (h : renderSp a ++ r₁ = renderSp b ++ r₂) :
    kind a = kind b := by
  obtain ⟨c, t, hc, hk⟩ := head_renderSp a
  obtain ⟨d, u, hd, hk'⟩ := head_renderSp b
  rw [hc, hd] at h
  simp only [List.cons_append, List.cons.injEq] at h
  rw [← hk, ← hk', h.1]

/-- A value never starts with `]`, `}` or `,`. -/
theorem render_head_ne (a : JVal) (r : Str) (c : Char) (t : Str) (hc : startKind c = 7)
    (h : renderSp a ++ r = c :: t) : False := by
  obtain ⟨d, u, hd, hk⟩ := head_renderSp a
  rw [hd] at h
  simp only [List.cons_append, List.cons.injEq] at h
  rw [h.1, hc] at hk
  cases a with
  | bool b => cases b <;> simp [kind] at hk
  | _ => simp [kind] at hk

/-! ### Lists and objects: head/tail form of the separators -/

def sepTail : List JVal → Str
  | [] => []
  | b :: r => ',' :: ' ' :: renderSpList (b :: r)

theorem renderSpList_cons (a : JVal) (r : List JVal) :
    renderSpList (a :: r) = renderSp a ++ sepTail r := by
  cases r with
  | nil => simp [renderSpList, sepTail]
  | cons b r => simp [renderSpList, sepTail]

def sepTailK : List (Str × JVal) → Str
  | [] => []
  | b :: r => ',' :: ' ' :: renderSpKvs (b :: r)

theorem renderSpKvs_cons (k : Str) (a : JVal) (r : List (Str × JVal)) :
    renderSpKvs ((k, a) :: r) = renderStr k ++ (':' :: ' ' :: (renderSp a ++ sepTailK r)) := by
  cases r with
  | nil => simp [renderSpKvs, sepTailK]
  | cons b r => simp [renderSpKvs, sepTailK]

theorem ndh_sepTail (r : List JVal) (c : Char) (s : Str) (hc : c.isDigit = false) :
    NDH (sepTail r ++ c :: s) := by
  cases r with
  | nil => exact ndh_cons _ hc
  | cons b r => exact ndh_cons _ (by decide)

theorem ndh_sepTailK (r : List (Str × JVal)) (c : Char) (s : Str) (hc : c.isDigit = false) :
    NDH (sepTailK r ++ c :: s) := by
  cases r with
  | nil => exact ndh_cons _ hc
  | cons b r => exact ndh_cons _ (by decide)

theorem kind_cases (b : JVal) :
    (kind b = 0 → b = .null) ∧ (kind b = 1 → b = .bool true) ∧ (kind b = 2 → b = .bool false)
    ∧ (kind b = 3 → ∃ n, b = .num n) ∧ (kind b = 4 → ∃ s, b = .str s)
    ∧ (kind b = 5 → ∃ xs, b = .arr xs) ∧ (kind b = 6 → ∃ kvs, b = .obj kvs) := by
  cases b with
  | bool x => cases x <;> simp [kind]
  | _ => simp [kind]

/-! ### The printer is injective -/

mutual
/-- Unique readability of a printed value followed by anything that does not start with a digit. -/
theorem renderSp_inj : ∀ (a b : JVal) (r₁ r₂ : Str), NDH r₁ → NDH r₂ →
    renderSp a ++ r₁ = renderSp b ++ r₂ → a = b ∧ r₁ = r₂
  | .null, b, r₁, r₂, _, _, h => by
    have hb := (kind_cases b).1 (kind_eq_of_render h).symm
    subst hb
    simp only [renderSp, List.cons_append, List.nil_append, List.cons.injEq, true_and] at h
    exact ⟨rfl, h⟩
  | .bool true, b, r₁, r₂, _, _, h => by
    have hb := (kind_cases b).2.1 (kind_eq_of_render h).symm
    subst hb
    simp only [renderSp, List.cons_append, List.nil_append, List.cons.injEq, true_and] at h
    exact ⟨rfl, h⟩
  | .bool false, b, r₁, r₂, _, _, h => by
    have hb := (kind_cases b).2.2.1 (kind_eq_of_render h).symm
    subst hb
    simp only [renderSp, List.cons_append, List.nil_append, List.cons.injEq, true_and] at h
    exact ⟨rfl, h⟩
  | .num n, b, r₁, r₂, n1, n2, h => by
    obtain ⟨m, hb⟩ := (kind_cases b).2.2.2.1 (kind_eq_of_render h).symm
    subst hb
    simp only [renderSp] at h
    obtain ⟨e, hr⟩ := renderInt_inj n m r₁ r₂ n1 n2 h
    exact ⟨by rw [e], hr⟩
  | .str s, b, r₁, r₂, _, _, h => by
    obtain ⟨t, hb⟩ := (kind_cases b).2.2.2.2.1 (kind_eq_of_render h).symm
    subst hb
    simp only [renderSp] at h
    obtain ⟨e, hr⟩ := renderStr_inj s t r₁ r₂ h
    exact ⟨by rw [e], hr⟩
  | .arr xs, b, r₁, r₂, _, _, h => by
    obtain ⟨ys, hb⟩ := (kind_cases b).2.2.2.2.2.1 (kind_eq_of_render h).symm
    subst hb
    simp only [renderSp, List.cons_append, List.append_assoc, List.nil_append, List.cons.injEq,
      true_and] at h
    obtain ⟨e, hr⟩ := renderSpList_inj xs ys r₁ r₂ h
    exact ⟨by rw [e], hr⟩
  | .obj kvs, b, r₁, r₂, _, _, h => by
    obtain ⟨kvs', hb⟩ := (kind_cases b).2.2.2.2.2.2 (kind_eq_of_render h).symm
    subst hb
    simp only [renderSp, List.cons_append, List.append_assoc, List.nil_append, List.cons.injEq,
      true_and] at h
    obtain ⟨e, hr⟩ := renderSpKvs_inj kvs kvs' r₁ r₂ h
    exact ⟨by rw [e], hr⟩
theorem renderSpList_inj : ∀ (xs ys : List JVal) (r₁ r₂ : Str),
    renderSpList xs ++ ']' :: r₁ = renderSpList ys ++ ']' :: r₂ → xs = ys ∧ r₁ = r₂
  | [], [], r₁, r₂, h => by
    simp only [renderSpList, List.nil_append, List.cons.injEq, true_and] at h
    exact ⟨rfl, h⟩
  | [], b :: s, r₁, r₂, h => by
    rw [renderSpList_cons, List.append_assoc] at h
    simp only [renderSpList, List.nil_append] at h
    exact (render_head_ne b _ ']' r₁ (by decide) h.symm).elim
  | a :: r, [], r₁, r₂, h => by
    rw [renderSpList_cons, List.append_assoc] at h
    simp only [renderSpList, List.nil_append] at h
    exact (render_head_ne a _ ']' r₂ (by decide) h).elim
  | a :: r, b :: s, r₁, r₂, h => by
    have iha := renderSp_inj a b (sepTail r ++ ']' :: r₁) (sepTail s ++ ']' :: r₂)
      (ndh_sepTail r _ _ (by decide)) (ndh_sepTail s _ _ (by decide))
    have ihr := renderSpList_inj r s r₁ r₂
    rw [renderSpList_cons, renderSpList_cons, List.append_assoc, List.append_assoc] at h
    obtain ⟨hab, ht⟩ := iha h
    subst hab
    cases r with
    | nil =>
      cases s with
      | nil =>
        simp only [sepTail, List.nil_append, List.cons.injEq, true_and] at ht
        exact ⟨rfl, ht⟩
      | cons b' s' => simp [sepTail] at ht
    | cons a' r' =>
      cases s with
      | nil => simp [sepTail] at ht
      | cons b' s' =>
        simp only [sepTail, List.cons_append, List.cons.injEq, true_and] at ht
        obtain ⟨e, hr⟩ := ihr ht
        exact ⟨by rw [e], hr⟩
theorem renderSpKvs_inj : ∀ (xs ys : List (Str × JVal)) (r₁ r₂ : Str),
    renderSpKvs xs ++ '}' :: r₁ = renderSpKvs ys ++ '}' :: r₂ → xs = ys ∧ r₁ = r₂
  | [], [], r₁, r₂, h => by
    simp only [renderSpKvs, List.nil_append, List.cons.injEq, true_and] at h
    exact ⟨rfl, h⟩
  | [], (l, b) :: s, r₁, r₂, h => by
    rw [renderSpKvs_cons] at h
    simp [renderSpKvs, renderStr] at h
  | (k, a) :: r, [], r₁, r₂, h => by
    rw [renderSpKvs_cons] at h
    simp [renderSpKvs, renderStr] at h
  | (k, a) :: r, (l, b) :: s, r₁, r₂, h => by
    have iha := renderSp_inj a b (sepTailK r ++ '}' :: r₁) (sepTailK s ++ '}' :: r₂)
      (ndh_sepTailK r _ _ (by decide)) (ndh_sepTailK s _ _ (by decide))
    have ihr := renderSpKvs_inj r s r₁ r₂
    rw [renderSpKvs_cons, renderSpKvs_cons, List.append_assoc, List.append_assoc] at h
    obtain ⟨hkl, hrest⟩ := renderStr_inj k l _ _ h
    subst hkl
    simp only [List.cons_append, List.append_assoc, List.cons.injEq, true_and] at hrest
    obtain ⟨hab, ht⟩ := iha hrest
    subst hab
    cases r with
    | nil =>
      cases s with
      | nil =>
        simp only [sepTailK, List.nil_append, List.cons.injEq, true_and] at ht
        exact ⟨rfl, ht⟩
      | cons b' s' => simp [sepTailK] at ht
    | cons a' r' =>
      cases s with
      | nil => simp [sepTailK] at ht
      | cons b' s' =>
        simp only [sepTailK, List.cons_append, List.cons.injEq, true_and] at ht
        obtain ⟨e, hr⟩ := ihr ht
        exact ⟨by rw [e], hr⟩
end

/-- `json.dumps` (default separators, keys in stored order) is injective on every JSON value. -/
theorem renderSp_injective {a b : JVal} (h : renderSp a = renderSp b) : a = b :=
  (renderSp_inj a b [] [] ndh_nil ndh_nil (by rw [List.append_nil, List.append_nil]; exact h)).1

/-! ### `sort_keys=True` does not change what a key looks up -/

theorem strLe_refl (a : Str) : strLe a a = true := by
  rcases strLe_total a a with h | h <;> exact h

theorem get?_insertBy (p : Str × JVal) : ∀ (l : List (Str × JVal)) (k : Str),
    get? (insertBy strLe (fun q => q.1) p l) k = get? (p :: l) k
  | [], _ => rfl
  | q :: r, k => by
    obtain ⟨pk, pv⟩ := p
    obtain ⟨qk, qv⟩ := q
    simp only [insertBy]
    split
    · rfl
    · next hle =>
      have hne : qk ≠ pk := by
        intro e
        rw [e, strLe_refl] at hle
        exact hle rfl
      have ih := get?_insertBy (pk, pv) r k
      simp only [get?] at ih ⊢
      rw [ih]
      by_cases h1 : qk = k
      · have h2 : ¬ pk = k := fun e => hne (h1.trans e.symm)
        simp [h1, h2]
      · simp [h1]

/-- The sort is stable, so the FIRST entry of a key stays the first: lookups are unchanged. -/
theorem get?_sortBy : ∀ (l : List (Str × JVal)) (k : Str),
    get? (sortBy strLe (fun q => q.1) l) k = get? l k
  | [], _ => rfl
  | p :: r, k => by
    simp only [sortBy]
    rw [get?_insertBy]
    obtain ⟨pk, pv⟩ := p
    simp only [get?, get?_sortBy r k]

theorem get?_canonKvs : ∀ (l : List (Str × JVal)) (k : Str),
    get? (canonKvs l) k = (get? l k).map canon
  | [], _ => rfl
  | (pk, pv) :: r, k => by
    simp only [canonKvs, get?]
    split
    · rfl
    · exact get?_canonKvs r k

/-- `d.get(k)` on a JSON value. -/
def jget (j : JVal) (k : Str) : Option JVal :=
  match j with
  | .obj kvs => get? kvs k
  | _ => none

theorem jget_canon (j : JVal) (k : Str) : jget (canon j) k = (jget j k).map canon := by
  cases j <;> simp [canon, jget, get?_sortBy, get?_canonKvs]

theorem canon_field {a b : JVal} (h : canon a = canon b) (k : Str) :
    (jget a k).map canon = (jget b k).map canon := by
  rw [← jget_canon, ← jget_canon, h]

/-! ### `canon` on the leaves of the symbol documents -/

theorem canonList_strs : ∀ l : List Str, canonList (l.map JVal.str) = l.map JVal.str
  | [] => rfl
  | a :: r => by simp [canonList, canon, canonList_strs r]

theorem canon_ofStrList (l : List Str) : canon (ofStrList l) = ofStrList l := by
  simp [ofStrList, canon, canonList_strs]

theorem canon_ofOptStr (o : Option Str) : canon (ofOptStr o) = ofOptStr o := by
  cases o <;> simp [ofOptStr, canon]

theorem canon_ofOptInt (o : Option Int) : canon (ofOptInt o) = ofOptInt o := by
  cases o <;> simp [ofOptInt, canon]

theorem ofStrList_inj {l l' : List Str} (h : ofStrList l = ofStrList l') : l = l' := by
  simp only [ofStrList, JVal.arr.injEq] at h
  induction l generalizing l' with
  | nil => cases l' <;> simp_all
  | cons a r ih =>
    cases l' with
    | nil => simp at h
    | cons b s =>
      simp only [List.map_cons, List.cons.injEq, JVal.str.injEq] at h
      rw [h.1, ih h.2]

theorem ofOptStr_inj {a b : Option Str} (h : ofOptStr a = ofOptStr b) : a = b := by
  cases a <;> cases b <;> simp_all [ofOptStr]

theorem ofOptInt_inj {a b : Option Int} (h : ofOptInt a = ofOptInt b) : a = b := by
  cases a <;> cases b <;> simp_all [ofOptInt]

theorem canonKvs_strs : ∀ kw : List (Str × Str),
    canonKvs (kw.map fun (k, v) => (k, JVal.str v)) = kw.map fun (k, v) => (k, JVal.str v)
  | [] => rfl
  | (k, v) :: r => by simp [canonKvs, canon, canonKvs_strs r]

/-! ### The symbol documents: `canon ∘ un*` is injective (up to keyword-argument order) -/

theorem canon_unLocation_inj {a b : Location} (h : canon (unLocation a) = canon (unLocation b)) :
    a = b := by
  have h1 := canon_field h kLineno
  have h2 := canon_field h kColOffset
  have h3 := canon_field h kEndLineno
  have h4 := canon_field h kEndColOffset
  have h5 := canon_field h kFile
  obtain ⟨a1, a2, a3, a4, a5⟩ := a
  obtain ⟨b1, b2, b3, b4, b5⟩ := b
  change (some (JVal.num a1)).map canon = (some (JVal.num b1)).map canon at h1
  change (some (JVal.num a2)).map canon = (some (JVal.num b2)).map canon at h2
  change (some (ofOptInt a3)).map canon = (some (ofOptInt b3)).map canon at h3
  change (some (ofOptInt a4)).map canon = (some (ofOptInt b4)).map canon at h4
  change (some (JVal.str a5)).map canon = (some (JVal.str b5)).map canon at h5
  simp only [Option.map_some, canon, canon_ofOptInt, Option.some.injEq, JVal.num.injEq,
    JVal.str.injEq] at h1 h2 h3 h4 h5
  rw [h1, h2, ofOptInt_inj h3, ofOptInt_inj h4, h5]

theorem canon_unIface_inj {a b : CallIface} (h : canon (unIface a) = canon (unIface b)) : a = b := by
  cases a with
  | any =>
    cases b with
    | any => rfl
    | mk j => simp [unIface, canon] at h
  | mk i =>
    cases b with
    | any => simp [unIface, canon] at h
    | mk j =>
      have h1 := canon_field h kPosonlyargs
      have h2 := canon_field h kArgs
      have h3 := canon_field h kVararg
      have h4 := canon_field h kKwonlyargs
      have h5 := canon_field h kKwarg
      obtain ⟨a1, a2, a3, a4, a5⟩ := i
      obtain ⟨b1, b2, b3, b4, b5⟩ := j
      change (some (ofStrList a1)).map canon = (some (ofStrList b1)).map canon at h1
      change (some (ofStrList a2)).map canon = (some (ofStrList b2)).map canon at h2
      change (some (ofOptStr a3)).map canon = (some (ofOptStr b3)).map canon at h3
      change (some (ofStrList a4)).map canon = (some (ofStrList b4)).map canon at h4
      change (some (ofOptStr a5)).map canon = (some (ofOptStr b5)).map canon at h5
      simp only [Option.map_some, canon_ofStrList, canon_ofOptStr, Option.some.injEq] at h1 h2 h3 h4 h5
      rw [ofStrList_inj h1, ofStrList_inj h2, ofOptStr_inj h3, ofStrList_inj h4, ofOptStr_inj h5]

theorem unIface_not_null (i : CallIface) : canon (unIface i) ≠ .null := by
  cases i <;> simp [unIface, canon]

theorem canon_unOptIface_inj {a b : Option CallIface}
    (h : canon (unOptIface a) = canon (unOptIface b)) : a = b := by
  cases a with
  | none =>
    cases b with
    | none => rfl
    | some j => exact absurd h.symm (by simpa [unOptIface, canon] using unIface_not_null j)
  | some i =>
    cases b with
    | none => exact absurd h (by simpa [unOptIface, canon] using unIface_not_null i)
    | some j => rw [canon_unIface_inj (a := i) (b := j) h]

def Target.tag : Target → Str
  | .name .. => tagName
  | .builtin .. => tagBuiltin
  | .import_ .. => tagImport
  | .func .. => tagFunc
  | .cls .. => tagClass

theorem jget_type_unTarget (t : Target) : jget (unTarget t) kType = some (.str (Target.tag t)) := by
  cases t <;> rfl

theorem tag_eq_of_canon {t t' : Target} (h : canon (unTarget t) = canon (unTarget t')) :
    Target.tag t = Target.tag t' := by
  have h1 := canon_field h kType
  rw [jget_type_unTarget, jget_type_unTarget] at h1
  simpa [canon] using h1

theorem canon_unTarget_inj {t t' : Target} (h : canon (unTarget t) = canon (unTarget t')) :
    t = t' := by
  have htag := tag_eq_of_canon h
  have hn := canon_field h kName
  have hl := canon_field h kLocation
  have hi := canon_field h kInterface
  cases t with
  | name n b l i =>
    cases t' with
    | name n' b' l' i' =>
      have hb := canon_field h kBasename
      change (some (JVal.str n)).map canon = (some (JVal.str n')).map canon at hn
      change (some (JVal.str b)).map canon = (some (JVal.str b')).map canon at hb
      change (some (unLocation l)).map canon = (some (unLocation l')).map canon at hl
      change (some (unOptIface i)).map canon = (some (unOptIface i')).map canon at hi
      simp only [Option.map_some, canon, Option.some.injEq, JVal.str.injEq] at hn hb hl hi
      rw [hn, hb, canon_unLocation_inj hl, canon_unOptIface_inj hi]
    | _ => simp only [Target.tag] at htag; exact absurd htag (by decide)
  | builtin n l i =>
    cases t' with
    | builtin n' l' i' =>
      change (some (JVal.str n)).map canon = (some (JVal.str n')).map canon at hn
      change (some (unLocation l)).map canon = (some (unLocation l')).map canon at hl
      change (some (unIface i)).map canon = (some (unIface i')).map canon at hi
      simp only [Option.map_some, canon, Option.some.injEq, JVal.str.injEq] at hn hl hi
      rw [hn, canon_unLocation_inj hl, canon_unIface_inj hi]
    | _ => simp only [Target.tag] at htag; exact absurd htag (by decide)
  | import_ n q l i =>
    cases t' with
    | import_ n' q' l' i' =>
      have hq := canon_field h kQualifiedName
      change (some (JVal.str n)).map canon = (some (JVal.str n')).map canon at hn
      change (some (JVal.str q)).map canon = (some (JVal.str q')).map canon at hq
      change (some (unLocation l)).map canon = (some (unLocation l')).map canon at hl
      change (some (unIface i)).map canon = (some (unIface i')).map canon at hi
      simp only [Option.map_some, canon, Option.some.injEq, JVal.str.injEq] at hn hq hl hi
      rw [hn, hq, canon_unLocation_inj hl, canon_unIface_inj hi]
    | _ => simp only [Target.tag] at htag; exact absurd htag (by decide)
  | func n l i a =>
    cases t' with
    | func n' l' i' a' =>
      have ha := canon_field h kIsAsync
      change (some (JVal.str n)).map canon = (some (JVal.str n')).map canon at hn
      change (some (JVal.bool a)).map canon = (some (JVal.bool a')).map canon at ha
      change (some (unLocation l)).map canon = (some (unLocation l')).map canon at hl
      change (some (unIface i)).map canon = (some (unIface i')).map canon at hi
      simp only [Option.map_some, canon, Option.some.injEq, JVal.str.injEq, JVal.bool.injEq]
        at hn ha hl hi
      rw [hn, ha, canon_unLocation_inj hl, canon_unIface_inj hi]
    | _ => simp only [Target.tag] at htag; exact absurd htag (by decide)
  | cls n l i =>
    cases t' with
    | cls n' l' i' =>
      change (some (JVal.str n)).map canon = (some (JVal.str n')).map canon at hn
      change (some (unLocation l)).map canon = (some (unLocation l')).map canon at hl
      change (some (unIface i)).map canon = (some (unIface i')).map canon at hi
      simp only [Option.map_some, canon, Option.some.injEq, JVal.str.injEq] at hn hl hi
      rw [hn, canon_unLocation_inj hl, canon_unIface_inj hi]
    | _ => simp only [Target.tag] at htag; exact absurd htag (by decide)

theorem unTarget_obj (t : Target) : ∃ kvs, unTarget t = .obj kvs := by
  cases t <;> exact ⟨_, rfl⟩

theorem canon_unTarget_not_null (t : Target) : canon (unTarget t) ≠ .null := by
  obtain ⟨kvs, h⟩ := unTarget_obj t
  rw [h]
  simp [canon]

theorem canon_unOptTarget_inj {a b : Option Target}
    (h : canon (unOptTarget a) = canon (unOptTarget b)) : a = b := by
  cases a with
  | none =>
    cases b with
    | none => rfl
    | some j => exact absurd h.symm (by simpa [unOptTarget, canon] using canon_unTarget_not_null j)
  | some i =>
    cases b with
    | none => exact absurd h (by simpa [unOptTarget, canon] using canon_unTarget_not_null i)
    | some j => rw [canon_unTarget_inj (t := i) (t' := j) h]

/-- Left inverse of the keyword-argument entry encoding. -/
def kwBack (p : Str × JVal) : Str × Str :=
  (p.1, match p.2 with | .str s => s | _ => [])

theorem kwBack_map (kw : List (Str × Str)) :
    (kw.map fun (k, v) => (k, JVal.str v)).map kwBack = kw := by
  induction kw with
  | nil => rfl
  | cons p r ih =>
    obtain ⟨k, v⟩ := p
    simp only [List.map_cons, kwBack, List.cons.injEq, true_and]
    exact ih

/-- `sort_keys=True` forgets exactly the ORDER of the keyword arguments. -/
theorem canon_kwargs_perm {kw kw' : List (Str × Str)}
    (h : canon (.obj (kw.map fun (k, v) => (k, JVal.str v)))
       = canon (.obj (kw'.map fun (k, v) => (k, JVal.str v)))) : kw.Perm kw' := by
  simp only [canon, canonKvs_strs, JVal.obj.injEq] at h
  have p1 := perm_sortBy strLe (fun q : Str × JVal => q.1) (kw.map fun (k, v) => (k, JVal.str v))
  have p2 := perm_sortBy strLe (fun q : Str × JVal => q.1) (kw'.map fun (k, v) => (k, JVal.str v))
  rw [h] at p1
  have p := (p1.symm.trans p2).map kwBack
  rw [kwBack_map, kwBack_map] at p
  exact p

theorem canon_unCallArgs_inj {a b : CallArgs Str} (h : canon (unCallArgs a) = canon (unCallArgs b)) :
    a.args = b.args ∧ a.kwargs.Perm b.kwargs := by
  have h1 := canon_field h kArgs
  have h2 := canon_field h kKwargs
  obtain ⟨a1, a2⟩ := a
  obtain ⟨b1, b2⟩ := b
  change (some (ofStrList a1)).map canon = (some (ofStrList b1)).map canon at h1
  change (some (JVal.obj (a2.map fun (k, v) => (k, JVal.str v)))).map canon
    = (some (JVal.obj (b2.map fun (k, v) => (k, JVal.str v)))).map canon at h2
  simp only [Option.map_some, canon_ofStrList, Option.some.injEq] at h1 h2
  exact ⟨ofStrList_inj h1, canon_kwargs_perm h2⟩

/-- Two symbols that differ at most in the order of a `Call`'s keyword arguments. -/
def SymEqModKw : Symbol → Symbol → Prop
  | .base t, .base t' => t = t'
  | .call n a t l, .call n' a' t' l' =>
    n = n' ∧ a.args = a'.args ∧ a.kwargs.Perm a'.kwargs ∧ t = t' ∧ l = l'
  | _, _ => False

theorem jget_type_unSymbol_call (n : Str) (a : CallArgs Str) (t : Option Target) (l : Location) :
    jget (unSymbol (.call n a t l)) kType = some (.str tagCall) := rfl

theorem tag_ne_call (t : Target) : Target.tag t ≠ tagCall := by
  cases t <;> simp only [Target.tag] <;> decide

/-- The sorted-keys document determines the symbol, up to keyword-argument order. -/
theorem canon_unSymbol_inj {a b : Symbol} (h : canon (unSymbol a) = canon (unSymbol b)) :
    SymEqModKw a b := by
  have hty := canon_field h kType
  cases a with
  | base t =>
    cases b with
    | base t' => exact canon_unTarget_inj (t := t) (t' := t') h
    | call n' a' t' l' =>
      change (jget (unTarget t) kType).map canon = _ at hty
      rw [jget_type_unTarget, jget_type_unSymbol_call] at hty
      simp only [Option.map_some, canon, Option.some.injEq, JVal.str.injEq] at hty
      exact absurd hty (tag_ne_call t)
  | call n a t l =>
    cases b with
    | base t' =>
      change _ = (jget (unTarget t') kType).map canon at hty
      rw [jget_type_unTarget, jget_type_unSymbol_call] at hty
      simp only [Option.map_some, canon, Option.some.injEq, JVal.str.injEq] at hty
      exact absurd hty.symm (tag_ne_call t')
    | call n' a' t' l' =>
      have hn := canon_field h kName
      have ha := canon_field h kArgs
      have ht := canon_field h kTarget
      have hl := canon_field h kLocation
      change (some (JVal.str n)).map canon = (some (JVal.str n')).map canon at hn
      change (some (unCallArgs a)).map canon = (some (unCallArgs a')).map canon at ha
      change (some (unOptTarget t)).map canon = (some (unOptTarget t')).map canon at ht
      change (some (unLocation l)).map canon = (some (unLocation l')).map canon at hl
      simp only [Option.map_some, canon, Option.some.injEq, JVal.str.injEq] at hn ha ht hl
      obtain ⟨e1, e2⟩ := canon_unCallArgs_inj ha
      exact ⟨hn, e1, e2, canon_unOptTarget_inj ht, canon_unLocation_inj hl⟩

/-- `json.dumps(·, sort_keys=True)` separates two unstructured symbols unless they differ only in
the order of a `Call`'s keyword arguments. -/
theorem dumpSorted_unSymbol_inj {a b : Symbol}
    (h : dumpSorted (unSymbol a) = dumpSorted (unSymbol b)) : SymEqModKw a b :=
  canon_unSymbol_inj (renderSp_injective h)

/-! ### … and Python's `==` identifies exactly those -/

theorem Target.pyEq_refl (t : Target) : t.pyEq t = true := by
  cases t <;> simp [Target.pyEq]

theorem optPyEq_refl (t : Option Target) : optPyEq t t = true := by
  cases t with
  | none => rfl
  | some t => exact Target.pyEq_refl t

theorem pyEq_of_symEqModKw {a b : Symbol} (h : SymEqModKw a b) : a.pyEq b = true := by
  cases a with
  | base t =>
    cases b with
    | base t' =>
      have : t = t' := h
      subst this
      exact Target.pyEq_refl t
    | call _ _ _ _ => exact False.elim h
  | call n a t l =>
    cases b with
    | base t' => exact False.elim h
    | call n' a' t' l' =>
      obtain ⟨e1, e2, e3, e4, _⟩ := h
      subst e1; subst e4
      simp only [Symbol.pyEq, callArgsPyEq, e2, optPyEq_refl, List.isPerm_iff.mpr e3, beq_self_eq_true,
        Bool.and_self]

/-- The keyword arguments of a `Call` (none for the other kinds). -/
def symKwargs : Symbol → List (Str × Str)
  | .base _ => []
  | .call _ a _ _ => a.kwargs

theorem symEqModKw_perm {a b : Symbol} (h : SymEqModKw a b) : (symKwargs a).Perm (symKwargs b) := by
  cases a with
  | base t =>
    cases b with
    | base t' => exact List.Perm.refl _
    | call _ _ _ _ => exact False.elim h
  | call n a t l =>
    cases b with
    | base t' => exact False.elim h
    | call n' a' t' l' => exact h.2.2.1

/-- With the same keyword-argument list the two symbols are one. -/
theorem eq_of_symEqModKw {a b : Symbol} (h : SymEqModKw a b) (hk : symKwargs a = symKwargs b) :
    a = b := by
  cases a with
  | base t =>
    cases b with
    | base t' => rw [show t = t' from h]
    | call _ _ _ _ => exact False.elim h
  | call n a t l =>
    cases b with
    | base t' => exact False.elim h
    | call n' a' t' l' =>
      obtain ⟨e1, e2, _, e4, e5⟩ := h
      obtain ⟨x1, x2⟩ := a
      obtain ⟨y1, y2⟩ := a'
      simp only [symKwargs] at e2 hk
      rw [e1, e2, hk, e4, e5]

/-- Members of a list that is pairwise `R`-related (symmetric `R`): any two DIFFERENT members are. -/
theorem pairwise_mem {α : Type} {R : α → α → Prop} (hs : ∀ a b, R a b → R b a) :
    ∀ {l : List α}, l.Pairwise R → ∀ a b, a ∈ l → b ∈ l → a ≠ b → R a b
  | [], _, a, _, ha, _, _ => by cases ha
  | x :: r, h, a, b, ha, hb, hne => by
    have hc := List.pairwise_cons.mp h
    rcases List.mem_cons.mp ha with rfl | ha' <;> rcases List.mem_cons.mp hb with rfl | hb'
    · exact absurd rfl hne
    · exact hc.1 b hb'
    · exact hs _ _ (hc.1 a ha')
    · exact pairwise_mem hs hc.2 a b ha' hb' hne

/-! ### The printed document is printable ASCII (one line) -/

/-- Every character is in `' '..'~'`: no newline, no control character, nothing outside ASCII. -/
def Ascii (s : Str) : Prop := ∀ c, c ∈ s → 32 ≤ c.toNat ∧ c.toNat ≤ 126

theorem ascii_nil : Ascii [] := fun _ h => by cases h

theorem ascii_cons {c : Char} {s : Str} (hc : 32 ≤ c.toNat ∧ c.toNat ≤ 126) (hs : Ascii s) :
    Ascii (c :: s) := by
  intro d hd
  rcases List.mem_cons.mp hd with rfl | h
  · exact hc
  · exact hs d h

theorem ascii_append {s t : Str} (hs : Ascii s) (ht : Ascii t) : Ascii (s ++ t) := by
  intro d hd
  rcases List.mem_append.mp hd with h | h
  · exact hs d h
  · exact ht d h

theorem hexDigit_ascii : ∀ k, k < 16 → 32 ≤ (hexDigit k).toNat ∧ (hexDigit k).toNat ≤ 126 := by
  decide

theorem hex4_ascii (n : Nat) : Ascii (hex4 n) := by
  unfold hex4
  exact ascii_cons (by decide) (ascii_cons (by decide)
    (ascii_cons (hexDigit_ascii _ (Nat.mod_lt _ (by decide)))
      (ascii_cons (hexDigit_ascii _ (Nat.mod_lt _ (by decide)))
        (ascii_cons (hexDigit_ascii _ (Nat.mod_lt _ (by decide)))
          (ascii_cons (hexDigit_ascii _ (Nat.mod_lt _ (by decide))) ascii_nil)))))

theorem escapeChar_ascii (c : Char) : Ascii (escapeChar c) := by
  unfold escapeChar
  split
  · exact ascii_cons (by decide) (ascii_cons (by decide) ascii_nil)
  split
  · exact ascii_cons (by decide) (ascii_cons (by decide) ascii_nil)
  split
  · exact ascii_cons (by decide) (ascii_cons (by decide) ascii_nil)
  split
  · exact ascii_cons (by decide) (ascii_cons (by decide) ascii_nil)
  split
  · exact ascii_cons (by decide) (ascii_cons (by decide) ascii_nil)
  split
  · exact ascii_cons (by decide) (ascii_cons (by decide) ascii_nil)
  split
  · exact ascii_cons (by decide) (ascii_cons (by decide) ascii_nil)
  split
  · simp only
    split
    · exact hex4_ascii _
    · exact ascii_append (hex4_ascii _) (hex4_ascii _)
  · next h => exact ascii_cons (by omega) ascii_nil

theorem renderStr_ascii (s : Str) : Ascii (renderStr s) := by
  unfold renderStr
  refine ascii_cons (by decide) (ascii_append ?_ (ascii_cons (by decide) ascii_nil))
  intro c hc
  obtain ⟨d, _, hd⟩ := List.mem_flatMap.mp hc
  exact escapeChar_ascii d c hd

theorem isDigit_ascii {c : Char} (h : c.isDigit = true) : 32 ≤ c.toNat ∧ c.toNat ≤ 126 := by
  simp only [Char.isDigit, Bool.and_eq_true, decide_eq_true_eq] at h
  have h1 : (48 : Nat) ≤ c.val.toNat := UInt32.le_iff_toNat_le.mp h.1
  have h2 : c.val.toNat ≤ 57 := UInt32.le_iff_toNat_le.mp h.2
  exact ⟨by show 32 ≤ c.val.toNat; omega, by show c.val.toNat ≤ 126; omega⟩

theorem renderInt_ascii (n : Int) : Ascii (renderInt n) := by
  cases n with
  | ofNat a => exact fun c hc => isDigit_ascii (renderNat_digits a c hc)
  | negSucc a =>
    exact ascii_cons (by decide) (fun c hc => isDigit_ascii (renderNat_digits _ c hc))

mutual
theorem renderSp_ascii : ∀ a : JVal, Ascii (renderSp a)
  | .null => by simp only [renderSp]; exact ascii_cons (by decide) (ascii_cons (by decide) (ascii_cons (by decide) (ascii_cons (by decide) (ascii_nil))))
  | .bool true => by simp only [renderSp]; exact ascii_cons (by decide) (ascii_cons (by decide) (ascii_cons (by decide) (ascii_cons (by decide) (ascii_nil))))
  | .bool false => by simp only [renderSp]; exact ascii_cons (by decide) (ascii_cons (by decide) (ascii_cons (by decide) (ascii_cons (by decide) (ascii_cons (by decide) (ascii_nil)))))
  | .num n => by simp only [renderSp]; exact renderInt_ascii n
  | .str s => by simp only [renderSp]; exact renderStr_ascii s
  | .arr xs => by
    simp only [renderSp]
    exact ascii_cons (by decide) (ascii_append (renderSpList_ascii xs) (ascii_cons (by decide) ascii_nil))
  | .obj kvs => by
    simp only [renderSp]
    exact ascii_cons (by decide) (ascii_append (renderSpKvs_ascii kvs) (ascii_cons (by decide) ascii_nil))
theorem renderSpList_ascii : ∀ xs : List JVal, Ascii (renderSpList xs)
  | [] => ascii_nil
  | [a] => by simp only [renderSpList]; exact renderSp_ascii a
  | a :: b :: r => by
    simp only [renderSpList]
    exact ascii_append (renderSp_ascii a)
      (ascii_cons (by decide) (ascii_cons (by decide) (renderSpList_ascii (b :: r))))
theorem renderSpKvs_ascii : ∀ kvs : List (Str × JVal), Ascii (renderSpKvs kvs)
  | [] => ascii_nil
  | [(k, a)] => by
    simp only [renderSpKvs]
    exact ascii_append (renderStr_ascii k)
      (ascii_cons (by decide) (ascii_cons (by decide) (renderSp_ascii a)))
  | (k, a) :: b :: r => by
    simp only [renderSpKvs]
    exact ascii_append (ascii_append (renderStr_ascii k)
      (ascii_cons (by decide) (ascii_cons (by decide) (renderSp_ascii a))))
      (ascii_cons (by decide) (ascii_cons (by decide) (renderSpKvs_ascii (b :: r))))
end

end Rattr.C18J

/-
  Lemmas about the class entries of the FileIr (`RattrModel/FileAnalyser.lean`, `ClassAnalyser`):
  what the class-body walk writes into the SHARED symbol table, and which of those symbols the
  synthetic Enum initialiser (`visitEnum`, `rattr/analyser/cls.py::visit_enum_initialiser`) sweeps
  into its gets.

    * `startsWith_prefix_other_class`, `startsWith_prefix_dotless` : the filter
      `symbol.name.startswith("<Class>.")` rejects `<Other>.<attr>` for every other identifier
      (also one that EXTENDS `<Class>`) and every dot-free name (module-level variables);
    * `AddsOnly cls c c'`, `classWalkL_addsOnly` : walking the body of class `cls` only APPENDS
      symbols `Name "<cls>.<n>"` to the table (the whole mutual block `classWalk / classWalkL`);
    * `prefixed_of_addsOnly_other` : … so the walk of any OTHER class leaves `prefixed · cls` (what
      the enum initialiser of `cls` sweeps) unchanged;
    * `visitEnum_ok`, `mem_prefixed_updateSymbol`, `mem_dedupNames` : the entry `visitEnum` files.
-/
import RattrProofs.Lemmas.FileAnalyser
import RattrProofs.Lemmas.Visit

namespace Rattr.FileA
open Rattr Rattr.Strs Rattr.FnA Rattr.RootCtx

/-! ### the prefix filter -/

/-- `"<other>.<a>".startswith("<cls>.")` is false for two different dot-free identifiers — in
particular when `other` extends `cls` (`ColourPalette.default` vs `Colour.`). -/
theorem startsWith_prefix_other_class (cls other a : Str) (hc : '.' ∉ cls) (ho : '.' ∉ other)
    (hne : other ≠ cls) : startsWith (other ++ '.' :: a) (cls ++ ['.']) = false := by
  unfold startsWith
  induction cls generalizing other with
  | nil =>
    cases other with
    | nil => exact absurd rfl hne
    | cons d ds =>
      have hd : d ≠ '.' := fun h => ho (by simp [h])
      simp [List.isPrefixOf, Ne.symm hd]
  | cons c cs ih =>
    have hc' : c ≠ '.' := fun h => hc (by simp [h])
    cases other with
    | nil => simp [List.isPrefixOf, hc']
    | cons d ds =>
      by_cases hcd : c = d
      · subst hcd
        have hds : ds ≠ cs := fun h => hne (by rw [h])
        have := ih ds (fun h => hc (List.mem_cons_of_mem _ h)) (fun h => ho (List.mem_cons_of_mem _ h)) hds
        simpa [List.isPrefixOf] using this
      · simp [List.isPrefixOf, hcd]

/-- a dot-free name (every name the root-context builder registers for a module-level variable,
function, class or import alias) never starts with `"<cls>."`. -/
theorem startsWith_prefix_dotless (cls n : Str) (hn : '.' ∉ n) : startsWith n (cls ++ ['.']) = false := by
  unfold startsWith
  induction cls generalizing n with
  | nil =>
    cases n with
    | nil => simp
    | cons d ds =>
      have hd : d ≠ '.' := fun h => hn (by simp [h])
      simp [List.isPrefixOf, Ne.symm hd]
  | cons c cs ih =>
    cases n with
    | nil => simp
    | cons d ds =>
      have := ih ds (fun h => hn (List.mem_cons_of_mem _ h))
      simp [List.isPrefixOf, this]

/-- … while the class's own attributes pass it. -/
theorem startsWith_prefix_own (cls a : Str) : startsWith (cls ++ '.' :: a) (cls ++ ['.']) = true := by
  unfold startsWith
  induction cls with
  | nil => simp [List.isPrefixOf]
  | cons c cs ih => simp [ih]

/-! ### what `Context.add` does to the table -/

theorem dict_set_absent {κ ν : Type} [DecidableEq κ] (d : Dict κ ν) (x : κ) (y : ν) (h : Dict.get? d x = none) :
    Dict.set d x y = d ++ [(x, y)] := by
  induction d with
  | nil => rfl
  | cons p r ih =>
    obtain ⟨k, v⟩ := p
    by_cases hk : k = x
    · simp [Dict.get?, hk] at h
    · simp [Dict.get?, hk] at h
      simp [Dict.set, hk, ih h]

/-- `context.add(symbol)`: the table is unchanged (the identifier is already known somewhere up
the chain) or the symbol is APPENDED. -/
theorem scopeSyms_add (c : Context) (sy : Sym) :
    scopeSyms (Context.add c sy) = scopeSyms c ∨ scopeSyms (Context.add c sy) = scopeSyms c ++ [sy] := by
  unfold Context.add
  by_cases hcon : Context.contains c sy.name = true
  · left; simp [hcon]
  · right
    have hcon' : Context.contains c sy.name = false := by simpa using hcon
    cases c with
    | nil => simp [scopeSyms, hcon']
    | cons sc r =>
      have hget : Dict.get? sc sy.name = none := by
        unfold Context.contains at hcon'
        cases hg : Dict.get? sc sy.name with
        | none => rfl
        | some v => simp [Context.get?, hg] at hcon'
      simp [hcon', scopeSyms, dict_set_absent sc sy.name sy hget]

/-- `c'` is `c` with symbols `Name "<cls>.<n>"`, `P n`, appended to the current table. -/
def AddsFrom (cls : Str) (P : Str → Prop) (c c' : Context) : Prop :=
  ∃ l, scopeSyms c' = scopeSyms c ++ l ∧ ∀ sy ∈ l, ∃ n, P n ∧ sy = classAttrSym cls n

/-- … whatever the `<n>` are. -/
def AddsOnly (cls : Str) (c c' : Context) : Prop := AddsFrom cls (fun _ => True) c c'

theorem AddsFrom.refl (cls : Str) (P : Str → Prop) (c : Context) : AddsFrom cls P c c := ⟨[], by simp, by simp⟩

theorem AddsFrom.trans {cls : Str} {P : Str → Prop} {a b c : Context} (h1 : AddsFrom cls P a b)
    (h2 : AddsFrom cls P b c) : AddsFrom cls P a c := by
  obtain ⟨l1, e1, p1⟩ := h1
  obtain ⟨l2, e2, p2⟩ := h2
  refine ⟨l1 ++ l2, by rw [e2, e1, List.append_assoc], fun sy h => ?_⟩
  rcases List.mem_append.mp h with h | h
  · exact p1 sy h
  · exact p2 sy h

theorem AddsFrom.mono {cls : Str} {P Q : Str → Prop} {a b : Context} (hpq : ∀ n, P n → Q n)
    (h : AddsFrom cls P a b) : AddsFrom cls Q a b := by
  obtain ⟨l, e, p⟩ := h
  exact ⟨l, e, fun sy hs => let ⟨n, hn, e⟩ := p sy hs; ⟨n, hpq n hn, e⟩⟩

theorem AddsFrom.add (cls : Str) (P : Str → Prop) (c : Context) (n : Str) (hn : P n) :
    AddsFrom cls P c (Context.add c (classAttrSym cls n)) := by
  rcases scopeSyms_add c (classAttrSym cls n) with h | h
  · exact ⟨[], by simp [h], by simp⟩
  · exact ⟨[classAttrSym cls n], h, fun sy hs => ⟨n, hn, by simpa using hs⟩⟩

theorem addsFrom_foldl (cls : Str) (P : Str → Prop) (names : List Str) (hp : ∀ n ∈ names, P n) (c : Context) :
    AddsFrom cls P c (names.foldl (fun c n => Context.add c (classAttrSym cls n)) c) := by
  induction names generalizing c with
  | nil => exact AddsFrom.refl cls P c
  | cons n r ih =>
    exact (AddsFrom.add cls P c n (hp n List.mem_cons_self)).trans (ih (fun m hm => hp m (List.mem_cons_of_mem _ hm)) _)

theorem AddsOnly.refl (cls : Str) (c : Context) : AddsOnly cls c c := AddsFrom.refl cls _ c

theorem AddsOnly.trans {cls : Str} {a b c : Context} (h1 : AddsOnly cls a b) (h2 : AddsOnly cls b c) :
    AddsOnly cls a c := AddsFrom.trans h1 h2

theorem addsOnly_foldl (cls : Str) (names : List Str) (c : Context) :
    AddsOnly cls c (names.foldl (fun c n => Context.add c (classAttrSym cls n)) c) :=
  addsFrom_foldl cls _ names (fun _ _ => trivial) c

/-! ### the class-body walk -/

theorem classRegister_addsOnly (cls : Str) (targets : List Node) (s t : St)
    (h : classRegister cls targets s = .ok t) : AddsOnly cls s.ctx t.ctx := by
  unfold classRegister at h
  split at h
  · injection h with h; subst h; exact addsOnly_foldl cls _ s.ctx
  · cases h
  · cases h

theorem classEvent_addsOnly (cls : Str) (n : Node) (s t : St) (h : classEvent cls n s = .ok t) :
    AddsOnly cls s.ctx t.ctx := by
  unfold classEvent at h
  split at h
  · exact classRegister_addsOnly cls _ s t h
  · exact classRegister_addsOnly cls _ s t h
  · exact classRegister_addsOnly cls _ s t h
  · exact classRegister_addsOnly cls _ s t h
  · injection h with h; subst h; exact AddsOnly.refl cls _

theorem bind_ok {r : Res} {f : St → Res} {t : St} (h : (r >>>= f) = .ok t) : ∃ u, r = .ok u ∧ f u = .ok t := by
  cases r with
  | ok u => exact ⟨u, rfl, h⟩
  | fatal u d => cases h
  | crash u e => cases h

theorem classEvents_addsOnly (cls : Str) (ns : List Node) (s t : St) (h : classEvents cls ns s = .ok t) :
    AddsOnly cls s.ctx t.ctx := by
  induction ns generalizing s with
  | nil => unfold classEvents at h; injection h with h; subst h; exact AddsOnly.refl cls _
  | cons n r ih =>
    unfold classEvents at h
    obtain ⟨u, h1, h2⟩ := bind_ok h
    exact (classEvent_addsOnly cls n s u h1).trans (ih u h2)

mutual
/-- `ClassAnalyser.visit(stmt)`: whatever the statement is, the only effect on the table is that
`Name "<cls>.<n>"` symbols are appended. -/
theorem classWalk_addsOnly (cls : Str) (tp : Top) (s t : St) (h : classWalk cls tp s = .ok t) :
    AddsOnly cls s.ctx t.ctx := by
  cases tp with
  | importStmt a => unfold classWalk at h; injection h with h; subst h; exact AddsOnly.refl cls _
  | importFrom m l a ab sf co => unfold classWalk at h; injection h with h; subst h; exact AddsOnly.refl cls _
  | funcDef n ps b d a => unfold classWalk at h; exact classEvents_addsOnly cls _ s t h
  | classDef n bases body d =>
    unfold classWalk at h
    obtain ⟨u, h1, h2⟩ := bind_ok h
    exact (classEvents_addsOnly cls _ s u h1).trans (classWalkL_addsOnly cls body u t h2)
  | assign targets extra value =>
    unfold classWalk at h
    obtain ⟨u, h1, h2⟩ := bind_ok h
    exact (classRegister_addsOnly cls targets s u h1).trans (classEvents_addsOnly cls _ u t h2)
  | delete targets => unfold classWalk at h; exact classEvents_addsOnly cls _ s t h
  | exprStmt v => unfold classWalk at h; exact classEvents_addsOnly cls _ s t h
  | expr n => unfold classWalk at h; exact classEvents_addsOnly cls _ s t h
  | tryStmt b hd o fb =>
    unfold classWalk at h
    obtain ⟨u1, h1, h⟩ := bind_ok h
    obtain ⟨u2, h2, h⟩ := bind_ok h
    obtain ⟨u3, h3, h4⟩ := bind_ok h
    exact (((classWalkL_addsOnly cls b s u1 h1).trans (classWalkL_addsOnly cls hd u1 u2 h2)).trans
      (classWalkL_addsOnly cls o u2 u3 h3)).trans (classWalkL_addsOnly cls fb u3 t h4)
  | compound k kids => unfold classWalk at h; exact classWalkL_addsOnly cls kids s t h
theorem classWalkL_addsOnly (cls : Str) (tps : List Top) (s t : St) (h : classWalkL cls tps s = .ok t) :
    AddsOnly cls s.ctx t.ctx := by
  cases tps with
  | nil => unfold classWalkL at h; injection h with h; subst h; exact AddsOnly.refl cls _
  | cons tp r =>
    unfold classWalkL at h
    obtain ⟨u, h1, h2⟩ := bind_ok h
    exact (classWalk_addsOnly cls tp s u h1).trans (classWalkL_addsOnly cls r u t h2)
end

/-! ### what the enum initialiser sweeps -/

theorem prefixed_append (c c' : Context) (cls : Str) (l : List Sym) (h : scopeSyms c' = scopeSyms c ++ l) :
    prefixed c' cls = prefixed c cls ++ l.filter (fun sy => sy.kind == .name && startsWith sy.name (cls ++ ['.'])) := by
  unfold prefixed
  rw [h, List.filter_append]

/-- the body walk of ANOTHER class (any identifier, also one extending `cls`) does not change what
the enum initialiser of `cls` sweeps. -/
theorem prefixed_of_addsOnly_other (cls other : Str) (hc : '.' ∉ cls) (ho : '.' ∉ other) (hne : other ≠ cls)
    (c c' : Context) (h : AddsOnly other c c') : prefixed c' cls = prefixed c cls := by
  obtain ⟨l, e, p⟩ := h
  rw [prefixed_append c c' cls l e]
  have : l.filter (fun sy => sy.kind == .name && startsWith sy.name (cls ++ ['.'])) = [] := by
    rw [List.filter_eq_nil_iff]
    intro sy hs
    obtain ⟨n, _, rfl⟩ := p sy hs
    simp [classAttrSym, Context.nameSym, startsWith_prefix_other_class cls other n hc ho hne]
  rw [this, List.append_nil]

/-- the body walk of `cls` itself adds only its own `Name "<cls>.<n>"`. -/
theorem prefixed_of_addsFrom_own (cls : Str) (P : Str → Prop) (c c' : Context) (h : AddsFrom cls P c c') (sy : Sym)
    (hs : sy ∈ prefixed c' cls) : sy ∈ prefixed c cls ∨ ∃ n, P n ∧ sy = classAttrSym cls n := by
  obtain ⟨l, e, p⟩ := h
  rw [prefixed_append c c' cls l e] at hs
  rcases List.mem_append.mp hs with h | h
  · exact Or.inl h
  · exact Or.inr (p sy (List.mem_filter.mp h).1)

theorem mem_eraseKey (sc : Scope) (x : Str) (p : Str × Sym) (h : p ∈ Context.eraseKey sc x) : p ∈ sc := by
  induction sc with
  | nil => simp [Context.eraseKey] at h
  | cons q r ih =>
    obtain ⟨k, v⟩ := q
    unfold Context.eraseKey at h
    split at h
    · exact List.mem_cons_of_mem _ h
    · rcases List.mem_cons.mp h with h | h
      · rw [h]; exact List.mem_cons_self
      · exact List.mem_cons_of_mem _ (ih h)

theorem mem_dict_set {κ ν : Type} [DecidableEq κ] (d : Dict κ ν) (x : κ) (y : ν) (p : κ × ν) (h : p ∈ Dict.set d x y) :
    p ∈ d ∨ p = (x, y) := by
  induction d with
  | nil => right; simpa [Dict.set] using h
  | cons q r ih =>
    obtain ⟨k, v⟩ := q
    unfold Dict.set at h
    split at h
    · next hk =>
      rcases List.mem_cons.mp h with h | h
      · right; rw [h, hk]
      · left; exact List.mem_cons_of_mem _ h
    · rcases List.mem_cons.mp h with h | h
      · left; rw [h]; exact List.mem_cons_self
      · rcases ih h with h | h
        · left; exact List.mem_cons_of_mem _ h
        · right; exact h

/-- `update_symbol(new)` (pop + re-insert): every symbol of the table afterwards was there before,
or is `new`. -/
theorem mem_scopeSyms_updateSymbol (c : Context) (new sy : Sym) (h : sy ∈ scopeSyms (updateSymbol c new)) :
    sy ∈ scopeSyms c ∨ sy = new := by
  unfold updateSymbol setSym Context.remove at h
  cases c with
  | nil => right; simpa [scopeSyms] using h
  | cons sc r =>
    simp only [scopeSyms, List.head?_cons, Option.getD_some, List.mem_map] at h ⊢
    obtain ⟨p, hp, rfl⟩ := h
    rcases mem_dict_set _ _ _ p hp with h | h
    · exact Or.inl ⟨p, mem_eraseKey sc new.name p h, rfl⟩
    · right; rw [h]

/-- replacing the `Class` symbol does not add anything to the sweep. -/
theorem mem_prefixed_updateSymbol (c : Context) (cls : Str) (new sy : Sym) (hk : new.kind ≠ .name)
    (h : sy ∈ prefixed (updateSymbol c new) cls) : sy ∈ prefixed c cls := by
  unfold prefixed at h ⊢
  obtain ⟨hm, hp⟩ := List.mem_filter.mp h
  rcases mem_scopeSyms_updateSymbol c new sy hm with h1 | h1
  · exact List.mem_filter.mpr ⟨h1, hp⟩
  · subst h1
    simp [hk] at hp

theorem mem_foldl_addTo (l acc : List NameS) (x : NameS) : x ∈ l.foldl addTo acc ↔ x ∈ acc ∨ x ∈ l := by
  induction l generalizing acc with
  | nil => simp
  | cons n r ih =>
    rw [List.foldl_cons, ih, mem_addTo]
    simp only [List.mem_cons]
    constructor
    · rintro ((h | h) | h)
      · exact Or.inl h
      · exact Or.inr (Or.inl h)
      · exact Or.inr (Or.inr h)
    · rintro (h | h | h)
      · exact Or.inl (Or.inl h)
      · exact Or.inl (Or.inr h)
      · exact Or.inr h

theorem mem_dedupNames (l : List NameS) (x : NameS) : x ∈ dedupNames l ↔ x ∈ l := by
  unfold dedupNames
  rw [mem_foldl_addTo]
  simp

theorem getClass_kind (c : Context) (cls : Str) (sy : Sym) (h : getClass c cls = some sy) : sy.kind = .cls := by
  unfold getClass at h
  split at h
  · split at h
    · next hk => injection h with h; subst h; simpa using hk
    · cases h
  · cases h

/-- the symbol `visit_enum_initialiser` files the entry under -/
def enumSym (sy : Sym) : Sym :=
  { sy with iface := some ⟨[], ["self".toList, "_id".toList], none, [], none⟩, callable := true }

/-- the entry: the `Name`s of the table (after the class symbol was replaced) that start with `<cls>.` -/
def enumIr (c : Context) (cls : Str) : IR :=
  { gets := dedupNames ((prefixed c cls).map fun sy => (⟨sy.name, basenameFromName sy.name⟩ : NameS)) }

theorem visitEnum_ok (cls : Str) (s : FState) (cir : ClassIr) (k : FState → ClassIr → FOut) (sy : Sym)
    (h : getClass s.ctx cls = some sy) :
    visitEnum cls s cir k =
      k { s with ctx := updateSymbol s.ctx (enumSym sy) }
        (Dict.set cir (enumSym sy) (enumIr (updateSymbol s.ctx (enumSym sy)) cls)) := by
  simp [visitEnum, classSymbol, h, enumSym, enumIr]

theorem visitEnum_crash (cls : Str) (s : FState) (cir : ClassIr) (k : FState → ClassIr → FOut)
    (h : getClass s.ctx cls = none) : visitEnum cls s cir k = .crash s "ValueError".toList := by
  simp [visitEnum, classSymbol, h]

/-! ### the entry as a function of (class name, non-method statements, table) -/

/-- the IR `ClassAnalyser.analyse()` files for an Enum-by-heuristic class without `__init__`:
walk the non-method statements (registering `Name "<cls>.<n>"`), replace the class symbol, sweep. -/
def enumEntry (cls : Str) (stmts : List Top) (ctx : Context) : Option IR :=
  match classWalkL cls stmts { ctx := ctx } with
  | .ok t =>
    (match getClass t.ctx cls with
     | some sy => some (enumIr (updateSymbol t.ctx (enumSym sy)) cls)
     | none => none)
  | _ => none

/-- `[fullname_of(b, safe=True) for b in cls.bases]` when every base can be named -/
def baseNamesPure : List Node → Option (List Str)
  | [] => some []
  | b :: r =>
    match namesOf true b, baseNamesPure r with
    | .ok _ f, some ns => some (f :: ns)
    | _, _ => none

theorem baseNames_pure (s : FState) (bases : List Node) (bn : List Str) (k : List Str → FOut)
    (h : baseNamesPure bases = some bn) : baseNames s bases k = k bn := by
  induction bases generalizing bn k with
  | nil => simp [baseNamesPure] at h; subst h; rfl
  | cons b r ih =>
    unfold baseNamesPure at h
    cases hb : namesOf true b with
    | ok base f =>
      cases hr : baseNamesPure r with
      | none => simp [hb, hr] at h
      | some ns =>
        simp [hb, hr] at h
        subst h
        simp [baseNames, fLiftName, hb, ih ns _ hr]
    | fatal d => simp [hb] at h
    | crash e => simp [hb] at h

/-- `ClassAnalyser.analyse()` on an Enum-by-heuristic class without `__init__`: the class IR starts
with exactly one entry, `enumEntry`'s, under the replaced class symbol; the static methods follow. -/
theorem classAnalyse_enum (env : Env) (mn : Str) (cls : Str) (bases : List Node) (body : List Top)
    (decos : List Ann.Deco) (s : FState) (k : FState → ClassIr → FOut) (t : St) (sy : Sym) (bn : List Str)
    (hw : classWalkL cls (body.filter fun tp => !isMethod tp) { ctx := s.ctx } = .ok t)
    (hi : (methodsOf body).filter (fun m => m.name = "__init__".toList) = [])
    (hb : baseNamesPure bases = some bn) (he : heuristic "Enum" bn = true)
    (hn : heuristic "NamedTuple" bn = false) (hsy : getClass t.ctx cls = some sy) :
    classAnalyse env mn cls bases body decos s k =
      staticLoop env mn cls (methodsOf body)
        { s with ctx := updateSymbol t.ctx (enumSym sy), diags := s.diags ++ t.diags }
        [(enumSym sy, enumIr (updateSymbol t.ctx (enumSym sy)) cls)] k ∧
    enumEntry cls (body.filter fun tp => !isMethod tp) s.ctx = some (enumIr (updateSymbol t.ctx (enumSym sy)) cls) := by
  constructor
  · unfold classAnalyse
    simp only [hw, liftRes, initMethod, hi]
    rw [baseNames_pure _ bases bn _ hb]
    simp only [he, hn, if_true]
    rw [visitEnum_ok cls _ [] _ sy hsy]
    simp [Dict.set]
  · simp [enumEntry, hw, hsy]

/-- shape of every enum entry, whatever the class body and the table: no sets / dels / calls; each
get is the identifier of a `Name` that was in the table before and starts with `<cls>.`, or one the
walk of THIS class body registered (`<cls>.<n>`). -/
theorem enumEntry_shape (cls : Str) (stmts : List Top) (ctx : Context) (ir : IR)
    (h : enumEntry cls stmts ctx = some ir) :
    ir.sets = [] ∧ ir.dels = [] ∧ ir.calls = [] ∧
    ∀ x ∈ ir.gets, startsWith x.full (cls ++ ['.']) = true ∧
      ((∃ sy ∈ prefixed ctx cls, x.full = sy.name) ∨ ∃ n, x.full = cls ++ '.' :: n) := by
  unfold enumEntry at h
  split at h
  · next t hw =>
    split at h
    · next sy hsy =>
      injection h with h
      subst h
      refine ⟨rfl, rfl, rfl, fun x hx => ?_⟩
      have hx' := (mem_dedupNames _ x).mp hx
      obtain ⟨sy', hs', rfl⟩ := List.mem_map.mp hx'
      have hk : (enumSym sy).kind ≠ .name := by
        have := getClass_kind _ _ _ hsy
        simp [enumSym, this]
      have h1 := mem_prefixed_updateSymbol t.ctx cls (enumSym sy) sy' hk hs'
      have hst : startsWith sy'.name (cls ++ ['.']) = true := by
        have := (List.mem_filter.mp h1).2
        simp only [Bool.and_eq_true] at this
        exact this.2
      refine ⟨hst, ?_⟩
      rcases prefixed_of_addsFrom_own cls _ ctx t.ctx (classWalkL_addsOnly cls stmts _ t hw) sy' h1 with h2 | ⟨n, _, h2⟩
      · exact Or.inl ⟨sy', h2, rfl⟩
      · exact Or.inr ⟨n, by rw [h2]; rfl⟩
    · cases h
  · cases h

/-! ### (spec) the identifiers a class body stores to at class scope -/

mutual
/-- identifiers stored to (a `Name` in Store context) below an expression / statement node, in the
scope the node itself lives in: nothing below a lambda, a comprehension, a nested def / class. -/
def stores : Node → List Str
  | .name id c => if c = .store then [id] else []
  | .attr v _ _ => stores v
  | .sub v sl _ => stores v ++ stores sl
  | .starred v _ => stores v
  | .call f args _ kwv => stores f ++ storesL args ++ storesL kwv
  | .lam .. => []
  | .comp .. => []
  | .gen .. => []
  | .walrus t v => stores t ++ stores v
  | .strConst _ => []
  | .const => []
  | .seq _ elts _ => storesL elts
  | .dict ks vs => storesL ks ++ storesL vs
  | .assign ts v => storesL ts ++ stores v
  | .annAssign t ann v => stores t ++ stores ann ++ storesL v
  | .augAssign t v => stores t ++ stores v
  | .delete _ => []
  | .forLoop t it body orelse => stores t ++ stores it ++ storesL body ++ storesL orelse
  | .withStmt items body => storesL items ++ storesL body
  | .withitem ce vars => stores ce ++ storesL vars
  | .funcDef .. => []
  | .classDef _ => []
  | .ret v => storesL v
  | .forbidden _ => []
  | .other _ kids => storesL kids
def storesL : List Node → List Str
  | [] => []
  | n :: r => stores n ++ storesL r
end

mutual
/-- the same for a statement of a class body (methods are not part of it). -/
def ownStores : Top → List Str
  | .assign targets extra value => storesL targets ++ storesL extra ++ storesL value.toList
  | .exprStmt v => stores v
  | .expr n => stores n
  | .delete _ => []
  | .importStmt _ => []
  | .importFrom .. => []
  | .funcDef .. => []
  | .classDef .. => []
  | .tryStmt b h o fb => ownStoresL b ++ ownStoresL h ++ ownStoresL o ++ ownStoresL fb
  | .compound _ kids => ownStoresL kids
def ownStoresL : List Top → List Str
  | [] => []
  | t :: r => ownStores t ++ ownStoresL r
end

/-! ### the fragment on which the sweep is exactly the members: plain targets, no nested events -/

mutual
/-- `NAME`, `*NAME`, and tuples / lists of those, in Store context -/
def plainTarget : Node → Bool
  | .name _ c => c = .store
  | .starred (.name _ c) _ => c = .store
  | .seq k elts _ => (k = "Tuple".toList || k = "List".toList) && plainTargetL elts
  | _ => false
def plainTargetL : List Node → Bool
  | [] => true
  | n :: r => plainTarget n && plainTargetL r
end

mutual
theorem unravelNames_plain (n : Node) (h : plainTarget n = true) :
    ∃ names, unravelNames n = .ok names ∧ ∀ m ∈ names, m ∈ stores n := by
  cases n with
  | name id c =>
    simp [plainTarget] at h
    exact ⟨[id], by simp [unravelNames, Node.isNameable, namesOf], by simp [stores, h]⟩
  | starred v c =>
    cases v with
    | name id c' =>
      simp [plainTarget] at h
      exact ⟨[id], by simp [unravelNames, Node.isNameable, namesOf], by simp [stores, h]⟩
    | _ => simp [plainTarget] at h
  | seq k elts c =>
    simp only [plainTarget, Bool.and_eq_true] at h
    obtain ⟨names, hu, hm⟩ := unravelNamesL_plain elts h.2
    refine ⟨names, ?_, fun m hmm => by simpa [stores] using hm m hmm⟩
    rw [unravelNames]
    simp only [h.1, if_true, hu]
  | _ => simp [plainTarget] at h
theorem unravelNamesL_plain (ns : List Node) (h : plainTargetL ns = true) :
    ∃ names, unravelNamesL ns = .ok names ∧ ∀ m ∈ names, m ∈ storesL ns := by
  cases ns with
  | nil => exact ⟨[], by simp [unravelNamesL], by simp⟩
  | cons n r =>
    simp only [plainTargetL, Bool.and_eq_true] at h
    obtain ⟨a, ha, hma⟩ := unravelNames_plain n h.1
    obtain ⟨b, hb, hmb⟩ := unravelNamesL_plain r h.2
    refine ⟨a ++ b, by simp [unravelNamesL, ha, hb], fun m hm => ?_⟩
    simp only [storesL, List.mem_append]
    rcases List.mem_append.mp hm with h1 | h1
    · exact Or.inl (hma m h1)
    · exact Or.inr (hmb m h1)
end

mutual
/-- statements whose only effect on the table is the registration of plain targets -/
def plainStmt : Top → Bool
  | .assign targets extra value =>
    plainTargetL targets && (eventsL false (targets ++ extra ++ value.toList)).isEmpty
  | .exprStmt v => (events false v).isEmpty
  | .expr n => (events false n).isEmpty
  | .delete targets => (eventsL false targets).isEmpty
  | .importStmt _ => true
  | .importFrom .. => true
  | .funcDef .. => false
  | .classDef .. => false
  | .tryStmt b h o fb => plainStmtL b && plainStmtL h && plainStmtL o && plainStmtL fb
  | .compound _ kids => plainStmtL kids
def plainStmtL : List Top → Bool
  | [] => true
  | t :: r => plainStmt t && plainStmtL r
end

theorem classRegister_plain (cls : Str) (targets : List Node) (s t : St) (hp : plainTargetL targets = true)
    (h : classRegister cls targets s = .ok t) : AddsFrom cls (· ∈ storesL targets) s.ctx t.ctx := by
  obtain ⟨names, hu, hm⟩ := unravelNamesL_plain targets hp
  unfold classRegister at h
  rw [hu] at h
  injection h with h
  subst h
  exact addsFrom_foldl cls _ names hm s.ctx

theorem classEvents_nil (cls : Str) (ns : List Node) (s t : St) (hn : ns.isEmpty = true)
    (h : classEvents cls ns s = .ok t) : t = s := by
  cases ns with
  | nil => unfold classEvents at h; injection h with h; exact h.symm
  | cons n r => simp at hn

mutual
theorem classWalk_plain (cls : Str) (tp : Top) (s t : St) (hp : plainStmt tp = true)
    (h : classWalk cls tp s = .ok t) : AddsFrom cls (· ∈ ownStores tp) s.ctx t.ctx := by
  cases tp with
  | importStmt a => unfold classWalk at h; injection h with h; subst h; exact AddsFrom.refl cls _ _
  | importFrom m l a ab sf co => unfold classWalk at h; injection h with h; subst h; exact AddsFrom.refl cls _ _
  | funcDef n ps b d a => simp [plainStmt] at hp
  | classDef n bases body d => simp [plainStmt] at hp
  | assign targets extra value =>
    simp only [plainStmt, Bool.and_eq_true] at hp
    unfold classWalk at h
    obtain ⟨u, h1, h2⟩ := bind_ok h
    have := classEvents_nil cls _ u t hp.2 h2
    subst this
    exact AddsFrom.mono (fun n hn => by simp [ownStores, hn]) (classRegister_plain cls targets s t hp.1 h1)
  | delete targets =>
    simp only [plainStmt] at hp
    unfold classWalk at h
    have := classEvents_nil cls _ s t hp h
    subst this
    exact AddsFrom.refl cls _ _
  | exprStmt v =>
    simp only [plainStmt] at hp
    unfold classWalk at h
    have := classEvents_nil cls _ s t hp h
    subst this
    exact AddsFrom.refl cls _ _
  | expr n =>
    simp only [plainStmt] at hp
    unfold classWalk at h
    have := classEvents_nil cls _ s t hp h
    subst this
    exact AddsFrom.refl cls _ _
  | tryStmt b hd o fb =>
    simp only [plainStmt, Bool.and_eq_true] at hp
    unfold classWalk at h
    obtain ⟨u1, h1, h⟩ := bind_ok h
    obtain ⟨u2, h2, h⟩ := bind_ok h
    obtain ⟨u3, h3, h4⟩ := bind_ok h
    have e1 := AddsFrom.mono (Q := (· ∈ ownStores (.tryStmt b hd o fb))) (fun n hn => by simp [ownStores, hn])
      (classWalkL_plain cls b s u1 hp.1.1.1 h1)
    have e2 := AddsFrom.mono (Q := (· ∈ ownStores (.tryStmt b hd o fb))) (fun n hn => by simp [ownStores, hn])
      (classWalkL_plain cls hd u1 u2 hp.1.1.2 h2)
    have e3 := AddsFrom.mono (Q := (· ∈ ownStores (.tryStmt b hd o fb))) (fun n hn => by simp [ownStores, hn])
      (classWalkL_plain cls o u2 u3 hp.1.2 h3)
    have e4 := AddsFrom.mono (Q := (· ∈ ownStores (.tryStmt b hd o fb))) (fun n hn => by simp [ownStores, hn])
      (classWalkL_plain cls fb u3 t hp.2 h4)
    exact ((e1.trans e2).trans e3).trans e4
  | compound k kids =>
    simp only [plainStmt] at hp
    unfold classWalk at h
    exact AddsFrom.mono (fun n hn => by simp [ownStores, hn]) (classWalkL_plain cls kids s t hp h)
theorem classWalkL_plain (cls : Str) (tps : List Top) (s t : St) (hp : plainStmtL tps = true)
    (h : classWalkL cls tps s = .ok t) : AddsFrom cls (· ∈ ownStoresL tps) s.ctx t.ctx := by
  cases tps with
  | nil => unfold classWalkL at h; injection h with h; subst h; exact AddsFrom.refl cls _ _
  | cons tp r =>
    simp only [plainStmtL, Bool.and_eq_true] at hp
    unfold classWalkL at h
    obtain ⟨u, h1, h2⟩ := bind_ok h
    have e1 := AddsFrom.mono (Q := (· ∈ ownStoresL (tp :: r))) (fun n hn => by simp [ownStoresL, hn])
      (classWalk_plain cls tp s u hp.1 h1)
    have e2 := AddsFrom.mono (Q := (· ∈ ownStoresL (tp :: r))) (fun n hn => by simp [ownStoresL, hn])
      (classWalkL_plain cls r u t hp.2 h2)
    exact e1.trans e2
end

/-- on the plain fragment, from a table that holds no `<cls>.…` Name yet, every get of the enum
entry is `<cls>.<m>` for an identifier `m` the class body itself stores to at class scope. -/
theorem enumEntry_plain (cls : Str) (stmts : List Top) (ctx : Context) (ir : IR)
    (hfresh : prefixed ctx cls = []) (hp : plainStmtL stmts = true) (h : enumEntry cls stmts ctx = some ir) :
    ∀ x ∈ ir.gets, ∃ m ∈ ownStoresL stmts, x.full = cls ++ '.' :: m := by
  unfold enumEntry at h
  split at h
  · next t hw =>
    split at h
    · next sy hsy =>
      injection h with h
      subst h
      intro x hx
      have hx' := (mem_dedupNames _ x).mp hx
      obtain ⟨sy', hs', rfl⟩ := List.mem_map.mp hx'
      have hk : (enumSym sy).kind ≠ .name := by
        have := getClass_kind _ _ _ hsy
        simp [enumSym, this]
      have h1 := mem_prefixed_updateSymbol t.ctx cls (enumSym sy) sy' hk hs'
      rcases prefixed_of_addsFrom_own cls _ ctx t.ctx (classWalkL_plain cls stmts _ t hp hw) sy' h1 with h2 | ⟨n, hn, h2⟩
      · rw [hfresh] at h2; cases h2
      · exact ⟨n, hn, by rw [h2]; rfl⟩
    · cases h
  · cases h

end Rattr.FileA

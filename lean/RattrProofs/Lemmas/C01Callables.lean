/-
  Lemmas for C01's whole-callable side:

  * `ClassAnalyser.analyse()`: a class WITH an `__init__` is analysed the same way whatever its
    bases are spelled like (the Enum / NamedTuple heuristics are only consulted when there is no
    `__init__`), and the `class_ir` it hands back maps the (re-interfaced) class symbol to the IR of
    the initialiser's body — the static methods analysed afterwards never overwrite that entry,
    nor does the merge into the FileIr;
  * `visit_Return` / `visit_ReturnValue`: a returned display is walked element by element, a
    returned dict keys first, then ALL values (the operands of `**spread` are values without a key).
-/
import RattrProofs.Lemmas.FileAnalyser
import RattrProofs.Lemmas.VisitCover

namespace Rattr.Dict
variable {κ ν : Type} [DecidableEq κ]

theorem get?_set_ne (d : Dict κ ν) (x y : κ) (v : ν) (h : x ≠ y) : get? (set d x v) y = get? d y := by
  induction d with
  | nil => simp [set, get?, h]
  | cons p r ih =>
    obtain ⟨k, w⟩ := p
    by_cases hk : k = x
    · subst hk; simp [set, get?, h]
    · by_cases hy : k = y
      · subst hy; simp [set, get?, hk]
      · simp [set, get?, hk, hy, ih]

theorem keys_set_of_get?_some (d : Dict κ ν) (x : κ) (v w : ν) (h : get? d x = some w) :
    keys (set d x v) = keys d := by
  induction d with
  | nil => simp [get?] at h
  | cons p r ih =>
    obtain ⟨k, u⟩ := p
    by_cases hk : k = x
    · simp [set, keys, hk]
    · simp only [get?, hk, if_false] at h
      have := ih h
      simp only [keys] at this
      simp [set, keys, hk, this]

theorem get?_some_of_mem_keys (d : Dict κ ν) (x : κ) (h : x ∈ keys d) : ∃ w, get? d x = some w := by
  induction d with
  | nil => simp [keys] at h
  | cons p r ih =>
    obtain ⟨k, u⟩ := p
    by_cases hk : k = x
    · exact ⟨u, by simp [get?, hk]⟩
    · simp only [keys, List.map_cons, List.mem_cons] at h
      rcases h with h | h
      · exact absurd h.symm hk
      · obtain ⟨w, hw⟩ := ih (by simpa [keys] using h)
        exact ⟨w, by simp [get?, hk, hw]⟩

theorem keys_set_nodup (d : Dict κ ν) (x : κ) (v : ν) (h : (keys d).Nodup) : (keys (set d x v)).Nodup := by
  cases hg : get? d x with
  | some w => rw [keys_set_of_get?_some d x v w hg]; exact h
  | none =>
    rw [keys_set_fresh d x v hg]
    refine List.nodup_append.mpr ⟨h, by simp, ?_⟩
    intro a ha b hb
    simp only [List.mem_singleton] at hb
    subst hb
    intro e
    subst e
    obtain ⟨w, hw⟩ := get?_some_of_mem_keys d a ha
    rw [hw] at hg
    cases hg

/-- folding `set` over the pairs of a duplicate-free dict: every one of its entries arrives. -/
theorem get?_foldl_set (cir : Dict κ ν) (hn : (keys cir).Nodup) (x : κ) (v : ν) (h : get? cir x = some v) :
    ∀ ir : Dict κ ν, get? (cir.foldl (fun acc p => set acc p.1 p.2) ir) x = some v := by
  induction cir with
  | nil => simp [get?] at h
  | cons p r ih =>
    obtain ⟨k, u⟩ := p
    intro ir
    simp only [keys, List.map_cons, List.nodup_cons] at hn
    simp only [List.foldl_cons]
    by_cases hk : k = x
    · subst hk
      simp only [get?, if_true, Option.some.injEq] at h
      subst h
      -- no later pair has the key `k`: the value set now survives the rest of the fold
      have hrest : ∀ (l : Dict κ ν), k ∉ keys l → ∀ acc : Dict κ ν, get? acc k = some u →
          get? (l.foldl (fun acc p => set acc p.1 p.2) acc) k = some u := by
        intro l
        induction l with
        | nil => intro _ acc ha; exact ha
        | cons q t iht =>
          obtain ⟨k', u'⟩ := q
          intro hnot acc ha
          simp only [keys, List.map_cons, List.mem_cons, not_or] at hnot
          simp only [List.foldl_cons]
          refine iht (by simpa [keys] using hnot.2) _ ?_
          rw [get?_set_ne _ _ _ _ (fun e => hnot.1 e.symm)]
          exact ha
      exact hrest r (by simpa [keys] using hn.1) _ (get?_set_same ir k u)
    · simp only [get?, hk, if_false] at h
      exact ih (by simpa [keys] using hn.2) h _

end Rattr.Dict

namespace Rattr.FileA
open Rattr Rattr.Strs Rattr.FnA Rattr.RootCtx

/-! ### `ClassAnalyser.analyse()` with an explicit initialiser -/

/-- the `__init__` methods of a class body, in order (`init_method_or_none` looks at these). -/
def initsOf (body : List Top) : List Method := (methodsOf body).filter fun m => m.name = "__init__".toList

/-- `init_method_or_none` when there is at least one `__init__`: the first one is chosen (with an
error when there are more), an `async` one is fatal; the continuation never sees `none`. -/
theorem initMethod_cons (s : FState) (ms : List Method) (i : Method) (rest : List Method)
    (h : ms.filter (fun m => m.name = "__init__".toList) = i :: rest) (k : FState → Option Method → FOut) :
    initMethod s ms k =
      (let s' := if rest.isEmpty then s else FState.diag s (mkDiag .error "multiple-init")
       if i.isAsync then .fatal (FState.diag s' (mkDiag .fatal "async-init")) (mkDiag .fatal "async-init")
       else k s' (some i)) := by
  unfold initMethod
  rw [h]

/-- a class with an `__init__`: the bases play no role at all (in particular the Enum / NamedTuple
heuristics are never consulted). -/
theorem classAnalyse_bases_irrelevant (env : Env) (mn : Str) (cls : Str) (bases bases' : List Node) (body : List Top)
    (decos : List Ann.Deco) (s : FState) (k : FState → ClassIr → FOut) (h : initsOf body ≠ []) :
    classAnalyse env mn cls bases body decos s k = classAnalyse env mn cls bases' body decos s k := by
  unfold classAnalyse
  cases hw : classWalkL cls (body.filter fun t => !isMethod t) { ctx := s.ctx } with
  | ok w =>
    simp only [hw, liftRes]
    cases hf : initsOf body with
    | nil => exact absurd hf h
    | cons i rest =>
      unfold initsOf at hf
      rw [initMethod_cons _ _ i rest hf, initMethod_cons _ _ i rest hf]
  | fatal w d => simp only [hw, liftRes]
  | crash w e => simp only [hw, liftRes]

/-- what the static-method loop does to the `class_ir`: it only ever assigns `Func` keys. So an
entry under a key that is not a `Func` (the class symbol) is untouched, and keys stay unique. -/
theorem staticLoop_preserves (env : Env) (mn : Str) (cls : Str) (key : Sym) (hkey : key.kind ≠ .func) :
    ∀ (ms : List Method) (s : FState) (cir : ClassIr) (k : FState → ClassIr → FOut) (r : FState),
      staticLoop env mn cls ms s cir k = .ok r →
      ∃ s' cir', k s' cir' = .ok r ∧ Dict.get? cir' key = Dict.get? cir key ∧
        ((Dict.keys cir).Nodup → (Dict.keys cir').Nodup)
  | [], s, cir, k, r, h => by
    rw [staticLoop] at h
    exact ⟨s, cir, h, rfl, id⟩
  | m :: rest, s, cir, k, r, h => by
    rw [staticLoop] at h
    cases ha : Ann.hasAnnotation Ann.nStatic m.decos with
    | ok b =>
      simp only [ha, liftAnn] at h
      cases b with
      | false =>
        simp only [Bool.false_eq_true, if_false] at h
        exact staticLoop_preserves env mn cls key hkey rest s cir k r h
      | true =>
        simp only [if_true, visitStatic, analyseInto] at h
        cases ht : FnA.analyse env mn (Context.add s.ctx (funcSym (cls ++ '.' :: m.name) m.ps.iface)) m.ps m.body with
        | ok t =>
          simp only [ht, liftRes] at h
          obtain ⟨s', cir', hk, hg, hn⟩ := staticLoop_preserves env mn cls key hkey rest _ _ k r h
          refine ⟨s', cir', hk, ?_, fun hnd => hn (Dict.keys_set_nodup _ _ _ hnd)⟩
          rw [hg]
          refine Dict.get?_set_ne _ _ _ _ ?_
          intro e
          apply hkey
          rw [← e]
          rfl
        | fatal t d => simp [ht, liftRes] at h
        | crash t e => simp [ht, liftRes] at h
    | fatal f => simp [ha, liftAnn] at h
    | crash c => simp [ha, liftAnn] at h

/-- `ClassAnalyser.analyse()` on a class with exactly one, synchronous, `__init__` (ANY bases):
the `class_ir` handed to the caller maps the class symbol (carrying `__init__`'s interface) to
`FnA.analyse` of the initialiser's body in the context at that moment. -/
theorem classAnalyse_init_entry (env : Env) (mn : Str) (cls : Str) (bases : List Node) (body : List Top)
    (decos : List Ann.Deco) (s : FState) (k : FState → ClassIr → FOut) (r : FState)
    (init : Method) (rest : List Method) (w : St) (sy : Sym) (t : St)
    (hinit : initsOf body = init :: rest) (hsync : init.isAsync = false)
    (hwalk : classWalkL cls (body.filter fun t => !isMethod t) { ctx := s.ctx } = .ok w)
    (hi : Ann.hasAnnotation Ann.nIgnore decos = .ok false)
    (hsy : getClass w.ctx cls = some sy)
    (hr : Ann.hasAnnotation Ann.nResults decos = .ok false)
    (ht : FnA.analyse env mn (updateSymbol w.ctx { sy with iface := some init.ps.iface, callable := true })
            init.ps init.body = .ok t)
    (h : classAnalyse env mn cls bases body decos s k = .ok r) :
    ∃ s' cir', k s' cir' = .ok r ∧
      Dict.get? cir' { sy with iface := some init.ps.iface, callable := true } = some (irOf t) ∧
      (Dict.keys cir').Nodup := by
  unfold classAnalyse at h
  simp only [hwalk, liftRes] at h
  unfold initsOf at hinit
  rw [initMethod_cons _ _ init rest hinit] at h
  simp only [hsync, Bool.false_eq_true, if_false] at h
  have hsy' : sy.kind = .cls := by
    unfold getClass at hsy
    cases hc : Context.get? w.ctx cls with
    | none => simp [hc] at hsy
    | some x =>
      simp only [hc] at hsy
      by_cases hx : (x.kind == SymKind.cls) = true
      · simp only [hx, if_true, Option.some.injEq] at hsy
        subst hsy
        simpa using hx
      · simp [hx] at hsy
  -- both variants of the state before the initialiser (with / without the multiple-init error)
  -- have the context `w.ctx`
  generalize hS : (if rest.isEmpty = true then
      ({ s with ctx := w.ctx, diags := s.diags ++ w.diags } : FState)
    else FState.diag { s with ctx := w.ctx, diags := s.diags ++ w.diags } (mkDiag .error "multiple-init")) = S at h
  have hctx : S.ctx = w.ctx := by
    subst hS
    by_cases he : rest.isEmpty = true <;> simp [he, FState.diag]
  have hsyS : getClass S.ctx cls = some sy := by rw [hctx]; exact hsy
  have htS : FnA.analyse env mn (updateSymbol S.ctx { sy with iface := some init.ps.iface, callable := true })
      init.ps init.body = .ok t := by rw [hctx]; exact ht
  rw [visitInitialiser_analysed env mn cls decos init S [] _ sy t hi hsyS hr htS] at h
  obtain ⟨s', cir', hk, hg, hn⟩ :=
    staticLoop_preserves env mn cls { sy with iface := some init.ps.iface, callable := true }
      (by simp [hsy']) (methodsOf body) _ _ k r h
  refine ⟨s', cir', hk, ?_, hn (by simp [Dict.set, Dict.keys])⟩
  rw [hg]
  exact Dict.get?_set_same _ _ _

/-- … and through `FileAnalyser.visit_ClassDef`: that entry is in the FileIr. -/
theorem visitClassDef_init_entry (env : Env) (mn : Str) (f : Facts) (cls : Str) (bases : List Node) (body : List Top)
    (decos : List Ann.Deco) (s r : FState) (init : Method) (rest : List Method) (w : St) (sy : Sym) (t : St)
    (hinit : initsOf body = init :: rest) (hsync : init.isAsync = false)
    (hwalk : classWalkL cls (body.filter fun t => !isMethod t) { ctx := s.ctx } = .ok w)
    (hi : Ann.hasAnnotation Ann.nIgnore decos = .ok false) (hx : cls ∉ f.excluded)
    (hsy : getClass w.ctx cls = some sy)
    (hr : Ann.hasAnnotation Ann.nResults decos = .ok false)
    (ht : FnA.analyse env mn (updateSymbol w.ctx { sy with iface := some init.ps.iface, callable := true })
            init.ps init.body = .ok t)
    (h : visitClassDef env mn f cls bases body decos s = .ok r) :
    Dict.get? r.ir { sy with iface := some init.ps.iface, callable := true } = some (irOf t) := by
  unfold visitClassDef at h
  simp only [hi, liftAnn, Bool.false_eq_true, if_false, excluded] at h
  have hx' : f.excluded.contains cls = false := by simpa using hx
  simp only [hx'] at h
  obtain ⟨s', cir', hk, hg, hn⟩ :=
    classAnalyse_init_entry env mn cls bases body decos s _ r init rest w sy t hinit hsync hwalk hi hsy hr ht h
  simp only [FOut.ok.injEq] at hk
  subst hk
  exact Dict.get?_foldl_set cir' hn _ _ hg _

end Rattr.FileA

/-! ### returned displays -/
namespace Rattr.FnA
open Rattr Rattr.Strs Rattr.AccessSpec

/-- `return (e₁, …)` / `return [e₁, …]` / `return {e₁, …}`: the elements, one by one. -/
theorem visit_ret_seq (env : Env) (mn : Str) (kind : Str) (elts : List Node) (c : ECtx) (s : St) :
    visit env mn (.ret [.seq kind elts c]) s = visitReturnElts env mn elts s := by
  rw [visit, visitReturnValue]
  simp only [if_true]
  exact bind_ok_right _

/-- `return {k₁: v₁, **sp, …}`: the (non-`None`) keys one by one, then ALL the values one by one —
the operand of a `**spread` is a value without a key. -/
theorem visit_ret_dict (env : Env) (mn : Str) (keys vals : List Node) (s : St) :
    visit env mn (.ret [.dict keys vals]) s =
      (visitReturnElts env mn keys s >>>= fun s => visitReturnElts env mn vals s) := by
  rw [visit, visitReturnValue]
  simp only [if_true]
  cases visitReturnElts env mn keys s with
  | ok s₁ => simp only [bind_ok_left]; exact bind_ok_right _
  | fatal s₁ d => rfl
  | crash s₁ e => rfl

theorem visitReturnElts_append (env : Env) (mn : Str) (a b : List Node) (s : St) :
    visitReturnElts env mn (a ++ b) s = (visitReturnElts env mn a s >>>= fun s₁ => visitReturnElts env mn b s₁) := by
  induction a generalizing s with
  | nil => simp [visitReturnElts]
  | cons n r ih =>
    simp only [List.cons_append]
    rw [visitReturnElts, visitReturnElts, bind_assoc]
    congr 1
    funext s₁
    exact ih s₁

/-- an element that is neither a display nor a call is simply visited. -/
def plainElt : Node → Bool
  | .seq .. | .dict .. | .call .. => false
  | _ => true

theorem visitReturnElts_plain (env : Env) (mn : Str) (e : Node) (r : List Node) (s : St) (h : plainElt e = true) :
    visitReturnElts env mn (e :: r) s = (visit env mn e s >>>= fun s₁ => visitReturnElts env mn r s₁) := by
  rw [visitReturnElts]
  cases e <;> first | (simp [plainElt] at h; done) | (unfold visitReturnValue; simp)

theorem mem_accessesL {a : Access} {v : Node} {l : List Node} (hv : v ∈ l) (ha : a ∈ accesses false v) :
    a ∈ accessesL l := by
  induction l with
  | nil => cases hv
  | cons n r ih =>
    rw [accessesL]
    rcases List.mem_cons.mp hv with e | hr
    · subst e; exact List.mem_append_left _ ha
    · exact List.mem_append_right _ (ih hr)

end Rattr.FnA

/-
  Lemmas for the project model (`RattrModel/Project.lean`).

  Part B — the adapter's program `toProgP`: its functions are the FileIr entries of every file, its
           call records the Call symbols tagged with the path of the calling file (`CidArgs` holds),
           its `resolve` is `resolveAt`;
  Part C — where a resolved callee lives: `locate`, `realClassP` (module-local resolution).
-/
import RattrModel.Project
import RattrProofs.Lemmas.Pipeline

namespace Rattr.Project
open Rattr Rattr.Results Rattr.Pipeline Rattr.FileA

/-! ## Part B — the adapter's program -/

theorem mem_foldl_addOcc (l acc : List Occ) (x : Occ) :
    x ∈ l.foldl addOcc acc ↔ x ∈ acc ∨ x ∈ l := by
  induction l generalizing acc with
  | nil => simp
  | cons a r ih =>
    simp only [List.foldl_cons, ih, List.mem_cons]
    unfold addOcc
    by_cases ha : acc.contains a = true
    · simp only [ha, if_true]
      constructor
      · rintro (h | h)
        · exact Or.inl h
        · exact Or.inr (Or.inr h)
      · rintro (h | h | h)
        · exact Or.inl h
        · subst h; exact Or.inl (by simpa using ha)
        · exact Or.inr h
    · simp only [ha, Bool.false_eq_true, if_false, List.mem_append, List.mem_singleton]
      constructor
      · rintro ((h | h) | h)
        · exact Or.inl h
        · exact Or.inr (Or.inl h)
        · exact Or.inr (Or.inr h)
      · rintro (h | h | h)
        · exact Or.inl (Or.inl h)
        · exact Or.inl (Or.inr h)
        · exact Or.inr h

theorem mem_allOcc {env : PEnv} {e : FileE} (he : e ∈ env) {p : Sym × IR} (hp : p ∈ e.fir) {c : CallSym}
    (hc : c ∈ p.2.calls) : (e.pathId, c) ∈ allOcc env := by
  unfold allOcc
  rw [mem_foldl_addOcc]
  right
  refine List.mem_flatMap.mpr ⟨e, he, ?_⟩
  unfold fileOccs
  exact List.mem_map.mpr ⟨c, List.mem_flatMap.mpr ⟨p, hp, hc⟩, rfl⟩

theorem getElem?_occId {all : List Occ} {o : Occ} (h : o ∈ all) : all[occId all o]? = some o := by
  obtain ⟨i, hi⟩ := indexOf?_of_mem h
  unfold occId
  rw [hi]
  exact indexOf?_some hi

theorem occId_inj {all : List Occ} {o o' : Occ} (h : o ∈ all) (h' : o' ∈ all)
    (e : occId all o = occId all o') : o = o' := by
  have h1 := getElem?_occId h
  have h2 := getElem?_occId h'
  rw [e, h2] at h1
  injection h1 with h1
  exact h1.symm

/-- the `k`-th function of the concatenation, seen through any per-file map `g`. -/
theorem fns_at {β : Type} (env : PEnv) (g : FileE → Sym × IR → β) (k : Nat) :
    (∀ p, (gfir env)[k]? = some p →
      ∃ e ∈ env, p ∈ e.fir ∧ (env.flatMap fun e => e.fir.map (g e))[k]? = some (g e p)) ∧
    ((gfir env)[k]? = none → (env.flatMap fun e => e.fir.map (g e))[k]? = none) := by
  unfold gfir
  induction env generalizing k with
  | nil => simp
  | cons e r ih =>
    simp only [List.flatMap_cons]
    by_cases hk : k < e.fir.length
    · constructor
      · intro p hp
        rw [List.getElem?_append_left hk] at hp
        refine ⟨e, List.mem_cons_self .., List.mem_of_getElem? hp, ?_⟩
        rw [List.getElem?_append_left (by simpa using hk)]
        simp [List.getElem?_map, hp]
      · intro hn
        rw [List.getElem?_append_left hk] at hn
        have := List.getElem?_eq_none_iff.mp hn
        omega
    · have hle := Nat.le_of_not_lt hk
      obtain ⟨ih1, ih2⟩ := ih (k - e.fir.length)
      constructor
      · intro p hp
        rw [List.getElem?_append_right hle] at hp
        obtain ⟨e', he', hp', hf⟩ := ih1 p hp
        refine ⟨e', List.mem_cons_of_mem _ he', hp', ?_⟩
        rw [List.getElem?_append_right (by simpa using hle)]
        simpa using hf
      · intro hn
        rw [List.getElem?_append_right hle] at hn
        rw [List.getElem?_append_right (by simpa using hle)]
        simpa using ih2 hn

theorem fnAt_toProgP (ord : List CallSym → List CallSym) (pf : PFacts) (env : PEnv) (k : Key) (p : Sym × IR)
    (hk : (gfir env)[k]? = some p) :
    ∃ e ∈ env, p ∈ e.fir ∧ fnAt (toProgP ord pf env) k = fnInfoP ord (allOcc env) e.pathId p := by
  obtain ⟨e, he, hp, hf⟩ := (fns_at env (fun e => fnInfoP ord (allOcc env) e.pathId) k).1 p hk
  refine ⟨e, he, hp, ?_⟩
  unfold fnAt toProgP
  simp only [hf, Option.getD_some]

theorem calls_toProgP_none (ord : List CallSym → List CallSym) (pf : PFacts) (env : PEnv) (k : Key)
    (hk : (gfir env)[k]? = none) : (fnAt (toProgP ord pf env) k).calls = [] := by
  have hf := (fns_at env (fun e => fnInfoP ord (allOcc env) e.pathId) k).2 hk
  unfold fnAt toProgP
  simp only [hf, Option.getD_none]

/-- the call records of function `k` of the project's program are the Call symbols of its IR, tagged
with the path of its file. -/
theorem calls_toProgP {pf : PFacts} {env : PEnv} {k : Key} {p : Sym × IR} (hk : (gfir env)[k]? = some p) :
    ∃ e ∈ env, p ∈ e.fir ∧
      (fnAt (toProgP id pf env) k).calls = p.2.calls.map (callRecP (allOcc env) e.pathId) := by
  obtain ⟨e, he, hp, hf⟩ := fnAt_toProgP id pf env k p hk
  exact ⟨e, he, hp, by rw [hf]; rfl⟩

/-- equal cids are equal Call symbols: `CidArgs` holds for every program the adapter builds. -/
theorem toProgP_cidArgs (pf : PFacts) (env : PEnv) : CidArgs (toProgP id pf env) := by
  intro k c c' hc hc' e
  cases hk : (gfir env)[k]? with
  | none => rw [calls_toProgP_none id pf env k hk] at hc; cases hc
  | some p =>
    obtain ⟨f, hf, hp, hcalls⟩ := calls_toProgP (pf := pf) hk
    rw [hcalls] at hc hc'
    obtain ⟨cs, hcs, e1⟩ := List.mem_map.mp hc
    obtain ⟨cs', hcs', e2⟩ := List.mem_map.mp hc'
    subst e1; subst e2
    simp only [callRecP] at e
    have := occId_inj (mem_allOcc hf hp hcs) (mem_allOcc hf hp hcs') e
    simp only [Prod.mk.injEq, true_and] at this
    rw [this]

theorem standIns_toProgP (pf : PFacts) (env : PEnv) :
    (toProgP id pf env).tuple.head? ≠ some '*' ∧ (toProgP id pf env).dict.head? ≠ some '*' := by
  constructor <;> simp [toProgP]

/-- `resolve` of the project's program is `find_call_target_and_ir` on the Call symbol, made in (the
first file with) the path of the calling file. -/
theorem resolve_toProgP (ord : List CallSym → List CallSym) (pf : PFacts) (env : PEnv) {o : Occ}
    (h : o ∈ allOcc env) :
    (toProgP ord pf env).resolve (occId (allOcc env) o) =
      match resolveAt pf env (fileOfPath env o.1) o.2 with
      | .target j k => some (gkey env j k)
      | _ => none := by
  show resolveCidP pf env (allOcc env) _ = _
  unfold resolveCidP
  rw [getElem?_occId h]
  obtain ⟨pid, c⟩ := o
  rfl

/-! ## Part C — where a resolved callee lives -/

theorem keyOf_some {fir : FileIr} {s : Sym} {k : Key} (h : keyOf fir s = some k) :
    ∃ ir, fir[k]? = some (s, ir) := by
  unfold keyOf at h
  have := indexOf?_some h
  rw [List.getElem?_map] at this
  cases hk : fir[k]? with
  | none => simp [hk] at this
  | some p =>
    obtain ⟨s', ir⟩ := p
    simp only [hk, Option.map_some, Option.some.injEq] at this
    subst this
    exact ⟨ir, rfl⟩

/-- `locate`: the symbol is found EITHER in the target's own FileIr, and then the symbol is defined
in (a file with the path of) the target, OR in the FileIr stored under the module name derived from
the path of the file the symbol is defined in. In both cases the key found carries that very
symbol. -/
theorem locate_some {env : PEnv} {loc : Nat} {s : Sym} {j : Nat} {k : Key}
    (h : locate env loc s = some (j, k)) :
    ((j = 0 ∧ samePath env 0 loc = true) ∨
      ∃ m, (fileAt env loc).derived = some m ∧ importIdx env m = some j) ∧
    ∃ ir, (fileAt env j).fir[k]? = some (s, ir) := by
  unfold locate at h
  have via : ∀ {j k}, (match (fileAt env loc).derived with
      | none => none
      | some m => match importIdx env m with
        | none => none
        | some j => (keyOf (fileAt env j).fir s).map fun k => (j, k)) = some (j, k) →
      (∃ m, (fileAt env loc).derived = some m ∧ importIdx env m = some j) ∧
      ∃ ir, (fileAt env j).fir[k]? = some (s, ir) := by
    intro j k hv
    cases hd : (fileAt env loc).derived with
    | none => simp [hd] at hv
    | some m =>
      simp only [hd] at hv
      cases hi : importIdx env m with
      | none => simp [hi] at hv
      | some j' =>
        simp only [hi] at hv
        cases hk : keyOf (fileAt env j').fir s with
        | none => simp [hk] at hv
        | some k' =>
          simp only [hk, Option.map_some, Option.some.injEq, Prod.mk.injEq] at hv
          obtain ⟨e1, e2⟩ := hv
          subst e1; subst e2
          exact ⟨⟨m, rfl, hi⟩, keyOf_some hk⟩
  simp only at h
  by_cases hs : samePath env 0 loc = true
  · simp only [hs, if_true] at h
    cases hk : keyOf (fileAt env 0).fir s with
    | some k0 =>
      simp only [hk, Option.some.injEq, Prod.mk.injEq] at h
      obtain ⟨e1, e2⟩ := h
      subst e1; subst e2
      exact ⟨Or.inl ⟨rfl, hs⟩, keyOf_some hk⟩
    | none =>
      simp only [hk] at h
      obtain ⟨a, b⟩ := via h
      exact ⟨Or.inr a, b⟩
  · simp only [hs, Bool.false_eq_true, if_false] at h
    obtain ⟨a, b⟩ := via h
    exact ⟨Or.inr a, b⟩

/-- every followed file is stored under the module name derived from its own path (what
`parse_and_analyse_imports` does when `Import.module_name` and `derive_module_name_from_path` agree):
looking a file's derived module name up leads to a file with the same path. -/
def PathCoherent (env : PEnv) : Prop :=
  ∀ i m j, (fileAt env i).derived = some m → importIdx env m = some j → samePath env j i = true

theorem samePath_symm {env : PEnv} {i j : Nat} (h : samePath env i j = true) : samePath env j i = true := by
  unfold samePath at *
  rw [beq_iff_eq] at *
  exact h.symm

/-- **module-local resolution.** In a path-coherent environment a symbol defined in file `loc` is
only ever found in a FileIr of a file with THE SAME PATH: never in a same-named function or class of
another file. -/
theorem locate_same_path {env : PEnv} (hC : PathCoherent env) {loc : Nat} {s : Sym} {j : Nat} {k : Key}
    (h : locate env loc s = some (j, k)) : samePath env j loc = true := by
  obtain ⟨h1, _⟩ := locate_some h
  rcases h1 with ⟨e, hs⟩ | ⟨m, hd, hi⟩
  · subst e; exact hs
  · exact hC loc m j hd hi

theorem classCands_mem {env : PEnv} {name : Str} {c : Nat × Sym} (h : c ∈ classCands env name) :
    c.2.kind = .cls ∧ c.2.name = name ∧ ∃ ir, (c.2, ir) ∈ (fileAt env c.1).fir := by
  unfold classCands at h
  obtain ⟨j, _, hj⟩ := List.mem_flatMap.mp h
  obtain ⟨p, hp, e⟩ := List.mem_map.mp hj
  obtain ⟨hp1, hp2⟩ := List.mem_filter.mp hp
  simp only [Bool.and_eq_true, beq_iff_eq] at hp2
  subst e
  exact ⟨hp2.1, hp2.2, p.2, hp1⟩

/-- `__resolve_real_class_target` takes the class defined in the file of the call's target: if that
file (or one with its path) holds a class key of that name, the chosen symbol is a key of such a
file; otherwise the target is kept as is, in its own file. Never a class of a file with another
path. -/
theorem realClassP_same_path (env : PEnv) (i : Nat) (t : Sym) :
    samePath env (realClassP env i t).1 i = true := by
  unfold realClassP
  cases hf : (classCands env t.name).find? (fun c => samePath env c.1 i) with
  | none => simp only; unfold samePath; simp
  | some c' => simp only; simpa using List.find?_some hf

end Rattr.Project

/-
  HIDING: what the scopes BELOW a function's own scope hold under a name the function's own scope
  binds is irrelevant to the analysis of the function.

  `Twin H o₁ o₂ n c₁ c₂`: the two scope chains are `inner ++ fs :: o₁` and `inner ++ fs :: o₂` — the
  same `n - 1` nested scopes `inner`, the same function scope `fs`, two different outer chains — and
  `fs` binds every name of `H`.  When the outer chains agree on every name NOT in `H` (`Agree`), every
  READ the analyser makes (`get?`, `contains`, `declares`, `get_call_target`, …) gives the same answer
  in both chains, and every WRITE (`add`, `remove`, push / pop of a scope) acts on `inner` / `fs` only,
  so the two runs stay twins — as long as no name of `H` is deleted (`del h` unbinds the function's
  own `h`; from then on the name falls through to the outer chain).

  `visit_tw` (mutual with the list / sorted-key / assignment / return-value visitors): the two runs of
  the function analyser produce the same outcome, the same IR (gets, sets, dels, calls with their
  targets) and the same diagnostics.  Used by C05: a module-level definition whose name equals a
  parameter of a function is unrelated code for that function.
-/
import RattrProofs.Lemmas.VisitFrame

namespace Rattr.Context
open Rattr.Strs

theorem get?_append (a b : Context) (x : Str) :
    get? (a ++ b) x = match get? a x with | some s => some s | none => get? b x := by
  induction a with
  | nil => rfl
  | cons sc r ih =>
    show get? (sc :: (r ++ b)) x = _
    rw [get?_cons, get?_cons]
    cases Dict.get? sc x with
    | some s => rfl
    | none => exact ih

/-- the outer chains agree on every name outside `H`. -/
def Agree (H : List Str) (o₁ o₂ : Context) : Prop := ∀ x, x ∉ H → get? o₁ x = get? o₂ x

/-- see the header. -/
def Twin (H : List Str) (o₁ o₂ : Context) (n : Nat) (c₁ c₂ : Context) : Prop :=
  ∃ inner fs, inner.length + 1 = n ∧ c₁ = inner ++ fs :: o₁ ∧ c₂ = inner ++ fs :: o₂ ∧
    ∀ h ∈ H, (Dict.get? fs h).isSome = true

variable {H : List Str} {o₁ o₂ : Context} {n : Nat} {c₁ c₂ : Context}

theorem Twin.pos (h : Twin H o₁ o₂ n c₁ c₂) : 0 < n := by
  obtain ⟨inner, fs, hn, _⟩ := h; omega

/-- every name resolves to the same symbol in both chains. -/
theorem Twin.get? (ha : Agree H o₁ o₂) (h : Twin H o₁ o₂ n c₁ c₂) (x : Str) :
    Context.get? c₂ x = Context.get? c₁ x := by
  obtain ⟨inner, fs, _, rfl, rfl, hb⟩ := h
  rw [get?_append, get?_append, get?_cons, get?_cons]
  cases Context.get? inner x with
  | some s => rfl
  | none =>
    simp only []
    cases hf : Dict.get? fs x with
    | some s => rfl
    | none =>
      simp only []
      by_cases hx : x ∈ H
      · have := hb x hx; rw [hf] at this; cases this
      · exact (ha x hx).symm

theorem Twin.get?_fun (ha : Agree H o₁ o₂) (h : Twin H o₁ o₂ n c₁ c₂) :
    Context.get? c₂ = Context.get? c₁ := funext (h.get? ha)

theorem Twin.contains (ha : Agree H o₁ o₂) (h : Twin H o₁ o₂ n c₁ c₂) (x : Str) :
    Context.contains c₂ x = Context.contains c₁ x := by
  simp only [Context.contains, h.get? ha]

theorem Twin.declares (h : Twin H o₁ o₂ n c₁ c₂) (x : Str) :
    Context.declares c₂ x = Context.declares c₁ x := by
  obtain ⟨inner, fs, _, rfl, rfl, _⟩ := h
  cases inner <;> rfl

theorem isSome_set (d : Scope) (k : Str) (v : Sym) (x : Str) (h : (Dict.get? d x).isSome = true) :
    (Dict.get? (Dict.set d k v) x).isSome = true := by
  by_cases e : k = x
  · subst e; rw [Dict.get?_set_self]; rfl
  · rw [Dict.get?_set_other d k x v e]; exact h

theorem Twin.add (ha : Agree H o₁ o₂) (h : Twin H o₁ o₂ n c₁ c₂) (s : Sym) (b : Bool) :
    Twin H o₁ o₂ n (Context.add c₁ s b) (Context.add c₂ s b) := by
  have hc := h.contains ha s.name
  obtain ⟨inner, fs, hn, rfl, rfl, hb⟩ := h
  unfold Context.add
  rw [hc]
  split
  · cases inner with
    | nil =>
      exact ⟨[], Dict.set fs s.name s, hn, rfl, rfl, fun x hx => isSome_set fs _ _ x (hb x hx)⟩
    | cons sc r =>
      exact ⟨Dict.set sc s.name s :: r, fs, by simpa using hn, rfl, rfl, hb⟩
  · exact ⟨inner, fs, hn, rfl, rfl, hb⟩

theorem Twin.remove (h : Twin H o₁ o₂ n c₁ c₂) (x : Str) (hx : x ∉ H) :
    Twin H o₁ o₂ n (Context.remove c₁ x) (Context.remove c₂ x) := by
  obtain ⟨inner, fs, hn, rfl, rfl, hb⟩ := h
  cases inner with
  | nil =>
    refine ⟨[], eraseKey fs x, hn, rfl, rfl, fun y hy => ?_⟩
    have hne : x ≠ y := fun e => hx (e ▸ hy)
    rw [get?_eraseKey_other fs x y hne]; exact hb y hy
  | cons sc r =>
    exact ⟨eraseKey sc x :: r, fs, by simpa using hn, rfl, rfl, hb⟩

theorem Twin.push (h : Twin H o₁ o₂ n c₁ c₂) :
    Twin H o₁ o₂ (n + 1) (Context.push c₁) (Context.push c₂) := by
  obtain ⟨inner, fs, hn, rfl, rfl, hb⟩ := h
  exact ⟨[] :: inner, fs, by simpa using hn, rfl, rfl, hb⟩

theorem Twin.pop (h : Twin H o₁ o₂ (n + 1) c₁ c₂) (hn : 0 < n) :
    Twin H o₁ o₂ n (Context.pop c₁) (Context.pop c₂) := by
  obtain ⟨inner, fs, hl, rfl, rfl, hb⟩ := h
  cases inner with
  | nil => simp at hl; omega
  | cons sc r => exact ⟨r, fs, by simpa using hl, rfl, rfl, hb⟩

theorem Twin.addNames (ha : Agree H o₁ o₂) (names : List Str) (h : Twin H o₁ o₂ n c₁ c₂) :
    Twin H o₁ o₂ n (Context.addNames c₁ names) (Context.addNames c₂ names) := by
  induction names generalizing c₁ c₂ with
  | nil => exact h
  | cons x r ih => rw [addNames_cons, addNames_cons]; exact ih (h.add ha _ _)

theorem Twin.addArgNames (ha : Agree H o₁ o₂) (names : List Str) (h : Twin H o₁ o₂ n c₁ c₂) :
    Twin H o₁ o₂ n (Context.addArgNames c₁ names) (Context.addArgNames c₂ names) := by
  induction names generalizing c₁ c₂ with
  | nil => exact h
  | cons x r ih => rw [addArgNames_cons, addArgNames_cons]; exact ih (h.add ha _ _)

theorem Twin.removeNames (names : List Str) (hd : ∀ x ∈ names, x ∉ H) (h : Twin H o₁ o₂ n c₁ c₂) :
    Twin H o₁ o₂ n (Context.removeNames c₁ names) (Context.removeNames c₂ names) := by
  induction names generalizing c₁ c₂ with
  | nil => exact h
  | cons x r ih =>
    show Twin H o₁ o₂ n (Context.removeNames (Context.remove c₁ x) r) (Context.removeNames (Context.remove c₂ x) r)
    exact ih (fun y hy => hd y (List.mem_cons_of_mem _ hy)) (h.remove x (hd x List.mem_cons_self))

/-- `get_call_target` gives the same target and the same diagnostics in both chains. -/
theorem Twin.getCallTarget (ha : Agree H o₁ o₂) (h : Twin H o₁ o₂ n c₁ c₂) (env : Env) (callee : Str)
    (coc warn : Bool) : getCallTarget env c₂ callee coc warn = getCallTarget env c₁ callee coc warn := by
  have hg := h.get?_fun ha
  have hd : Context.declares c₂ = Context.declares c₁ := funext h.declares
  unfold Context.getCallTarget Context.targetInImportedModule
  rw [hg, hd]

end Rattr.Context

namespace Rattr.FnA
open Rattr.Strs Rattr.Context

/-- the state with another scope chain. -/
def wc (s : St) (c : Context) : St := { s with ctx := c }

@[simp] theorem wc_ctx (s : St) (c : Context) : (wc s c).ctx = c := rfl
@[simp] theorem wc_gets (s : St) (c : Context) : (wc s c).gets = s.gets := rfl
@[simp] theorem wc_sets (s : St) (c : Context) : (wc s c).sets = s.sets := rfl
@[simp] theorem wc_dels (s : St) (c : Context) : (wc s c).dels = s.dels := rfl
@[simp] theorem wc_calls (s : St) (c : Context) : (wc s c).calls = s.calls := rfl
@[simp] theorem wc_diags (s : St) (c : Context) : (wc s c).diags = s.diags := rfl
@[simp] theorem wc_wc (s : St) (c c' : Context) : wc (wc s c) c' = wc s c' := rfl
@[simp] theorem wc_self (s : St) : wc s s.ctx = s := rfl
@[simp] theorem wc_diag (s : St) (c : Context) (d : Diag) : St.diag (wc s c) d = wc (St.diag s d) c := rfl
@[simp] theorem wc_diagL (s : St) (c : Context) (ds : List Diag) : St.diagL (wc s c) ds = wc (St.diagL s ds) c := rfl
@[simp] theorem wc_ite (p : Prop) [Decidable p] (a b : St) (c : Context) :
    (if p then wc a c else wc b c) = wc (if p then a else b) c := by split <;> rfl
@[simp] theorem wc_updateResults (s : St) (c : Context) (nm : NameS) (k : ECtx) :
    updateResults (wc s c) nm k = wc (updateResults s nm k) c := by cases k <;> rfl
@[simp] theorem wc_freshIr (s : St) (c : Context) : freshIr (wc s c) = wc (freshIr s) c := rfl
@[simp] theorem wc_mergeIr (s t : St) (c c' : Context) : mergeIr (wc s c) (wc t c') = wc (mergeIr s t) c' := rfl

section
variable {H : List Str} {o₁ o₂ : Context}

/-- the two runs end the same way, with the same IR and diagnostics; after a normal end their
scope chains are twins again. -/
def RSim (H : List Str) (o₁ o₂ : Context) (n : Nat) (r₁ r₂ : Res) : Prop :=
  match r₁ with
  | .ok s => ∃ c₂, r₂ = .ok (wc s c₂) ∧ Twin H o₁ o₂ n s.ctx c₂
  | .fatal s d => ∃ c₂, r₂ = .fatal (wc s c₂) d
  | .crash s e => ∃ c₂, r₂ = .crash (wc s c₂) e

theorem RSim.ok {n : Nat} {s : St} {c₂ : Context} (h : Twin H o₁ o₂ n s.ctx c₂) :
    RSim H o₁ o₂ n (.ok s) (.ok (wc s c₂)) := ⟨c₂, rfl, h⟩
theorem RSim.fatal {n : Nat} {s : St} {c₂ : Context} {d : Diag} :
    RSim H o₁ o₂ n (.fatal s d) (.fatal (wc s c₂) d) := ⟨c₂, rfl⟩
theorem RSim.crash {n : Nat} {s : St} {c₂ : Context} {e : Str} :
    RSim H o₁ o₂ n (.crash s e) (.crash (wc s c₂) e) := ⟨c₂, rfl⟩

theorem RSim.bind {m n : Nat} {r₁ r₂ : Res} {f₁ f₂ : St → Res} (hr : RSim H o₁ o₂ m r₁ r₂)
    (hf : ∀ s c₂, Twin H o₁ o₂ m s.ctx c₂ → RSim H o₁ o₂ n (f₁ s) (f₂ (wc s c₂))) :
    RSim H o₁ o₂ n (r₁ >>>= f₁) (r₂ >>>= f₂) := by
  cases r₁ with
  | ok s => obtain ⟨c₂, rfl, tw⟩ := hr; exact hf s c₂ tw
  | fatal s d => obtain ⟨c₂, rfl⟩ := hr; exact ⟨c₂, rfl⟩
  | crash s e => obtain ⟨c₂, rfl⟩ := hr; exact ⟨c₂, rfl⟩

theorem RSim.liftName {n : Nat} (s : St) (c₂ : Context) (r : NameRes) {k₁ k₂ : Str → Str → Res}
    (hk : ∀ b f, RSim H o₁ o₂ n (k₁ b f) (k₂ b f)) :
    RSim H o₁ o₂ n (liftName s r k₁) (liftName (wc s c₂) r k₂) := by
  cases r with
  | ok b f => exact hk b f
  | fatal d => exact ⟨c₂, rfl⟩
  | crash e => exact ⟨c₂, rfl⟩

theorem RSim.getAndVerify (ha : Agree H o₁ o₂) {n : Nat} (s : St) (c₂ : Context) (nd : Node) (c : ECtx)
    {k₁ k₂ : St → Str → Str → Res} (tw : Twin H o₁ o₂ n s.ctx c₂)
    (hk : ∀ s1 b f, Twin H o₁ o₂ n s1.ctx c₂ → RSim H o₁ o₂ n (k₁ s1 b f) (k₂ (wc s1 c₂) b f)) :
    RSim H o₁ o₂ n (getAndVerify s nd c k₁) (getAndVerify (wc s c₂) nd c k₂) := by
  unfold FnA.getAndVerify
  apply RSim.liftName
  intro b f
  simp only [wc_ctx, tw.contains ha, wc_diag, wc_ite]
  apply hk
  split <;> simpa using tw

theorem RSim.protect {n : Nat} {outer : St} {c₂ : Context} {r₁ r₂ : Res} (h : RSim H o₁ o₂ n r₁ r₂) :
    RSim H o₁ o₂ n (protect outer r₁) (protect (wc outer c₂) r₂) := by
  cases r₁ with
  | ok s => obtain ⟨c, rfl, tw⟩ := h; exact ⟨c, rfl, tw⟩
  | fatal s d => obtain ⟨c, rfl⟩ := h; exact ⟨c, rfl⟩
  | crash s e => obtain ⟨c, rfl⟩ := h; exact ⟨c, rfl⟩

theorem RSim.argNames {n : Nat} (args : List Node) (s : St) (c₂ : Context) {k₁ k₂ : St → List Str → Res}
    (tw : Twin H o₁ o₂ n s.ctx c₂)
    (hk : ∀ s1 l, Twin H o₁ o₂ n s1.ctx c₂ → RSim H o₁ o₂ n (k₁ s1 l) (k₂ (wc s1 c₂) l)) :
    RSim H o₁ o₂ n (argNames s args k₁) (argNames (wc s c₂) args k₂) := by
  induction args generalizing s k₁ k₂ with
  | nil => exact hk s [] tw
  | cons a r ih =>
    simp only [FnA.argNames, wc_diag, wc_ite]
    split
    · apply ih
      · split <;> simpa using tw
      · intro s1 l h1; exact hk s1 _ h1
    · exact ⟨c₂, rfl⟩
    · exact ⟨c₂, rfl⟩

theorem RSim.kwargNames {n : Nat} (kwn : List (Option Str)) (kwv : List Node) (s : St) (c₂ : Context)
    {k₁ k₂ : St → List (Str × Str) → Res} (tw : Twin H o₁ o₂ n s.ctx c₂)
    (hk : ∀ s1 l, Twin H o₁ o₂ n s1.ctx c₂ → RSim H o₁ o₂ n (k₁ s1 l) (k₂ (wc s1 c₂) l)) :
    RSim H o₁ o₂ n (kwargNames s kwn kwv k₁) (kwargNames (wc s c₂) kwn kwv k₂) := by
  induction kwn generalizing kwv k₁ k₂ with
  | nil => simp only [FnA.kwargNames]; exact hk s [] tw
  | cons a rn ih =>
    cases kwv with
    | nil => cases a <;> (simp only [FnA.kwargNames]; exact hk s [] tw)
    | cons v rv =>
      cases a with
      | none => simp only [FnA.kwargNames]; exact ih rv hk
      | some kk =>
        simp only [FnA.kwargNames, wc_diag]
        split
        · exact ih rv (fun s1 l h1 => hk s1 _ h1)
        · exact ⟨c₂, rfl⟩
        · exact ⟨c₂, rfl⟩

theorem RSim.mkCall {n : Nat} (s : St) (c₂ : Context) (name : Str) (args : List Node)
    (kwn : List (Option Str)) (kwv : List Node) (target : Option Sym) (self : Option Str)
    {k₁ k₂ : St → CallSym → Res} (tw : Twin H o₁ o₂ n s.ctx c₂)
    (hk : ∀ s1 c, Twin H o₁ o₂ n s1.ctx c₂ → RSim H o₁ o₂ n (k₁ s1 c) (k₂ (wc s1 c₂) c)) :
    RSim H o₁ o₂ n (mkCall s name args kwn kwv target self k₁)
      (mkCall (wc s c₂) name args kwn kwv target self k₂) := by
  unfold FnA.mkCall
  apply RSim.argNames args s c₂ tw
  intro s1 l h1
  apply RSim.kwargNames kwn kwv s1 c₂ h1
  intro s2 l2 h2
  exact hk s2 _ h2

theorem RSim.dynamicName {n : Nat} (s : St) (c₂ : Context) (fn : Str) (args : List Node)
    {k₁ k₂ : St → NameS → Res} (tw : Twin H o₁ o₂ n s.ctx c₂)
    (hk : ∀ s1 nm, Twin H o₁ o₂ n s1.ctx c₂ → RSim H o₁ o₂ n (k₁ s1 nm) (k₂ (wc s1 c₂) nm)) :
    RSim H o₁ o₂ n (dynamicName s fn args k₁) (dynamicName (wc s c₂) fn args k₂) := by
  unfold FnA.dynamicName
  simp only [wc_diag]
  repeat' split
  all_goals first | exact ⟨c₂, rfl⟩ | (apply hk; simpa using tw)

theorem RSim.addIdentifiers (ha : Agree H o₁ o₂) {n : Nat} (s : St) (c₂ : Context) (tg : Node)
    (tw : Twin H o₁ o₂ n s.ctx c₂) :
    RSim H o₁ o₂ n (addIdentifiers s tg) (addIdentifiers (wc s c₂) tg) := by
  unfold FnA.addIdentifiers
  split
  · rename_i names _
    exact ⟨Context.addNames c₂ names, rfl, tw.addNames ha names⟩
  · exact ⟨c₂, rfl⟩
  · exact ⟨c₂, rfl⟩

theorem RSim.removeIdentifiers {n : Nat} (s : St) (c₂ : Context) (tg : Node)
    (hd : ∀ names, unravelFullNames tg = .ok names → ∀ x ∈ names, x ∉ H)
    (tw : Twin H o₁ o₂ n s.ctx c₂) :
    RSim H o₁ o₂ n (removeIdentifiers s tg) (removeIdentifiers (wc s c₂) tg) := by
  unfold FnA.removeIdentifiers
  split
  · rename_i names hu
    exact ⟨Context.removeNames c₂ names, rfl, tw.removeNames names (hd names hu)⟩
  · exact ⟨c₂, rfl⟩
  · exact ⟨c₂, rfl⟩

theorem RSim.addIdentifiersL (ha : Agree H o₁ o₂) {n : Nat} (ts : List Node) (s : St) (c₂ : Context)
    (tw : Twin H o₁ o₂ n s.ctx c₂) :
    RSim H o₁ o₂ n (addIdentifiersL s ts) (addIdentifiersL (wc s c₂) ts) := by
  induction ts generalizing s c₂ with
  | nil => exact RSim.ok tw
  | cons tg r ih =>
    simp only [FnA.addIdentifiersL]
    exact RSim.bind (RSim.addIdentifiers ha s c₂ tg tw) (fun s1 c h1 => ih s1 c h1)

theorem RSim.removeIdentifiersL {n : Nat} (ts : List Node) (s : St) (c₂ : Context)
    (hd : ∀ t ∈ ts, ∀ names, unravelFullNames t = .ok names → ∀ x ∈ names, x ∉ H)
    (tw : Twin H o₁ o₂ n s.ctx c₂) :
    RSim H o₁ o₂ n (removeIdentifiersL s ts) (removeIdentifiersL (wc s c₂) ts) := by
  induction ts generalizing s c₂ with
  | nil => exact RSim.ok tw
  | cons tg r ih =>
    simp only [FnA.removeIdentifiersL]
    exact RSim.bind (RSim.removeIdentifiers s c₂ tg (hd tg List.mem_cons_self) tw)
      (fun s1 c h1 => ih s1 c (fun t ht => hd t (List.mem_cons_of_mem _ ht)) h1)

theorem RSim.withRegister (ha : Agree H o₁ o₂) {n : Nat} (items : List Node) (s : St) (c₂ : Context)
    (tw : Twin H o₁ o₂ n s.ctx c₂) :
    RSim H o₁ o₂ n (withRegister items s) (withRegister items (wc s c₂)) := by
  induction items generalizing s c₂ with
  | nil => exact RSim.ok tw
  | cons it r ih =>
    cases it with
    | withitem ce vars =>
      simp only [FnA.withRegister]
      exact RSim.bind (RSim.addIdentifiersL ha vars s c₂ tw) (fun s1 c h1 => ih s1 c h1)
    | _ => simp only [FnA.withRegister]; exact ih s c₂ tw

theorem addArguments_wc (s : St) (c : Context) (ps : Params) :
    addArguments (wc s c) ps = wc (addArguments s ps) (Context.addArgNames c ps.all) := rfl

theorem Twin.addArguments (ha : Agree H o₁ o₂) {n : Nat} {s : St} {c₂ : Context} (ps : Params)
    (tw : Twin H o₁ o₂ n s.ctx c₂) :
    Twin H o₁ o₂ n (addArguments s ps).ctx (Context.addArgNames c₂ ps.all) := by
  rw [addArguments_ctx]; exact tw.addArgNames ha _

theorem RSim.defaultdictNamed (ha : Agree H o₁ o₂) {n : Nat} (env : Env) (factory : Node) (s : St)
    (c₂ : Context) (tw : Twin H o₁ o₂ n s.ctx c₂) :
    RSim H o₁ o₂ n (defaultdictNamed env factory s) (defaultdictNamed env factory (wc s c₂)) := by
  unfold FnA.defaultdictNamed
  apply RSim.liftName
  intro _ name
  simp only [wc_ctx, tw.getCallTarget ha, wc_diagL]
  exact ⟨c₂, rfl, by simpa using tw⟩

theorem exprIsClass_tw (ha : Agree H o₁ o₂) {n : Nat} {c₁ c₂ : Context} (tw : Twin H o₁ o₂ n c₁ c₂)
    (env : Env) (e : Node) : exprIsClass env c₂ e = exprIsClass env c₁ e := by
  unfold FnA.exprIsClass; simp only [tw.getCallTarget ha]

theorem anyIsClass_tw (ha : Agree H o₁ o₂) {n : Nat} {c₁ c₂ : Context} (tw : Twin H o₁ o₂ n c₁ c₂)
    (env : Env) (l : List Node) : anyIsClass env c₂ l = anyIsClass env c₁ l := by
  induction l with
  | nil => rfl
  | cons e r ih => simp only [FnA.anyIsClass, exprIsClass_tw ha tw, ih]

theorem classInRhs_tw (ha : Agree H o₁ o₂) {n : Nat} {c₁ c₂ : Context} (tw : Twin H o₁ o₂ n c₁ c₂)
    (env : Env) (v : Node) : classInRhs env c₂ v = classInRhs env c₁ v := by
  unfold FnA.classInRhs
  split
  · exact exprIsClass_tw ha tw env _
  · simp only [anyIsClass_tw ha tw]
  · rfl

theorem unbindSt_wc (l : St) (c : Context) (a b : Str) :
    unbindSt (wc l c) a b = (unbindSt l a b).map (fun l' => wc l' c) := by
  unfold FnA.unbindSt
  simp only [wc_gets, wc_sets, wc_dels]
  split <;> rfl

end
end Rattr.FnA

/-! ### "no name of `H` is deleted anywhere in the body" -/

namespace Rattr
/-- the child nodes the function analyser may descend into. -/
def Node.kids : Node → List Node
  | .attr v _ _ => [v]
  | .sub v sl _ => [v, sl]
  | .starred v _ => [v]
  | .call f args _ kwv => f :: (args ++ kwv)
  | .lam _ body => [body]
  | .comp _ elts gens => elts ++ gens
  | .gen t it ifs => t :: it :: ifs
  | .walrus t v => [t, v]
  | .seq _ elts _ => elts
  | .dict keys vals => keys ++ vals
  | .assign ts v => v :: ts
  | .annAssign t ann v => t :: ann :: v
  | .augAssign t v => [t, v]
  | .delete ts => ts
  | .forLoop t it body orelse => t :: it :: (body ++ orelse)
  | .withStmt items body => items ++ body
  | .withitem ce vars => ce :: vars
  | .funcDef _ _ body => body
  | .ret v => v
  | .other _ kids => kids
  | _ => []

/-- `Reach n m`: `m` is `n` or a descendant of `n`. -/
inductive Reach : Node → Node → Prop
  | refl (n : Node) : Reach n n
  | step {n k m : Node} : k ∈ n.kids → Reach k m → Reach n m
end Rattr

namespace Rattr.FnA
open Rattr.Strs Rattr.Context

/-- no `del` statement in (or below) `nd` has a target whose full name is a name of `H`
(`del h.attr` and `del h[i]` are fine: their full names are `h.attr`, `h[]`). -/
def NoDel (H : List Str) (nd : Node) : Prop :=
  ∀ ts, Reach nd (.delete ts) → ∀ t ∈ ts, ∀ names, unravelFullNames t = .ok names → ∀ x ∈ names, x ∉ H

theorem NoDel.kid {H : List Str} {nd k : Node} (h : NoDel H nd) (hk : k ∈ nd.kids) : NoDel H k :=
  fun ts hr => h ts (Reach.step hk hr)

theorem NoDel.here {H : List Str} {ts : List Node} (h : NoDel H (.delete ts)) :
    ∀ t ∈ ts, ∀ names, unravelFullNames t = .ok names → ∀ x ∈ names, x ∉ H :=
  h ts (Reach.refl _)

section
variable {H : List Str} {o₁ o₂ : Context}

/-- the relation for the outcome of the assignment diversions. -/
def ASim (H : List Str) (o₁ o₂ : Context) (n : Nat) (a₁ a₂ : AssignOut) : Prop :=
  match a₁ with
  | .done r₁ => ∃ r₂, a₂ = .done r₂ ∧ RSim H o₁ o₂ n r₁ r₂
  | .generic s => ∃ c₂, a₂ = .generic (wc s c₂) ∧ Twin H o₁ o₂ n s.ctx c₂

theorem compound_tw {n : Nat} (env : Env) (mn : Str) (v : Node) (nm : NameS) (c : ECtx) (s1 : St) (c₂ : Context)
    (h1 : Twin H o₁ o₂ n s1.ctx c₂)
    (ih : ∀ s c, Twin H o₁ o₂ n s.ctx c → RSim H o₁ o₂ n (visit env mn v s) (visit env mn v (wc s c))) :
    RSim H o₁ o₂ n
      ((if (!v.isNameable) = true then visit env mn v s1 else Res.ok s1) >>>= fun s => Res.ok (updateResults s nm c))
      ((if (!v.isNameable) = true then visit env mn v (wc s1 c₂) else Res.ok (wc s1 c₂)) >>>= fun s =>
        Res.ok (updateResults s nm c)) := by
  apply RSim.bind (m := n)
  · split
    · exact ih s1 c₂ h1
    · exact RSim.ok h1
  · intro s2 c' h2
    simp only [wc_updateResults]
    exact RSim.ok (by simpa using h2)

mutual
theorem visit_tw (ha : Agree H o₁ o₂) (env : Env) (mn : Str) : (nd : Node) → (n : Nat) → (s : St) → (c₂ : Context) →
    Twin H o₁ o₂ n s.ctx c₂ → NoDel H nd → RSim H o₁ o₂ n (visit env mn nd s) (visit env mn nd (wc s c₂))
  | .name id c, n, s, c₂, tw, hnd => by
    simp only [visit]
    apply RSim.getAndVerify ha _ _ _ _ tw; intro s1 b f h1
    simp only [wc_updateResults]
    exact RSim.ok (by simpa using h1)
  | .attr v a c, n, s, c₂, tw, hnd => by
    simp only [visit]
    apply RSim.getAndVerify ha _ _ _ _ tw; intro s1 b f h1
    exact compound_tw env mn v _ c s1 c₂ h1 (fun s c h => visit_tw ha env mn v n s c h (hnd.kid (by simp [Node.kids])))
  | .sub v sl c, n, s, c₂, tw, hnd => by
    simp only [visit]
    apply RSim.getAndVerify ha _ _ _ _ tw; intro s1 b f h1
    exact compound_tw env mn v _ c s1 c₂ h1 (fun s c h => visit_tw ha env mn v n s c h (hnd.kid (by simp [Node.kids])))
  | .starred v c, n, s, c₂, tw, hnd => by
    simp only [visit]
    apply RSim.getAndVerify ha _ _ _ _ tw; intro s1 b f h1
    exact compound_tw env mn v _ c s1 c₂ h1 (fun s c h => visit_tw ha env mn v n s c h (hnd.kid (by simp [Node.kids])))
  | .call f args kwn kwv, n, s, c₂, tw, hnd => by
    have hargs : ∀ x ∈ args, NoDel H x := fun x hx => hnd.kid (by simp [Node.kids, hx])
    have hkwv : ∀ x ∈ kwv, NoDel H x := fun x hx => hnd.kid (by simp [Node.kids, hx])
    unfold visit; simp only []
    apply RSim.liftName; intro _ tn
    simp only [wc_ctx, tw.getCallTarget ha]
    split
    · -- custom analyser
      rename_i q _
      split
      · exact RSim.dynamicName s c₂ tn args tw (fun s1 nm h1 => ⟨c₂, rfl, h1⟩)
      split
      · exact RSim.dynamicName s c₂ tn args tw (fun s1 nm h1 => ⟨c₂, rfl, h1⟩)
      split
      · exact RSim.dynamicName s c₂ tn args tw (fun s1 nm h1 => ⟨c₂, rfl, h1⟩)
      split
      · -- sorted
        cases args with
        | nil => exact ⟨c₂, rfl, tw⟩
        | cons a0 tl =>
          simp only [wc_freshIr]
          apply RSim.bind (m := n)
          · apply RSim.protect
            apply RSim.bind (visit_tw ha env mn a0 n (freshIr s) c₂ (by simpa using tw) (hargs a0 List.mem_cons_self))
            intro u c hu
            exact sortedKey_tw ha env mn (namesOf true a0) kwn kwv n u c hu hkwv
          · intro u c hu
            simp only [wc_mergeIr]
            exact RSim.ok (by simpa using hu)
      split
      · -- defaultdict
        cases args with
        | nil => exact ⟨c₂, rfl, tw⟩
        | cons factory tl =>
          have hfac : NoDel H factory := hargs factory List.mem_cons_self
          simp only []
          split
          · rename_i ps body _
            refine RSim.bind (m := n + 1) (RSim.protect (visit_tw ha env mn body (n + 1)
              (addArguments { (freshIr s) with ctx := Context.push s.ctx } ps)
              (Context.addArgNames (Context.push c₂) ps.all) ?_ (hfac.kid (by simp [Node.kids])))) ?_
            · exact Twin.addArguments (s := { (freshIr s) with ctx := Context.push s.ctx }) ha ps tw.push
            · intro u c hu; exact ⟨Context.pop c, rfl, hu.pop tw.pos⟩
          · exact RSim.defaultdictNamed ha env _ s c₂ tw
          · exact RSim.defaultdictNamed ha env _ s c₂ tw
          · refine RSim.bind (m := n + 1) (RSim.protect (visit_tw ha env mn factory (n + 1)
              { (freshIr s) with ctx := Context.push s.ctx } (Context.push c₂) tw.push hfac)) ?_
            intro u c hu; exact ⟨Context.pop c, rfl, hu.pop tw.pos⟩
      · exact ⟨c₂, rfl, tw⟩
    · -- ordinary call
      apply RSim.getAndVerify ha _ _ _ _ tw; intro s1 _ fullname h1
      simp only [wc_ctx, h1.getCallTarget ha, wc_diagL]
      generalize getCallTarget env.ctxEnv s1.ctx fullname (isCallOnCall (Node.call f args kwn kwv)) true = gt
      obtain ⟨tgt, ds⟩ := gt
      have fin : ∀ (S : St) (self : Option Str), Twin H o₁ o₂ n S.ctx c₂ →
          RSim H o₁ o₂ n
            (mkCall { S with gets := (receiverPrefixes fullname).foldl addTo S.gets } fullname args kwn kwv tgt self
              fun s call => visitList env mn args { s with calls := addCall s.calls call } >>>= fun s => visitList env mn kwv s)
            (mkCall { (wc S c₂) with gets := (receiverPrefixes fullname).foldl addTo (wc S c₂).gets } fullname args kwn kwv tgt self
              fun s call => visitList env mn args { s with calls := addCall s.calls call } >>>= fun s => visitList env mn kwv s) := by
        intro S self hS
        refine RSim.mkCall { S with gets := (receiverPrefixes fullname).foldl addTo S.gets } c₂ _ _ _ _ _ _ hS ?_
        intro s2 c h2
        exact RSim.bind (visitList_tw ha env mn args n { s2 with calls := addCall s2.calls c } c₂ h2 hargs)
          (fun s3 c3 h3 => visitList_tw ha env mn kwv n s3 c3 h3 hkwv)
      cases tgt with
      | none => exact fin _ none (by simpa using h1)
      | some t =>
        simp only []
        split
        · exact fin _ _ (by simpa using h1)
        · exact fin _ none (by simpa using h1)
  | .lam ps body, n, s, c₂, tw, hnd => by
    simp only [visit]
    refine RSim.bind (m := n + 1) (visit_tw ha env mn body (n + 1) _
      (Context.addArgNames (Context.push c₂) ps.all) ?_ (hnd.kid (by simp [Node.kids]))) ?_
    · exact Twin.addArguments (s := { (St.diag s (mkDiag .error "anon-lambda")) with ctx := Context.push s.ctx }) ha ps tw.push
    · intro u c hu; exact ⟨Context.pop c, rfl, hu.pop tw.pos⟩
  | .comp k elts gens, n, s, c₂, tw, hnd => by
    simp only [visit]
    refine RSim.bind (m := n + 1) (visitList_tw ha env mn gens (n + 1) { s with ctx := Context.push s.ctx }
      (Context.push c₂) tw.push (fun x hx => hnd.kid (by simp [Node.kids, hx]))) ?_
    intro s1 c h1
    refine RSim.bind (m := n + 1) (visitList_tw ha env mn elts (n + 1) s1 c h1
      (fun x hx => hnd.kid (by simp [Node.kids, hx]))) ?_
    intro s2 c' h2; exact ⟨Context.pop c', rfl, h2.pop tw.pos⟩
  | .gen target iter ifs, n, s, c₂, tw, hnd => by
    simp only [visit]
    exact RSim.bind (RSim.addIdentifiers ha s c₂ target tw) fun s1 c1 h1 =>
      RSim.bind (visit_tw ha env mn target n s1 c1 h1 (hnd.kid (by simp [Node.kids]))) fun s2 c2 h2 =>
      RSim.bind (visit_tw ha env mn iter n s2 c2 h2 (hnd.kid (by simp [Node.kids]))) fun s3 c3 h3 =>
        visitList_tw ha env mn ifs n s3 c3 h3 (fun x hx => hnd.kid (by simp [Node.kids, hx]))
  | .walrus tg v, n, s, c₂, tw, hnd => by
    have hv : NoDel H v := hnd.kid (by simp [Node.kids])
    have ht : NoDel H tg := hnd.kid (by simp [Node.kids])
    simp only [visit]
    apply RSim.liftName; intro base full
    apply RSim.bind (m := n)
    · split
      · exact visit_tw ha env mn v n _ c₂ tw hv
      · exact ⟨c₂, rfl, tw⟩
    · intro s1 c1 h1
      have ih := assignDiv_tw ha env mn [tg] v n s1 c1 h1 hv
      cases hA : assignDiv env mn [tg] v s1 with
      | done r =>
        rw [hA] at ih; obtain ⟨r₂, h2, hr⟩ := ih
        simp only [h2]; exact hr
      | generic s2 =>
        rw [hA] at ih; obtain ⟨c2, h2, tw2⟩ := ih
        simp only [h2]
        exact RSim.bind (visit_tw ha env mn tg n s2 c2 tw2 ht) fun s3 c3 h3 => visit_tw ha env mn v n s3 c3 h3 hv
  | .strConst _, n, s, c₂, tw, hnd => by simp only [visit]; exact ⟨c₂, rfl, tw⟩
  | .const, n, s, c₂, tw, hnd => by simp only [visit]; exact ⟨c₂, rfl, tw⟩
  | .seq _ elts _, n, s, c₂, tw, hnd => by
    simp only [visit]; exact visitList_tw ha env mn elts n s c₂ tw (fun x hx => hnd.kid (by simp [Node.kids, hx]))
  | .dict keys vals, n, s, c₂, tw, hnd => by
    simp only [visit]
    exact RSim.bind (visitList_tw ha env mn keys n s c₂ tw (fun x hx => hnd.kid (by simp [Node.kids, hx])))
      fun s1 c1 h1 => visitList_tw ha env mn vals n s1 c1 h1 (fun x hx => hnd.kid (by simp [Node.kids, hx]))
  | .assign targets v, n, s, c₂, tw, hnd => by
    have hv : NoDel H v := hnd.kid (by simp [Node.kids])
    simp only [visit]
    have ih := assignDiv_tw ha env mn targets v n s c₂ tw hv
    cases hA : assignDiv env mn targets v s with
    | done r =>
      rw [hA] at ih; obtain ⟨r₂, h2, hr⟩ := ih
      simp only [h2]; exact hr
    | generic s2 =>
      rw [hA] at ih; obtain ⟨c2, h2, tw2⟩ := ih
      simp only [h2]
      exact RSim.bind (visitList_tw ha env mn targets n s2 c2 tw2 (fun x hx => hnd.kid (by simp [Node.kids, hx])))
        fun s3 c3 h3 => visit_tw ha env mn v n s3 c3 h3 hv
  | .annAssign tg ann [], n, s, c₂, tw, hnd => by
    simp only [visit]
    exact RSim.bind (RSim.addIdentifiers ha s c₂ tg tw) fun s1 c1 h1 =>
      RSim.bind (visit_tw ha env mn tg n s1 c1 h1 (hnd.kid (by simp [Node.kids]))) fun s2 c2 h2 =>
        visit_tw ha env mn ann n s2 c2 h2 (hnd.kid (by simp [Node.kids]))
  | .annAssign tg ann (v0 :: rest), n, s, c₂, tw, hnd => by
    have hv : NoDel H v0 := hnd.kid (by simp [Node.kids])
    simp only [visit]
    have ih := assignDiv_tw ha env mn [tg] v0 n s c₂ tw hv
    cases hA : assignDiv env mn [tg] v0 s with
    | done r =>
      rw [hA] at ih; obtain ⟨r₂, h2, hr⟩ := ih
      simp only [h2]; exact hr
    | generic s2 =>
      rw [hA] at ih; obtain ⟨c2, h2, tw2⟩ := ih
      simp only [h2]
      exact RSim.bind (visit_tw ha env mn tg n s2 c2 tw2 (hnd.kid (by simp [Node.kids]))) fun s3 c3 h3 =>
        RSim.bind (visit_tw ha env mn ann n s3 c3 h3 (hnd.kid (by simp [Node.kids]))) fun s4 c4 h4 =>
          visit_tw ha env mn v0 n s4 c4 h4 hv
  | .augAssign tg v, n, s, c₂, tw, hnd => by
    have hv : NoDel H v := hnd.kid (by simp [Node.kids])
    simp only [visit]
    have ih := assignDiv_tw ha env mn [tg] v n s c₂ tw hv
    cases hA : assignDiv env mn [tg] v s with
    | done r =>
      rw [hA] at ih; obtain ⟨r₂, h2, hr⟩ := ih
      simp only [h2]; exact hr
    | generic s2 =>
      rw [hA] at ih; obtain ⟨c2, h2, tw2⟩ := ih
      simp only [h2]
      exact RSim.bind (visit_tw ha env mn tg n s2 c2 tw2 (hnd.kid (by simp [Node.kids]))) fun s3 c3 h3 =>
        visit_tw ha env mn v n s3 c3 h3 hv
  | .delete targets, n, s, c₂, tw, hnd => by
    simp only [visit]
    exact RSim.bind (visitList_tw ha env mn targets n s c₂ tw (fun x hx => hnd.kid (by simp [Node.kids, hx])))
      fun s1 c1 h1 => RSim.removeIdentifiersL targets s1 c1 hnd.here h1
  | .forLoop tg iter body orelse, n, s, c₂, tw, hnd => by
    simp only [visit]
    exact RSim.bind (RSim.addIdentifiers ha s c₂ tg tw) fun s1 c1 h1 =>
      RSim.bind (visit_tw ha env mn tg n s1 c1 h1 (hnd.kid (by simp [Node.kids]))) fun s2 c2 h2 =>
      RSim.bind (visit_tw ha env mn iter n s2 c2 h2 (hnd.kid (by simp [Node.kids]))) fun s3 c3 h3 =>
      RSim.bind (visitList_tw ha env mn body n s3 c3 h3 (fun x hx => hnd.kid (by simp [Node.kids, hx]))) fun s4 c4 h4 =>
        visitList_tw ha env mn orelse n s4 c4 h4 (fun x hx => hnd.kid (by simp [Node.kids, hx]))
  | .withStmt items body, n, s, c₂, tw, hnd => by
    simp only [visit]
    exact RSim.bind (RSim.withRegister ha items s c₂ tw) fun s1 c1 h1 =>
      RSim.bind (visitList_tw ha env mn items n s1 c1 h1 (fun x hx => hnd.kid (by simp [Node.kids, hx]))) fun s2 c2 h2 =>
        visitList_tw ha env mn body n s2 c2 h2 (fun x hx => hnd.kid (by simp [Node.kids, hx]))
  | .withitem ce vars, n, s, c₂, tw, hnd => by
    simp only [visit]
    exact RSim.bind (visit_tw ha env mn ce n s c₂ tw (hnd.kid (by simp [Node.kids]))) fun s1 c1 h1 =>
      visitList_tw ha env mn vars n s1 c1 h1 (fun x hx => hnd.kid (by simp [Node.kids, hx]))
  | .funcDef name ps body, n, s, c₂, tw, hnd => by
    simp only [visit]
    have h0 : Twin H o₁ o₂ n (Context.add (St.diag s (mkDiag .error "nested-function")).ctx (funcSym name ps.iface))
        (Context.add c₂ (funcSym name ps.iface)) := Twin.add ha (by simpa using tw) _ _
    refine RSim.bind (m := n + 1) (visitList_tw ha env mn body (n + 1) _
      (Context.addArgNames (Context.push (Context.add c₂ (funcSym name ps.iface))) ps.all) ?_
      (fun x hx => hnd.kid (by simp [Node.kids, hx]))) ?_
    · exact Twin.addArguments (s := { (St.diag s (mkDiag .error "nested-function")) with
        ctx := Context.push (Context.add (St.diag s (mkDiag .error "nested-function")).ctx (funcSym name ps.iface)) }) ha ps h0.push
    · intro u c hu; exact ⟨Context.pop c, rfl, hu.pop tw.pos⟩
  | .classDef _, n, s, c₂, tw, hnd => by simp only [visit]; exact ⟨c₂, rfl, by simpa using tw⟩
  | .ret [], n, s, c₂, tw, hnd => by simp only [visit]; exact ⟨c₂, rfl, tw⟩
  | .ret (v0 :: rest), n, s, c₂, tw, hnd => by
    have hv : NoDel H v0 := hnd.kid (by simp [Node.kids])
    simp only [visit]
    apply retVal_tw ha env mn v0 n s c₂ _ _ tw hv
    intro s1 c1 b h1
    split
    · exact ⟨c1, rfl, h1⟩
    · exact visit_tw ha env mn v0 n s1 c1 h1 hv
  | .forbidden _, n, s, c₂, tw, hnd => by simp only [visit]; exact ⟨c₂, rfl⟩
  | .other _ kids, n, s, c₂, tw, hnd => by
    simp only [visit]; exact visitList_tw ha env mn kids n s c₂ tw (fun x hx => hnd.kid (by simp [Node.kids, hx]))
termination_by nd => (sizeOf nd, 1)

theorem visitList_tw (ha : Agree H o₁ o₂) (env : Env) (mn : Str) : (l : List Node) → (n : Nat) → (s : St) → (c₂ : Context) →
    Twin H o₁ o₂ n s.ctx c₂ → (∀ x ∈ l, NoDel H x) → RSim H o₁ o₂ n (visitList env mn l s) (visitList env mn l (wc s c₂))
  | [], n, s, c₂, tw, hnd => by simp only [visitList]; exact ⟨c₂, rfl, tw⟩
  | x :: r, n, s, c₂, tw, hnd => by
    simp only [visitList]
    exact RSim.bind (visit_tw ha env mn x n s c₂ tw (hnd x List.mem_cons_self)) fun s1 c1 h1 =>
      visitList_tw ha env mn r n s1 c1 h1 (fun y hy => hnd y (List.mem_cons_of_mem _ hy))
termination_by l => (sizeOf l, 0)

theorem sortedKey_tw (ha : Agree H o₁ o₂) (env : Env) (mn : Str) (r : NameRes) : (kwn : List (Option Str)) →
    (kwv : List Node) → (n : Nat) → (u : St) → (c₂ : Context) → Twin H o₁ o₂ n u.ctx c₂ → (∀ x ∈ kwv, NoDel H x) →
    RSim H o₁ o₂ n (visitSortedKey env mn r kwn kwv u) (visitSortedKey env mn r kwn kwv (wc u c₂))
  | some k :: rn, v :: rv, n, u, c₂, tw, hnd => by
    have hv : NoDel H v := hnd v List.mem_cons_self
    unfold visitSortedKey; simp only []
    split
    · split
      · rename_i ps body
        split
        · exact ⟨c₂, rfl⟩
        · apply RSim.liftName; intro _ iterable
          simp only [wc_ctx, wc_freshIr]
          refine RSim.bind (m := n + 1) (RSim.protect (visit_tw ha env mn body (n + 1)
            { (freshIr u) with ctx := Context.add (Context.push u.ctx) (Context.nameSym ((ps.args.head?).getD [])) true }
            (Context.add (Context.push c₂) (Context.nameSym ((ps.args.head?).getD [])) true)
            (tw.push.add ha (Context.nameSym ((ps.args.head?).getD [])) true) (hv.kid (by simp [Node.kids])))) ?_
          intro l c hl
          rw [unbindSt_wc]
          cases unbindSt l ((ps.args.head?).getD []) iterable with
          | none => exact ⟨c, rfl⟩
          | some l' => exact ⟨c₂, rfl, tw⟩
      · exact visit_tw ha env mn v n u c₂ tw hv
    · exact sortedKey_tw ha env mn r rn rv n u c₂ tw (fun y hy => hnd y (List.mem_cons_of_mem _ hy))
  | none :: rn, v :: rv, n, u, c₂, tw, hnd => by
    simp only [visitSortedKey]
    exact sortedKey_tw ha env mn r rn rv n u c₂ tw (fun y hy => hnd y (List.mem_cons_of_mem _ hy))
  | [], _, n, u, c₂, tw, hnd => by rw [visitSortedKey.eq_def, visitSortedKey.eq_def]; exact ⟨c₂, rfl, tw⟩
  | some _ :: _, [], n, u, c₂, tw, hnd => by simp only [visitSortedKey]; exact ⟨c₂, rfl, tw⟩
  | none :: _, [], n, u, c₂, tw, hnd => by simp only [visitSortedKey]; exact ⟨c₂, rfl, tw⟩
termination_by _kwn kwv => (sizeOf kwv, 0)

theorem assignDiv_tw (ha : Agree H o₁ o₂) (env : Env) (mn : Str) (targets : List Node) : (v : Node) → (n : Nat) →
    (s : St) → (c₂ : Context) → Twin H o₁ o₂ n s.ctx c₂ → NoDel H v →
    ASim H o₁ o₂ n (assignDiv env mn targets v s) (assignDiv env mn targets v (wc s c₂))
  | v, n, s, c₂, tw, hnd => by
    rw [assignDiv.eq_def, assignDiv.eq_def]; simp only [wc_ctx, wc_diag, classInRhs_tw ha tw]
    split
    · -- lambda on the right
      split
      · exact ⟨_, rfl, ⟨c₂, rfl⟩⟩
      · split
        · refine ⟨_, rfl, ?_⟩
          apply RSim.liftName; intro _ name
          exact ⟨Context.add c₂ _, rfl, Twin.add ha (by simpa using tw) _ _⟩
        · exact ⟨_, rfl, ⟨c₂, rfl⟩⟩
    · split
      · -- namedtuple
        split
        · exact ⟨_, rfl, ⟨c₂, rfl⟩⟩
        · split
          · refine ⟨_, rfl, ?_⟩
            apply RSim.liftName; intro _ name
            split
            · exact ⟨c₂, rfl, by simpa using tw⟩
            · exact ⟨Context.add c₂ _, rfl, Twin.add ha (by simpa using tw) _ _⟩
          · exact ⟨_, rfl, ⟨c₂, rfl⟩⟩
      · split
        · exact ⟨_, rfl, ⟨c₂, rfl⟩⟩
        · exact ⟨_, rfl, ⟨c₂, rfl⟩⟩
        · have hb := RSim.addIdentifiersL ha targets s c₂ tw
          cases hA : addIdentifiersL s targets with
          | ok s1 =>
            rw [hA] at hb; obtain ⟨c1, h2, tw1⟩ := hb
            simp only [h2]; exact ⟨c1, rfl, tw1⟩
          | fatal s1 d =>
            rw [hA] at hb; obtain ⟨c1, h2⟩ := hb
            simp only [h2]; exact ⟨_, rfl, ⟨c1, rfl⟩⟩
          | crash s1 e =>
            rw [hA] at hb; obtain ⟨c1, h2⟩ := hb
            simp only [h2]; exact ⟨_, rfl, ⟨c1, rfl⟩⟩
        · split
          · exact ⟨_, rfl, ⟨c₂, rfl⟩⟩
          · split
            · rename_i tg tl f args kwn kwv _ _ _ _
              have hargs : ∀ x ∈ args, NoDel H x := fun x hx => hnd.kid (by simp [Node.kids, hx])
              have hkwv : ∀ x ∈ kwv, NoDel H x := fun x hx => hnd.kid (by simp [Node.kids, hx])
              refine ⟨_, rfl, ?_⟩
              apply RSim.liftName; intro lb ln
              apply RSim.liftName; intro _ cn
              simp only [tw.getCallTarget ha, wc_diagL]
              refine RSim.mkCall _ c₂ _ _ _ _ _ _ (by simpa using tw) ?_
              intro s2 c h2
              refine RSim.bind (RSim.addIdentifiersL ha _ _ c₂ (by simpa using h2)) ?_
              intro s3 c3 h3
              exact RSim.bind (visitList_tw ha env mn args n s3 c3 h3 hargs) fun s4 c4 h4 =>
                visitList_tw ha env mn kwv n s4 c4 h4 hkwv
            · exact ⟨_, rfl, ⟨c₂, rfl⟩⟩
termination_by v => (sizeOf v, 0)

theorem retVal_tw (ha : Agree H o₁ o₂) (env : Env) (mn : Str) : (nd : Node) → (n : Nat) → (s : St) → (c₂ : Context) →
    (k₁ k₂ : St → Bool → Res) → Twin H o₁ o₂ n s.ctx c₂ → NoDel H nd →
    (∀ s1 c1 b, Twin H o₁ o₂ n s1.ctx c1 → RSim H o₁ o₂ n (k₁ s1 b) (k₂ (wc s1 c1) b)) →
    RSim H o₁ o₂ n (visitReturnValue env mn nd s k₁) (visitReturnValue env mn nd (wc s c₂) k₂)
  | nd, n, s, c₂, k₁, k₂, tw, hnd, hk => by
    rw [visitReturnValue.eq_def, visitReturnValue.eq_def]; simp only []
    split
    · rename_i kind elts c
      exact RSim.bind (retElts_tw ha env mn elts n s c₂ tw (fun x hx => hnd.kid (by simp [Node.kids, hx])))
        fun s1 c1 h1 => hk s1 c1 true h1
    · rename_i keys vals
      exact RSim.bind (retElts_tw ha env mn keys n s c₂ tw (fun x hx => hnd.kid (by simp [Node.kids, hx]))) fun s1 c1 h1 =>
        RSim.bind (retElts_tw ha env mn vals n s1 c1 h1 (fun x hx => hnd.kid (by simp [Node.kids, hx]))) fun s2 c2 h2 =>
          hk s2 c2 true h2
    · rename_i f args kwn kwv
      have hargs : ∀ x ∈ args, NoDel H x := fun x hx => hnd.kid (by simp [Node.kids, hx])
      have hkwv : ∀ x ∈ kwv, NoDel H x := fun x hx => hnd.kid (by simp [Node.kids, hx])
      split
      · exact hk s c₂ false tw
      · apply RSim.liftName; intro _ full
        simp only [wc_ctx, tw.getCallTarget ha]
        split
        · exact hk s c₂ false tw
        · apply RSim.liftName; intro _ cn
          simp only [wc_diagL]
          refine RSim.mkCall _ c₂ _ _ _ _ _ _ (by simpa using tw) ?_
          intro s2 c h2
          exact RSim.bind (visitList_tw ha env mn args n _ c₂ (by simpa using h2) hargs) fun s3 c3 h3 =>
            RSim.bind (visitList_tw ha env mn kwv n s3 c3 h3 hkwv) fun s4 c4 h4 => hk s4 c4 true h4
    · exact hk s c₂ false tw
termination_by nd => (sizeOf nd, 0)

theorem retElts_tw (ha : Agree H o₁ o₂) (env : Env) (mn : Str) : (l : List Node) → (n : Nat) → (s : St) → (c₂ : Context) →
    Twin H o₁ o₂ n s.ctx c₂ → (∀ x ∈ l, NoDel H x) →
    RSim H o₁ o₂ n (visitReturnElts env mn l s) (visitReturnElts env mn l (wc s c₂))
  | [], n, s, c₂, tw, hnd => by simp only [visitReturnElts]; exact ⟨c₂, rfl, tw⟩
  | e :: r, n, s, c₂, tw, hnd => by
    have he : NoDel H e := hnd e List.mem_cons_self
    simp only [visitReturnElts]
    apply RSim.bind (m := n)
    · apply retVal_tw ha env mn e n s c₂ _ _ tw he
      intro s1 c1 b h1
      split
      · exact ⟨c1, rfl, h1⟩
      · exact visit_tw ha env mn e n s1 c1 h1 he
    · intro s1 c1 h1; exact retElts_tw ha env mn r n s1 c1 h1 (fun y hy => hnd y (List.mem_cons_of_mem _ hy))
termination_by l => (sizeOf l, 0)
end

end

/-! ### the whole function: `FunctionAnalyser(fn, root).analyse()` under two root contexts -/

/-- the scope that `add_arguments_to_context` leaves: every parameter (re)bound, in order. -/
def setAll (sc : Scope) (names : List Str) : Scope :=
  names.foldl (fun d n => Dict.set d n (Context.nameSym n)) sc

theorem addArgNames_cons_scope (sc : Scope) (r : Context) (names : List Str) :
    Context.addArgNames (sc :: r) names = setAll sc names :: r := by
  induction names generalizing sc with
  | nil => rfl
  | cons x l ih =>
    rw [Context.addArgNames_cons, Context.add_arg_cons]
    exact ih _

theorem isSome_setAll_mono (sc : Scope) (names : List Str) (h : Str) (hb : (Dict.get? sc h).isSome = true) :
    (Dict.get? (setAll sc names) h).isSome = true := by
  induction names generalizing sc with
  | nil => exact hb
  | cons x l ih => exact ih _ (Context.isSome_set sc _ _ h hb)

theorem isSome_setAll (sc : Scope) (names : List Str) (h : Str) (hh : h ∈ names) :
    (Dict.get? (setAll sc names) h).isSome = true := by
  induction names generalizing sc with
  | nil => cases hh
  | cons x l ih =>
    by_cases hl : h ∈ l
    · exact ih _ hl
    · have hx : h = x := by
        rcases List.mem_cons.mp hh with e | e
        · exact e
        · exact absurd e hl
      subst hx
      exact isSome_setAll_mono (Dict.set sc h (Context.nameSym h)) l h (by rw [Dict.get?_set_self]; rfl)

/-- forget the scope chain of a state / an outcome: what remains is the outcome class, the IR
(gets, sets, dels, calls with their targets) and the diagnostics. -/
def Res.noCtx : Res → Res
  | .ok s => .ok (wc s [])
  | .fatal s d => .fatal (wc s []) d
  | .crash s e => .crash (wc s []) e

theorem RSim.noCtx {H : List Str} {o₁ o₂ : Context} {n : Nat} {r₁ r₂ : Res} (h : RSim H o₁ o₂ n r₁ r₂) :
    Res.noCtx r₂ = Res.noCtx r₁ := by
  cases r₁ with
  | ok s => obtain ⟨c, rfl, _⟩ := h; rfl
  | fatal s d => obtain ⟨c, rfl⟩ := h; rfl
  | crash s e => obtain ⟨c, rfl⟩ := h; rfl

/-- HIDING, for the whole function: two root contexts that agree on every name which is not one of
the parameters in `H` give the same outcome, IR and diagnostics — whatever the two roots hold under
a name of `H` (nothing, a function, a class, a lambda, an import, a variable) is never seen, in the
body or in any nested scope of it, provided the body never `del`s such a name. -/
theorem analyse_hidden (env : Env) (mn : Str) (root₁ root₂ : Context) (ps : Params) (body : List Node)
    (H : List Str) (hH : ∀ h ∈ H, h ∈ ps.all) (ha : Context.Agree H root₁ root₂)
    (hnd : ∀ x ∈ body, NoDel H x) :
    Res.noCtx (analyse env mn root₂ ps body) = Res.noCtx (analyse env mn root₁ ps body) := by
  unfold analyse
  simp only []
  have tw : Twin H root₁ root₂ 1 (addArguments { ctx := Context.push root₁ } ps).ctx
      (Context.addArgNames (Context.push root₂) ps.all) := by
    rw [addArguments_ctx]
    show Twin H root₁ root₂ 1 (Context.addArgNames ([] :: root₁) ps.all) (Context.addArgNames ([] :: root₂) ps.all)
    rw [addArgNames_cons_scope, addArgNames_cons_scope]
    exact ⟨[], setAll [] ps.all, rfl, rfl, rfl, fun h hh => isSome_setAll _ _ h (hH h hh)⟩
  have sim := visitList_tw ha env mn body 1 (addArguments { ctx := Context.push root₁ } ps)
    (Context.addArgNames (Context.push root₂) ps.all) tw hnd
  cases hv : visitList env mn body (addArguments { ctx := Context.push root₁ } ps) with
  | ok u =>
    rw [hv] at sim; obtain ⟨c, h2, _⟩ := sim
    have h2' : visitList env mn body (addArguments { ctx := Context.push root₂ } ps) = .ok (wc u c) := h2
    rw [h2']; rfl
  | fatal u d =>
    rw [hv] at sim; obtain ⟨c, h2⟩ := sim
    have h2' : visitList env mn body (addArguments { ctx := Context.push root₂ } ps) = .fatal (wc u c) d := h2
    rw [h2']; rfl
  | crash u e =>
    rw [hv] at sim; obtain ⟨c, h2⟩ := sim
    have h2' : visitList env mn body (addArguments { ctx := Context.push root₂ } ps) = .crash (wc u c) e := h2
    rw [h2']; rfl


/-! ### a decidable sufficient check for `NoDel` -/

/-- the `del` statement `nd` (if it is one) has no target whose full name is in `H`. -/
def okHere (H : List Str) : Node → Bool
  | .delete ts => ts.all fun t =>
      match unravelFullNames t with
      | .ok names => names.all fun x => !H.contains x
      | _ => true
  | _ => true

/-- `okHere` for the node and everything below it, to depth `fuel` (false when the fuel runs out). -/
def noDelB (H : List Str) : Nat → Node → Bool
  | 0, _ => false
  | f + 1, nd => okHere H nd && nd.kids.all (noDelB H f)

theorem noDelB_reach {H : List Str} {nd m : Node} (hr : Reach nd m) :
    ∀ f, noDelB H f nd = true → okHere H m = true := by
  induction hr with
  | refl n =>
    intro f h
    cases f with
    | zero => cases h
    | succ f => simp only [noDelB, Bool.and_eq_true] at h; exact h.1
  | step hk _ ih =>
    intro f h
    cases f with
    | zero => cases h
    | succ f =>
      simp only [noDelB, Bool.and_eq_true, List.all_eq_true] at h
      exact ih f (h.2 _ hk)

theorem NoDel.of_noDelB {H : List Str} {nd : Node} (f : Nat) (h : noDelB H f nd = true) : NoDel H nd := by
  intro ts hr t ht names hn x hx hxH
  have := noDelB_reach hr f h
  simp only [okHere, List.all_eq_true] at this
  have h1 := this t ht
  rw [hn] at h1
  simp only [List.all_eq_true] at h1
  have h2 := h1 x hx
  simp [hxH] at h2

end Rattr.FnA

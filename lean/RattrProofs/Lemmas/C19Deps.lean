/-
  Helper lemmas for the dependency part of Props/C19 (model: RattrModel/CacheDeps.lean):
    * `canon` = `sorted(set(·))` is a canonical form: `canon_eq_iff`;
    * the import follower (`Imports.loop`) run on two graphs that agree on every module's static
      facts and on the import symbols of the modules it analyses gives the same result (`bfs_congr`);
    * every analysed module is named by an import symbol of the target's context or of an analysed
      module's context (`bfs_covered`).
-/
import RattrModel.CacheDeps
import RattrProofs.Lemmas.C12

set_option linter.unusedSectionVars false

namespace Rattr.C19
open Rattr Rattr.CacheDeps Rattr.Imports

section canonical
theorem strLt_irrefl : ∀ a : Str, strLt a a = false := by
  intro a
  induction a with
  | nil => rfl
  | cons c r ih => simp [strLt, ih]

theorem strLt_asymm : ∀ a b : Str, strLt a b = true → strLt b a = false := by
  intro a
  induction a with
  | nil => intro b h; cases b <;> simp [strLt] at h ⊢
  | cons c r ih =>
    intro b h
    cases b with
    | nil => simp [strLt] at h
    | cons d s =>
      simp only [strLt] at h ⊢
      by_cases h1 : c.toNat < d.toNat
      · have : ¬ d.toNat < c.toNat := by omega
        simp [this, h1]
      · by_cases h2 : d.toNat < c.toNat
        · simp [h1, h2] at h
        · simp only [h1, h2, if_false] at h ⊢
          exact ih s h

theorem strLt_trans : ∀ a b c : Str, strLt a b = true → strLt b c = true → strLt a c = true := by
  intro a
  induction a with
  | nil =>
    intro b c h1 h2
    cases b with
    | nil => simp [strLt] at h1
    | cons d s => cases c <;> simp [strLt] at h2 ⊢
  | cons x r ih =>
    intro b c h1 h2
    cases b with
    | nil => simp [strLt] at h1
    | cons y s =>
      cases c with
      | nil => simp [strLt] at h2
      | cons z t =>
        simp only [strLt] at h1 h2 ⊢
        by_cases a1 : x.toNat < y.toNat
        · by_cases b1 : y.toNat < z.toNat
          · have : x.toNat < z.toNat := by omega
            simp [this]
          · by_cases b2 : z.toNat < y.toNat
            · simp [b1, b2] at h2
            · have : x.toNat < z.toNat := by omega
              simp [this]
        · by_cases a2 : y.toNat < x.toNat
          · simp [a1, a2] at h1
          · simp only [a1, a2, if_false] at h1
            by_cases b1 : y.toNat < z.toNat
            · have : x.toNat < z.toNat := by omega
              simp [this]
            · by_cases b2 : z.toNat < y.toNat
              · simp [b1, b2] at h2
              · simp only [b1, b2, if_false] at h2
                have e1 : ¬ x.toNat < z.toNat := by omega
                have e2 : ¬ z.toNat < x.toNat := by omega
                simp only [e1, e2, if_false]
                exact ih s t h1 h2

theorem strLt_total : ∀ a b : Str, strLt a b = false → strLt b a = false → a = b := by
  intro a
  induction a with
  | nil => intro b h1 h2; cases b <;> simp [strLt] at h1 ⊢
  | cons x r ih =>
    intro b h1 h2
    cases b with
    | nil => simp [strLt] at h2
    | cons y s =>
      simp only [strLt] at h1 h2
      by_cases a1 : x.toNat < y.toNat
      · simp [a1] at h1
      · by_cases a2 : y.toNat < x.toNat
        · simp [a2] at h2
        · simp only [a1, a2, if_false] at h1 h2
          have : x = y := Char.toNat_inj.mp (by omega)
          rw [this, ih s h1 h2]

def SSorted (l : List Str) : Prop := l.Pairwise (fun a b => strLt a b = true)

theorem mem_insertU {s x : Str} {l : List Str} : x ∈ insertU s l ↔ x = s ∨ x ∈ l := by
  induction l with
  | nil => simp [insertU]
  | cons t r ih =>
    simp only [insertU]
    split
    · rename_i h; subst h; simp
    · split
      · simp
      · simp only [List.mem_cons, ih]
        constructor
        · rintro (h | h | h) <;> simp [h]
        · rintro (h | h | h) <;> simp [h]

theorem insertU_sorted {s : Str} {l : List Str} (h : SSorted l) : SSorted (insertU s l) := by
  induction l with
  | nil => simp [insertU, SSorted]
  | cons t r ih =>
    unfold SSorted at h
    rw [List.pairwise_cons] at h
    obtain ⟨ht, hr⟩ := h
    simp only [insertU]
    split
    · exact List.pairwise_cons.mpr ⟨ht, hr⟩
    · rename_i hne
      split
      · rename_i hlt
        refine List.pairwise_cons.mpr ⟨?_, List.pairwise_cons.mpr ⟨ht, hr⟩⟩
        intro y hy
        rcases List.mem_cons.mp hy with rfl | hy
        · exact hlt
        · exact strLt_trans _ _ _ hlt (ht y hy)
      · rename_i hnlt
        refine List.pairwise_cons.mpr ⟨?_, ih hr⟩
        intro y hy
        rcases mem_insertU.mp hy with rfl | hy
        · cases h2 : strLt t y with
          | true => rfl
          | false =>
            exfalso
            exact hne (strLt_total _ _ (by simpa using hnlt) h2)
        · exact ht y hy

theorem mem_canon {x : Str} {l : List Str} : x ∈ canon l ↔ x ∈ l := by
  induction l with
  | nil => simp [canon]
  | cons a r ih =>
    have : canon (a :: r) = insertU a (canon r) := rfl
    rw [this, mem_insertU, ih]; simp

theorem canon_sorted (l : List Str) : SSorted (canon l) := by
  induction l with
  | nil => simp [canon, SSorted]
  | cons a r ih =>
    have : canon (a :: r) = insertU a (canon r) := rfl
    rw [this]; exact insertU_sorted ih

theorem sorted_ext : ∀ l₁ l₂ : List Str, SSorted l₁ → SSorted l₂ → (∀ x, x ∈ l₁ ↔ x ∈ l₂) → l₁ = l₂ := by
  intro l₁
  induction l₁ with
  | nil =>
    intro l₂ _ _ h
    cases l₂ with
    | nil => rfl
    | cons b r => exact absurd ((h b).2 List.mem_cons_self) (by simp)
  | cons a r₁ ih =>
    intro l₂ h1 h2 h
    cases l₂ with
    | nil => exact absurd ((h a).1 List.mem_cons_self) (by simp)
    | cons b r₂ =>
      unfold SSorted at h1 h2
      rw [List.pairwise_cons] at h1 h2
      have hab : a = b := by
        rcases List.mem_cons.mp ((h a).1 List.mem_cons_self) with e | ha
        · exact e
        · rcases List.mem_cons.mp ((h b).2 List.mem_cons_self) with e | hb
          · exact e.symm
          · have x1 := h2.1 a ha
            have x2 := h1.1 b hb
            rw [strLt_asymm _ _ x1] at x2
            cases x2
      subst hab
      congr 1
      apply ih r₂ h1.2 h2.2
      intro x
      constructor
      · intro hx
        rcases List.mem_cons.mp ((h x).1 (List.mem_cons_of_mem _ hx)) with e | hx'
        · subst e
          have := h1.1 x hx
          rw [strLt_irrefl] at this; cases this
        · exact hx'
      · intro hx
        rcases List.mem_cons.mp ((h x).2 (List.mem_cons_of_mem _ hx)) with e | hx'
        · subst e
          have := h2.1 x hx
          rw [strLt_irrefl] at this; cases this
        · exact hx'

theorem canon_eq_iff (a b : List Str) : canon a = canon b ↔ ∀ x, x ∈ a ↔ x ∈ b := by
  constructor
  · intro h x
    rw [← mem_canon (l := a), ← mem_canon (l := b), h]
  · intro h
    apply sorted_ext _ _ (canon_sorted a) (canon_sorted b)
    intro x
    rw [mem_canon, mem_canon]; exact h x
end canonical

section follower
variable {ν ω : Type} [DecidableEq ν] [DecidableEq ω]

/-- The rungs of the ladder that look at nothing but the module's static facts. -/
def ladder (fl : Flags) (seen : List ω) (m : Module ν ω) : Reason ⊕ ω :=
  match m.origin with
  | none => .inl .noOrigin
  | some o =>
    if o ∈ seen then .inl .seen
    else if m.blacklisted then .inl .blacklist
    else if !fl.pip && m.inPip then .inl .pip
    else if !fl.stdlib && m.inStdlib then .inl .stdlib
    else .inr o

theorem classify_eq (g : Graph ν ω) (fl : Flags) (seen : List ω) (i : Imp ν) :
    classify g fl seen i =
      match i.target with
      | none => .skip .unresolved
      | some n =>
        match lookup g n with
        | none => .skip .noSpec
        | some m =>
          match ladder fl seen m with
          | .inl r => .skip r
          | .inr o =>
            if !m.readable then .crashRead
            else if !compileOk g m.imports then .fatalCompile
            else .analyse n o m := by
  unfold classify ladder
  cases i.target with
  | none => rfl
  | some n =>
    simp only
    cases lookup g n with
    | none => rfl
    | some m =>
      simp only
      cases m.origin with
      | none => rfl
      | some o =>
        simp only
        split
        · rfl
        · split
          · rfl
          · split
            · rfl
            · split
              · rfl
              · rfl


/-- `m'` is `m` up to the import symbols. -/
structure Rel (m m' : Module ν ω) : Prop where
  origin : m'.origin = m.origin
  readable : m'.readable = m.readable
  blacklisted : m'.blacklisted = m.blacklisted
  inPip : m'.inPip = m.inPip
  inStdlib : m'.inStdlib = m.inStdlib

def StaticEq (g g' : Graph ν ω) : Prop :=
  ∀ n, (lookup g n = none ∧ lookup g' n = none) ∨
    ∃ m m', lookup g n = some m ∧ lookup g' n = some m' ∧ Rel m m'

theorem ladder_congr {fl : Flags} {seen : List ω} {m m' : Module ν ω} (h : Rel m m') :
    ladder fl seen m' = ladder fl seen m := by
  unfold ladder
  rw [h.origin, h.blacklisted, h.inPip, h.inStdlib]

theorem hasOrigin_congr {g g' : Graph ν ω} (hs : StaticEq g g') (i : Imp ν) :
    hasOrigin g' i = hasOrigin g i := by
  unfold hasOrigin
  cases i.target with
  | none => rfl
  | some n =>
    simp only
    rcases hs n with ⟨h1, h2⟩ | ⟨m, m', h1, h2, hr⟩
    · rw [h1, h2]
    · rw [h1, h2]; simp only; rw [hr.origin]

theorem compileOk_congr {g g' : Graph ν ω} (hs : StaticEq g g') (imps : List (Imp ν)) :
    compileOk g' imps = compileOk g imps := by
  unfold compileOk
  apply List.all_congr rfl
  intro i
  rw [hasOrigin_congr hs]

theorem classify_skip_congr {g g' : Graph ν ω} (hs : StaticEq g g') {fl : Flags} {seen : List ω}
    {i : Imp ν} {r : Reason} (h : classify g fl seen i = .skip r) :
    classify g' fl seen i = .skip r := by
  rw [classify_eq] at h ⊢
  cases ht : i.target with
  | none => rw [ht] at h; exact h
  | some n =>
    rw [ht] at h
    simp only at h ⊢
    rcases hs n with ⟨h1, h2⟩ | ⟨m, m', h1, h2, hr⟩
    · rw [h1] at h; rw [h2]; exact h
    · rw [h1] at h; rw [h2]
      simp only at h ⊢
      rw [ladder_congr hr]
      cases hl : ladder fl seen m with
      | inl r' => rw [hl] at h; exact h
      | inr o =>
        rw [hl] at h
        simp only at h
        split at h
        · cases h
        · split at h <;> cases h

theorem classify_analyse_congr {g g' : Graph ν ω} (hs : StaticEq g g') {fl : Flags} {seen : List ω}
    {i : Imp ν} {n : ν} {o : ω} {m : Module ν ω} (h : classify g fl seen i = .analyse n o m)
    (hl : lookup g' n = lookup g n) : classify g' fl seen i = .analyse n o m := by
  have hp := Rattr.C12.classify_analyse h
  rw [classify_eq] at h ⊢
  rw [hp.target] at h ⊢
  simp only at h ⊢
  rw [hl, hp.look] at *
  simp only at h ⊢
  rw [compileOk_congr hs]
  exact h

theorem loop_mono {g : Graph ν ω} {fl : Flags} :
    ∀ (k : Nat) (st : St ν ω) (q : List (Imp ν)),
      ∀ n ∈ st.analysed, n ∈ (loop g fl k st q).state.analysed := by
  intro k
  induction k with
  | zero => intro st q n hn; cases q <;> simpa [loop, Out.state] using hn
  | succ k ih =>
    intro st q n hn
    cases q with
    | nil => simpa [loop, Out.state] using hn
    | cons i q =>
      unfold loop
      cases hc : classify g fl st.seen i with
      | skip r => simp only; exact ih _ _ n hn
      | crashRead => simpa [Out.state] using hn
      | fatalCompile => simpa [Out.state] using hn
      | analyse n' o m =>
        simp only
        apply ih
        simp [hn]

theorem loop_congr {g g' : Graph ν ω} (hs : StaticEq g g') {fl : Flags} :
    ∀ (k : Nat) (st : St ν ω) (q : List (Imp ν)) (s : St ν ω),
      loop g fl k st q = .done s → (∀ n ∈ s.analysed, lookup g' n = lookup g n) →
      loop g' fl k st q = .done s := by
  intro k
  induction k with
  | zero =>
    intro st q s h _
    cases q with
    | nil => simpa [loop] using h
    | cons i q => simp [loop] at h
  | succ k ih =>
    intro st q s h hl
    cases q with
    | nil => simpa [loop] using h
    | cons i q =>
      unfold loop at h ⊢
      cases hc : classify g fl st.seen i with
      | skip r =>
        rw [hc] at h
        rw [classify_skip_congr hs hc]
        simp only at h ⊢
        exact ih _ _ s h hl
      | crashRead => rw [hc] at h; simp at h
      | fatalCompile => rw [hc] at h; simp at h
      | analyse n o m =>
        rw [hc] at h
        simp only at h
        have hn : n ∈ s.analysed := by
          have := loop_mono (g := g) (fl := fl) k
            { st with pops := st.pops + 1, analysed := st.analysed ++ [n], seen := st.seen ++ [o] }
            (q ++ m.imports) n (by simp)
          rw [h] at this
          exact this
        rw [classify_analyse_congr hs hc (hl n hn)]
        simp only
        exact ih _ _ s h hl

theorem bfs_congr {g g' : Graph ν ω} (hs : StaticEq g g') {fl : Flags} (k : Nat)
    (target : List (Imp ν)) (s : St ν ω) (h : bfs g fl k target = .done s)
    (hl : ∀ n ∈ s.analysed, lookup g' n = lookup g n) : bfs g' fl k target = .done s := by
  unfold bfs at h ⊢
  rw [compileOk_congr hs]
  split
  · rename_i hc; simp [hc] at h
  · rename_i hc
    simp only [hc] at h
    split
    · rename_i ha
      simp only [ha, if_true] at h
      exact loop_congr hs k _ _ s (by simpa using h) hl
    · rename_i ha
      simpa [ha] using h

/-! ### every analysed module is named by an import symbol of a recorded context -/

def FromCtx (g : Graph ν ω) (target : List (Imp ν)) (A : List ν) (i : Imp ν) : Prop :=
  i ∈ target ∨ ∃ p ∈ A, ∃ pm, lookup g p = some pm ∧ i ∈ pm.imports

def Covered (g : Graph ν ω) (target : List (Imp ν)) (A : List ν) (n : ν) : Prop :=
  ∃ i, FromCtx g target A i ∧ i.target = some n

theorem FromCtx.mono {g : Graph ν ω} {target : List (Imp ν)} {A A' : List ν} {i : Imp ν}
    (hA : ∀ x ∈ A, x ∈ A') (h : FromCtx g target A i) : FromCtx g target A' i := by
  rcases h with h | ⟨p, hp, pm, hl, hi⟩
  · exact Or.inl h
  · exact Or.inr ⟨p, hA p hp, pm, hl, hi⟩

theorem loop_covered {g : Graph ν ω} {fl : Flags} {target : List (Imp ν)} :
    ∀ (k : Nat) (st : St ν ω) (q : List (Imp ν)),
      (∀ i ∈ q, FromCtx g target st.analysed i) →
      (∀ n ∈ st.analysed, Covered g target st.analysed n) →
      ∀ n ∈ (loop g fl k st q).state.analysed,
        Covered g target (loop g fl k st q).state.analysed n := by
  intro k
  induction k with
  | zero => intro st q _ ha; cases q <;> simpa [loop, Out.state] using ha
  | succ k ih =>
    intro st q hq ha
    cases q with
    | nil => simpa [loop, Out.state] using ha
    | cons i q =>
      unfold loop
      cases hc : classify g fl st.seen i with
      | skip r =>
        simp only
        exact ih _ _ (fun j hj => hq j (List.mem_cons_of_mem _ hj)) ha
      | crashRead => simpa [Out.state] using ha
      | fatalCompile => simpa [Out.state] using ha
      | analyse n o m =>
        simp only
        have hp := Rattr.C12.classify_analyse hc
        have hsub : ∀ x ∈ st.analysed, x ∈ st.analysed ++ [n] := by intro x hx; simp [hx]
        apply ih
        · intro j hj
          rcases List.mem_append.mp hj with hj | hj
          · exact (hq j (List.mem_cons_of_mem _ hj)).mono hsub
          · exact Or.inr ⟨n, by simp, m, hp.look, hj⟩
        · intro x hx
          rcases List.mem_append.mp hx with hx | hx
          · obtain ⟨j, hj, hjt⟩ := ha x hx
            exact ⟨j, hj.mono hsub, hjt⟩
          · simp at hx; subst hx
            exact ⟨i, (hq i List.mem_cons_self).mono hsub, hp.target⟩

theorem bfs_covered (g : Graph ν ω) (fl : Flags) (k : Nat) (target : List (Imp ν)) :
    ∀ n ∈ (bfs g fl k target).state.analysed,
      Covered g target (bfs g fl k target).state.analysed n := by
  unfold bfs
  split
  · simp [Out.state, St.empty]
  · split
    · exact loop_covered k St.empty target (fun i hi => Or.inl hi) (by simp [St.empty])
    · simp [Out.state, St.empty]
/-! ### what the ladder established about an analysed module (as `C12.bfs_admitted`; repeated here so
that the C19 proofs depend on the C12 model and lemmas only, not on the C12 property file) -/

def Admitted (g : Graph ν ω) (fl : Flags) (n : ν) : Prop :=
  ∃ m o, lookup g n = some m ∧ m.origin = some o ∧ m.blacklisted = false ∧
    (m.inPip = true → fl.pip = true) ∧ (m.inStdlib = true → fl.stdlib = true) ∧ m.readable = true

theorem loop_admitted {g : Graph ν ω} {fl : Flags} :
    ∀ (k : Nat) (st : St ν ω) (q : List (Imp ν)),
      (∀ n ∈ st.analysed, Admitted g fl n) →
      ∀ n ∈ (loop g fl k st q).state.analysed, Admitted g fl n := by
  intro k
  induction k with
  | zero => intro st q ha; cases q <;> simpa [loop, Out.state] using ha
  | succ k ih =>
    intro st q ha
    cases q with
    | nil => simpa [loop, Out.state] using ha
    | cons i q =>
      unfold loop
      cases hc : classify g fl st.seen i with
      | skip r => simp only; exact ih _ _ ha
      | crashRead => simpa [Out.state] using ha
      | fatalCompile => simpa [Out.state] using ha
      | analyse n o m =>
        simp only
        have hp := Rattr.C12.classify_analyse hc
        apply ih
        intro x hx
        rcases List.mem_append.mp hx with hx | hx
        · exact ha x hx
        · simp at hx; subst hx
          exact ⟨m, o, hp.look, hp.origin, hp.notBlack, hp.pipOk, hp.stdlibOk, hp.readable⟩

theorem bfs_admitted (g : Graph ν ω) (fl : Flags) (fuel : Nat) (target : List (Imp ν)) :
    ∀ n ∈ (bfs g fl fuel target).state.analysed, Admitted g fl n := by
  unfold bfs
  split
  · simp [Out.state, St.empty]
  · split
    · exact loop_admitted fuel St.empty target (by simp [St.empty])
    · simp [Out.state, St.empty]

end follower

section graph
open Rattr.Cache (Dir World hashFile)

theorem filterMap_congr' {α β : Type} {f g : α → Option β} :
    ∀ {l : List α}, (∀ x ∈ l, f x = g x) → l.filterMap f = l.filterMap g := by
  intro l
  induction l with
  | nil => intro _; rfl
  | cons a r ih =>
    intro h
    rw [List.filterMap_cons, List.filterMap_cons, h a List.mem_cons_self,
      ih (fun x hx => h x (List.mem_cons_of_mem _ hx))]

theorem out_done_of_isDone {ν ω : Type} {o : Imports.Out ν ω} (h : o.isDone = true) :
    o = .done o.state := by
  cases o <;> simp [Imports.Out.isDone, Imports.Out.state] at h ⊢
variable {ω H X R : Type} [DecidableEq ω] [DecidableEq H]
variable (S : Static ω H) (D : Dir ω H)

theorem lookup_graphOf (w : W ω H X) (n : Str) :
    Imports.lookup (graphOf S D w) n = (S.find n).map (mkMod S D w) := by
  unfold Imports.lookup graphOf Static.find
  rw [List.find?_map]
  rfl

theorem symsOf_congr {w w' : W ω H X} (ho : w'.opts = w.opts) {o : ω}
    (hh : hashFile D w' o = hashFile D w o) : symsOf S D w' o = symsOf S D w o := by
  unfold symsOf
  rw [hh, ho]

theorem mkMod_congr {w w' : W ω H X} (ho : w'.opts = w.opts) (mi : ModInfo ω)
    (hh : ∀ o, mi.origin = some o → hashFile D w' o = hashFile D w o) :
    mkMod S D w' mi = mkMod S D w mi := by
  unfold mkMod
  rw [ho]
  cases hor : mi.origin with
  | none => rfl
  | some o => simp only; rw [symsOf_congr S D ho (hh o hor)]

theorem staticEq_graphOf {w w' : W ω H X} (ho : w'.opts = w.opts) :
    StaticEq (graphOf S D w) (graphOf S D w') := by
  intro n
  rw [lookup_graphOf, lookup_graphOf]
  cases S.find n with
  | none => left; exact ⟨rfl, rfl⟩
  | some mi =>
    right
    refine ⟨_, _, rfl, rfl, ?_⟩
    constructor <;> simp [mkMod, ho]

theorem recordsSym_congr {g g' : Graph Str ω} (hs : StaticEq g g') (b : ω) (i : Imp Str) :
    recordsSym g' b i = recordsSym g b i := by
  unfold recordsSym
  cases i.target with
  | none => rfl
  | some n =>
    simp only
    rcases hs n with ⟨h1, h2⟩ | ⟨m, m', h1, h2, hr⟩
    · rw [h1, h2]
    · rw [h1, h2]; simp only; rw [hr.blacklisted, hr.origin]

theorem mem_dedup {α : Type} [DecidableEq α] {x : α} {l : List α} : x ∈ dedup l ↔ x ∈ l := by
  induction l with
  | nil => simp [dedup]
  | cons a r ih =>
    simp only [dedup]
    split
    · rename_i h
      rw [ih, List.mem_cons]
      constructor
      · intro hx; exact Or.inr hx
      · rintro (rfl | hx)
        · exact ih.mp h
        · exact hx
    · simp [ih]

theorem mem_recordedOf {g : Graph Str ω} {b : ω} {t : List (Imp Str)} {A : List Str} {o : ω} :
    o ∈ recordedOf g b t A ↔ ∃ c ∈ ctxs g t A, ∃ i ∈ c, recordsSym g b i = some o := by
  unfold recordedOf
  rw [mem_dedup, List.mem_flatMap]
  constructor
  · rintro ⟨c, hc, ho⟩
    obtain ⟨i, hi, hr⟩ := List.mem_filterMap.mp ho
    exact ⟨c, hc, i, hi, hr⟩
  · rintro ⟨c, hc, i, hi, hr⟩
    exact ⟨c, hc, List.mem_filterMap.mpr ⟨i, hi, hr⟩⟩

theorem fromCtx_mem_ctxs {g : Graph Str ω} {t : List (Imp Str)} {A : List Str} {i : Imp Str}
    (h : FromCtx g t A i) : ∃ c ∈ ctxs g t A, i ∈ c := by
  unfold ctxs
  rcases h with h | ⟨p, hp, pm, hl, hi⟩
  · exact ⟨t, List.mem_cons_self, h⟩
  · refine ⟨pm.imports, List.mem_cons_of_mem _ (List.mem_filterMap.mpr ⟨p, hp, ?_⟩), hi⟩
    rw [hl]; rfl

end graph

end Rattr.C19

/-
  Lemmas about the function-analyser model (`RattrModel/FnAnalyser.lean`) shared by C01 / C02.

    * `bind_ok` and friends: inversion of the state-passing bind;
    * `StLe` / `IrLe`: "the IR only grows, the scope depth is preserved", proved for the WHOLE
      mutual block `visit / visitList / visitSortedKey / assignDiv / visitReturnValue /
      visitReturnElts` and for `analyse`;
    * naming of pure name chains (`isChain`, `chainSpell`, `chainBase`).
-/
import RattrModel.FnAnalyser

namespace Rattr.FnA
open Rattr Rattr.Strs

/-! ### bind -/

theorem bind_ok {r : Res} {f : St → Res} {s' : St} (h : (r >>>= f) = .ok s') :
    ∃ s₁, r = .ok s₁ ∧ f s₁ = .ok s' := by
  cases r with
  | ok s₁ => exact ⟨s₁, rfl, h⟩
  | fatal s d => simp [bind] at h
  | crash s e => simp [bind] at h

@[simp] theorem bind_ok_left (s : St) (f : St → Res) : (Res.ok s >>>= f) = f s := rfl
@[simp] theorem bind_fatal_left (s : St) (d : Diag) (f : St → Res) :
    (Res.fatal s d >>>= f) = .fatal s d := rfl
@[simp] theorem bind_crash_left (s : St) (e : Str) (f : St → Res) :
    (Res.crash s e >>>= f) = .crash s e := rfl

theorem bind_ok_iff {r : Res} {f : St → Res} {s' : St} :
    (r >>>= f) = .ok s' ↔ ∃ s₁, r = .ok s₁ ∧ f s₁ = .ok s' := by
  constructor
  · exact bind_ok
  · rintro ⟨s₁, h1, h2⟩; subst h1; exact h2

theorem bind_assoc (r : Res) (f g : St → Res) :
    ((r >>>= f) >>>= g) = (r >>>= fun s => f s >>>= g) := by
  cases r <;> rfl

theorem bind_ok_right (r : Res) : (r >>>= Res.ok) = r := by cases r <;> rfl

theorem protect_ok_iff {o : St} {r : Res} {t : St} : protect o r = .ok t ↔ r = .ok t := by
  cases r <;> simp [protect]

/-! ### membership in `addTo` / `addCall` / unions -/

theorem mem_addTo {l : List NameS} {n x : NameS} : x ∈ addTo l n ↔ x ∈ l ∨ x = n := by
  unfold addTo
  by_cases h : n ∈ l
  · simp only [List.contains_iff_mem, h, if_true]
    constructor
    · exact Or.inl
    · rintro (h' | h')
      · exact h'
      · subst h'; exact h
  · simp [h]

theorem mem_addTo_left {l : List NameS} {n x : NameS} (h : x ∈ l) : x ∈ addTo l n :=
  mem_addTo.mpr (Or.inl h)

theorem mem_addTo_self (l : List NameS) (n : NameS) : n ∈ addTo l n := mem_addTo.mpr (Or.inr rfl)

theorem mem_addCall {l : List CallSym} {n x : CallSym} : x ∈ addCall l n ↔ x ∈ l ∨ x = n := by
  unfold addCall
  by_cases h : n ∈ l
  · simp only [List.contains_iff_mem, h, if_true]
    constructor
    · exact Or.inl
    · rintro (h' | h')
      · exact h'
      · subst h'; exact h
  · simp [h]

theorem mem_addCall_left {l : List CallSym} {n x : CallSym} (h : x ∈ l) : x ∈ addCall l n :=
  mem_addCall.mpr (Or.inl h)

theorem mem_addCall_self (l : List CallSym) (n : CallSym) : n ∈ addCall l n :=
  mem_addCall.mpr (Or.inr rfl)

theorem mem_foldl_addTo {b : List NameS} {a : List NameS} {x : NameS} :
    x ∈ b.foldl addTo a ↔ x ∈ a ∨ x ∈ b := by
  induction b generalizing a with
  | nil => simp
  | cons y r ih =>
    simp only [List.foldl_cons, ih, mem_addTo, List.mem_cons]
    constructor
    · rintro ((h | h) | h)
      · exact Or.inl h
      · exact Or.inr (Or.inl h)
      · exact Or.inr (Or.inr h)
    · rintro (h | h | h)
      · exact Or.inl (Or.inl h)
      · exact Or.inl (Or.inr h)
      · exact Or.inr h

theorem mem_foldl_addCall {b : List CallSym} {a : List CallSym} {x : CallSym} :
    x ∈ b.foldl addCall a ↔ x ∈ a ∨ x ∈ b := by
  induction b generalizing a with
  | nil => simp
  | cons y r ih =>
    simp only [List.foldl_cons, ih, mem_addCall, List.mem_cons]
    constructor
    · rintro ((h | h) | h)
      · exact Or.inl h
      · exact Or.inr (Or.inl h)
      · exact Or.inr (Or.inr h)
    · rintro (h | h | h)
      · exact Or.inl (Or.inl h)
      · exact Or.inl (Or.inr h)
      · exact Or.inr h

theorem mem_unionN {a b : List NameS} {x : NameS} : x ∈ unionN a b ↔ x ∈ a ∨ x ∈ b :=
  mem_foldl_addTo

theorem mem_unionC {a b : List CallSym} {x : CallSym} : x ∈ unionC a b ↔ x ∈ a ∨ x ∈ b :=
  mem_foldl_addCall

/-! ### `IrLe`: the IR only grows -/

/-- every recorded get / set / del / call of `s` is still recorded in `s'`. -/
structure IrLe (s s' : St) : Prop where
  gets : ∀ x, x ∈ s.gets → x ∈ s'.gets
  sets : ∀ x, x ∈ s.sets → x ∈ s'.sets
  dels : ∀ x, x ∈ s.dels → x ∈ s'.dels
  calls : ∀ x, x ∈ s.calls → x ∈ s'.calls

theorem IrLe.refl (s : St) : IrLe s s := ⟨fun _ h => h, fun _ h => h, fun _ h => h, fun _ h => h⟩

theorem IrLe.trans {a b c : St} (h1 : IrLe a b) (h2 : IrLe b c) : IrLe a c :=
  ⟨fun x h => h2.gets x (h1.gets x h), fun x h => h2.sets x (h1.sets x h),
   fun x h => h2.dels x (h1.dels x h), fun x h => h2.calls x (h1.calls x h)⟩

/-- `IrLe` only looks at the four IR lists. -/
theorem IrLe.of_eq {s s' : St} (hg : s'.gets = s.gets) (hs : s'.sets = s.sets)
    (hd : s'.dels = s.dels) (hc : s'.calls = s.calls) : IrLe s s' :=
  ⟨fun _ h => hg ▸ h, fun _ h => hs ▸ h, fun _ h => hd ▸ h, fun _ h => hc ▸ h⟩

/-! ### `StLe`: IR grows and the scope depth is kept -/

/-- `IrLe` plus: if the context of `s` has at least one scope, the context of `s'` has the same
number of scopes (scope balance). -/
structure StLe (s s' : St) : Prop where
  ir : IrLe s s'
  depth : s.ctx ≠ [] → s'.ctx.length = s.ctx.length

theorem StLe.refl (s : St) : StLe s s := ⟨IrLe.refl s, fun _ => rfl⟩

theorem StLe.trans {a b c : St} (h1 : StLe a b) (h2 : StLe b c) : StLe a c := by
  refine ⟨h1.ir.trans h2.ir, fun hne => ?_⟩
  have hb := h1.depth hne
  have hbne : b.ctx ≠ [] := by
    intro h0; rw [h0] at hb
    exact hne (List.length_eq_zero_iff.mp hb.symm)
  rw [h2.depth hbne, hb]

/-- the outcome `r`, when it is `.ok s'`, satisfies `StLe s s'`. -/
def Mono (s : St) (r : Res) : Prop := ∀ s', r = .ok s' → StLe s s'

theorem Mono.ok {s s' : St} (h : StLe s s') : Mono s (.ok s') := by
  intro t ht; cases ht; exact h

theorem Mono.fatal (s t : St) (d : Diag) : Mono s (.fatal t d) := by intro _ h; cases h
theorem Mono.crash (s t : St) (e : Str) : Mono s (.crash t e) := by intro _ h; cases h

theorem Mono.weaken {s0 s : St} {r : Res} (h0 : StLe s0 s) (h : Mono s r) : Mono s0 r :=
  fun s' hs => h0.trans (h s' hs)

/-- the general bind rule: the continuation may use that the first part succeeded. -/
theorem Mono.bind_gen {s : St} {r : Res} {f : St → Res}
    (h : ∀ s₁, r = .ok s₁ → Mono s (f s₁)) : Mono s (r >>>= f) := by
  intro s' hs
  obtain ⟨s₁, h1, h2⟩ := bind_ok hs
  exact h s₁ h1 s' h2

theorem Mono.bind {s : St} {r : Res} {f : St → Res}
    (h1 : Mono s r) (h2 : ∀ s₁, Mono s₁ (f s₁)) : Mono s (r >>>= f) :=
  Mono.bind_gen fun s₁ hr => Mono.weaken (h1 s₁ hr) (h2 s₁)

theorem Mono.protect {o s : St} {r : Res} (h : Mono s r) : Mono s (protect o r) := by
  intro s' hs; exact h s' (protect_ok_iff.mp hs)

/-! ### state updates that are `StLe` -/

theorem StLe.of_eq {s s' : St} (hx : s'.ctx = s.ctx) (hg : s'.gets = s.gets) (hs : s'.sets = s.sets)
    (hd : s'.dels = s.dels) (hc : s'.calls = s.calls) : StLe s s' :=
  ⟨IrLe.of_eq hg hs hd hc, fun _ => by rw [hx]⟩

theorem StLe.diag (s : St) (d : Diag) : StLe s (St.diag s d) := StLe.of_eq rfl rfl rfl rfl rfl
theorem StLe.diagL (s : St) (ds : List Diag) : StLe s (St.diagL s ds) :=
  StLe.of_eq rfl rfl rfl rfl rfl

theorem StLe.updateResults (s : St) (n : NameS) (c : ECtx) : StLe s (updateResults s n c) := by
  cases c
  · exact ⟨⟨fun _ h => mem_addTo_left h, fun _ h => h, fun _ h => h, fun _ h => h⟩, fun _ => rfl⟩
  · exact ⟨⟨fun _ h => h, fun _ h => mem_addTo_left h, fun _ h => h, fun _ h => h⟩, fun _ => rfl⟩
  · exact ⟨⟨fun _ h => h, fun _ h => h, fun _ h => mem_addTo_left h, fun _ h => h⟩, fun _ => rfl⟩

theorem StLe.gets_foldl (s : St) (l : List NameS) :
    StLe s { s with gets := l.foldl addTo s.gets } :=
  ⟨⟨fun _ h => mem_foldl_addTo.mpr (Or.inl h), fun _ h => h, fun _ h => h, fun _ h => h⟩,
   fun _ => rfl⟩

theorem StLe.addCall (s : St) (c : CallSym) : StLe s { s with calls := addCall s.calls c } :=
  ⟨⟨fun _ h => h, fun _ h => h, fun _ h => h, fun _ h => mem_addCall_left h⟩, fun _ => rfl⟩

theorem StLe.addSet (s : St) (n : NameS) : StLe s { s with sets := addTo s.sets n } :=
  ⟨⟨fun _ h => h, fun _ h => mem_addTo_left h, fun _ h => h, fun _ h => h⟩, fun _ => rfl⟩

/-! ### context depth -/

theorem Context.add_length (c : Context) (hc : c ≠ []) (sym : Sym) (b : Bool) :
    (Context.add c sym b).length = c.length := by
  unfold Context.add
  split
  · cases c with
    | nil => exact absurd rfl hc
    | cons sc r => simp
  · rfl

theorem Context.add_ne_nil (c : Context) (sym : Sym) (b : Bool) (hc : c ≠ []) :
    Context.add c sym b ≠ [] := by
  intro h
  have := Context.add_length c hc sym b
  rw [h] at this
  exact hc (List.length_eq_zero_iff.mp this.symm)

theorem Context.remove_length (c : Context) (x : Str) : (Context.remove c x).length = c.length := by
  cases c <;> simp [Context.remove]

theorem Context.foldl_add_length_flag (b : Bool) (names : List Str) (c : Context) (hc : c ≠ []) :
    (names.foldl (fun c n => Context.add c (Context.nameSym n) b) c).length = c.length := by
  induction names generalizing c with
  | nil => rfl
  | cons n r ih =>
    simp only [List.foldl_cons]
    rw [ih _ (Context.add_ne_nil c _ _ hc), Context.add_length c hc]

theorem Context.foldl_add_length (names : List Str) (c : Context) (hc : c ≠ []) :
    (names.foldl (fun c n => Context.add c (Context.nameSym n)) c).length = c.length :=
  Context.foldl_add_length_flag false names c hc

theorem Context.foldl_remove_length (names : List Str) (c : Context) :
    (names.foldl (fun c n => Context.remove c n) c).length = c.length := by
  induction names generalizing c with
  | nil => rfl
  | cons n r ih => simp only [List.foldl_cons]; rw [ih, Context.remove_length]

theorem Context.push_length (c : Context) : (Context.push c).length = c.length + 1 := rfl
theorem Context.push_ne_nil (c : Context) : Context.push c ≠ [] := by simp [Context.push]
theorem Context.pop_length (c : Context) : (Context.pop c).length = c.length - 1 := by
  simp [Context.pop]

theorem StLe.ctxAdd (s : St) (sym : Sym) (b : Bool) :
    StLe s { s with ctx := Context.add s.ctx sym b } :=
  ⟨IrLe.of_eq rfl rfl rfl rfl, fun h => Context.add_length s.ctx h sym b⟩

theorem addArguments_ctx_length (s : St) (ps : Params) (h : s.ctx ≠ []) :
    (addArguments s ps).ctx.length = s.ctx.length :=
  Context.foldl_add_length_flag true _ _ h

theorem StLe.addArguments (s : St) (ps : Params) : StLe s (addArguments s ps) :=
  ⟨IrLe.of_eq rfl rfl rfl rfl, fun h => addArguments_ctx_length s ps h⟩

/-- entering a scope, running something monotone, leaving the scope: `s` → (push) `t` → `u` → pop. -/
theorem StLe.scoped {s t u : St} (h : StLe t u) (hir : IrLe s t)
    (hlen : t.ctx.length = s.ctx.length + 1) : StLe s { u with ctx := Context.pop u.ctx } := by
  refine ⟨hir.trans ⟨h.ir.gets, h.ir.sets, h.ir.dels, h.ir.calls⟩, fun _ => ?_⟩
  have htne : t.ctx ≠ [] := by
    intro h0; rw [h0] at hlen; simp at hlen
  have := h.depth htne
  simp only [Context.pop_length]
  omega

/-! ### the non-recursive helpers are monotone -/

theorem Mono.liftName {s0 s : St} {r : NameRes} {k : Str → Str → Res}
    (h : ∀ b f, Mono s0 (k b f)) : Mono s0 (liftName s r k) := by
  cases r with
  | ok b f => exact h b f
  | fatal d => exact Mono.fatal _ _ _
  | crash e => exact Mono.crash _ _ _

theorem Mono.getAndVerify {s : St} {n : Node} {c : ECtx} {k : St → Str → Str → Res}
    (h : ∀ s₁ b f, StLe s s₁ → Mono s₁ (k s₁ b f)) : Mono s (getAndVerify s n c k) := by
  unfold FnA.getAndVerify
  apply Mono.liftName
  intro b f
  simp only
  split
  · exact Mono.weaken (StLe.diag ..) (h _ b f (StLe.diag ..))
  · exact h _ b f (StLe.refl _)

theorem Mono.addIdentifiers (s : St) (t : Node) : Mono s (addIdentifiers s t) := by
  unfold FnA.addIdentifiers
  split
  · exact Mono.ok ⟨IrLe.of_eq rfl rfl rfl rfl, fun h => Context.foldl_add_length _ _ h⟩
  · exact Mono.fatal _ _ _
  · exact Mono.crash _ _ _

theorem Mono.removeIdentifiers (s : St) (t : Node) : Mono s (removeIdentifiers s t) := by
  unfold FnA.removeIdentifiers
  split
  · exact Mono.ok ⟨IrLe.of_eq rfl rfl rfl rfl, fun _ => Context.foldl_remove_length _ _⟩
  · exact Mono.fatal _ _ _
  · exact Mono.crash _ _ _

theorem Mono.addIdentifiersL (s : St) (l : List Node) : Mono s (addIdentifiersL s l) := by
  induction l generalizing s with
  | nil => exact Mono.ok (StLe.refl s)
  | cons t r ih => exact Mono.bind (Mono.addIdentifiers s t) fun s₁ => ih s₁

theorem Mono.removeIdentifiersL (s : St) (l : List Node) : Mono s (removeIdentifiersL s l) := by
  induction l generalizing s with
  | nil => exact Mono.ok (StLe.refl s)
  | cons t r ih => exact Mono.bind (Mono.removeIdentifiers s t) fun s₁ => ih s₁

theorem Mono.argNames {s : St} {args : List Node} {k : St → List Str → Res}
    (h : ∀ s₁ l, Mono s₁ (k s₁ l)) : Mono s (argNames s args k) := by
  induction args generalizing s k with
  | nil => exact h s []
  | cons a r ih =>
    simp only [FnA.argNames]
    split
    · refine Mono.weaken (s := if isStarred a then St.diag s (mkDiag .error "starred-arg") else s) ?_ ?_
      · split
        · exact StLe.diag ..
        · exact StLe.refl _
      · exact ih fun s₁ l => h s₁ _
    · exact Mono.fatal _ _ _
    · exact Mono.crash _ _ _

theorem Mono.kwargNames {s : St} {kwn : List (Option Str)} {kwv : List Node}
    {k : St → List (Str × Str) → Res}
    (h : ∀ s₁ l, Mono s₁ (k s₁ l)) : Mono s (kwargNames s kwn kwv k) := by
  induction kwn generalizing kwv k with
  | nil => simp only [FnA.kwargNames]; exact h s []
  | cons o rn ih =>
    cases kwv with
    | nil => cases o <;> (simp only [FnA.kwargNames]; exact h s [])
    | cons v rv =>
      cases o with
      | none => simp only [FnA.kwargNames]; exact ih h
      | some key =>
        simp only [FnA.kwargNames]
        split
        · exact ih fun s₁ l => h s₁ _
        · exact Mono.fatal _ _ _
        · exact Mono.crash _ _ _

theorem Mono.mkCall {s : St} {name : Str} {args : List Node} {kwn : List (Option Str)}
    {kwv : List Node} {target : Option Sym} {self : Option Str} {k : St → CallSym → Res}
    (h : ∀ s₁ c, Mono s₁ (k s₁ c)) : Mono s (mkCall s name args kwn kwv target self k) := by
  unfold FnA.mkCall
  exact Mono.argNames fun s₁ _ => Mono.kwargNames fun s₂ _ => h s₂ _

theorem Mono.dynamicName {s : St} {fn : Str} {args : List Node} {k : St → NameS → Res}
    (h : ∀ s₁ n, Mono s₁ (k s₁ n)) : Mono s (dynamicName s fn args k) := by
  match args with
  | [] => exact Mono.fatal _ _ _
  | [_] => exact Mono.fatal _ _ _
  | a0 :: attrArg :: rest =>
    cases attrArg <;>
      (simp only [FnA.dynamicName]
       split <;> first
         | exact Mono.fatal _ _ _
         | exact Mono.crash _ _ _
         | exact h _ _
         | exact Mono.weaken (StLe.diag ..) (h _ _))

theorem StLe.mergeIr (s t : St) (hlen : s.ctx ≠ [] → t.ctx.length = s.ctx.length) :
    StLe s (mergeIr s t) :=
  ⟨⟨fun _ h => mem_unionN.mpr (Or.inl h), fun _ h => mem_unionN.mpr (Or.inl h),
    fun _ h => mem_unionN.mpr (Or.inl h), fun _ h => mem_unionC.mpr (Or.inl h)⟩, hlen⟩

theorem Mono.defaultdictNamed (env : Env) (factory : Node) (s : St) :
    Mono s (defaultdictNamed env factory s) := by
  unfold FnA.defaultdictNamed
  apply Mono.liftName
  intro _ name
  exact Mono.ok ((StLe.diagL s _).trans (StLe.addCall _ _))

theorem Mono.withRegister (items : List Node) (s : St) : Mono s (withRegister items s) := by
  induction items generalizing s with
  | nil => exact Mono.ok (StLe.refl s)
  | cons it r ih =>
    unfold FnA.withRegister
    split
    · exact Mono.ok (StLe.refl _)
    · rename_i heq; cases heq
      exact Mono.bind (Mono.addIdentifiersL _ _) fun s₁ => ih s₁
    · rename_i heq; cases heq; exact ih _

/-! ### monotonicity of the whole visitor -/

def AMono (s : St) : AssignOut → Prop
  | .done r => Mono s r
  | .generic s' => StLe s s'

theorem addArguments_push_length (x : St) (c : Context) (ps : Params) :
    (addArguments { x with ctx := Context.push c } ps).ctx.length = c.length + 1 := by
  rw [addArguments_ctx_length _ _ (Context.push_ne_nil c)]; rfl

theorem StLe.sub_scoped {s t u : St} (hlen : t.ctx.length = s.ctx.length + 1) (h : StLe t u) :
    StLe s (FnA.mergeIr s { u with ctx := Context.pop u.ctx }) := by
  refine StLe.mergeIr s _ fun _ => ?_
  have htne : t.ctx ≠ [] := by
    intro h0; rw [h0] at hlen; simp at hlen
  have := h.depth htne
  simp only [Context.pop_length]
  omega


theorem AMono.done {s : St} {r : Res} (h : Mono s r) : AMono s (.done r) := h
theorem AMono.generic {s s' : St} (h : StLe s s') : AMono s (.generic s') := h

mutual
theorem visit_mono (env : Env) (mn : Str) : ∀ (n : Node) (s : St), Mono s (visit env mn n s)
  | .name id c, s => by
    rw [visit]
    exact Mono.getAndVerify fun s₁ b f _ => Mono.ok (StLe.updateResults ..)
  | .attr v a c, s => by
    rw [visit]
    refine Mono.getAndVerify fun s₁ b f _ => Mono.bind ?_ fun s₂ => Mono.ok (StLe.updateResults ..)
    split
    · exact visit_mono env mn v s₁
    · exact Mono.ok (StLe.refl _)
  | .sub v sl c, s => by
    rw [visit]
    refine Mono.getAndVerify fun s₁ b f _ => Mono.bind ?_ fun s₂ => Mono.ok (StLe.updateResults ..)
    split
    · exact visit_mono env mn v s₁
    · exact Mono.ok (StLe.refl _)
  | .starred v c, s => by
    rw [visit]
    refine Mono.getAndVerify fun s₁ b f _ => Mono.bind ?_ fun s₂ => Mono.ok (StLe.updateResults ..)
    split
    · exact visit_mono env mn v s₁
    · exact Mono.ok (StLe.refl _)
  | .call f args kwn kwv, s => by
    unfold visit
    simp only
    apply Mono.liftName; intro _ targetName
    split
    · rename_i q hq
      clear hq
      split
      · exact Mono.dynamicName fun s₁ n => Mono.ok (StLe.gets_foldl ..)
      split
      · exact Mono.dynamicName fun s₁ n => Mono.ok
          ⟨⟨fun _ h => mem_foldl_addTo.mpr (Or.inl h), fun _ h => mem_addTo_left h, fun _ h => h,
            fun _ h => h⟩, fun _ => rfl⟩
      split
      · exact Mono.dynamicName fun s₁ n => Mono.ok
          ⟨⟨fun _ h => mem_foldl_addTo.mpr (Or.inl h), fun _ h => h, fun _ h => mem_addTo_left h,
            fun _ h => h⟩, fun _ => rfl⟩
      split
      · split
        · exact Mono.ok (StLe.refl _)
        · rename_i a0 rest
          refine Mono.bind_gen fun t ht => Mono.ok (StLe.mergeIr s t fun hne => ?_)
          have := (Mono.protect (o := s) (Mono.bind (visit_mono env mn a0 (freshIr s))
            fun t => visitSortedKey_mono env mn _ kwn kwv t)) t ht
          exact this.depth hne
      split
      · split
        · exact Mono.ok (StLe.refl _)
        · rename_i factory rest
          split
          · rename_i ps body
            refine Mono.bind_gen fun u hu => Mono.ok ?_
            have := visit_mono env mn body _ u (protect_ok_iff.mp hu)
            exact StLe.sub_scoped (addArguments_push_length ..) this
          · exact Mono.defaultdictNamed _ _ _
          · exact Mono.defaultdictNamed _ _ _
          · refine Mono.bind_gen fun u hu => Mono.ok ?_
            have := visit_mono env mn factory _ u (protect_ok_iff.mp hu)
            exact StLe.sub_scoped (t := { (freshIr s) with ctx := Context.push s.ctx }) rfl this
      · exact Mono.ok (StLe.refl _)
    · refine Mono.getAndVerify fun s₁ _ fullname _ => ?_
      refine Mono.weaken (StLe.trans ?_ (StLe.gets_foldl _ _)) (Mono.mkCall fun s₂ c =>
        Mono.weaken (StLe.addCall ..) (Mono.bind (visitList_mono env mn args _) fun s₃ =>
          visitList_mono env mn kwv s₃))
      split
      · split
        · exact (StLe.diagL ..).trans (StLe.diag ..)
        · exact StLe.diagL ..
      · exact StLe.diagL ..
  | .lam ps body, s => by
    rw [visit]
    refine Mono.bind_gen fun u hu => Mono.ok ?_
    have := visit_mono env mn body _ u hu
    exact StLe.scoped (s := s) this (IrLe.of_eq rfl rfl rfl rfl) (addArguments_push_length ..)
  | .comp kind elts gens, s => by
    rw [visit]
    refine Mono.bind_gen fun u hu => Mono.bind_gen fun w hw => Mono.ok ?_
    exact StLe.scoped (s := s) (t := { s with ctx := Context.push s.ctx })
      ((visitList_mono env mn gens _ u hu).trans (visitList_mono env mn elts u w hw))
      (IrLe.of_eq rfl rfl rfl rfl) rfl
  | .gen target iter ifs, s => by
    rw [visit]
    exact Mono.bind (Mono.addIdentifiers _ _) fun s₁ => Mono.bind (visit_mono env mn target s₁)
      fun s₂ => Mono.bind (visit_mono env mn iter s₂) fun s₃ => visitList_mono env mn ifs s₃
  | .walrus t v, s => by
    rw [visit]
    apply Mono.liftName; intro base full
    refine Mono.weaken (StLe.addSet s ⟨base, full⟩) (Mono.bind ?_ fun s₂ => ?_)
    · split
      · exact visit_mono env mn v _
      · exact Mono.ok (StLe.refl _)
    · have h := assignDiv_mono env mn [t] v s₂
      split
      · rename_i r hr; rw [hr] at h; exact h
      · rename_i s₃ hr; rw [hr] at h
        exact Mono.weaken h (Mono.bind (visit_mono env mn t s₃) fun s₄ => visit_mono env mn v s₄)
  | .strConst _, s => by rw [visit]; exact Mono.ok (StLe.refl _)
  | .const, s => by rw [visit]; exact Mono.ok (StLe.refl _)
  | .seq _ elts _, s => by rw [visit]; exact visitList_mono env mn elts s
  | .dict keys vals, s => by
    rw [visit]
    exact Mono.bind (visitList_mono env mn keys s) fun s₁ => visitList_mono env mn vals s₁
  | .assign targets v, s => by
    rw [visit]
    have h := assignDiv_mono env mn targets v s
    split
    · rename_i r hr; rw [hr] at h; exact h
    · rename_i s₁ hr; rw [hr] at h
      exact Mono.weaken h (Mono.bind (visitList_mono env mn targets s₁) fun s₂ => visit_mono env mn v s₂)
  | .annAssign t ann [], s => by
    rw [visit]
    exact Mono.bind (Mono.addIdentifiers _ _) fun s₁ => Mono.bind (visit_mono env mn t s₁)
      fun s₂ => visit_mono env mn ann s₂
  | .annAssign t ann (v0 :: r), s => by
    rw [visit]
    have h := assignDiv_mono env mn [t] v0 s
    split
    · rename_i r hr; rw [hr] at h; exact h
    · rename_i s₁ hr; rw [hr] at h
      exact Mono.weaken h (Mono.bind (visit_mono env mn t s₁) fun s₂ =>
        Mono.bind (visit_mono env mn ann s₂) fun s₃ => visit_mono env mn v0 s₃)
  | .augAssign t v, s => by
    rw [visit]
    have h := assignDiv_mono env mn [t] v s
    split
    · rename_i r hr; rw [hr] at h; exact h
    · rename_i s₁ hr; rw [hr] at h
      exact Mono.weaken h (Mono.bind (visit_mono env mn t s₁) fun s₂ => visit_mono env mn v s₂)
  | .delete targets, s => by
    rw [visit]
    exact Mono.bind (visitList_mono env mn targets s) fun s₁ => Mono.removeIdentifiersL _ _
  | .forLoop t iter body orelse, s => by
    rw [visit]
    exact Mono.bind (Mono.addIdentifiers _ _) fun s₁ => Mono.bind (visit_mono env mn t s₁)
      fun s₂ => Mono.bind (visit_mono env mn iter s₂) fun s₃ =>
        Mono.bind (visitList_mono env mn body s₃) fun s₄ => visitList_mono env mn orelse s₄
  | .withStmt items body, s => by
    rw [visit]
    exact Mono.bind (Mono.withRegister _ _) fun s₁ => Mono.bind (visitList_mono env mn items s₁)
      fun s₂ => visitList_mono env mn body s₂
  | .withitem ce vars, s => by
    rw [visit]
    exact Mono.bind (visit_mono env mn ce s) fun s₁ => visitList_mono env mn vars s₁
  | .funcDef name ps body, s => by
    rw [visit]
    refine Mono.bind_gen fun u hu => Mono.ok ?_
    have h1 : StLe s { (St.diag s (mkDiag .error "nested-function")) with
        ctx := Context.add (St.diag s (mkDiag .error "nested-function")).ctx (funcSym name ps.iface) } :=
      (StLe.diag ..).trans (StLe.ctxAdd ..)
    exact h1.trans (StLe.scoped (visitList_mono env mn body _ u hu) (IrLe.of_eq rfl rfl rfl rfl)
      (addArguments_push_length ..))
  | .classDef _, s => by rw [visit]; exact Mono.ok (StLe.diag ..)
  | .ret [], s => by
    rw [visit]; exact Mono.ok (StLe.refl _)
  | .ret (v0 :: r), s => by
    rw [visit]
    refine visitReturnValue_mono env mn v0 s _ fun s₁ b => ?_
    cases b
    · exact visit_mono env mn v0 s₁
    · exact Mono.ok (StLe.refl _)
  | .forbidden kind, s => by rw [visit]; exact Mono.fatal _ _ _
  | .other k kids, s => by
    rw [visit]; exact visitList_mono env mn kids s

theorem visitList_mono (env : Env) (mn : Str) :
    ∀ (l : List Node) (s : St), Mono s (visitList env mn l s)
  | [], s => by rw [visitList]; exact Mono.ok (StLe.refl _)
  | n :: r, s => by
    rw [visitList]
    exact Mono.bind (visit_mono env mn n s) fun s₁ => visitList_mono env mn r s₁

theorem visitSortedKey_mono (env : Env) (mn : Str) (ir : NameRes) :
    ∀ (kwn : List (Option Str)) (kwv : List Node) (t : St),
      Mono t (visitSortedKey env mn ir kwn kwv t)
  | kwn, kwv, t => by
    unfold visitSortedKey
    split
    · rename_i k rn v rv
      split
      · split
        · split
          · exact Mono.crash _ _ _
          · apply Mono.liftName; intro _ iterable
            refine Mono.bind_gen fun l hl => ?_
            split
            · exact Mono.crash _ _ _
            · exact Mono.ok (StLe.mergeIr t _ fun _ => rfl)
        · exact visit_mono env mn _ t
      · exact visitSortedKey_mono env mn ir rn rv t
    · rename_i rn _ rv
      exact visitSortedKey_mono env mn ir rn rv t
    · exact Mono.ok (StLe.refl _)

theorem assignDiv_mono (env : Env) (mn : Str) (targets : List Node) :
    ∀ (v : Node) (s : St), AMono s (assignDiv env mn targets v s)
  | v, s => by
    unfold assignDiv
    split
    · split
      · exact AMono.done (Mono.fatal _ _ _)
      · split
        · exact AMono.done (Mono.liftName fun _ name => Mono.ok ((StLe.diag ..).trans (StLe.ctxAdd ..)))
        · exact AMono.done (Mono.fatal _ _ _)
    split
    · split
      · exact AMono.done (Mono.fatal _ _ _)
      · split
        · refine AMono.done (Mono.liftName fun _ name => ?_)
          split
          · exact Mono.ok (StLe.diag ..)
          · exact Mono.ok (StLe.ctxAdd ..)
        · exact AMono.done (Mono.crash _ _ _)
    split
    · exact AMono.done (Mono.fatal _ _ _)
    · exact AMono.done (Mono.crash _ _ _)
    · have h := Mono.addIdentifiersL s targets
      split
      · rename_i s₁ hs; exact AMono.generic (h s₁ hs)
      · rename_i r hr
        refine AMono.done ?_
        intro s' hs'
        exact h s' hs'
    · split
      · exact AMono.done (Mono.fatal _ _ _)
      · split
        · refine AMono.done (Mono.liftName fun lhsBase lhsName => Mono.liftName fun _ className => ?_)
          refine Mono.weaken (StLe.diagL ..) (Mono.mkCall fun s₁ call => ?_)
          refine Mono.weaken ((StLe.addCall s₁ call).trans (StLe.addSet _ ⟨lhsName, lhsBase⟩)) ?_
          exact Mono.bind (Mono.addIdentifiersL _ _) fun s₂ =>
            Mono.bind (visitList_mono env mn _ s₂) fun s₃ => visitList_mono env mn _ s₃
        · exact AMono.done (Mono.crash _ _ _)

theorem visitReturnValue_mono (env : Env) (mn : Str) :
    ∀ (n : Node) (s : St) (k : St → Bool → Res), (∀ s₁ b, Mono s₁ (k s₁ b)) →
      Mono s (visitReturnValue env mn n s k)
  | .seq _ elts _, s, k, hk => by
    rw [visitReturnValue]
    exact Mono.bind (visitReturnElts_mono env mn elts s) fun s₁ => hk s₁ true
  | .dict keys vals, s, k, hk => by
    rw [visitReturnValue]
    exact Mono.bind (visitReturnElts_mono env mn keys s) fun s₁ =>
      Mono.bind (visitReturnElts_mono env mn vals s₁) fun s₂ => hk s₂ true
  | .call f args kwn kwv, s, k, hk => by
    rw [visitReturnValue]
    simp only
    split
    · exact hk s false
    · apply Mono.liftName; intro _ full
      split
      · exact hk s false
      · apply Mono.liftName; intro _ className
        refine Mono.weaken (StLe.diagL ..) (Mono.mkCall fun s₁ call => ?_)
        exact Mono.weaken (StLe.addCall ..) (Mono.bind (visitList_mono env mn args _) fun s₂ =>
          Mono.bind (visitList_mono env mn kwv s₂) fun s₃ => hk s₃ true)
  | .name .., s, k, hk | .attr .., s, k, hk | .sub .., s, k, hk | .starred .., s, k, hk
  | .lam .., s, k, hk | .comp .., s, k, hk | .gen .., s, k, hk | .walrus .., s, k, hk
  | .strConst _, s, k, hk | .const, s, k, hk | .assign .., s, k, hk | .annAssign .., s, k, hk
  | .augAssign .., s, k, hk | .delete .., s, k, hk | .forLoop .., s, k, hk
  | .withStmt .., s, k, hk | .withitem .., s, k, hk | .funcDef .., s, k, hk
  | .classDef _, s, k, hk | .ret _, s, k, hk | .forbidden _, s, k, hk | .other .., s, k, hk => by
    unfold visitReturnValue; exact hk s false

theorem visitReturnElts_mono (env : Env) (mn : Str) :
    ∀ (l : List Node) (s : St), Mono s (visitReturnElts env mn l s)
  | [], s => by rw [visitReturnElts]; exact Mono.ok (StLe.refl _)
  | e :: r, s => by
    rw [visitReturnElts]
    refine Mono.bind (visitReturnValue_mono env mn e s _ fun s₁ b => ?_) fun s₁ =>
      visitReturnElts_mono env mn r s₁
    cases b
    · exact visit_mono env mn e s₁
    · exact Mono.ok (StLe.refl _)
end


/-! ### user-facing forms of monotonicity -/

theorem visit_irLe {env : Env} {mn : Str} {n : Node} {s s' : St}
    (h : visit env mn n s = .ok s') : IrLe s s' := (visit_mono env mn n s s' h).ir

theorem visitList_irLe {env : Env} {mn : Str} {l : List Node} {s s' : St}
    (h : visitList env mn l s = .ok s') : IrLe s s' := (visitList_mono env mn l s s' h).ir

theorem visitSortedKey_irLe {env : Env} {mn : Str} {ir : NameRes} {kwn : List (Option Str)}
    {kwv : List Node} {s s' : St} (h : visitSortedKey env mn ir kwn kwv s = .ok s') : IrLe s s' :=
  (visitSortedKey_mono env mn ir kwn kwv s s' h).ir

theorem assignDiv_done_irLe {env : Env} {mn : Str} {targets : List Node} {v : Node} {s s' : St}
    (h : assignDiv env mn targets v s = .done (.ok s')) : IrLe s s' := by
  have := assignDiv_mono env mn targets v s
  rw [h] at this
  exact (this s' rfl).ir

theorem assignDiv_generic_irLe {env : Env} {mn : Str} {targets : List Node} {v : Node} {s s' : St}
    (h : assignDiv env mn targets v s = .generic s') : IrLe s s' := by
  have := assignDiv_mono env mn targets v s
  rw [h] at this
  exact this.ir

theorem visitReturnValue_irLe {env : Env} {mn : Str} {n : Node} {s s' : St} {k : St → Bool → Res}
    (hk : ∀ s₁ b s₂, k s₁ b = .ok s₂ → IrLe s₁ s₂ ∧ (s₁.ctx ≠ [] → s₂.ctx.length = s₁.ctx.length))
    (h : visitReturnValue env mn n s k = .ok s') : IrLe s s' :=
  (visitReturnValue_mono env mn n s k (fun s₁ b s₂ h2 => ⟨(hk s₁ b s₂ h2).1, (hk s₁ b s₂ h2).2⟩) s' h).ir

theorem visitReturnElts_irLe {env : Env} {mn : Str} {l : List Node} {s s' : St}
    (h : visitReturnElts env mn l s = .ok s') : IrLe s s' := (visitReturnElts_mono env mn l s s' h).ir

/-- the state `analyse` starts the body from: a fresh IR, a pushed scope, the parameters. -/
def analyseInit (root : Context) (ps : Params) : St := addArguments { ctx := Context.push root } ps

theorem analyse_eq (env : Env) (mn : Str) (root : Context) (ps : Params) (body : List Node) :
    analyse env mn root ps body =
      (visitList env mn body (analyseInit root ps) >>>= fun s => .ok { s with ctx := Context.pop s.ctx }) :=
  rfl

theorem analyseInit_ctx_length (root : Context) (ps : Params) :
    (analyseInit root ps).ctx.length = root.length + 1 := by
  unfold analyseInit
  rw [addArguments_ctx_length _ _ (Context.push_ne_nil root)]; rfl

/-- `analyse`: the final IR contains everything recorded while visiting the body, and the returned
context has the depth of `root` (scope balance). -/
theorem analyse_inv {env : Env} {mn : Str} {root : Context} {ps : Params} {body : List Node}
    {s' : St} (h : analyse env mn root ps body = .ok s') :
    ∃ u, visitList env mn body (analyseInit root ps) = .ok u ∧ IrLe u s' ∧ IrLe (analyseInit root ps) s' ∧
      s'.ctx.length = root.length := by
  rw [analyse_eq] at h
  obtain ⟨u, hu, h2⟩ := bind_ok h
  cases h2
  have hm := visitList_mono env mn body _ u hu
  refine ⟨u, hu, IrLe.of_eq rfl rfl rfl rfl, ⟨hm.ir.gets, hm.ir.sets, hm.ir.dels, hm.ir.calls⟩, ?_⟩
  have hne : (analyseInit root ps).ctx ≠ [] := by
    intro h0
    have := analyseInit_ctx_length root ps
    rw [h0] at this; simp at this
  have := hm.depth hne
  rw [analyseInit_ctx_length] at this
  simp only [Context.pop_length]
  omega

/-! ### `visitList` and append -/

theorem visitList_append (env : Env) (mn : Str) (a b : List Node) (s : St) :
    visitList env mn (a ++ b) s = (visitList env mn a s >>>= fun s₁ => visitList env mn b s₁) := by
  induction a generalizing s with
  | nil => simp [visitList]
  | cons n r ih =>
    simp only [List.cons_append, visitList]
    rw [bind_assoc]
    congr 1
    funext s₁
    exact ih s₁

/-! ### pure name chains -/

/-- `x`, or `E.a` / `E[i]` / `*E` over a chain `E`: a nameable expression without calls. -/
def isChain : Node → Bool
  | .name .. => true
  | .attr v _ _ => isChain v
  | .sub v _ _ => isChain v
  | .starred v _ => isChain v
  | _ => false

/-- README spelling `x | E.a | E[] | *E`, written independently of `namesOf`. -/
def chainSpell : Node → Str
  | .name id _ => id
  | .attr v a _ => chainSpell v ++ ['.'] ++ a
  | .sub v _ _ => chainSpell v ++ ['[', ']']
  | .starred v _ => ['*'] ++ chainSpell v
  | _ => []

/-- the identifier a chain is rooted at. -/
def chainBase : Node → Str
  | .name id _ => id
  | .attr v _ _ => chainBase v
  | .sub v _ _ => chainBase v
  | .starred v _ => chainBase v
  | _ => []

/-- the expression context of the outermost node. -/
def chainCtx : Node → ECtx
  | .name _ c => c
  | .attr _ _ c => c
  | .sub _ _ c => c
  | .starred _ c => c
  | _ => .load

theorem isChain_isNameable : ∀ n : Node, isChain n = true → n.isNameable = true
  | .name .., _ | .attr .., _ | .sub .., _ | .starred .., _ => rfl
  | .call .., h | .lam .., h | .comp .., h | .gen .., h | .walrus .., h | .strConst _, h
  | .const, h | .seq .., h | .dict .., h | .assign .., h | .annAssign .., h | .augAssign .., h
  | .delete .., h | .forLoop .., h | .withStmt .., h | .withitem .., h | .funcDef .., h
  | .classDef _, h | .ret _, h | .forbidden _, h | .other .., h => by simp [isChain] at h

theorem namesOf_chain (safe : Bool) :
    ∀ n : Node, isChain n = true → namesOf safe n = .ok (chainBase n) (chainSpell n)
  | .name id c, _ => by simp [namesOf, chainBase, chainSpell]
  | .attr v a c, h => by
    have ih := namesOf_chain safe v (by simpa [isChain] using h)
    simp [namesOf, ih, chainBase, chainSpell]
  | .sub v sl c, h => by
    have ih := namesOf_chain safe v (by simpa [isChain] using h)
    simp [namesOf, ih, chainBase, chainSpell, lit]
  | .starred v c, h => by
    have ih := namesOf_chain safe v (by simpa [isChain] using h)
    simp [namesOf, ih, chainBase, chainSpell]
  | .call .., h | .lam .., h | .comp .., h | .gen .., h | .walrus .., h | .strConst _, h
  | .const, h | .seq .., h | .dict .., h | .assign .., h | .annAssign .., h | .augAssign .., h
  | .delete .., h | .forLoop .., h | .withStmt .., h | .withitem .., h | .funcDef .., h
  | .classDef _, h | .ret _, h | .forbidden _, h | .other .., h => by simp [isChain] at h

/-- the "undefined name" warning of `get_and_verify_name`. -/
def warnUndef (s : St) (base : Str) (c : ECtx) : St :=
  if !Context.contains s.ctx base && c != .store && !startsWith base ['@']
  then St.diag s (mkDiag .warning "undefined" base) else s

theorem getAndVerify_ok {s : St} {n : Node} {c : ECtx} {k : St → Str → Str → Res} {b f : Str}
    (h : namesOf true n = .ok b f) : getAndVerify s n c k = k (warnUndef s b c) b f := by
  simp [FnA.getAndVerify, h, liftName, warnUndef]

theorem warnUndef_ir (s : St) (b : Str) (c : ECtx) :
    (warnUndef s b c).ctx = s.ctx ∧ (warnUndef s b c).gets = s.gets ∧
    (warnUndef s b c).sets = s.sets ∧ (warnUndef s b c).dels = s.dels ∧
    (warnUndef s b c).calls = s.calls := by
  unfold warnUndef; split <;> simp [St.diag]

theorem warnUndef_declared (s : St) (b : Str) (c : ECtx) (h : Context.contains s.ctx b = true) :
    warnUndef s b c = s := by
  simp [warnUndef, h]

theorem warnUndef_standin (s : St) (b : Str) (c : ECtx) : warnUndef s ('@' :: b) c = s := by
  simp [warnUndef, startsWith]

/-- visiting a chain does exactly one thing: record its spelling in the set of its context
(after the possible "undefined" warning). -/
theorem visit_chain (env : Env) (mn : Str) (n : Node) (hn : isChain n = true) (s : St) :
    visit env mn n s =
      .ok (updateResults (warnUndef s (chainBase n) (chainCtx n)) ⟨chainSpell n, chainBase n⟩ (chainCtx n)) := by
  have hnm := namesOf_chain true n hn
  match n, hn, hnm with
  | .name id c, _, hnm => rw [visit, getAndVerify_ok hnm]; rfl
  | .attr v a c, hn, hnm =>
    have hv : v.isNameable = true := isChain_isNameable v (by simpa [isChain] using hn)
    rw [visit, getAndVerify_ok hnm]; simp [hv, chainCtx]
  | .sub v sl c, hn, hnm =>
    have hv : v.isNameable = true := isChain_isNameable v (by simpa [isChain] using hn)
    rw [visit, getAndVerify_ok hnm]; simp [hv, chainCtx]
  | .starred v c, hn, hnm =>
    have hv : v.isNameable = true := isChain_isNameable v (by simpa [isChain] using hn)
    rw [visit, getAndVerify_ok hnm]; simp [hv, chainCtx]

theorem namesOf_unnameable (n : Node) (h : n.isNameable = false) :
    namesOf true n = .ok (safeName n) (safeName n) := by
  cases n <;> simp [Node.isNameable] at h <;> simp [namesOf]

end Rattr.FnA

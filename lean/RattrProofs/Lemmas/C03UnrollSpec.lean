import RattrProofs.Lemmas.ResultsDepthOneSpec
import RattrModel.Spec.Unroll

namespace Rattr.Results
open Rattr Rattr.Spec

theorem ustep_eq_dstep (S : SProg) (D : Key → Acc) : ustep S D = dstep S D := rfl

theorem own_sub_derive (S : SProg) (d : Nat) (f : Key) (k : Kind) (x : Str)
    (h : x ∈ (ownAcc S f).of k) : x ∈ (derive S d f).of k := by
  cases d with
  | zero => exact h
  | succ d =>
    rw [derive_succ]
    exact (mem_foldl_dstep S _ _ _ k x).mpr (Or.inl h)

/-- **One unrolling is derivable.**  Whatever the program, the path and the fuel: every name the
lower bound `unroll` demands is in the unfolding `derive` of the same depth — the property's lower
bound never asks for something its upper bound forbids. -/
theorem unroll_sub_derive (S : SProg) : ∀ (d : Nat) (path : List Key) (f : Key) (k : Kind) (x : Str),
    x ∈ (unroll S d path f).of k → x ∈ (derive S d f).of k
  | 0, _, _, _, _, h => h
  | d + 1, path, f, k, x, h => by
    rw [derive_succ]
    have h' : x ∈ ((fnAt S.prog f).calls.foldl
        (dstep S (fun g => if path.contains g then ownAcc S g else unroll S d (g :: path) g))
        (ownAcc S f)).of k := h
    rcases (mem_foldl_dstep S _ _ _ k x).mp h' with h0 | ⟨c, hc, g, b, hr, hb, m, hm, hx⟩
    · exact (mem_foldl_dstep S _ _ _ k x).mpr (Or.inl h0)
    · refine (mem_foldl_dstep S _ _ _ k x).mpr (Or.inr ⟨c, hc, g, b, hr, hb, m, ?_, hx⟩)
      by_cases hp : path.contains g = true
      · simp only [hp, if_true] at hm
        exact own_sub_derive S d g k m hm
      · simp only [hp] at hm
        exact unroll_sub_derive S d (g :: path) g k m hm

/-- the own accesses are part of every unrolling -/
theorem own_sub_unroll (S : SProg) (d : Nat) (path : List Key) (f : Key) (k : Kind) (x : Str)
    (h : x ∈ (ownAcc S f).of k) : x ∈ (unroll S d path f).of k := by
  cases d with
  | zero => exact h
  | succ d =>
    show x ∈ ((fnAt S.prog f).calls.foldl (dstep S _) (ownAcc S f)).of k
    exact (mem_foldl_dstep S _ _ _ k x).mpr (Or.inl h)

/-- a DIRECTLY recursive call contributes the callable's own accesses under the binding of that call:
the first unrolling of the cycle is part of the lower bound. -/
theorem unroll_direct_recursion (S : SProg) (d : Nat) (f : Key) (c : CallRec) (b : Dict Str Str)
    (hc : c ∈ (fnAt S.prog f).calls) (hr : S.prog.resolve c.cid = some f) (hb : binding S f c = some b)
    (k : Kind) (m : Str) (hm : m ∈ (ownAcc S f).of k) :
    subst b m ∈ (unroll S (d + 1) [f] f).of k := by
  show subst b m ∈ ((fnAt S.prog f).calls.foldl (dstep S _) (ownAcc S f)).of k
  refine (mem_foldl_dstep S _ _ _ k _).mpr (Or.inr ⟨c, hc, f, b, hr, hb, m, ?_, rfl⟩)
  simp [hm]

end Rattr.Results

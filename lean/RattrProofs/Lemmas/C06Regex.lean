/- The blacklist matcher of `RattrModel/Blacklist.lean` (C06 / C12: `is_in_import_blacklist`) decides the LANGUAGE of
its pattern: it agrees, for every pattern of its fragment and every string, with the denotational semantics
`Regex.Matches` of the general pattern model (`RattrModel/Regex.lean`), hence with the derivative matcher. -/
import RattrModel.Blacklist
import RattrProofs.Lemmas.C11Regex

namespace Rattr.Blacklist
open Rattr.Regex

def CharPat.toCC : CharPat → CC
  | .lit c => .lit c
  | .any => .any

def Atom.toRe (a : Atom) : Re :=
  match a.q with
  | .one => .cls a.cp.toCC
  | .opt => Re.opt (.cls a.cp.toCC)
  | .star => .star (.cls a.cp.toCC)

/-- the pattern as a general regular expression -/
def toRe : Pattern → Re
  | [] => .eps
  | a :: r => .cat a.toRe (toRe r)

theorem toCC_test (cp : CharPat) (c : Char) : cp.toCC.test c = cp.ok c := by
  cases cp with
  | lit d => simp [CharPat.toCC, CC.test, CharPat.ok, Bool.beq_comm]
  | any => rfl

theorem matches_eps_iff (s : List Char) : Matches .eps s ↔ s = [] :=
  ⟨fun h => by cases h; rfl, fun h => h ▸ .eps⟩

theorem matches_cat_cls (k : CC) (R : Re) (s : List Char) :
    Matches (.cat (.cls k) R) s ↔ ∃ c s', s = c :: s' ∧ k.test c = true ∧ Matches R s' := by
  constructor
  · intro h
    cases h with
    | cat ha hb =>
      cases ha with
      | cls hk => exact ⟨_, _, rfl, hk, hb⟩
  · rintro ⟨c, s', rfl, hk, hb⟩
    exact Matches.cat (s := [c]) (.cls hk) hb

theorem star_cls_inv {r : Re} {u : List Char} (h : Matches r u) (k : CC) (hr : r = .star (.cls k)) :
    u = [] ∨ ∃ c u', u = c :: u' ∧ k.test c = true ∧ Matches (.star (.cls k)) u' := by
  induction h with
  | eps => cases hr
  | cls _ => cases hr
  | cat _ _ _ _ => cases hr
  | altL _ _ => cases hr
  | altR _ _ => cases hr
  | starNil => exact .inl rfl
  | starCons ha hb _ _ =>
    cases hr
    cases ha with
    | cls hk => exact .inr ⟨_, _, rfl, hk, hb⟩

theorem matches_cat_star_cls (k : CC) (R : Re) (s : List Char) :
    Matches (.cat (.star (.cls k)) R) s ↔
      Matches R s ∨ ∃ c s', s = c :: s' ∧ k.test c = true ∧ Matches (.cat (.star (.cls k)) R) s' := by
  constructor
  · intro h
    cases h with
    | cat ha hb =>
      rcases star_cls_inv ha k rfl with hu | ⟨c, u', hu, hk, hs⟩
      · subst hu; exact .inl hb
      · subst hu; exact .inr ⟨c, _, rfl, hk, Matches.cat hs hb⟩
  · rintro (h | ⟨c, s', rfl, hk, h⟩)
    · exact Matches.cat (s := []) .starNil h
    · cases h with
      | cat hu hb =>
        exact Matches.cat (s := c :: _) (Matches.starCons (s := [c]) (.cls hk) hu) hb

theorem matches_cat_opt_cls (k : CC) (R : Re) (s : List Char) :
    Matches (.cat (Re.opt (.cls k)) R) s ↔ Matches R s ∨ Matches (.cat (.cls k) R) s := by
  constructor
  · intro h
    cases h with
    | cat ha hb =>
      cases ha with
      | altL h1 => exact .inr (Matches.cat h1 hb)
      | altR h2 => cases h2; exact .inl hb
  · rintro (h | h)
    · exact Matches.cat (s := []) (.altR .eps) h
    · cases h with
      | cat ha hb => exact Matches.cat (.altL ha) hb

theorem starLoop_iff (k : CC) (cp : CharPat) (hk : ∀ c, k.test c = cp.ok c) (R : Re) (f : Str → Bool)
    (hf : ∀ s, f s = true ↔ Matches R s) (s : Str) :
    starLoop cp.ok f s = true ↔ Matches (.cat (.star (.cls k)) R) s := by
  induction s with
  | nil =>
    rw [matches_cat_star_cls]
    simp [starLoop, hf]
  | cons c s ih =>
    rw [matches_cat_star_cls]
    simp only [starLoop, Bool.or_eq_true, Bool.and_eq_true, hf, ih]
    constructor
    · rintro (h | ⟨h1, h2⟩)
      · exact .inl h
      · exact .inr ⟨c, s, rfl, by rw [hk]; exact h1, h2⟩
    · rintro (h | ⟨c', s', he, h1, h2⟩)
      · exact .inl h
      · cases he
        exact .inr ⟨by rw [← hk]; exact h1, h2⟩

/-- **the blacklist matcher is language membership**: every pattern of its fragment, every string -/
theorem fullMatch_iff_matches (p : Pattern) (s : Str) : fullMatch p s = true ↔ Matches (toRe p) s := by
  induction p generalizing s with
  | nil =>
    rw [toRe, matches_eps_iff]
    cases s <;> simp [fullMatch]
  | cons a r ih =>
    obtain ⟨cp, q⟩ := a
    have hone : ∀ s, fullMatch (⟨cp, .one⟩ :: r) s = true ↔ Matches (.cat (.cls cp.toCC) (toRe r)) s := by
      intro s
      rw [matches_cat_cls]
      cases s with
      | nil => simp [fullMatch]
      | cons c s' =>
        simp only [fullMatch, Bool.and_eq_true, ih, ← toCC_test]
        constructor
        · rintro ⟨h1, h2⟩; exact ⟨c, s', rfl, h1, h2⟩
        · rintro ⟨c', s'', he, h1, h2⟩; cases he; exact ⟨h1, h2⟩
    cases q with
    | one => exact hone s
    | opt =>
      show _ ↔ Matches (.cat (Re.opt (.cls cp.toCC)) (toRe r)) s
      rw [matches_cat_opt_cls, ← hone, ← ih]
      cases s <;> simp [fullMatch]
    | star =>
      show _ ↔ Matches (.cat (.star (.cls cp.toCC)) (toRe r)) s
      have : fullMatch (⟨cp, .star⟩ :: r) s = starLoop cp.ok (fullMatch r) s := by simp [fullMatch]
      rw [this]
      exact starLoop_iff cp.toCC cp (toCC_test cp) (toRe r) (fullMatch r) ih s

/-- … hence the two executable matchers agree -/
theorem fullMatch_eq_regex (p : Pattern) (s : Str) : fullMatch p s = Regex.fullmatch (toRe p) s := by
  have h1 := fullMatch_iff_matches p s
  have h2 := Regex.fullmatch_iff (toRe p) s
  cases h : fullMatch p s <;> cases h' : Regex.fullmatch (toRe p) s <;> simp_all

end Rattr.Blacklist

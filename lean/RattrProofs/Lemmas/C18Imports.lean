/-
  Helper lemmas for the import-BFS part of Props/C18 (`RattrModel/IrDocument.lean`):
    * no module name is analysed twice by `Imports.bfs` (so `import_irs[name] = …` never overwrites and the
      dict's key order IS the analysis order) — the argument of C12's "each once", restated here so that
      Props/C18 does not depend on Props/C12 and its generated tables;
    * `dedupBy` with a lawful equality: membership and `Nodup`.
-/
import RattrModel.IrDocument
import RattrProofs.Lemmas.C12
import RattrProofs.Lemmas.C18

namespace Rattr.C18I
open Rattr Rattr.Imports Rattr.Ser Rattr.C12

section Bfs
variable {ν ω : Type} [DecidableEq ν] [DecidableEq ω]

/-- Origin of the file a name denotes. -/
def originOf (g : Graph ν ω) (n : ν) : Option ω := (lookup g n).bind (·.origin)

theorem loop_seen {g : Graph ν ω} {fl : Flags} :
    ∀ (k : Nat) (st : St ν ω) (q : List (Imp ν)),
      st.seen.Nodup → st.analysed.map (originOf g) = st.seen.map some →
      (loop g fl k st q).state.seen.Nodup ∧
      (loop g fl k st q).state.analysed.map (originOf g) = (loop g fl k st q).state.seen.map some := by
  intro k
  induction k with
  | zero => intro st q h1 h2; cases q <;> simpa [loop, Out.state] using ⟨h1, h2⟩
  | succ k ih =>
    intro st q h1 h2
    cases q with
    | nil => simpa [loop, Out.state] using ⟨h1, h2⟩
    | cons i q =>
      unfold loop
      cases hc : classify g fl st.seen i with
      | skip r => simp only; exact ih _ _ h1 h2
      | crashRead => simpa [Out.state] using ⟨h1, h2⟩
      | fatalCompile => simpa [Out.state] using ⟨h1, h2⟩
      | analyse n o m =>
        simp only
        have hp := classify_analyse hc
        apply ih
        · simp only
          rw [List.nodup_append]
          refine ⟨h1, by simp, ?_⟩
          intro a ha b hb
          simp at hb; subst hb
          intro hab; subst hab; exact hp.unseen ha
        · simp only [List.map_append, h2, List.map_cons, List.map_nil]
          congr 1
          simp [originOf, hp.look, hp.origin]

/-- No name is analysed twice (every graph, every flag set, every fuel). -/
theorem bfs_analysed_nodup (g : Graph ν ω) (fl : Flags) (fuel : Nat) (target : List (Imp ν)) :
    (bfs g fl fuel target).state.analysed.Nodup := by
  have base : (bfs g fl fuel target).state.seen.Nodup ∧
      (bfs g fl fuel target).state.analysed.map (originOf g)
        = (bfs g fl fuel target).state.seen.map some := by
    unfold bfs
    split
    · simp [Out.state, St.empty]
    · split
      · exact loop_seen fuel St.empty target (by simp [St.empty]) (by simp [St.empty])
      · simp [Out.state, St.empty]
  obtain ⟨hs, hm⟩ := base
  have h1 : ((bfs g fl fuel target).state.analysed.map (originOf g)).Nodup := by
    rw [hm]
    unfold List.Nodup at hs ⊢
    rw [List.pairwise_map]
    exact hs.imp (fun hne heq => hne (by injection heq))
  unfold List.Nodup at h1 ⊢
  rw [List.pairwise_map] at h1
  exact h1.imp (fun hne heq => hne (by rw [heq]))

end Bfs

section Dedup
variable {α : Type}

theorem mem_dedupBy (eq : α → α → Bool) (heq : ∀ a b, eq a b = true ↔ a = b) :
    ∀ (l : List α) (x : α), x ∈ dedupBy eq l ↔ x ∈ l
  | [], _ => by simp [dedupBy]
  | a :: r, x => by
    have ih := mem_dedupBy eq heq r x
    simp only [dedupBy, List.mem_cons, List.mem_filter, ih]
    constructor
    · rintro (h | ⟨h, _⟩)
      · exact .inl h
      · exact .inr h
    · rintro (h | h)
      · exact .inl h
      · by_cases hx : x = a
        · exact .inl hx
        · refine .inr ⟨h, ?_⟩
          cases hb : eq a x with
          | false => rfl
          | true => exact absurd ((heq a x).mp hb).symm hx

theorem nodup_dedupBy (eq : α → α → Bool) (heq : ∀ a b, eq a b = true ↔ a = b) :
    ∀ l : List α, (dedupBy eq l).Nodup
  | [] => by simp [dedupBy]
  | a :: r => by
    simp only [dedupBy, List.nodup_cons, List.mem_filter, not_and]
    refine ⟨?_, (nodup_dedupBy eq heq r).filter _⟩
    intro _
    simp [(heq a a).mpr rfl]

theorem importInfoEq_iff (a b : ImportInfo) : importInfoEq a b = true ↔ a = b := by
  cases a; cases b
  simp [importInfoEq]

end Dedup

end Rattr.C18I

/-
  RattrProofs.Lemmas.C01Star — `Context.expand_starred_imports` (model: `Pipeline2.expandLoop` / `rootOf`)
  never changes what a name that is ALREADY bound in the importing file's context denotes.

  That is the fact the custom analysers of the getattr family / `sorted` / `defaultdict` rest on in a
  file with `from <local module> import *`: the star-imported module's own root context holds the
  Python builtins too, every one of them is offered as `Import("<module>.getattr")`, and it is
  `Context.add`'s "never re-add a bound name" test that throws them away.
-/
import RattrModel.Pipeline2
import RattrProofs.Lemmas.C01Callables

namespace Rattr.C01Star
open Rattr Rattr.Strs Rattr.FnA Rattr.RootCtx Rattr.Pipeline2

/-- `Context.add` (not an argument) keeps every visible binding. -/
theorem get?_add_of_bound (c : Context) (s : Sym) (x : Str) (v : Sym) (h : Context.get? c x = some v) :
    Context.get? (Context.add c s) x = some v := by
  unfold Context.add
  by_cases hb : Context.contains c s.name = true
  · simp [hb, h]
  · have hne : s.name ≠ x := by
      intro e
      apply hb
      simp [Context.contains, e, h]
    simp only [Bool.false_or, hb, Bool.not_false, if_true, Bool.not_eq_true] at *
    cases c with
    | nil => simp [Context.get?] at h
    | cons sc r =>
      simp only [Context.get?] at h ⊢
      rw [Dict.get?_set_ne _ _ _ _ hne]
      exact h

/-- `Context.__setitem__` under another name keeps the binding. -/
theorem get?_setSym_of_ne (c : Context) (s : Sym) (x : Str) (hne : s.name ≠ x) :
    Context.get? (setSym c s) x = Context.get? c x := by
  cases c with
  | nil =>
    simp only [setSym, Context.get?, Dict.get?]
    simp [hne]
  | cons sc r =>
    simp only [setSym, Context.get?]
    rw [Dict.get?_set_ne _ _ _ _ hne]

theorem getLast?_star_id (q : Str) : (q ++ ".*".toList).getLast? = some '*' := by
  have : ".*".toList = ['.', '*'] := rfl
  rw [this]
  simp

/-- one re-exported symbol: a bound name that is not a star id keeps its meaning. -/
theorem get?_addStarSym_of_bound (P : Project) (q : Str) (c : Context) (y : Sym) (x : Str) (v : Sym)
    (hx : x.getLast? ≠ some '*') (h : Context.get? c x = some v) :
    Context.get? (addStarSym P q c y) x = some v := by
  unfold addStarSym
  simp only []
  split
  · rw [get?_setSym_of_ne]
    · exact h
    · intro e
      apply hx
      rw [← e]
      exact getLast?_star_id _
  · exact get?_add_of_bound _ _ _ _ h

theorem get?_foldl_addStarSym (P : Project) (q : Str) (x : Str) (v : Sym) (hx : x.getLast? ≠ some '*') :
    ∀ (ys : List Sym) (c : Context), Context.get? c x = some v →
      Context.get? (ys.foldl (addStarSym P q) c) x = some v := by
  intro ys
  induction ys with
  | nil => intro c h; exact h
  | cons y r ih => intro c h; exact ih _ (get?_addStarSym_of_bound P q c y x v hx h)

/-- the whole BFS of `expand_starred_imports`. -/
theorem expandLoop_keeps (P : Project) (x : Str) (v : Sym) (hx : x.getLast? ≠ some '*') :
    ∀ (fuel : Nat) (queue : List Sym) (seen : List Str) (s r : St),
      expandLoop P fuel queue seen s = .ok r → Context.get? s.ctx x = some v → Context.get? r.ctx x = some v := by
  intro fuel
  induction fuel with
  | zero => intro queue seen s r h; simp [expandLoop] at h
  | succ n ih =>
    intro queue seen s r h hb
    unfold expandLoop at h
    split at h
    · cases h; exact hb
    · cases h
    · split at h
      · cases h
      · cases h
      · exact ih _ _ _ _ h (get?_foldl_addStarSym P _ x v hx _ _ (by simpa [St.diagL] using hb))

/-- `compile_root_context(ast).expand_starred_imports()`: what the file's own root context binds
survives the expansion. -/
theorem rootOf_keeps (P : Project) (f : SrcFile) (r0 r : St) (x : Str) (v : Sym) (hx : x.getLast? ≠ some '*')
    (h0 : RootCtx.compile (factsOf P f) P.builtins f.body = .ok r0) (h : rootOf P f = .ok r)
    (hb : Context.get? r0.ctx x = some v) : Context.get? r.ctx x = some v := by
  unfold rootOf at h
  rw [h0] at h
  exact expandLoop_keeps P x v hx _ _ _ _ _ h hb

/-- `get_call_target` of a plain bound name (no call brackets, `*`, `@`, `[]`) is what the context binds. -/
theorem getCallTarget_bound (env : Context.Env) (c : Context) (callee : Str) (t : Sym) (b w : Bool)
    (hn : removeChar (withoutCallBrackets callee) '*' = callee)
    (hat : startsWith callee ['@'] = false) (hsub : containsSub callee (lit "[]") = false)
    (h : Context.get? c callee = some t) : (Context.getCallTarget env c callee b w).1 = some t := by
  unfold Context.getCallTarget
  simp only [hn, hat, hsub, h, Option.isNone_some, Bool.and_false, Bool.false_and, Bool.false_eq_true, if_false]
  split <;> (try split) <;> simp

end Rattr.C01Star

/-
  C07 — the crash-freedom induction: under the shape predicate of RattrModel.Crash, no member of the
  mutual block `visit / visitList / visitSortedKey / assignDiv / visitReturnValue / visitReturnElts`
  ends in `Res.crash`, for every state (hence every context), environment and module name.
-/
import RattrProofs.Lemmas.C07
namespace Rattr.C07
open Rattr Rattr.FnA Rattr.Crash

theorem calleeName_eq {n : Node} {b t : Str} (h : targetNameNoUnravel n = .ok b t) : calleeName n = t := by
  simp [calleeName, h]

theorem targetName_nc {f : Node} {args kwn kwv} (h : nameOk true f = true) :
    ∀ e, targetNameNoUnravel (.call f args kwn kwv) ≠ .crash e := by
  intro e he
  unfold targetNameNoUnravel at he
  simp only [] at he
  split at he
  · cases he
  · exact absurd he (nameOk_spec h _)

theorem noKeyLambda_cons {k : Str} {rn : List (Option Str)} {v : Node} {rv : List Node}
    (h : noKeyLambda (some k :: rn) (v :: rv) = true) :
    (k = "key".toList → isLambda v = false) ∧ noKeyLambda rn rv = true := by
  simp only [noKeyLambda, Bool.and_eq_true, Bool.not_eq_true', Bool.and_eq_false_iff, decide_eq_false_iff_not] at h
  refine ⟨fun hk => ?_, h.2⟩
  rcases h.1 with h1 | h1
  · exact absurd hk h1
  · exact h1


/-- what the call case needs to know about the first positional argument. -/
def HeadFacts (env : Env) (mn : Str) (l : List Node) : Prop :=
  ∀ a0 tail, l = a0 :: tail →
    (∀ t, NC (visit env mn a0 t)) ∧ (∀ ps body, a0 = .lam ps body → ∀ t, NC (visit env mn body t))

theorem call_nc (env : Env) (mn : Str) (f : Node) (args : List Node) (kwn : List (Option Str)) (kwv : List Node) (s : St)
    (hl : callLocalOk f args kwn kwv = true)
    (hargs : ∀ s, NC (visitList env mn args s)) (hkws : ∀ s, NC (visitList env mn kwv s))
    (hhead : HeadFacts env mn args)
    (hkey : ∀ r t, NC (visitSortedKey env mn r kwn kwv t)) :
    NC (visit env mn (.call f args kwn kwv) s) := by
  simp only [callLocalOk, Bool.and_eq_true] at hl
  obtain ⟨⟨⟨⟨⟨⟨hf, hnode⟩, hx⟩, _⟩, hfac⟩, hao⟩, hko⟩ := hl
  rw [visit.eq_def]
  refine nc_liftName (targetName_nc hf) (fun b tn htn => ?_)
  have hcn := calleeName_eq htn
  rw [hcn] at hx
  simp only []
  split
  · -- a custom analyser
    split
    · exact nc_dynamicName hx (fun s n => nc_ok _)
    · split
      · exact nc_dynamicName hx (fun s n => nc_ok _)
      · split
        · exact nc_dynamicName hx (fun s n => nc_ok _)
        · split
          · split
            · exact nc_ok _
            · have := (hhead _ _ rfl).1
              exact nc_bind (nc_protect (nc_bind (this _) (fun t => hkey _ t))) (fun t => nc_ok _)
          · split
            · split
              · exact nc_ok _
              · have hh := hhead _ _ rfl
                split
                · exact nc_bind (nc_protect (hh.2 _ _ rfl _)) (fun t => nc_ok _)
                · exact nc_defaultdictNamed (by simp [nameOk, namesOf])
                · exact nc_defaultdictNamed (by simpa [factoryOk] using hfac)
                · exact nc_bind (nc_protect (hh.1 _)) (fun t => nc_ok _)
            · exact nc_ok _
  · -- the ordinary call
    refine nc_getAndVerify hnode (fun s b fullname => ?_)
    repeat' split
    all_goals exact nc_mkCall hao hko (fun s c => nc_bind (hargs _) (fun s => hkws s))

/-- outcome of the assignment diversions is not a crash. -/
def ADone : AssignOut → Prop
  | .done r => NC r
  | .generic _ => True

/-- what the diversions need to know about a call on the right-hand side. -/
def CallFacts (env : Env) (mn : Str) (v : Node) : Prop :=
  ∀ f args kwn kwv, v = .call f args kwn kwv →
    (args.all (oldOk true) = true ∧ kwv.all (oldOk true) = true) ∧
    (∀ s, NC (visitList env mn args s)) ∧ (∀ s, NC (visitList env mn kwv s))

theorem firstTarget_spec {t : Node} {tl : List Node} {v : Node}
    (h : firstTargetOk (t :: tl) v = true) (h1 : oneToOne (t :: tl) v = true) : nameOk false t = true := by
  simpa [firstTargetOk, h1] using h

theorem lam_is_lam {targets : List Node} {v : Node} (hl : lambdaInRhs v = true)
    (h1 : oneToOne targets v = true) : ∃ ps b, v = .lam ps b := by
  cases v with
  | lam ps b => exact ⟨ps, b, rfl⟩
  | _ => simp_all [lambdaInRhs, oneToOne, isTupleOrList, isLambda]

theorem nt_is_call {targets : List Node} {v : Node} (hnt : namedtupleInRhs v = true)
    (h1 : oneToOne targets v = true) : ∃ f a kn kv, v = .call f a kn kv := by
  cases v with
  | call f a kn kv => exact ⟨f, a, kn, kv, rfl⟩
  | _ => simp_all [namedtupleInRhs, oneToOne, isTupleOrList]

theorem cls_is_call {env : Env} {c : Context} {targets : List Node} {v : Node}
    (hcl : classInRhs env c v = .ok true) (h1 : oneToOne targets v = true) : ∃ f a kn kv, v = .call f a kn kv := by
  cases v with
  | call f a kn kv => exact ⟨f, a, kn, kv, rfl⟩
  | _ => simp_all [classInRhs, oneToOne, isTupleOrList]

theorem assignDiv_gen_nc (env : Env) (mn : Str) (targets : List Node) (v : Node) (s : St)
    (ha : assignOk targets v = true) (hc : CallFacts env mn v) : ADone (assignDiv env mn targets v s) := by
  simp only [assignOk, Bool.and_eq_true] at ha
  obtain ⟨⟨⟨hft, hcp⟩, hun⟩, hcn⟩ := ha
  cases targets with
  | nil => simp [firstTargetOk] at hft
  | cons t tl =>
  rw [assignDiv.eq_def]
  simp only []
  by_cases hlam : lambdaInRhs v = true
  · rw [if_pos hlam]
    by_cases h1 : oneToOne (t :: tl) v = true
    · simp only [h1, Bool.not_true, Bool.false_eq_true, if_false]
      obtain ⟨ps, b, rfl⟩ := lam_is_lam hlam h1
      simp only []
      exact nc_liftName (nameOk_spec (firstTarget_spec hft h1)) (fun _ _ _ => nc_ok _)
    · simp only [Bool.not_eq_true] at h1
      simp only [h1, Bool.not_false, if_true]
      exact nc_fatal _ _
  · rw [if_neg hlam]
    by_cases hnt : namedtupleInRhs v = true
    · rw [if_pos hnt]
      by_cases h1 : oneToOne (t :: tl) v = true
      · simp only [h1, Bool.not_true, Bool.false_eq_true, if_false]
        obtain ⟨f, a, kn, kv, rfl⟩ := nt_is_call hnt h1
        simp only []
        refine nc_liftName (nameOk_spec (firstTarget_spec hft h1)) (fun _ _ _ => ?_)
        split <;> exact nc_ok _
      · simp only [Bool.not_eq_true] at h1
        simp only [h1, Bool.not_false, if_true]
        exact nc_fatal _ _
    · rw [if_neg hnt]
      cases hcl : classInRhs env s.ctx v with
      | fatal d => simp only []; exact nc_fatal _ _
      | crash e => exact absurd hcl (classInRhs_nc hcp e)
      | ok b =>
        cases b with
        | false =>
          simp only []
          have := nc_addIdentifiersL (t :: tl) s hun
          cases hr : addIdentifiersL s (t :: tl) with
          | ok s' => exact trivial
          | fatal s' d => exact nc_fatal _ _
          | crash s' e => exact absurd hr (this s' e)
        | true =>
          simp only []
          by_cases h1 : oneToOne (t :: tl) v = true
          · simp only [h1, Bool.not_true, Bool.false_eq_true, if_false]
            obtain ⟨f, a, kn, kv, rfl⟩ := cls_is_call hcl h1
            simp only []
            have hcf := hc f a kn kv rfl
            refine nc_liftName (nameOk_spec (firstTarget_spec hft h1)) (fun lb ln _ => ?_)
            refine nc_liftName (nameOk_spec (by simpa [h1] using hcn)) (fun _ cn _ => ?_)
            repeat' split
            all_goals exact nc_mkCall hcf.1.1 hcf.1.2 (fun s c =>
              nc_bind (nc_addIdentifiersL _ _ hun) (fun s => nc_bind (hcf.2.1 s) (fun s => hcf.2.2 s)))
          · simp only [Bool.not_eq_true] at h1
            simp only [h1, Bool.not_false, if_true]
            exact nc_fatal _ _

theorem ret_call_nc (env : Env) (mn : Str) (f : Node) (args : List Node) (kwn : List (Option Str)) (kwv : List Node)
    (s : St) (k : St → Bool → Res)
    (hr : nameOk false (.call f args kwn kwv) = true) (hl : callLocalOk f args kwn kwv = true)
    (hargs : ∀ s, NC (visitList env mn args s)) (hkws : ∀ s, NC (visitList env mn kwv s))
    (hk : ∀ s h, NC (k s h)) : NC (visitReturnValue env mn (.call f args kwn kwv) s k) := by
  simp only [callLocalOk, Bool.and_eq_true] at hl
  obtain ⟨⟨⟨⟨⟨⟨_, hnode⟩, _⟩, _⟩, _⟩, hao⟩, hko⟩ := hl
  rw [visitReturnValue.eq_def]
  simp only []
  split
  · exact hk _ _
  · refine nc_liftName (nameOk_spec hnode) (fun _ full _ => ?_)
    split
    · exact hk _ _
    · refine nc_liftName (nameOk_spec hr) (fun _ cn _ => ?_)
      repeat' split
      all_goals exact nc_mkCall hao hko (fun s c => nc_bind (hargs _) (fun s => nc_bind (hkws s) (fun s => hk s true)))

mutual
theorem visit_nc (env : Env) (mn : Str) : ∀ (n : Node) (s : St), okNode n = true → NC (visit env mn n s)
  | .name id c, s, _ => by
    rw [visit]
    exact nc_getAndVerify (by simp [nameOk, namesOf]) (fun s b f => nc_ok _)
  | .attr v a c, s, h => by
    rw [visit]
    simp only [okNode, Bool.and_eq_true, Bool.or_eq_true] at h
    refine nc_getAndVerify h.1 (fun s b f => nc_bind ?_ (fun s => nc_ok _))
    split
    · rename_i hv
      rcases h.2 with h2 | h2
      · simp [h2] at hv
      · exact visit_nc env mn v s h2
    · exact nc_ok _
  | .sub v sl c, s, h => by
    rw [visit]
    simp only [okNode, Bool.and_eq_true, Bool.or_eq_true] at h
    refine nc_getAndVerify h.1 (fun s b f => nc_bind ?_ (fun s => nc_ok _))
    split
    · rename_i hv
      rcases h.2 with h2 | h2
      · simp [h2] at hv
      · exact visit_nc env mn v s h2
    · exact nc_ok _
  | .starred v c, s, h => by
    rw [visit]
    simp only [okNode, Bool.and_eq_true, Bool.or_eq_true] at h
    refine nc_getAndVerify h.1 (fun s b f => nc_bind ?_ (fun s => nc_ok _))
    split
    · rename_i hv
      rcases h.2 with h2 | h2
      · simp [h2] at hv
      · exact visit_nc env mn v s h2
    · exact nc_ok _
  | .lam ps body, s, h => by
    rw [visit]
    simp only [okNode] at h
    exact nc_bind (visit_nc env mn body _ h) (fun s => nc_ok _)
  | .comp k elts gens, s, h => by
    rw [visit]
    simp only [okNode, Bool.and_eq_true] at h
    exact nc_bind (visitList_nc env mn gens _ h.1) (fun s => nc_bind (visitList_nc env mn elts s h.2) (fun s => nc_ok _))
  | .gen t iter ifs, s, h => by
    rw [visit]
    simp only [okNode, Bool.and_eq_true] at h
    exact nc_bind (nc_addIdentifiers h.1.1.1) (fun s => nc_bind (visit_nc env mn t s h.1.1.2)
      (fun s => nc_bind (visit_nc env mn iter s h.1.2) (fun s => visitList_nc env mn ifs s h.2)))
  | .strConst _, s, _ => by rw [visit]; exact nc_ok _
  | .const, s, _ => by rw [visit]; exact nc_ok _
  | .seq _ elts _, s, h => by
    rw [visit]; simp only [okNode] at h; exact visitList_nc env mn elts s h
  | .dict keys vals, s, h => by
    rw [visit]; simp only [okNode, Bool.and_eq_true] at h
    exact nc_bind (visitList_nc env mn keys s h.1) (fun s => visitList_nc env mn vals s h.2)
  | .delete targets, s, h => by
    rw [visit]; simp only [okNode, Bool.and_eq_true] at h
    exact nc_bind (visitList_nc env mn targets s h.2) (fun s => nc_removeIdentifiersL targets s h.1)
  | .forLoop t iter body orelse, s, h => by
    rw [visit]; simp only [okNode, Bool.and_eq_true] at h
    exact nc_bind (nc_addIdentifiers h.1.1.1.1) (fun s => nc_bind (visit_nc env mn t s h.1.1.1.2)
      (fun s => nc_bind (visit_nc env mn iter s h.1.1.2) (fun s => nc_bind (visitList_nc env mn body s h.1.2)
        (fun s => visitList_nc env mn orelse s h.2))))
  | .withStmt items body, s, h => by
    rw [visit]; simp only [okNode, Bool.and_eq_true] at h
    exact nc_bind (nc_withRegister items s h.1.1) (fun s => nc_bind (visitList_nc env mn items s h.1.2)
      (fun s => visitList_nc env mn body s h.2))
  | .withitem ce vars, s, h => by
    rw [visit]; simp only [okNode, Bool.and_eq_true] at h
    exact nc_bind (visit_nc env mn ce s h.1) (fun s => visitList_nc env mn vars s h.2)
  | .funcDef name ps body, s, h => by
    rw [visit]; simp only [okNode] at h
    exact nc_bind (visitList_nc env mn body _ h) (fun s => nc_ok _)
  | .classDef _, s, _ => by rw [visit]; exact nc_ok _
  | .forbidden k, s, _ => by rw [visit]; exact nc_fatal _ _
  | .other _ kids, s, h => by
    rw [visit]; simp only [okNode] at h; exact visitList_nc env mn kids s h
  | .ret [], s, _ => by rw [visit]; exact nc_ok _
  | .ret (v0 :: r), s, h => by
    rw [visit]; simp only [okNode, Bool.and_eq_true] at h
    exact visitReturnValue_nc env mn v0 s _ h.1 h.2 (fun s hd => nc_ite (nc_ok _) (visit_nc env mn v0 s h.2))
  | .assign targets v, s, h => by
    rw [visit]; simp only [okNode, Bool.and_eq_true] at h
    have := assignDiv_nc env mn targets v s h.1.1 h.2
    split
    · rename_i r hr; rw [hr] at this; exact this
    · exact nc_bind (visitList_nc env mn targets _ h.1.2) (fun s => visit_nc env mn v s h.2)
  | .augAssign t v, s, h => by
    rw [visit]; simp only [okNode, Bool.and_eq_true] at h
    have := assignDiv_nc env mn [t] v s h.1.1 h.2
    split
    · rename_i r hr; rw [hr] at this; exact this
    · exact nc_bind (visit_nc env mn t _ h.1.2) (fun s => visit_nc env mn v s h.2)
  | .annAssign t ann [], s, h => by
    rw [visit]; simp only [okNode, Bool.and_eq_true] at h
    exact nc_bind (nc_addIdentifiers h.1.1) (fun s => nc_bind (visit_nc env mn t s h.1.2) (fun s => visit_nc env mn ann s h.2))
  | .annAssign t ann (v0 :: r), s, h => by
    rw [visit]; simp only [okNode, Bool.and_eq_true] at h
    have := assignDiv_nc env mn [t] v0 s h.1.1.1 h.2
    split
    · rename_i r hr; rw [hr] at this; exact this
    · exact nc_bind (visit_nc env mn t _ h.1.1.2) (fun s => nc_bind (visit_nc env mn ann s h.1.2) (fun s => visit_nc env mn v0 s h.2))
  | .walrus t v, s, h => by
    rw [visit]; simp only [okNode, Bool.and_eq_true] at h
    refine nc_liftName (nameOk_spec h.1.1.1) (fun b f _ => ?_)
    refine nc_bind (nc_ite (visit_nc env mn v _ h.2) (nc_ok _)) (fun s => ?_)
    have := assignDiv_nc env mn [t] v s h.1.1.2 h.2
    split
    · rename_i r hr; rw [hr] at this; exact this
    · exact nc_bind (visit_nc env mn t _ h.1.2) (fun s => visit_nc env mn v s h.2)
  | .call f args kwn kwv, s, h => by
    simp only [okNode, Bool.and_eq_true] at h
    have hf := headFacts_nc env mn args h.1.2
    exact call_nc env mn f args kwn kwv s h.1.1 (fun s => visitList_nc env mn args s h.1.2)
      (fun s => visitList_nc env mn kwv s h.2) hf
      (fun r t => visitSortedKey_nc env mn r kwn kwv t (by
        simp only [callLocalOk, Bool.and_eq_true] at h; exact h.1.1.1.1.1.2) h.2)

theorem visitList_nc (env : Env) (mn : Str) : ∀ (l : List Node) (s : St), okList l = true → NC (visitList env mn l s)
  | [], s, _ => by rw [visitList]; exact nc_ok _
  | n :: r, s, h => by
    rw [visitList]; simp only [okList, Bool.and_eq_true] at h
    exact nc_bind (visit_nc env mn n s h.1) (fun s => visitList_nc env mn r s h.2)

theorem lamBody_nc (env : Env) (mn : Str) : ∀ (n : Node), okNode n = true →
    ∀ ps body, n = .lam ps body → ∀ t, NC (visit env mn body t)
  | .lam ps body, h, _, _, rfl, t => by
    simp only [okNode] at h; exact visit_nc env mn body t h
  | .name .., _, _, _, he, _ | .attr .., _, _, _, he, _ | .sub .., _, _, _, he, _ | .starred .., _, _, _, he, _
  | .call .., _, _, _, he, _ | .comp .., _, _, _, he, _ | .gen .., _, _, _, he, _ | .walrus .., _, _, _, he, _
  | .strConst .., _, _, _, he, _ | .const, _, _, _, he, _ | .seq .., _, _, _, he, _ | .dict .., _, _, _, he, _
  | .assign .., _, _, _, he, _ | .annAssign .., _, _, _, he, _ | .augAssign .., _, _, _, he, _ | .delete .., _, _, _, he, _
  | .forLoop .., _, _, _, he, _ | .withStmt .., _, _, _, he, _ | .withitem .., _, _, _, he, _ | .funcDef .., _, _, _, he, _
  | .classDef .., _, _, _, he, _ | .ret .., _, _, _, he, _ | .forbidden .., _, _, _, he, _ | .other .., _, _, _, he, _ => by
    cases he

theorem headFacts_nc (env : Env) (mn : Str) : ∀ (l : List Node), okList l = true → HeadFacts env mn l
  | [], _ => by intro a0 tail he; cases he
  | a0 :: tail, h => by
    simp only [okList, Bool.and_eq_true] at h
    intro a0' tail' he
    cases he
    exact ⟨fun t => visit_nc env mn a0 t h.1, lamBody_nc env mn a0 h.1⟩

theorem visitSortedKey_nc (env : Env) (mn : Str) (r : NameRes) : ∀ (kwn : List (Option Str)) (kwv : List Node) (t : St),
    noKeyLambda kwn kwv = true → okList kwv = true → NC (visitSortedKey env mn r kwn kwv t)
  | [], _, t, _, _ => by unfold visitSortedKey; exact nc_ok _
  | some k :: rn, [], t, _, _ => by unfold visitSortedKey; exact nc_ok _
  | none :: rn, [], t, _, _ => by unfold visitSortedKey; exact nc_ok _
  | none :: rn, v :: rv, t, hk, hl => by
    unfold visitSortedKey
    simp only [okList, Bool.and_eq_true] at hl
    exact visitSortedKey_nc env mn r rn rv t (by simpa [noKeyLambda] using hk) hl.2
  | some k :: rn, v :: rv, t, hk, hl => by
    unfold visitSortedKey
    simp only [okList, Bool.and_eq_true] at hl
    have hk' := noKeyLambda_cons hk
    split
    · rename_i hkey
      have hv := hk'.1 hkey
      split
      · simp [isLambda] at hv
      · exact visit_nc env mn v t hl.1
    · exact visitSortedKey_nc env mn r rn rv t hk'.2 hl.2

theorem assignDiv_nc (env : Env) (mn : Str) : ∀ (targets : List Node) (v : Node) (s : St),
    assignOk targets v = true → okNode v = true →
    ADone (assignDiv env mn targets v s)
  | targets, .call f args kwn kwv, s, ha, hv => by
    simp only [okNode, Bool.and_eq_true] at hv
    refine assignDiv_gen_nc env mn targets _ s ha (fun f' a' kn' kv' he => ?_)
    cases he
    simp only [callLocalOk, Bool.and_eq_true] at hv
    exact ⟨⟨hv.1.1.1.2, hv.1.1.2⟩, fun s => visitList_nc env mn args s hv.1.2, fun s => visitList_nc env mn kwv s hv.2⟩
  | targets, .name a b, s, ha, _ => assignDiv_gen_nc env mn targets _ s ha (by intro _ _ _ _ he; cases he)
  | targets, .attr .., s, ha, _ => assignDiv_gen_nc env mn targets _ s ha (by intro _ _ _ _ he; cases he)
  | targets, .sub .., s, ha, _ => assignDiv_gen_nc env mn targets _ s ha (by intro _ _ _ _ he; cases he)
  | targets, .starred .., s, ha, _ => assignDiv_gen_nc env mn targets _ s ha (by intro _ _ _ _ he; cases he)
  | targets, .lam .., s, ha, _ => assignDiv_gen_nc env mn targets _ s ha (by intro _ _ _ _ he; cases he)
  | targets, .comp .., s, ha, _ => assignDiv_gen_nc env mn targets _ s ha (by intro _ _ _ _ he; cases he)
  | targets, .gen .., s, ha, _ => assignDiv_gen_nc env mn targets _ s ha (by intro _ _ _ _ he; cases he)
  | targets, .walrus .., s, ha, _ => assignDiv_gen_nc env mn targets _ s ha (by intro _ _ _ _ he; cases he)
  | targets, .strConst .., s, ha, _ => assignDiv_gen_nc env mn targets _ s ha (by intro _ _ _ _ he; cases he)
  | targets, .const, s, ha, _ => assignDiv_gen_nc env mn targets _ s ha (by intro _ _ _ _ he; cases he)
  | targets, .seq .., s, ha, _ => assignDiv_gen_nc env mn targets _ s ha (by intro _ _ _ _ he; cases he)
  | targets, .dict .., s, ha, _ => assignDiv_gen_nc env mn targets _ s ha (by intro _ _ _ _ he; cases he)
  | targets, .assign .., s, ha, _ => assignDiv_gen_nc env mn targets _ s ha (by intro _ _ _ _ he; cases he)
  | targets, .annAssign .., s, ha, _ => assignDiv_gen_nc env mn targets _ s ha (by intro _ _ _ _ he; cases he)
  | targets, .augAssign .., s, ha, _ => assignDiv_gen_nc env mn targets _ s ha (by intro _ _ _ _ he; cases he)
  | targets, .delete .., s, ha, _ => assignDiv_gen_nc env mn targets _ s ha (by intro _ _ _ _ he; cases he)
  | targets, .forLoop .., s, ha, _ => assignDiv_gen_nc env mn targets _ s ha (by intro _ _ _ _ he; cases he)
  | targets, .withStmt .., s, ha, _ => assignDiv_gen_nc env mn targets _ s ha (by intro _ _ _ _ he; cases he)
  | targets, .withitem .., s, ha, _ => assignDiv_gen_nc env mn targets _ s ha (by intro _ _ _ _ he; cases he)
  | targets, .funcDef .., s, ha, _ => assignDiv_gen_nc env mn targets _ s ha (by intro _ _ _ _ he; cases he)
  | targets, .classDef .., s, ha, _ => assignDiv_gen_nc env mn targets _ s ha (by intro _ _ _ _ he; cases he)
  | targets, .ret .., s, ha, _ => assignDiv_gen_nc env mn targets _ s ha (by intro _ _ _ _ he; cases he)
  | targets, .forbidden .., s, ha, _ => assignDiv_gen_nc env mn targets _ s ha (by intro _ _ _ _ he; cases he)
  | targets, .other .., s, ha, _ => assignDiv_gen_nc env mn targets _ s ha (by intro _ _ _ _ he; cases he)

theorem visitReturnValue_nc (env : Env) (mn : Str) : ∀ (n : Node) (s : St) (k : St → Bool → Res),
    okRet n = true → okNode n = true → (∀ s h, NC (k s h)) → NC (visitReturnValue env mn n s k)
  | .seq _ elts _, s, k, hr, _, hk => by
    rw [visitReturnValue]; simp only [okRet] at hr
    exact nc_bind (visitReturnElts_nc env mn elts s hr) (fun s => hk s true)
  | .dict keys vals, s, k, hr, _, hk => by
    rw [visitReturnValue]; simp only [okRet, Bool.and_eq_true] at hr
    exact nc_bind (visitReturnElts_nc env mn keys s hr.1) (fun s => nc_bind (visitReturnElts_nc env mn vals s hr.2) (fun s => hk s true))
  | .call f args kwn kwv, s, k, hr, hn, hk => by
    simp only [okNode, Bool.and_eq_true] at hn
    simp only [okRet] at hr
    exact ret_call_nc env mn f args kwn kwv s k hr hn.1.1 (fun s => visitList_nc env mn args s hn.1.2)
      (fun s => visitList_nc env mn kwv s hn.2) hk
  | .name .., s, k, _, _, hk | .attr .., s, k, _, _, hk | .sub .., s, k, _, _, hk | .starred .., s, k, _, _, hk
  | .lam .., s, k, _, _, hk | .comp .., s, k, _, _, hk | .gen .., s, k, _, _, hk | .walrus .., s, k, _, _, hk
  | .strConst .., s, k, _, _, hk | .const, s, k, _, _, hk
  | .assign .., s, k, _, _, hk | .annAssign .., s, k, _, _, hk | .augAssign .., s, k, _, _, hk | .delete .., s, k, _, _, hk
  | .forLoop .., s, k, _, _, hk | .withStmt .., s, k, _, _, hk | .withitem .., s, k, _, _, hk | .funcDef .., s, k, _, _, hk
  | .classDef .., s, k, _, _, hk | .ret .., s, k, _, _, hk | .forbidden .., s, k, _, _, hk | .other .., s, k, _, _, hk => by
    unfold visitReturnValue; exact hk s false

theorem visitReturnElts_nc (env : Env) (mn : Str) : ∀ (l : List Node) (s : St),
    okRetList l = true → NC (visitReturnElts env mn l s)
  | [], s, _ => by rw [visitReturnElts]; exact nc_ok _
  | e :: r, s, h => by
    rw [visitReturnElts]; simp only [okRetList, Bool.and_eq_true] at h
    exact nc_bind (visitReturnValue_nc env mn e s _ h.1.1 h.1.2 (fun s hd => nc_ite (nc_ok _) (visit_nc env mn e s h.1.2)))
      (fun s => visitReturnElts_nc env mn r s h.2)
end
end Rattr.C07

/-
  Lemmas for the import walk (RattrModel/ImportWalk.lean): the invariant `Inv` — every logged call of
  `derive_absolute_module_name` / `compile_root_context` ran under the current file it belongs to, and
  the log is one run through one cache — is preserved by every step of the walk, provided the
  star-expansion enters a star-imported file under its path as spelled (`Spelled sc`: true of the
  current code, false of the code before 58a9012 behind a symbolic link — Props/C13).
-/
import RattrModel.ImportWalk

namespace Rattr.Walk
open Rattr Rattr.Locator

/-- the cache after a sequence of calls -/
def memoAfter : Memo → List RelCall → Memo
  | m, [] => m
  | m, c :: cs => memoAfter (deriveAbsM m c.isInit c.base c.target c.level).2 cs

theorem memoAfter_append (m : Memo) (cs : List RelCall) (c : RelCall) :
    memoAfter m (cs ++ [c]) = (deriveAbsM (memoAfter m cs) c.isInit c.base c.target c.level).2 := by
  induction cs generalizing m with
  | nil => rfl
  | cons d ds ih => simp only [List.cons_append, memoAfter]; exact ih _

theorem runCalls_append (m : Memo) (cs : List RelCall) (c : RelCall) :
    runCalls m (cs ++ [c]) = runCalls m cs ++ [(deriveAbsM (memoAfter m cs) c.isInit c.base c.target c.level).1] := by
  induction cs generalizing m with
  | nil => simp [runCalls, memoAfter]
  | cons d ds ih => simp only [List.cons_append, runCalls, memoAfter]; rw [ih]

/-- what is true of one logged call of `derive_absolute_module_name` -/
structure RecGood (P : Proj) (r : Rec) : Prop where
  /-- the current file is the file whose statement is being registered -/
  file  : r.cur.path = r.file
  stem  : r.cur.stem = r.stem
  init  : r.call.isInit = r.cur.isInit
  level : 1 ≤ r.call.level
  base  : deriveModuleNameFromPath P.env (curComps P r.cur) = some r.call.base

structure Inv (P : Proj) (s : St) : Prop where
  recs    : ∀ r, r ∈ s.trace → RecGood P r
  evs     : ∀ e, e ∈ s.events → e.cur.path = e.file.path ∧ e.cur.stem = e.file.stem
  memo    : s.memo = memoAfter [] (s.trace.map (·.call))
  results : s.trace.map (·.result) = runCalls [] (s.trace.map (·.call))

theorem Inv.init (P : Proj) : Inv P {} :=
  ⟨fun _ h => absurd h List.not_mem_nil, fun _ h => absurd h List.not_mem_nil, rfl, rfl⟩

/-- `Inv` does not look at `cur` / `diags` -/
theorem Inv.of_same {P : Proj} {s s' : St} (h : Inv P s) (ht : s'.trace = s.trace) (he : s'.events = s.events)
    (hm : s'.memo = s.memo) : Inv P s' :=
  ⟨by rw [ht]; exact h.recs, by rw [he]; exact h.evs, by rw [hm, ht]; exact h.memo, by rw [ht]; exact h.results⟩

theorem Inv.diag {P : Proj} {s : St} (h : Inv P s) (l : Lvl) (t : String) (n : Option Nat) : Inv P (s.diag l t n) :=
  h.of_same rfl rfl rfl

theorem Inv.setCur {P : Proj} {s : St} (h : Inv P s) (c : Option Cur) : Inv P { s with cur := c } :=
  h.of_same rfl rfl rfl

/-- `Good P c o`: the outcome keeps the invariant and, when it continues, the current file -/
def Good {α : Type} (P : Proj) (c : Cur) (o : Out α) : Prop :=
  Inv P o.st ∧ ∀ a s', o = .ok a s' → s'.cur = some c

theorem Good.ok {α : Type} {P : Proj} {c : Cur} {a : α} {s : St} (h : Inv P s) (hc : s.cur = some c) :
    Good P c (Out.ok a s) :=
  ⟨h, by intro a' s' he; cases he; exact hc⟩

theorem Good.stop {α : Type} {P : Proj} {c : Cur} {w : Stop} {s : St} (h : Inv P s) :
    Good P c (Out.stop (α := α) w s) :=
  ⟨h, by intro a' s' he; cases he⟩

theorem Good.bind {α β : Type} {P : Proj} {c : Cur} {o : Out α} {k : α → St → Out β}
    (ho : Good P c o) (hk : ∀ a s', o = .ok a s' → Good P c (k a s')) : Good P c (o.bind k) := by
  cases o with
  | ok a s' => exact hk a s' rfl
  | stop w s' => exact ⟨ho.1, by intro a s'' he; cases he⟩

/-- walk level: only the invariant -/
theorem inv_bind {α β : Type} {P : Proj} {o : Out α} {k : α → St → Out β}
    (ho : Inv P o.st) (hk : ∀ a s', o = .ok a s' → Inv P (k a s').st) : Inv P (o.bind k).st := by
  cases o with
  | ok a s' => exact hk a s' rfl
  | stop w s' => exact ho

/-! ### the visitors -/

theorem addImport_good (P : Proj) (c : Cur) (line : Nat) (name qual m : Dotted) (t : Tab) (s : St)
    (h : Inv P s) (hc : s.cur = some c) : Good P c (addImport P c line name qual m t s) := by
  unfold addImport
  split
  · exact Good.stop (h.diag ..)
  · exact Good.ok h hc

theorem addFromNames_good (P : Proj) (c : Cur) (line : Nat) (m : Dotted) (names : List (Str × Option Str))
    (t : Tab) (s : St) (h : Inv P s) (hc : s.cur = some c) : Good P c (addFromNames P c line m names t s) := by
  induction names generalizing t s with
  | nil => exact Good.ok h hc
  | cons na r ih =>
    obtain ⟨n, a⟩ := na
    simp only [addFromNames]
    have h1 := addImport_good P c line [a.getD n] (m ++ [n]) m t s h hc
    refine Good.bind h1 ?_
    intro t' s' he
    have hs' : Inv P s' := by have := h1.1; rw [he] at this; exact this
    exact ih t' s' hs' (h1.2 t' s' he)

theorem addResolved_good (P : Proj) (c : Cur) (line : Nat) (st : Bool) (a : Dotted)
    (names : List (Str × Option Str)) (t : Tab) (s : St) (h : Inv P s) (hc : s.cur = some c) :
    Good P c (addResolved P c line st a names t s) := by
  unfold addResolved
  split
  · exact addImport_good P c line _ _ _ t s h hc
  · exact addFromNames_good P c line a names t s h hc

/-- the one step that touches the cache and the log -/
theorem resolveRel_inv (P : Proj) (f : File) (c : Cur) (base : Dotted) (module : Option Dotted) (level : Nat)
    (s : St) (h : Inv P s) (hp : c.path = f.path) (hst : c.stem = f.stem) (hl : 1 ≤ level)
    (hb : deriveModuleNameFromPath P.env (curComps P c) = some base) :
    Inv P (resolveRel f c base module level s).2 ∧ (resolveRel f c base module level s).2.cur = s.cur := by
  refine ⟨?_, rfl⟩
  constructor
  · intro r hr
    simp only [resolveRel, List.mem_append, List.mem_singleton] at hr
    rcases hr with hr | hr
    · exact h.recs r hr
    · subst hr
      exact ⟨hp, hst, rfl, hl, hb⟩
  · exact h.evs
  · simp only [resolveRel, List.map_append, List.map_cons, List.map_nil]
    rw [memoAfter_append, ← h.memo]
  · simp only [resolveRel, List.map_append, List.map_cons, List.map_nil]
    rw [runCalls_append, ← h.memo, h.results]

theorem relDiag_inv {P : Proj} {s : St} (h : Inv P s) (st : Bool) (line : Nat) (found : Bool) :
    Inv P (relDiag st line found s) ∧ (relDiag st line found s).cur = s.cur := by
  unfold relDiag
  split
  · exact ⟨h, rfl⟩
  · exact ⟨h.diag .., rfl⟩

theorem starWarn_inv {P : Proj} {s : St} (h : Inv P s) (st : Bool) (c : Cur) (line : Nat) :
    Inv P (starWarn st c line s) ∧ (starWarn st c line s).cur = s.cur := by
  unfold starWarn
  split
  · exact ⟨h.diag .., rfl⟩
  · exact ⟨h, rfl⟩

theorem visitRel_good (P : Proj) (f : File) (c : Cur) (line level : Nat) (module : Option Dotted)
    (names : List (Str × Option Str)) (st : Bool) (t : Tab) (s : St)
    (h : Inv P s) (hc : s.cur = some c) (hp : c.path = f.path) (hst : c.stem = f.stem) (hl : 1 ≤ level) :
    Good P c (visitRel P f c line level module names st t s) := by
  unfold visitRel
  split
  · exact Good.stop (h.diag ..)
  · rename_i base hb
    obtain ⟨hi, hcur⟩ := resolveRel_inv P f c base module level s h hp hst hl hb
    simp only
    have hd := relDiag_inv hi st line (findModuleNameAndSpec P.env (resolveRel f c base module level s).1).isSome
    split
    · exact Good.stop hd.1
    · exact addResolved_good P c line st _ names t _ hd.1 (by rw [hd.2, hcur, hc])

theorem visitFrom_good (P : Proj) (f : File) (c : Cur) (line level : Nat) (module : Option Dotted)
    (names : List (Str × Option Str)) (t : Tab) (s : St)
    (h : Inv P s) (hc : s.cur = some c) (hp : c.path = f.path) (hst : c.stem = f.stem) :
    Good P c (visitFrom P f c line level module names t s) := by
  unfold visitFrom
  simp only
  have hw := starWarn_inv h (isStarred names) c line
  split
  · exact Good.stop h
  · split
    · rename_i hlv
      have hl : 1 ≤ level := by
        cases level with
        | zero => simp at hlv
        | succ n => omega
      exact visitRel_good P f c line level module names _ t _ hw.1 (by rw [hw.2, hc]) hp hst hl
    · split
      · exact Good.stop (hw.1.diag ..)
      · exact addResolved_good P c line _ _ names t _ hw.1 (by rw [hw.2, hc])

theorem register_good (P : Proj) (f : File) (c : Cur) (stmt : Stmt) (t : Tab) (s : St)
    (h : Inv P s) (hc : s.cur = some c) (hp : c.path = f.path) (hst : c.stem = f.stem) :
    Good P c (register P f stmt t s) := by
  unfold register
  rw [hc]
  cases stmt with
  | def_ line name => exact Good.ok h hc
  | imp line m a => exact addImport_good P c line _ m m t s h hc
  | from_ line level m names => exact visitFrom_good P f c line level m names t s h hc hp hst

theorem registerAll_good (P : Proj) (f : File) (c : Cur) (stmts : List Stmt) (t : Tab) (s : St)
    (h : Inv P s) (hc : s.cur = some c) (hp : c.path = f.path) (hst : c.stem = f.stem) :
    Good P c (registerAll P f stmts t s) := by
  induction stmts generalizing t s with
  | nil => exact Good.ok h hc
  | cons st r ih =>
    simp only [registerAll]
    have h1 := register_good P f c st t s h hc hp hst
    refine Good.bind h1 ?_
    intro t' s' he
    have hs' : Inv P s' := by have := h1.1; rw [he] at this; exact this
    exact ih t' s' hs' (h1.2 t' s' he)

/-- a completed `compile_root_context` is logged with a current file that IS the compiled file,
provided its caller set it so -/
theorem compileRoot_good (P : Proj) (f : File) (c : Cur) (s : St)
    (h : Inv P s) (hc : s.cur = some c) (hp : c.path = f.path) (hst : c.stem = f.stem) :
    Good P c (compileRoot P f s) := by
  unfold compileRoot
  have h1 := registerAll_good P f c f.stmts [] s h hc hp hst
  refine Good.bind h1 ?_
  intro t' s' he
  have hs' : Inv P s' := by have := h1.1; rw [he] at this; exact this
  have hc' := h1.2 t' s' he
  simp only [hc']
  refine Good.ok ?_ (by first | rfl | exact hc')
  exact ⟨hs'.recs,
    by
      intro e hmem
      simp only [List.mem_append, List.mem_singleton] at hmem
      rcases hmem with hmem | hmem
      · exact hs'.evs e hmem
      · subst hmem; exact ⟨hp, hst⟩,
    hs'.memo, hs'.results⟩

/-! ### `enter_file` and the three call sites -/

theorem enter_inv {α : Type} (P : Proj) (c : Cur) (body : St → Out α) (s : St)
    (hb : Inv P (body { s with cur := some c }).st) : Inv P (enter c body s).st := by
  unfold enter
  simp only
  split
  · rename_i a s' he
    rw [he] at hb
    exact Inv.setCur hb _
  · rename_i w s' he
    rw [he] at hb
    exact hb

theorem curOf_path (abs : Bool) (f : File) : (curOf abs f).path = f.path := rfl
theorem curOf_stem (abs : Bool) (f : File) : (curOf abs f).stem = f.stem := rfl

theorem enter_compile_inv (P : Proj) (abs : Bool) (g : File) (s : St) (h : Inv P s) :
    Inv P (enter (curOf abs g) (compileRoot P g) s).st :=
  enter_inv P _ _ s (compileRoot_good P g (curOf abs g) _ (h.setCur _) rfl rfl rfl).1

theorem expandLoop_inv (P : Proj) (sc : StarCur) (hsc : Spelled sc) (fuel : Nat) (q : List Sym) (seen : List Path)
    (t : Tab) (s : St) (h : Inv P s) : Inv P (expandLoop P sc fuel q seen t s).st := by
  induction fuel generalizing q seen t s with
  | zero =>
    cases q with
    | nil => exact h
    | cons a r => exact h
  | succ n ih =>
    cases q with
    | nil => exact h
    | cons sd r =>
      simp only [expandLoop]
      split
      · split
        · exact ih _ _ _ _ (h.diag ..)
        · exact h
      · exact h
      · rename_i g _
        split
        · exact ih _ _ _ _ h
        · have h1 : Inv P (enter (sc g) (compileRoot P g) s).st :=
            enter_inv P _ _ s (compileRoot_good P g (sc g) _ (h.setCur _) rfl (hsc g).1 (hsc g).2).1
          refine inv_bind h1 ?_
          intro t' s' he
          have hs' : Inv P s' := by rw [he] at h1; exact h1
          exact ih _ _ _ _ hs'

theorem expand_inv (P : Proj) (sc : StarCur) (hsc : Spelled sc) (fuel : Nat) (t : Tab) (s : St) (h : Inv P s) :
    Inv P (expand P sc fuel t s).st :=
  expandLoop_inv P sc hsc fuel _ _ t s h

theorem followLoop_inv (P : Proj) (sc : StarCur) (hsc : Spelled sc) (xfuel fuel : Nat) (q : List Sym) (seen : List Path)
    (irs : Irs) (s : St) (h : Inv P s) : Inv P (followLoop P sc xfuel fuel q seen irs s).st := by
  induction fuel generalizing q seen irs s with
  | zero =>
    cases q with
    | nil => exact h
    | cons a r => exact h
  | succ n ih =>
    cases q with
    | nil => exact h
    | cons i r =>
      simp only [followLoop]
      split
      · exact ih _ _ _ _ (h.diag ..)
      · split
        · exact ih _ _ _ _ (h.diag ..)
        · split
          · exact ih _ _ _ _ h
          · split
            · exact h
            · rename_i g _
              have h1 : Inv P (enter (curOf true g)
                  (fun s => (compileRoot P g s).bind fun t s => expand P sc xfuel t s) s).st := by
                apply enter_inv
                have hc := compileRoot_good P g (curOf true g) _ (h.setCur (some (curOf true g))) rfl rfl rfl
                refine inv_bind hc.1 ?_
                intro t' s' he
                have hs' : Inv P s' := by have := hc.1; rw [he] at this; exact this
                exact expand_inv P sc hsc xfuel t' s' hs'
              refine inv_bind h1 ?_
              intro t' s' he
              have hs' : Inv P s' := by rw [he] at h1; exact h1
              exact ih _ _ _ _ hs'
        · exact h

/-- the whole walk keeps the invariant -/
theorem runWith_inv (P : Proj) (sc : StarCur) (hsc : Spelled sc) (fuel : Nat) (tgt : File) :
    Inv P (runWith P sc fuel tgt).st := by
  unfold runWith
  apply enter_inv
  have hc := compileRoot_good P tgt (curOf false tgt) { ({} : St) with cur := some (curOf false tgt) }
    ((Inv.init P).setCur _) rfl rfl rfl
  refine inv_bind hc.1 ?_
  intro t s he
  have hs : Inv P s := by have := hc.1; rw [he] at this; exact this
  have h2 := expand_inv P sc hsc fuel t s hs
  refine inv_bind h2 ?_
  intro t2 s2 he2
  have hs2 : Inv P s2 := by rw [he2] at h2; exact h2
  have h3 := followLoop_inv P sc hsc fuel fuel t2.imports [] [] s2 hs2
  refine inv_bind h3 ?_
  intro irs s3 he3
  rw [he3] at h3
  exact h3

/-- the whole walk of the current code keeps the invariant, for every project (links included: since
58a9012 every file is entered under its path as spelled below the search root) -/
theorem run_inv (P : Proj) (fuel : Nat) (tgt : File) : Inv P (run P fuel tgt).st :=
  runWith_inv P (curOf true) spelled_curOf fuel tgt

end Rattr.Walk

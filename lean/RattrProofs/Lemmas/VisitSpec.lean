/-
  A small independent specification of "what a function body accesses" over the model AST
  (`Rattr.Node`), shared by C01 (lower bound) and C02 (upper bound).

  It is the Lean counterpart of `py/props/accessspec.py`, written from the README / the property
  text and NOT from the visitor: ONE uniform recursion that descends into every child of every
  node.  Not covered by this small spec (and said so in C01/C02): the getattr-family rule
  ("`getattr(o, 'lit')` counts as the access `o.lit`") — a getattr-family call is specified here
  like any other call; the findings about that family are separate counterexample theorems.
-/
import RattrProofs.Lemmas.Visit

namespace Rattr.AccessSpec
open Rattr Rattr.Strs

inductive Kind where
  | get | set | del | call
  deriving DecidableEq, Repr

def kindOf : ECtx → Kind
  | .load => .get
  | .store => .set
  | .del => .del

structure Access where
  kind : Kind
  name : Str
  base : Str
  deriving DecidableEq, Repr

/-- README spelling: `x | E.a | E[] | *E | E() | @Kind`. -/
def spell : Node → Str
  | .name id _ => id
  | .attr v a _ => spell v ++ ['.'] ++ a
  | .sub v _ _ => spell v ++ ['[', ']']
  | .starred v _ => ['*'] ++ spell v
  | .call f _ _ _ => spell f ++ ['(', ')']
  | n => '@' :: n.className

/-- the identifier (or `@Kind` stand-in) a nameable expression is rooted at. -/
def baseOf : Node → Str
  | .name id _ => id
  | .attr v _ _ => baseOf v
  | .sub v _ _ => baseOf v
  | .starred v _ => baseOf v
  | .call f _ _ _ => baseOf f
  | n => '@' :: n.className

mutual
/-- Every access of the sub-tree `n`. `onSpine = true` when `n` is the `.value` of a nameable
expression or the `.func` of a call (then `n` itself is not a separate access — except that a call
is ALWAYS reported, also as an inner link of a chain). Nested `def` / `lambda` / `class` are
documented as unsupported and exempt. -/
def accesses (onSpine : Bool) : Node → List Access
  | .name id c => if onSpine then [] else [⟨kindOf c, id, id⟩]
  | .attr v a c =>
    (if onSpine then [] else [⟨kindOf c, spell (.attr v a c), baseOf v⟩]) ++ accesses true v
  | .sub v sl c =>
    (if onSpine then [] else [⟨kindOf c, spell (.sub v sl c), baseOf v⟩]) ++ accesses true v ++
      accesses false sl
  | .starred v c =>
    (if onSpine then [] else [⟨kindOf c, spell (.starred v c), baseOf v⟩]) ++ accesses true v
  | .call f args _ kwv =>
    ⟨.call, withoutCallBrackets (spell f), baseOf f⟩ :: accesses true f ++ accessesL args ++ accessesL kwv
  | .lam _ _ => []
  | .comp _ elts gens => accessesL gens ++ accessesL elts
  | .gen t it ifs => accesses false t ++ accesses false it ++ accessesL ifs
  | .walrus t v => accesses false t ++ accesses false v
  | .strConst _ => []
  | .const => []
  | .seq _ elts _ => accessesL elts
  | .dict ks vs => accessesL ks ++ accessesL vs
  | .assign ts v => accessesL ts ++ accesses false v
  | .annAssign t ann v => accesses false t ++ accesses false ann ++ accessesL v
  | .augAssign t v => accesses false t ++ accesses false v
  | .delete ts => accessesL ts
  | .forLoop t it body orelse => accesses false t ++ accesses false it ++ accessesL body ++ accessesL orelse
  | .withStmt items body => accessesL items ++ accessesL body
  | .withitem ce vars => accesses false ce ++ accessesL vars
  | .funcDef _ _ _ => []
  | .classDef _ => []
  | .ret v => accessesL v
  | .forbidden _ => []
  | .other _ kids => accessesL kids

def accessesL : List Node → List Access
  | [] => []
  | n :: r => accesses false n ++ accessesL r
end

open Rattr.FnA in
/-- the access is reported in the IR of state `s` (names by spelling; calls by callee name). -/
def present (a : Access) (s : St) : Bool :=
  match a.kind with
  | .get => s.gets.any (fun x => x.full == a.name)
  | .set => s.sets.any (fun x => x.full == a.name)
  | .del => s.dels.any (fun x => x.full == a.name)
  | .call => s.calls.any (fun x => x.name == a.name)

open Rattr.FnA in
def presentR (a : Access) : Res → Bool
  | .ok s => present a s
  | _ => false

end Rattr.AccessSpec

/-! ### inversion of the call-record builders -/
namespace Rattr.FnA
open Rattr Rattr.Strs

theorem argNames_ok : ∀ (args : List Node) (s : St) (k : St → List Str → Res) (s' : St),
    argNames s args k = .ok s' → ∃ s₁ l, k s₁ l = .ok s'
  | [], s, k, s', h => ⟨s, [], h⟩
  | a :: r, s, k, s', h => by
    simp only [argNames] at h
    split at h
    · obtain ⟨s₁, l, hk⟩ := argNames_ok r _ _ s' h
      exact ⟨s₁, _, hk⟩
    · cases h
    · cases h

theorem kwargNames_ok : ∀ (kwn : List (Option Str)) (kwv : List Node) (s : St)
    (k : St → List (Str × Str) → Res) (s' : St),
    kwargNames s kwn kwv k = .ok s' → ∃ l, k s l = .ok s'
  | [], _, s, k, s', h => by simp only [kwargNames] at h; exact ⟨[], h⟩
  | _ :: _, [], s, k, s', h => by simp only [kwargNames] at h; exact ⟨[], h⟩
  | none :: rn, _ :: rv, s, k, s', h => by
    simp only [kwargNames] at h; exact kwargNames_ok rn rv s k s' h
  | some key :: rn, v :: rv, s, k, s', h => by
    simp only [kwargNames] at h
    split at h
    · obtain ⟨l, hk⟩ := kwargNames_ok rn rv s _ s' h
      exact ⟨_, hk⟩
    · cases h
    · cases h

/-- a successful `mkCall` hands its continuation a record named `without_call_brackets(name)`. -/
theorem mkCall_ok {s : St} {name : Str} {args : List Node} {kwn : List (Option Str)}
    {kwv : List Node} {target : Option Sym} {self : Option Str} {k : St → CallSym → Res} {s' : St}
    (h : mkCall s name args kwn kwv target self k = .ok s') :
    ∃ s₁ c, c.name = withoutCallBrackets name ∧ c.target = target ∧ k s₁ c = .ok s' := by
  unfold mkCall at h
  obtain ⟨s₁, l, h1⟩ := argNames_ok _ _ _ _ h
  obtain ⟨l2, h2⟩ := kwargNames_ok _ _ _ _ _ h1
  exact ⟨s₁, _, rfl, rfl, h2⟩

end Rattr.FnA

/-! ### the fragment "generic nodes over pure chains": exact characterisation of the IR -/
namespace Rattr.AccessSpec
open Rattr Rattr.FnA Rattr.Strs

def isConstNode : Node → Bool
  | .const => true
  | .strConst _ => true
  | _ => false

/-- a name chain whose subscript indices are constants. -/
def pureChain : Node → Bool
  | .name .. => true
  | .attr v _ _ => pureChain v
  | .sub v sl _ => pureChain v && isConstNode sl
  | .starred v _ => pureChain v
  | _ => false

mutual
/-- pure chains, constants, displays (tuple / list / set / dict) and EVERY node kind without a
dedicated visitor (`other`: Expr, If, While, BinOp, BoolOp, Compare, JoinedStr, Await, Yield, …),
nested to arbitrary depth. -/
def simple : Node → Bool
  | .strConst _ => true
  | .const => true
  | .seq _ elts _ => simpleL elts
  | .dict ks vs => simpleL ks && simpleL vs
  | .other _ kids => simpleL kids
  | .name .. => true
  | .attr v _ _ => pureChain v
  | .sub v sl _ => pureChain v && isConstNode sl
  | .starred v _ => pureChain v
  | _ => false
def simpleL : List Node → Bool
  | [] => true
  | n :: r => simple n && simpleL r
end

theorem pureChain_isChain : ∀ n : Node, pureChain n = true → isChain n = true
  | .name .., _ => rfl
  | .attr v _ _, h => by simpa [isChain] using pureChain_isChain v (by simpa [pureChain] using h)
  | .sub v _ _, h => by
    simp only [pureChain, Bool.and_eq_true] at h
    simpa [isChain] using pureChain_isChain v h.1
  | .starred v _, h => by simpa [isChain] using pureChain_isChain v (by simpa [pureChain] using h)
  | .call .., h | .lam .., h | .comp .., h | .gen .., h | .walrus .., h | .strConst _, h
  | .const, h | .seq .., h | .dict .., h | .assign .., h | .annAssign .., h | .augAssign .., h
  | .delete .., h | .forLoop .., h | .withStmt .., h | .withitem .., h | .funcDef .., h
  | .classDef _, h | .ret _, h | .forbidden _, h | .other .., h => by simp [pureChain] at h

theorem spell_chain : ∀ n : Node, isChain n = true → spell n = chainSpell n ∧ baseOf n = chainBase n
  | .name .., _ => ⟨rfl, rfl⟩
  | .attr v a c, h => by
    have ih := spell_chain v (by simpa [isChain] using h)
    simp [spell, baseOf, chainSpell, chainBase, ih]
  | .sub v sl c, h => by
    have ih := spell_chain v (by simpa [isChain] using h)
    simp [spell, baseOf, chainSpell, chainBase, ih]
  | .starred v c, h => by
    have ih := spell_chain v (by simpa [isChain] using h)
    simp [spell, baseOf, chainSpell, chainBase, ih]
  | .call .., h | .lam .., h | .comp .., h | .gen .., h | .walrus .., h | .strConst _, h
  | .const, h | .seq .., h | .dict .., h | .assign .., h | .annAssign .., h | .augAssign .., h
  | .delete .., h | .forLoop .., h | .withStmt .., h | .withitem .., h | .funcDef .., h
  | .classDef _, h | .ret _, h | .forbidden _, h | .other .., h => by simp [isChain] at h

theorem accesses_const (b : Bool) (n : Node) (h : isConstNode n = true) : accesses b n = [] := by
  cases n <;> simp [isConstNode] at h <;> simp [accesses]

theorem accesses_spine_pureChain : ∀ n : Node, pureChain n = true → accesses true n = []
  | .name .., _ => by simp [accesses]
  | .attr v _ _, h => by
    simp [accesses, accesses_spine_pureChain v (by simpa [pureChain] using h)]
  | .sub v sl _, h => by
    simp only [pureChain, Bool.and_eq_true] at h
    simp [accesses, accesses_spine_pureChain v h.1, accesses_const false sl h.2]
  | .starred v _, h => by
    simp [accesses, accesses_spine_pureChain v (by simpa [pureChain] using h)]
  | .call .., h | .lam .., h | .comp .., h | .gen .., h | .walrus .., h | .strConst _, h
  | .const, h | .seq .., h | .dict .., h | .assign .., h | .annAssign .., h | .augAssign .., h
  | .delete .., h | .forLoop .., h | .withStmt .., h | .withitem .., h | .funcDef .., h
  | .classDef _, h | .ret _, h | .forbidden _, h | .other .., h => by simp [pureChain] at h

/-- the spec's accesses of a pure chain: exactly itself. -/
theorem accesses_pureChain (n : Node) (h : pureChain n = true) :
    accesses false n = [⟨kindOf (chainCtx n), chainSpell n, chainBase n⟩] := by
  have hc := pureChain_isChain n h
  have hs := spell_chain n hc
  match n, h, hc, hs with
  | .name id c, _, _, _ => simp [accesses, chainCtx, chainSpell, chainBase]
  | .attr v a c, h, hc, hs =>
    have hv : pureChain v = true := by simpa [pureChain] using h
    have hb := (spell_chain v (pureChain_isChain v hv)).2
    simp [accesses, accesses_spine_pureChain v hv, hs.1, hb, chainCtx, chainBase]
  | .sub v sl c, h, hc, hs =>
    simp only [pureChain, Bool.and_eq_true] at h
    have hb := (spell_chain v (pureChain_isChain v h.1)).2
    simp [accesses, accesses_spine_pureChain v h.1, accesses_const false sl h.2, hs.1, hb, chainCtx,
      chainBase]
  | .starred v c, h, hc, hs =>
    have hv : pureChain v = true := by simpa [pureChain] using h
    have hb := (spell_chain v (pureChain_isChain v hv)).2
    simp [accesses, accesses_spine_pureChain v hv, hs.1, hb, chainCtx, chainBase]

/-- `s'` is `s` plus EXACTLY the (non-call) accesses `A`: same context, same calls, and each of
gets / sets / dels gains precisely the accesses of `A` of its kind. -/
structure Grows (A : List Access) (s s' : St) : Prop where
  ctx : s'.ctx = s.ctx
  calls : s'.calls = s.calls
  nocall : ∀ a ∈ A, a.kind ≠ .call
  gets : ∀ x : NameS, x ∈ s'.gets ↔ x ∈ s.gets ∨ (⟨.get, x.full, x.base⟩ : Access) ∈ A
  sets : ∀ x : NameS, x ∈ s'.sets ↔ x ∈ s.sets ∨ (⟨.set, x.full, x.base⟩ : Access) ∈ A
  dels : ∀ x : NameS, x ∈ s'.dels ↔ x ∈ s.dels ∨ (⟨.del, x.full, x.base⟩ : Access) ∈ A

theorem Grows.refl (s : St) : Grows [] s s :=
  ⟨rfl, rfl, by simp, by simp, by simp, by simp⟩

theorem Grows.trans {A B : List Access} {s s₁ s₂ : St} (h1 : Grows A s s₁) (h2 : Grows B s₁ s₂) :
    Grows (A ++ B) s s₂ := by
  refine ⟨h2.ctx.trans h1.ctx, h2.calls.trans h1.calls, ?_, fun x => ?_, fun x => ?_, fun x => ?_⟩
  · intro a ha
    rcases List.mem_append.mp ha with ha | ha
    · exact h1.nocall a ha
    · exact h2.nocall a ha
  · rw [h2.gets, h1.gets, List.mem_append, or_assoc]
  · rw [h2.sets, h1.sets, List.mem_append, or_assoc]
  · rw [h2.dels, h1.dels, List.mem_append, or_assoc]

theorem Grows.update (s : St) (f b : Str) (c : ECtx) :
    Grows [⟨kindOf c, f, b⟩] s (updateResults (warnUndef s b c) ⟨f, b⟩ c) := by
  obtain ⟨hx, hg, hs, hd, hc⟩ := warnUndef_ir s b c
  cases c
  · refine ⟨hx, hc, by simp [kindOf], fun x => ?_, fun x => ?_, fun x => ?_⟩
    · cases x; simp [updateResults, mem_addTo, hg, kindOf]
    · simp [updateResults, hs, kindOf]
    · simp [updateResults, hd, kindOf]
  · refine ⟨hx, hc, by simp [kindOf], fun x => ?_, fun x => ?_, fun x => ?_⟩
    · simp [updateResults, hg, kindOf]
    · cases x; simp [updateResults, mem_addTo, hs, kindOf]
    · simp [updateResults, hd, kindOf]
  · refine ⟨hx, hc, by simp [kindOf], fun x => ?_, fun x => ?_, fun x => ?_⟩
    · simp [updateResults, hg, kindOf]
    · simp [updateResults, hs, kindOf]
    · cases x; simp [updateResults, mem_addTo, hd, kindOf]

theorem visit_pureChain (env : Env) (mn : Str) (n : Node) (h : pureChain n = true) (s : St) :
    ∃ s', visit env mn n s = .ok s' ∧ Grows (accesses false n) s s' := by
  refine ⟨_, visit_chain env mn n (pureChain_isChain n h) s, ?_⟩
  rw [accesses_pureChain n h]
  exact Grows.update s _ _ _

mutual
/-- on the fragment the visitor succeeds and adds EXACTLY the accesses the spec lists. -/
theorem visit_simple (env : Env) (mn : Str) : ∀ (n : Node), simple n = true → ∀ s : St,
    ∃ s', visit env mn n s = .ok s' ∧ Grows (accesses false n) s s'
  | .strConst _, _, s => ⟨s, by rw [visit], by simpa [accesses] using Grows.refl s⟩
  | .const, _, s => ⟨s, by rw [visit], by simpa [accesses] using Grows.refl s⟩
  | .seq _ elts _, h, s => by
    obtain ⟨s', h1, h2⟩ := visitList_simple env mn elts (by simpa [simple] using h) s
    exact ⟨s', by rw [visit]; exact h1, by simpa [accesses] using h2⟩
  | .dict ks vs, h, s => by
    simp only [simple, Bool.and_eq_true] at h
    obtain ⟨s₁, h1, g1⟩ := visitList_simple env mn ks h.1 s
    obtain ⟨s₂, h2, g2⟩ := visitList_simple env mn vs h.2 s₁
    exact ⟨s₂, by rw [visit, h1]; exact h2, by simpa [accesses] using g1.trans g2⟩
  | .other _ kids, h, s => by
    obtain ⟨s', h1, h2⟩ := visitList_simple env mn kids (by simpa [simple] using h) s
    exact ⟨s', by rw [visit]; exact h1, by simpa [accesses] using h2⟩
  | .name id c, _, s => visit_pureChain env mn _ rfl s
  | .attr v a c, h, s => visit_pureChain env mn _ (by simpa [simple, pureChain] using h) s
  | .sub v sl c, h, s => visit_pureChain env mn _ (by simpa [simple, pureChain] using h) s
  | .starred v c, h, s => visit_pureChain env mn _ (by simpa [simple, pureChain] using h) s
  | .call .., h, _ | .lam .., h, _ | .comp .., h, _ | .gen .., h, _ | .walrus .., h, _
  | .assign .., h, _ | .annAssign .., h, _ | .augAssign .., h, _
  | .delete .., h, _ | .forLoop .., h, _ | .withStmt .., h, _ | .withitem .., h, _
  | .funcDef .., h, _ | .classDef _, h, _ | .ret _, h, _ | .forbidden _, h, _ => by
    simp [simple] at h

theorem visitList_simple (env : Env) (mn : Str) : ∀ (l : List Node), simpleL l = true → ∀ s : St,
    ∃ s', visitList env mn l s = .ok s' ∧ Grows (accessesL l) s s'
  | [], _, s => ⟨s, by rw [visitList], by simpa [accessesL] using Grows.refl s⟩
  | n :: r, h, s => by
    simp only [simpleL, Bool.and_eq_true] at h
    obtain ⟨s₁, h1, g1⟩ := visit_simple env mn n h.1 s
    obtain ⟨s₂, h2, g2⟩ := visitList_simple env mn r h.2 s₁
    exact ⟨s₂, by rw [visitList, h1]; exact h2, by simpa [accessesL] using g1.trans g2⟩
end

end Rattr.AccessSpec

/-
  The import walk of the multi-file pipeline (`Pipeline2.importLoop` = `parse_and_analyse_imports`) is
  COMPLETE: every import the walk may follow ends up as a key of `import_irs` — the queue entries
  of every iteration, hence (the queue is extended by the imports of every analysed file) the
  imports of every followed module, an import that leads BACK TO THE TARGET included. This is the
  invariant `resolve_import` relies on (`environment.import_irs.get(target.module_name)`), and the one
  seeded change C06-m9 breaks (a rung `origin == config.arguments.target → continue`).
-/
import RattrModel.Pipeline2

namespace Rattr.C06W
open Rattr Rattr.Strs Rattr.FnA Rattr.RootCtx Rattr.Pipeline2
open Rattr.FileA (Outcome)

/-- the import symbol `i` passes every `continue` rung of the walk except `origin in seen`: the
locator knows its module `name` and a file `o`, and no ladder rung (blacklist, pip, stdlib) fires -/
def Followable (P : Project) (i : Sym) (name o : Str) : Prop :=
  ∃ qf, Dict.get? P.quals i.qual = some qf ∧ qf.module = some name ∧ qf.origin = some o ∧
    qf.blacklisted = false ∧ qf.inPip = false ∧ qf.inStdlib = false

/-- the locator facts name ONE module per file (`Import.module_name` is a function of the origin) -/
def OriginInj (P : Project) : Prop :=
  ∀ q q' qf qf' o, Dict.get? P.quals q = some qf → Dict.get? P.quals q' = some qf' →
    qf.origin = some o → qf'.origin = some o → qf.module = qf'.module

def keysOf (irs : List AFile) : List Str := irs.map (·.key)

/-- every followable import whose file has been seen has its module name among the keys -/
def SeenKeyed (P : Project) (seen : List Str) (irs : List AFile) : Prop :=
  ∀ i name o, Followable P i name o → o ∈ seen → name ∈ keysOf irs

theorem followable_unique {P : Project} {i : Sym} {n n' o o' : Str}
    (h : Followable P i n o) (h' : Followable P i n' o') : n = n' ∧ o = o' := by
  obtain ⟨qf, hq, hm, ho, _⟩ := h
  obtain ⟨qf', hq', hm', ho', _⟩ := h'
  rw [hq] at hq'
  injection hq' with e
  subst e
  rw [hm] at hm'; rw [ho] at ho'
  exact ⟨Option.some.inj hm', Option.some.inj ho'⟩

theorem mem_keysOf_setIr (irs : List AFile) (a : AFile) : a.key ∈ keysOf (setIr irs a) := by
  induction irs with
  | nil => simp [setIr, keysOf]
  | cons b r ih =>
    unfold setIr
    by_cases hk : b.key = a.key
    · simp [hk, keysOf]
    · simp only [hk, if_false]
      simp only [keysOf, List.map_cons, List.mem_cons] at ih ⊢
      exact Or.inr ih

theorem keysOf_subset_setIr (irs : List AFile) (a : AFile) (k : Str) (h : k ∈ keysOf irs) :
    k ∈ keysOf (setIr irs a) := by
  induction irs with
  | nil => simp [keysOf] at h
  | cons b r ih =>
    unfold setIr
    by_cases hk : b.key = a.key
    · simp only [hk, if_true]
      simp only [keysOf, List.map_cons, List.mem_cons] at h ⊢
      rcases h with e | hr
      · exact Or.inl (by rw [e, hk])
      · exact Or.inr hr
    · simp only [hk, if_false]
      simp only [keysOf, List.map_cons, List.mem_cons] at h ih ⊢
      rcases h with e | hr
      · exact Or.inl e
      · exact Or.inr (ih hr)

/-- `impNext` answered `.done`: every followable entry of the queue had been seen -/
theorem impNext_done (P : Project) (seen : List Str) : ∀ (queue : List Sym) (ds ds' : List Diag),
    impNext P seen queue ds = .done ds' → ∀ i ∈ queue, ∀ name o, Followable P i name o → o ∈ seen := by
  intro queue
  induction queue with
  | nil => intro ds ds' _ i hi; cases hi
  | cons j q ih =>
    intro ds ds' h i hi name o hf
    unfold impNext at h
    cases hq : Dict.get? P.quals j.qual with
    | none => simp [hq] at h
    | some qf =>
      simp only [hq] at h
      rcases List.mem_cons.mp hi with e | hr
      · subst e
        obtain ⟨qf', hq', hm, ho, hb, hp, hs⟩ := hf
        rw [hq] at hq'
        injection hq' with e
        subst e
        simp only [hm, ho, hb, hp, hs, Bool.false_eq_true, if_false] at h
        by_cases hc : seen.contains o = true
        · exact List.contains_iff_mem.mp hc
        · simp only [hc, Bool.false_eq_true, if_false] at h
          cases hff : findFile P o with
          | none => simp [hff] at h
          | some f => simp [hff] at h
      · cases hm : qf.module with
        | none => simp only [hm] at h; exact ih _ _ h i hr name o hf
        | some nm =>
          simp only [hm] at h
          cases ho : qf.origin with
          | none => simp only [ho] at h; exact ih _ _ h i hr name o hf
          | some oo =>
            simp only [ho] at h
            by_cases hc : seen.contains oo = true
            · simp only [hc, if_true] at h; exact ih _ _ h i hr name o hf
            · simp only [hc, Bool.false_eq_true, if_false] at h
              by_cases hb : qf.blacklisted = true
              · simp only [hb, if_true] at h; exact ih _ _ h i hr name o hf
              · simp only [hb, Bool.false_eq_true, if_false] at h
                by_cases hp : qf.inPip = true
                · simp only [hp, if_true] at h; exact ih _ _ h i hr name o hf
                · simp only [hp, Bool.false_eq_true, if_false] at h
                  by_cases hs : qf.inStdlib = true
                  · simp only [hs, if_true] at h; exact ih _ _ h i hr name o hf
                  · simp only [hs, Bool.false_eq_true, if_false] at h
                    cases hff : findFile P oo with
                    | none => simp [hff] at h
                    | some f => simp [hff] at h

/-- `impNext` answered `.go`: the queue is `pre ++ i :: rest` where every followable entry of `pre`
had been seen, and `i` is followable into the (unseen) file that is analysed next -/
theorem impNext_go (P : Project) (seen : List Str) : ∀ (queue : List Sym) (ds : List Diag) (name o : Str) (f : SrcFile)
    (rest : List Sym) (ds' : List Diag), impNext P seen queue ds = .go name o f rest ds' →
    ∃ pre i, queue = pre ++ i :: rest ∧ (∀ j ∈ pre, ∀ n o', Followable P j n o' → o' ∈ seen) ∧
      Followable P i name o := by
  intro queue
  induction queue with
  | nil => intro ds name o f rest ds' h; simp [impNext] at h
  | cons j q ih =>
    intro ds name o f rest ds' h
    unfold impNext at h
    cases hq : Dict.get? P.quals j.qual with
    | none => simp [hq] at h
    | some qf =>
      simp only [hq] at h
      -- skipping `j` (it is not followable, or its file has been seen) and continuing in `q`
      have skip : ∀ ds1, impNext P seen q ds1 = .go name o f rest ds' →
          (∀ n o', Followable P j n o' → o' ∈ seen) →
          ∃ pre i, j :: q = pre ++ i :: rest ∧ (∀ j' ∈ pre, ∀ n o', Followable P j' n o' → o' ∈ seen) ∧
            Followable P i name o := by
        intro ds1 h1 hj
        obtain ⟨pre, i, e, hpre, hi⟩ := ih ds1 name o f rest ds' h1
        refine ⟨j :: pre, i, by rw [e]; rfl, ?_, hi⟩
        intro j' hj' n o' hf
        rcases List.mem_cons.mp hj' with e' | hr
        · subst e'; exact hj n o' hf
        · exact hpre j' hr n o' hf
      have notF : ∀ {n o'}, Followable P j n o' → ∃ qf', qf' = qf ∧ qf.module = some n ∧ qf.origin = some o' ∧
          qf.blacklisted = false ∧ qf.inPip = false ∧ qf.inStdlib = false := by
        intro n o' hf
        obtain ⟨qf', hq', hm, ho, hb, hp, hs⟩ := hf
        rw [hq] at hq'
        injection hq' with e
        subst e
        exact ⟨_, rfl, hm, ho, hb, hp, hs⟩
      cases hm : qf.module with
      | none =>
        simp only [hm] at h
        exact skip _ h (fun n o' hf => by obtain ⟨_, _, hm', _⟩ := notF hf; rw [hm] at hm'; cases hm')
      | some nm =>
        simp only [hm] at h
        cases ho : qf.origin with
        | none =>
          simp only [ho] at h
          exact skip _ h (fun n o' hf => by obtain ⟨_, _, _, ho', _⟩ := notF hf; rw [ho] at ho'; cases ho')
        | some oo =>
          simp only [ho] at h
          by_cases hc : seen.contains oo = true
          · simp only [hc, if_true] at h
            exact skip _ h (fun n o' hf => by
              obtain ⟨_, _, _, ho', _⟩ := notF hf
              rw [ho] at ho'
              injection ho' with e
              subst e
              exact List.contains_iff_mem.mp hc)
          · simp only [hc, Bool.false_eq_true, if_false] at h
            by_cases hb : qf.blacklisted = true
            · simp only [hb, if_true] at h
              exact skip _ h (fun n o' hf => by obtain ⟨_, _, _, _, hb', _⟩ := notF hf; rw [hb] at hb'; cases hb')
            · simp only [hb, Bool.false_eq_true, if_false] at h
              by_cases hp : qf.inPip = true
              · simp only [hp, if_true] at h
                exact skip _ h (fun n o' hf => by obtain ⟨_, _, _, _, _, hp', _⟩ := notF hf; rw [hp] at hp'; cases hp')
              · simp only [hp, Bool.false_eq_true, if_false] at h
                by_cases hs : qf.inStdlib = true
                · simp only [hs, if_true] at h
                  exact skip _ h (fun n o' hf => by obtain ⟨_, _, _, _, _, _, hs'⟩ := notF hf; rw [hs] at hs'; cases hs')
                · simp only [hs, Bool.false_eq_true, if_false] at h
                  cases hff : findFile P oo with
                  | none => simp [hff] at h
                  | some f' =>
                    simp only [hff, ImpNext.go.injEq] at h
                    obtain ⟨e1, e2, e3, e4, e5⟩ := h
                    subst e1; subst e2; subst e4
                    exact ⟨[], j, rfl, by simp,
                      ⟨qf, hq, hm, ho, by simpa using hb, by simpa using hp, by simpa using hs⟩⟩

/-- **The walk is complete** (see the file header). -/
theorem importLoop_keys_complete (P : Project) (hinj : OriginInj P) : ∀ (fuel : Nat) (queue : List Sym)
    (seen : List Str) (irs : List AFile) (ds : List Diag) (irs' : List AFile) (ds' : List Diag),
    importLoop P fuel queue seen irs ds = .ok (irs', ds') → SeenKeyed P seen irs →
    (∀ k ∈ keysOf irs, k ∈ keysOf irs') ∧
    ∀ i ∈ queue, ∀ name o, Followable P i name o → name ∈ keysOf irs' := by
  intro fuel
  induction fuel with
  | zero => intro queue seen irs ds irs' ds' h; simp [importLoop] at h
  | succ fuel ih =>
    intro queue seen irs ds irs' ds' h hsk
    unfold importLoop at h
    cases hn : impNext P seen queue [] with
    | crash e => simp [hn] at h
    | done dsn =>
      simp only [hn, Outcome.ok.injEq, Prod.mk.injEq] at h
      obtain ⟨e, _⟩ := h
      subst e
      refine ⟨fun k hk => hk, ?_⟩
      intro i hi name o hf
      exact hsk i name o hf (impNext_done P seen queue [] dsn hn i hi name o hf)
    | go name o f rest dsn =>
      simp only [hn] at h
      obtain ⟨pre, i0, eq, hpre, hi0⟩ := impNext_go P seen queue [] name o f rest dsn hn
      cases ha : analyseAt P f with
      | fatal s d => simp [ha] at h
      | crash s e => simp [ha] at h
      | ok s =>
        simp only [ha] at h
        have hsk' : SeenKeyed P (o :: seen)
            (setIr irs { key := name, origin := o, derived := f.derived, ctx := s.ctx, ir := s.ir }) := by
          intro i n o' hf ho'
          rcases List.mem_cons.mp ho' with e | hr
          · subst e
            obtain ⟨qf, hq, hm, ho, _⟩ := hf
            obtain ⟨qf0, hq0, hm0, ho0, _⟩ := hi0
            have := hinj _ _ qf qf0 o' hq hq0 ho ho0
            rw [hm, hm0] at this
            injection this with e
            subst e
            exact mem_keysOf_setIr irs _
          · exact keysOf_subset_setIr irs _ n (hsk i n o' hf hr)
        obtain ⟨hsub, hq⟩ := ih _ _ _ _ irs' ds' h hsk'
        refine ⟨fun k hk => hsub k (keysOf_subset_setIr irs _ k hk), ?_⟩
        intro i hi n o' hf
        rw [eq] at hi
        rcases List.mem_append.mp hi with hp | hr
        · exact hsub n (keysOf_subset_setIr irs _ n (hsk i n o' hf (hpre i hp n o' hf)))
        · rcases List.mem_cons.mp hr with e | hrest
          · subst e
            obtain ⟨e1, _⟩ := followable_unique hf hi0
            subst e1
            exact hsub n (mem_keysOf_setIr irs _)
          · exact hq i (List.mem_append_left _ hrest) n o' hf

end Rattr.C06W

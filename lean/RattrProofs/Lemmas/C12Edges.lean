/-
  Lemmas for the edge model (RattrModel/ImportEdges.lean): `derive_absolute_module_name` against
  `importlib.util.resolve_name`, the right-to-left prefix search against `Spec.longestPrefix`.
  (The statements about `deriveAbs` / `findModuleNameAndSpec` proper are C13's; here they are needed in
  the form the C12 graph theorems consume, for an arbitrary existence predicate.)
-/
import RattrModel.ImportEdges

namespace Rattr.C12Edges
open Rattr Rattr.Locator Rattr.Edges

theorem dropLastN_eq_take (n : Nat) (l : List Str) : Spec.dropLastN n l = l.take (l.length - n) := by
  induction n generalizing l with
  | zero => simp [Spec.dropLastN]
  | succ n ih =>
    rw [Spec.dropLastN, ih, List.dropLast_eq_take, List.take_take, List.length_take]
    congr 1
    omega

/-- `deriveAbs` written without the case split on the kind of file: strip `eff` components when
`eff > 0`. -/
def strip (base : Dotted) (eff : Nat) : Dotted :=
  if eff > 0 then joinSplit (base.take (base.length - eff)) else base

theorem deriveAbs_eq (isInit : Bool) (base : Dotted) (target : Option Dotted) (level : Nat) :
    deriveAbs isInit base target level
      = (match target with
         | none => strip base (if isInit then level - 1 else level)
         | some t => strip base (if isInit then level - 1 else level) ++ t) := by
  unfold deriveAbs strip
  cases target <;> rfl

/-- stripping fewer components than there are leaves the plain `take` -/
theorem strip_lt (base : Dotted) (eff : Nat) (h : eff < base.length) :
    strip base eff = base.take (base.length - eff) := by
  unfold strip
  by_cases he : eff > 0
  · have hne : base.take (base.length - eff) ≠ [] := by
      intro hnil
      rcases List.take_eq_nil_iff.mp hnil with h0 | h0
      · omega
      · subst h0; simp at h
    simp [he, joinSplit, hne]
  · have : eff = 0 := by omega
    subst this
    simp

/-- stripping everything (or more) leaves the empty string -/
theorem strip_ge (base : Dotted) (eff : Nat) (h : base.length ≤ eff) (hb : base ≠ []) :
    strip base eff = [[]] := by
  unfold strip
  have hpos : eff > 0 := by
    cases base with
    | nil => exact absurd rfl hb
    | cons a t => simp at h; omega
  have : base.length - eff = 0 := by omega
  simp [hpos, this, joinSplit]

/-- Whenever Python resolves the relative import, `derive_absolute_module_name` returns Python's
answer (for the `__init__.py` of a package and for a module inside it). -/
theorem deriveAbs_like_python (isInit : Bool) (base : Dotted) (target : Option Dotted) (level : Nat)
    (r : Dotted) (hl : 1 ≤ level)
    (h : Spec.pyResolveName (Spec.packageOf base isInit) level target = .ok r) :
    deriveAbs isInit base target level = r := by
  unfold Spec.pyResolveName at h
  split at h
  · cases h
  · rename_i hne
    split at h
    · cases h
    · rename_i hlen
      simp only [Except.ok.injEq] at h
      rw [dropLastN_eq_take] at h
      subst h
      rw [deriveAbs_eq]
      cases isInit with
      | true =>
        simp only [Spec.packageOf, if_true] at hne hlen ⊢
        have hlt : level - 1 < base.length := by omega
        rw [strip_lt base (level - 1) hlt]
        cases target <;> rfl
      | false =>
        simp only [Spec.packageOf, Bool.false_eq_true, if_false] at hne hlen ⊢
        have hdl : base.dropLast.length = base.length - 1 := List.length_dropLast
        have hbl : 2 ≤ base.length := by
          cases base with
          | nil => simp at hne
          | cons a t =>
            cases t with
            | nil => simp at hne
            | cons b t => simp
        have hlt : level < base.length := by omega
        rw [strip_lt base level hlt]
        have htake : base.dropLast.take (base.dropLast.length - (level - 1)) = base.take (base.length - level) := by
          rw [List.dropLast_eq_take, List.take_take, List.length_take]
          congr 1
          omega
        rw [htake]
        cases target <;> rfl

/-- the name `derive_absolute_module_name` produces once everything is stripped: "" / "." + target -/
def escName : Option Dotted → Dotted
  | none => [[]]
  | some t => [] :: t

/-- Whenever Python refuses the relative import (no parent package / beyond the top-level package),
`derive_absolute_module_name` produces a name whose first component is empty (the string starts
with "."), followed by at least the module part. -/
theorem deriveAbs_escape (isInit : Bool) (base : Dotted) (target : Option Dotted) (level : Nat)
    (e : Spec.ResolveErr) (hl : 1 ≤ level) (hb : base ≠ [])
    (h : Spec.pyResolveName (Spec.packageOf base isInit) level target = .error e) :
    deriveAbs isInit base target level = escName target := by
  have hstrip : strip base (if isInit then level - 1 else level) = [[]] := by
    unfold Spec.pyResolveName at h
    cases isInit with
    | true =>
      simp only [Spec.packageOf, if_true] at h ⊢
      split at h
      · rename_i hnil; exact absurd hnil hb
      · split at h
        · rename_i hlen
          exact strip_ge base (level - 1) (by omega) hb
        · cases h
    | false =>
      simp only [Spec.packageOf, Bool.false_eq_true, if_false] at h ⊢
      have hdl : base.dropLast.length = base.length - 1 := List.length_dropLast
      split at h
      · rename_i hnil
        have : base.dropLast.length = 0 := by rw [hnil]; rfl
        exact strip_ge base level (by omega) hb
      · split at h
        · rename_i hlen
          exact strip_ge base level (by omega) hb
        · cases h
  rw [deriveAbs_eq, hstrip]
  cases target <;> rfl

/-! ### right-to-left prefix search = longest existing prefix -/

theorem longestPrefixAux_eq_find (ex : List Str → Bool) (rest pre : List Str) :
    Spec.longestPrefixAux ex pre rest
      = ((List.range rest.length).map (fun k => pre ++ rest.take (rest.length - k))).find? ex := by
  induction rest generalizing pre with
  | nil => simp [Spec.longestPrefixAux]
  | cons c r ih =>
    rw [Spec.longestPrefixAux, ih (pre ++ [c])]
    have hmap : (List.range (c :: r).length).map (fun k => pre ++ (c :: r).take ((c :: r).length - k))
        = (List.range r.length).map (fun k => (pre ++ [c]) ++ r.take (r.length - k)) ++ [pre ++ [c]] := by
      rw [List.length_cons, List.range_succ, List.map_append]
      congr 1
      · apply List.map_congr_left
        intro k hk
        have hk' : k < r.length := List.mem_range.mp hk
        have : r.length + 1 - k = (r.length - k) + 1 := by omega
        rw [this, List.take_succ_cons]
        simp
      · simp
    rw [hmap, List.find?_append]
    cases hf : List.find? ex ((List.range r.length).map (fun k => (pre ++ [c]) ++ r.take (r.length - k))) with
    | some x => simp
    | none =>
      by_cases hx : ex (pre ++ [c]) = true
      · simp [hx]
      · simp [hx]

/-- `find_module_name_and_spec` (first hit walking the name right to left) is the longest existing
prefix (found walking left to right), for every existence predicate. -/
theorem moduleName_eq_longestPrefix (ex : Dotted → Bool) (q : Dotted) (hq : q ≠ [])
    (hd : startsWithDot q = false) :
    moduleName ex q = Spec.longestPrefix ex q := by
  unfold moduleName Spec.longestPrefix
  rw [longestPrefixAux_eq_find]
  simp [hd, iterModuleNamesRight, hq]

theorem startsWithDot_escName (t : Option Dotted) (n : Str) : startsWithDot (escName t ++ [n]) = true := by
  cases t with
  | none => rfl
  | some t => cases t <;> rfl

end Rattr.C12Edges

/-
  Lemmas about the file / class analyser model (`RattrModel/FileAnalyser.lean`): what each kind of
  callable contributes to the FileIr (which key, which IR, in which context), and that skipped
  definitions contribute nothing.
-/
import RattrModel.FileAnalyser
import RattrModel.Generated.RC
import RattrProofs.Lemmas.DictKeys

namespace Rattr.FileA
open Rattr Rattr.Strs Rattr.FnA Rattr.RootCtx

/-- same members (the generated lists are sorted, the model's are in dispatch order) -/
def sameMembers (a b : List String) : Bool := a.all (b.contains ·) && b.all (a.contains ·)

/-- the state after a successful `FunctionAnalyser(...).analyse()` stored under `key` -/
def stored (s : FState) (key : Sym) (t : St) : FState :=
  { ctx := t.ctx, diags := s.diags ++ t.diags, ir := Dict.set s.ir key (irOf t) }

theorem visitFuncDef_ignored (env : Env) (mn : Str) (f : Facts) (name : Str) (ps : Params) (body : List Node)
    (decos : List Ann.Deco) (s : FState) (h : Ann.hasAnnotation Ann.nIgnore decos = .ok true) :
    visitFuncDef env mn f name ps body decos s = .ok s := by
  simp [visitFuncDef, liftAnn, h]

theorem visitFuncDef_excluded (env : Env) (mn : Str) (f : Facts) (name : Str) (ps : Params) (body : List Node)
    (decos : List Ann.Deco) (s : FState) (h : Ann.hasAnnotation Ann.nIgnore decos = .ok false)
    (hx : name ∈ f.excluded) : visitFuncDef env mn f name ps body decos s = .ok s := by
  simp [visitFuncDef, liftAnn, h, excluded, hx]

theorem visitClassDef_ignored (env : Env) (mn : Str) (f : Facts) (name : Str) (bases : List Node) (body : List Top)
    (decos : List Ann.Deco) (s : FState) (h : Ann.hasAnnotation Ann.nIgnore decos = .ok true) :
    visitClassDef env mn f name bases body decos s = .ok s := by
  simp [visitClassDef, liftAnn, h]

theorem visitClassDef_excluded (env : Env) (mn : Str) (f : Facts) (name : Str) (bases : List Node) (body : List Top)
    (decos : List Ann.Deco) (s : FState) (h : Ann.hasAnnotation Ann.nIgnore decos = .ok false)
    (hx : name ∈ f.excluded) : visitClassDef env mn f name bases body decos s = .ok s := by
  simp [visitClassDef, liftAnn, h, excluded, hx]

/-- an analysed module-level `def`: the key is the `Func` the CURRENT context holds for the name,
the IR is `FnA.analyse` of the body in the CURRENT context. -/
theorem visitFuncDef_analysed (env : Env) (mn : Str) (f : Facts) (name : Str) (ps : Params) (body : List Node)
    (decos : List Ann.Deco) (s : FState) (fn : Sym) (t : St)
    (hi : Ann.hasAnnotation Ann.nIgnore decos = .ok false) (hx : name ∉ f.excluded)
    (hfn : getFunc s.ctx name = some fn) (hr : Ann.hasAnnotation Ann.nResults decos = .ok false)
    (hc : analyserFor env mn (some fn) = none) (ht : FnA.analyse env mn s.ctx ps body = .ok t) :
    visitFuncDef env mn f name ps body decos s = .ok (stored s fn t) := by
  simp [visitFuncDef, liftAnn, hi, excluded, hx, hfn, hr, hc, analyseInto, liftRes, ht, stored]

/-- a failing body ends the whole file analysis with that failure. -/
theorem visitFuncDef_fatal (env : Env) (mn : Str) (f : Facts) (name : Str) (ps : Params) (body : List Node)
    (decos : List Ann.Deco) (s : FState) (fn : Sym) (t : St) (d : Diag)
    (hi : Ann.hasAnnotation Ann.nIgnore decos = .ok false) (hx : name ∉ f.excluded)
    (hfn : getFunc s.ctx name = some fn) (hr : Ann.hasAnnotation Ann.nResults decos = .ok false)
    (hc : analyserFor env mn (some fn) = none) (ht : FnA.analyse env mn s.ctx ps body = .fatal t d) :
    ∃ s', visitFuncDef env mn f name ps body decos s = .fatal s' d := by
  simp [visitFuncDef, liftAnn, hi, excluded, hx, hfn, hr, hc, analyseInto, liftRes, ht]

/-- a named lambda `x = lambda ps: body` -/
theorem lambdaAssign_analysed (env : Env) (mn : Str) (x : Str) (c : ECtx) (ps : Params) (body : Node)
    (s : FState) (fn : Sym) (t : St) (hfn : getFunc s.ctx x = some fn)
    (ht : FnA.analyse env mn s.ctx ps [body] = .ok t) :
    anyAssign env mn [.name x c] (.lam ps body) s = .ok (stored s fn t) := by
  simp [anyAssign, lambdaInRhs, isLambda, namedtupleInRhs, isTupleOrList, lambdaAssign, oneToOne, fLiftName, namesOf,
    hfn, analyseInto, liftRes, ht, stored, fbind]

/-- a static method is registered as `Func "C.m"` in the context FIRST, then analysed in that
context; its key is that fresh symbol (whether or not the registration took effect). -/
theorem visitStatic_analysed (env : Env) (mn : Str) (cls : Str) (m : Method) (s : FState) (cir : ClassIr)
    (k : FState → ClassIr → FOut) (t : St)
    (ht : FnA.analyse env mn (Context.add s.ctx (funcSym (cls ++ '.' :: m.name) m.ps.iface)) m.ps m.body = .ok t) :
    visitStatic env mn cls m s cir k =
      k { ctx := t.ctx, diags := s.diags ++ t.diags, ir := s.ir }
        (Dict.set cir (funcSym (cls ++ '.' :: m.name) m.ps.iface) (irOf t)) := by
  simp [visitStatic, analyseInto, liftRes, ht]

/-- the class initialiser: the `Class` symbol is REPLACED by one carrying `__init__`'s interface
(moved to the end of the table) before the body is analysed; that new symbol is the key. -/
theorem visitInitialiser_analysed (env : Env) (mn : Str) (cls : Str) (decos : List Ann.Deco) (init : Method)
    (s : FState) (cir : ClassIr) (k : FState → ClassIr → FOut) (sy : Sym) (t : St)
    (hi : Ann.hasAnnotation Ann.nIgnore decos = .ok false) (hsy : getClass s.ctx cls = some sy)
    (hr : Ann.hasAnnotation Ann.nResults decos = .ok false)
    (ht : FnA.analyse env mn (updateSymbol s.ctx { sy with iface := some init.ps.iface, callable := true })
            init.ps init.body = .ok t) :
    visitInitialiser env mn cls decos init s cir k =
      k { ctx := t.ctx, diags := s.diags ++ t.diags, ir := s.ir }
        (Dict.set cir { sy with iface := some init.ps.iface, callable := true } (irOf t)) := by
  simp [visitInitialiser, liftAnn, hi, classSymbol, hsy, hr, analyseInto, liftRes, ht]

/-! ### keys: `mergeClassIr` and `Dict.set` only append -/

theorem mergeClassIr_prefix (ir : Dict Sym IR) (cir : ClassIr) :
    Dict.keys ir <+: Dict.keys (mergeClassIr ir cir) := by
  unfold mergeClassIr
  induction cir generalizing ir with
  | nil => exact List.prefix_rfl
  | cons p r ih =>
    simp only [List.foldl_cons]
    exact (Dict.keys_set_prefix ir p.1 p.2).trans (ih _)

/-- a module of plain statements only (no def / class / assignment / expression) has an empty
FileIr: nothing but callables contributes a key. -/
theorem imports_contribute_nothing (env : Env) (mn : Str) (f : Facts) (a : List Alias) (s : FState) :
    visitTop env mn f (.importStmt a) s = .ok s := by rw [visitTop.eq_def]

end Rattr.FileA

/-
  Helper lemmas for the configuration part of Props/C12 (how the follow level reaches the import
  loop): occurrences of one option in a translated TOML table, and the unfolding of
  `Cli.parseArguments` into its two argparse passes. Builds on the engine lemmas of Props/C20
  (`C20_precedence`).
-/
import RattrProofs.Props.C20
import RattrModel.FollowConfig

namespace Rattr.C12
open Rattr Rattr.Cli Rattr.FollowConfig Rattr.C20

/-- A token list never mentions option `o` (no token is one of its flags). -/
def quiet (o : Opt) (toks : List Tok) : Bool :=
  toks.all fun t => match t with
    | .flag f => !o.flags.contains f
    | .val _ => true

theorem occ_quiet_append (o : Opt) : ∀ (xs ys : List Tok), quiet o xs = true →
    occ o (xs ++ ys) = occ o ys := by
  intro xs
  induction xs with
  | nil => intro ys _; rfl
  | cons t xs ih =>
    intro ys h
    simp only [quiet, List.all_cons, Bool.and_eq_true] at h
    have hx : quiet o xs = true := h.2
    cases t with
    | val v => simp only [List.cons_append, occ]; exact ih ys hx
    | flag f =>
      have hf : o.flags.contains f = false := by simpa using h.1
      simp only [List.cons_append, occ, hf, Bool.false_eq_true, if_false]
      exact ih ys hx

theorem occ_quiet (o : Opt) (xs : List Tok) (h : quiet o xs = true) : occ o xs = [] := by
  have := occ_quiet_append o xs [] h
  simpa [occ] using this

/-- An occurrence `flag value` in front: one occurrence carrying that value. -/
theorem occ_flag_val (o : Opt) (f : Str) (t : Text) (rest : List Tok) (hf : o.flags.contains f = true) :
    occ o (.flag f :: .val t :: rest) = some t :: occ o rest := by
  simp only [occ, hf, if_true]

/-! ### The follow option of the regenerated tables -/

theorem followOpt_eq :
    followOpt = { flags := [str "-f", str "--follow-imports"], dest := levelDest, action := .store,
                  vtype := .int, default := .int 1,
                  choices := some [.int 0, .int 1, .int 2, .int 3], required := false, mutex := followOpt.mutex } := by
  decide +kernel

theorem followOpt_mem : followOpt ∈ tomlParser := by decide +kernel

theorem follow_argName : argName tomlNameMap followKey = str "--follow-imports" := by decide +kernel

theorem follow_flag_long : followOpt.flags.contains (str "--follow-imports") = true := by decide +kernel

/-- The tokens of a TOML table in which `follow-imports = N` stands between two parts that never
mention the option: exactly one occurrence, carrying `N`. -/
theorem occ_follow_toml (a b : Toml) (N : Int)
    (ha : quiet followOpt ((translate tomlNameMap a).map lex) = true)
    (hb : quiet followOpt ((translate tomlNameMap b).map lex) = true) :
    occ followOpt ((translate tomlNameMap (a ++ (followKey, .sc (.int N)) :: b)).map lex) = [some (.num N)] := by
  have hsplit : a ++ (followKey, TVal.sc (.int N)) :: b = a ++ ([(followKey, TVal.sc (.int N))] ++ b) := by simp
  rw [hsplit, translate_append, translate_append, translate_single, List.map_append, List.map_append]
  rw [occ_quiet_append followOpt _ _ ha]
  have : (translate1 (argName tomlNameMap followKey) (TVal.sc (.int N))).map lex
      = [.flag (str "--follow-imports"), .val (.num N)] := by
    rw [follow_argName]; rfl
  rw [this]
  simp only [List.cons_append, List.nil_append]
  rw [occ_flag_val followOpt _ _ _ follow_flag_long, occ_quiet followOpt _ hb]

theorem tomlSays_follow (a b : Toml) (N : Int)
    (ha : quiet followOpt ((translate tomlNameMap a).map lex) = true)
    (hb : quiet followOpt ((translate tomlNameMap b).map lex) = true) :
    tomlSays followOpt ((translate tomlNameMap (a ++ (followKey, .sc (.int N)) :: b)).map lex)
      = some (.int N) := by
  have hact : followOpt.action = .store := by rw [followOpt_eq]
  have hty : followOpt.vtype = .int := by rw [followOpt_eq]
  simp only [tomlSays, hact, vals, occ_follow_toml a b N ha hb, hty]
  rfl

theorem tomlSays_follow_quiet (conf : Toml)
    (h : quiet followOpt ((translate tomlNameMap conf).map lex) = true) :
    tomlSays followOpt ((translate tomlNameMap conf).map lex) = none := by
  have hact : followOpt.action = .store := by rw [followOpt_eq]
  simp only [tomlSays, hact, vals, occ_quiet followOpt _ h]
  rfl

theorem cliSays_follow_quiet (toks : List Tok) (h : quiet followOpt toks = true) :
    cliSays followOpt toks = [] := by
  have hact : followOpt.action = .store := by rw [followOpt_eq]
  simp only [cliSays, hact, vals, occ_quiet followOpt _ h]
  rfl

/-! ### `parse_arguments` = CLI pass (for `-c`), TOML pass, CLI pass -/

theorem validate_nil : validateToml tomlTypeMap [] = .ok [] := by decide +kernel

/-- When `parse_arguments` (no explicit conf) succeeds, a TOML table was selected and validated,
its translation parsed, and the command line parsed on top of it. -/
theorem parseArguments_ok (w : World) (argv : List Text) (eoe : Bool) (ns : Namespace)
    (h : parseArguments w none argv eoe = .ok ns) :
    ∃ conf ns1, selectedToml w argv = some conf ∧
      parse tomlParser ((translate tomlNameMap conf).map lex) [] = .ok ns1 ∧
      parse cliParser (argv.map lex) ns1 = .ok ns := by
  unfold parseArguments at h
  unfold selectedToml
  cases h0 : parse cliParser (argv.map lex) [] with
  | error e => simp [h0] at h
  | ok ns0 =>
    simp only [h0] at h ⊢
    cases hsel : selectFile (getOverride w ns0) (findPyproject w) with
    | none =>
      simp only [hsel, validate_nil] at h ⊢
      cases h1 : parse tomlParser ((translate tomlNameMap []).map lex) [] with
      | error e => simp only [h1] at h; cases eoe <;> simp [tomlErr] at h
      | ok ns1 =>
        simp only [h1] at h
        cases h2 : parse cliParser (argv.map lex) ns1 with
        | error e => simp [h2] at h
        | ok ns' =>
          simp only [h2, Outcome.ok.injEq] at h
          subst h
          exact ⟨[], ns1, rfl, h1, h2⟩
    | some f =>
      cases f with
      | decodeError => simp only [hsel] at h; cases eoe <;> simp [tomlErr] at h
      | table c =>
        simp only [hsel] at h ⊢
        cases hv : validateToml tomlTypeMap c with
        | error e => simp only [hv] at h; cases eoe <;> simp [tomlErr] at h
        | ok c' =>
          simp only [hv] at h ⊢
          cases h1 : parse tomlParser ((translate tomlNameMap c').map lex) [] with
          | error e => simp only [h1] at h; cases eoe <;> simp [tomlErr] at h
          | ok ns1 =>
            simp only [h1] at h
            cases h2 : parse cliParser (argv.map lex) ns1 with
            | error e => simp [h2] at h
            | ok ns' =>
              simp only [h2, Outcome.ok.injEq] at h
              subst h
              exact ⟨c', ns1, rfl, h1, h2⟩

/-- The bits `Arguments.follow_*_imports` compute are those of one of the four documented levels. -/
theorem flagsOfVal_some {v : Val} {fl : Imports.Flags} (h : flagsOfVal v = some fl) :
    ∃ N : Nat, N < 4 ∧ v = .int (N : Int) ∧ fl = Spec.levelFlags N := by
  unfold flagsOfVal at h
  split at h
  · exact ⟨0, by omega, rfl, by injection h with h; rw [← h]; rfl⟩
  · exact ⟨1, by omega, rfl, by injection h with h; rw [← h]; rfl⟩
  · exact ⟨2, by omega, rfl, by injection h with h; rw [← h]; rfl⟩
  · exact ⟨3, by omega, rfl, by injection h with h; rw [← h]; rfl⟩
  · cases h

end Rattr.C12

/-
  The file walk over module-level FUNCTION definitions does not depend on their order.

  `FileAnalyser.visit_AnyFunctionDef` analyses the body in the context AS IT IS AT THAT MOMENT (the
  context object is shared by the whole walk). `FnA.analyse_ctx` (VisitFrame.lean) shows that the
  analysis of a function hands the context back unchanged, so

    * `visitFuncDef_uniform`: what one `def` does is a function of the context alone — from every
      state with that context it ends the same way, leaves the context alone, performs the same single
      update of the FileIr and appends the same diagnostics;
    * `visitTops_funcDefs`: a walk over function definitions keeps the context, and the IR stored under
      a key is the one ANY definition storing that key produces in the INITIAL context (two definitions
      storing one key are assumed equal — `Unambiguous`);
    * `funcDefs_order_independent`: two walks over lists with the same members (any order, any
      multiplicity) end with the same context and the same IR under every key.

  (Class definitions DO change the context — `update_symbol`, static methods — which is the known
  finding `static-method-defined-after-caller`.)
-/
import RattrProofs.Lemmas.VisitFrame
import RattrProofs.Lemmas.FileAnalyser

namespace Rattr.FileA
open Rattr Rattr.Strs Rattr.FnA Rattr.RootCtx

/-- one update of the FileIr: nothing, or `file_ir[key] = ir` -/
def applyU (u : Option (Sym × IR)) (d : Dict Sym IR) : Dict Sym IR :=
  match u with
  | none => d
  | some (k, ir) => Dict.set d k ir

/-- from EVERY state whose context is `c`, `g` ends normally, leaves the context alone, applies the
update `u` to the FileIr and appends the diagnostics `ds`. -/
def UniformOk (g : FState → FOut) (c : Context) (u : Option (Sym × IR)) (ds : List Diag) : Prop :=
  ∀ s₂ : FState, s₂.ctx = c → g s₂ = .ok { ctx := c, ir := applyU u s₂.ir, diags := s₂.diags ++ ds }

theorem UniformOk.unique {g : FState → FOut} {c : Context} {u u' : Option (Sym × IR)} {ds ds' : List Diag}
    (h : UniformOk g c u ds) (h' : UniformOk g c u' ds') : u = u' := by
  have a := h { ctx := c } rfl
  have b := h' { ctx := c } rfl
  rw [a] at b
  injection b with b
  injection b with _ b _
  cases u with
  | none =>
    cases u' with
    | none => rfl
    | some p => obtain ⟨k, ir⟩ := p; simp [applyU, Dict.set] at b
  | some p =>
    obtain ⟨k, ir⟩ := p
    cases u' with
    | none => simp [applyU, Dict.set] at b
    | some p' => obtain ⟨k', ir'⟩ := p'; simp [applyU, Dict.set] at b; simp [b]

theorem visitFuncDef_uniform (env : Env) (mn : Str) (f : Facts) (name : Str) (ps : Params) (body : List Node)
    (decos : List Ann.Deco) (s s' : FState) (h : visitFuncDef env mn f name ps body decos s = .ok s') :
    ∃ u ds, UniformOk (visitFuncDef env mn f name ps body decos) s.ctx u ds := by
  cases hI : Ann.hasAnnotation Ann.nIgnore decos with
  | fatal x => simp [visitFuncDef, liftAnn, hI] at h
  | crash x => simp [visitFuncDef, liftAnn, hI] at h
  | ok ignored =>
    cases ignored with
    | true =>
      refine ⟨none, [], ?_⟩
      intro s₂ h₂; obtain ⟨c2, i2, d2⟩ := s₂; simp only at h₂; subst h₂
      simp [visitFuncDef, liftAnn, hI, applyU]
    | false =>
      by_cases hx : excluded f name = true
      · refine ⟨none, [], ?_⟩
        intro s₂ h₂; obtain ⟨c2, i2, d2⟩ := s₂; simp only at h₂; subst h₂
        simp [visitFuncDef, liftAnn, hI, hx, applyU]
      · cases hfn : getFunc s.ctx name with
        | none =>
          refine ⟨none, [mkDiag .error "func-undefined" name], ?_⟩
          intro s₂ h₂; obtain ⟨c2, i2, d2⟩ := s₂; simp only at h₂; subst h₂
          simp [visitFuncDef, liftAnn, hI, hx, hfn, applyU, FState.diag]
        | some fn =>
          cases hR : Ann.hasAnnotation Ann.nResults decos with
          | fatal x => simp [visitFuncDef, liftAnn, hI, hx, hfn, hR] at h
          | crash x => simp [visitFuncDef, liftAnn, hI, hx, hfn, hR] at h
          | ok declared =>
            cases declared with
            | true =>
              cases hP : Ann.parseAnnotated decos with
              | fatal x => simp [visitFuncDef, liftAnn, hI, hx, hfn, hR, declaredIr, hP] at h
              | crash x => simp [visitFuncDef, liftAnn, hI, hx, hfn, hR, declaredIr, hP] at h
              | ok d =>
                refine ⟨some (fn, ⟨dedupNames d.gets, dedupNames d.sets, dedupNames d.dels,
                  (declaredCalls env s.ctx d.calls).1.foldl addCall []⟩), (declaredCalls env s.ctx d.calls).2, ?_⟩
                intro s₂ h₂; obtain ⟨c2, i2, d2⟩ := s₂; simp only at h₂; subst h₂
                simp [visitFuncDef, liftAnn, hI, hx, hfn, hR, declaredIr, hP, applyU]
            | false =>
              cases hc : analyserFor env mn (some fn) with
              | some q => simp [visitFuncDef, liftAnn, hI, hx, hfn, hR, hc] at h
              | none =>
                cases hA : FnA.analyse env mn s.ctx ps body with
                | fatal t d => simp [visitFuncDef, liftAnn, hI, hx, hfn, hR, hc, analyseInto, liftRes, hA] at h
                | crash t e => simp [visitFuncDef, liftAnn, hI, hx, hfn, hR, hc, analyseInto, liftRes, hA] at h
                | ok t =>
                  have hctx := analyse_ctx env mn s.ctx ps body t hA
                  refine ⟨some (fn, irOf t), t.diags, ?_⟩
                  intro s₂ h₂; obtain ⟨c2, i2, d2⟩ := s₂; simp only at h₂; subst h₂
                  simp [visitFuncDef, liftAnn, hI, hx, hfn, hR, hc, analyseInto, liftRes, hA, applyU, hctx]

/-- a module-level function definition (plain or async) -/
def isFuncDef : Top → Bool
  | .funcDef .. => true
  | _ => false

theorem visitTop_uniform (env : Env) (mn : Str) (f : Facts) (t : Top) (ht : isFuncDef t = true) (s s' : FState)
    (h : visitTop env mn f t s = .ok s') : ∃ u ds, UniformOk (visitTop env mn f t) s.ctx u ds := by
  cases t with
  | funcDef name ps body decos a =>
    have e : visitTop env mn f (.funcDef name ps body decos a) = visitFuncDef env mn f name ps body decos := by
      funext s; rw [visitTop]
    rw [e] at h ⊢
    exact visitFuncDef_uniform env mn f name ps body decos s s' h
  | _ => simp [isFuncDef] at ht

/-- `Stores env mn f c t key ir`: visited in context `c`, definition `t` performs `file_ir[key] = ir`. -/
def Stores (env : Env) (mn : Str) (f : Facts) (c : Context) (t : Top) (key : Sym) (ir : IR) : Prop :=
  ∃ ds, UniformOk (visitTop env mn f t) c (some (key, ir)) ds

/-- two definitions of the list that store one key store the same IR (e.g. all defined names are distinct). -/
def Unambiguous (env : Env) (mn : Str) (f : Facts) (c : Context) (defs : List Top) : Prop :=
  ∀ t ∈ defs, ∀ t' ∈ defs, ∀ key ir ir', Stores env mn f c t key ir → Stores env mn f c t' key ir' → ir = ir'

/-- the key definition `t` stores when visited in context `c` (computable) -/
def storedKey (env : Env) (mn : Str) (f : Facts) (c : Context) (t : Top) : Option Sym :=
  match visitTop env mn f t { ctx := c } with
  | .ok st => st.ir.head?.map (·.1)
  | _ => none

theorem Stores.storedKey {env : Env} {mn : Str} {f : Facts} {c : Context} {t : Top} {key : Sym} {ir : IR}
    (h : Stores env mn f c t key ir) : storedKey env mn f c t = some key := by
  obtain ⟨ds, hu⟩ := h
  have := hu { ctx := c } rfl
  simp [FileA.storedKey, this, applyU, Dict.set]

/-- definitions whose stored keys are pairwise different (e.g. distinct names) are unambiguous -/
theorem unambiguous_of_pairwise (env : Env) (mn : Str) (f : Facts) (c : Context) (defs : List Top)
    (h : defs.Pairwise (fun t t' => storedKey env mn f c t ≠ storedKey env mn f c t')) :
    Unambiguous env mn f c defs := by
  have refl : ∀ a k ir ir', Stores env mn f c a k ir → Stores env mn f c a k ir' → ir = ir' := by
    intro a k ir ir' h1 h2
    obtain ⟨_, u1⟩ := h1
    obtain ⟨_, u2⟩ := h2
    have := u1.unique u2
    simp at this; exact this
  induction defs with
  | nil => intro t ht; cases ht
  | cons a r ih =>
    rw [List.pairwise_cons] at h
    obtain ⟨ha, hr⟩ := h
    intro t ht t' ht' k ir ir' h1 h2
    rcases List.mem_cons.mp ht with rfl | htr
    · rcases List.mem_cons.mp ht' with rfl | htr'
      · exact refl _ k ir ir' h1 h2
      · exact absurd (h1.storedKey.trans h2.storedKey.symm) (ha t' htr')
    · rcases List.mem_cons.mp ht' with rfl | htr'
      · exact absurd (h2.storedKey.trans h1.storedKey.symm) (ha t htr)
      · exact ih hr t htr t' htr' k ir ir' h1 h2

theorem get?_applyU_other (u : Option (Sym × IR)) (d : Dict Sym IR) (key : Sym)
    (h : ∀ ir, u ≠ some (key, ir)) : Dict.get? (applyU u d) key = Dict.get? d key := by
  cases u with
  | none => rfl
  | some p =>
    obtain ⟨k, ir⟩ := p
    have : k ≠ key := by intro e; subst e; exact h ir rfl
    simp only [applyU]
    exact Dict.get?_set_other d k key ir this

/-- The walk over function definitions: the context is kept; a key no definition stores keeps its
entry; a key some definition stores ends up with that definition's IR. -/
theorem visitTops_funcDefs (env : Env) (mn : Str) (f : Facts) (defs : List Top)
    (hall : ∀ t ∈ defs, isFuncDef t = true) (s s' : FState) (hU : Unambiguous env mn f s.ctx defs)
    (h : visitTops env mn f defs s = .ok s') :
    s'.ctx = s.ctx ∧
    (∀ key, (∀ t ∈ defs, ∀ ir, ¬ Stores env mn f s.ctx t key ir) → Dict.get? s'.ir key = Dict.get? s.ir key) ∧
    (∀ key ir, ∀ t ∈ defs, Stores env mn f s.ctx t key ir → Dict.get? s'.ir key = some ir) := by
  induction defs generalizing s with
  | nil =>
    simp only [visitTops] at h
    injection h with h; subst h
    exact ⟨rfl, fun _ _ => rfl, fun _ _ t ht => by cases ht⟩
  | cons t r ih =>
    simp only [visitTops] at h
    cases h1 : visitTop env mn f t s with
    | fatal a d => rw [h1] at h; simp [fbind] at h
    | crash a e => rw [h1] at h; simp [fbind] at h
    | ok s1 =>
      rw [h1] at h; simp only [fbind] at h
      obtain ⟨u, ds, hu⟩ := visitTop_uniform env mn f t (hall t (List.mem_cons_self ..)) s s1 h1
      have e1 := hu s rfl
      rw [h1] at e1
      injection e1 with e1
      have hc1 : s1.ctx = s.ctx := by rw [e1]
      have hi1 : s1.ir = applyU u s.ir := by rw [e1]
      have hU' : Unambiguous env mn f s1.ctx r := by
        rw [hc1]; intro a ha b hb; exact hU a (List.mem_cons_of_mem _ ha) b (List.mem_cons_of_mem _ hb)
      obtain ⟨c2, keep, store⟩ := ih (fun a ha => hall a (List.mem_cons_of_mem _ ha)) s1 hU' h
      rw [hc1] at keep store
      refine ⟨c2.trans hc1, ?_, ?_⟩
      · intro key hno
        rw [keep key (fun a ha ir => hno a (List.mem_cons_of_mem _ ha) ir), hi1]
        apply get?_applyU_other
        intro ir e
        exact hno t (List.mem_cons_self ..) ir ⟨ds, by rw [← e]; exact hu⟩
      · intro key ir a ha hst
        by_cases hex : ∃ b ∈ r, ∃ ir', Stores env mn f s.ctx b key ir'
        · obtain ⟨b, hb, ir', hb'⟩ := hex
          have : ir = ir' := hU a ha b (List.mem_cons_of_mem _ hb) key ir ir' hst hb'
          rw [this]; exact store key ir' b hb hb'
        · have hno : ∀ b ∈ r, ∀ ir', ¬ Stores env mn f s.ctx b key ir' :=
            fun b hb ir' hs => hex ⟨b, hb, ir', hs⟩
          rw [keep key hno, hi1]
          rcases List.mem_cons.mp ha with rfl | ha'
          · obtain ⟨ds', hst'⟩ := hst
            have : u = some (key, ir) := hu.unique hst'
            rw [this]; simp only [applyU]
            exact Dict.get?_set_self s.ir key ir
          · exact absurd hst (hno a ha' ir)

/-- ORDER INDEPENDENCE of the file walk over function definitions: two lists with the same members
(a permutation, or any reordering with repetitions) walked from states with the same context and the
same entries end with the same context and the same IR under every key. -/
theorem funcDefs_order_independent (env : Env) (mn : Str) (f : Facts) (defs₁ defs₂ : List Top)
    (hmem : ∀ t, t ∈ defs₁ ↔ t ∈ defs₂) (hall : ∀ t ∈ defs₁, isFuncDef t = true)
    (s a b : FState) (hU : Unambiguous env mn f s.ctx defs₁)
    (h₁ : visitTops env mn f defs₁ s = .ok a) (h₂ : visitTops env mn f defs₂ s = .ok b) :
    a.ctx = b.ctx ∧ ∀ key, Dict.get? a.ir key = Dict.get? b.ir key := by
  have hall₂ : ∀ t ∈ defs₂, isFuncDef t = true := fun t ht => hall t ((hmem t).mpr ht)
  have hU₂ : Unambiguous env mn f s.ctx defs₂ :=
    fun t ht t' ht' => hU t ((hmem t).mpr ht) t' ((hmem t').mpr ht')
  obtain ⟨c1, k1, s1⟩ := visitTops_funcDefs env mn f defs₁ hall s a hU h₁
  obtain ⟨c2, k2, s2⟩ := visitTops_funcDefs env mn f defs₂ hall₂ s b hU₂ h₂
  refine ⟨c1.trans c2.symm, ?_⟩
  intro key
  by_cases hex : ∃ t ∈ defs₁, ∃ ir, Stores env mn f s.ctx t key ir
  · obtain ⟨t, ht, ir, hst⟩ := hex
    rw [s1 key ir t ht hst, s2 key ir t ((hmem t).mp ht) hst]
  · have hno₁ : ∀ t ∈ defs₁, ∀ ir, ¬ Stores env mn f s.ctx t key ir := fun t ht ir hs => hex ⟨t, ht, ir, hs⟩
    have hno₂ : ∀ t ∈ defs₂, ∀ ir, ¬ Stores env mn f s.ctx t key ir :=
      fun t ht ir hs => hex ⟨t, (hmem t).mpr ht, ir, hs⟩
    rw [k1 key hno₁, k2 key hno₂]

/-- UNRELATED DEFINITIONS: walking extra function definitions (before, between or after) does not change
the IR stored under a key none of them stores. -/
theorem funcDefs_unrelated (env : Env) (mn : Str) (f : Facts) (defs extra : List Top)
    (hsub : ∀ t ∈ defs, t ∈ extra) (hall : ∀ t ∈ extra, isFuncDef t = true)
    (s a b : FState) (hU : Unambiguous env mn f s.ctx extra)
    (h₁ : visitTops env mn f defs s = .ok a) (h₂ : visitTops env mn f extra s = .ok b)
    (key : Sym) (hkey : ∀ t ∈ extra, t ∉ defs → ∀ ir, ¬ Stores env mn f s.ctx t key ir) :
    Dict.get? a.ir key = Dict.get? b.ir key := by
  have hU₁ : Unambiguous env mn f s.ctx defs := fun t ht t' ht' => hU t (hsub t ht) t' (hsub t' ht')
  obtain ⟨_, k1, s1⟩ := visitTops_funcDefs env mn f defs (fun t ht => hall t (hsub t ht)) s a hU₁ h₁
  obtain ⟨_, k2, s2⟩ := visitTops_funcDefs env mn f extra hall s b hU h₂
  by_cases hex : ∃ t ∈ defs, ∃ ir, Stores env mn f s.ctx t key ir
  · obtain ⟨t, ht, ir, hst⟩ := hex
    rw [s1 key ir t ht hst, s2 key ir t (hsub t ht) hst]
  · have hno₁ : ∀ t ∈ defs, ∀ ir, ¬ Stores env mn f s.ctx t key ir := fun t ht ir hs => hex ⟨t, ht, ir, hs⟩
    have hno₂ : ∀ t ∈ extra, ∀ ir, ¬ Stores env mn f s.ctx t key ir := by
      intro t ht ir hs
      by_cases hd : t ∈ defs
      · exact hno₁ t hd ir hs
      · exact hkey t ht hd ir hs
    rw [k1 key hno₁, k2 key hno₂]

end Rattr.FileA

/-
  Lemmas for the substitution part of C11: a well-formed declared spelling starts with its basename, so
  `unbind_name` is exactly the spec's root replacement.
-/
import RattrModel.DeclaredInline
import RattrModel.Spec.DeclaredSubst
import RattrProofs.Lemmas.C11

namespace Rattr.C11
open Rattr Rattr.Ann Rattr.Spec.Honoured Rattr.Results

/-- `as_name`'s reading: the root is everything before the first `.` -/
def rootDot (s : Str) : Str :=
  match s with
  | '*' :: t => t.takeWhile (· != '.')
  | _ => s.takeWhile (· != '.')

def substDot (s r : Str) : Str :=
  match s with
  | '*' :: t => '*' :: (r ++ t.dropWhile (· != '.'))
  | _ => r ++ s.dropWhile (· != '.')

theorem isIdStart_ne_star (c : Char) (h : isIdStart c = true) : c ≠ '*' := by
  intro he; subst he; revert h; decide

theorem isIdCont_ne_star (c : Char) (h : isIdCont c = true) : c ≠ '*' := by
  intro he; subst he; revert h; decide

theorem filter_noStar (l : Str) (h : ∀ c ∈ l, c ≠ '*') : l.filter (· != '*') = l := by
  rw [List.filter_eq_self]
  intro c hc
  simpa using h c hc

/-- the characters of an identifier after its optional leading `*` contain no `*` -/
theorem ident_tail_noStar (t : Str) (c : Char) (r : Str)
    (hd : dropLeading '@' t = c :: r) (hs : isIdStart c = true) (hr : r.all isIdCont = true) :
    ∀ x ∈ t, x ≠ '*' := by
  have hcr : ∀ x ∈ c :: r, x ≠ '*' := by
    intro x hx
    rcases List.mem_cons.mp hx with rfl | hx
    · exact isIdStart_ne_star _ hs
    · exact isIdCont_ne_star _ (List.all_eq_true.mp hr x hx)
  cases t with
  | nil => intro x hx; cases hx
  | cons y t' =>
    simp only [dropLeading] at hd
    by_cases hy : y = '@'
    · simp only [hy, if_true] at hd
      subst hy
      intro x hx
      rcases List.mem_cons.mp hx with rfl | hx
      · decide
      · exact hcr x (hd ▸ hx)
    · simp only [hy, if_false] at hd
      intro x hx
      exact hcr x (hd ▸ hx)

/-- shape of an identifier: either `*t` or `t`, `t` free of `*` and not starting with `*` -/
theorem ident_shape (s : Str) (h : isIdent s = true) :
    (∃ t, s = '*' :: t ∧ (∀ x ∈ t, x ≠ '*')) ∨ (s.head? ≠ some '*' ∧ ∀ x ∈ s, x ≠ '*') := by
  unfold isIdent at h
  cases s with
  | nil => simp [dropLeading] at h
  | cons y t =>
    by_cases hy : y = '*'
    · subst hy
      left
      refine ⟨t, rfl, ?_⟩
      have hdl : dropLeading '*' ('*' :: t) = t := by simp [dropLeading]
      rw [hdl] at h
      cases hd : dropLeading '@' t with
      | nil => rw [hd] at h; cases h
      | cons c r =>
        rw [hd] at h
        simp only [Bool.and_eq_true] at h
        exact ident_tail_noStar t c r hd h.1 h.2
    · right
      have hdl : dropLeading '*' (y :: t) = y :: t := by simp [dropLeading, hy]
      rw [hdl] at h
      refine ⟨by simp [hy], ?_⟩
      cases hd : dropLeading '@' (y :: t) with
      | nil => rw [hd] at h; cases h
      | cons c r =>
        rw [hd] at h
        simp only [Bool.and_eq_true] at h
        exact ident_tail_noStar (y :: t) c r hd h.1 h.2

theorem drop_takeWhile_length (p : Char → Bool) (t : Str) :
    t.drop (t.takeWhile p).length = t.dropWhile p := by
  have h := List.takeWhile_append_dropWhile (p := p) (l := t)
  calc t.drop (t.takeWhile p).length
      = (t.takeWhile p ++ t.dropWhile p).drop (t.takeWhile p).length := by rw [h]
    _ = t.dropWhile p := List.drop_left

theorem isPrefixOf_takeWhile (p : Char → Bool) (t : Str) : (t.takeWhile p).isPrefixOf t = true := by
  rw [List.isPrefixOf_iff_prefix]
  exact List.takeWhile_prefix p

/-- `unbind_name` on a well-formed declared spelling is the replacement of everything before the first `.`. -/
theorem unbindName_specName_dot (s nb : Str) (h : isIdent s = true) :
    unbindName (specName s) nb = some { full := substDot s nb, base := nb }
    ∧ (specName s).base = rootDot s := by
  rcases ident_shape s h with ⟨t, rfl, ht⟩ | ⟨hh, hs⟩
  · -- starred
    have hf : (('*' :: t).filter (· != '*')) = t := by
      simp only [List.filter_cons]
      simp [filter_noStar t ht]
    have hb : (specName ('*' :: t)).base = t.takeWhile (· != '.') := by
      simp only [specName, specBase, hf]
    refine ⟨?_, by simp only [hb, rootDot]⟩
    unfold unbindName
    simp only [hb]
    by_cases he : t.takeWhile (· != '.') = nb
    · simp only [he, if_true, specName, substDot]
      congr 1
      have := List.takeWhile_append_dropWhile (p := (· != '.')) (l := t)
      rw [he] at this
      simp only [specBase, hf, he, this]
    · simp only [he, if_false, specName, List.head?_cons, if_true, substDot]
      have hp : ('*' :: t.takeWhile (· != '.')).isPrefixOf ('*' :: t) = true := by
        simp only [List.isPrefixOf, BEq.rfl, Bool.true_and]
        exact isPrefixOf_takeWhile _ t
      rw [if_pos hp]
      simp only [List.length_cons, List.drop_succ_cons, drop_takeWhile_length, List.cons_append]
  · -- not starred
    have hf : (s.filter (· != '*')) = s := filter_noStar s hs
    have hb : (specName s).base = s.takeWhile (· != '.') := by simp only [specName, specBase, hf]
    have hroot : rootDot s = s.takeWhile (· != '.') := by
      unfold rootDot
      split
      · simp at hh
      · rfl
    have hsub : ∀ r, substDot s r = r ++ s.dropWhile (· != '.') := by
      intro r
      unfold substDot
      split
      · simp at hh
      · rfl
    refine ⟨?_, by rw [hb, hroot]⟩
    unfold unbindName
    simp only [hb]
    by_cases he : s.takeWhile (· != '.') = nb
    · simp only [he, if_true, specName, hsub]
      congr 1
      have := List.takeWhile_append_dropWhile (p := (· != '.')) (l := s)
      rw [he] at this
      simp only [specBase, hf, he, this]
    · have hst : ((specName s).full.head? = some '*') = False := by
        simp only [specName]; exact eq_false hh
      simp only [he, if_false, hst, hsub]
      have hp : (s.takeWhile (· != '.')).isPrefixOf (specName s).full = true := isPrefixOf_takeWhile _ s
      rw [if_pos hp]
      simp only [specName, drop_takeWhile_length]

theorem takeWhile_strengthen (p q : Char → Bool) (hq : ∀ c, q c = (p c && (c != '[' && c != '(')))
    (t : Str) (h : (t.takeWhile p).all (fun c => c != '[' && c != '(') = true) :
    t.takeWhile q = t.takeWhile p ∧ t.dropWhile q = t.dropWhile p := by
  induction t with
  | nil => exact ⟨rfl, rfl⟩
  | cons c r ih =>
    by_cases hp : p c = true
    · simp only [List.takeWhile_cons, hp, if_true, List.all_cons, Bool.and_eq_true] at h
      have hqc : q c = true := by
        rw [hq, hp]; simp only [Bool.true_and, Bool.and_eq_true]; exact h.1
      obtain ⟨i1, i2⟩ := ih h.2
      simp only [List.takeWhile_cons, List.dropWhile_cons, hp, hqc, if_true, i1, i2, and_self]
    · have hp' : p c = false := by simpa using hp
      have hqc : q c = false := by rw [hq, hp']; rfl
      simp only [List.takeWhile_cons, List.dropWhile_cons, hp', hqc]
      exact ⟨rfl, rfl⟩

theorem rootChar_eq (c : Char) : rootChar c = ((c != '.') && (c != '[' && c != '(')) := by
  unfold rootChar; cases (c != '.') <;> cases (c != '[') <;> cases (c != '(') <;> rfl

/-- on a spelling with a plain root, the property's reading and `as_name`'s reading coincide -/
theorem plainRoot_readings (s : Str) (h : isIdent s = true) (hp : plainRoot s = true) :
    rootOf s = rootDot s ∧ ∀ r, substSpelling s r = substDot s r := by
  rcases ident_shape s h with ⟨t, rfl, ht⟩ | ⟨hh, hs⟩
  · have hf : (('*' :: t).filter (· != '*')) = t := by
      simp only [List.filter_cons]
      simp [filter_noStar t ht]
    have hb : specBase ('*' :: t) = t.takeWhile (· != '.') := by simp only [specBase, hf]
    unfold plainRoot at hp
    rw [hb] at hp
    obtain ⟨e1, e2⟩ := takeWhile_strengthen (· != '.') rootChar rootChar_eq t hp
    exact ⟨by simp only [rootOf, rootDot, e1], fun r => by simp only [substSpelling, substDot, e2]⟩
  · have hf : (s.filter (· != '*')) = s := filter_noStar s hs
    have hb : specBase s = s.takeWhile (· != '.') := by simp only [specBase, hf]
    unfold plainRoot at hp
    rw [hb] at hp
    obtain ⟨e1, e2⟩ := takeWhile_strengthen (· != '.') rootChar rootChar_eq s hp
    have r1 : rootOf s = s.takeWhile rootChar := by
      unfold rootOf; split
      · simp at hh
      · rfl
    have r2 : rootDot s = s.takeWhile (· != '.') := by
      unfold rootDot; split
      · simp at hh
      · rfl
    have s1 : ∀ r, substSpelling s r = r ++ s.dropWhile rootChar := by
      intro r; unfold substSpelling; split
      · simp at hh
      · rfl
    have s2 : ∀ r, substDot s r = r ++ s.dropWhile (· != '.') := by
      intro r; unfold substDot; split
      · simp at hh
      · rfl
    exact ⟨by rw [r1, r2, e1], fun r => by rw [s1, s2, e2]⟩

/-- `unbind_name` on a well-formed declared spelling WITH A PLAIN ROOT is the spec's root replacement. -/
theorem unbindName_specName (s nb : Str) (h : isIdent s = true) (hp : plainRoot s = true) :
    unbindName (specName s) nb = some { full := substSpelling s nb, base := nb }
    ∧ (specName s).base = rootOf s := by
  obtain ⟨h1, h2⟩ := unbindName_specName_dot s nb h
  obtain ⟨e1, e2⟩ := plainRoot_readings s h hp
  exact ⟨by rw [h1, e2], by rw [h2, e1]⟩

/-- `unbind_ir_with_call_swaps` on a list of well-formed declared spellings = the simultaneous substitution. -/
theorem unbindList_declared (sw : Dict Str Str) (ss : List Str) (h : ∀ s ∈ ss, isIdent s = true)
    (hp : ss.all plainRoot = true) :
    unbindList sw (ss.map specName) = some (ss.map (substName sw)) := by
  induction ss with
  | nil => rfl
  | cons s r ih =>
    have hs := h s List.mem_cons_self
    simp only [List.all_cons, Bool.and_eq_true] at hp
    have ⟨h1, h2⟩ := unbindName_specName s ((Dict.get? sw (specName s).base).getD (specName s).base) hs hp.1
    simp only [List.map_cons, unbindList, h1, ih (fun x hx => h x (List.mem_cons_of_mem _ hx)) hp.2]
    simp only [substName, applyBinding, h2]

theorem strs_idents (xs : List PyVal) (h : xs.all isIdentV = true) : ∀ s ∈ strs xs, isIdent s = true := by
  induction xs with
  | nil => intro s hs; cases hs
  | cons v r ih =>
    simp only [List.all_cons, Bool.and_eq_true] at h
    cases v
    case str s0 =>
      intro s hs
      simp only [strs, List.mem_cons] at hs
      simp only [isIdentV] at h
      rcases hs with rfl | hs
      · exact h.1
      · exact ih h.2 s hs
    all_goals (simp [isIdentV] at h)

/-- a field that passed `setOfIdents`: its declared names are `specName` of identifiers -/
theorem declaredNames_field (f : Option PyVal) (h : fieldOk setOfIdents f = true) :
    declaredNames f = (declaredStrs f).map specName ∧ ∀ s ∈ declaredStrs f, isIdent s = true := by
  cases f with
  | none => exact ⟨rfl, fun s hs => by cases hs⟩
  | some v =>
    cases v
    case set xs => exact ⟨rfl, strs_idents xs (by simpa [fieldOk, setOfIdents] using h)⟩
    all_goals (simp [fieldOk, setOfIdents] at h)

end Rattr.C11

/-
  Lemmas about the root-context builder (`RattrModel/RootContext.lean`): the "extension" relation
  between contexts (bindings are never changed, keys are only appended) and its preservation by
  every registration of a module WITHOUT `del` and starred imports (`plainL`), by mutual induction
  over the statement tree and over the value of an assignment.
-/
import RattrModel.FileAnalyser
import RattrProofs.Lemmas.VisitCtx
import RattrProofs.Lemmas.DictKeys

namespace Rattr

namespace RootCtx
open Rattr.Strs Rattr.FnA Rattr.Context

def scopeKeys (c : Context) : List Str := (scopeSyms c).map (·.name)
def headKeys (c : Context) : List Str := Dict.keys (c.head?.getD [])

/-- `c'` extends `c`: still non-empty, every binding of `c` resolves unchanged, and the keys of
the current table are the old keys followed by new ones (insertion order = declaration order). -/
structure Ext (c c' : Context) : Prop where
  ne : c' ≠ []
  get : ∀ x v, get? c x = some v → get? c' x = some v
  keys : headKeys c <+: headKeys c'

theorem Ext.refl {c : Context} (h : c ≠ []) : Ext c c := ⟨h, fun _ _ h => h, List.prefix_rfl⟩

theorem Ext.trans {a b c : Context} (h1 : Ext a b) (h2 : Ext b c) : Ext a c :=
  ⟨h2.ne, fun x v h => h2.get x v (h1.get x v h), h1.keys.trans h2.keys⟩

theorem Ext.contains {c c' : Context} (h : Ext c c') {x : Str} (hx : contains c x = true) :
    contains c' x = true := by
  unfold Context.contains at hx ⊢
  cases hg : get? c x with
  | none => simp [hg] at hx
  | some v => simp [h.get x v hg]

theorem Ext.add {c : Context} (hc : c ≠ []) (s : Sym) : Ext c (Context.add c s) := by
  cases hcon : Context.contains c s.name with
  | true => rw [add_of_contains c s hcon]; exact Ext.refl hc
  | false =>
    refine ⟨add_ne_nil c s false hc, ?_, ?_⟩
    · intro x v hx
      by_cases hn : s.name = x
      · subst hn; simp [Context.contains, hx] at hcon
      · rw [get?_add_other c s false x hn]; exact hx
    · cases c with
      | nil => exact absurd rfl hc
      | cons sc r =>
        simp only [Context.add, hcon, Bool.not_false, Bool.or_true, if_true, headKeys, List.head?_cons, Option.getD_some]
        exact Dict.keys_set_prefix sc s.name s

theorem Ext.addNames {c : Context} (hc : c ≠ []) (names : List Str) (mk : Str → Sym) :
    Ext c (names.foldl (fun c n => Context.add c (mk n)) c) := by
  induction names generalizing c with
  | nil => exact Ext.refl hc
  | cons n r ih => exact (Ext.add hc (mk n)).trans (ih (add_ne_nil c (mk n) false hc))

/-! ### outcome predicates -/

/-- `Post Q r`: if `r` is a normal outcome, its state satisfies `Q`. -/
def Post (Q : St → Prop) (r : Res) : Prop := ∀ s', r = .ok s' → Q s'

theorem Post.ok {Q : St → Prop} {s : St} (h : Q s) : Post Q (.ok s) := by
  intro s' e; injection e with e; subst e; exact h
theorem Post.fatal {Q : St → Prop} {s : St} {d : Diag} : Post Q (.fatal s d) := by intro s' e; cases e
theorem Post.crash {Q : St → Prop} {s : St} {x : Str} : Post Q (.crash s x) := by intro s' e; cases e

theorem Post.bind {P Q : St → Prop} {r : Res} {f : St → Res} (hr : Post P r)
    (hf : ∀ s, P s → Post Q (f s)) : Post Q (r >>>= f) := by
  cases r with
  | ok s => exact hf s (hr s rfl)
  | fatal s d => exact Post.fatal
  | crash s e => exact Post.crash

theorem Post.liftName {Q : St → Prop} {s : St} {r : NameRes} {k : Str → Str → Res}
    (hk : ∀ b f, Post Q (k b f)) : Post Q (liftName s r k) := by
  cases r with
  | ok b f => exact hk b f
  | fatal d => exact Post.fatal
  | crash e => exact Post.crash

/-- the invariant carried through the builder: the current context extends `c0`. -/
def E (c0 : Context) (s : St) : Prop := Ext c0 s.ctx

theorem E.diag {c0 : Context} {s : St} (h : E c0 s) (d : Diag) : E c0 (St.diag s d) := h

theorem E.addSym {c0 : Context} {s : St} (h : E c0 s) (sy : Sym) :
    E c0 { s with ctx := Context.add s.ctx sy } := Ext.trans h (Ext.add h.ne sy)

theorem post_addIdentifiers {c0 : Context} (s : St) (t : Node) (h : E c0 s) :
    Post (E c0) (addIdentifiers s t) := by
  unfold FnA.addIdentifiers
  split
  · exact Post.ok (Ext.trans h (Ext.addNames h.ne _ _))
  · exact Post.fatal
  · exact Post.crash

theorem post_addIdentifiersL {c0 : Context} (ts : List Node) (s : St) (h : E c0 s) :
    Post (E c0) (addIdentifiersL s ts) := by
  induction ts generalizing s with
  | nil => exact Post.ok h
  | cons t r ih =>
    simp only [FnA.addIdentifiersL]
    exact Post.bind (post_addIdentifiers s t h) (fun s1 h1 => ih s1 h1)

/-! ### imports (no starred import) -/

theorem post_addImport {c0 : Context} (f : Facts) (s : St) (name qual m : Str) (h : E c0 s)
    (hn : name ≠ ['*']) : Post (E c0) (addImport f s name qual m) := by
  unfold addImport
  split
  · exact Post.fatal
  · simp only [hn, if_false]; exact Post.ok (E.addSym h _)

def noStarAliases (aliases : List Alias) : Bool := aliases.all fun a => aliasLocal a != ['*']

theorem post_addPlainImports {c0 : Context} (f : Facts) (aliases : List Alias) (s : St) (h : E c0 s)
    (hn : noStarAliases aliases = true) : Post (E c0) (addPlainImports f aliases s) := by
  induction aliases generalizing s with
  | nil => exact Post.ok h
  | cons a r ih =>
    simp only [noStarAliases, List.all_cons, Bool.and_eq_true, bne_iff_ne, ne_eq] at hn
    simp only [addPlainImports]
    exact Post.bind (post_addImport f s _ _ _ h hn.1) (fun s1 h1 => ih s1 h1 (by simpa [noStarAliases] using hn.2))

theorem post_addFromImports {c0 : Context} (f : Facts) (m : Str) (aliases : List Alias) (s : St) (h : E c0 s)
    (hn : noStarAliases aliases = true) : Post (E c0) (addFromImports f m aliases s) := by
  induction aliases generalizing s with
  | nil => exact Post.ok h
  | cons a r ih =>
    simp only [noStarAliases, List.all_cons, Bool.and_eq_true, bne_iff_ne, ne_eq] at hn
    simp only [addFromImports]
    exact Post.bind (post_addImport f s _ _ _ h hn.1) (fun s1 h1 => ih s1 h1 (by simpa [noStarAliases] using hn.2))

theorem post_visitImportFrom {c0 : Context} (f : Facts) (m : Option Str) (lvl : Nat) (aliases : List Alias)
    (abs : Str) (sf co : Bool) (s : St) (h : E c0 s) (hs : isStarred aliases = false)
    (hn : noStarAliases aliases = true) : Post (E c0) (visitImportFrom f m lvl aliases abs sf co s) := by
  unfold visitImportFrom
  simp only [hs, Bool.false_and, Bool.false_eq_true, if_false]
  split
  · split
    · exact Post.crash
    · exact post_addFromImports f abs aliases _ (by split <;> first | exact h | exact E.diag h _) hn
  · split
    · exact Post.fatal
    · exact post_addFromImports f _ aliases _ h hn

/-! ### assignments -/

theorem post_lambdaBranch {c0 : Context} (targets : List Node) (value : Node) (s : St) (h : E c0 s) :
    Post (E c0) (lambdaBranch targets value s) := by
  unfold lambdaBranch
  split
  · exact Post.ok (E.diag h _)
  · split
    · exact Post.liftName (fun _ name => Post.ok (E.addSym h _))
    · exact Post.crash

theorem post_namedtupleBranch {c0 : Context} (targets : List Node) (value : Node) (s : St) (h : E c0 s) :
    Post (E c0) (namedtupleBranch targets value s) := by
  unfold namedtupleBranch
  split
  · exact Post.ok (E.diag h _)
  · split
    · apply Post.liftName; intro _ name
      split
      · exact Post.ok (E.diag h _)
      · exact Post.ok (E.addSym h _)
    · exact Post.crash

local macro "assignV_other" : tactic => `(tactic|
  (rw [assignV.eq_def]; simp only []; split
   · exact post_lambdaBranch _ _ _ ‹_›
   · split
     · exact post_namedtupleBranch _ _ _ ‹_›
     · exact post_addIdentifiersL _ _ ‹_›))

mutual
theorem post_assignV {c0 : Context} (targets : List Node) : (v : Node) → (s : St) → E c0 s →
    Post (E c0) (assignV targets v s)
  | .walrus t v, s, h => by
    rw [assignV.eq_def]; simp only []
    refine Post.bind (P := E c0) ?_ (fun s1 h1 => post_addIdentifiersL targets s1 h1)
    refine Post.bind (post_assignV [t] v s h) ?_
    intro s1 h1
    split
    · split
      · split
        · exact Post.liftName (fun _ name => Post.ok (E.addSym h1 _))
        · exact Post.crash
      · exact Post.ok h1
      · exact Post.ok (E.diag h1 _)
    · exact Post.ok h1
  | .seq k elts c, s, h => by
    rw [assignV.eq_def]; simp only []
    split
    · exact post_lambdaBranch _ _ _ h
    · split
      · exact post_namedtupleBranch _ _ _ h
      · split
        · exact Post.bind (post_walrusElts elts s h) (fun s1 h1 => post_addIdentifiersL targets s1 h1)
        · exact post_addIdentifiersL targets s h
  | .name id c, s, h => by assignV_other
  | .attr v a c, s, h => by assignV_other
  | .sub v sl c, s, h => by assignV_other
  | .starred v c, s, h => by assignV_other
  | .call f args kwn kwv, s, h => by assignV_other
  | .lam ps body, s, h => by assignV_other
  | .comp k elts gens, s, h => by assignV_other
  | .gen t it ifs, s, h => by assignV_other
  | .strConst x, s, h => by assignV_other
  | .const, s, h => by assignV_other
  | .dict ks vs, s, h => by assignV_other
  | .assign ts v, s, h => by assignV_other
  | .annAssign t ann v, s, h => by assignV_other
  | .augAssign t v, s, h => by assignV_other
  | .delete ts, s, h => by assignV_other
  | .forLoop t it body orelse, s, h => by assignV_other
  | .withStmt items body, s, h => by assignV_other
  | .withitem ce vars, s, h => by assignV_other
  | .funcDef nm ps body, s, h => by assignV_other
  | .classDef nm, s, h => by assignV_other
  | .ret v, s, h => by assignV_other
  | .forbidden k, s, h => by assignV_other
  | .other k kids, s, h => by assignV_other

theorem post_walrusElts {c0 : Context} : (elts : List Node) → (s : St) → E c0 s →
    Post (E c0) (walrusElts elts s)
  | [], s, h => by rw [walrusElts.eq_def]; exact Post.ok h
  | .walrus t v :: r, s, h => by
    rw [walrusElts.eq_def]; simp only []
    refine Post.bind (post_assignV [t] v s h) ?_
    intro s1 h1
    exact post_walrusElts r _ (by split <;> first | exact h1 | exact E.diag h1 _)
  | .name id c :: r, s, h => by rw [walrusElts.eq_def]; exact post_walrusElts r s h
  | .attr v a c :: r, s, h => by rw [walrusElts.eq_def]; exact post_walrusElts r s h
  | .sub v sl c :: r, s, h => by rw [walrusElts.eq_def]; exact post_walrusElts r s h
  | .starred v c :: r, s, h => by rw [walrusElts.eq_def]; exact post_walrusElts r s h
  | .call f args kwn kwv :: r, s, h => by rw [walrusElts.eq_def]; exact post_walrusElts r s h
  | .lam ps body :: r, s, h => by rw [walrusElts.eq_def]; exact post_walrusElts r s h
  | .comp k elts gens :: r, s, h => by rw [walrusElts.eq_def]; exact post_walrusElts r s h
  | .gen t it ifs :: r, s, h => by rw [walrusElts.eq_def]; exact post_walrusElts r s h
  | .strConst x :: r, s, h => by rw [walrusElts.eq_def]; exact post_walrusElts r s h
  | .const :: r, s, h => by rw [walrusElts.eq_def]; exact post_walrusElts r s h
  | .seq k elts c :: r, s, h => by rw [walrusElts.eq_def]; exact post_walrusElts r s h
  | .dict ks vs :: r, s, h => by rw [walrusElts.eq_def]; exact post_walrusElts r s h
  | .assign ts v :: r, s, h => by rw [walrusElts.eq_def]; exact post_walrusElts r s h
  | .annAssign t ann v :: r, s, h => by rw [walrusElts.eq_def]; exact post_walrusElts r s h
  | .augAssign t v :: r, s, h => by rw [walrusElts.eq_def]; exact post_walrusElts r s h
  | .delete ts :: r, s, h => by rw [walrusElts.eq_def]; exact post_walrusElts r s h
  | .forLoop t it body orelse :: r, s, h => by rw [walrusElts.eq_def]; exact post_walrusElts r s h
  | .withStmt items body :: r, s, h => by rw [walrusElts.eq_def]; exact post_walrusElts r s h
  | .withitem ce vars :: r, s, h => by rw [walrusElts.eq_def]; exact post_walrusElts r s h
  | .funcDef nm ps body :: r, s, h => by rw [walrusElts.eq_def]; exact post_walrusElts r s h
  | .classDef nm :: r, s, h => by rw [walrusElts.eq_def]; exact post_walrusElts r s h
  | .ret v :: r, s, h => by rw [walrusElts.eq_def]; exact post_walrusElts r s h
  | .forbidden k :: r, s, h => by rw [walrusElts.eq_def]; exact post_walrusElts r s h
  | .other k kids :: r, s, h => by rw [walrusElts.eq_def]; exact post_walrusElts r s h
end

/-! ### the builder on modules without `del` and starred imports -/

mutual
/-- no `del` statement and no starred import among the statements the builder registers. -/
def plain : Top → Bool
  | .delete _ => false
  | .importStmt aliases => noStarAliases aliases
  | .importFrom _ _ aliases _ _ _ => !isStarred aliases && noStarAliases aliases
  | .tryStmt b h o fb => plainL b && plainL h && plainL o && plainL fb
  | .compound _ kids => plainL kids
  | _ => true
def plainL : List Top → Bool
  | [] => true
  | t :: r => plain t && plainL r
end

theorem post_visitAssignment {c0 : Context} (targets : List Node) (value : Option Node) (s : St)
    (h : E c0 s) : Post (E c0) (visitAssignment targets value s) := by
  unfold visitAssignment
  split
  · exact post_addIdentifiersL targets s h
  · exact post_assignV targets _ s h

theorem post_visitExpr {c0 : Context} (v : Node) (s : St) (h : E c0 s) : Post (E c0) (visitExpr v s) := by
  unfold visitExpr
  split <;> first | exact Post.ok h | exact Post.ok (E.diag h _)

mutual
theorem post_register {c0 : Context} (f : Facts) : (t : Top) → (s : St) → plain t = true → E c0 s →
    Post (E c0) (register f t s)
  | .importStmt aliases, s, hp, h => by
    rw [register.eq_def]; simp only []
    exact post_addPlainImports f aliases _ (by split <;> first | exact h | exact E.diag h _) (by simpa [plain] using hp)
  | .importFrom m lvl aliases abs sf co, s, hp, h => by
    rw [register.eq_def]; simp only []
    simp only [plain, Bool.and_eq_true, Bool.not_eq_true'] at hp
    exact post_visitImportFrom f m lvl aliases abs sf co s h hp.1 hp.2
  | .funcDef name ps b d a, s, _, h => by
    rw [register.eq_def]; exact Post.ok (E.addSym h _)
  | .classDef name bases body d, s, _, h => by
    rw [register.eq_def]; exact Post.ok (E.addSym h _)
  | .assign targets extra value, s, _, h => by
    rw [register.eq_def]; exact post_visitAssignment targets value s h
  | .delete targets, s, hp, _ => by simp [plain] at hp
  | .exprStmt v, s, _, h => by rw [register.eq_def]; exact post_visitExpr v s h
  | .expr n, s, _, h => by rw [register.eq_def]; exact Post.ok h
  | .tryStmt b hd o fb, s, hp, h => by
    rw [register.eq_def]; simp only []
    simp only [plain, Bool.and_eq_true] at hp
    exact Post.bind (post_registerL f b s hp.1.1.1 h) fun s1 h1 =>
      Post.bind (post_registerL f o s1 hp.1.2 h1) fun s2 h2 =>
        Post.bind (post_registerL f fb s2 hp.2 h2) fun s3 h3 => post_registerHandlers f hd s3 hp.1.1.2 h3
  | .compound kind kids, s, hp, h => by
    rw [register.eq_def]; simp only []
    split
    · exact post_registerL f kids s (by simpa [plain] using hp) h
    · exact Post.ok h

theorem post_registerL {c0 : Context} (f : Facts) : (ts : List Top) → (s : St) → plainL ts = true → E c0 s →
    Post (E c0) (registerL f ts s)
  | [], s, _, h => by rw [registerL.eq_def]; exact Post.ok h
  | t :: r, s, hp, h => by
    rw [registerL.eq_def]; simp only []
    simp only [plainL, Bool.and_eq_true] at hp
    exact Post.bind (post_register f t s hp.1 h) fun s1 h1 => post_registerL f r s1 hp.2 h1

theorem post_registerHandlers {c0 : Context} (f : Facts) : (ts : List Top) → (s : St) → plainL ts = true →
    E c0 s → Post (E c0) (registerHandlers f ts s)
  | [], s, _, h => by rw [registerHandlers.eq_def]; exact Post.ok h
  | .compound k kids :: r, s, hp, h => by
    rw [registerHandlers.eq_def]; simp only []
    simp only [plainL, plain, Bool.and_eq_true] at hp
    exact Post.bind (post_registerL f kids s hp.1 h) fun s1 h1 => post_registerHandlers f r s1 hp.2 h1
  | .importStmt _ :: r, s, hp, h => by
    rw [registerHandlers.eq_def]; simp only [plainL, Bool.and_eq_true] at hp; exact post_registerHandlers f r s hp.2 h
  | .importFrom .. :: r, s, hp, h => by
    rw [registerHandlers.eq_def]; simp only [plainL, Bool.and_eq_true] at hp; exact post_registerHandlers f r s hp.2 h
  | .funcDef .. :: r, s, hp, h => by
    rw [registerHandlers.eq_def]; simp only [plainL, Bool.and_eq_true] at hp; exact post_registerHandlers f r s hp.2 h
  | .classDef .. :: r, s, hp, h => by
    rw [registerHandlers.eq_def]; simp only [plainL, Bool.and_eq_true] at hp; exact post_registerHandlers f r s hp.2 h
  | .assign .. :: r, s, hp, h => by
    rw [registerHandlers.eq_def]; simp only [plainL, Bool.and_eq_true] at hp; exact post_registerHandlers f r s hp.2 h
  | .delete _ :: r, s, hp, h => by
    rw [registerHandlers.eq_def]; simp only [plainL, Bool.and_eq_true] at hp; exact post_registerHandlers f r s hp.2 h
  | .exprStmt _ :: r, s, hp, h => by
    rw [registerHandlers.eq_def]; simp only [plainL, Bool.and_eq_true] at hp; exact post_registerHandlers f r s hp.2 h
  | .expr _ :: r, s, hp, h => by
    rw [registerHandlers.eq_def]; simp only [plainL, Bool.and_eq_true] at hp; exact post_registerHandlers f r s hp.2 h
  | .tryStmt .. :: r, s, hp, h => by
    rw [registerHandlers.eq_def]; simp only [plainL, Bool.and_eq_true] at hp; exact post_registerHandlers f r s hp.2 h
end

/-! ### consequences -/

theorem registerL_append (f : Facts) (a b : List Top) (s : St) :
    registerL f (a ++ b) s = (registerL f a s >>>= fun s => registerL f b s) := by
  induction a generalizing s with
  | nil => simp [registerL, FnA.bind]
  | cons t r ih =>
    simp only [List.cons_append, registerL]
    cases register f t s with
    | ok s1 => simp [FnA.bind, ih]
    | fatal s1 d => simp [FnA.bind]
    | crash s1 e => simp [FnA.bind]

theorem initial_ne (bs : List Str) : initial bs ≠ [] := by simp [initial]

/-- what a plain suffix of the module does to a context: it extends it. -/
theorem registerL_ext (f : Facts) (ts : List Top) (s s' : St) (hp : plainL ts = true) (hs : s.ctx ≠ [])
    (h : registerL f ts s = .ok s') : Ext s.ctx s'.ctx :=
  post_registerL f ts s hp (Ext.refl hs) s' h

theorem register_ne (f : Facts) (t : Top) (s s' : St) (hp : plain t = true) (hs : s.ctx ≠ [])
    (h : register f t s = .ok s') : Ext s.ctx s'.ctx :=
  post_register f t s hp (Ext.refl hs) s' h

theorem step_add (c : Context) (sy : Sym) :
    Context.contains (Context.add c sy) sy.name = true ∧
    (Context.contains c sy.name = false → get? (Context.add c sy) sy.name = some sy) :=
  ⟨contains_add c sy, get?_add_fresh c sy⟩

/-- a statement followed by a plain rest of the module: whatever the statement bound stays bound,
unchanged, and the table only grows at the end. -/
theorem persist (f : Facts) (t : Top) (post : List Top) (s1 s' : St) (hp : plainL post = true)
    (h : registerL f (t :: post) s1 = .ok s') :
    ∃ s2, register f t s1 = .ok s2 ∧ (s2.ctx ≠ [] → Ext s2.ctx s'.ctx) := by
  simp only [registerL] at h
  cases hr : register f t s1 with
  | ok s2 =>
    rw [hr] at h
    exact ⟨s2, rfl, fun hne => registerL_ext f post s2 s' hp hne h⟩
  | fatal s2 d => rw [hr] at h; cases h
  | crash s2 e => rw [hr] at h; cases h

theorem add_ctx_ne (c : Context) (sy : Sym) : Context.add c sy ≠ [] := by
  intro hc
  have := contains_add c sy
  rw [hc] at this
  simp [Context.contains, Context.get?] at this

/-- core of `rootContext_binds_defs`: a statement whose registration is one `context.add(sym)`. -/
theorem binds_of_add (f : Facts) (t : Top) (post : List Top) (s1 s' : St) (sy : Sym)
    (hreg : register f t s1 = .ok { s1 with ctx := Context.add s1.ctx sy })
    (hp : plainL post = true) (h : registerL f (t :: post) s1 = .ok s') :
    Context.contains s'.ctx sy.name = true ∧
    (Context.contains s1.ctx sy.name = false → get? s'.ctx sy.name = some sy) := by
  obtain ⟨s2, h2, hext⟩ := persist f t post s1 s' hp h
  rw [hreg] at h2; injection h2 with h2; subst h2
  have e := hext (add_ctx_ne _ _)
  exact ⟨e.contains (step_add _ _).1, fun hf => e.get _ _ ((step_add _ _).2 hf)⟩

theorem register_funcDef (f : Facts) (name : Str) (ps : Params) (b : List Node) (d : List Ann.Deco) (a : Bool)
    (s : St) : register f (.funcDef name ps b d a) s = .ok { s with ctx := Context.add s.ctx (funcSym name ps.iface) } := by
  rw [register.eq_def]

theorem register_classDef (f : Facts) (name : Str) (bases : List Node) (body : List Top) (d : List Ann.Deco)
    (s : St) : register f (.classDef name bases body d) s = .ok { s with ctx := Context.add s.ctx (classSym name body) } := by
  rw [register.eq_def]

theorem register_lambda (f : Facts) (x : Str) (c : ECtx) (extra : List Node) (ps : Params) (body : Node) (s : St) :
    register f (.assign [.name x c] extra (some (.lam ps body))) s =
      .ok { s with ctx := Context.add s.ctx (funcSym x ps.iface) } := by
  rw [register.eq_def]
  simp [visitAssignment, assignV, lambdaInRhs, isLambda, lambdaBranch, oneToOne, isTupleOrList, namesOf, liftName]

theorem register_namedtuple (f : Facts) (x : Str) (c : ECtx) (extra : List Node) (fn : Node) (args : List Node)
    (kwn : List (Option Str)) (kwv : List Node) (attrs : List Str) (s : St)
    (hnt : targetIsNamedtuple (.call fn args kwn kwv) = true) (hsig : namedtupleSignature args = .ok attrs) :
    register f (.assign [.name x c] extra (some (.call fn args kwn kwv))) s =
      .ok { s with ctx := Context.add s.ctx (clsSym x ⟨[], attrs, none, [], none⟩) } := by
  rw [register.eq_def]
  simp [visitAssignment, assignV, lambdaInRhs, isLambda, namedtupleInRhs, hnt, namedtupleBranch, oneToOne,
    isTupleOrList, namesOf, liftName, hsig]

/-! ### imports -/

theorem addImport_ok (f : Facts) (s s' : St) (name qual m : Str) (hn : name ≠ ['*'])
    (h : addImport f s name qual m = .ok s') :
    s' = { s with ctx := Context.add s.ctx (importSym f name qual) } := by
  unfold addImport at h
  split at h
  · cases h
  · simp only [hn, if_false] at h; injection h with h; exact h.symm

theorem importSym_name (f : Facts) (name qual : Str) (hn : name ≠ ['*']) : (importSym f name qual).name = name := by
  simp [importSym, hn]

theorem addPlainImports_binds (f : Facts) (aliases : List Alias) (s s' : St) (hs : s.ctx ≠ [])
    (hn : noStarAliases aliases = true) (h : addPlainImports f aliases s = .ok s') :
    Ext s.ctx s'.ctx ∧ ∀ a ∈ aliases, Context.contains s'.ctx (aliasLocal a) = true := by
  induction aliases generalizing s with
  | nil => simp only [addPlainImports] at h; injection h with h; subst h; exact ⟨Ext.refl hs, by simp⟩
  | cons a r ih =>
    simp only [noStarAliases, List.all_cons, Bool.and_eq_true, bne_iff_ne, ne_eq] at hn
    simp only [addPlainImports] at h
    cases h1 : addImport f s (aliasLocal a) a.name a.name with
    | ok s1 =>
      rw [h1] at h; simp only [FnA.bind] at h
      have e1 := addImport_ok f s s1 _ _ _ hn.1 h1
      have hne1 : s1.ctx ≠ [] := by rw [e1]; exact add_ctx_ne _ _
      obtain ⟨er, hr⟩ := ih s1 hne1 (by simpa [noStarAliases] using hn.2) h
      have e01 : Ext s.ctx s1.ctx := by rw [e1]; exact Ext.add hs _
      refine ⟨e01.trans er, ?_⟩
      intro b hb
      rcases List.mem_cons.mp hb with hb | hb
      · subst hb
        apply er.contains
        rw [e1]
        have := (step_add s.ctx (importSym f (aliasLocal b) b.name)).1
        rwa [importSym_name f _ _ hn.1] at this
      · exact hr b hb
    | fatal s1 d => rw [h1] at h; cases h
    | crash s1 e => rw [h1] at h; cases h

theorem addFromImports_binds (f : Facts) (m : Str) (aliases : List Alias) (s s' : St) (hs : s.ctx ≠ [])
    (hn : noStarAliases aliases = true) (h : addFromImports f m aliases s = .ok s') :
    Ext s.ctx s'.ctx ∧ ∀ a ∈ aliases, Context.contains s'.ctx (aliasLocal a) = true := by
  induction aliases generalizing s with
  | nil => simp only [addFromImports] at h; injection h with h; subst h; exact ⟨Ext.refl hs, by simp⟩
  | cons a r ih =>
    simp only [noStarAliases, List.all_cons, Bool.and_eq_true, bne_iff_ne, ne_eq] at hn
    simp only [addFromImports] at h
    cases h1 : addImport f s (aliasLocal a) (m ++ '.' :: a.name) m with
    | ok s1 =>
      rw [h1] at h; simp only [FnA.bind] at h
      have e1 := addImport_ok f s s1 _ _ _ hn.1 h1
      have hne1 : s1.ctx ≠ [] := by rw [e1]; exact add_ctx_ne _ _
      obtain ⟨er, hr⟩ := ih s1 hne1 (by simpa [noStarAliases] using hn.2) h
      have e01 : Ext s.ctx s1.ctx := by rw [e1]; exact Ext.add hs _
      refine ⟨e01.trans er, ?_⟩
      intro b hb
      rcases List.mem_cons.mp hb with hb | hb
      · subst hb
        apply er.contains
        rw [e1]
        have := (step_add s.ctx (importSym f (aliasLocal b) (m ++ '.' :: b.name))).1
        rwa [importSym_name f _ _ hn.1] at this
      · exact hr b hb
    | fatal s1 d => rw [h1] at h; cases h
    | crash s1 e => rw [h1] at h; cases h

/-! ### plain assignments -/

/-- every name `unravel_names` yields for a target is bound after `add_identifiers_to_context`. -/
def TargetsBound (targets : List Node) (s' : St) : Prop :=
  ∀ t ∈ targets, ∀ names, unravelNames t = .ok names → ∀ n ∈ names, Context.contains s'.ctx n = true

theorem addIdentifiers_binds (s s' : St) (t : Node) (h : addIdentifiers s t = .ok s') :
    ∀ names, unravelNames t = .ok names → ∀ n ∈ names, Context.contains s'.ctx n = true := by
  intro names hn n hmem
  unfold FnA.addIdentifiers at h
  rw [hn] at h
  injection h with h; subst h
  exact contains_addNames s.ctx names n hmem

theorem addIdentifiersL_binds (targets : List Node) (s s' : St) (hs : s.ctx ≠ [])
    (h : addIdentifiersL s targets = .ok s') : TargetsBound targets s' := by
  induction targets generalizing s with
  | nil => intro t ht; cases ht
  | cons t r ih =>
    simp only [FnA.addIdentifiersL] at h
    cases h1 : addIdentifiers s t with
    | ok s1 =>
      rw [h1] at h; simp only [FnA.bind] at h
      have e1 : Ext s.ctx s1.ctx := post_addIdentifiers s t (Ext.refl hs) s1 h1
      have er : Ext s1.ctx s'.ctx := post_addIdentifiersL r s1 (Ext.refl e1.ne) s' h
      intro t' ht' names hn n hmem
      rcases List.mem_cons.mp ht' with ht' | ht'
      · subst ht'; exact er.contains (addIdentifiers_binds s s1 t' h1 names hn n hmem)
      · exact ih s1 e1.ne h t' ht' names hn n hmem
    | fatal s1 d => rw [h1] at h; cases h
    | crash s1 e => rw [h1] at h; cases h

end RootCtx
end Rattr

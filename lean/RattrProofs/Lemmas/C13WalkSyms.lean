/-
  Provenance of the `Import` symbols of a compiled root context (RattrModel/ImportWalk.lean): every
  one was made for a statement of the compiled file, and — for a relative import — carries the result
  of a call of `derive_absolute_module_name` that the walk logged for THAT file, level and target.
-/
import RattrProofs.Lemmas.C13Walk

namespace Rattr.Walk
open Rattr Rattr.Locator

theorem dict_set_mem {κ ν : Type} [DecidableEq κ] (d : Dict κ ν) (k : κ) (v : ν) (x : κ × ν) :
    x ∈ Dict.set d k v → x ∈ d ∨ x = (k, v) := by
  induction d with
  | nil =>
    intro h
    simp only [Dict.set, List.mem_singleton] at h
    exact Or.inr h
  | cons e r ih =>
    obtain ⟨a, b⟩ := e
    simp only [Dict.set]
    split
    · rename_i hk
      intro h
      rcases List.mem_cons.mp h with h | h
      · exact Or.inr (by rw [h, hk])
      · exact Or.inl (List.mem_cons_of_mem _ h)
    · intro h
      rcases List.mem_cons.mp h with h | h
      · exact Or.inl (by rw [h]; exact List.mem_cons_self ..)
      · rcases ih h with h | h
        · exact Or.inl (List.mem_cons_of_mem _ h)
        · exact Or.inr h

theorem tab_add_syms (t : Tab) (x σ : Sym) (h : σ ∈ (Tab.add t x).syms) : σ ∈ t.syms ∨ σ = x := by
  unfold Tab.add at h
  split at h
  · exact Or.inl h
  · simp only [Tab.syms, List.mem_map] at h ⊢
    obtain ⟨⟨k, v⟩, hm, rfl⟩ := h
    rcases dict_set_mem _ _ _ _ hm with h | h
    · exact Or.inl ⟨(k, v), h, rfl⟩
    · right
      simp only [Prod.mk.injEq] at h
      exact h.2

/-- an `Import` made at `line` for the from-import of module `a`: `a` itself (starred) or `a.<name>` -/
def FromSym (line : Nat) (a : Dotted) (σ : Sym) : Prop :=
  σ.isImport = true ∧ σ.line = line ∧ (σ.qual = a ∨ ∃ n, σ.qual = a ++ [n])

theorem addImport_syms {P : Proj} {c : Cur} {line : Nat} {name qual m : Dotted} {t t' : Tab} {s s' : St}
    (h : addImport P c line name qual m t s = .ok t' s') :
    s' = s ∧ ∀ σ, σ ∈ t'.syms →
      σ ∈ t.syms ∨ σ = { isImport := true, name := name, qual := qual, line := line, file := c } := by
  unfold addImport at h
  split at h
  · cases h
  · cases h
    exact ⟨rfl, fun σ hσ => tab_add_syms _ _ _ hσ⟩

theorem addFromNames_syms {P : Proj} {c : Cur} {line : Nat} {m : Dotted} (names : List (Str × Option Str))
    {t t' : Tab} {s s' : St} (h : addFromNames P c line m names t s = .ok t' s') :
    s' = s ∧ ∀ σ, σ ∈ t'.syms → σ ∈ t.syms ∨ FromSym line m σ := by
  induction names generalizing t s with
  | nil =>
    simp only [addFromNames] at h
    cases h
    exact ⟨rfl, fun σ hσ => Or.inl hσ⟩
  | cons na r ih =>
    obtain ⟨n, a⟩ := na
    simp only [addFromNames] at h
    cases h1 : addImport P c line [a.getD n] (m ++ [n]) m t s with
    | stop w s1 => rw [h1] at h; cases h
    | ok t1 s1 =>
      rw [h1] at h
      simp only [Out.bind] at h
      obtain ⟨hs1, hsy1⟩ := addImport_syms h1
      obtain ⟨hs2, hsy2⟩ := ih h
      refine ⟨hs2.trans hs1, ?_⟩
      intro σ hσ
      rcases hsy2 σ hσ with h2 | h2
      · rcases hsy1 σ h2 with h3 | h3
        · exact Or.inl h3
        · right
          subst h3
          exact ⟨rfl, rfl, Or.inr ⟨n, rfl⟩⟩
      · exact Or.inr h2

theorem addResolved_syms {P : Proj} {c : Cur} {line : Nat} {st : Bool} {a : Dotted}
    {names : List (Str × Option Str)} {t t' : Tab} {s s' : St}
    (h : addResolved P c line st a names t s = .ok t' s') :
    s' = s ∧ ∀ σ, σ ∈ t'.syms → σ ∈ t.syms ∨ FromSym line a σ := by
  unfold addResolved at h
  split at h
  · obtain ⟨hs, hsy⟩ := addImport_syms h
    refine ⟨hs, ?_⟩
    intro σ hσ
    rcases hsy σ hσ with h1 | h1
    · exact Or.inl h1
    · right
      subst h1
      exact ⟨rfl, rfl, Or.inl rfl⟩
  · exact addFromNames_syms names h

theorem relDiag_trace (st : Bool) (line : Nat) (found : Bool) (s : St) :
    (relDiag st line found s).trace = s.trace := by
  unfold relDiag
  split <;> rfl

theorem starWarn_trace (st : Bool) (c : Cur) (line : Nat) (s : St) :
    (starWarn st c line s).trace = s.trace := by
  unfold starWarn
  split <;> rfl

theorem relDiag_events (st : Bool) (line : Nat) (found : Bool) (s : St) :
    (relDiag st line found s).events = s.events := by
  unfold relDiag
  split <;> rfl

theorem starWarn_events (st : Bool) (c : Cur) (line : Nat) (s : St) :
    (starWarn st c line s).events = s.events := by
  unfold starWarn
  split <;> rfl

/-- what `visit_(starred_)relative_import` leaves behind: exactly one logged call, for this file,
level and target, and symbols built from its result -/
theorem visitRel_syms {P : Proj} {f : File} {c : Cur} {line level : Nat} {module : Option Dotted}
    {names : List (Str × Option Str)} {st : Bool} {t t' : Tab} {s s' : St}
    (h : visitRel P f c line level module names st t s = .ok t' s') :
    ∃ r, s'.trace = s.trace ++ [r] ∧ s'.events = s.events ∧ r.file = f.path ∧ r.stem = f.stem
      ∧ r.call.level = level ∧ r.call.target = module
      ∧ ∀ σ, σ ∈ t'.syms → σ ∈ t.syms ∨ FromSym line r.result σ := by
  unfold visitRel at h
  split at h
  · cases h
  · rename_i base hb
    simp only at h
    split at h
    · cases h
    · obtain ⟨hs, hsy⟩ := addResolved_syms h
      refine ⟨{ file := f.path, stem := f.stem, cur := c,
                call := { isInit := c.isInit, base := base, target := module, level := level },
                result := (resolveRel f c base module level s).1 }, ?_, ?_, rfl, rfl, rfl, rfl, hsy⟩
      · rw [hs, relDiag_trace]; rfl
      · rw [hs, relDiag_events]; rfl

/-- the symbols one from-import statement of `f` may have made, given the log `tr` -/
def StmtSym (f : File) (tr : List Rec) (line level : Nat) (module : Option Dotted) (σ : Sym) : Prop :=
  (level = 0 ∧ ∃ m, module = some m ∧ FromSym line m σ)
  ∨ (level ≠ 0 ∧ ∃ r, r ∈ tr ∧ r.file = f.path ∧ r.stem = f.stem ∧ r.call.level = level
      ∧ r.call.target = module ∧ FromSym line r.result σ)

theorem visitFrom_syms {P : Proj} {f : File} {c : Cur} {line level : Nat} {module : Option Dotted}
    {names : List (Str × Option Str)} {t t' : Tab} {s s' : St}
    (h : visitFrom P f c line level module names t s = .ok t' s') :
    (∃ ext, s'.trace = s.trace ++ ext) ∧ s'.events = s.events
    ∧ ∀ σ, σ ∈ t'.syms → σ ∈ t.syms ∨ StmtSym f s'.trace line level module σ := by
  unfold visitFrom at h
  simp only at h
  split at h
  · cases h
  · split at h
    · rename_i hlv
      have hl : level ≠ 0 := by
        intro h0; subst h0; simp at hlv
      obtain ⟨r, htr, hev, hf, hstem, hlev, htg, hsy⟩ := visitRel_syms h
      rw [starWarn_trace] at htr
      rw [starWarn_events] at hev
      refine ⟨⟨[r], htr⟩, hev, ?_⟩
      intro σ hσ
      rcases hsy σ hσ with h1 | h1
      · exact Or.inl h1
      · exact Or.inr (Or.inr ⟨hl, r, by rw [htr]; simp, hf, hstem, hlev, htg, h1⟩)
    · rename_i hlv
      have hl : level = 0 := by
        cases level with
        | zero => rfl
        | succ n => simp at hlv
      cases module with
      | none => simp only at h; cases h
      | some m =>
        simp only at h
        obtain ⟨hs, hsy⟩ := addResolved_syms h
        refine ⟨⟨[], by rw [hs, starWarn_trace]; simp⟩, by rw [hs, starWarn_events], ?_⟩
        intro σ hσ
        rcases hsy σ hσ with h1 | h1
        · exact Or.inl h1
        · exact Or.inr (Or.inl ⟨hl, m, rfl, h1⟩)

/-- where a symbol of `f`'s compiled root context comes from -/
def SymFrom (f : File) (tr : List Rec) (σ : Sym) : Prop :=
  σ.isImport = false
  ∨ (∃ line m a, Stmt.imp line m a ∈ f.stmts ∧ σ.line = line ∧ σ.qual = m)
  ∨ (∃ line level module names, Stmt.from_ line level module names ∈ f.stmts
      ∧ StmtSym f tr line level module σ)

theorem StmtSym.mono {f : File} {tr : List Rec} {line level : Nat} {module : Option Dotted} {σ : Sym}
    (ext : List Rec) (h : StmtSym f tr line level module σ) : StmtSym f (tr ++ ext) line level module σ := by
  rcases h with h | ⟨hl, r, hr, rest⟩
  · exact Or.inl h
  · exact Or.inr ⟨hl, r, List.mem_append_left _ hr, rest⟩

theorem SymFrom.mono {f : File} {tr : List Rec} {σ : Sym} (ext : List Rec) (h : SymFrom f tr σ) :
    SymFrom f (tr ++ ext) σ := by
  rcases h with h | h | ⟨line, level, module, names, hm, hs⟩
  · exact Or.inl h
  · exact Or.inr (Or.inl h)
  · exact Or.inr (Or.inr ⟨line, level, module, names, hm, hs.mono ext⟩)

theorem register_syms {P : Proj} {f : File} {stmt : Stmt} {t t' : Tab} {s s' : St}
    (hst : stmt ∈ f.stmts) (h : register P f stmt t s = .ok t' s') :
    (∃ ext, s'.trace = s.trace ++ ext) ∧ s'.events = s.events
    ∧ ∀ σ, σ ∈ t'.syms → σ ∈ t.syms ∨ SymFrom f s'.trace σ := by
  unfold register at h
  split at h
  · cases h
  · rename_i c hc
    cases stmt with
    | def_ line name =>
      simp only at h
      cases h
      refine ⟨⟨[], by simp⟩, rfl, ?_⟩
      intro σ hσ
      rcases tab_add_syms _ _ _ hσ with h1 | h1
      · exact Or.inl h1
      · exact Or.inr (Or.inl (by rw [h1]))
    | imp line m a =>
      simp only at h
      obtain ⟨hs, hsy⟩ := addImport_syms h
      refine ⟨⟨[], by rw [hs]; simp⟩, by rw [hs], ?_⟩
      intro σ hσ
      rcases hsy σ hσ with h1 | h1
      · exact Or.inl h1
      · exact Or.inr (Or.inr (Or.inl ⟨line, m, a, hst, by rw [h1], by rw [h1]⟩))
    | from_ line level m names =>
      simp only at h
      obtain ⟨hext, hev, hsy⟩ := visitFrom_syms h
      refine ⟨hext, hev, ?_⟩
      intro σ hσ
      rcases hsy σ hσ with h1 | h1
      · exact Or.inl h1
      · exact Or.inr (Or.inr (Or.inr ⟨line, level, m, names, hst, h1⟩))

theorem registerAll_syms {P : Proj} {f : File} (stmts : List Stmt) {t t' : Tab} {s s' : St}
    (hsub : ∀ st, st ∈ stmts → st ∈ f.stmts)
    (ht : ∀ σ, σ ∈ t.syms → SymFrom f s.trace σ)
    (h : registerAll P f stmts t s = .ok t' s') :
    (∃ ext, s'.trace = s.trace ++ ext) ∧ s'.events = s.events ∧ ∀ σ, σ ∈ t'.syms → SymFrom f s'.trace σ := by
  induction stmts generalizing t s with
  | nil =>
    simp only [registerAll] at h
    cases h
    exact ⟨⟨[], by simp⟩, rfl, ht⟩
  | cons st r ih =>
    simp only [registerAll] at h
    cases h1 : register P f st t s with
    | stop w s1 => rw [h1] at h; cases h
    | ok t1 s1 =>
      rw [h1] at h
      simp only [Out.bind] at h
      obtain ⟨⟨e1, he1⟩, hev1, hsy1⟩ := register_syms (hsub st (List.mem_cons_self ..)) h1
      have ht1 : ∀ σ, σ ∈ t1.syms → SymFrom f s1.trace σ := by
        intro σ hσ
        rcases hsy1 σ hσ with h2 | h2
        · rw [he1]; exact (ht σ h2).mono e1
        · exact h2
      obtain ⟨⟨e2, he2⟩, hev2, hsy2⟩ := ih (fun x hx => hsub x (List.mem_cons_of_mem _ hx)) ht1 h
      exact ⟨⟨e1 ++ e2, by rw [he2, he1, List.append_assoc]⟩, hev2.trans hev1, hsy2⟩

/-- every symbol of a completed `compile_root_context` of `f` stems from a statement of `f`; the
relative ones carry a result logged for `f` -/
theorem compileRoot_syms {P : Proj} {f : File} {t' : Tab} {s s' : St} (h : compileRoot P f s = .ok t' s') :
    (∃ ext, s'.trace = s.trace ++ ext) ∧ (∀ σ, σ ∈ t'.syms → SymFrom f s'.trace σ)
    ∧ ∃ c, s'.events = s.events ++ [{ file := f, cur := c, syms := t'.syms }] := by
  unfold compileRoot at h
  cases h1 : registerAll P f f.stmts [] s with
  | stop w s1 => rw [h1] at h; cases h
  | ok t1 s1 =>
    rw [h1] at h
    simp only [Out.bind] at h
    obtain ⟨hext, hev, hsy⟩ := registerAll_syms f.stmts (fun _ hx => hx) (fun σ hσ => by cases hσ) h1
    split at h
    · cases h
    · rename_i c hc
      cases h
      exact ⟨hext, hsy, c, by simp only [hev]⟩

/-! ### the log only grows; compile-level steps leave the events alone -/

def Grow (s s' : St) : Prop := (∃ ext, s'.trace = s.trace ++ ext) ∧ s'.events = s.events

theorem Grow.refl (s : St) : Grow s s := ⟨⟨[], by simp⟩, rfl⟩

theorem Grow.trans {a b c : St} (h1 : Grow a b) (h2 : Grow b c) : Grow a c := by
  obtain ⟨⟨e1, he1⟩, hv1⟩ := h1
  obtain ⟨⟨e2, he2⟩, hv2⟩ := h2
  exact ⟨⟨e1 ++ e2, by rw [he2, he1, List.append_assoc]⟩, hv2.trans hv1⟩

theorem Grow.diag (s : St) (l : Lvl) (t : String) (n : Option Nat) : Grow s (s.diag l t n) :=
  ⟨⟨[], by simp [St.diag]⟩, rfl⟩

theorem grow_bind {α β : Type} {s : St} {o : Out α} {k : α → St → Out β}
    (ho : Grow s o.st) (hk : ∀ a s', o = .ok a s' → Grow s' (k a s').st) : Grow s (o.bind k).st := by
  cases o with
  | ok a s' => exact ho.trans (hk a s' rfl)
  | stop w s' => exact ho

theorem addImport_grow (P : Proj) (c : Cur) (line : Nat) (name qual m : Dotted) (t : Tab) (s : St) :
    Grow s (addImport P c line name qual m t s).st := by
  unfold addImport
  split
  · exact Grow.diag ..
  · exact Grow.refl s

theorem addFromNames_grow (P : Proj) (c : Cur) (line : Nat) (m : Dotted) (names : List (Str × Option Str))
    (t : Tab) (s : St) : Grow s (addFromNames P c line m names t s).st := by
  induction names generalizing t s with
  | nil => exact Grow.refl s
  | cons na r ih =>
    obtain ⟨n, a⟩ := na
    simp only [addFromNames]
    exact grow_bind (addImport_grow ..) (fun t' s' _ => ih t' s')

theorem addResolved_grow (P : Proj) (c : Cur) (line : Nat) (st : Bool) (a : Dotted)
    (names : List (Str × Option Str)) (t : Tab) (s : St) : Grow s (addResolved P c line st a names t s).st := by
  unfold addResolved
  split
  · exact addImport_grow ..
  · exact addFromNames_grow ..

theorem relDiag_grow (st : Bool) (line : Nat) (found : Bool) (s : St) : Grow s (relDiag st line found s) :=
  ⟨⟨[], by rw [relDiag_trace]; simp⟩, relDiag_events ..⟩

theorem starWarn_grow (st : Bool) (c : Cur) (line : Nat) (s : St) : Grow s (starWarn st c line s) :=
  ⟨⟨[], by rw [starWarn_trace]; simp⟩, starWarn_events ..⟩

theorem resolveRel_grow (f : File) (c : Cur) (base : Dotted) (module : Option Dotted) (level : Nat) (s : St) :
    Grow s (resolveRel f c base module level s).2 :=
  ⟨⟨_, rfl⟩, rfl⟩

theorem visitRel_grow (P : Proj) (f : File) (c : Cur) (line level : Nat) (module : Option Dotted)
    (names : List (Str × Option Str)) (st : Bool) (t : Tab) (s : St) :
    Grow s (visitRel P f c line level module names st t s).st := by
  unfold visitRel
  split
  · exact Grow.refl s
  · rename_i base hb
    simp only
    have h1 : Grow s (relDiag st line
        (findModuleNameAndSpec P.env (resolveRel f c base module level s).1).isSome
        (resolveRel f c base module level s).2) :=
      (resolveRel_grow f c base module level s).trans (relDiag_grow st line _ _)
    split
    · exact h1
    · exact h1.trans (addResolved_grow ..)

theorem visitFrom_grow (P : Proj) (f : File) (c : Cur) (line level : Nat) (module : Option Dotted)
    (names : List (Str × Option Str)) (t : Tab) (s : St) :
    Grow s (visitFrom P f c line level module names t s).st := by
  unfold visitFrom
  simp only
  split
  · exact Grow.refl s
  · split
    · exact (starWarn_grow ..).trans (visitRel_grow ..)
    · split
      · exact (starWarn_grow ..).trans (Grow.diag ..)
      · exact (starWarn_grow ..).trans (addResolved_grow ..)

theorem register_grow (P : Proj) (f : File) (stmt : Stmt) (t : Tab) (s : St) :
    Grow s (register P f stmt t s).st := by
  unfold register
  split
  · exact Grow.refl s
  · cases stmt with
    | def_ line name => exact Grow.refl s
    | imp line m a => exact addImport_grow ..
    | from_ line level m names => exact visitFrom_grow ..

theorem registerAll_grow (P : Proj) (f : File) (stmts : List Stmt) (t : Tab) (s : St) :
    Grow s (registerAll P f stmts t s).st := by
  induction stmts generalizing t s with
  | nil => exact Grow.refl s
  | cons st r ih =>
    simp only [registerAll]
    exact grow_bind (register_grow ..) (fun t' s' _ => ih t' s')

theorem compileRoot_stop_grow {P : Proj} {f : File} {s s' : St} {w : Stop}
    (h : compileRoot P f s = .stop w s') : Grow s s' := by
  unfold compileRoot at h
  have hg := registerAll_grow P f f.stmts [] s
  cases h1 : registerAll P f f.stmts [] s with
  | stop w1 s1 =>
    rw [h1] at h hg
    cases h
    exact hg
  | ok t1 s1 =>
    rw [h1] at h hg
    simp only [Out.bind] at h
    split at h
    · cases h; exact hg
    · cases h

/-! ### every symbol of every compile event stems from a statement of the compiled file -/

def EvSyms (s : St) : Prop := ∀ e, e ∈ s.events → ∀ σ, σ ∈ e.syms → SymFrom e.file s.trace σ

theorem EvSyms.grow {s s' : St} (h : EvSyms s) (hg : Grow s s') : EvSyms s' := by
  obtain ⟨⟨ext, he⟩, hv⟩ := hg
  intro e hm σ hσ
  rw [hv] at hm
  rw [he]
  exact (h e hm σ hσ).mono ext

theorem EvSyms.setCur {s : St} (h : EvSyms s) (c : Option Cur) : EvSyms { s with cur := c } := h

theorem compileRoot_evsyms (P : Proj) (f : File) (s : St) (h : EvSyms s) : EvSyms (compileRoot P f s).st := by
  cases hc : compileRoot P f s with
  | stop w s' => exact h.grow (compileRoot_stop_grow hc)
  | ok t' s' =>
    obtain ⟨⟨ext, hext⟩, hsy, c, hev⟩ := compileRoot_syms hc
    intro e hm σ hσ
    simp only [Out.st] at hm hσ ⊢
    rw [hev] at hm
    rcases List.mem_append.mp hm with hm | hm
    · rw [hext]; exact (h e hm σ hσ).mono ext
    · simp only [List.mem_singleton] at hm
      subst hm
      exact hsy σ hσ

/-! ### the walk, for any state predicate kept by `compile_root_context`, `diag` and `cur :=` -/

structure Kept (P : Proj) (I : St → Prop) : Prop where
  diag    : ∀ s l t n, I s → I (s.diag l t n)
  cur     : ∀ s c, I s → I { s with cur := c }
  compile : ∀ f s, I s → I (compileRoot P f s).st

theorem enter_pres {α : Type} {I : St → Prop} (hcur : ∀ s c, I s → I { s with cur := c })
    (c : Cur) (body : St → Out α) (s : St) (hb : I (body { s with cur := some c }).st) :
    I (enter c body s).st := by
  unfold enter
  simp only
  split
  · rename_i a s' he
    rw [he] at hb
    exact hcur _ _ hb
  · rename_i w s' he
    rw [he] at hb
    exact hb

theorem pres_bind {α β : Type} {I : St → Prop} {o : Out α} {k : α → St → Out β}
    (ho : I o.st) (hk : ∀ a s', o = .ok a s' → I (k a s').st) : I (o.bind k).st := by
  cases o with
  | ok a s' => exact hk a s' rfl
  | stop w s' => exact ho

theorem expandLoop_pres {P : Proj} {I : St → Prop} (K : Kept P I) (sc : StarCur) (fuel : Nat) (q : List Sym)
    (seen : List Path) (t : Tab) (s : St) (h : I s) : I (expandLoop P sc fuel q seen t s).st := by
  induction fuel generalizing q seen t s with
  | zero =>
    cases q with
    | nil => exact h
    | cons a r => exact h
  | succ n ih =>
    cases q with
    | nil => exact h
    | cons sd r =>
      simp only [expandLoop]
      split
      · split
        · exact ih _ _ _ _ (K.diag _ _ _ _ h)
        · exact h
      · exact h
      · rename_i g _
        split
        · exact ih _ _ _ _ h
        · have h1 : I (enter (sc g) (compileRoot P g) s).st :=
            enter_pres K.cur _ _ s (K.compile g _ (K.cur _ _ h))
          refine pres_bind h1 ?_
          intro t' s' he
          have hs' : I s' := by rw [he] at h1; exact h1
          exact ih _ _ _ _ hs'

theorem followLoop_pres {P : Proj} {I : St → Prop} (K : Kept P I) (sc : StarCur) (xfuel fuel : Nat) (q : List Sym)
    (seen : List Path) (irs : Irs) (s : St) (h : I s) : I (followLoop P sc xfuel fuel q seen irs s).st := by
  induction fuel generalizing q seen irs s with
  | zero =>
    cases q with
    | nil => exact h
    | cons a r => exact h
  | succ n ih =>
    cases q with
    | nil => exact h
    | cons i r =>
      simp only [followLoop]
      split
      · exact ih _ _ _ _ (K.diag _ _ _ _ h)
      · split
        · exact ih _ _ _ _ (K.diag _ _ _ _ h)
        · split
          · exact ih _ _ _ _ h
          · split
            · exact h
            · rename_i g _
              have h1 : I (enter (curOf true g)
                  (fun s => (compileRoot P g s).bind fun t s => expand P sc xfuel t s) s).st := by
                apply enter_pres K.cur
                have hc := K.compile g _ (K.cur s (some (curOf true g)) h)
                refine pres_bind hc ?_
                intro t' s' he
                have hs' : I s' := by rw [he] at hc; exact hc
                exact expandLoop_pres K sc xfuel _ _ t' s' hs'
              refine pres_bind h1 ?_
              intro t' s' he
              have hs' : I s' := by rw [he] at h1; exact h1
              exact ih _ _ _ _ hs'
        · exact h

theorem runWith_pres {P : Proj} {I : St → Prop} (K : Kept P I) (h0 : I {}) (sc : StarCur) (fuel : Nat) (tgt : File) :
    I (runWith P sc fuel tgt).st := by
  unfold runWith
  apply enter_pres K.cur
  have hc := K.compile tgt _ (K.cur {} (some (curOf false tgt)) h0)
  refine pres_bind hc ?_
  intro t s he
  have hs : I s := by rw [he] at hc; exact hc
  have h2 : I (expand P sc fuel t s).st := expandLoop_pres K sc fuel _ _ t s hs
  refine pres_bind h2 ?_
  intro t2 s2 he2
  have hs2 : I s2 := by rw [he2] at h2; exact h2
  have h3 := followLoop_pres K sc fuel fuel t2.imports [] [] s2 hs2
  refine pres_bind h3 ?_
  intro irs s3 he3
  rw [he3] at h3
  exact h3

theorem evSyms_kept (P : Proj) : Kept P EvSyms :=
  ⟨fun s l t n h => h.grow (Grow.diag s l t n), fun _ c h => h.setCur c, compileRoot_evsyms P⟩

theorem run_evsyms (P : Proj) (fuel : Nat) (tgt : File) : EvSyms (run P fuel tgt).st :=
  runWith_pres (evSyms_kept P) (fun _ hm => absurd hm List.not_mem_nil) (curOf true) fuel tgt

end Rattr.Walk

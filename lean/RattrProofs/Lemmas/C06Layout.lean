/-
  Helper lemmas for the round-3 part of C06 (file layouts): `find_module_in_path`
  (`RattrModel/Locator.lean`) against Python's path finder (`Spec.matchInRoot`) when a package
  directory, a module file and a plain directory compete for one module name.
-/
import RattrModel.Locator
import RattrModel.Spec.ResolveName

namespace Rattr.C06L
open Rattr Rattr.Locator

/-- the components `find_module_in_path` walks (`install_location /= part` is a no-op for "") -/
def partsOf (name : Dotted) : Path := name.filter (fun c => c ≠ [])

theorem partsOf_wf (name : Dotted) (hmem : [] ∉ name) : partsOf name = name := by
  unfold partsOf
  rw [List.filter_eq_self]
  intro a ha
  simp only [ne_eq, decide_not, Bool.not_eq_eq_eq_not, Bool.not_true, decide_eq_false_iff_not]
  intro h0; subst h0; exact hmem ha

theorem ne_single_nil_of_wf (name : Dotted) (hmem : [] ∉ name) : name ≠ [[]] := by
  intro h; apply hmem; rw [h]; simp

/-- a file `d/__init__.py` makes `d` a directory -/
theorem dirExists_of_init (files : Files) (d : Path) (h : files.contains (d ++ [initPy]) = true) :
    dirExists files d = true := by
  simp only [dirExists, Bool.or_eq_true, decide_eq_true_eq, List.any_eq_true, Bool.and_eq_true]
  right
  refine ⟨d ++ [initPy], List.contains_iff_mem.mp h, by simp, ?_⟩
  rw [List.isPrefixOf_iff_prefix]
  exact List.prefix_append _ _

theorem withSuffixPy_concat (l : Path) (a : Str) : withSuffixPy (l ++ [a]) = l ++ [a ++ dotPy] := by
  induction l with
  | nil => rfl
  | cons x r ih =>
    cases r with
    | nil => simp [withSuffixPy]
    | cons y r => simp only [List.cons_append, withSuffixPy] at ih ⊢; rw [ih]

theorem modFile_concat (l : Path) (a : Str) : Spec.modFile (l ++ [a]) = l ++ [a ++ dotPy] := by
  simp [Spec.modFile, dotPy]

theorem withSuffixPy_eq_modFile (name : Dotted) (h : name ≠ []) : withSuffixPy name = Spec.modFile name := by
  rw [← List.dropLast_concat_getLast h, withSuffixPy_concat, modFile_concat]

/-- the last segment of `withSuffixPy` ends in `.py`, so it is never `__init__.py`'s directory entry:
the module file and the package file of one name are different files -/
theorem modFile_ne_pkgFile (name : Dotted) : Spec.modFile name ≠ name ++ [initPy] := by
  intro h
  have hl := congrArg List.length h
  cases hn : name.reverse with
  | nil =>
    have : name = [] := by simpa using hn
    subst this
    simp [Spec.modFile] at hl
  | cons last r =>
    simp [Spec.modFile, hn] at hl
    have : name.length = r.length + 1 := by
      have := congrArg List.length hn
      simpa using this
    omega

end Rattr.C06L

/-
  String lemmas for C10's "names through a caller" theorems: what `get_dynamic_name`'s base-name
  pipeline `first.split(".")[0].replace("*","").replace("[]","").replace("()","")` does to a first
  dotted component of the shape  identifier ++ ("[]" | "()")*.
-/
import RattrModel.Strs

namespace Rattr.C10S
open Rattr Rattr.Strs

/-- a bracket token of a spelling: `true` = "[]", `false` = "()" -/
def tok : Bool → Str
  | true => ['[', ']']
  | false => ['(', ')']

/-- a run of bracket tokens -/
def flat : List Bool → Str
  | [] => []
  | b :: r => tok b ++ flat r

theorem flat_append (l m : List Bool) : flat (l ++ m) = flat l ++ flat m := by
  induction l with
  | nil => rfl
  | cons b r ih => simp [flat, ih]

/-- the characters the base-name pipeline looks at -/
def special (c : Char) : Bool := c = '.' || c = '*' || c = '[' || c = ']' || c = '(' || c = ')'

/-- a Python identifier as far as the string operations are concerned: non-empty, none of `. * [ ] ( )` -/
def identOK (x : Str) : Bool := !x.isEmpty && x.all (fun c => !special c)

theorem identOK_not_mem {x : Str} (h : identOK x = true) {c : Char} (hc : special c = true) : c ∉ x := by
  intro hm
  simp only [identOK, Bool.and_eq_true, List.all_eq_true] at h
  have := h.2 c hm
  simp [hc] at this

theorem flat_no_dot (l : List Bool) : '.' ∉ flat l := by
  induction l with
  | nil => simp [flat]
  | cons b r ih => cases b <;> simp [flat, tok, ih]

theorem flat_no_star (l : List Bool) : '*' ∉ flat l := by
  induction l with
  | nil => simp [flat]
  | cons b r ih => cases b <;> simp [flat, tok, ih]

/-! ### `split(".")[0]` is `takeWhile (· ≠ '.')` -/

/-- `s.split(".")[0]` -/
def headDot (s : Str) : Str := ((splitDot s).head?).getD []

theorem splitDotAux_head (t acc : Str) :
    (splitDotAux t acc).head? = some (acc.reverse ++ t.takeWhile (· != '.')) := by
  induction t generalizing acc with
  | nil => simp [splitDotAux]
  | cons c r ih =>
    simp only [splitDotAux]
    by_cases h : c = '.'
    · subst h; simp
    · simp [h, ih]

theorem headDot_eq (s : Str) : headDot s = s.takeWhile (· != '.') := by
  simp [headDot, splitDot, splitDotAux_head]

theorem takeWhile_noDot (s : Str) (h : '.' ∉ s) : s.takeWhile (· != '.') = s := by
  induction s with
  | nil => rfl
  | cons c r ih =>
    have hc : (c != '.') = true := by
      have : c ≠ '.' := fun e => h (by simp [e])
      simpa using this
    have hr : '.' ∉ r := fun m => h (List.mem_cons_of_mem _ m)
    simp only [List.takeWhile_cons, hc, ↓reduceIte, ih hr]

theorem takeWhile_append_dot (s t : Str) :
    (s ++ '.' :: t).takeWhile (· != '.') = s.takeWhile (· != '.') := by
  induction s with
  | nil => simp
  | cons c r ih =>
    by_cases hc : c = '.'
    · subst hc; simp
    · have hb : (c != '.') = true := by simpa using hc
      simp only [List.cons_append, List.takeWhile_cons, hb, ↓reduceIte, ih]

theorem takeWhile_append_noDot (s t : Str) (ht : '.' ∉ t) :
    (s ++ t).takeWhile (· != '.') = if '.' ∈ s then s.takeWhile (· != '.') else s ++ t := by
  induction s with
  | nil => simp [takeWhile_noDot t ht]
  | cons c r ih =>
    by_cases hc : c = '.'
    · subst hc; simp
    · have hb : (c != '.') = true := by simpa using hc
      have hc' : ¬ '.' = c := fun e => hc e.symm
      simp only [List.cons_append, List.takeWhile_cons, hb, ↓reduceIte, ih]
      by_cases hr : '.' ∈ r
      · simp [hc', hr]
      · simp [hc', hr]

/-- everything after the first component is irrelevant -/
theorem headDot_append_dot (s t : Str) : headDot (s ++ '.' :: t) = headDot s := by
  simp [headDot_eq, takeWhile_append_dot]

theorem headDot_noDot (s : Str) (h : '.' ∉ s) : headDot s = s := by
  simp [headDot_eq, takeWhile_noDot s h]

/-! ### the two `replace` calls on  identifier ++ bracket tokens -/

theorem removeChar_noOcc (s : Str) (c : Char) (h : c ∉ s) : removeChar s c = s := by
  unfold removeChar
  rw [List.filter_eq_self]
  intro a ha
  have : a ≠ c := fun e => h (e ▸ ha)
  simpa using this

/-- a pattern starting with `a` does not match, and is copied, over a prefix without `a` -/
theorem replaceAllAux_skip (a b : Char) (x r : Str) (hx : a ∉ x) :
    ∀ fuel, x.length ≤ fuel →
      replaceAllAux [a, b] [] fuel (x ++ r) = x ++ replaceAllAux [a, b] [] (fuel - x.length) r := by
  induction x with
  | nil => intro fuel _; simp
  | cons c t ih =>
    intro fuel hf
    have hc : c ≠ a := fun e => hx (by simp [e])
    have hc' : ¬ a = c := fun e => hc e.symm
    have ht : a ∉ t := fun m => hx (List.mem_cons_of_mem _ m)
    cases fuel with
    | zero => simp at hf
    | succ k =>
      have hk : t.length ≤ k := by simpa using hf
      simp [replaceAllAux, List.isPrefixOf, hc', ih ht k hk]

/-- `.replace("[]", "")` over bracket tokens keeps the call brackets -/
theorem replaceAllAux_sub_flat (l : List Bool) :
    ∀ fuel, (flat l).length ≤ fuel →
      replaceAllAux ['[', ']'] [] fuel (flat l) = flat (l.filter (· == false)) := by
  induction l with
  | nil => intro fuel _; cases fuel <;> simp [flat, replaceAllAux]
  | cons b r ih =>
    intro fuel hf
    cases b with
    | true =>
      cases fuel with
      | zero => simp [flat, tok] at hf
      | succ k =>
        have hk : (flat r).length ≤ k := by simp [flat, tok] at hf; omega
        simp [flat, tok, replaceAllAux, List.isPrefixOf, ih k hk]
    | false =>
      cases fuel with
      | zero => simp [flat, tok] at hf
      | succ k =>
        cases k with
        | zero => simp [flat, tok] at hf
        | succ j =>
          have hj : (flat r).length ≤ j := by simp [flat, tok] at hf; omega
          simp [flat, tok, replaceAllAux, List.isPrefixOf, ih j hj]

/-- `.replace("()", "")` over call brackets only: nothing is left -/
theorem replaceAllAux_call_flat (l : List Bool) (hl : l.all (· == false) = true) :
    ∀ fuel, (flat l).length ≤ fuel → replaceAllAux ['(', ')'] [] fuel (flat l) = [] := by
  induction l with
  | nil => intro fuel _; cases fuel <;> simp [flat, replaceAllAux]
  | cons b r ih =>
    intro fuel hf
    simp only [List.all_cons, Bool.and_eq_true] at hl
    have hb : b = false := by simpa using hl.1
    subst hb
    cases fuel with
    | zero => simp [flat, tok] at hf
    | succ k =>
      have hk : (flat r).length ≤ k := by simp [flat, tok] at hf; omega
      simp [flat, tok, replaceAllAux, List.isPrefixOf, ih hl.2 k hk]

theorem filter_all_false (l : List Bool) : (l.filter (· == false)).all (· == false) = true := by
  simp [List.all_eq_true]

/-- `get_dynamic_name`'s bracket stripping on a first component. -/
def stripBrackets (u : Str) : Str :=
  replaceAll (replaceAll (removeChar u '*') (lit "[]") []) (lit "()") []

/-- **identifier ++ bracket tokens ↦ identifier.** -/
theorem stripBrackets_ident_flat (x : Str) (l : List Bool) (hx : identOK x = true) :
    stripBrackets (x ++ flat l) = x := by
  have hstar : '*' ∉ x ++ flat l := by
    simp only [List.mem_append, not_or]
    exact ⟨identOK_not_mem hx (by decide), flat_no_star l⟩
  have hlb : '[' ∉ x := identOK_not_mem hx (by decide)
  have hlp : '(' ∉ x := identOK_not_mem hx (by decide)
  have e1 : (lit "[]") = ['[', ']'] := by decide
  have e2 : (lit "()") = ['(', ')'] := by decide
  unfold stripBrackets
  rw [removeChar_noOcc _ _ hstar, e1, e2]
  -- first replace
  have r1 : replaceAll (x ++ flat l) ['[', ']'] [] = x ++ flat (l.filter (· == false)) := by
    unfold replaceAll
    simp only [List.cons_ne_nil, if_false]
    rw [replaceAllAux_skip '[' ']' x (flat l) hlb _ (by simp only [List.length_append]; omega)]
    rw [replaceAllAux_sub_flat l _ (by simp only [List.length_append]; omega)]
  rw [r1]
  unfold replaceAll
  simp only [List.cons_ne_nil, if_false]
  rw [replaceAllAux_skip '(' ')' x _ hlp _ (by simp only [List.length_append]; omega)]
  rw [replaceAllAux_call_flat _ (filter_all_false l) _ (by simp only [List.length_append]; omega)]
  simp

end Rattr.C10S

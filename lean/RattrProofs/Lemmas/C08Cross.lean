/-
  Helper lemmas for the cross-module part of C08 (`RattrModel/CrossResolve.lean`).
-/
import RattrModel.CrossResolve

namespace Rattr.Cross
open Rattr

/-- the keys of a Python dict are pairwise distinct under `==`. -/
def UniqKeys (ir : FIr) : Prop :=
  ∀ (i j : Nat) (a b : FSym), ir[i]? = some a → ir[j]? = some b → a.key = b.key → i = j

/-- well-formed environment: the target IR is a dict; every key of the IR registered for module `m`
is located in a file whose module name is `m`; different files have different module names.
(The harness checks this on every real environment it compares.) -/
structure WF (env : Env) : Prop where
  uniqTarget : UniqKeys env.target
  importsOwn : ∀ (m : Str) (ir : FIr) (k : FSym), Dict.get? env.imports m = some ir → k ∈ ir →
    Dict.get? env.moduleOf k.file = some m
  moduleInj : ∀ (f g m : Str), Dict.get? env.moduleOf f = some m → Dict.get? env.moduleOf g = some m → f = g

theorem uniqKeys_of_nodup {ir : FIr} (h : (ir.map FSym.key).Nodup) : UniqKeys ir := by
  intro i j a b hi hj hk
  have hi' : (ir.map FSym.key)[i]? = some a.key := by simp [hi]
  have hj' : (ir.map FSym.key)[j]? = some b.key := by simp [hj]
  have hlt : i < (ir.map FSym.key).length := by
    rcases Nat.lt_or_ge i (ir.map FSym.key).length with h' | h'
    · exact h'
    · rw [List.getElem?_eq_none h'] at hi'; cases hi'
  exact (List.getElem?_inj hlt h).mp (by rw [hi', hj', hk])

theorem dict_get?_mem {κ ν : Type} [DecidableEq κ] {d : Dict κ ν} {k : κ} {v : ν}
    (h : Dict.get? d k = some v) : (k, v) ∈ d := by
  induction d with
  | nil => simp [Dict.get?] at h
  | cons p r ih =>
    obtain ⟨k', v'⟩ := p
    simp only [Dict.get?] at h
    split at h
    · rename_i hk; injection h with h; subst h; subst hk; exact List.mem_cons_self
    · exact List.mem_cons_of_mem _ (ih h)

theorem fst_eq_of_nodup_snd {α β : Type} {d : List (α × β)} (hnd : (d.map Prod.snd).Nodup)
    {f g : α} {m : β} (hf : (f, m) ∈ d) (hg : (g, m) ∈ d) : f = g := by
  induction d with
  | nil => cases hf
  | cons p r ih =>
    simp only [List.map_cons, List.nodup_cons] at hnd
    rcases List.mem_cons.mp hf with h1 | h1 <;> rcases List.mem_cons.mp hg with h2 | h2
    · rw [← h1] at h2; exact (Prod.mk.inj h2).1.symm
    · exfalso; apply hnd.1; rw [← h1]; exact List.mem_map.mpr ⟨(g, m), h2, rfl⟩
    · exfalso; apply hnd.1; rw [← h2]; exact List.mem_map.mpr ⟨(f, m), h1, rfl⟩
    · exact ih hnd.2 h1 h2

/-- the executable check establishes the hypotheses of the theorems. -/
theorem WF_of_wfCheck {env : Env} (h : wfCheck env = true) : WF env := by
  unfold wfCheck at h
  simp only [Bool.and_eq_true, decide_eq_true_eq] at h
  obtain ⟨⟨h1, h2⟩, h3⟩ := h
  refine ⟨uniqKeys_of_nodup h1, ?_, ?_⟩
  · intro m ir k hm hk
    have := List.all_eq_true.mp h2 (m, ir) (dict_get?_mem hm)
    have := List.all_eq_true.mp this k hk
    simpa using this
  · intro f g m hf hg
    exact fst_eq_of_nodup_snd h3 (dict_get?_mem hf) (dict_get?_mem hg)

theorem lookupIdx_some {ir : FIr} {s : FSym} {i : Nat} (h : lookupIdx ir s = some i) :
    ∃ k, ir[i]? = some k ∧ k.key = s.key := by
  unfold lookupIdx at h
  obtain ⟨hi, hp, _⟩ := List.findIdx?_eq_some_iff_getElem.mp h
  exact ⟨ir[i], by simp [hi], by simpa using hp⟩

theorem lookupIdx_isSome_of_mem {ir : FIr} {s o : FSym} (ho : o ∈ ir) (hk : o.key = s.key) :
    (lookupIdx ir s).isSome = true := by
  unfold lookupIdx
  cases h : List.findIdx? (fun o => decide (o.key = s.key)) ir with
  | some i => rfl
  | none =>
    rw [List.findIdx?_eq_none_iff] at h
    have := h o ho
    simp [hk] at this

/-- the branch of `resolve` marked unreachable is unreachable. -/
theorem lookupIdx_of_isDefinedIn {ir : FIr} {s : FSym} (h : isDefinedIn s ir = true) :
    (lookupIdx ir s).isSome = true := by
  unfold isDefinedIn at h
  obtain ⟨o, ho, hp⟩ := List.any_eq_true.mp h
  simp only [Bool.and_eq_true, decide_eq_true_eq] at hp
  exact lookupIdx_isSome_of_mem ho hp.1.symm

theorem realClass_eq (env : Env) (t : FSym) :
    realClass env t = t ∨ realClass env t ∈ candidates env t := by
  unfold realClass
  split
  · rename_i s hs; exact Or.inr (List.mem_of_find?_eq_some hs)
  · exact Or.inl rfl

theorem candidates_spec {env : Env} {t c : FSym} (h : c ∈ candidates env t) :
    c.kind = .cls ∧ c.name = t.name := by
  unfold candidates at h
  have := (List.mem_filter.mp h).2
  simp only [Bool.and_eq_true, decide_eq_true_eq] at this
  exact ⟨this.1, this.2.symm⟩

/-- since bb30ccd: the class the initialiser is looked up under is ALWAYS located in the file of
the call's own target — a same-file candidate or the target itself. -/
theorem realClass_file (env : Env) (t : FSym) : (realClass env t).file = t.file := by
  unfold realClass
  cases hf : (candidates env t).find? (fun s => decide (s.file = t.file)) with
  | some s => simpa using List.find?_some hf
  | none => rfl

/-- (kept from the 8b74e12 statement) -/
theorem realClass_own_file (env : Env) (t : FSym)
    (_h : ∃ c ∈ candidates env t, c.file = t.file) : (realClass env t).file = t.file :=
  realClass_file env t

/-- a class that is no key of any IR in its own file (no `__init__`) is looked up as itself. -/
theorem realClass_of_no_own (env : Env) (t : FSym)
    (h : ∀ c ∈ candidates env t, c.file ≠ t.file) : realClass env t = t := by
  unfold realClass
  cases hf : (candidates env t).find? (fun s => decide (s.file = t.file)) with
  | some s =>
    exact absurd (by simpa using List.find?_some hf) (h s (List.mem_of_find?_eq_some hf))
  | none => rfl

/-- the FunctionIr a call is expanded from belongs to a key that is `==` to the looked-up symbol
AND located in the same file. -/
theorem resolve_found (env : Env) (hwf : WF env) (t : FSym) (l : Loc) (i : Nat)
    (hr : resolve env t = .found l i) :
    ∃ k, keyAt env l i = some k ∧ k.key = (realSym env t).key ∧ k.file = (realSym env t).file := by
  unfold resolve at hr
  simp only [] at hr
  generalize realSym env t = s at hr ⊢
  split at hr
  · rename_i hdef
    split at hr
    · rename_i j hj
      injection hr with hl hi
      subst hl; subst hi
      obtain ⟨k, hk, hkk⟩ := lookupIdx_some hj
      refine ⟨k, hk, hkk, ?_⟩
      unfold isDefinedIn at hdef
      obtain ⟨o, ho, hp⟩ := List.any_eq_true.mp hdef
      simp only [Bool.and_eq_true, decide_eq_true_eq] at hp
      obtain ⟨n, hn⟩ := List.getElem?_of_mem ho
      have : j = n := hwf.uniqTarget j n k o hk hn (hkk.trans hp.1)
      subst this
      rw [hk] at hn
      injection hn with hn
      subst hn
      exact hp.2.symm
    · cases hr
  · split at hr
    · cases hr
    · rename_i m hm
      split at hr
      · cases hr
      · rename_i ir hir
        split at hr
        · cases hr
        · rename_i j hj
          injection hr with hl hi
          subst hl; subst hi
          obtain ⟨k, hk, hkk⟩ := lookupIdx_some hj
          refine ⟨k, by simp [keyAt, hir, hk], hkk, ?_⟩
          have hmem : k ∈ ir := List.mem_of_getElem? hk
          exact hwf.moduleInj _ _ m (hwf.importsOwn m ir k hir hmem) hm

end Rattr.Cross

/-
  Lemmas for C08's visitor-level theorems: what the function analyser records for a call
  `x(args…)` when `x` is bound to a parameter's `Name` symbol — in particular inside the scope a
  lambda / nested def opens for its parameters, whatever the SHAPE of the parameter list.
-/
import RattrProofs.Lemmas.VisitCtxBase
import RattrProofs.Lemmas.VisitCover

namespace Rattr.C08S
open Rattr Rattr.Strs Rattr.Context Rattr.FnA Rattr.AccessSpec

/-- a plain identifier: letters, digits, underscores (what a parameter name is). -/
def plainIdent (x : Str) : Bool := x.all (fun ch => ch.isAlphanum || ch = '_')

theorem plainIdent_not_mem {x : Str} (h : plainIdent x = true) (c : Char)
    (hc : (c.isAlphanum || c = '_') = false) : c ∉ x := by
  intro hm
  have := List.all_eq_true.mp h c hm
  rw [hc] at this; cases this

theorem wcb_id_of_no_paren (x : Str) (h : ')' ∉ x) : withoutCallBrackets x = x := by
  unfold withoutCallBrackets
  have h' : ')' ∉ x.reverse := by simpa using h
  cases hr : x.reverse with
  | nil =>
    have : x = [] := by simpa using hr
    simp [this, dropCallBracketsRev]
  | cons a r =>
    have ha : a ≠ ')' := by
      intro e; apply h'; rw [hr, e]; simp
    have : dropCallBracketsRev (a :: r) = a :: r := by
      unfold dropCallBracketsRev
      split
      · rename_i heq; injection heq with h1 _; exact absurd h1 ha
      · rfl
    rw [this, ← hr]; simp

theorem removeChar_id (x : Str) (c : Char) (h : c ∉ x) : removeChar x c = x := by
  unfold removeChar
  rw [List.filter_eq_self]
  intro a ha
  simp only [bne_iff_ne, ne_eq]
  intro e; subst e; exact h ha

theorem startsWith_at_false (x : Str) (h : '@' ∉ x) : startsWith x ['@'] = false := by
  cases x with
  | nil => rfl
  | cons a r =>
    have : a ≠ '@' := by intro e; apply h; simp [e]
    simp [startsWith, List.isPrefixOf]
    intro e; exact this e.symm

theorem containsSub_brackets_false (x : Str) (h : '[' ∉ x) : containsSub x (lit "[]") = false := by
  induction x with
  | nil => rfl
  | cons a r ih =>
    have ha : a ≠ '[' := by intro e; apply h; simp [e]
    have hr : '[' ∉ r := fun hm => h (List.mem_cons_of_mem _ hm)
    simp only [containsSub, ih hr, Bool.or_false]
    simp [lit, List.isPrefixOf]
    intro e; exact absurd e.symm ha

structure Clean (x : Str) : Prop where
  paren : ')' ∉ x
  star : '*' ∉ x
  at_ : '@' ∉ x
  brack : '[' ∉ x
  dot : '.' ∉ x

theorem clean_of_plainIdent {x : Str} (h : plainIdent x = true) : Clean x :=
  ⟨plainIdent_not_mem h _ (by decide), plainIdent_not_mem h _ (by decide), plainIdent_not_mem h _ (by decide),
   plainIdent_not_mem h _ (by decide), plainIdent_not_mem h _ (by decide)⟩

/-- the name the ladder works with, for the callee spelling `x()` of a plain identifier. -/
theorem lookupKey_call (x : Str) (h : Clean x) :
    removeChar (withoutCallBrackets (withoutCallBrackets (x ++ lit "()"))) '*' = x := by
  rw [wcb_append_brackets, wcb_id_of_no_paren x h.paren, wcb_id_of_no_paren x h.paren, removeChar_id x _ h.star]

theorem lookupKey_call' (x : Str) (h : Clean x) :
    removeChar (withoutCallBrackets (x ++ lit "()")) '*' = x := by
  rw [wcb_append_brackets, wcb_id_of_no_paren x h.paren, removeChar_id x _ h.star]

theorem splitDot_head_clean (x : Str) (h : Clean x) : ((splitDot x).head?).getD [] = x := by
  have : splitDotAux x [] = [[].reverse ++ x] := by
    have aux : ∀ (s cur : Str), '.' ∉ s → splitDotAux s cur = [cur.reverse ++ s] := by
      intro s
      induction s with
      | nil => intro cur _; simp [splitDotAux]
      | cons c r ih =>
        intro cur hs
        simp only [List.mem_cons, not_or] at hs
        have hc : ¬ c = '.' := fun e => hs.1 e.symm
        simp [splitDotAux, hc, ih (c :: cur) hs.2]
    exact aux x [] h.dot
  simp [splitDot, this]

/-- the ladder's answer for a bare plain identifier is the scope chain's, whatever the spelling of
the call brackets and the flags. -/
theorem getCallTarget_bare (env : Context.Env) (c : Context) (x callee : Str) (coc warn : Bool)
    (h : Clean x) (hk : removeChar (withoutCallBrackets callee) '*' = x) :
    (getCallTarget env c callee coc warn).1 = get? c x := by
  unfold getCallTarget
  simp only [hk, splitDot_head_clean x h, startsWith_at_false x h.at_, containsSub_brackets_false x h.brack]
  have hd : x.contains '.' = false := by simpa using h.dot
  simp only [hd, bne_self_eq_false, Bool.false_and, Bool.false_eq_true, if_false]
  cases hg : get? c x with
  | none => simp
  | some t =>
    simp only []
    split
    · rfl
    · split <;> rfl

/-- `Call.from_call`: the record handed on carries exactly the target it was given. -/
theorem mkCall_ok_target {s : St} {name : Str} {args : List Node} {kwn : List (Option Str)}
    {kwv : List Node} {target : Option Sym} {self : Option Str} {k : St → CallSym → Res} {s' : St}
    (h : mkCall s name args kwn kwv target self k = .ok s') :
    ∃ s₁ c, s₁.ctx = s.ctx ∧ c.name = withoutCallBrackets name ∧ c.target = target ∧ k s₁ c = .ok s' := by
  unfold mkCall at h
  obtain ⟨s₁, l, hc, h1⟩ := argNames_ok' _ _ _ _ h
  obtain ⟨l2, h2⟩ := kwargNames_ok _ _ _ _ _ h1
  exact ⟨s₁, _, hc, rfl, rfl, h2⟩

/-- no custom analyser fires on a parameter's `Name` symbol unless the plugin table holds the
module-qualified name `mn.x`. -/
theorem analyserFor_nameSym (env : FnA.Env) (mn x : Str)
    (hq : env.analysers.contains (mn ++ '.' :: x) = false) :
    analyserFor env mn (some (nameSym x)) = none := by
  have hn : (mn ++ '.' :: x) ∉ env.analysers := by simpa using hq
  simp [analyserFor, nameSym, hn]

/-- THE visitor fact: a call `x(args…)` visited in a state whose scope chain binds the plain
identifier `x` to a parameter's `Name` symbol is recorded WITH THAT SYMBOL as its target — never
with a module-level definition of the same name — whenever the visit succeeds. -/
theorem visit_call_of_param (env : FnA.Env) (mn x : Str) (args : List Node) (kwn : List (Option Str))
    (kwv : List Node) (s s' : St)
    (hc : Clean x) (hx : xattrBuiltins.contains x = false)
    (hb : get? s.ctx x = some (nameSym x))
    (hq : env.analysers.contains (mn ++ '.' :: x) = false)
    (h : visit env mn (.call (.name x .load) args kwn kwv) s = .ok s') :
    ∃ c ∈ s'.calls, c.name = x ∧ c.target = some (nameSym x) := by
  have hf : pureChain (.name x .load) = true := rfl
  have hx' : xattrBuiltins.contains (chainBase (.name x .load)) = false := hx
  have hno : analyserFor env mn
      (getCallTarget env.ctxEnv s.ctx (withoutCallBrackets (chainSpell (.name x .load) ++ lit "()"))
        (isCallOnCall (.call (.name x .load) args kwn kwv)) false).1 = none := by
    have e1 := getCallTarget_bare env.ctxEnv s.ctx x
      (withoutCallBrackets (chainSpell (Node.name x .load) ++ lit "()"))
      (isCallOnCall (.call (.name x .load) args kwn kwv)) false hc (lookupKey_call x hc)
    rw [e1, hb]
    exact analyserFor_nameSym env mn x hq
  unfold visit at h
  simp only [targetName_call_chain (.name x .load) args kwn kwv hf, liftName, hno] at h
  rw [getAndVerify_ok (namesOf_call_chain true (.name x .load) args kwn kwv hf hx')] at h
  have ht : (getCallTarget env.ctxEnv (warnUndef s (chainBase (.name x .load)) .load).ctx
      (chainSpell (.name x .load) ++ lit "()") (isCallOnCall (.call (.name x .load) args kwn kwv)) true).1
      = some (nameSym x) := by
    have e2 := getCallTarget_bare env.ctxEnv s.ctx x (chainSpell (Node.name x .load) ++ lit "()")
      (isCallOnCall (.call (.name x .load) args kwn kwv)) true hc (lookupKey_call' x hc)
    rw [(warnUndef_ir _ _ _).1, e2, hb]
  generalize hg : getCallTarget env.ctxEnv (warnUndef s (chainBase (.name x .load)) .load).ctx
      (chainSpell (.name x .load) ++ lit "()") (isCallOnCall (.call (.name x .load) args kwn kwv)) true = p at h ht
  obtain ⟨tg, ds⟩ := p
  simp only at ht
  subst ht
  simp only [nameSym] at h
  obtain ⟨s₁, c, _, hname, htarget, hk⟩ := mkCall_ok_target h
  obtain ⟨s₂, h2, h3⟩ := bind_ok hk
  refine ⟨c, ?_, ?_, ?_⟩
  · exact (visitList_irLe h3).calls _ ((visitList_irLe h2).calls _ (mem_addCall_self _ _))
  · rw [hname]
    show withoutCallBrackets (x ++ lit "()") = x
    rw [wcb_append_brackets, wcb_id_of_no_paren x hc.paren]
  · rw [htarget]; rfl

end Rattr.C08S

/-
  Lemmas for C04 (`Swaps.construct` vs `Spec.pyBind`): dictionary algebra, the positional phases
  as a zip, the keyword loop invariant. No Mathlib.
-/
import RattrModel.Swaps
import RattrModel.Spec.PyBind

set_option linter.unusedSectionVars false

namespace Rattr.SwapsLemmas
open Rattr Rattr.Swaps

/-! ### Dict algebra -/
section DictLemmas
variable {κ ν : Type} [DecidableEq κ]

theorem get?_nil (x : κ) : Dict.get? ([] : Dict κ ν) x = none := rfl

theorem get?_cons (k : κ) (v : ν) (r : Dict κ ν) (x : κ) :
    Dict.get? ((k, v) :: r) x = if k = x then some v else Dict.get? r x := rfl

theorem get?_set (d : Dict κ ν) (k x : κ) (v : ν) :
    Dict.get? (Dict.set d k v) x = if k = x then some v else Dict.get? d x := by
  induction d with
  | nil => simp [Dict.set, Dict.get?]
  | cons h t ih =>
    obtain ⟨k', v'⟩ := h
    simp only [Dict.set]
    by_cases hk : k' = k
    · subst hk; simp only [if_true, get?_cons]; split <;> rfl
    · simp only [hk, if_false, get?_cons, ih]
      by_cases h1 : k' = x
      · subst h1; simp; intro h; exact absurd h.symm hk
      · simp [h1]

theorem get?_set_eq (d : Dict κ ν) (k : κ) (v : ν) : Dict.get? (Dict.set d k v) k = some v := by
  simp [get?_set]

theorem get?_set_ne (d : Dict κ ν) {k x : κ} (v : ν) (h : k ≠ x) :
    Dict.get? (Dict.set d k v) x = Dict.get? d x := by
  simp [get?_set, h]

theorem get?_append (a b : Dict κ ν) (x : κ) :
    Dict.get? (a ++ b) x = (Dict.get? a x).or (Dict.get? b x) := by
  induction a with
  | nil => simp [Dict.get?]
  | cons h t ih =>
    obtain ⟨k, v⟩ := h
    simp only [List.cons_append, get?_cons]
    split <;> simp [ih]

theorem get?_eq_none_iff (d : Dict κ ν) (x : κ) :
    Dict.get? d x = none ↔ x ∉ d.map Prod.fst := by
  induction d with
  | nil => simp [Dict.get?]
  | cons h t ih =>
    obtain ⟨k, v⟩ := h
    simp only [get?_cons, List.map_cons, List.mem_cons, not_or]
    by_cases hk : k = x
    · subst hk; simp
    · have hk' : ¬ x = k := fun e => hk e.symm
      simp only [hk, if_false, ih, hk', not_false_eq_true, true_and]

theorem get?_isSome_iff (d : Dict κ ν) (x : κ) :
    (Dict.get? d x).isSome ↔ x ∈ d.map Prod.fst := by
  have := get?_eq_none_iff d x
  cases h : Dict.get? d x <;> simp_all

theorem contains_iff (d : Dict κ ν) (x : κ) :
    Dict.contains d x = true ↔ x ∈ d.map Prod.fst := by
  unfold Dict.contains; exact get?_isSome_iff d x

theorem contains_set (d : Dict κ ν) (k x : κ) (v : ν) :
    Dict.contains (Dict.set d k v) x = (decide (k = x) || Dict.contains d x) := by
  unfold Dict.contains
  rw [get?_set]
  by_cases h : k = x <;> simp [h]

/-- assigning a fresh key appends -/
theorem set_fresh (d : Dict κ ν) (k : κ) (v : ν) (h : k ∉ d.map Prod.fst) :
    Dict.set d k v = d ++ [(k, v)] := by
  induction d with
  | nil => rfl
  | cons hd t ih =>
    obtain ⟨k', v'⟩ := hd
    simp only [List.map_cons, List.mem_cons, not_or] at h
    have hne : ¬ k' = k := fun e => h.1 e.symm
    simp [Dict.set, hne, ih h.2]

/-- two key-equivalent maps have the same membership test -/
theorem contains_congr {a b : Dict κ ν} (h : ∀ k, Dict.get? a k = Dict.get? b k) (x : κ) :
    Dict.contains a x = Dict.contains b x := by
  unfold Dict.contains; rw [h]

end DictLemmas

/-! ### `removeFirst` on duplicate-free lists is a filter -/
section RemoveFirst
variable {α : Type} [DecidableEq α]

theorem removeFirst_eq_filter (l : List α) (x : α) (h : l.Nodup) :
    removeFirst l x = l.filter (fun y => decide (y ≠ x)) := by
  induction l with
  | nil => rfl
  | cons a r ih =>
    have hr := (List.nodup_cons.mp h)
    simp only [removeFirst]
    by_cases ha : a = x
    · subst ha
      simp only [if_true, ne_eq, not_true_eq_false, decide_false, Bool.false_eq_true,
        not_false_eq_true, List.filter_cons_of_neg]
      symm
      apply List.filter_eq_self.mpr
      intro y hy
      simp only [decide_eq_true_eq]
      intro e; subst e; exact hr.1 hy
    · simp [ha, ih hr.2]

theorem filter_ne_of_not_mem (l : List α) (x : α) (h : x ∉ l) :
    l.filter (fun y => decide (y ≠ x)) = l := by
  apply List.filter_eq_self.mpr
  intro y hy
  simp only [decide_eq_true_eq]
  intro e; subst e; exact h hy

end RemoveFirst

/-! ### The positional phases are a zip -/
section Positional
variable {α : Type} [DecidableEq α]
open Spec

/-- successive dict assignments -/
def setMany (d : Dict α α) (l : List (α × α)) : Dict α α :=
  l.foldl (fun d kv => Dict.set d kv.1 kv.2) d

theorem setMany_nil (d : Dict α α) : setMany d [] = d := rfl
theorem setMany_cons (d : Dict α α) (kv : α × α) (l : List (α × α)) :
    setMany d (kv :: l) = setMany (Dict.set d kv.1 kv.2) l := rfl

/-- with pairwise distinct keys, successive assignments just append -/
theorem setMany_fresh (d l : Dict α α) (h : ((d ++ l).map Prod.fst).Nodup) :
    setMany d l = d ++ l := by
  induction l generalizing d with
  | nil => simp [setMany]
  | cons kv l ih =>
    obtain ⟨k, v⟩ := kv
    have hk : k ∉ d.map Prod.fst := by
      simp only [List.map_append, List.map_cons] at h
      have := (List.nodup_append.mp h).2.2
      intro hm
      exact this k hm k (by simp) rfl
    rw [setMany_cons, set_fresh d k v hk, ih]
    · simp
    · simpa using h

theorem zipPos_nil_left (as : List α) : zipPos ([] : List (Param α)) as = ([], [], as) := by
  cases as <;> rfl

theorem zipPos_nil_right (ps : List (Param α)) : zipPos ps ([] : List α) = ([], ps, []) := by
  cases ps <;> rfl

theorem zipPos_cons (p : Param α) (ps : List (Param α)) (a : α) (as : List α) :
    zipPos (p :: ps) (a :: as) =
      ((p.name, a) :: (zipPos ps as).1, (zipPos ps as).2.1, (zipPos ps as).2.2) := rfl

theorem bindArgs_nil_left (cargs : List α) (sw : Dict α α) :
    bindArgs [] cargs sw = (sw, [], cargs) := by
  cases cargs <;> rfl

theorem bindArgs_nil_right (ps : List α) (sw : Dict α α) :
    bindArgs ps [] sw = (sw, ps, []) := by
  cases ps <;> rfl

/-- the second loop computes exactly `Spec.zipPos` (and assigns the pairs in order) -/
theorem bindArgs_eq_zipPos (Ps : List (Param α)) (cargs : List α) (sw : Dict α α) :
    bindArgs (Ps.map (·.name)) cargs sw =
      (setMany sw (zipPos Ps cargs).1, (zipPos Ps cargs).2.1.map (·.name), (zipPos Ps cargs).2.2) := by
  induction Ps generalizing cargs sw with
  | nil => simp [bindArgs_nil_left, zipPos_nil_left, setMany]
  | cons p Ps ih =>
    cases cargs with
    | nil => simp [bindArgs_nil_right, zipPos_nil_right, setMany]
    | cons a as =>
      simp only [List.map_cons, bindArgs, zipPos_cons, setMany_cons]
      exact ih as _

/-- first loop followed by second loop = second loop over `posonly ++ args` -/
theorem bindPosonly_then (P A : List α) (cargs : List α) (sw : Dict α α)
    (h : P.length ≤ cargs.length) :
    ∃ sw' cargs', bindPosonly P cargs sw = some (sw', cargs') ∧
      bindArgs (P ++ A) cargs sw = bindArgs A cargs' sw' := by
  induction P generalizing cargs sw with
  | nil => exact ⟨sw, cargs, rfl, rfl⟩
  | cons p P ih =>
    cases cargs with
    | nil => simp at h
    | cons a as =>
      simp only [bindPosonly, List.cons_append, bindArgs]
      exact ih as _ (by simpa using h)

theorem zipPos_keys (Ps : List (Param α)) (cargs : List α) :
    (zipPos Ps cargs).1.map Prod.fst ++ (zipPos Ps cargs).2.1.map (·.name) = Ps.map (·.name) := by
  induction Ps generalizing cargs with
  | nil => simp [zipPos_nil_left]
  | cons p Ps ih =>
    cases cargs with
    | nil => simp [zipPos_nil_right]
    | cons a as => simp [zipPos_cons, ih as]

theorem zipPos_unfilled_sub (Ps : List (Param α)) (cargs : List α) :
    ∀ p ∈ (zipPos Ps cargs).2.1, p ∈ Ps := by
  induction Ps generalizing cargs with
  | nil => simp [zipPos_nil_left]
  | cons p Ps ih =>
    cases cargs with
    | nil => simp [zipPos_nil_right]
    | cons a as =>
      intro q hq
      simp only [zipPos_cons] at hq
      exact List.mem_cons_of_mem _ (ih as q hq)

/-- Summary of `zipPos (P ++ A) cargs` when every positional-only parameter is filled. -/
theorem zipPos_append_summary (P A : List (Param α)) (cargs : List α)
    (h : P.length ≤ cargs.length) :
    ∃ filled : List α,
      (zipPos (P ++ A) cargs).1.map Prod.fst = P.map (·.name) ++ filled ∧
      A.map (·.name) = filled ++ (zipPos (P ++ A) cargs).2.1.map (·.name) ∧
      ((zipPos (P ++ A) cargs).1.drop P.length).map Prod.fst = filled ∧
      P.length ≤ (zipPos (P ++ A) cargs).1.length ∧
      (∀ p ∈ (zipPos (P ++ A) cargs).2.1, p ∈ A) := by
  induction P generalizing cargs with
  | nil =>
    refine ⟨(zipPos A cargs).1.map Prod.fst, by simp, ?_, by simp, by simp, ?_⟩
    · simpa using (zipPos_keys A cargs).symm
    · simpa using zipPos_unfilled_sub A cargs
  | cons p P ih =>
    cases cargs with
    | nil => simp at h
    | cons a as =>
      obtain ⟨filled, h1, h2, h3, h4, h5⟩ := ih as (by simpa using h)
      refine ⟨filled, ?_, ?_, ?_, ?_, ?_⟩
      · simp [zipPos_cons, h1]
      · simpa [zipPos_cons] using h2
      · simpa [zipPos_cons] using h3
      · simpa [zipPos_cons] using h4
      · simpa [zipPos_cons] using h5

end Positional

/-! ### One step of the keyword loop, field by field -/
section KwStepFields
variable {α : Type} [DecidableEq α]

theorem kwStep_byPosName (si : StandIns α) (kw : Option α) (all : List α) (m : KwState α)
    (kv : α × α) :
    (kwStep si kw all m kv).byPosName =
      if Dict.contains m.swaps kv.1 = true then m.byPosName ++ [kv.1] else m.byPosName := by
  unfold kwStep
  cases kw <;> (simp only []; repeat' split) <;> simp_all

theorem kwStep_unexpected (si : StandIns α) (kw : Option α) (all : List α) (m : KwState α)
    (kv : α × α) :
    (kwStep si kw all m kv).unexpected =
      if kv.1 ∉ m.args ∧ kv.1 ∉ m.kwonly ∧ kw = none ∧ kv.1 ∉ all
      then m.unexpected ++ [kv.1] else m.unexpected := by
  unfold kwStep
  cases kw <;> (simp only []; repeat' split) <;> simp_all

theorem kwStep_args (si : StandIns α) (kw : Option α) (all : List α) (m : KwState α)
    (kv : α × α) :
    (kwStep si kw all m kv).args =
      if kv.1 ∈ m.args then removeFirst m.args kv.1 else m.args := by
  unfold kwStep
  cases kw <;> (simp only []; repeat' split) <;> simp_all

theorem kwStep_kwonly (si : StandIns α) (kw : Option α) (all : List α) (m : KwState α)
    (kv : α × α) :
    (kwStep si kw all m kv).kwonly =
      if kv.1 ∉ m.args ∧ kv.1 ∈ m.kwonly then removeFirst m.kwonly kv.1 else m.kwonly := by
  unfold kwStep
  cases kw <;> (simp only []; repeat' split) <;> simp_all

theorem kwStep_swaps (si : StandIns α) (kw : Option α) (all : List α) (m : KwState α)
    (kv : α × α) :
    (kwStep si kw all m kv).swaps =
      if kv.1 ∈ m.args ∨ kv.1 ∈ m.kwonly then Dict.set m.swaps kv.1 kv.2
      else match kw with
        | some k => Dict.set m.swaps k si.dict
        | none => m.swaps := by
  unfold kwStep
  cases kw <;> (simp only []; repeat' split) <;> simp_all

/-- the still-open parameters after a step = those before, minus the keyword -/
theorem kwStep_open (si : StandIns α) (kw : Option α) (all : List α) (m : KwState α)
    (kv : α × α) (hn : (m.args ++ m.kwonly).Nodup) :
    (kwStep si kw all m kv).args ++ (kwStep si kw all m kv).kwonly =
      (m.args ++ m.kwonly).filter (fun y => decide (y ≠ kv.1)) := by
  have hna := (List.nodup_append.mp hn).1
  have hnk := (List.nodup_append.mp hn).2.1
  have hd := (List.nodup_append.mp hn).2.2
  rw [kwStep_args, kwStep_kwonly, List.filter_append]
  by_cases ha : kv.1 ∈ m.args
  · have hk : kv.1 ∉ m.kwonly := fun hk => hd _ ha _ hk rfl
    simp only [ha, if_true, not_true_eq_false, false_and, if_false]
    rw [removeFirst_eq_filter _ _ hna, filter_ne_of_not_mem _ _ hk]
  · by_cases hk : kv.1 ∈ m.kwonly
    · simp only [ha, if_false, not_false_eq_true, hk, and_self, if_true]
      rw [removeFirst_eq_filter _ _ hnk, filter_ne_of_not_mem _ _ ha]
    · simp only [ha, if_false, hk, and_false]
      rw [filter_ne_of_not_mem _ _ ha, filter_ne_of_not_mem _ _ hk]

end KwStepFields

/-! ### The keyword loop: invariant linking the model state and `Spec.bindKws`' state -/
section KwLoop
variable {α : Type} [DecidableEq α]
open Spec

/-- `*args ↦ @Tuple` whenever it exists -/
def V (si : StandIns α) (v : Option α) : List (α × α) := v.toList.map (fun x => (x, si.tuple))

/-- `**kwargs ↦ @Dict` iff it received something -/
def KWm (si : StandIns α) (kw : Option α) (got : List (α × α)) : List (α × α) :=
  if got ≠ [] then kw.toList.map (fun k => (k, si.dict)) else []

def Exp (si : StandIns α) (v kw : Option α) (st : KwSt α) : List (α × α) :=
  st.explicit ++ V si v ++ KWm si kw st.kwargGot

theorem Exp_keys (si : StandIns α) (v kw : Option α) (st : KwSt α) (x : α) :
    x ∈ (Exp si v kw st).map Prod.fst ↔
      x ∈ st.explicit.map Prod.fst ∨ x ∈ v.toList ∨ (st.kwargGot ≠ [] ∧ x ∈ kw.toList) := by
  unfold Exp V KWm
  by_cases h : st.kwargGot = [] <;> simp [h, List.map_append, Function.comp_def]

/-- what distinct parameter names give us -/
theorem all_disj (f : Iface α) (hn : f.all.Nodup) :
    (∀ x ∈ f.posonly ++ f.args ++ f.kwonly, x ∉ f.vararg.toList ∧ x ∉ f.kwarg.toList) ∧
    (∀ x ∈ f.vararg.toList, x ∉ f.kwarg.toList) := by
  unfold Iface.all at hn
  simp only [List.nodup_append, List.mem_append] at hn
  simp only [List.mem_append]
  grind

/-- the part of the invariant that survives Python-accepted steps unconditionally -/
structure InvW (si : StandIns α) (f : Iface α) (m : KwState α) (st : KwSt α) : Prop where
  open_eq : st.open_.map (·.name) = m.args ++ m.kwonly
  nodup : (m.args ++ m.kwonly).Nodup
  same : ∀ k, Dict.get? m.swaps k = Dict.get? (Exp si f.vararg f.kwarg st) k
  open_sub : ∀ x ∈ m.args ++ m.kwonly, x ∈ f.args ++ f.kwonly
  expl_sub : ∀ x ∈ st.explicit.map Prod.fst, x ∈ f.posonly ++ f.args ++ f.kwonly
  open_fresh : ∀ x ∈ m.args ++ m.kwonly, x ∉ st.explicit.map Prod.fst
  covered : ∀ x ∈ f.posonly ++ f.args ++ f.vararg.toList ++ f.kwonly,
      x ∈ m.args ++ m.kwonly ∨ Dict.contains m.swaps x = true

/-- the full invariant: additionally nothing has been diagnosed so far -/
structure Inv (si : StandIns α) (f : Iface α) (filled : List α)
    (m : KwState α) (st : KwSt α) (rem : List (α × α)) : Prop extends InvW si f m st where
  rem_expl : ∀ kv ∈ rem, kv.1 ∈ st.explicit.map Prod.fst → kv.1 ∈ f.posonly ∨ kv.1 ∈ filled
  clean : m.unexpected = [] ∧ m.byPosName = []

theorem InvW.contains_iff {si : StandIns α} {f : Iface α}
    {m : KwState α} {st : KwSt α} (I : InvW si f m st) (x : α) :
    Dict.contains m.swaps x = true ↔
      x ∈ st.explicit.map Prod.fst ∨ x ∈ f.vararg.toList ∨
        (st.kwargGot ≠ [] ∧ x ∈ f.kwarg.toList) := by
  rw [contains_congr I.same x, SwapsLemmas.contains_iff, Exp_keys]

theorem Inv.contains_iff {si : StandIns α} {f : Iface α} {filled : List α}
    {m : KwState α} {st : KwSt α} {rem : List (α × α)} (I : Inv si f filled m st rem) (x : α) :
    Dict.contains m.swaps x = true ↔
      x ∈ st.explicit.map Prod.fst ∨ x ∈ f.vararg.toList ∨
        (st.kwargGot ≠ [] ∧ x ∈ f.kwarg.toList) := I.toInvW.contains_iff x

theorem open_any_iff (st : KwSt α) (t : α) :
    st.open_.any (fun p => decide (p.name = t)) = true ↔ t ∈ st.open_.map (·.name) := by
  simp only [List.any_eq_true, decide_eq_true_eq, List.mem_map]

theorem open_filter_names (l : List (Param α)) (t : α) :
    (l.filter (fun p => decide (p.name ≠ t))).map (·.name) =
      (l.map (·.name)).filter (fun y => decide (y ≠ t)) := by
  rw [List.filter_map]; rfl

theorem get?_singleton (kv : α × α) (k : α) :
    Dict.get? [kv] k = if kv.1 = k then some kv.2 else none := rfl

/-- A keyword Python binds to a still-open parameter: the weak invariant is preserved. -/
theorem stepW_ok_open (si : StandIns α) (f : Iface α) (_hn : f.all.Nodup)
    (m : KwState α) (st : KwSt α) (kv : α × α)
    (I : InvW si f m st)
    (hA : kv.1 ∈ st.open_.map (·.name)) :
    InvW si f (kwStep si f.kwarg f.all m kv)
      { st with explicit := st.explicit ++ [kv],
                open_ := st.open_.filter (fun p => decide (p.name ≠ kv.1)) } := by
  have ht : kv.1 ∈ m.args ++ m.kwonly := by rw [← I.open_eq]; exact hA
  have ht' : kv.1 ∈ m.args ∨ kv.1 ∈ m.kwonly := List.mem_append.mp ht
  have hopen := kwStep_open si f.kwarg f.all m kv I.nodup
  have htf := I.open_fresh _ ht
  have hts := I.open_sub _ ht
  refine
    { open_eq := ?_, nodup := ?_, same := ?_, open_sub := ?_, expl_sub := ?_, open_fresh := ?_,
      covered := ?_ }
  · rw [hopen, ← I.open_eq]; exact open_filter_names _ _
  · rw [hopen]; exact I.nodup.filter _
  · intro k
    rw [kwStep_swaps, if_pos ht', get?_set, I.same k]
    unfold Exp
    simp only [get?_append, get?_singleton]
    by_cases e : kv.1 = k
    · subst e
      have : Dict.get? st.explicit kv.1 = none := (get?_eq_none_iff _ _).mpr htf
      simp [this]
    · simp [e]
  · intro x hx
    rw [hopen] at hx
    exact I.open_sub x (List.mem_filter.mp hx).1
  · intro x hx
    simp only [List.map_append, List.map_cons, List.map_nil, List.mem_append, List.mem_cons,
      List.not_mem_nil, or_false] at hx
    rcases hx with hx | hx
    · exact I.expl_sub x hx
    · subst hx
      simp only [List.mem_append] at hts ⊢; grind
  · intro x hx
    rw [hopen] at hx
    have hx' := List.mem_filter.mp hx
    have hne : x ≠ kv.1 := by simpa using hx'.2
    simp only [List.map_append, List.map_cons, List.map_nil, List.mem_append, List.mem_cons,
      List.not_mem_nil, or_false, not_or]
    exact ⟨I.open_fresh x hx'.1, hne⟩
  · intro x hx
    rw [hopen, kwStep_swaps, if_pos ht', contains_set]
    by_cases e : kv.1 = x
    · right; simp [e]
    · rcases I.covered x hx with h | h
      · left; exact List.mem_filter.mpr ⟨h, by simpa using fun e' => e e'.symm⟩
      · right; simp [h]

/-- A keyword Python binds to a still-open parameter: the invariant is preserved. -/
theorem step_ok_open (si : StandIns α) (f : Iface α) (filled : List α) (hn : f.all.Nodup)
    (m : KwState α) (st : KwSt α) (kv : α × α) (rem : List (α × α))
    (I : Inv si f filled m st (kv :: rem))
    (hk : ((kv :: rem).map Prod.fst).Nodup)
    (hA : kv.1 ∈ st.open_.map (·.name)) :
    Inv si f filled (kwStep si f.kwarg f.all m kv)
      { st with explicit := st.explicit ++ [kv],
                open_ := st.open_.filter (fun p => decide (p.name ≠ kv.1)) } rem := by
  obtain ⟨hd1, hd2⟩ := all_disj f hn
  have hkv : ∀ kv' ∈ rem, kv'.1 ≠ kv.1 := by
    intro kv' h' e
    have h0 : kv.1 ∉ rem.map Prod.fst := by simpa using (List.nodup_cons.mp hk).1
    exact h0 (e ▸ List.mem_map_of_mem (f := Prod.fst) h')
  have ht : kv.1 ∈ m.args ++ m.kwonly := by rw [← I.open_eq]; exact hA
  have htf := I.open_fresh _ ht
  have hts := I.open_sub _ ht
  have htd := hd1 kv.1 (by simp only [List.mem_append] at hts ⊢; grind)
  have hnc : ¬ Dict.contains m.swaps kv.1 = true := by
    rw [I.contains_iff]; grind
  refine { toInvW := stepW_ok_open si f hn m st kv I.toInvW hA, rem_expl := ?_, clean := ?_ }
  · intro kv' h' hm
    simp only [List.map_append, List.map_cons, List.map_nil, List.mem_append, List.mem_cons,
      List.not_mem_nil, or_false] at hm
    rcases hm with hm | hm
    · exact I.rem_expl kv' (List.mem_cons_of_mem _ h') hm
    · exact absurd hm (hkv kv' h')
  · constructor
    · rw [kwStep_unexpected, if_neg (by grind)]; exact I.clean.1
    · rw [kwStep_byPosName, if_neg hnc]; exact I.clean.2

/-- A keyword Python puts into `**kwargs`: the weak invariant is preserved. -/
theorem stepW_ok_kwarg (si : StandIns α) (f : Iface α) (hn : f.all.Nodup)
    (m : KwState α) (st : KwSt α) (kv : α × α)
    (I : InvW si f m st)
    (hA : kv.1 ∉ st.open_.map (·.name)) (hK : f.kwarg.isSome = true) :
    InvW si f (kwStep si f.kwarg f.all m kv)
      { st with kwargGot := st.kwargGot ++ [kv] } := by
  obtain ⟨hd1, hd2⟩ := all_disj f hn
  obtain ⟨kn, hkn⟩ := Option.isSome_iff_exists.mp hK
  have ht : kv.1 ∉ m.args ++ m.kwonly := by rw [← I.open_eq]; exact hA
  have ht' : ¬ (kv.1 ∈ m.args ∨ kv.1 ∈ m.kwonly) := fun h => ht (List.mem_append.mpr h)
  have hta : kv.1 ∉ m.args := fun h => ht' (Or.inl h)
  have htk : kv.1 ∉ m.kwonly := fun h => ht' (Or.inr h)
  have hsw : (kwStep si f.kwarg f.all m kv).swaps = Dict.set m.swaps kn si.dict := by
    rw [kwStep_swaps, if_neg ht', hkn]
  have harg : (kwStep si f.kwarg f.all m kv).args = m.args := by rw [kwStep_args, if_neg hta]
  have hkwo : (kwStep si f.kwarg f.all m kv).kwonly = m.kwonly := by
    rw [kwStep_kwonly, if_neg (by grind)]
  have hknE : kn ∉ st.explicit.map Prod.fst := by
    intro h
    have := (hd1 kn (I.expl_sub kn h)).2
    simp [hkn] at this
  have hknV : kn ∉ f.vararg.toList := by
    intro h
    have := hd2 kn h
    simp [hkn] at this
  refine
    { open_eq := ?_, nodup := ?_, same := ?_, open_sub := ?_, expl_sub := ?_, open_fresh := ?_,
      covered := ?_ }
  · rw [harg, hkwo]; exact I.open_eq
  · rw [harg, hkwo]; exact I.nodup
  · intro k
    rw [hsw, get?_set, I.same k]
    unfold Exp KWm V
    have hne : st.kwargGot ++ [kv] ≠ [] := by simp
    simp only [get?_append, hne, ne_eq, not_false_eq_true, if_true, hkn, Option.toList_some,
      List.map_cons, List.map_nil, get?_singleton]
    by_cases e : kn = k
    · subst e
      have h1 : Dict.get? st.explicit kn = none := (get?_eq_none_iff _ _).mpr hknE
      have h2 : Dict.get? (f.vararg.toList.map (fun x => (x, si.tuple))) kn = none := by
        apply (get?_eq_none_iff _ _).mpr
        simpa [List.map_map, Function.comp_def] using hknV
      simp [h1, h2]
    · by_cases hg : st.kwargGot = [] <;> simp [e, hg, get?_singleton, get?_nil]
  · rw [harg, hkwo]; exact I.open_sub
  · exact I.expl_sub
  · rw [harg, hkwo]; exact I.open_fresh
  · intro x hx
    rw [harg, hkwo, hsw, contains_set]
    rcases I.covered x hx with h | h
    · left; exact h
    · right; simp [h]

/-- A keyword Python puts into `**kwargs`: the invariant is preserved (this is where the
exclusion E1 is needed). -/
theorem step_ok_kwarg (si : StandIns α) (f : Iface α) (filled : List α) (hn : f.all.Nodup)
    (m : KwState α) (st : KwSt α) (kv : α × α) (rem : List (α × α))
    (I : Inv si f filled m st (kv :: rem))
    (hE : kv.1 ∉ f.posonly ∧ kv.1 ∉ f.vararg.toList ∧
      (st.kwargGot ≠ [] → kv.1 ∉ f.kwarg.toList))
    (hA : kv.1 ∉ st.open_.map (·.name)) (hF : kv.1 ∉ filled) (hK : f.kwarg.isSome = true) :
    Inv si f filled (kwStep si f.kwarg f.all m kv)
      { st with kwargGot := st.kwargGot ++ [kv] } rem := by
  obtain ⟨kn, hkn⟩ := Option.isSome_iff_exists.mp hK
  have hte : kv.1 ∉ st.explicit.map Prod.fst := by
    intro h
    rcases I.rem_expl kv (List.mem_cons_self ..) h with h | h
    · exact hE.1 h
    · exact hF h
  have hnc : ¬ Dict.contains m.swaps kv.1 = true := by
    rw [I.contains_iff]; grind
  refine { toInvW := stepW_ok_kwarg si f hn m st kv I.toInvW hA hK, rem_expl := ?_, clean := ?_ }
  · intro kv' h' hm
    exact I.rem_expl kv' (List.mem_cons_of_mem _ h') hm
  · constructor
    · rw [kwStep_unexpected, if_neg (by simp [hkn])]; exact I.clean.1
    · rw [kwStep_byPosName, if_neg hnc]; exact I.clean.2

/-! #### the four outcomes of `Spec.bindKw` -/

theorem bindKw_open (filled : List α) (hasKw : Bool) (st : KwSt α) (kv : α × α)
    (hA : kv.1 ∈ st.open_.map (·.name)) :
    bindKw filled hasKw st kv =
      .ok { st with explicit := st.explicit ++ [kv],
                    open_ := st.open_.filter (fun p => decide (p.name ≠ kv.1)) } := by
  unfold bindKw
  rw [if_pos ((open_any_iff st kv.1).mpr hA)]

theorem bindKw_filled (filled : List α) (hasKw : Bool) (st : KwSt α) (kv : α × α)
    (hA : kv.1 ∉ st.open_.map (·.name)) (hF : kv.1 ∈ filled) :
    bindKw filled hasKw st kv = .error .multipleValues := by
  unfold bindKw
  rw [if_neg (fun h => hA ((open_any_iff st kv.1).mp h)), if_pos hF]

theorem bindKw_kwarg (filled : List α) (st : KwSt α) (kv : α × α)
    (hA : kv.1 ∉ st.open_.map (·.name)) (hF : kv.1 ∉ filled) :
    bindKw filled true st kv = .ok { st with kwargGot := st.kwargGot ++ [kv] } := by
  unfold bindKw
  rw [if_neg (fun h => hA ((open_any_iff st kv.1).mp h)), if_neg hF]; rfl

theorem bindKw_unexpected (filled : List α) (st : KwSt α) (kv : α × α)
    (hA : kv.1 ∉ st.open_.map (·.name)) (hF : kv.1 ∉ filled) :
    bindKw filled false st kv = .error .unexpectedKeyword := by
  unfold bindKw
  rw [if_neg (fun h => hA ((open_any_iff st kv.1).mp h)), if_neg hF]; rfl

/-! #### diagnostics only accumulate -/

/-- the keyword loop has something to report -/
def Diag (m : KwState α) : Prop := m.unexpected ≠ [] ∨ m.byPosName ≠ []

theorem Diag_step (si : StandIns α) (kw : Option α) (all : List α) (m : KwState α) (kv : α × α)
    (h : Diag m) : Diag (kwStep si kw all m kv) := by
  unfold Diag at *
  rw [kwStep_unexpected, kwStep_byPosName]
  rcases h with h | h
  · left; split <;> simp [h]
  · right; split <;> simp [h]

theorem Diag_fold (si : StandIns α) (kw : Option α) (all : List α) (l : List (α × α))
    (m : KwState α) (h : Diag m) : Diag (l.foldl (kwStep si kw all) m) := by
  induction l generalizing m with
  | nil => exact h
  | cons kv l ih => exact ih _ (Diag_step si kw all m kv h)

/-- Python says "multiple values": the model reports "by position and name". -/
theorem step_err_multiple (si : StandIns α) (f : Iface α) (filled : List α)
    (hfill : ∀ x ∈ filled, x ∈ f.args)
    (m : KwState α) (st : KwSt α) (kv : α × α)
    (I : InvW si f m st)
    (hA : kv.1 ∉ st.open_.map (·.name)) (hF : kv.1 ∈ filled) :
    kv.1 ∈ (kwStep si f.kwarg f.all m kv).byPosName := by
  have ht : kv.1 ∉ m.args ++ m.kwonly := by rw [← I.open_eq]; exact hA
  have hc : Dict.contains m.swaps kv.1 = true := by
    rcases I.covered kv.1 (by simp only [List.mem_append]; exact Or.inl (Or.inl (Or.inr (hfill _ hF))))
      with h | h
    · exact absurd h ht
    · exact h
  rw [kwStep_byPosName, if_pos hc]; simp

/-- Python says "unexpected keyword" (no `**kwargs`): the model reports it, either as unexpected
or (a parameter name that is already bound) as given by position and name. -/
theorem step_err_unexpected (si : StandIns α) (f : Iface α)
    (m : KwState α) (st : KwSt α) (kv : α × α)
    (I : InvW si f m st)
    (hA : kv.1 ∉ st.open_.map (·.name)) (hK : f.kwarg = none) :
    kv.1 ∈ (kwStep si f.kwarg f.all m kv).unexpected ∨
      kv.1 ∈ (kwStep si f.kwarg f.all m kv).byPosName := by
  have ht : kv.1 ∉ m.args ++ m.kwonly := by rw [← I.open_eq]; exact hA
  have hta : kv.1 ∉ m.args := fun h => ht (List.mem_append.mpr (Or.inl h))
  have htk : kv.1 ∉ m.kwonly := fun h => ht (List.mem_append.mpr (Or.inr h))
  by_cases hc : Dict.contains m.swaps kv.1 = true
  · right; rw [kwStep_byPosName, if_pos hc]; simp
  · left
    have hall : kv.1 ∉ f.all := by
      intro h
      unfold Iface.all at h
      rw [hK] at h
      simp only [Option.toList_none, List.append_nil] at h
      rcases I.covered kv.1 h with h | h
      · exact ht h
      · exact hc h
    rw [kwStep_unexpected, if_pos ⟨hta, htk, hK, hall⟩]; simp

theorem Diag_of_mem_left {m : KwState α} {x : α} (h : x ∈ m.unexpected) : Diag m :=
  Or.inl (List.ne_nil_of_mem h)
theorem Diag_of_mem_right {m : KwState α} {x : α} (h : x ∈ m.byPosName) : Diag m :=
  Or.inr (List.ne_nil_of_mem h)

/-- E1 restricted to one keyword -/
def KwClash (f : Iface α) (t : α) : Prop :=
  f.kwarg.isSome = true ∧ (t ∈ f.posonly ∨ t ∈ f.vararg.toList ∨ t ∈ f.kwarg.toList)

/-- **The keyword loop.** Starting from related states, run both loops over the same keywords:
if Python binds them all, the states are still related (in particular no diagnostic); if Python
rejects one, the model has a diagnostic. -/
theorem kw_loop (si : StandIns α) (f : Iface α) (filled : List α) (hn : f.all.Nodup)
    (hfill : ∀ x ∈ filled, x ∈ f.args) :
    ∀ (rem : List (α × α)) (m : KwState α) (st : KwSt α),
      Inv si f filled m st rem → (rem.map Prod.fst).Nodup →
      (∀ kv ∈ rem, ¬ KwClash f kv.1) →
      match bindKws filled f.kwarg.isSome st rem with
      | .ok st' => Inv si f filled (rem.foldl (kwStep si f.kwarg f.all) m) st' []
      | .error e => e ≠ .missingRequired ∧ e ≠ .tooManyPositional ∧
                    Diag (rem.foldl (kwStep si f.kwarg f.all) m) := by
  intro rem
  induction rem with
  | nil => intro m st I _ _; simpa [bindKws] using I
  | cons kv rem ih =>
    intro m st I hk hE
    have hk' : (rem.map Prod.fst).Nodup := (List.nodup_cons.mp hk).2
    have hE' : ∀ kv ∈ rem, ¬ KwClash f kv.1 := fun kv' h => hE kv' (List.mem_cons_of_mem _ h)
    simp only [List.foldl_cons]
    by_cases hA : kv.1 ∈ st.open_.map (·.name)
    · have I' := step_ok_open si f filled hn m st kv rem I hk hA
      simp only [bindKws, bindKw_open filled _ st kv hA]
      exact ih _ _ I' hk' hE'
    · by_cases hF : kv.1 ∈ filled
      · simp only [bindKws, bindKw_filled filled _ st kv hA hF]
        refine ⟨by simp, by simp, ?_⟩
        exact Diag_fold _ _ _ _ _
          (Diag_of_mem_right (step_err_multiple si f filled hfill m st kv I.toInvW hA hF))
      · cases hK : f.kwarg with
        | none =>
          simp only [bindKws, Option.isSome_none, bindKw_unexpected filled st kv hA hF]
          refine ⟨by simp, by simp, ?_⟩
          apply Diag_fold
          have := step_err_unexpected si f m st kv I.toInvW hA hK
          rw [hK] at this
          rcases this with h | h
          · exact Diag_of_mem_left h
          · exact Diag_of_mem_right h
        | some kn =>
          have hKs : f.kwarg.isSome = true := by simp [hK]
          have hEk : kv.1 ∉ f.posonly ∧ kv.1 ∉ f.vararg.toList ∧
              (st.kwargGot ≠ [] → kv.1 ∉ f.kwarg.toList) := by
            have := hE kv (List.mem_cons_self ..)
            unfold KwClash at this
            grind
          have I' := step_ok_kwarg si f filled hn m st kv rem I hEk hA hF hKs
          rw [hK] at I'
          simp only [bindKws, Option.isSome_some, bindKw_kwarg filled st kv hA hF]
          have := ih _ _ I' hk' hE'
          simpa [hK] using this

/-! #### the sharp exclusion: the `**kwargs` name as a keyword only clashes after a surplus keyword -/

/-- the first keyword that names no positional-or-keyword / keyword-only parameter (so Python
puts it into `**kwargs`) is followed by a keyword spelled like the `**kwargs` parameter -/
def selfClash (f : Iface α) : List (α × α) → Bool
  | [] => false
  | kv :: r =>
    if kv.1 ∈ f.args ∨ kv.1 ∈ f.kwonly then selfClash f r
    else r.any (fun kv' => decide (kv'.1 ∈ f.kwarg.toList))

theorem selfClash_mem (f : Iface α) (l : List (α × α)) (h : selfClash f l = true) :
    ∃ kv ∈ l, kv.1 ∈ f.kwarg.toList := by
  induction l with
  | nil => simp [selfClash] at h
  | cons kv r ih =>
    simp only [selfClash] at h
    split at h
    · obtain ⟨kv', h1, h2⟩ := ih h
      exact ⟨kv', List.mem_cons_of_mem _ h1, h2⟩
    · obtain ⟨kv', h1, h2⟩ := List.any_eq_true.mp h
      exact ⟨kv', List.mem_cons_of_mem _ h1, by simpa using h2⟩

/-- E1 (sharp) restricted to one keyword -/
def KwClashS (f : Iface α) (t : α) : Prop :=
  f.kwarg.isSome = true ∧ (t ∈ f.posonly ∨ t ∈ f.vararg.toList)

/-- **The keyword loop, sharp version.** -/
theorem kw_loopS (si : StandIns α) (f : Iface α) (filled : List α) (hn : f.all.Nodup)
    (hfill : ∀ x ∈ filled, x ∈ f.args) :
    ∀ (rem : List (α × α)) (m : KwState α) (st : KwSt α),
      Inv si f filled m st rem → (rem.map Prod.fst).Nodup →
      (∀ kv ∈ rem, ¬ KwClashS f kv.1) →
      (∀ kv ∈ rem, kv.1 ∈ f.args ++ f.kwonly → kv.1 ∈ m.args ++ m.kwonly ∨ kv.1 ∈ filled) →
      (st.kwargGot ≠ [] → ∀ kv ∈ rem, kv.1 ∉ f.kwarg.toList) →
      (st.kwargGot = [] → selfClash f rem = false) →
      match bindKws filled f.kwarg.isSome st rem with
      | .ok st' => Inv si f filled (rem.foldl (kwStep si f.kwarg f.all) m) st' []
      | .error e => e ≠ .missingRequired ∧ e ≠ .tooManyPositional ∧
                    Diag (rem.foldl (kwStep si f.kwarg f.all) m) := by
  intro rem
  induction rem with
  | nil => intro m st I _ _ _ _ _; simpa [bindKws] using I
  | cons kv rem ih =>
    intro m st I hk hE hro hgs hgn
    have hk' : (rem.map Prod.fst).Nodup := (List.nodup_cons.mp hk).2
    have hkv : ∀ kv' ∈ rem, kv'.1 ≠ kv.1 := by
      intro kv' h' e
      have h0 : kv.1 ∉ rem.map Prod.fst := by simpa using (List.nodup_cons.mp hk).1
      exact h0 (e ▸ List.mem_map_of_mem (f := Prod.fst) h')
    have hE' : ∀ kv ∈ rem, ¬ KwClashS f kv.1 := fun kv' h => hE kv' (List.mem_cons_of_mem _ h)
    have hopen := kwStep_open si f.kwarg f.all m kv I.nodup
    -- the still-open parameters that a later keyword may name are unaffected by this step
    have hro' : ∀ kv' ∈ rem, kv'.1 ∈ f.args ++ f.kwonly →
        kv'.1 ∈ (kwStep si f.kwarg f.all m kv).args ++ (kwStep si f.kwarg f.all m kv).kwonly ∨
          kv'.1 ∈ filled := by
      intro kv' h' hm
      rcases hro kv' (List.mem_cons_of_mem _ h') hm with h | h
      · left; rw [hopen]
        exact List.mem_filter.mpr ⟨h, by simpa using hkv kv' h'⟩
      · right; exact h
    simp only [List.foldl_cons]
    by_cases hA : kv.1 ∈ st.open_.map (·.name)
    · have I' := step_ok_open si f filled hn m st kv rem I hk hA
      simp only [bindKws, bindKw_open filled _ st kv hA]
      have hin : kv.1 ∈ f.args ∨ kv.1 ∈ f.kwonly := by
        have := I.open_sub kv.1 (by rw [← I.open_eq]; exact hA)
        exact List.mem_append.mp this
      refine ih _ _ I' hk' hE' hro' (fun hg kv' h' => hgs hg kv' (List.mem_cons_of_mem _ h')) ?_
      intro hg
      have := hgn hg
      simpa [selfClash, hin] using this
    · by_cases hF : kv.1 ∈ filled
      · simp only [bindKws, bindKw_filled filled _ st kv hA hF]
        refine ⟨by simp, by simp, ?_⟩
        exact Diag_fold _ _ _ _ _
          (Diag_of_mem_right (step_err_multiple si f filled hfill m st kv I.toInvW hA hF))
      · cases hK : f.kwarg with
        | none =>
          simp only [bindKws, Option.isSome_none, bindKw_unexpected filled st kv hA hF]
          refine ⟨by simp, by simp, ?_⟩
          apply Diag_fold
          have := step_err_unexpected si f m st kv I.toInvW hA hK
          rw [hK] at this
          rcases this with h | h
          · exact Diag_of_mem_left h
          · exact Diag_of_mem_right h
        | some kn =>
          have hKs : f.kwarg.isSome = true := by simp [hK]
          have hout : ¬ (kv.1 ∈ f.args ∨ kv.1 ∈ f.kwonly) := by
            intro hin
            rcases hro kv (List.mem_cons_self ..) (List.mem_append.mpr hin) with h | h
            · exact hA (by rw [I.open_eq]; exact h)
            · exact hF h
          have hEk : kv.1 ∉ f.posonly ∧ kv.1 ∉ f.vararg.toList ∧
              (st.kwargGot ≠ [] → kv.1 ∉ f.kwarg.toList) := by
            have := hE kv (List.mem_cons_self ..)
            unfold KwClashS at this
            have h3 := fun hg => hgs hg kv (List.mem_cons_self ..)
            grind
          have I' := step_ok_kwarg si f filled hn m st kv rem I hEk hA hF hKs
          have hgs' : st.kwargGot ++ [kv] ≠ [] → ∀ kv' ∈ rem, kv'.1 ∉ f.kwarg.toList := by
            intro _ kv' h'
            by_cases hg : st.kwargGot = []
            · have := hgn hg
              simp only [selfClash, if_neg hout] at this
              have h2 := List.any_eq_false.mp this kv' h'
              simpa using h2
            · exact hgs hg kv' (List.mem_cons_of_mem _ h')
          have := ih _ _ I' hk' hE' hro' hgs' (fun hg => by simp at hg)
          rw [hK] at this
          simp only [bindKws, Option.isSome_some, bindKw_kwarg filled st kv hA hF]
          simpa [hK] using this

/-- **The keyword loop, rejections.** With only the weak invariant (no exclusion, keywords need
not be distinct): if Python rejects a keyword, the model has a diagnostic. -/
theorem kw_loopW (si : StandIns α) (f : Iface α) (filled : List α) (hn : f.all.Nodup)
    (hfill : ∀ x ∈ filled, x ∈ f.args) :
    ∀ (rem : List (α × α)) (m : KwState α) (st : KwSt α),
      InvW si f m st →
      match bindKws filled f.kwarg.isSome st rem with
      | .ok st' => InvW si f (rem.foldl (kwStep si f.kwarg f.all) m) st'
      | .error e => e ≠ .missingRequired ∧ e ≠ .tooManyPositional ∧
                    Diag (rem.foldl (kwStep si f.kwarg f.all) m) := by
  intro rem
  induction rem with
  | nil => intro m st I; simpa [bindKws] using I
  | cons kv rem ih =>
    intro m st I
    simp only [List.foldl_cons]
    by_cases hA : kv.1 ∈ st.open_.map (·.name)
    · have I' := stepW_ok_open si f hn m st kv I hA
      simp only [bindKws, bindKw_open filled _ st kv hA]
      exact ih _ _ I'
    · by_cases hF : kv.1 ∈ filled
      · simp only [bindKws, bindKw_filled filled _ st kv hA hF]
        refine ⟨by simp, by simp, ?_⟩
        exact Diag_fold _ _ _ _ _
          (Diag_of_mem_right (step_err_multiple si f filled hfill m st kv I hA hF))
      · cases hK : f.kwarg with
        | none =>
          simp only [bindKws, Option.isSome_none, bindKw_unexpected filled st kv hA hF]
          refine ⟨by simp, by simp, ?_⟩
          apply Diag_fold
          have := step_err_unexpected si f m st kv I hA hK
          rw [hK] at this
          rcases this with h | h
          · exact Diag_of_mem_left h
          · exact Diag_of_mem_right h
        | some kn =>
          have hKs : f.kwarg.isSome = true := by simp [hK]
          have I' := stepW_ok_kwarg si f hn m st kv I hA hKs
          rw [hK] at I'
          simp only [bindKws, Option.isSome_some, bindKw_kwarg filled st kv hA hF]
          have := ih _ _ I'
          simpa [hK] using this

/-- The states after the positional phases are related. -/
theorem Inv_init (si : StandIns α) (f : Iface α) (hn : f.all.Nodup)
    (bpos : List (α × α)) (unf K : List (Param α)) (filled : List α)
    (h1 : bpos.map Prod.fst = f.posonly ++ filled)
    (h2 : f.args = filled ++ unf.map (·.name))
    (hK : f.kwonly = K.map (·.name)) (rem : List (α × α)) :
    Inv si f filled
      { swaps := bpos ++ V si f.vararg, args := unf.map (·.name), kwonly := f.kwonly,
        unexpected := [], byPosName := [] }
      { explicit := bpos, open_ := unf ++ K, kwargGot := [] } rem := by
  have hn' := hn
  unfold Iface.all at hn'
  rw [h2] at hn'
  simp only [List.nodup_append, List.mem_append] at hn'
  have hkeys : ∀ x, x ∈ (bpos ++ V si f.vararg).map Prod.fst ↔
      x ∈ f.posonly ∨ x ∈ filled ∨ x ∈ f.vararg.toList := by
    intro x
    simp only [List.map_append, h1, V, List.map_map, Function.comp_def, List.map_id',
      List.mem_append]
    grind
  refine
    { open_eq := ?_, nodup := ?_, same := ?_, open_sub := ?_, expl_sub := ?_, open_fresh := ?_,
      covered := ?_, rem_expl := ?_, clean := ⟨rfl, rfl⟩ }
  · simp [hK]
  · simp only [List.nodup_append]; grind
  · intro k; simp [Exp, KWm]
  · intro x hx; simp only [h2, List.mem_append] at hx ⊢; grind
  · intro x hx; simp only [h1, h2, List.mem_append] at hx ⊢; grind
  · intro x hx; simp only [h1, List.mem_append] at hx ⊢; grind
  · intro x hx
    simp only [contains_iff, hkeys]
    simp only [h2, List.mem_append] at hx ⊢
    grind
  · intro kv _ hm; simp only [h1, List.mem_append] at hm; exact hm

end KwLoop

/-! ### `construct` and `pyBind` in closed form once the positional-only parameters are filled -/
section ClosedForm
variable {α : Type} [DecidableEq α]
open Spec

theorem iface_all (s : Sig α) :
    s.iface.all = s.posonly.map (·.name) ++ s.args.map (·.name) ++ s.vararg.toList ++
      s.kwonly.map (·.name) ++ s.kwarg.toList := rfl

/-- the state in which the model enters the keyword loop -/
def m0 (si : StandIns α) (s : Sig α) (c : CallArgs α) : KwState α :=
  { swaps := (zipPos (s.posonly ++ s.args) c.args).1 ++ V si s.vararg,
    args := (zipPos (s.posonly ++ s.args) c.args).2.1.map (·.name),
    kwonly := s.kwonly.map (·.name), unexpected := [], byPosName := [] }

/-- the state in which Python starts binding keywords -/
def st0 (s : Sig α) (c : CallArgs α) : KwSt α :=
  { explicit := (zipPos (s.posonly ++ s.args) c.args).1,
    open_ := (zipPos (s.posonly ++ s.args) c.args).2.1 ++ s.kwonly, kwargGot := [] }

def filled0 (s : Sig α) (c : CallArgs α) : List α :=
  ((zipPos (s.posonly ++ s.args) c.args).1.drop s.posonly.length).map Prod.fst

theorem construct_eq (si : StandIns α) (s : Sig α) (c : CallArgs α)
    (hn : s.iface.all.Nodup) (hlen : s.posonly.length ≤ c.args.length) :
    construct si s.iface c =
      (let st := c.kwargs.foldl (kwStep si s.kwarg s.iface.all) (m0 si s c)
       (st.swaps,
        (if (zipPos (s.posonly ++ s.args) c.args).2.2 ≠ [] ∧ s.vararg = none
           then [SwapDiag.tooManyPositional] else []) ++
        (if st.unexpected ≠ [] then [SwapDiag.unexpectedKeywords st.unexpected] else []) ++
        (if st.byPosName ≠ [] then [SwapDiag.byPositionAndName st.byPosName] else []))) := by
  obtain ⟨sw', cargs', hbp, hba⟩ :=
    bindPosonly_then (s.posonly.map (·.name)) (s.args.map (·.name)) c.args [] (by simpa using hlen)
  have hz := bindArgs_eq_zipPos (s.posonly ++ s.args) c.args []
  rw [List.map_append, hba] at hz
  -- distinct names: the assignments append
  have hkeys := zipPos_keys (s.posonly ++ s.args) c.args
  have hn' := hn
  rw [iface_all] at hn'
  have hnd : ((zipPos (s.posonly ++ s.args) c.args).1.map Prod.fst).Nodup := by
    have : ((s.posonly ++ s.args).map (·.name)).Nodup := by
      rw [List.map_append]
      exact (List.nodup_append.mp (List.nodup_append.mp (List.nodup_append.mp hn').1).1).1
    rw [← hkeys] at this
    exact (List.nodup_append.mp this).1
  rw [setMany_fresh [] _ (by simpa using hnd), List.nil_append] at hz
  unfold construct
  simp only [Sig.iface] at hbp hz ⊢
  rw [hbp]
  simp only [hz]
  have hcases : s.vararg = none ∨ ∃ v, s.vararg = some v := by
    cases s.vararg <;> simp
  rcases hcases with hv | ⟨v, hv⟩
  · simp [m0, V, hv]
  · have hvf : v ∉ (zipPos (s.posonly ++ s.args) c.args).1.map Prod.fst := by
      intro hm
      have hm' : v ∈ (s.posonly ++ s.args).map (·.name) := by
        rw [← hkeys]; exact List.mem_append.mpr (Or.inl hm)
      rw [hv] at hn'
      have hd := (List.nodup_append.mp (List.nodup_append.mp (List.nodup_append.mp hn').1).1).2.2
      rw [List.map_append] at hm'
      exact hd v hm' v (by simp) rfl
    simp [m0, V, hv, set_fresh _ _ _ hvf]

theorem pyBind_eq (s : Sig α) (c : CallArgs α) (hlen : s.posonly.length ≤ c.args.length) :
    pyBind s c =
      if (zipPos (s.posonly ++ s.args) c.args).2.2 ≠ [] ∧ s.vararg.isNone = true
      then .error .tooManyPositional
      else match bindKws (filled0 s c) s.kwarg.isSome (st0 s c) c.kwargs with
        | .error e => .error e
        | .ok st =>
          if st.open_.any (fun p => !p.hasDefault) = true then .error .missingRequired
          else .ok { explicit := st.explicit,
                     varargGot := (zipPos (s.posonly ++ s.args) c.args).2.2,
                     kwargGot := st.kwargGot } := by
  obtain ⟨filled, -, -, -, h4, -⟩ := zipPos_append_summary s.posonly s.args c.args hlen
  have h4' : ¬ (zipPos (s.posonly ++ s.args) c.args).1.length < s.posonly.length := by omega
  unfold pyBind filled0 st0
  simp only [h4', if_false, List.nil_append]
  rfl

end ClosedForm

/-! ### Frame / monotonicity facts of the keyword loop (no invariant needed) -/
section Frame
variable {α : Type} [DecidableEq α]

theorem mem_removeFirst {l : List α} {x y : α} (h : y ∈ removeFirst l x) : y ∈ l := by
  induction l with
  | nil => simp [removeFirst] at h
  | cons a r ih =>
    simp only [removeFirst] at h
    split at h
    · exact List.mem_cons_of_mem _ h
    · rcases List.mem_cons.mp h with h | h
      · exact h ▸ List.mem_cons_self ..
      · exact List.mem_cons_of_mem _ (ih h)

theorem mem_removeFirst_of_ne {l : List α} {x y : α} (h : y ∈ l) (hne : y ≠ x) :
    y ∈ removeFirst l x := by
  induction l with
  | nil => simp at h
  | cons a r ih =>
    simp only [removeFirst]
    split
    · rcases List.mem_cons.mp h with h | h
      · subst h; contradiction
      · exact h
    · rcases List.mem_cons.mp h with h | h
      · exact h ▸ List.mem_cons_self ..
      · exact List.mem_cons_of_mem _ (ih h)

variable (si : StandIns α) (kw : Option α) (all : List α)

theorem kwStep_args_sub (m : KwState α) (kv : α × α) :
    ∀ y ∈ (kwStep si kw all m kv).args, y ∈ m.args := by
  intro y hy
  rw [kwStep_args] at hy
  split at hy
  · exact mem_removeFirst hy
  · exact hy

theorem kwStep_kwonly_sub (m : KwState α) (kv : α × α) :
    ∀ y ∈ (kwStep si kw all m kv).kwonly, y ∈ m.kwonly := by
  intro y hy
  rw [kwStep_kwonly] at hy
  split at hy
  · exact mem_removeFirst hy
  · exact hy

theorem fold_args_sub (l : List (α × α)) (m : KwState α) :
    ∀ y ∈ (l.foldl (kwStep si kw all) m).args, y ∈ m.args := by
  induction l generalizing m with
  | nil => intro y hy; exact hy
  | cons kv l ih => intro y hy; exact kwStep_args_sub si kw all m kv y (ih _ y hy)

theorem fold_kwonly_sub (l : List (α × α)) (m : KwState α) :
    ∀ y ∈ (l.foldl (kwStep si kw all) m).kwonly, y ∈ m.kwonly := by
  induction l generalizing m with
  | nil => intro y hy; exact hy
  | cons kv l ih => intro y hy; exact kwStep_kwonly_sub si kw all m kv y (ih _ y hy)

/-- a step only writes the keyword's own slot (if it is still open) or the `**kwargs` slot -/
theorem kwStep_get?_frame (m : KwState α) (kv : α × α) (x : α)
    (h1 : kv.1 = x → x ∉ m.args ∧ x ∉ m.kwonly) (h2 : kw ≠ some x) :
    Dict.get? (kwStep si kw all m kv).swaps x = Dict.get? m.swaps x := by
  rw [kwStep_swaps]
  split
  · rename_i h
    have : kv.1 ≠ x := by
      intro e
      have := h1 e
      rw [e] at h
      rcases h with h | h
      · exact this.1 h
      · exact this.2 h
    exact get?_set_ne _ _ this
  · cases kw with
    | none => rfl
    | some k =>
      have : k ≠ x := fun e => h2 (by rw [e])
      exact get?_set_ne _ _ this

theorem fold_get?_frame_closed (l : List (α × α)) (m : KwState α) (x : α)
    (ha : x ∉ m.args) (hk : x ∉ m.kwonly) (h2 : kw ≠ some x) :
    Dict.get? (l.foldl (kwStep si kw all) m).swaps x = Dict.get? m.swaps x := by
  induction l generalizing m with
  | nil => rfl
  | cons kv l ih =>
    simp only [List.foldl_cons]
    rw [ih _ (fun h => ha (kwStep_args_sub si kw all m kv x h))
      (fun h => hk (kwStep_kwonly_sub si kw all m kv x h))]
    exact kwStep_get?_frame si kw all m kv x (fun _ => ⟨ha, hk⟩) h2

theorem fold_get?_frame_keys (l : List (α × α)) (m : KwState α) (x : α)
    (hl : ∀ kv ∈ l, kv.1 ≠ x) (h2 : kw ≠ some x) :
    Dict.get? (l.foldl (kwStep si kw all) m).swaps x = Dict.get? m.swaps x := by
  induction l generalizing m with
  | nil => rfl
  | cons kv l ih =>
    simp only [List.foldl_cons]
    rw [ih _ (fun kv' h => hl kv' (List.mem_cons_of_mem _ h))]
    exact kwStep_get?_frame si kw all m kv x
      (fun e => absurd e (hl kv (List.mem_cons_self ..))) h2

theorem fold_open_keep (l : List (α × α)) (m : KwState α) (x : α)
    (hl : ∀ kv ∈ l, kv.1 ≠ x) (hx : x ∈ m.args ∨ x ∈ m.kwonly) :
    x ∈ (l.foldl (kwStep si kw all) m).args ∨ x ∈ (l.foldl (kwStep si kw all) m).kwonly := by
  induction l generalizing m with
  | nil => exact hx
  | cons kv l ih =>
    simp only [List.foldl_cons]
    apply ih _ (fun kv' h => hl kv' (List.mem_cons_of_mem _ h))
    have hne : x ≠ kv.1 := fun e => hl kv (List.mem_cons_self ..) e.symm
    rw [kwStep_args, kwStep_kwonly]
    rcases hx with hx | hx
    · left; split
      · exact mem_removeFirst_of_ne hx hne
      · exact hx
    · right; split
      · exact mem_removeFirst_of_ne hx hne
      · exact hx

theorem fold_unexpected_mono (l : List (α × α)) (m : KwState α) (x : α)
    (h : x ∈ m.unexpected) : x ∈ (l.foldl (kwStep si kw all) m).unexpected := by
  induction l generalizing m with
  | nil => exact h
  | cons kv l ih =>
    apply ih
    rw [kwStep_unexpected]; split <;> simp [h]

theorem fold_byPosName_mono (l : List (α × α)) (m : KwState α) (x : α)
    (h : x ∈ m.byPosName) : x ∈ (l.foldl (kwStep si kw all) m).byPosName := by
  induction l generalizing m with
  | nil => exact h
  | cons kv l ih =>
    apply ih
    rw [kwStep_byPosName]; split <;> simp [h]

theorem kwStep_contains_mono (m : KwState α) (kv : α × α) (x : α)
    (h : Dict.contains m.swaps x = true) :
    Dict.contains (kwStep si kw all m kv).swaps x = true := by
  rw [kwStep_swaps]
  split
  · rw [contains_set]; simp [h]
  · cases kw with
    | none => exact h
    | some k => simp only []; rw [contains_set]; simp [h]

theorem fold_contains_mono (l : List (α × α)) (m : KwState α) (x : α)
    (h : Dict.contains m.swaps x = true) :
    Dict.contains (l.foldl (kwStep si kw all) m).swaps x = true := by
  induction l generalizing m with
  | nil => exact h
  | cons kv l ih => exact ih _ (kwStep_contains_mono si kw all m kv x h)

/-- a keyword naming a still-open parameter binds it, and nothing later overwrites it -/
theorem fold_keyword_binds (l : List (α × α)) (m : KwState α) (kv : α × α)
    (hmem : kv ∈ l) (hk : (l.map Prod.fst).Nodup)
    (hx : kv.1 ∈ m.args ∨ kv.1 ∈ m.kwonly) (h2 : kw ≠ some kv.1) :
    Dict.get? (l.foldl (kwStep si kw all) m).swaps kv.1 = some kv.2 := by
  obtain ⟨pre, post, rfl⟩ := List.append_of_mem hmem
  simp only [List.map_append, List.map_cons] at hk
  have hk' := List.nodup_append.mp hk
  have hpre : ∀ kv' ∈ pre, kv'.1 ≠ kv.1 := by
    intro kv' h' e
    exact hk'.2.2 kv'.1 (List.mem_map_of_mem (f := Prod.fst) h') kv.1 (by simp) e
  have hpost : ∀ kv' ∈ post, kv'.1 ≠ kv.1 := by
    intro kv' h' e
    have := (List.nodup_cons.mp hk'.2.1).1
    exact this (e ▸ List.mem_map_of_mem (f := Prod.fst) h')
  simp only [List.foldl_append, List.foldl_cons]
  rw [fold_get?_frame_keys si kw all post _ kv.1 hpost h2]
  have hopen := fold_open_keep si kw all pre m kv.1 hpre hx
  rw [kwStep_swaps, if_pos hopen, get?_set_eq]

/-- a keyword naming something already in the map is reported "by position and name" -/
theorem fold_multiple_values (l : List (α × α)) (m : KwState α) (kv : α × α)
    (hmem : kv ∈ l) (hc : Dict.contains m.swaps kv.1 = true) :
    kv.1 ∈ (l.foldl (kwStep si kw all) m).byPosName := by
  obtain ⟨pre, post, rfl⟩ := List.append_of_mem hmem
  simp only [List.foldl_append, List.foldl_cons]
  apply fold_byPosName_mono
  rw [kwStep_byPosName, if_pos (fold_contains_mono si kw all pre m kv.1 hc)]
  simp

/-- without `**kwargs`, a keyword that is no parameter name is reported "unexpected" -/
theorem fold_unexpected (l : List (α × α)) (m : KwState α) (kv : α × α)
    (hmem : kv ∈ l) (hall : kv.1 ∉ all) (hkw : kw = none)
    (ha : ∀ y ∈ m.args, y ∈ all) (hko : ∀ y ∈ m.kwonly, y ∈ all) :
    kv.1 ∈ (l.foldl (kwStep si kw all) m).unexpected := by
  obtain ⟨pre, post, rfl⟩ := List.append_of_mem hmem
  simp only [List.foldl_append, List.foldl_cons]
  apply fold_unexpected_mono
  have h1 : kv.1 ∉ (pre.foldl (kwStep si kw all) m).args :=
    fun h => hall (ha _ (fold_args_sub si kw all pre m _ h))
  have h2 : kv.1 ∉ (pre.foldl (kwStep si kw all) m).kwonly :=
    fun h => hall (hko _ (fold_kwonly_sub si kw all pre m _ h))
  rw [kwStep_unexpected, if_pos ⟨h1, h2, hkw, hall⟩]
  simp

end Frame

/-! ### Stand-alone facts about `construct`, signature level -/
section Facts
variable {α : Type} [DecidableEq α]
open Spec

theorem get?_of_mem_nodup (d : Dict α α) (k v : α) (hn : (d.map Prod.fst).Nodup)
    (h : (k, v) ∈ d) : Dict.get? d k = some v := by
  induction d with
  | nil => simp at h
  | cons hd t ih =>
    obtain ⟨k', v'⟩ := hd
    simp only [List.map_cons, List.nodup_cons] at hn
    rw [get?_cons]
    rcases List.mem_cons.mp h with h | h
    · injection h with h1 h2; subst h1; subst h2; simp
    · have : k' ≠ k := by
        intro e; subst e
        exact hn.1 (List.mem_map_of_mem (f := Prod.fst) h)
      rw [if_neg this]; exact ih hn.2 h

theorem zipPos_fst_eq_zip (Ps : List (Param α)) (cargs : List α) :
    (zipPos Ps cargs).1 = List.zip (Ps.map (·.name)) cargs := by
  induction Ps generalizing cargs with
  | nil => simp [zipPos_nil_left]
  | cons p Ps ih =>
    cases cargs with
    | nil => simp [zipPos_nil_right]
    | cons a as => simp [zipPos_cons, ih as]

theorem zipPos_unfilled_eq_drop (Ps : List (Param α)) (cargs : List α) :
    (zipPos Ps cargs).2.1 = Ps.drop cargs.length := by
  induction Ps generalizing cargs with
  | nil => simp [zipPos_nil_left]
  | cons p Ps ih =>
    cases cargs with
    | nil => simp [zipPos_nil_right]
    | cons a as => simp [zipPos_cons, ih as]

theorem zip_iface (s : Sig α) (c : CallArgs α) :
    List.zip (s.iface.posonly ++ s.iface.args) c.args =
      (zipPos (s.posonly ++ s.args) c.args).1 := by
  rw [zipPos_fst_eq_zip, List.map_append]; rfl

theorem m0_args (si : StandIns α) (s : Sig α) (c : CallArgs α)
    (hlen : s.posonly.length ≤ c.args.length) :
    (m0 si s c).args = s.iface.args.drop (c.args.length - s.iface.posonly.length) := by
  have h0 : (s.posonly.map (·.name)).length ≤ c.args.length := by simpa using hlen
  show ((zipPos (s.posonly ++ s.args) c.args).2.1).map (·.name) = _
  rw [zipPos_unfilled_eq_drop, List.map_drop, List.map_append, List.drop_append,
    List.drop_eq_nil_of_le h0]
  simp [Sig.iface]

/-- every Iface is the interface of a signature -/
def sigOf (f : Iface α) : Sig α :=
  { posonly := f.posonly.map (fun x => ⟨x, false⟩), args := f.args.map (fun x => ⟨x, false⟩),
    vararg := f.vararg, kwonly := f.kwonly.map (fun x => ⟨x, false⟩), kwarg := f.kwarg }

theorem sigOf_iface (f : Iface α) : (sigOf f).iface = f := by
  cases f; simp [sigOf, Sig.iface, List.map_map, Function.comp_def]

/-- the distinct-names facts about the state entering the keyword loop -/
theorem m0_facts (si : StandIns α) (s : Sig α) (c : CallArgs α)
    (hn : s.iface.all.Nodup) (hlen : s.posonly.length ≤ c.args.length) :
    ((zipPos (s.posonly ++ s.args) c.args).1.map Prod.fst).Nodup ∧
    (∀ x ∈ (zipPos (s.posonly ++ s.args) c.args).1.map Prod.fst,
        x ∉ (m0 si s c).args ∧ x ∉ (m0 si s c).kwonly ∧ s.kwarg ≠ some x ∧ x ∉ s.vararg.toList) ∧
    (∀ x ∈ s.vararg.toList, x ∉ (zipPos (s.posonly ++ s.args) c.args).1.map Prod.fst ∧
        x ∉ (m0 si s c).args ∧ x ∉ (m0 si s c).kwonly ∧ s.kwarg ≠ some x) ∧
    (∀ x, x ∈ (m0 si s c).args ∨ x ∈ (m0 si s c).kwonly → s.kwarg ≠ some x ∧ x ∈ s.iface.all) := by
  obtain ⟨filled, h1, h2, -, -, -⟩ := zipPos_append_summary s.posonly s.args c.args hlen
  have hn' := hn
  rw [iface_all, h2] at hn'
  simp only [List.nodup_append, List.mem_append] at hn'
  have hall : ∀ x, x ∈ s.iface.all ↔
      x ∈ s.posonly.map (·.name) ∨ x ∈ filled ∨
      x ∈ (zipPos (s.posonly ++ s.args) c.args).2.1.map (·.name) ∨ x ∈ s.vararg.toList ∨
      x ∈ s.kwonly.map (·.name) ∨ x ∈ s.kwarg.toList := by
    intro x; rw [iface_all, h2]; simp only [List.mem_append]; grind
  have hkw : ∀ x, s.kwarg = some x ↔ x ∈ s.kwarg.toList := by
    intro x; cases s.kwarg <;> simp [eq_comm]
  refine ⟨?_, ?_, ?_, ?_⟩
  · rw [h1]; simp only [List.nodup_append]; grind
  · intro x hx
    rw [h1] at hx
    simp only [List.mem_append] at hx
    simp only [m0, ne_eq, hkw]
    grind
  · intro x hx
    rw [h1]
    simp only [List.mem_append, m0, ne_eq, hkw]
    grind
  · intro x hx
    simp only [m0] at hx
    simp only [ne_eq, hkw, hall]
    grind

theorem positional_sig (si : StandIns α) (s : Sig α) (c : CallArgs α)
    (hn : s.iface.all.Nodup) (hlen : s.posonly.length ≤ c.args.length) :
    ∀ pa ∈ List.zip (s.iface.posonly ++ s.iface.args) c.args,
      Dict.get? (construct si s.iface c).1 pa.1 = some pa.2 := by
  intro pa hpa
  rw [zip_iface] at hpa
  obtain ⟨hnd, hf, -, -⟩ := m0_facts si s c hn hlen
  have hk : pa.1 ∈ (zipPos (s.posonly ++ s.args) c.args).1.map Prod.fst :=
    List.mem_map_of_mem (f := Prod.fst) hpa
  obtain ⟨h1, h2, h3, -⟩ := hf pa.1 hk
  rw [construct_eq si s c hn hlen]
  simp only []
  rw [fold_get?_frame_closed si s.kwarg s.iface.all c.kwargs (m0 si s c) pa.1 h1 h2 h3]
  show Dict.get? ((zipPos (s.posonly ++ s.args) c.args).1 ++ V si s.vararg) pa.1 = _
  rw [get?_append, get?_of_mem_nodup _ pa.1 pa.2 hnd hpa]; rfl

theorem vararg_sig (si : StandIns α) (s : Sig α) (c : CallArgs α)
    (hn : s.iface.all.Nodup) (hlen : s.posonly.length ≤ c.args.length)
    (v : α) (hv : s.iface.vararg = some v) :
    Dict.get? (construct si s.iface c).1 v = some si.tuple := by
  have hv' : s.vararg = some v := hv
  obtain ⟨-, -, hf, -⟩ := m0_facts si s c hn hlen
  obtain ⟨h0, h1, h2, h3⟩ := hf v (by simp [hv'])
  rw [construct_eq si s c hn hlen]
  simp only []
  rw [fold_get?_frame_closed si s.kwarg s.iface.all c.kwargs (m0 si s c) v h1 h2 h3]
  show Dict.get? ((zipPos (s.posonly ++ s.args) c.args).1 ++ V si s.vararg) v = _
  rw [get?_append, (get?_eq_none_iff _ _).mpr h0]
  simp [V, hv', get?_cons]

theorem keyword_binds_sig (si : StandIns α) (s : Sig α) (c : CallArgs α)
    (hn : s.iface.all.Nodup) (hlen : s.posonly.length ≤ c.args.length)
    (hk : (c.kwargs.map Prod.fst).Nodup) (kv : α × α) (hmem : kv ∈ c.kwargs)
    (hopen : kv.1 ∈ s.iface.args.drop (c.args.length - s.iface.posonly.length) ∨
             kv.1 ∈ s.iface.kwonly) :
    Dict.get? (construct si s.iface c).1 kv.1 = some kv.2 := by
  obtain ⟨-, -, -, hf⟩ := m0_facts si s c hn hlen
  have hopen' : kv.1 ∈ (m0 si s c).args ∨ kv.1 ∈ (m0 si s c).kwonly := by
    rw [m0_args si s c hlen]; exact hopen
  rw [construct_eq si s c hn hlen]
  exact fold_keyword_binds si s.kwarg s.iface.all c.kwargs (m0 si s c) kv hmem hk hopen'
    (hf kv.1 hopen').1

theorem multiple_values_sig (si : StandIns α) (s : Sig α) (c : CallArgs α)
    (hn : s.iface.all.Nodup) (hlen : s.posonly.length ≤ c.args.length)
    (kv : α × α) (hmem : kv ∈ c.kwargs)
    (hfilled : kv.1 ∈ (List.zip (s.iface.posonly ++ s.iface.args) c.args).map Prod.fst) :
    ∃ ks, SwapDiag.byPositionAndName ks ∈ (construct si s.iface c).2 ∧ kv.1 ∈ ks := by
  rw [zip_iface] at hfilled
  have hc : Dict.contains (m0 si s c).swaps kv.1 = true := by
    rw [contains_iff]
    show kv.1 ∈ ((zipPos (s.posonly ++ s.args) c.args).1 ++ V si s.vararg).map Prod.fst
    rw [List.map_append]; exact List.mem_append.mpr (Or.inl hfilled)
  have := fold_multiple_values si s.kwarg s.iface.all c.kwargs (m0 si s c) kv hmem hc
  rw [construct_eq si s c hn hlen]
  exact ⟨_, by simp [List.ne_nil_of_mem this], this⟩

theorem unexpected_sig (si : StandIns α) (s : Sig α) (c : CallArgs α)
    (hn : s.iface.all.Nodup) (hlen : s.posonly.length ≤ c.args.length)
    (hkw : s.iface.kwarg = none) (kv : α × α) (hmem : kv ∈ c.kwargs)
    (hall : kv.1 ∉ s.iface.all) :
    ∃ ks, SwapDiag.unexpectedKeywords ks ∈ (construct si s.iface c).2 ∧ kv.1 ∈ ks := by
  obtain ⟨-, -, -, hf⟩ := m0_facts si s c hn hlen
  have := fold_unexpected si s.kwarg s.iface.all c.kwargs (m0 si s c) kv hmem hall hkw
    (fun y hy => (hf y (Or.inl hy)).2) (fun y hy => (hf y (Or.inr hy)).2)
  rw [construct_eq si s c hn hlen]
  exact ⟨_, by simp [List.ne_nil_of_mem this], this⟩

/-- anything already in the map when the keyword loop starts, named by a keyword, is reported -/
theorem byPos_of_contains_sig (si : StandIns α) (s : Sig α) (c : CallArgs α)
    (hn : s.iface.all.Nodup) (hlen : s.posonly.length ≤ c.args.length)
    (kv : α × α) (hmem : kv ∈ c.kwargs)
    (hc : kv.1 ∈ s.iface.posonly ∨ kv.1 ∈ s.iface.vararg.toList) :
    ∃ ks, SwapDiag.byPositionAndName ks ∈ (construct si s.iface c).2 ∧ kv.1 ∈ ks := by
  obtain ⟨filled, h1, -, -, -, -⟩ := zipPos_append_summary s.posonly s.args c.args hlen
  have hc' : Dict.contains (m0 si s c).swaps kv.1 = true := by
    rw [contains_iff]
    show kv.1 ∈ ((zipPos (s.posonly ++ s.args) c.args).1 ++ V si s.vararg).map Prod.fst
    rw [List.map_append, h1]
    rcases hc with h | h
    · exact List.mem_append.mpr (Or.inl (List.mem_append.mpr (Or.inl h)))
    · refine List.mem_append.mpr (Or.inr ?_)
      have h' : kv.1 ∈ s.vararg.toList := h
      simpa [V, List.map_map, Function.comp_def] using h'
  have := fold_multiple_values si s.kwarg s.iface.all c.kwargs (m0 si s c) kv hmem hc'
  rw [construct_eq si s c hn hlen]
  exact ⟨_, by simp [List.ne_nil_of_mem this], this⟩

/-- the model side of `selfClash`: the surplus keyword maps `**kwargs`, the later keyword spelled
like `**kwargs` is then reported -/
theorem fold_selfClash (si : StandIns α) (f : Iface α) (all : List α) (kn : α)
    (hkn : f.kwarg = some kn) :
    ∀ (l : List (α × α)) (m : KwState α),
      (∀ x ∈ m.args, x ∈ f.args) → (∀ x ∈ m.kwonly, x ∈ f.kwonly) →
      selfClash f l = true →
      kn ∈ (l.foldl (kwStep si f.kwarg all) m).byPosName := by
  intro l
  induction l with
  | nil => intro m _ _ h; simp [selfClash] at h
  | cons kv r ih =>
    intro m ha hk h
    simp only [selfClash] at h
    simp only [List.foldl_cons]
    split at h
    · exact ih _ (fun x hx => ha x (kwStep_args_sub si f.kwarg all m kv x hx))
        (fun x hx => hk x (kwStep_kwonly_sub si f.kwarg all m kv x hx)) h
    · rename_i hout
      obtain ⟨kv', h1, h2⟩ := List.any_eq_true.mp h
      have h2' : kv'.1 = kn := by simpa [hkn] using h2
      have hnot : ¬ (kv.1 ∈ m.args ∨ kv.1 ∈ m.kwonly) := by
        intro hh
        rcases hh with hh | hh
        · exact hout (Or.inl (ha _ hh))
        · exact hout (Or.inr (hk _ hh))
      have hc : Dict.contains (kwStep si f.kwarg all m kv).swaps kv'.1 = true := by
        rw [kwStep_swaps, if_neg hnot, hkn]
        simp only []
        rw [contains_set]; simp [h2']
      have := fold_multiple_values si f.kwarg all r _ kv' h1 hc
      rwa [h2'] at this

theorem selfClash_sig (si : StandIns α) (s : Sig α) (c : CallArgs α)
    (hn : s.iface.all.Nodup) (hlen : s.posonly.length ≤ c.args.length)
    (h : selfClash s.iface c.kwargs = true) :
    ∃ ks, SwapDiag.byPositionAndName ks ∈ (construct si s.iface c).2 := by
  obtain ⟨kv, -, hkv⟩ := selfClash_mem _ _ h
  have hkn : ∃ kn, s.iface.kwarg = some kn := by
    cases hk : s.iface.kwarg with
    | none => simp [hk] at hkv
    | some kn => exact ⟨kn, rfl⟩
  obtain ⟨kn, hkn⟩ := hkn
  have ha : ∀ x ∈ (m0 si s c).args, x ∈ s.iface.args := by
    intro x hx
    rw [m0_args si s c hlen] at hx
    exact List.mem_of_mem_drop hx
  have hmem : kn ∈ (c.kwargs.foldl (kwStep si s.kwarg s.iface.all) (m0 si s c)).byPosName :=
    fold_selfClash si s.iface s.iface.all kn hkn c.kwargs (m0 si s c) ha (fun x hx => hx) h
  rw [construct_eq si s c hn hlen]
  refine ⟨(c.kwargs.foldl (kwStep si s.kwarg s.iface.all) (m0 si s c)).byPosName, ?_⟩
  simp [List.ne_nil_of_mem hmem]

/-! #### when does `**kwargs` receive something -/

theorem bindKw_got (filled : List α) (hasKw : Bool) (st st1 : KwSt α) (kv : α × α)
    (h : bindKw filled hasKw st kv = .ok st1) :
    (∀ x ∈ st1.open_.map (·.name), x ∈ st.open_.map (·.name)) ∧
    (st.kwargGot ≠ [] → st1.kwargGot ≠ []) ∧
    (kv.1 ∉ st.open_.map (·.name) → st1.kwargGot ≠ []) := by
  by_cases hA : kv.1 ∈ st.open_.map (·.name)
  · rw [bindKw_open filled hasKw st kv hA] at h
    injection h with h; subst h
    refine ⟨?_, fun h => h, fun h => absurd hA h⟩
    intro x hx
    simp only [] at hx
    rw [open_filter_names] at hx
    exact (List.mem_filter.mp hx).1
  · by_cases hF : kv.1 ∈ filled
    · rw [bindKw_filled filled hasKw st kv hA hF] at h; cases h
    · cases hasKw with
      | false => rw [bindKw_unexpected filled st kv hA hF] at h; cases h
      | true =>
        rw [bindKw_kwarg filled st kv hA hF] at h
        injection h with h; subst h
        exact ⟨fun x hx => hx, fun _ => by simp, fun _ => by simp⟩

theorem bindKws_got (filled : List α) (hasKw : Bool) :
    ∀ (l : List (α × α)) (st st' : KwSt α), bindKws filled hasKw st l = .ok st' →
      (st.kwargGot ≠ [] ∨ ∃ kv ∈ l, kv.1 ∉ st.open_.map (·.name)) → st'.kwargGot ≠ [] := by
  intro l
  induction l with
  | nil =>
    intro st st' h hh
    simp only [bindKws] at h
    injection h with h; subst h
    rcases hh with hh | ⟨kv, hkv, -⟩
    · exact hh
    · simp at hkv
  | cons kv l ih =>
    intro st st' h hh
    simp only [bindKws] at h
    cases hb : bindKw filled hasKw st kv with
    | error e => rw [hb] at h; cases h
    | ok st1 =>
      rw [hb] at h
      obtain ⟨g1, g2, g3⟩ := bindKw_got filled hasKw st st1 kv hb
      apply ih st1 st' h
      rcases hh with hh | ⟨kv', hkv', hno⟩
      · exact Or.inl (g2 hh)
      · rcases List.mem_cons.mp hkv' with e | hmem
        · subst e; exact Or.inl (g3 hno)
        · exact Or.inr ⟨kv', hmem, fun hx => hno (g1 _ hx)⟩

/-- an accepted call with a keyword that names no positional-or-keyword / keyword-only parameter
has put something into `**kwargs` -/
theorem pyBind_ok_got (s : Sig α) (c : CallArgs α) (hlen : s.posonly.length ≤ c.args.length)
    (b : Binding α) (h : pyBind s c = .ok b)
    (hex : ∃ kv ∈ c.kwargs, kv.1 ∉ s.args.map (·.name) ∧ kv.1 ∉ s.kwonly.map (·.name)) :
    b.kwargGot ≠ [] := by
  obtain ⟨filled, -, -, -, -, h5⟩ := zipPos_append_summary s.posonly s.args c.args hlen
  rw [pyBind_eq s c hlen] at h
  split at h
  · cases h
  · split at h
    · cases h
    · rename_i st hst
      split at h
      · cases h
      · injection h with h; subst h
        simp only []
        apply bindKws_got _ _ _ _ _ hst
        right
        obtain ⟨kv, hkv, h1, h2⟩ := hex
        refine ⟨kv, hkv, ?_⟩
        simp only [st0, List.map_append, List.mem_append, not_or]
        refine ⟨?_, h2⟩
        intro hm
        obtain ⟨p, hp, e⟩ := List.mem_map.mp hm
        exact h1 (e ▸ List.mem_map_of_mem (f := (·.name)) (h5 p hp))

/-- explicit bindings only ever name parameters that were bound or open at the start -/
theorem bindKws_explicit_sub (filled : List α) (hasKw : Bool) :
    ∀ (l : List (α × α)) (st st' : KwSt α), bindKws filled hasKw st l = .ok st' →
      ∀ x ∈ st'.explicit.map Prod.fst,
        x ∈ st.explicit.map Prod.fst ∨ x ∈ st.open_.map (·.name) := by
  intro l
  induction l with
  | nil =>
    intro st st' h x hx
    simp only [bindKws] at h
    injection h with h; subst h
    exact Or.inl hx
  | cons kv l ih =>
    intro st st' h x hx
    simp only [bindKws] at h
    by_cases hA : kv.1 ∈ st.open_.map (·.name)
    · rw [bindKw_open filled hasKw st kv hA] at h
      rcases ih _ _ h x hx with h1 | h1
      · simp only [List.map_append, List.map_cons, List.map_nil, List.mem_append, List.mem_cons,
          List.not_mem_nil, or_false] at h1
        rcases h1 with h1 | h1
        · exact Or.inl h1
        · exact Or.inr (h1 ▸ hA)
      · simp only [] at h1
        rw [open_filter_names] at h1
        exact Or.inr (List.mem_filter.mp h1).1
    · by_cases hF : kv.1 ∈ filled
      · rw [bindKw_filled filled hasKw st kv hA hF] at h; cases h
      · cases hasKw with
        | false => rw [bindKw_unexpected filled st kv hA hF] at h; cases h
        | true =>
          rw [bindKw_kwarg filled st kv hA hF] at h
          exact ih _ _ h x hx

/-- if every keyword names a still-open or positionally filled parameter, an accepted call puts
nothing into `**kwargs` -/
theorem bindKws_got_nil (filled : List α) (hasKw : Bool) :
    ∀ (l : List (α × α)) (st st' : KwSt α), bindKws filled hasKw st l = .ok st' →
      st.kwargGot = [] → (l.map Prod.fst).Nodup →
      (∀ kv ∈ l, kv.1 ∈ st.open_.map (·.name) ∨ kv.1 ∈ filled) → st'.kwargGot = [] := by
  intro l
  induction l with
  | nil =>
    intro st st' h hg _ _
    simp only [bindKws] at h
    injection h with h; subst h; exact hg
  | cons kv l ih =>
    intro st st' h hg hk hin
    simp only [bindKws] at h
    have hkv : ∀ kv' ∈ l, kv'.1 ≠ kv.1 := by
      intro kv' h' e
      have h0 : kv.1 ∉ l.map Prod.fst := by simpa using (List.nodup_cons.mp hk).1
      exact h0 (e ▸ List.mem_map_of_mem (f := Prod.fst) h')
    by_cases hA : kv.1 ∈ st.open_.map (·.name)
    · rw [bindKw_open filled hasKw st kv hA] at h
      apply ih _ _ h hg (List.nodup_cons.mp hk).2
      intro kv' h'
      rcases hin kv' (List.mem_cons_of_mem _ h') with h1 | h1
      · left
        simp only []
        rw [open_filter_names]
        exact List.mem_filter.mpr ⟨h1, by simpa using hkv kv' h'⟩
      · exact Or.inr h1
    · have hF : kv.1 ∈ filled := by
        rcases hin kv (List.mem_cons_self ..) with h1 | h1
        · exact absurd h1 hA
        · exact h1
      rw [bindKw_filled filled hasKw st kv hA hF] at h; cases h

/-- an accepted call all of whose keywords name positional-or-keyword / keyword-only parameters:
nothing goes into `**kwargs`, and the explicit bindings name parameters only -/
theorem pyBind_ok_E3 (s : Sig α) (c : CallArgs α) (hlen : s.posonly.length ≤ c.args.length)
    (hk : (c.kwargs.map Prod.fst).Nodup)
    (b : Binding α) (h : pyBind s c = .ok b)
    (hall : ∀ kv ∈ c.kwargs, kv.1 ∈ s.args.map (·.name) ∨ kv.1 ∈ s.kwonly.map (·.name)) :
    b.kwargGot = [] ∧
    ∀ x ∈ b.explicit.map Prod.fst,
      x ∈ s.posonly.map (·.name) ++ s.args.map (·.name) ++ s.kwonly.map (·.name) := by
  obtain ⟨filled, h1, h2, h3, -, -⟩ := zipPos_append_summary s.posonly s.args c.args hlen
  rw [pyBind_eq s c hlen] at h
  split at h
  · cases h
  · split at h
    · cases h
    · rename_i st hst
      split at h
      · cases h
      · injection h with h; subst h
        simp only []
        have hf0 : filled0 s c = filled := h3
        constructor
        · apply bindKws_got_nil _ _ _ _ _ hst rfl hk
          intro kv hkv
          have := hall kv hkv
          rw [h2] at this
          simp only [st0, hf0, List.map_append, List.mem_append] at this ⊢
          grind
        · intro x hx
          have := bindKws_explicit_sub _ _ _ _ _ hst x hx
          simp only [st0, h1, List.map_append, List.mem_append] at this
          simp only [h2, List.mem_append]
          grind

end Facts

end Rattr.SwapsLemmas

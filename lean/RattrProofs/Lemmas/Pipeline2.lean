/-
  Lemmas for the multi-file pipeline model (`RattrModel/Pipeline2.lean`).

  Part A — the per-node resolver: when the resolver does not depend on the calling node
           (`∀ k, progAt P rs k = Q`), `bfs2` / `callTree2` / `runRoot2` / `bfsD2` / `genLoop2` ARE
           `Results.bfs` / `callTree` / `runRoot` / `Pipeline.bfsD` / `Pipeline.genLoop` on `Q`.
  Part B — one file, no imports: `resolveCall2` / `resolveDiags2` are `Pipeline.resolveCall` /
           `resolveDiags` on calls whose target is not an `Import`.
-/
import RattrModel.Pipeline2
import RattrProofs.Lemmas.Pipeline

namespace Rattr.Pipeline2
open Rattr Rattr.Results Rattr.FnA Rattr.FileA Rattr.RootCtx
open Rattr.Pipeline (FileIr Found ResultsDoc DiagCtx)

/-! ## Part A -/

section congr
variable {P Q : Prog}

theorem fnAt_progAt (P : Prog) (rs : Key → Nat → Option Key) (k j : Key) :
    fnAt (progAt P rs k) j = fnAt P j := rfl

theorem si_progAt (P : Prog) (rs : Key → Nat → Option Key) (k : Key) : si (progAt P rs k) = si P := rfl

theorem totalCalls_progAt (P : Prog) (rs : Key → Nat → Option Key) (k : Key) :
    totalCalls (progAt P rs k) = totalCalls P := rfl

theorem foldChild_congr (hs : si P = si Q) (hf : ∀ k, fnAt P k = fnAt Q k) (pk : Key) (σ : Store) (ch : Results.Node) :
    foldChild P pk σ ch = foldChild Q pk σ ch := by
  unfold foldChild
  rw [hs, hf]

theorem foldChildren_congr (hs : si P = si Q) (hf : ∀ k, fnAt P k = fnAt Q k) (pk : Key) :
    ∀ (chs : List Results.Node) (σ : Store), foldChildren P pk chs σ = foldChildren Q pk chs σ := by
  intro chs
  induction chs with
  | nil => intro σ; rfl
  | cons ch r ih =>
    intro σ
    simp only [foldChildren, foldChild_congr hs hf]
    cases foldChild Q pk σ ch with
    | none => rfl
    | some σ' => exact ih σ'

theorem foldTree_congr (hs : si P = si Q) (hf : ∀ k, fnAt P k = fnAt Q k) (nodes : List Results.Node) :
    ∀ (is : List Nat) (σ : Store), foldTree P nodes is σ = foldTree Q nodes is σ := by
  intro is
  induction is with
  | nil => intro σ; rfl
  | cons i r ih =>
    intro σ
    simp only [foldTree]
    cases nodes[i]? with
    | none => exact ih σ
    | some n =>
      simp only [foldChildren_congr hs hf]
      cases foldChildren Q n.key (childrenOf nodes i) σ with
      | none => rfl
      | some σ' => exact ih σ'

end congr

section const
variable {P Q : Prog} {rs : Key → Nat → Option Key}

theorem fnAt_of_const (hQ : ∀ k, progAt P rs k = Q) (j : Key) : fnAt P j = fnAt Q j := by
  rw [← hQ 0]; rfl

theorem si_of_const (hQ : ∀ k, progAt P rs k = Q) : si P = si Q := by
  rw [← hQ 0]; rfl

theorem totalCalls_of_const (hQ : ∀ k, progAt P rs k = Q) : totalCalls P = totalCalls Q := by
  rw [← hQ 0]; rfl

theorem bfs2_eq_bfs (hQ : ∀ k, progAt P rs k = Q) :
    ∀ (fuel i : Nat) (st : BfsState), bfs2 P rs fuel i st = bfs Q fuel i st := by
  intro fuel
  induction fuel with
  | zero => intro i st; rfl
  | succ fuel ih =>
    intro i st
    simp only [bfs2, bfs]
    cases st.nodes[i]? with
    | none => rfl
    | some n =>
      simp only [hQ, fnAt_of_const hQ]
      exact ih _ _

theorem callTree2_eq_callTree (hQ : ∀ k, progAt P rs k = Q) (root : Key) :
    callTree2 P rs root = callTree Q root := by
  unfold callTree2 callTree
  rw [bfs2_eq_bfs hQ, totalCalls_of_const hQ]

theorem runRoot2_eq_runRoot (hQ : ∀ k, progAt P rs k = Q) (σ : Store) (root : Key) :
    runRoot2 P rs σ root = runRoot Q σ root := by
  unfold runRoot2 runRoot
  rw [callTree2_eq_callTree hQ]
  cases callTree Q root with
  | none => rfl
  | some nodes =>
    simp only [foldTree_congr (si_of_const hQ) (fnAt_of_const hQ)]
    cases foldTree Q nodes (List.range nodes.length).reverse σ <;> rfl

theorem bfsD2_eq_bfsD (hQ : ∀ k, progAt P rs k = Q) (D : DiagCtx) :
    ∀ (fuel i : Nat) (st : BfsState), bfsD2 P rs D fuel i st = Pipeline.bfsD Q D fuel i st := by
  intro fuel
  induction fuel with
  | zero => intro i st; rfl
  | succ fuel ih =>
    intro i st
    simp only [bfsD2, Pipeline.bfsD]
    cases st.nodes[i]? with
    | none => rfl
    | some n =>
      simp only [hQ, fnAt_of_const hQ]
      rw [ih]

theorem treeDiags2_eq_treeDiags (hQ : ∀ k, progAt P rs k = Q) (D : DiagCtx) (root : Key) :
    treeDiags2 P rs D root = Pipeline.treeDiags Q D root := by
  unfold treeDiags2 Pipeline.treeDiags
  rw [bfsD2_eq_bfsD hQ, totalCalls_of_const hQ]

theorem treeCrash_congr (hf : ∀ k, fnAt P k = fnAt Q k) (D : DiagCtx) (nodes : List Results.Node) :
    Pipeline.treeCrash P D nodes = Pipeline.treeCrash Q D nodes := by
  unfold Pipeline.treeCrash
  simp only [hf]

/-- **the per-node traversal is the single-resolver traversal when the resolver is constant.** -/
theorem genLoop2_eq_genLoop (hQ : ∀ k, progAt P rs k = Q) (D : DiagCtx) :
    ∀ (order : List Key) (σ : Store), genLoop2 P rs D order σ = Pipeline.genLoop Q D order σ := by
  intro order
  induction order with
  | nil => intro σ; rfl
  | cons root r ih =>
    intro σ
    simp only [genLoop2, Pipeline.genLoop, callTree2_eq_callTree hQ, runRoot2_eq_runRoot hQ,
      treeDiags2_eq_treeDiags hQ, treeCrash_congr (fnAt_of_const hQ)]
    cases callTree Q root with
    | none => rfl
    | some nodes =>
      simp only
      cases Pipeline.treeCrash Q D nodes with
      | some e => rfl
      | none =>
        simp only
        cases runRoot Q σ root with
        | outOfFuel => rfl
        | never => rfl
        | ok q =>
          obtain ⟨res, σ'⟩ := q
          simp only [ih σ']
          cases Pipeline.genLoop Q D r σ' with
          | ok q2 => obtain ⟨a, b, c⟩ := q2; rfl
          | fatal a b => rfl
          | crash e => rfl

end const

/-! ## Part A' — files the code cannot tell apart (`sameFile`, `canonH`) -/

theorem sameFile_refl (a : AFile) : sameFile a a = true := by simp [sameFile]

theorem sameFile_iff {a b : AFile} : sameFile a b = true ↔
    a.origin = b.origin ∧ a.derived = b.derived ∧ Pipeline.allCalls a.ir = Pipeline.allCalls b.ir := by
  simp [sameFile]

theorem firstSame_some (f : AFile) : ∀ (l : List AFile) (i k : Nat), firstSame f i l = some k →
    ∃ j g, k = i + j ∧ l[j]? = some g ∧ sameFile g f = true := by
  intro l
  induction l with
  | nil => intro i k h; simp [firstSame] at h
  | cons g r ih =>
    intro i k h
    unfold firstSame at h
    by_cases hs : sameFile g f = true
    · simp only [hs, if_true, Option.some.injEq] at h
      exact ⟨0, g, by omega, rfl, hs⟩
    · simp only [hs, Bool.false_eq_true, if_false] at h
      obtain ⟨j, g', e, hj, hs'⟩ := ih (i + 1) k h
      exact ⟨j + 1, g', by omega, by simpa using hj, hs'⟩

theorem firstSame_isSome (f : AFile) : ∀ (l : List AFile) (i : Nat), f ∈ l → (firstSame f i l).isSome = true := by
  intro l
  induction l with
  | nil => intro i h; cases h
  | cons g r ih =>
    intro i h
    unfold firstSame
    by_cases hs : sameFile g f = true
    · simp [hs]
    · simp only [hs, Bool.false_eq_true, if_false]
      rcases List.mem_cons.mp h with e | hr
      · subst e; exact absurd (sameFile_refl f) hs
      · exact ih (i + 1) hr

/-- the representative of file `h` exists and cannot be told apart from it -/
theorem canonH_spec {fs : List AFile} {h : Nat} {f : AFile} (hf : fs[h]? = some f) :
    ∃ g, fs[canonH fs h]? = some g ∧ sameFile g f = true := by
  unfold canonH
  rw [hf]
  simp only
  cases hi : firstSame f 0 fs with
  | none =>
    have := firstSame_isSome f fs 0 (List.mem_of_getElem? hf)
    rw [hi] at this
    cases this
  | some k =>
    obtain ⟨j, g, e, hj, hs⟩ := firstSame_some f fs 0 k hi
    simp only [Option.getD_some]
    have : k = j := by omega
    subst this
    exact ⟨g, hj, hs⟩

theorem canonH_none {fs : List AFile} {h : Nat} (hf : fs[h]? = none) : canonH fs h = h := by
  unfold canonH; rw [hf]

theorem canonH_single (t : AFile) : canonH [t] 0 = 0 := by
  simp [canonH, firstSame, sameFile_refl]

theorem pathsConsistent_single (t : AFile) : pathsConsistent [t] = true := by
  simp [pathsConsistent, sameFile_refl]

theorem originAt_canonH (fs : List AFile) (h : Nat) : originAt fs (canonH fs h) = originAt fs h := by
  cases hf : fs[h]? with
  | none => rw [canonH_none hf]
  | some f =>
    obtain ⟨g, hg, hs⟩ := canonH_spec hf
    simp [originAt, hg, hf, (sameFile_iff.mp hs).1]

/-- resolution of a `Func` / `Class` symbol depends on the calling file through its PATH only -/
theorem resolveSym_canonH (fs : List AFile) (h : Nat) (s : Sym) :
    resolveSym fs (canonH fs h) s = resolveSym fs h s := by
  cases hf : fs[h]? with
  | none => rw [canonH_none hf]
  | some f =>
    obtain ⟨g, hg, hs⟩ := canonH_spec hf
    unfold resolveSym
    rw [originAt_canonH]
    simp only [hg, hf, Option.bind_some, (sameFile_iff.mp hs).2.1]

theorem realClass2_canonH (fs : List AFile) (h : Nat) (t : Sym) :
    realClass2 fs (canonH fs h) t = realClass2 fs h t ∨
    (realClass2 fs (canonH fs h) t = (canonH fs h, t) ∧ realClass2 fs h t = (h, t)) := by
  unfold realClass2
  rw [originAt_canonH]
  cases (classCandidatesFrom t.name 0 fs).find? fun c => originAt fs c.1 == originAt fs h with
  | some c => left; rfl
  | none => right; exact ⟨rfl, rfl⟩

/-- **`find_call_target_and_ir` cannot tell same-path files apart**: the answer for a call held by
file `h` is the answer for its representative. -/
theorem resolveCall2_canonH (P : Project) (fs : List AFile) (h : Nat) (c : CallSym) :
    resolveCall2 P fs (canonH fs h) c = resolveCall2 P fs h c := by
  unfold resolveCall2
  cases c.target with
  | none => rfl
  | some t =>
    simp only
    cases hk : t.kind with
    | builtin => rfl
    | name => rfl
    | import_ => rfl
    | func => simp only [resolveSym_canonH]
    | cls =>
      simp only
      rcases realClass2_canonH fs h t with e | ⟨e1, e2⟩
      · rw [e]
      · rw [e1, e2]
        simp only [resolveSym_canonH]

/-! ## Part B — one file, no imports -/

/-- the call's target is not an `Import` symbol -/
def noImp (c : CallSym) : Bool :=
  match c.target with
  | some t => t.kind != .import_
  | none => true

section single
variable (Pj : Project) (t : AFile)

theorem gfir_single : gfir [t] = t.ir := by simp [gfir]

theorem homeOf_single (k : Key) : homeOf [t] k = 0 := by
  simp only [homeOf, homesFrom, List.append_nil, List.getElem?_replicate]
  split <;> rfl

theorem keyIn_single (s : Sym) : keyIn [t] 0 s = Pipeline.keyOf t.ir s := by
  simp only [keyIn, List.getElem?_cons_zero, offsetOf, List.take_zero, List.map_nil, List.sum_nil]
  cases Pipeline.keyOf t.ir s <;> simp

theorem resolveSym_single (s : Sym) : resolveSym [t] 0 s = Pipeline.keyOf t.ir s := by
  simp only [resolveSym, keyIn_single, if_true]
  cases Pipeline.keyOf t.ir s with
  | some k => rfl
  | none =>
    simp only [List.getElem?_cons_zero, Option.bind_some]
    cases t.derived with
    | none => rfl
    | some m => rfl

theorem realClass2_single (s : Sym) : realClass2 [t] 0 s = (0, Pipeline.realClass t.ir s) := by
  simp only [realClass2, classCandidatesFrom, List.append_nil, Pipeline.realClass]
  conv => rhs; rw [← List.head?_filter]
  cases t.ir.filter (fun p => p.1.kind == .cls && p.1.name == s.name) with
  | nil => rfl
  | cons p r => simp [originAt]

theorem allCalls2_single : allCalls2 [t] = Pipeline.allCalls t.ir := by simp [allCalls2]

theorem fnInfo2_single (ord : List CallSym → List CallSym) (p : Sym × IR) :
    fnInfo2 ord [t] 0 p = Pipeline.fnInfo ord (Pipeline.allCalls t.ir) p := by
  have h : callRec2 [t] 0 = Pipeline.callRec (Pipeline.allCalls t.ir) := by
    funext c
    simp only [callRec2, canonH_single, Pipeline.callRec, cidBase, callsAt, List.take_zero, List.map_nil, List.sum_nil,
      Nat.zero_add, List.getElem?_cons_zero]
  simp only [fnInfo2, Pipeline.fnInfo, h]

theorem fns_single (ord : List CallSym → List CallSym) :
    fnsFrom ord [t] 0 [t] = t.ir.map (Pipeline.fnInfo ord (Pipeline.allCalls t.ir)) := by
  simp only [fnsFrom, List.append_nil]
  exact List.map_congr_left (fun p _ => fnInfo2_single t ord p)

theorem resolveCall2_single (f : Facts) (hf : f.excluded = Pj.excluded) (imp : Pipeline.ImpFacts) (c : CallSym)
    (hc : noImp c = true) : resolveCall2 Pj [t] 0 c = Pipeline.resolveCall f imp t.ir c := by
  unfold resolveCall2 Pipeline.resolveCall
  cases htg : c.target with
  | none => rfl
  | some tg =>
    simp only
    cases hk : tg.kind with
    | name => rfl
    | builtin => rfl
    | func => cases hko : Pipeline.keyOf t.ir tg <;> simp only [FileA.excluded, hf, resolveSym_single, hko]
    | cls =>
      cases hko : Pipeline.keyOf t.ir (Pipeline.realClass t.ir tg) <;>
        simp only [realClass2_single, resolveSym_single, hko]
    | import_ => simp [noImp, htg, hk] at hc

theorem resolveDiags2_single (f : Facts) (hf : f.excluded = Pj.excluded) (imp : Pipeline.ImpFacts) (caller : Str)
    (c : CallSym) (hc : noImp c = true) :
    resolveDiags2 Pj [t] 0 caller c = Pipeline.resolveDiags f imp t.ir caller c := by
  unfold resolveDiags2 Pipeline.resolveDiags
  cases htg : c.target with
  | none => rfl
  | some tg =>
    simp only
    cases hk : tg.kind with
    | name => rfl
    | builtin => rfl
    | func => cases hko : Pipeline.keyOf t.ir tg <;> simp only [FileA.excluded, hf, resolveSym_single, hko]
    | cls =>
      cases hko : Pipeline.keyOf t.ir (Pipeline.realClass t.ir tg) <;>
        simp only [realClass2_single, resolveSym_single, hko]
    | import_ => simp [noImp, htg, hk] at hc

theorem resolveAt_single (f : Facts) (hf : f.excluded = Pj.excluded) (imp : Pipeline.ImpFacts)
    (hT : ∀ c ∈ Pipeline.allCalls t.ir, noImp c = true) (k : Key) :
    resolveAt Pj [t] (Pipeline.allCalls t.ir) k = Pipeline.resolveCid f imp t.ir (Pipeline.allCalls t.ir) := by
  funext cid
  unfold resolveAt Pipeline.resolveCid
  cases hg : (Pipeline.allCalls t.ir)[cid]? with
  | none => rfl
  | some c =>
    simp only [homeOf_single, resolveCall2_single Pj t f hf imp c (hT c (List.mem_of_getElem? hg))]
    cases Pipeline.resolveCall f imp t.ir c <;> rfl

/-- the per-node program of a single file IS the single-file adapter's program. -/
theorem progAt_single (ord : List CallSym → List CallSym) (f : Facts) (hf : f.excluded = Pj.excluded)
    (imp : Pipeline.ImpFacts) (hT : ∀ c ∈ Pipeline.allCalls t.ir, noImp c = true) (k : Key) :
    progAt (toProg2 ord [t]) (resolveAt Pj [t] (Pipeline.allCalls t.ir)) k = Pipeline.toProg ord f imp t.ir := by
  simp only [progAt, toProg2, Pipeline.toProg, fns_single, resolveAt_single Pj t f hf imp hT]

theorem diagCtx2_single (ord : List CallSym → List CallSym) (f : Facts) (hf : f.excluded = Pj.excluded)
    (imp : Pipeline.ImpFacts) (hT : ∀ c ∈ Pipeline.allCalls t.ir, noImp c = true) :
    diagCtx2 Pj [t] (toProg2 ord [t]) = Pipeline.diagCtx f imp t.ir (Pipeline.toProg ord f imp t.ir) := by
  unfold diagCtx2 Pipeline.diagCtx
  simp only [gfir_single, allCalls2_single]
  congr 1
  · funext caller c
    cases hg : (Pipeline.allCalls t.ir)[c.cid]? with
    | none => rfl
    | some cs =>
      simp only [homeOf_single, resolveDiags2_single Pj t f hf imp _ cs (hT cs (List.mem_of_getElem? hg))]
      cases t.ir[caller]? <;> rfl
  · funext c
    cases hg : (Pipeline.allCalls t.ir)[c.cid]? with
    | none => rfl
    | some cs =>
      simp only [resolveCall2_single Pj t f hf imp cs (hT cs (List.mem_of_getElem? hg))]
      cases Pipeline.resolveCall f imp t.ir cs <;> rfl
  · funext g c
    have h1 : fnAt (toProg2 ord [t]) g = fnAt (Pipeline.toProg ord f imp t.ir) g := by
      simp only [fnAt, toProg2, Pipeline.toProg, fns_single]
    have h2 : si (toProg2 ord [t]) = si (Pipeline.toProg ord f imp t.ir) := rfl
    rw [h1, h2]
    cases t.ir[g]? <;> rfl

/-- result generation over one file without Import call targets is the single-file stage. -/
theorem results2_single (ord : List CallSym → List CallSym) (f : Facts) (hf : f.excluded = Pj.excluded)
    (imp : Pipeline.ImpFacts) (hT : ∀ c ∈ Pipeline.allCalls t.ir, noImp c = true) :
    results2 ord Pj t [] = Pipeline.results ord f imp t.ir := by
  unfold results2 resultsStore2 Pipeline.results Pipeline.resultsStore
  simp only [gfir_single, allCalls2_single, diagCtx2_single Pj t ord f hf imp hT]
  rw [genLoop2_eq_genLoop (progAt_single Pj t ord f hf imp hT)]
  cases Pipeline.genLoop (Pipeline.toProg ord f imp t.ir)
      (Pipeline.diagCtx f imp t.ir (Pipeline.toProg ord f imp t.ir)) (List.range t.ir.length)
      (Pipeline.toStore t.ir) with
  | ok q => obtain ⟨a, b, c⟩ := q; rfl
  | fatal a b => rfl
  | crash e => rfl

end single

/-! ### the whole pipeline on a target without imports -/

/-- the target's root context holds no `Import` symbol (decidable: it is computed from the input) -/
def noImportSyms (P : Project) : Bool :=
  match RootCtx.compile (factsOf P P.target) P.builtins P.target.body with
  | .ok r => (importsOf r.ctx).isEmpty
  | _ => true

/-- no Call symbol of the target's FileIr has an `Import` target -/
def noImportTargets (P : Project) : Bool :=
  match RootCtx.compile (factsOf P P.target) P.builtins P.target.body with
  | .ok r =>
    (match FileA.analyseWith P.env (mnOf P.target) (factsOf P P.target) r.ctx P.target.body with
     | .ok s => (Pipeline.allCalls s.ir).all noImp
     | _ => true)
  | _ => true

theorem filter_and_nil {α : Type} (p q : α → Bool) (l : List α) (h : l.filter p = []) :
    l.filter (fun x => p x && q x) = [] := by
  rw [List.filter_eq_nil_iff] at h ⊢
  intro a ha
  simp [h a ha]

theorem starredOf_nil {c : Context} (h : importsOf c = []) : starredOf c = [] :=
  filter_and_nil (fun s : Sym => s.kind == SymKind.import_) (fun s : Sym => s.name.getLast? == some '*')
    (scopeSyms c) h

theorem unseenStars_nil (P : Project) (seen : List Str) {c : Context} (h : importsOf c = []) :
    unseenStars P seen c = [] := by
  simp [unseenStars, starredOf_nil h]

theorem hasStarred_false {c : Context} (h : importsOf c = []) : Pipeline.hasStarred c = false := by
  unfold Pipeline.hasStarred
  rw [Bool.eq_false_iff]
  intro hany
  rw [List.any_eq_true] at hany
  obtain ⟨s, hs, hp⟩ := hany
  have : s ∈ importsOf c := by
    unfold importsOf
    rw [List.mem_filter]
    exact ⟨hs, by simp only [Bool.and_eq_true] at hp; exact hp.1⟩
  rw [h] at this
  cases this

theorem rootOf_noImports (P : Project) {r : St}
    (hc : RootCtx.compile (factsOf P P.target) P.builtins P.target.body = .ok r) (h : importsOf r.ctx = []) :
    rootOf P P.target = .ok r := by
  simp [rootOf, hc, FnA.bind, unseenStars_nil P [] h, expandLoop, starNext]

/-- **One file, no imports: the multi-file pipeline IS the single-file pipeline** (for every
order of ties and every `ImpFacts` — they are never consulted). -/
theorem runWith2_single_file (ord : List CallSym → List CallSym) (P : Project) (imp : Pipeline.ImpFacts)
    (hI : noImportSyms P = true) (hT : noImportTargets P = true) :
    runWith2 ord P =
      Pipeline.runWith ord P.env (mnOf P.target) (factsOf P P.target) P.builtins P.target.body imp := by
  unfold runWith2 Pipeline.runWith analyseAll
  unfold noImportSyms at hI
  unfold noImportTargets at hT
  cases hc : RootCtx.compile (factsOf P P.target) P.builtins P.target.body with
  | fatal r d => simp [rootOf, hc, FnA.bind]
  | crash r e => simp [rootOf, hc, FnA.bind]
  | ok r =>
    simp only [hc, List.isEmpty_iff] at hI hT
    rw [rootOf_noImports P hc hI]
    simp only [hasStarred_false hI, hI, importLoop, impNext, Bool.false_eq_true, if_false, List.append_nil,
      List.any_nil]
    cases ha : FileA.analyseWith P.env (mnOf P.target) (factsOf P P.target) r.ctx P.target.body with
    | fatal s d => rfl
    | crash s e => rfl
    | ok s =>
      simp only [ha, List.all_eq_true] at hT
      have hres := results2_single P
        { key := [], origin := P.target.origin, derived := P.target.derived, ctx := s.ctx, ir := s.ir }
        ord (factsOf P P.target) rfl imp hT
      simp only at hres ⊢
      rw [pathsConsistent_single]
      simp only [Bool.not_true, Bool.false_eq_true, if_false]
      rw [hres]
      cases Pipeline.results ord (factsOf P P.target) imp s.ir with
      | ok q => obtain ⟨a, b⟩ := q; simp
      | fatal a b => simp
      | crash e => rfl

/-! ## Part C — module-local resolution (the theorem form of fixes 2103117 / 8b74e12) -/

section local_
open Rattr.Pipeline (keyOf indexOf?_some)

/-- positions `offsetOf fs h + j` of the global key space belong to file `h` and hold its `j`-th key. -/
theorem global_at : ∀ (fs : List AFile) (i h j : Nat) (f : AFile) (p : Sym × IR),
    fs[h]? = some f → f.ir[j]? = some p →
      (homesFrom i fs)[offsetOf fs h + j]? = some (i + h) ∧ (gfir fs)[offsetOf fs h + j]? = some p := by
  intro fs
  induction fs with
  | nil => intro i h j f p hf; simp at hf
  | cons g r ih =>
    intro i h j f p hf hj
    cases h with
    | zero =>
      simp only [List.getElem?_cons_zero, Option.some.injEq] at hf
      subst hf
      obtain ⟨hlt, _⟩ := List.getElem?_eq_some_iff.mp hj
      simp only [offsetOf, List.take_zero, List.map_nil, List.sum_nil, Nat.zero_add, homesFrom, gfir,
        List.flatMap_cons, Nat.add_zero]
      constructor
      · rw [List.getElem?_append_left (by simpa using hlt)]
        simp [hlt]
      · rw [List.getElem?_append_left hlt]
        exact hj
    | succ h' =>
      simp only [List.getElem?_cons_succ] at hf
      obtain ⟨h1, h2⟩ := ih (i + 1) h' j f p hf hj
      have hoff : offsetOf (g :: r) (h' + 1) = g.ir.length + offsetOf r h' := by
        simp [offsetOf, List.take_succ_cons]
      simp only [hoff, homesFrom, gfir, List.flatMap_cons]
      constructor
      · rw [List.getElem?_append_right (by simp; omega)]
        simp only [List.length_replicate]
        have e : g.ir.length + offsetOf r h' + j - g.ir.length = offsetOf r h' + j := by omega
        rw [e, h1]
        congr 1
        omega
      · rw [List.getElem?_append_right (by omega)]
        have e : g.ir.length + offsetOf r h' + j - g.ir.length = offsetOf r h' + j := by omega
        rw [e]
        exact h2

/-- a key found in file `h` is a key of file `h`: its home is `h` and it holds exactly that symbol. -/
theorem keyIn_spec {fs : List AFile} {h : Nat} {s : Sym} {k : Key} (hk : keyIn fs h s = some k) :
    homeOf fs k = h ∧ ∃ f ir, fs[h]? = some f ∧ (s, ir) ∈ f.ir ∧ (gfir fs)[k]? = some (s, ir) := by
  unfold keyIn at hk
  cases hf : fs[h]? with
  | none => simp [hf] at hk
  | some f =>
    simp only [hf] at hk
    cases hj : keyOf f.ir s with
    | none => simp [hj] at hk
    | some j =>
      simp only [hj, Option.map_some, Option.some.injEq] at hk
      subst hk
      have hj' := indexOf?_some hj
      rw [List.getElem?_map] at hj'
      cases hp : f.ir[j]? with
      | none => simp [hp] at hj'
      | some p =>
        obtain ⟨s', ir⟩ := p
        simp only [hp, Option.map_some, Option.some.injEq] at hj'
        subst hj'
        obtain ⟨h1, h2⟩ := global_at fs 0 h j f (s', ir) hf hp
        have e : j + offsetOf fs h = offsetOf fs h + j := Nat.add_comm _ _
        refine ⟨?_, f, ir, rfl, List.mem_of_getElem? hp, ?_⟩
        · unfold homeOf
          rw [e, h1]
          simp
        · rw [e]; exact h2

/-- **fix 2103117, as a theorem.** A `Func` symbol created in a followed module `h` (its file is
not the target's, its derived module name is its own key in `import_irs`) is looked up in THAT
module's FileIr — the target's FileIr is never consulted, whatever it defines. -/
theorem resolveSym_module_local {fs : List AFile} {h : Nat} {f : AFile} {m : Str} (s : Sym)
    (hf : fs[h]? = some f) (ho : originAt fs h ≠ originAt fs 0) (hd : f.derived = some m)
    (hi : irIdx fs m = some h) : resolveSym fs h s = keyIn fs h s := by
  simp [resolveSym, ho, hf, hd, hi]

/-- membership in the candidate list of `__resolve_real_class_target` -/
theorem mem_classCandidatesFrom {name : Str} : ∀ (fs : List AFile) (i : Nat) (c : Nat × Sym),
    c ∈ classCandidatesFrom name i fs ↔
      ∃ j f ir, fs[j]? = some f ∧ c.1 = i + j ∧ (c.2, ir) ∈ f.ir ∧ c.2.kind = .cls ∧ c.2.name = name := by
  intro fs
  induction fs with
  | nil => intro i c; simp [classCandidatesFrom]
  | cons g r ih =>
    intro i c
    simp only [classCandidatesFrom, List.mem_append, List.mem_map, List.mem_filter, Bool.and_eq_true,
      beq_iff_eq, ih]
    constructor
    · rintro (⟨p, ⟨hp, hk, hn⟩, e⟩ | ⟨j, f, ir, hf, h1, h2, h3, h4⟩)
      · subst e
        exact ⟨0, g, p.2, rfl, rfl, hp, hk, hn⟩
      · exact ⟨j + 1, f, ir, hf, by omega, h2, h3, h4⟩
    · rintro ⟨j, f, ir, hf, h1, h2, h3, h4⟩
      cases j with
      | zero =>
        simp only [List.getElem?_cons_zero, Option.some.injEq] at hf
        subst hf
        left
        exact ⟨(c.2, ir), ⟨h2, h3, h4⟩, by cases c; simp at h1 ⊢; exact h1.symm⟩
      | succ j' =>
        right
        exact ⟨j', f, ir, hf, by omega, h2, h3, h4⟩

/-- **fix 8b74e12, as a theorem.** If the file of the calling function defines a class of the
target's name, `__resolve_real_class_target` returns a class key of a file with THAT origin
(the first one in `(target_ir, *import_irs.values())` order) — never a same-named class of another
file, whatever the target defines. -/
theorem realClass2_same_file {fs : List AFile} {h : Nat} {f : AFile} {t : Sym} {p : Sym × IR}
    (hf : fs[h]? = some f) (hp : p ∈ f.ir) (hk : p.1.kind = .cls) (hn : p.1.name = t.name) :
    originAt fs (realClass2 fs h t).1 = originAt fs h ∧ (realClass2 fs h t).2.kind = .cls ∧
      (realClass2 fs h t).2.name = t.name ∧
      ∃ f' ir, fs[(realClass2 fs h t).1]? = some f' ∧ ((realClass2 fs h t).2, ir) ∈ f'.ir := by
  have hmem : (h, p.1) ∈ classCandidatesFrom t.name 0 fs :=
    (mem_classCandidatesFrom fs 0 _).mpr ⟨h, f, p.2, hf, by simp, hp, hk, hn⟩
  cases hfind : (classCandidatesFrom t.name 0 fs).find? (fun c => originAt fs c.1 == originAt fs h) with
  | none =>
    have := List.find?_eq_none.mp hfind (h, p.1) hmem
    simp at this
  | some c =>
    simp only [realClass2, hfind]
    have hc := List.mem_of_find?_eq_some hfind
    have hpred := List.find?_some hfind
    obtain ⟨j, f', ir, hf', h1, h2, h3, h4⟩ := (mem_classCandidatesFrom fs 0 c).mp hc
    refine ⟨by simpa using hpred, h3, h4, f', ir, ?_, h2⟩
    rw [h1, Nat.zero_add]
    exact hf'

end local_

/-! ## Part D — a coherent resolver: the multi-file traversal is `Results.generate` on ONE program -/

section coherent
open Rattr.Pipeline (allCalls toStore mkDoc entry)

/-- every call a function holds resolves, from that function's file, to what `q` says: no Call
symbol (equality class) is held by two files that resolve it differently. -/
def Coherent (P : Prog) (rs : Key → Nat → Option Key) (q : Nat → Option Key) : Prop :=
  ∀ k, ∀ c ∈ (fnAt P k).calls, rs k c.cid = q c.cid

def withRes (P : Prog) (q : Nat → Option Key) : Prog := { P with resolve := q }

theorem expand_congr (P1 P2 : Prog) (i : Nat) : ∀ (cs : List CallRec) (st : BfsState),
    (∀ c ∈ cs, P1.resolve c.cid = P2.resolve c.cid) → expand P1 i cs st = expand P2 i cs st := by
  intro cs
  induction cs with
  | nil => intro st _; rfl
  | cons c r ih =>
    intro st h
    simp only [expand, h c List.mem_cons_self]
    have hr : ∀ c ∈ r, P1.resolve c.cid = P2.resolve c.cid := fun c hc => h c (List.mem_cons_of_mem _ hc)
    split
    · exact ih st hr
    · cases P2.resolve c.cid with
      | none => exact ih st hr
      | some g => exact ih _ hr

theorem expandD_congr (P1 P2 : Prog) (D : DiagCtx) (caller : Key) : ∀ (cs : List CallRec) (seen : List Nat),
    (∀ c ∈ cs, P1.resolve c.cid = P2.resolve c.cid) →
      Pipeline.expandD P1 D caller cs seen = Pipeline.expandD P2 D caller cs seen := by
  intro cs
  induction cs with
  | nil => intro seen _; rfl
  | cons c r ih =>
    intro seen h
    simp only [Pipeline.expandD, h c List.mem_cons_self]
    have hr : ∀ c ∈ r, P1.resolve c.cid = P2.resolve c.cid := fun c hc => h c (List.mem_cons_of_mem _ hc)
    split
    · exact ih seen hr
    · cases P2.resolve c.cid with
      | none => simp only [ih seen hr]
      | some g => simp only [ih _ hr]

variable {P : Prog} {rs : Key → Nat → Option Key} {q : Nat → Option Key}

theorem coh_calls (hco : Coherent P rs q) (k : Key) :
    ∀ c ∈ sortCalls (fnAt P k).calls, (progAt P rs k).resolve c.cid = (withRes P q).resolve c.cid :=
  fun c hc => hco k c (mem_sortCalls.mp hc)

theorem bfs2_eq_bfs_coh (hco : Coherent P rs q) :
    ∀ (fuel i : Nat) (st : BfsState), bfs2 P rs fuel i st = bfs (withRes P q) fuel i st := by
  intro fuel
  induction fuel with
  | zero => intro i st; rfl
  | succ fuel ih =>
    intro i st
    simp only [bfs2, bfs]
    cases st.nodes[i]? with
    | none => rfl
    | some n =>
      simp only
      rw [expand_congr _ _ i _ st (coh_calls hco n.key)]
      exact ih _ _

theorem bfsD2_eq_bfsD_coh (hco : Coherent P rs q) (D : DiagCtx) :
    ∀ (fuel i : Nat) (st : BfsState), bfsD2 P rs D fuel i st = Pipeline.bfsD (withRes P q) D fuel i st := by
  intro fuel
  induction fuel with
  | zero => intro i st; rfl
  | succ fuel ih =>
    intro i st
    simp only [bfsD2, Pipeline.bfsD]
    cases st.nodes[i]? with
    | none => rfl
    | some n =>
      simp only
      rw [expand_congr _ _ i _ st (coh_calls hco n.key), expandD_congr _ _ D n.key _ st.seen (coh_calls hco n.key), ih]
      rfl

theorem genLoop2_eq_genLoop_coh (hco : Coherent P rs q) (D : DiagCtx) :
    ∀ (order : List Key) (σ : Store), genLoop2 P rs D order σ = Pipeline.genLoop (withRes P q) D order σ := by
  have hct : ∀ root, callTree2 P rs root = callTree (withRes P q) root := by
    intro root
    unfold callTree2 callTree
    rw [bfs2_eq_bfs_coh hco]
    rfl
  have hrr : ∀ σ root, runRoot2 P rs σ root = runRoot (withRes P q) σ root := by
    intro σ root
    unfold runRoot2 runRoot
    rw [hct]
    cases callTree (withRes P q) root with
    | none => rfl
    | some nodes =>
      simp only [foldTree_congr (P := P) (Q := withRes P q) rfl (fun _ => rfl)]
      cases foldTree (withRes P q) nodes (List.range nodes.length).reverse σ <;> rfl
  have htd : ∀ root, treeDiags2 P rs D root = Pipeline.treeDiags (withRes P q) D root := by
    intro root
    unfold treeDiags2 Pipeline.treeDiags
    rw [bfsD2_eq_bfsD_coh hco]
    rfl
  intro order
  induction order with
  | nil => intro σ; rfl
  | cons root r ih =>
    intro σ
    simp only [genLoop2, Pipeline.genLoop, hct, hrr, htd,
      treeCrash_congr (P := P) (Q := withRes P q) (fun _ => rfl)]
    cases callTree (withRes P q) root with
    | none => rfl
    | some nodes =>
      simp only
      cases Pipeline.treeCrash (withRes P q) D nodes with
      | some e => rfl
      | none =>
        simp only
        cases runRoot (withRes P q) σ root with
        | outOfFuel => rfl
        | never => rfl
        | ok q1 =>
          obtain ⟨res, σ'⟩ := q1
          simp only [ih σ']
          cases Pipeline.genLoop (withRes P q) D r σ' with
          | ok q2 => obtain ⟨a, b, c⟩ := q2; rfl
          | fatal a b => rfl
          | crash e => rfl

end coherent

/-! ## Part E — from a successful run to the depth-one shape of a root, and the equivalence of two projects -/

section depthone
open Rattr.Pipeline (allCalls toStore mkDoc entry ResultsDoc)

/-- the resolver of result generation over the analysed files `fs` -/
abbrev rsOf (Pj : Project) (fs : List AFile) : Key → Nat → Option Key :=
  resolveAt Pj fs (allCalls2 fs)

/-- the ONE program a coherent resolver `q` gives -/
abbrev progQ (fs : List AFile) (q : Nat → Option Key) : Prog := withRes (toProg2 id fs) q

theorem run2_ok {Pj : Project} {doc : ResultsDoc} {ds : List Diag} (h : run2 Pj = .ok (doc, ds)) :
    ∃ t irs ds0 res σ' ds1, analyseAll Pj = .ok (t, irs, ds0) ∧
      genLoop2 (toProg2 id (t :: irs)) (rsOf Pj (t :: irs)) (diagCtx2 Pj (t :: irs) (toProg2 id (t :: irs)))
        (List.range t.ir.length) (toStore (gfir (t :: irs))) = .ok (res, σ', ds1) ∧
      doc = mkDoc (gfir (t :: irs)) res := by
  unfold run2 runWith2 at h
  cases ha : analyseAll Pj with
  | fatal a b => simp [ha] at h
  | crash e => simp [ha] at h
  | ok x =>
    obtain ⟨t, irs, ds0⟩ := x
    simp only [ha] at h
    cases hpc : pathsConsistent (t :: irs) with
    | false =>
      rw [hpc] at h
      simp only [Bool.not_false, if_true] at h
      cases h
    | true =>
    rw [hpc] at h
    simp only [Bool.not_true, Bool.false_eq_true, if_false] at h
    unfold results2 resultsStore2 at h
    cases hg : genLoop2 (toProg2 id (t :: irs)) (rsOf Pj (t :: irs)) (diagCtx2 Pj (t :: irs) (toProg2 id (t :: irs)))
        (List.range t.ir.length) (toStore (gfir (t :: irs))) with
    | fatal a b =>
      simp only [rsOf] at hg
      simp only [hg] at h
      cases h
    | crash e =>
      simp only [rsOf] at hg
      simp only [hg] at h
      cases h
    | ok y =>
      obtain ⟨res, σ', ds1⟩ := y
      simp only [rsOf] at hg
      simp only [hg, Outcome.ok.injEq, Prod.mk.injEq] at h
      exact ⟨t, irs, ds0, res, σ', ds1, rfl, hg, h.1.symm⟩

/-- no later ROOT (key of the target) carries the same name -/
def LastRoot (G : FileIr) (n : Nat) (k : Key) (name : Str) : Prop :=
  ∀ j sym' ir', k < j → j < n → G[j]? = some (sym', ir') → sym'.name ≠ name

theorem fnsFrom_getElem? (fs : List AFile) : ∀ (l : List AFile) (i k : Nat) (fn : FnInfo),
    (fnsFrom id fs i l)[k]? = some fn →
      ∃ j f p, l[j]? = some f ∧ p ∈ f.ir ∧ fn = fnInfo2 id fs (i + j) p := by
  intro l
  induction l with
  | nil => intro i k fn h; simp [fnsFrom] at h
  | cons g r ih =>
    intro i k fn h
    simp only [fnsFrom] at h
    by_cases hk : k < (g.ir.map (fnInfo2 id fs i)).length
    · rw [List.getElem?_append_left hk, List.getElem?_map] at h
      cases hp : g.ir[k]? with
      | none => simp [hp] at h
      | some p =>
        simp only [hp, Option.map_some, Option.some.injEq] at h
        exact ⟨0, g, p, rfl, List.mem_of_getElem? hp, by rw [← h]; rfl⟩
    · rw [List.getElem?_append_right (Nat.le_of_not_lt hk)] at h
      obtain ⟨j, f, p, hj, hp, e⟩ := ih (i + 1) _ fn h
      exact ⟨j + 1, f, p, hj, hp, by rw [e]; congr 1; omega⟩

theorem cidArgs_progQ (fs : List AFile) (q : Nat → Option Key) : CidArgs (progQ fs q) := by
  intro k c c' hc hc' e
  have hfn : fnAt (progQ fs q) k = ((fnsFrom id fs 0 fs)[k]?).getD { iface := ⟨[], [], none, [], none⟩, calls := [] } := rfl
  cases hk : (fnsFrom id fs 0 fs)[k]? with
  | none => rw [hfn, hk] at hc; cases hc
  | some fn =>
    obtain ⟨j, f, p, hj, hp, efn⟩ := fnsFrom_getElem? fs fs 0 k fn hk
    rw [hfn, hk] at hc hc'
    simp only [Option.getD_some, efn, fnInfo2, id, List.mem_map, Nat.zero_add] at hc hc'
    obtain ⟨cs, hcs, e1⟩ := hc
    obtain ⟨cs', hcs', e2⟩ := hc'
    subst e1; subst e2
    obtain ⟨g, hg, hsame⟩ := canonH_spec hj
    have hall : Pipeline.allCalls g.ir = Pipeline.allCalls f.ir := (sameFile_iff.mp hsame).2.2
    simp only [callRec2, callsAt, hg, hall, Nat.add_left_cancel_iff] at e
    have hm : cs ∈ Pipeline.allCalls f.ir := Pipeline.mem_allCalls hp hcs
    have hm' : cs' ∈ Pipeline.allCalls f.ir := Pipeline.mem_allCalls hp hcs'
    rw [Pipeline.cidOf_inj hm hm' e]

/-- **The depth-one shape, multi-file.** After a successful run with a coherent resolver `q`: for
every root `k` of the target whose resolvable callees (in whatever file) are leaves, the document
entry under its name is `entry` of a result whose names are exactly its own ones plus, for every
resolvable call `c` to `g`, the own names of `g` unbound with the swaps of `c`. -/
theorem run2_localD1 {Pj : Project} {doc : ResultsDoc} {ds : List Diag} (h : run2 Pj = .ok (doc, ds)) :
    ∃ t irs ds0, analyseAll Pj = .ok (t, irs, ds0) ∧
      ∀ q, Coherent (toProg2 id (t :: irs)) (rsOf Pj (t :: irs)) q →
        ∀ k sym ir, k < t.ir.length → (gfir (t :: irs))[k]? = some (sym, ir) →
          LastRoot (gfir (t :: irs)) t.ir.length k sym.name → LocalD1 (progQ (t :: irs) q) k →
          ∃ res, Dict.get? doc sym.name = some (entry ir res) ∧
            ∀ kd x, x ∈ res.of kd ↔ x ∈ (toStore (gfir (t :: irs)) k).of kd ∨
              ∃ c ∈ (fnAt (progQ (t :: irs) q) k).calls, ∃ g, q c.cid = some g ∧
                ∃ n ∈ (toStore (gfir (t :: irs)) g).of kd,
                  unbindName n ((Dict.get? (swapsOf (progQ (t :: irs) q) g c) n.base).getD n.base) = some x := by
  obtain ⟨t, irs, ds0, res, σ', ds1, ha, hg, hdoc⟩ := run2_ok h
  refine ⟨t, irs, ds0, ha, ?_⟩
  intro q hco k sym ir hk hG hlast hL
  rw [genLoop2_eq_genLoop_coh hco] at hg
  have hgen := Pipeline.genLoop_generate _ _ _ _ hg
  have hfst := generate_fst _ _ _ _ _ hgen
  obtain ⟨r, hm⟩ := Pipeline.mem_rs_of_lt hfst hk
  obtain ⟨pre, post, e, hpost⟩ := Pipeline.split_at_key hfst hm
  refine ⟨r, ?_, ?_⟩
  · rw [hdoc, e]
    refine Pipeline.mkDoc_get? _ pre post k r sym ir hG ?_
    intro p hp sym' ir' hp'
    have hlt : p.1 < t.ir.length := by
      have : p.1 ∈ res.map Prod.fst := List.mem_map.mpr ⟨p, by rw [e]; simp [hp], rfl⟩
      rw [hfst] at this
      exact List.mem_range.mp this
    exact hlast p.1 sym' ir' (hpost p hp) hlt hp'
  · intro kd x
    exact generate_localD1_mem (cidArgs_progQ _ q) _ _ σ' hgen hm hL kd x

/-- **Composition, multi-file.** A successful run is: `analyseAll` (target + followed modules); the
proved `Results.generate` on ONE program over the concatenated FileIrs (for every coherent resolver
`q`), roots = the target's keys in order, one shared store; `mkDoc`. -/
theorem run2_generate {Pj : Project} {doc : ResultsDoc} {ds : List Diag} (h : run2 Pj = .ok (doc, ds)) :
    ∃ t irs ds0, analyseAll Pj = .ok (t, irs, ds0) ∧
      ∀ q, Coherent (toProg2 id (t :: irs)) (rsOf Pj (t :: irs)) q →
        ∃ res σ', generate (progQ (t :: irs) q) (List.range t.ir.length) (toStore (gfir (t :: irs))) = .ok (res, σ') ∧
          doc = mkDoc (gfir (t :: irs)) res := by
  obtain ⟨t, irs, ds0, res, σ', ds1, ha, hg, hdoc⟩ := run2_ok h
  refine ⟨t, irs, ds0, ha, ?_⟩
  intro q hco
  rw [genLoop2_eq_genLoop_coh hco] at hg
  exact ⟨res, σ', Pipeline.genLoop_generate _ _ _ _ hg, hdoc⟩

/-- what result generation sees of one resolvable call: the arguments, the callee's interface,
the callee's own sets -/
def edgeViews (Q : Prog) (own : Store) (k : Key) : List (CallArgs Str × Iface Str × IrSets) :=
  (fnAt Q k).calls.filterMap fun c => (Q.resolve c.cid).map fun g => (c.args, (fnAt Q g).iface, own g)

/-- the names a depth-one root reports, as a function of its own sets and its edge views only -/
def ViaViews (s : StandIns Str) (ownk : IrSets) (views : List (CallArgs Str × Iface Str × IrSets))
    (kd : Kind) (x : NameS) : Prop :=
  x ∈ ownk.of kd ∨ ∃ v ∈ views, ∃ n ∈ v.2.2.of kd,
    unbindName n ((Dict.get? (Swaps.construct s v.2.1 v.1).1 n.base).getD n.base) = some x

theorem viaViews_iff (Q : Prog) (own : Store) (k : Key) (kd : Kind) (x : NameS) :
    (x ∈ (own k).of kd ∨ ∃ c ∈ (fnAt Q k).calls, ∃ g, Q.resolve c.cid = some g ∧ ∃ n ∈ (own g).of kd,
        unbindName n ((Dict.get? (swapsOf Q g c) n.base).getD n.base) = some x) ↔
      ViaViews (si Q) (own k) (edgeViews Q own k) kd x := by
  unfold ViaViews edgeViews swapsOf
  constructor
  · rintro (h | ⟨c, hc, g, hr, n, hn, hu⟩)
    · exact Or.inl h
    · exact Or.inr ⟨_, List.mem_filterMap.mpr ⟨c, hc, by rw [hr]; rfl⟩, n, hn, hu⟩
  · rintro (h | ⟨v, hv, n, hn, hu⟩)
    · exact Or.inl h
    · obtain ⟨c, hc, e⟩ := List.mem_filterMap.mp hv
      cases hr : Q.resolve c.cid with
      | none => simp [hr] at e
      | some g =>
        simp only [hr, Option.map_some, Option.some.injEq] at e
        subst e
        exact Or.inr ⟨c, hc, g, hr, n, hn, hu⟩

theorem viaViews_congr {s : StandIns Str} {o : IrSets} {v1 v2 : List (CallArgs Str × Iface Str × IrSets)}
    (hv : ∀ v, v ∈ v1 ↔ v ∈ v2) (kd : Kind) (x : NameS) : ViaViews s o v1 kd x ↔ ViaViews s o v2 kd x := by
  unfold ViaViews
  constructor
  · rintro (h | ⟨v, hv', r⟩)
    · exact Or.inl h
    · exact Or.inr ⟨v, (hv v).mp hv', r⟩
  · rintro (h | ⟨v, hv', r⟩)
    · exact Or.inl h
    · exact Or.inr ⟨v, (hv v).mpr hv', r⟩

/-! ### the resolver of the model is ALWAYS coherent: an equality class determines the file -/

/-- the file an equality class belongs to (classes are numbered file by file) -/
def fileOfFrom : Nat → List AFile → Nat → Nat
  | i, [], _ => i
  | i, f :: r, cid =>
    if cid < (allCalls f.ir).length then i else fileOfFrom (i + 1) r (cid - (allCalls f.ir).length)

/-- the ONE resolver: the class's Call symbol, resolved from the class's file -/
def qAll (Pj : Project) (fs : List AFile) : Nat → Option Key := fun cid =>
  match (allCalls2 fs)[cid]? with
  | none => none
  | some c =>
    match resolveCall2 Pj fs (fileOfFrom 0 fs cid) c with
    | .target k => some k
    | _ => none

theorem fileOfFrom_base : ∀ (fs : List AFile) (i j x : Nat) (f : AFile), fs[j]? = some f →
    x < (allCalls f.ir).length → fileOfFrom i fs (cidBase fs j + x) = i + j := by
  intro fs
  induction fs with
  | nil => intro i j x f hf; simp at hf
  | cons g r ih =>
    intro i j x f hf hx
    cases j with
    | zero =>
      simp only [List.getElem?_cons_zero, Option.some.injEq] at hf
      subst hf
      simp [fileOfFrom, cidBase, hx]
    | succ j' =>
      simp only [List.getElem?_cons_succ] at hf
      have hb : cidBase (g :: r) (j' + 1) = (allCalls g.ir).length + cidBase r j' := by
        simp [cidBase, List.take_succ_cons]
      have hnlt : ¬ (allCalls g.ir).length + cidBase r j' + x < (allCalls g.ir).length := by omega
      have e : (allCalls g.ir).length + cidBase r j' + x - (allCalls g.ir).length = cidBase r j' + x := by omega
      rw [hb]
      simp only [fileOfFrom, hnlt, if_false, e]
      rw [ih (i + 1) j' x f hf hx]
      omega

/-- where the function infos of file `j` sit in `fnsFrom`, and what they are -/
theorem fnsFrom_at (ord : List CallSym → List CallSym) (fs0 : List AFile) : ∀ (l : List AFile) (i k : Nat) (fn : FnInfo),
    (fnsFrom ord fs0 i l)[k]? = some fn →
      ∃ j f idx p, l[j]? = some f ∧ f.ir[idx]? = some p ∧ k = offsetOf l j + idx ∧ fn = fnInfo2 ord fs0 (i + j) p := by
  intro l
  induction l with
  | nil => intro i k fn h; simp [fnsFrom] at h
  | cons g r ih =>
    intro i k fn h
    simp only [fnsFrom] at h
    by_cases hk : k < (g.ir.map (fnInfo2 ord fs0 i)).length
    · rw [List.getElem?_append_left hk, List.getElem?_map] at h
      cases hp : g.ir[k]? with
      | none => simp [hp] at h
      | some p =>
        simp only [hp, Option.map_some, Option.some.injEq] at h
        exact ⟨0, g, k, p, rfl, hp, by simp [offsetOf], by rw [← h]; rfl⟩
    · rw [List.getElem?_append_right (Nat.le_of_not_lt hk)] at h
      obtain ⟨j, f, idx, p, hj, hp, ek, e⟩ := ih (i + 1) _ fn h
      simp only [List.length_map] at hk ek
      refine ⟨j + 1, f, idx, p, hj, hp, ?_, by rw [e]; congr 1; omega⟩
      have hoff : offsetOf (g :: r) (j + 1) = g.ir.length + offsetOf r j := by
        simp [offsetOf, List.take_succ_cons]
      omega

/-- **The model's resolver is coherent, always**: after fix ab5bdf0 an equality class of call
records is (file, Call symbol), so every holder of a class resolves it from the same file. Hence
EVERY multi-file run is `Results.generate` on one program (`run2_generate_all`). -/
theorem coherent_all (Pj : Project) (fs : List AFile) :
    Coherent (toProg2 id fs) (rsOf Pj fs) (qAll Pj fs) := by
  intro k c hc
  have hfn : fnAt (toProg2 id fs) k =
      ((fnsFrom id fs 0 fs)[k]?).getD { iface := ⟨[], [], none, [], none⟩, calls := [] } := rfl
  cases hk : (fnsFrom id fs 0 fs)[k]? with
  | none => rw [hfn, hk] at hc; cases hc
  | some fn =>
    obtain ⟨j, f, idx, p, hj, hp, ek, efn⟩ := fnsFrom_at id fs fs 0 k fn hk
    rw [hfn, hk] at hc
    simp only [Option.getD_some, efn, fnInfo2, id, List.mem_map, Nat.zero_add] at hc
    obtain ⟨cs, hcs, e1⟩ := hc
    subst e1
    have hm : cs ∈ allCalls f.ir := Pipeline.mem_allCalls (List.mem_of_getElem? hp) hcs
    obtain ⟨x, hx⟩ := Pipeline.indexOf?_of_mem hm
    have hxlt : x < (allCalls f.ir).length := by
      have := Pipeline.indexOf?_some hx
      exact (List.getElem?_eq_some_iff.mp this).1
    -- the class is numbered in the representative of file `j` (same path, same Call symbols)
    obtain ⟨g, hg, hsame⟩ := canonH_spec hj
    have hall : allCalls g.ir = allCalls f.ir := (sameFile_iff.mp hsame).2.2
    have hcid : (callRec2 fs j cs).cid = cidBase fs (canonH fs j) + x := by
      simp [callRec2, callsAt, hg, hall, Pipeline.cidOf, hx]
    have hhome : homeOf fs k = j := by
      obtain ⟨h1, _⟩ := global_at fs 0 j idx f p hj hp
      unfold homeOf
      rw [ek, h1]
      simp
    unfold rsOf resolveAt qAll
    rw [hcid, fileOfFrom_base fs 0 (canonH fs j) x g hg (by rw [hall]; exact hxlt), hhome, Nat.zero_add]
    cases (allCalls2 fs)[cidBase fs (canonH fs j) + x]? with
    | none => rfl
    | some c' =>
      simp only
      rw [resolveCall2_canonH Pj fs j c']
      cases resolveCall2 Pj fs j c' <;> rfl

/-- **Composition, unconditionally.** Every successful multi-file run is `Results.generate` on
the ONE program `progQ fs (qAll …)` over the concatenated FileIrs. -/
theorem run2_generate_all {Pj : Project} {doc : ResultsDoc} {ds : List Diag} (h : run2 Pj = .ok (doc, ds)) :
    ∃ t irs ds0 res σ', analyseAll Pj = .ok (t, irs, ds0) ∧
      generate (progQ (t :: irs) (qAll Pj (t :: irs))) (List.range t.ir.length) (toStore (gfir (t :: irs))) = .ok (res, σ') ∧
      doc = mkDoc (gfir (t :: irs)) res := by
  obtain ⟨t, irs, ds0, ha, hq⟩ := run2_generate h
  obtain ⟨res, σ', hg, hd⟩ := hq _ (coherent_all Pj (t :: irs))
  exact ⟨t, irs, ds0, res, σ', ha, hg, hd⟩

/-! ### decidable versions of the hypotheses -/

def localD1B (Q : Prog) (k : Key) : Bool :=
  (fnAt Q k).calls.all fun c =>
    match Q.resolve c.cid with
    | none => true
    | some g => (fnAt Q g).calls.all fun c' => (Q.resolve c'.cid).isNone

theorem localD1_of_B {Q : Prog} {k : Key} (h : localD1B Q k = true) : LocalD1 Q k := by
  intro c hc g hr c' hc'
  unfold localD1B at h
  rw [List.all_eq_true] at h
  have h1 := h c hc
  simp only [hr, List.all_eq_true] at h1
  have := h1 c' hc'
  simpa using this

def lastRootB (G : FileIr) (n : Nat) (k : Key) (name : Str) : Bool :=
  (List.range n).all fun j =>
    !(decide (k < j)) || (match G[j]? with | some p => p.1.name != name | none => true)

theorem lastRoot_of_B {G : FileIr} {n : Nat} {k : Key} {name : Str} (h : lastRootB G n k name = true) :
    LastRoot G n k name := by
  intro j sym' ir' hkj hjn hG
  unfold lastRootB at h
  rw [List.all_eq_true] at h
  have := h j (List.mem_range.mpr hjn)
  simp only [hG, Bool.or_eq_true, Bool.not_eq_true', decide_eq_false_iff_not, bne_iff_ne, ne_eq] at this
  rcases this with h1 | h1
  · exact absurd hkj h1
  · exact h1

/-- the stand-ins of every program the adapters build -/
def defaultSi : StandIns Str := si (toProg2 id [])

abbrev View := CallArgs Str × Iface Str × IrSets

/-- what the depth-one shape of the root called `name` consists of, COMPUTED from the project
without running result generation: (its own sets, its edge views, the names of its calls) — `none`
unless the analysis succeeds, the root exists (the last of its name among the target's keys) and all
its resolvable callees are leaves. -/
def rootView (Pj : Project) (name : Str) : Option (IrSets × List View × List Str) :=
  match analyseAll Pj with
  | .ok (t, irs, _) =>
    let fs := t :: irs
    let G := gfir fs
    let q := qAll Pj fs
    match (List.range t.ir.length).find? (fun k =>
        match G[k]? with
        | some p => p.1.name == name && lastRootB G t.ir.length k name
        | none => false) with
    | none => none
    | some k =>
      match G[k]? with
      | none => none
      | some p =>
        if localD1B (progQ fs q) k then
          some (toStore G k, edgeViews (progQ fs q) (toStore G) k, p.2.calls.map Pipeline.nameOfCall)
        else none
  | _ => none

theorem mem_entry_kind {ir : IR} {res : IrSets} (kd : Kind) (n : Str) :
    (match kd with
      | .get => n ∈ (entry ir res).gets
      | .set => n ∈ (entry ir res).sets
      | .del => n ∈ (entry ir res).dels) ↔ ∃ x ∈ res.of kd, x.full = n := by
  cases kd <;> simp [entry, Pipeline.mem_sortStrs, Pipeline.fulls, IrSets.of]

/-- **`rootView` is what the run reports.** -/
theorem rootView_spec {Pj : Project} {name : Str} {o : IrSets} {vs : List View} {cn : List Str}
    (hv : rootView Pj name = some (o, vs, cn)) {doc : ResultsDoc} {ds : List Diag}
    (h : run2 Pj = .ok (doc, ds)) :
    ∃ e, Dict.get? doc name = some e ∧ (∀ n, n ∈ e.calls ↔ n ∈ cn) ∧
      ∀ kd n, (match kd with
          | .get => n ∈ e.gets
          | .set => n ∈ e.sets
          | .del => n ∈ e.dels) ↔ ∃ x, ViaViews defaultSi o vs kd x ∧ x.full = n := by
  obtain ⟨t, irs, ds0, ha, hthm⟩ := run2_localD1 h
  unfold rootView at hv
  simp only [ha] at hv
  have hcoh := coherent_all Pj (t :: irs)
  · cases hfind : (List.range t.ir.length).find? (fun k =>
          match (gfir (t :: irs))[k]? with
          | some p => p.1.name == name && lastRootB (gfir (t :: irs)) t.ir.length k name
          | none => false) with
    | none => simp [hfind] at hv
    | some k =>
      simp only [hfind] at hv
      have hk : k < t.ir.length := List.mem_range.mp (List.mem_of_find?_eq_some hfind)
      have hpred := List.find?_some hfind
      cases hG : (gfir (t :: irs))[k]? with
      | none => simp [hG] at hv
      | some p =>
        obtain ⟨sym, ir⟩ := p
        simp only [hG, Bool.and_eq_true, beq_iff_eq] at hpred hv
        cases hl : localD1B (progQ (t :: irs) (qAll Pj (t :: irs))) k with
        | false => simp [hl] at hv
        | true =>
          simp only [hl, if_true, Option.some.injEq, Prod.mk.injEq] at hv
          obtain ⟨e1, e2, e3⟩ := hv
          obtain ⟨res, hget, hmem⟩ := hthm _ hcoh k sym ir hk hG
            (by rw [hpred.1]; exact lastRoot_of_B hpred.2) (localD1_of_B hl)
          refine ⟨entry ir res, by rw [← hpred.1]; exact hget, ?_, ?_⟩
          · intro n
            rw [← e3]
            simp [entry, Pipeline.mem_sortStrs]
          · intro kd n
            rw [mem_entry_kind kd n]
            constructor
            · rintro ⟨x, hx, hxn⟩
              refine ⟨x, ?_, hxn⟩
              rw [← e1, ← e2]
              exact (viaViews_iff _ _ k kd x).mp ((hmem kd x).mp hx)
            · rintro ⟨x, hx, hxn⟩
              refine ⟨x, (hmem kd x).mpr ((viaViews_iff _ _ k kd x).mpr ?_), hxn⟩
              rw [← e1, ← e2] at hx
              exact hx

def subsetB {α : Type} [DecidableEq α] (a b : List α) : Bool := a.all fun x => b.contains x

theorem mem_of_subsetB {α : Type} [DecidableEq α] {a b : List α} (h : subsetB a b = true) {x : α}
    (hx : x ∈ a) : x ∈ b := by
  unfold subsetB at h
  rw [List.all_eq_true] at h
  simpa using h x hx

/-- the decidable hypothesis of the equivalence theorem: in both projects the root called `name`
has a depth-one shape, with equal own sets and the same edge views. -/
def depthOneEquivB (Pj Pj' : Project) (name : Str) : Bool :=
  match rootView Pj name, rootView Pj' name with
  | some (o, vs, _), some (o', vs', _) => decide (o = o') && subsetB vs vs' && subsetB vs' vs
  | _, _ => false

/-- …and the callee spellings of that root are the same in both -/
def callNamesB (Pj Pj' : Project) (name : Str) : Bool :=
  match rootView Pj name, rootView Pj' name with
  | some (_, _, cn), some (_, _, cn') => subsetB cn cn' && subsetB cn' cn
  | _, _ => false

/-- **Depth-one equivalence of two projects.** If the root called `name` has, in both projects,
resolvable callees that are leaves, equal own sets and the same edge views (arguments, callee
interface, callee own sets) — wherever the callees live and however they are imported — the two
runs print entries with the same gets / sets / dels under that name; and the same calls when the
callees are spelled the same. -/
theorem depthOne_equiv {Pj Pj' : Project} {name : Str} (hB : depthOneEquivB Pj Pj' name = true)
    {doc doc' : ResultsDoc} {ds ds' : List Diag} (h : run2 Pj = .ok (doc, ds)) (h' : run2 Pj' = .ok (doc', ds')) :
    ∃ e e', Dict.get? doc name = some e ∧ Dict.get? doc' name = some e' ∧
      (∀ n, (n ∈ e.gets ↔ n ∈ e'.gets) ∧ (n ∈ e.sets ↔ n ∈ e'.sets) ∧ (n ∈ e.dels ↔ n ∈ e'.dels)) ∧
      (callNamesB Pj Pj' name = true → ∀ n, n ∈ e.calls ↔ n ∈ e'.calls) := by
  unfold depthOneEquivB at hB
  unfold callNamesB
  cases hv : rootView Pj name with
  | none => simp [hv] at hB
  | some v =>
    obtain ⟨o, vs, cn⟩ := v
    cases hv' : rootView Pj' name with
    | none => simp [hv, hv'] at hB
    | some v' =>
      obtain ⟨o', vs', cn'⟩ := v'
      simp only [hv, hv', Bool.and_eq_true, decide_eq_true_eq] at hB
      obtain ⟨⟨eo, s1⟩, s2⟩ := hB
      subst eo
      obtain ⟨e, hg, hc, hm⟩ := rootView_spec hv h
      obtain ⟨e', hg', hc', hm'⟩ := rootView_spec hv' h'
      have hvv : ∀ v, v ∈ vs ↔ v ∈ vs' := fun v => ⟨mem_of_subsetB s1, mem_of_subsetB s2⟩
      have key : ∀ kd n, (∃ x, ViaViews defaultSi o vs kd x ∧ x.full = n) ↔
          (∃ x, ViaViews defaultSi o vs' kd x ∧ x.full = n) := by
        intro kd n
        constructor
        · rintro ⟨x, hx, e⟩; exact ⟨x, (viaViews_congr hvv kd x).mp hx, e⟩
        · rintro ⟨x, hx, e⟩; exact ⟨x, (viaViews_congr hvv kd x).mpr hx, e⟩
      refine ⟨e, e', hg, hg', ?_, ?_⟩
      · intro n
        exact ⟨(hm .get n).trans ((key .get n).trans (hm' .get n).symm),
          (hm .set n).trans ((key .set n).trans (hm' .set n).symm),
          (hm .del n).trans ((key .del n).trans (hm' .del n).symm)⟩
      · intro hcn n
        simp only [Bool.and_eq_true] at hcn
        rw [hc, hc']
        exact ⟨mem_of_subsetB hcn.1, mem_of_subsetB hcn.2⟩

end depthone

end Rattr.Pipeline2
